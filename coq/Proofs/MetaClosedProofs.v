(** Proofs about Model/MetaClosed.v: the closed composition proxy x LP farm x staking farm x pair x hub.
      A  the callee calls of a proxy endpoint: outputs, laws, runs of the callee models
      B  (1) every closed step projects onto a MetaStaking step whose answers satisfy ALL interface laws, and onto runs
             of valid operations of the callee models;
         (2) the closed invariant [CI] (= the invariants of all component models) over every history; hence the C15
             clauses on every reachable closed state with NO law hypothesis
      C  (3) cross-contract conservation: the staking positions the proxy holds in the proxy model ARE its holdings in the
             staking-farm model; the staking farm's virtual principal = sum of the outstanding dual-yield amounts;
             the LP-farm side for claim / unstake / stake
      D  (4) no proxy operation fails because a callee counter would go negative (composition with
             [farm_no_spurious_failure] / [pstep_live]): partial, per callee call.
    Inputs that stay inputs (see Model/MetaClosed.v): the pair's safe-price answer (law L6 + non-negativity are the
    hypothesis [cwf]), the boosted payouts, block / epoch. *)
From MX Require Import Base.Prelude Gen.Params.
From MX Require Import Model.MetaClosed.
From MX Require Proofs.MetaStakingProofs Proofs.MetaBehalfProofs.
From MX Require Proofs.FarmInv Proofs.FarmSolv Proofs.FarmOwner Proofs.FarmLockedProofs Proofs.FarmTotal.
From MX Require Proofs.StakingProofs Proofs.StakingPosProofs Proofs.LawsC15 Proofs.BehalfProofs Proofs.AccessProofs.

Module MSP := MX.Proofs.MetaStakingProofs.
Module MBP := MX.Proofs.MetaBehalfProofs.
Module FI := MX.Proofs.FarmInv.
Module FS := MX.Proofs.FarmSolv.
Module FO := MX.Proofs.FarmOwner.
Module FLP := MX.Proofs.FarmLockedProofs.
Module FT := MX.Proofs.FarmTotal.
Module SPP := MX.Proofs.StakingPosProofs.
Module BP := MX.Proofs.BehalfProofs.
Module BF := MX.Proofs.BehalfProofs.FarmB.
Module LW := MX.Proofs.MetaStakingProofs.Laws.

Ltac mon H x Hx := apply bind_ok in H; destruct H as (x & Hx & H).

(** ================================================================== validity of operations *)
(** a plain account: not the proxy, not the LP farm *)
Definition uid (c : Z) : Prop := FI.valid_id c /\ c <> PX /\ c <> LPFARM.

Lemma px_valid : FI.valid_id PX.
Proof. unfold FI.valid_id, PX, ST.PROXY. lia. Qed.

Definition lp_user_op (op : F.fop) : Prop :=
  match op with
  | F.FEnter _ _ c _ _ _ | F.FClaim _ _ c _ _ _ | F.FCompound _ _ c _ _ _ | F.FExit _ _ c _ _
  | F.FMerge _ _ c _ _ | F.FClaimBoosted _ _ c _ => uid c
  | F.FTransfer _ s d _ => uid s /\ uid d
  | _ => True
  end.

Definition stk_user_op (op : SP.pop) : Prop :=
  match op with
  | SP.PStakeProxy _ _ c _ _ _ _ | SP.PClaimNewValue _ _ c _ _ _ _ | SP.PUnstakeProxy _ _ c _ _ _ _ => c <> PX
  | _ => True
  end.

Definition cvalid (op : cop) : Prop :=
  match op with
  | CStake _ _ c _ _ _ _ _ | CClaim _ _ c _ _ _ _ _ | CUnstake _ _ c _ _ _ _ _ => uid c
  | CXfer _ _ _ _ => True
  | CStakeOB _ _ a u _ _ _ _ _ => uid a /\ uid u
  | CClaimOB _ _ a _ _ _ _ _ => uid a
  | CHub op => uid (BP.hub_caller op)
  | CLp (FL.LF op) => lp_user_op op
  | CLp _ => True
  | CStk op => SPP.sep_op op /\ stk_user_op op
  | CPair _ => True
  end.

(** the inputs that stay inputs are well-formed: the safe-price answer has one payment per pool token (L6) and
    non-negative amounts (BigUint) *)
Definition spa_ok (spa : MS.two) : Prop := MS.law_L6 spa = true /\ MS.two_nonneg spa = true.
Definition cwf (op : cop) : Prop :=
  match op with
  | CStake _ _ _ _ _ spa _ _ | CClaim _ _ _ _ _ spa _ _ | CStakeOB _ _ _ _ _ _ spa _ _ | CClaimOB _ _ _ _ _ spa _ _ => spa_ok spa
  | _ => True
  end.

Lemma lp_user_valid op : lp_user_op op -> FI.valid_op op.
Proof. destruct op; simpl; unfold uid; tauto. Qed.

(** every listed pair was listed by a plain account *)
Definition chub_ok (h : AC.hub) : Prop := forall u a, AC.pmem (u, a) (AC.h_wl h) = true -> uid u.

Lemma chub_step h op h' : AC.hub_step h op = Ok h' -> chub_ok h -> uid (BP.hub_caller op) -> chub_ok h'.
Proof.
  unfold AC.hub_step, chub_ok. intros H K V u a.
  destruct op as [c x|c x|c x|c x]; simpl in *.
  - destruct (negb _); [|discriminate]. inversion H; subst; clear H. simpl.
    destruct (AC.pair_eqb (u, a) (c, x)) eqn:E; simpl.
    + apply BP.pair_eqb_eq in E. inversion E; subst. intros _. exact V.
    + apply K.
  - destruct (AC.pmem _ _); [|discriminate]. inversion H; subst; clear H. simpl.
    intros P. apply BP.pmem_premove in P. eapply K; eauto.
  - destruct (c =? _); [|discriminate]. inversion H; subst; clear H. simpl. apply K.
  - destruct (c =? _); [|discriminate]. inversion H; subst; clear H. simpl. apply K.
Qed.

(** ================================================================== A. the callee calls *)
Lemma prun_one sp op sp' o : SP.pstep sp op = Ok (sp', o) -> SP.prun sp [op] = sp'.
Proof. intros H. unfold SP.prun. simpl. unfold SP.pstep_total. rewrite H. reflexivity. Qed.

Lemma prun_app sp l1 l2 : SP.prun sp (l1 ++ l2) = SP.prun (SP.prun sp l1) l2.
Proof. unfold SP.prun. apply fold_left_app. Qed.

Lemma opt_ok {A} (o : option A) a : opt o = Ok a -> o = Some a.
Proof. destruct o; simpl; intros H; inversion H; reflexivity. Qed.

(** ---------------------------------------------------------------- the LP farm: outputs of the endpoints the proxy uses *)
Lemma pay_all_pos ps : forall f c f', F.pay_all f c ps = Ok f' -> Forall (fun p : Z * Z => 0 < snd p) ps.
Proof.
  induction ps as [|p t IH]; intros f c f' H; simpl in H; [constructor|].
  mon H f1 H1. constructor; [|eapply IH; eassumption].
  unfold F.pay_in in H1. mon H1 f0 H0. unfold F.debit_held in H0. destruct p as [n x]. simpl.
  destruct (0 <? x) eqn:E; [apply Z.ltb_lt in E; exact E | discriminate].
Qed.

Lemma pay_sum_pos ps : Forall (fun p : Z * Z => 0 < snd p) ps -> 0 <= LW.pay_sum ps.
Proof. induction 1 as [|p t Hp _ IH]; simpl; lia. Qed.

Lemma pay_all_cfg ps : forall f c f', F.pay_all f c ps = Ok f' -> FI.MI f -> FI.MI f' /\ F.f_dsc f' = F.f_dsc f.
Proof.
  intros f c f' H M. split; [eapply FI.pay_all_MI; eassumption|].
  destruct (FI.pay_all_post _ _ _ _ H (FI.mi_led _ M)) as [(_ & Hc & _) _ _ _ _ _ _ _ _ _ _ _ _].
  unfold FI.cfgt in Hc. congruence.
Qed.

Lemma farm_claim_out f blk ep c first adds b f' o : F.ep_claim f blk ep c first adds b = Ok (f', o) -> FI.MI f ->
  exists n amt r, o = [n; amt; r] /\ 0 < snd first /\ 0 <= r /\ 0 <= b.
Proof.
  unfold F.ep_claim. intros H M.
  destruct (F.active f); [|discriminate].
  mon H f1 H1. mon H f2 H2. mon H a Ha. mon H part Hpart. mon H base Hbase. mon H f3 H3. mon H f4 H4. mon H m Hm.
  destruct (F.mint_pos f4 m c) as [f5 k]. inversion H; subst. clear H.
  pose proof (pay_all_pos _ _ _ _ H1) as Hpos. inversion Hpos as [|? ? Hx _]; subst.
  destruct (pay_all_cfg _ _ _ _ H1 M) as (M1 & D1).
  destruct (FI.settle_spec _ _ _ H2 (FI.mi_wf _ M1)) as (C2 & _).
  assert (Hd : 0 < F.f_dsc f2).
  { destruct (FI.mi_wf _ M) as (Hd & _). unfold FI.cfgt in C2. assert (F.f_dsc f2 = F.f_dsc f1) by congruence. lia. }
  pose proof (FLP.base_reward_nonneg _ _ _ _ Hbase Hd ltac:(lia)) as Hb0.
  destruct (FI.pay_reward_spec _ _ _ _ H3) as (_ & _ & _ & _ & _ & _ & _ & (Hb & _) & _).
  exists k, (F.a_amt m), (base + b). repeat split; try assumption; lia.
Qed.

Lemma farm_exit_out f blk ep c p b f' o : F.ep_exit f blk ep c p b = Ok (f', o) -> FI.MI f ->
  exists out r, o = [out; r] /\ 0 < snd p /\ 0 <= out /\ 0 <= r /\ 0 <= b.
Proof.
  unfold F.ep_exit. intros H M.
  destruct (F.active f); [|discriminate].
  mon H f1 H1. mon H f2 H2. mon H a Ha. mon H part Hpart. mon H base Hbase. mon H f3 H3. mon H f4 H4.
  mon H sup Hsup. mon H age Hage. cbv zeta in H. mon H out Hout. mon H bal Hbal. inversion H; subst. clear H.
  assert (H1' : F.pay_all f c [p] = Ok f1) by (simpl; rewrite H1; reflexivity).
  pose proof (pay_all_pos _ _ _ _ H1') as Hpos. inversion Hpos as [|? ? Hx _]; subst.
  destruct (pay_all_cfg _ _ _ _ H1' M) as (M1 & D1).
  destruct (FI.settle_spec _ _ _ H2 (FI.mi_wf _ M1)) as (C2 & _).
  assert (Hd : 0 < F.f_dsc f2).
  { destruct (FI.mi_wf _ M) as (Hd & _). unfold FI.cfgt in C2. assert (F.f_dsc f2 = F.f_dsc f1) by congruence. lia. }
  pose proof (FLP.base_reward_nonneg _ _ _ _ Hbase Hd ltac:(lia)) as Hb0.
  destruct (FI.pay_reward_spec _ _ _ _ H3) as (_ & _ & _ & _ & _ & _ & _ & (Hb & _) & _).
  apply sub_chk_ok in Hout. destruct Hout as [Hle ->].
  eexists. exists (base + b). split; [reflexivity|]. repeat split; try assumption; lia.
Qed.

Lemma farm_merge_out f blk ep c ps b f' o : F.ep_merge f blk ep c ps b = Ok (f', o) ->
  exists n, o = [n; LW.pay_sum ps; b] /\ 0 <= b /\ 0 <= LW.pay_sum ps /\ Forall (fun p : Z * Z => 0 < snd p) ps.
Proof.
  intros H. pose proof H as H0. unfold F.ep_merge in H.
  destruct (F.active f); [|discriminate].
  destruct ps as [|first rest]; [discriminate|].
  mon H f0 Hf0. mon H f1 H1. mon H f2 H2. mon H a Ha. mon H part Hpart. mon H m0 Hm.
  destruct (F.mint_pos f2 _ c) as [f3 k] eqn:Em. inversion H; subst o f3. clear H.
  pose proof (pay_all_pos _ _ _ _ H1) as Hpos.
  destruct (FI.pay_reward_spec _ _ _ _ Hf0) as (_ & _ & _ & _ & _ & _ & _ & (Hb & _) & _).
  cbn [F.a_amt] in H0.
  assert (E : F.a_amt m0 = LW.pay_sum (first :: rest)).
  { apply (LW.L2_farm_merge f blk ep c (first :: rest) b f' k (F.a_amt m0) b). rewrite H0. reflexivity. }
  exists k. cbn [F.a_amt]. rewrite E. split; [reflexivity|]. split; [exact Hb|]. split; [apply pay_sum_pos; exact Hpos | exact Hpos].
Qed.

(** ---------------------------------------------------------------- calls with the user as original caller *)
Definition via_ops (u : Z) (toks : list (Z * Z)) (op : F.fop) (back : bool) (o : F.fouts) : list F.fop :=
  map (FB.xfer PX u) toks ++ op :: (if back then [F.FTransfer (nth 0 o 0) u PX (nth 1 o 0)] else []).

Lemma lp_via_user_spec lf u toks op back lf' o rc :
  lp_via_user lf u toks op back = Ok (lf', o, rc) -> FI.valid_id u -> FI.valid_op op ->
  exists f1,
    FB.fseq (FL.l_f lf) (map (FB.xfer PX u) toks) = Ok f1 /\
    F.fstep f1 op = Ok (F.frun (FL.l_f lf) (map (FB.xfer PX u) toks ++ [op]), o) /\
    FL.l_f lf' = F.frun (FL.l_f lf) (via_ops u toks op back o) /\
    Forall FI.valid_op (via_ops u toks op back o) /\
    FL.l_lock lf' = FL.l_lock lf /\ FL.l_opts lf' = FL.l_opts lf.
Proof.
  unfold lp_via_user. intros H Hu Hop.
  mon H lf1 H1. mon H r Hr. destruct r as [[lf2 o2] rc2].
  apply BF.lseq_xfers in H1. destruct H1 as (Hq & Hl1 & Ho1).
  apply BF.lstep_LF in Hr. destruct Hr as (Hf & Ho2 & Hl2 & _).
  pose proof (BF.fseq_frun _ _ _ Hq) as E1.
  assert (E2 : F.frun (FL.l_f lf) (map (FB.xfer PX u) toks ++ [op]) = FL.l_f lf2).
  { rewrite BF.frun_app, <- E1. eapply BF.frun_one. exact Hf. }
  assert (Vx : Forall FI.valid_op (map (FB.xfer PX u) toks)) by (apply BF.xfers_valid; [exact px_valid | exact Hu]).
  exists (FL.l_f lf1). split; [exact Hq|].
  destruct back.
  - mon H r' Hr'. destruct r' as [[lf3 o3] rc3]. cbn [fst] in H. inversion H; subst lf' o rc. clear H.
    apply BF.lstep_LF in Hr'. destruct Hr' as (Hf' & Ho3 & Hl3 & _).
    split; [rewrite E2; exact Hf|]. split.
    + unfold via_ops. change (op :: [F.FTransfer (nth 0 o2 0) u PX (nth 1 o2 0)]) with ([op] ++ [F.FTransfer (nth 0 o2 0) u PX (nth 1 o2 0)]).
      rewrite app_assoc, BF.frun_app, E2. symmetry. eapply BF.frun_one. exact Hf'.
    + split; [|split; congruence].
      unfold via_ops. apply Forall_app. split; [exact Vx|]. constructor; [exact Hop|]. constructor; [|constructor].
      simpl. split; [exact Hu | exact px_valid].
  - inversion H; subst lf' o rc. clear H.
    split; [rewrite E2; exact Hf|]. split; [unfold via_ops; rewrite E2; reflexivity|].
    split; [|split; congruence].
    unfold via_ops. apply Forall_app. split; [exact Vx|]. constructor; [exact Hop | constructor].
Qed.

Lemma farmok_mi f : FS.FarmOK f -> FI.MI f.
Proof. intros (A & _ & _). destruct A as [M _ _]. exact M. Qed.

Lemma fseq_mi f ops f1 : FB.fseq f ops = Ok f1 -> FS.FarmOK f -> Forall FI.valid_op ops -> FI.MI f1.
Proof. intros H K V. apply BF.fseq_frun in H. subst f1. apply farmok_mi. apply FS.frun_ok; assumption. Qed.

Lemma uid_valid c : uid c -> FI.valid_id c.
Proof. intros (H & _). exact H. Qed.

(** ---------------------------------------------------------------- what a proxy endpoint's composition establishes *)
Record callee_runs (cs cs' : cst) : Prop := mkRuns {
  cr_lf : exists fops, Forall FI.valid_op fops /\ FL.l_f (c_lf cs') = F.frun (FL.l_f (c_lf cs)) fops;
  cr_sp : exists pops, Forall SPP.sep_op pops /\ c_sp cs' = SP.prun (c_sp cs) pops;
  cr_sf : c_stkfirst cs' = c_stkfirst cs
}.

Lemma callee_runs_refl cs : callee_runs cs cs.
Proof. constructor; try reflexivity; exists []; split; constructor. Qed.

(** claimDualYield *)
Record claim_facts (cs cs' : cst) (u : Z) (pays : list MS.pay) (spa : MS.two) (o : MS.outs) (calls : list MS.call)
  (e : MS.env_claim) (n p : Z) (part : MS.dattr) (v : Z) : Prop := mkClaimF {
  cf_pays : pays = [(MS.TK_DY, n, p)];
  cf_rel : exists s1, MS.release (c_ms cs) u n p = Ok (s1, part);
  cf_pick : exists ot oa, MS.pick_staking spa = Ok (v, ot, oa);
  cf_step : MS.step (c_ms cs) (MS.Claim u false pays e) = Ok (c_ms cs', o, calls);
  cf_sp : MS.ec_sp e = spa;
  cf_L1 : MS.law_L1 part e = true;
  cf_L4 : MS.law_L4 v e = true;
  cf_nonneg : 0 <= MS.ec_lpa e /\ 0 <= MS.ec_rl e /\ 0 <= MS.ec_sfa e /\ 0 <= MS.ec_rs e;
  cf_lp_call : exists f1 f2 bl blk ep, FB.fseq (FL.l_f (c_lf cs)) [FB.xfer PX u (MS.d_lpn part, MS.d_lpa part)] = Ok f1 /\
                 F.ep_claim f1 blk ep u (MS.d_lpn part, MS.d_lpa part) [] bl = Ok (f2, [MS.ec_lpn e; MS.ec_lpa e; MS.ec_rl e]);
  cf_stk_call : exists blk ep bs sp', SP.pstep (c_sp cs) (SP.PClaimNewValue blk ep PX u (MS.d_sfn part, MS.d_sfa part) v bs)
                                      = Ok (sp', [MS.ec_sfn e; MS.ec_sfa e; MS.ec_rs e]) /\ c_sp cs' = sp';
  cf_runs : callee_runs cs cs';
  cf_pair : c_pair cs' = c_pair cs;
  cf_hub : c_hub cs' = c_hub cs
}.

Lemma c_claim_spec cs blk ep u pays fail spa bl bs cs' o calls e :
  c_claim cs blk ep u pays fail spa bl bs = Ok (cs', o, calls, e) ->
  FS.FarmOK (FL.l_f (c_lf cs)) -> SPP.Inv (c_sp cs) -> FI.valid_id u ->
  exists n p part v, claim_facts cs cs' u pays spa o calls e n p part v.
Proof.
  unfold c_claim. intros H K I Hu.
  destruct pays as [|p0 [|? ?]]; try discriminate.
  destruct (MS.p_tok p0 =? MS.TK_DY) eqn:Et; [|discriminate]. apply Z.eqb_eq in Et.
  mon H rp Hrp. destruct rp as [s1 part]. cbn [snd] in H.
  destruct fail; [discriminate|]. cbn [negb] in H.
  mon H pk Hpk. destruct pk as [[v ot] oa]. cbn [fst] in H.
  mon H rl Hrl. destruct rl as [[lf1 lo] rc].
  mon H e1 He1. apply opt_ok in He1. cbn [fst snd] in He1, H.
  mon H rs Hrs. destruct rs as [sp1 so]. cbn [fst snd] in H.
  mon H e2 He2. apply opt_ok in He2.
  mon H rr Hrr. destruct rr as [[ms' o'] calls']. inversion H; subst cs' o calls e. clear H.
  destruct p0 as [[t0 n] p]. unfold MS.p_tok, MS.p_nonce, MS.p_amt in *. cbn [fst snd] in *. subst t0.
  set (tok := (MS.d_lpn part, MS.d_lpa part)) in *.
  assert (Vop : FI.valid_op (F.FClaim blk ep u tok [] bl)) by exact Hu.
  destruct (lp_via_user_spec _ _ _ _ _ _ _ _ Hrl Hu Vop) as (f1 & Hq & Hf & Hlf & Vall & _).
  cbn [F.fstep] in Hf.
  assert (M1 : FI.MI f1).
  { eapply fseq_mi; [exact Hq | exact K|]. apply BF.xfers_valid; [exact px_valid | exact Hu]. }
  destruct (farm_claim_out _ _ _ _ _ _ _ _ _ Hf M1) as (n' & amt' & r & -> & Hx & Hr & Hb).
  pose proof (LW.L1_farm_claim _ _ _ _ _ _ _ _ _ _ _ Hf) as Hamt. subst amt'.
  cbn [answer_of_lp_claimRewards] in He1. inversion He1; subst e1. clear He1.
  destruct (L15.L4_staking _ _ _ _ _ _ _ _ _ _ _ (MS.mkEC false spa n' (MS.d_lpa part) r 0 0 0) I Hrs)
    as (e0 & He0 & HL4 & Hfl & Hsp & Hlpn & Hlpa & Hrl' & _ & _ & _ & _ & _ & _ & _ & _ & Hsfa & Hrs' & _).
  unfold rest_claim in He2. cbn [MS.ec_fail MS.ec_sp MS.ec_lpn MS.ec_lpa MS.ec_rl MS.ec_sfn MS.ec_sfa MS.ec_rs] in He2.
  rewrite He0 in He2. inversion He2; subst e0. clear He2.
  cbn [MS.ec_fail MS.ec_sp MS.ec_lpn MS.ec_lpa MS.ec_rl] in Hfl, Hsp, Hlpn, Hlpa, Hrl'.
  destruct so as [|x1 [|x2 [|x3 [|? ?]]]]; try discriminate He0.
  cbn [L15.answer_of_claimRewardsWithNewValue MS.ec_fail MS.ec_sp MS.ec_lpn MS.ec_lpa MS.ec_rl] in He0. inversion He0; subst e2. clear He0.
  cbn [MS.ec_sfa MS.ec_rs MS.ec_lpa MS.ec_rl MS.ec_sfn MS.ec_lpn MS.ec_sp] in *.
  exists n, p, part, v. constructor; cbn [c_ms c_lf c_sp c_pair c_hub c_stkfirst MS.ec_sfa MS.ec_rs MS.ec_lpa MS.ec_rl MS.ec_sfn MS.ec_lpn MS.ec_sp].
  - reflexivity.
  - exists s1. exact Hrp.
  - exists ot, oa. exact Hpk.
  - exact Hrr.
  - reflexivity.
  - unfold MS.law_L1. cbn. apply Z.eqb_refl.
  - exact HL4.
  - unfold tok in Hx. cbn [snd] in Hx. repeat split; lia.
  - exists f1, (F.frun (FL.l_f (c_lf cs)) (map (FB.xfer PX u) [tok] ++ [F.FClaim blk ep u tok [] bl])), bl, blk, ep.
    split; [exact Hq | exact Hf].
  - exists blk, ep, bs, sp1. split; [exact Hrs | reflexivity].
  - constructor; cbn [c_lf c_sp c_hub c_stkfirst]; try reflexivity.
    + eexists. split; [exact Vall | exact Hlf].
    + exists [SP.PClaimNewValue blk ep PX u (MS.d_sfn part, MS.d_sfa part) v bs]. split.
      * constructor; [exact px_valid | constructor].
      * symmetry. eapply prun_one. exact Hrs.
  - reflexivity.
  - reflexivity.
Qed.

Lemma tok_code_L6 sf x1 x2 : MS.law_L6 (tok_code sf PR.T1, x1, tok_code sf PR.T2, x2) = true.
Proof. destruct sf; reflexivity. Qed.

(** unstakeFarmTokens *)
Record unstake_facts (cs cs' : cst) (u : Z) (pays : list MS.pay) (m1 m2 : Z) (o : MS.outs) (calls : list MS.call)
  (e : MS.env_unstake) (n p : Z) (part : MS.dattr) (stk : Z) : Prop := mkUnstakeF {
  uf_pays : pays = [(MS.TK_DY, n, p)];
  uf_rel : exists s1, MS.release (c_ms cs) u n p = Ok (s1, part);
  uf_pick : exists ot oa, MS.pick_staking (MS.eu_rm e) = Ok (stk, ot, oa);
  uf_step : MS.step (c_ms cs) (MS.Unstake u false pays m1 m2 e) = Ok (c_ms cs', o, calls);
  uf_L5 : MS.law_L5 stk e = true;
  uf_L6 : MS.law_L6 (MS.eu_rm e) = true;
  uf_nonneg : MS.two_nonneg (MS.eu_rm e) = true /\ 0 <= MS.eu_lp e /\ 0 <= MS.eu_rl e /\ 0 <= MS.eu_uba e /\ 0 <= MS.eu_rs e;
  uf_lp_call : exists f1 f2 bl blk ep, FB.fseq (FL.l_f (c_lf cs)) [FB.xfer PX u (MS.d_lpn part, MS.d_lpa part)] = Ok f1 /\
                 F.ep_exit f1 blk ep u (MS.d_lpn part, MS.d_lpa part) bl = Ok (f2, [MS.eu_lp e; MS.eu_rl e]) /\ FL.l_f (c_lf cs') = f2;
  uf_pair_call : exists p1 x1 x2 eff, lp_exit_flow (c_pair cs) PX (MS.d_lpa part) (MS.eu_lp e) = Ok p1 /\
                 PR.ep_remove p1 PX (MS.eu_lp e) m1 m2 = Ok (c_pair cs', [x1; x2], eff) /\
                 MS.eu_rm e = (tok_code (c_stkfirst cs) PR.T1, x1, tok_code (c_stkfirst cs) PR.T2, x2);
  uf_stk_call : exists blk ep bs sp1, SP.pstep (c_sp cs) (SP.PUnstakeProxy blk ep PX u (MS.d_sfn part, MS.d_sfa part) stk bs)
                                      = Ok (sp1, [MS.eu_ubn e; MS.eu_uba e; MS.eu_rs e]) /\
                 SP.pstep sp1 (SP.PTransferUb (MS.eu_ubn e) PX u (MS.eu_uba e)) = Ok (c_sp cs', []);
  uf_runs : callee_runs cs cs';
  uf_hub : c_hub cs' = c_hub cs
}.

Lemma c_unstake_spec cs blk ep u pays m1 m2 bl bs cs' o calls e :
  c_unstake cs blk ep u pays m1 m2 bl bs = Ok (cs', o, calls, e) ->
  FS.FarmOK (FL.l_f (c_lf cs)) -> SPP.Inv (c_sp cs) -> FI.valid_id u ->
  exists n p part stk, unstake_facts cs cs' u pays m1 m2 o calls e n p part stk.
Proof.
  unfold c_unstake. intros H K I Hu.
  destruct pays as [|p0 [|? ?]]; try discriminate.
  destruct (MS.p_tok p0 =? MS.TK_DY) eqn:Et; [|discriminate]. apply Z.eqb_eq in Et.
  mon H rp Hrp. destruct rp as [s1 part]. cbn [snd] in H.
  mon H rl Hrl. destruct rl as [[lf1 lo] rc]. cbn [fst snd] in H.
  mon H e1 He1. apply opt_ok in He1.
  mon H p1 Hp1.
  mon H rq Hrq. destruct rq as [[p2 po] eff]. cbn [fst snd] in H.
  mon H e2 He2. apply opt_ok in He2.
  mon H pk Hpk. destruct pk as [[stk ot] oa]. cbn [fst] in H.
  mon H rs Hrs. destruct rs as [sp1 so]. cbn [fst snd] in H.
  mon H e3 He3. apply opt_ok in He3.
  mon H rt Hrt. destruct rt as [sp2 to]. cbn [fst] in H.
  mon H rr Hrr. destruct rr as [[ms' o'] calls']. inversion H; subst cs' o calls e. clear H.
  destruct p0 as [[t0 n] p]. unfold MS.p_tok, MS.p_nonce, MS.p_amt in *. cbn [fst snd] in *. subst t0.
  set (tok := (MS.d_lpn part, MS.d_lpa part)) in *.
  assert (Vop : FI.valid_op (F.FExit blk ep u tok bl)) by exact Hu.
  destruct (lp_via_user_spec _ _ _ _ _ _ _ _ Hrl Hu Vop) as (f1 & Hq & Hf & Hlf & Vall & _).
  cbn [F.fstep] in Hf.
  assert (M1 : FI.MI f1).
  { eapply fseq_mi; [exact Hq | exact K|]. apply BF.xfers_valid; [exact px_valid | exact Hu]. }
  destruct (farm_exit_out _ _ _ _ _ _ _ _ Hf M1) as (out & r & -> & Hx & Hout & Hr & Hb).
  cbn [answer_of_lp_exitFarm] in He1. inversion He1; subst e1. clear He1.
  cbn [MS.eu_lp MS.eu_fail MS.eu_rm MS.eu_ubn MS.eu_uba MS.eu_rs MS.eu_rl rest_unstake] in *.
  cbn [PR.step] in Hrq.
  destruct (LW.L6_pair_remove _ _ _ _ _ _ _ _ Hrq) as (x1 & x2 & -> & Hx1 & Hx2).
  cbn [answer_of_pair_removeLiquidity MS.eu_lp MS.eu_fail MS.eu_rm MS.eu_ubn MS.eu_uba MS.eu_rs MS.eu_rl] in He2.
  inversion He2; subst e2. clear He2.
  cbn [MS.eu_lp MS.eu_fail MS.eu_rm MS.eu_ubn MS.eu_uba MS.eu_rs MS.eu_rl] in *.
  destruct (L15.L5_staking _ _ _ _ _ _ _ _ _ _ _
              (MS.mkEU false out r (tok_code (c_stkfirst cs) PR.T1, x1, tok_code (c_stkfirst cs) PR.T2, x2) 0 0 0) I Hrs)
    as (e0 & He0 & HL5 & _ & _ & _ & _ & _ & _ & _ & _ & _ & _ & _ & Huba & Hrs' & _).
  rewrite He0 in He3. inversion He3; subst e0. clear He3.
  destruct so as [|y1 [|y2 [|y3 [|? ?]]]]; try discriminate He0.
  cbn [L15.answer_of_unstakeFarmThroughProxy MS.eu_lp MS.eu_fail MS.eu_rm MS.eu_rl] in He0. inversion He0; subst e3. clear He0.
  cbn [MS.eu_lp MS.eu_fail MS.eu_rm MS.eu_ubn MS.eu_uba MS.eu_rs MS.eu_rl] in *.
  assert (Hto : to = []).
  { cbn [SP.pstep] in Hrt. unfold SP.ep_transfer_ub in Hrt. mon Hrt spx Hx'. inversion Hrt. reflexivity. }
  subst to.
  exists n, p, part, stk. constructor; cbn [c_ms c_lf c_sp c_pair c_hub c_stkfirst MS.eu_lp MS.eu_fail MS.eu_rm MS.eu_ubn MS.eu_uba MS.eu_rs MS.eu_rl].
  - reflexivity.
  - exists s1. exact Hrp.
  - exists ot, oa. exact Hpk.
  - exact Hrr.
  - exact HL5.
  - apply tok_code_L6.
  - split; [|repeat split; lia]. unfold MS.two_nonneg.
    apply andb_true_intro. split; apply Z.leb_le; lia.
  - exists f1, (F.frun (FL.l_f (c_lf cs)) (map (FB.xfer PX u) [tok] ++ [F.FExit blk ep u tok bl])), bl, blk, ep.
    split; [exact Hq|]. split; [exact Hf|]. rewrite Hlf. unfold via_ops. rewrite app_nil_r || reflexivity.
  - exists p1, x1, x2, eff. split; [exact Hp1|]. split; [exact Hrq | reflexivity].
  - exists blk, ep, bs, sp1. split; [exact Hrs | exact Hrt].
  - constructor; cbn [c_lf c_sp c_hub c_stkfirst]; try reflexivity.
    + eexists. split; [exact Vall | exact Hlf].
    + exists [SP.PUnstakeProxy blk ep PX u (MS.d_sfn part, MS.d_sfa part) stk bs; SP.PTransferUb y1 PX u y2]. split.
      * constructor; [exact px_valid|]. constructor; [exact Logic.I | constructor].
      * change [SP.PUnstakeProxy blk ep PX u (MS.d_sfn part, MS.d_sfa part) stk bs; SP.PTransferUb y1 PX u y2]
          with ([SP.PUnstakeProxy blk ep PX u (MS.d_sfn part, MS.d_sfa part) stk bs] ++ [SP.PTransferUb y1 PX u y2]).
        rewrite prun_app, (prun_one _ _ _ _ Hrs). symmetry. eapply prun_one. exact Hrt.
  - reflexivity.
Qed.

Lemma pay_sum_app l1 l2 : LW.pay_sum (l1 ++ l2) = LW.pay_sum l1 + LW.pay_sum l2.
Proof. induction l1 as [|p t IH]; simpl; [reflexivity | rewrite IH; lia]. Qed.

Lemma pay_sum_lp_toks parts : LW.pay_sum (lp_toks parts) = MS.sum_lpa parts.
Proof. induction parts as [|p t IH]; simpl; [reflexivity | rewrite IH; reflexivity]. Qed.

(** stakeFarmTokens ([pc] pays the LP-farm token, [u] is the original caller) *)
Record stake_facts (cs cs' : cst) (pc u : Z) (pays : list MS.pay) (spa : MS.two) (o : MS.outs) (calls : list MS.call)
  (e : MS.env_stake) (k a : Z) (adds : list MS.pay) (parts : list MS.dattr) (v : Z) : Prop := mkStakeF {
  sf_pays : pays = (MS.TK_LPF, k, a) :: adds;
  sf_rel : exists s1, MS.release_all (c_ms cs) u adds = Ok (s1, parts);
  sf_pick : exists ot oa, MS.pick_staking spa = Ok (v, ot, oa);
  sf_step : MS.step (c_ms cs) (MS.Stake u false pays e) = Ok (c_ms cs', o, calls);
  sf_sp : MS.es_sp e = spa;
  sf_L3 : MS.law_L3 v parts e = true;
  sf_L2 : adds <> [] -> MS.law_L2 a parts e = true;
  sf_nonneg : 0 <= MS.es_bs e /\ 0 <= MS.es_lpa e /\ 0 <= MS.es_bl e;
  sf_arrive : exists f0, F.ep_transfer (FL.l_f (c_lf cs)) k pc PX a = Ok (f0, []) /\
                (adds = [] -> FL.l_f (c_lf cs') = f0) /\
                (adds <> [] -> exists f1 f2 blk ep,
                   FB.fseq f0 (map (FB.xfer PX u) (lp_toks parts ++ [(k, a)])) = Ok f1 /\
                   F.ep_merge f1 blk ep u (lp_toks parts ++ [(k, a)]) (MS.es_bl e) = Ok (f2, [MS.es_lpn e; MS.es_lpa e; MS.es_bl e]));
  sf_stk_call : exists blk ep, SP.pstep (c_sp cs) (SP.PStakeProxy blk ep PX u v (sf_toks parts) (MS.es_bs e))
                               = Ok (c_sp cs', [MS.es_sfn e; MS.es_sfa e; MS.es_bs e]);
  sf_runs : callee_runs cs cs';
  sf_pair : c_pair cs' = c_pair cs;
  sf_hub : c_hub cs' = c_hub cs
}.

Lemma c_stake_spec cs blk ep pc u pays fail spa bs bl cs' o calls e :
  c_stake cs blk ep pc u pays fail spa bs bl = Ok (cs', o, calls, e) ->
  FS.FarmOK (FL.l_f (c_lf cs)) -> SPP.Inv (c_sp cs) -> FI.valid_id pc -> FI.valid_id u ->
  exists k a adds parts v, stake_facts cs cs' pc u pays spa o calls e k a adds parts v.
Proof.
  unfold c_stake. intros H K I Hpc Hu.
  destruct pays as [|first adds]; [discriminate|].
  destruct (MS.p_tok first =? MS.TK_LPF) eqn:Et; [|discriminate]. apply Z.eqb_eq in Et.
  destruct (forallb MS.is_dy adds) eqn:Edy; [|discriminate].
  mon H r0 Hr0. destruct r0 as [[lf0 o0] rc0]. cbn [fst] in H.
  mon H rp Hrp. destruct rp as [s1 parts]. cbn [snd] in H.
  destruct fail; [discriminate|]. cbn [negb] in H.
  mon H pk Hpk. destruct pk as [[v ot] oa]. cbn [fst] in H.
  mon H rs Hrs. destruct rs as [sp1 so]. cbn [fst snd] in H.
  mon H e1 He1. apply opt_ok in He1.
  destruct first as [[t0 k] a]. unfold MS.p_tok, MS.p_nonce, MS.p_amt in *. cbn [fst snd] in *. subst t0.
  apply BF.lstep_LF in Hr0. destruct Hr0 as (Hf0 & _ & _ & _). cbn [F.fstep] in Hf0.
  destruct (BF.ep_transfer_frame _ _ _ _ _ _ _ Hf0) as (_ & _ & -> & _).
  assert (V0 : FI.valid_op (F.FTransfer k pc PX a)) by (split; [exact Hpc | exact px_valid]).
  assert (K0 : FS.FarmOK (FL.l_f lf0)).
  { assert (E : F.fstep (FL.l_f (c_lf cs)) (F.FTransfer k pc PX a) = Ok (FL.l_f lf0, [])) by exact Hf0.
    destruct (FS.fstep_ok _ _ _ _ E K V0) as (K0 & _). exact K0. }
  destruct (L15.L3_staking _ _ _ _ _ _ _ _ _ _ (rest_stake spa) I Hrs) as (e0 & He0 & Hsfa & HL3 & _ & _ & Hbs).
  rewrite He0 in He1. inversion He1; subst e0. clear He1.
  destruct so as [|y1 [|y2 [|y3 [|? ?]]]]; try discriminate He0.
  cbn [L15.answer_of_stakeFarmThroughProxy rest_stake MS.es_fail MS.es_sp MS.es_lpn MS.es_lpa MS.es_bl] in He0.
  inversion He0; subst e1. clear He0. cbn [MS.es_bs MS.es_sfa] in Hbs, Hsfa.
  assert (Ey3 : y3 = bs).
  { clear - Hrs. cbn [SP.pstep] in Hrs. unfold SP.ep_stake in Hrs.
    destruct (SP.whitelisted PX); [|discriminate]. destruct (0 <? v); [|discriminate].
    mon Hrs g1 H1. mon Hrs g2 H2. destruct (ST.active (SP.p_s g2)); [|discriminate].
    mon Hrs g3 H3. cbv zeta in Hrs. mon Hrs g5 H5. mon Hrs m Hm.
    match type of Hrs with (let '(_, _) := SP.mint_pos ?g0 _ _ in _) = _ => destruct (SP.mint_pos g0 m PX) as [g7 kk] end.
    inversion Hrs. reflexivity. }
  subst y3.
  assert (Hstk : SP.prun (c_sp cs) [SP.PStakeProxy blk ep PX u v (sf_toks parts) bs] = sp1) by (eapply prun_one; exact Hrs).
  assert (Vp : Forall SPP.sep_op [SP.PStakeProxy blk ep PX u v (sf_toks parts) bs]) by (constructor; [exact px_valid | constructor]).
  destruct adds as [|ad adds'].
  - (* no additional tokens *)
    cbn [bind] in H. mon H rr Hrr. destruct rr as [[ms' o'] calls']. inversion H; subst cs' o calls e. clear H.
    exists k, a, [], parts, v. constructor; cbn [c_ms c_lf c_sp c_pair c_hub c_stkfirst MS.es_sp MS.es_bs MS.es_lpa MS.es_bl MS.es_sfn MS.es_sfa MS.es_lpn].
    + reflexivity.
    + exists s1. exact Hrp.
    + exists ot, oa. exact Hpk.
    + exact Hrr.
    + reflexivity.
    + apply HL3. reflexivity.
    + intros Hne. contradiction.
    + repeat split; lia.
    + exists (FL.l_f lf0). split; [exact Hf0|]. split; [reflexivity | intros Hne; contradiction].
    + exists blk, ep. exact Hrs.
    + constructor; cbn [c_lf c_sp c_hub c_stkfirst]; try reflexivity.
      * exists [F.FTransfer k pc PX a]. split; [constructor; [exact V0 | constructor]|]. symmetry.
        assert (E0 : F.fstep (FL.l_f (c_lf cs)) (F.FTransfer k pc PX a) = Ok (FL.l_f lf0, [])) by exact Hf0.
        eapply BF.frun_one. exact E0.
      * eexists. split; [exact Vp | symmetry; exact Hstk].
    + reflexivity.
    + reflexivity.
  - set (adds := ad :: adds') in *.
    set (toks := lp_toks parts ++ [(k, a)]) in *.
    mon H rm Hrm. mon Hrm r Hr. destruct r as [[lfm lo] rcm]. cbn [fst snd] in Hrm.
    mon Hrm e2' He2. apply opt_ok in He2. inversion Hrm; subst rm. clear Hrm.
    mon H rr Hrr. destruct rr as [[ms' o'] calls']. inversion H; subst cs' o calls e. clear H.
    assert (Vop : FI.valid_op (F.FMerge blk ep u toks bl)) by exact Hu.
    destruct (lp_via_user_spec _ _ _ _ _ _ _ _ Hr Hu Vop) as (f1 & Hq & Hf & Hlf & Vall & _).
    cbn [F.fstep] in Hf.
    destruct (farm_merge_out _ _ _ _ _ _ _ _ Hf) as (nm & -> & Hbl & Hsum & _).
    cbn [answer_of_lp_mergeFarmTokens MS.es_fail MS.es_sp MS.es_sfn MS.es_sfa MS.es_bs] in He2. inversion He2; subst e2'. clear He2.
    exists k, a, adds, parts, v. constructor; cbn [c_ms c_lf c_sp c_pair c_hub c_stkfirst MS.es_sp MS.es_bs MS.es_lpa MS.es_bl MS.es_sfn MS.es_sfa MS.es_lpn].
    + reflexivity.
    + exists s1. exact Hrp.
    + exists ot, oa. exact Hpk.
    + exact Hrr.
    + reflexivity.
    + specialize (HL3 parts eq_refl). unfold MS.law_L3 in *. cbn [MS.es_sfa] in *. exact HL3.
    + intros _. unfold MS.law_L2. cbn [MS.es_lpa]. unfold toks. rewrite pay_sum_app, pay_sum_lp_toks. simpl. apply Z.eqb_eq. lia.
    + repeat split; lia.
    + exists (FL.l_f lf0). split; [exact Hf0|]. split; [intros Hne; discriminate|]. intros _.
      exists f1, (F.frun (FL.l_f lf0) (map (FB.xfer PX u) toks ++ [F.FMerge blk ep u toks bl])), blk, ep.
      split; [exact Hq | exact Hf].
    + exists blk, ep. exact Hrs.
    + constructor; cbn [c_lf c_sp c_hub c_stkfirst]; try reflexivity.
      * exists ([F.FTransfer k pc PX a] ++ via_ops u toks (F.FMerge blk ep u toks bl) true [nm; LW.pay_sum toks; bl]). split.
        -- apply Forall_app. split; [constructor; [exact V0 | constructor] | exact Vall].
        -- assert (E0 : F.fstep (FL.l_f (c_lf cs)) (F.FTransfer k pc PX a) = Ok (FL.l_f lf0, [])) by exact Hf0.
           rewrite BF.frun_app, (BF.frun_one _ _ _ _ E0). exact Hlf.
      * eexists. split; [exact Vp | symmetry; exact Hstk].
    + reflexivity.
    + reflexivity.
Qed.

(** ================================================================== B. projection, laws, invariants *)
(** ALL interface laws of Model/MetaStaking.v on the answers an operation carries (exactly what Run/MetaStakingRun.v
    [law_check] evaluates on real answers), plus the sign conditions [env_nonneg] *)
Definition lawful (s : MS.st) (op : MS.mop) : Prop :=
  MS.env_nonneg op = true /\
  match op with
  | MS.Stake c _ pays e =>
      exists k a adds s1 parts v ot oa,
        pays = (MS.TK_LPF, k, a) :: adds /\ MS.release_all s c adds = Ok (s1, parts) /\
        MS.pick_staking (MS.es_sp e) = Ok (v, ot, oa) /\
        MS.law_L6 (MS.es_sp e) = true /\ MS.law_L3 v parts e = true /\ (adds <> [] -> MS.law_L2 a parts e = true)
  | MS.Claim c _ pays e =>
      exists n p s1 part v ot oa,
        pays = [(MS.TK_DY, n, p)] /\ MS.release s c n p = Ok (s1, part) /\
        MS.pick_staking (MS.ec_sp e) = Ok (v, ot, oa) /\
        MS.law_L6 (MS.ec_sp e) = true /\ MS.law_L1 part e = true /\ MS.law_L4 v e = true
  | MS.Unstake c _ pays _ _ e =>
      exists stk ot oa, MS.pick_staking (MS.eu_rm e) = Ok (stk, ot, oa) /\
        MS.law_L6 (MS.eu_rm e) = true /\ MS.law_L5 stk e = true
  | MS.Xfer _ _ _ _ => True
  end.

Lemma leb_true a b : a <= b -> (a <=? b) = true.
Proof. intros. apply Z.leb_le. assumption. Qed.

Lemma stake_facts_lawful cs cs' pc u pays spa o calls e k a adds parts v :
  stake_facts cs cs' pc u pays spa o calls e k a adds parts v -> spa_ok spa ->
  lawful (c_ms cs) (MS.Stake u false pays e).
Proof.
  intros [Kp (s1 & Kr) (ot & oa & Kpk) Ks Ksp K3 K2 (Nb & Nl & Nbl) _ _ _ _ _] (H6 & Hnn).
  assert (Hsfa : 0 < MS.es_sfa e).
  { pose proof Ks as Ks'. cbn [MS.step] in Ks'. apply MSP.stake_spec in Ks'.
    destruct Ks' as (k' & a' & adds' & s1' & s3 & s4 & parts' & v' & ot' & oa' & n' & K).
    pose proof (MSP.mt_pos _ _ _ _ _ (MSP.sk_mint _ _ _ _ _ _ _ _ _ _ _ _ _ _ _ _ _ _ K)) as Hp.
    unfold MSP.merged_attr in Hp. destruct adds'; exact Hp. }
  split.
  - cbn [MS.env_nonneg]. rewrite Ksp, Hnn. cbn [andb]. rewrite !leb_true by lia. reflexivity.
  - exists k, a, adds, s1, parts, v, ot, oa. rewrite Ksp. repeat split; assumption.
Qed.

Lemma claim_facts_lawful cs cs' u pays spa o calls e n p part v :
  claim_facts cs cs' u pays spa o calls e n p part v -> spa_ok spa ->
  lawful (c_ms cs) (MS.Claim u false pays e).
Proof.
  intros [Kp (s1 & Kr) (ot & oa & Kpk) Ks Ksp K1 K4 (N1 & N2 & N3 & N4) _ _ _ _ _] (H6 & Hnn).
  split.
  - cbn [MS.env_nonneg]. rewrite Ksp, Hnn. cbn [andb]. rewrite !leb_true by lia. reflexivity.
  - exists n, p, s1, part, v, ot, oa. rewrite Ksp. repeat split; assumption.
Qed.

Lemma unstake_facts_lawful cs cs' u pays m1 m2 o calls e n p part stk :
  unstake_facts cs cs' u pays m1 m2 o calls e n p part stk ->
  lawful (c_ms cs) (MS.Unstake u false pays m1 m2 e).
Proof.
  intros [Kp (s1 & Kr) (ot & oa & Kpk) Ks K5 K6 (N0 & N1 & N2 & N3 & N4) _ _ _ _ _].
  split.
  - cbn [MS.env_nonneg]. rewrite N0. cbn [andb]. rewrite !leb_true by lia. reflexivity.
  - exists stk, ot, oa. repeat split; assumption.
Qed.

(** the closed invariant: the invariants of every component model *)
Record CI (cs : cst) : Prop := mkCI {
  ci_ms : MSP.Inv (c_ms cs);                                               (* C15: backing, fungible balances 0 *)
  ci_lf : FS.FarmOK (FL.l_f (c_lf cs));                                    (* C05 of the LP farm *)
  ci_ut : FO.UT (FL.l_f (c_lf cs)) /\ FO.AttrFresh (FL.l_f (c_lf cs));     (* C07 of the LP farm *)
  ci_ti : FT.FarmTI (FL.l_f (c_lf cs));                                    (* what totality of the LP farm needs *)
  ci_sp : SPP.Inv (c_sp cs);                                               (* C05-C07, C12 of the staking farm *)
  ci_virt : SPP.VirtInv (c_sp cs);                                         (* virtual principal = the proxy's positions *)
  ci_hub : chub_ok (c_hub cs)
}.

(** (1) for the three ordinary endpoints: the closed step IS a MetaStaking step on the answers the callee models
    computed ([canswers]), these answers satisfy all interface laws, and the callee states moved by runs of valid
    operations of their own models *)
Theorem closed_step_lawful cs op cs' o calls :
  cstep cs op = Ok (cs', o, calls) -> CI cs -> cvalid op -> cwf op ->
  match op with
  | CStake _ _ c pays _ spa _ _ =>
      exists e, canswers cs op = AStake e /\ MS.es_sp e = spa /\
        MS.step (c_ms cs) (MS.Stake c false pays e) = Ok (c_ms cs', o, calls) /\
        lawful (c_ms cs) (MS.Stake c false pays e) /\ callee_runs cs cs' /\ c_pair cs' = c_pair cs
  | CClaim _ _ c pays _ spa _ _ =>
      exists e, canswers cs op = AClaim e /\ MS.ec_sp e = spa /\
        MS.step (c_ms cs) (MS.Claim c false pays e) = Ok (c_ms cs', o, calls) /\
        lawful (c_ms cs) (MS.Claim c false pays e) /\ callee_runs cs cs' /\ c_pair cs' = c_pair cs
  | CUnstake _ _ c pays m1 m2 _ _ =>
      exists e, canswers cs op = AUnstake e /\
        MS.step (c_ms cs) (MS.Unstake c false pays m1 m2 e) = Ok (c_ms cs', o, calls) /\
        lawful (c_ms cs) (MS.Unstake c false pays m1 m2 e) /\ callee_runs cs cs'
  | _ => True
  end.
Proof.
  intros H [_ K _ _ I _ _] V W. destruct op; try exact Logic.I; cbn [cstep] in H; cbn [cvalid] in V; cbn [cwf] in W.
  - mon H r Hr. destruct r as [[[cs2 o2] calls2] e]. inversion H; subst cs2 o2 calls2. clear H.
    destruct (c_stake_spec _ _ _ _ _ _ _ _ _ _ _ _ _ _ Hr K I (uid_valid _ V) (uid_valid _ V)) as (k & a & adds & parts & v & F).
    exists e. split; [cbn [canswers]; rewrite Hr; reflexivity|].
    split; [exact (sf_sp _ _ _ _ _ _ _ _ _ _ _ _ _ _ F)|]. split; [exact (sf_step _ _ _ _ _ _ _ _ _ _ _ _ _ _ F)|].
    split; [eapply stake_facts_lawful; eassumption|].
    split; [exact (sf_runs _ _ _ _ _ _ _ _ _ _ _ _ _ _ F) | exact (sf_pair _ _ _ _ _ _ _ _ _ _ _ _ _ _ F)].
  - mon H r Hr. destruct r as [[[cs2 o2] calls2] e]. inversion H; subst cs2 o2 calls2. clear H.
    destruct (c_claim_spec _ _ _ _ _ _ _ _ _ _ _ _ _ Hr K I (uid_valid _ V)) as (n & p & part & v & F).
    exists e. split; [cbn [canswers]; rewrite Hr; reflexivity|].
    split; [exact (cf_sp _ _ _ _ _ _ _ _ _ _ _ _ F)|]. split; [exact (cf_step _ _ _ _ _ _ _ _ _ _ _ _ F)|].
    split; [eapply claim_facts_lawful; eassumption|].
    split; [exact (cf_runs _ _ _ _ _ _ _ _ _ _ _ _ F) | exact (cf_pair _ _ _ _ _ _ _ _ _ _ _ _ F)].
  - mon H r Hr. destruct r as [[[cs2 o2] calls2] e]. inversion H; subst cs2 o2 calls2. clear H.
    destruct (c_unstake_spec _ _ _ _ _ _ _ _ _ _ _ _ _ Hr K I (uid_valid _ V)) as (n & p & part & stk & F).
    exists e. split; [cbn [canswers]; rewrite Hr; reflexivity|].
    split; [exact (uf_step _ _ _ _ _ _ _ _ _ _ _ _ _ F)|].
    split; [eapply unstake_facts_lawful; eassumption | exact (uf_runs _ _ _ _ _ _ _ _ _ _ _ _ _ F)].
Qed.

(** ---------------------------------------------------------------- the on-behalf compositions *)
Module MB := MX.Model.MetaBehalf.

Lemma xfer_all_eq ps : forall s a u, xfer_all s a u ps = MB.xfer_all s a u ps.
Proof. induction ps as [|p t IH]; intros s a u; simpl; [reflexivity|]. destruct (MS.ep_xfer s a u (MS.p_nonce p) (MS.p_amt p)) as [r|]; simpl; [apply IH | reflexivity]. Qed.

Lemma c_stake_ob_parts cs blk ep a u pays fail spa bs bl cs' o calls e :
  c_stake_ob cs blk ep a u pays fail spa bs bl = Ok (cs', o, calls, e) ->
  AC.is_whitelisted (c_hub cs) u a = true /\
  exists first adds s1 cs2 s3,
    pays = first :: adds /\ MS.p_tok first = MS.TK_LPF /\ lp_owner cs (MS.p_nonce first) = Ok u /\ c_owners_all cs u adds = Ok tt /\
    xfer_all (c_ms cs) a u adds = Ok s1 /\
    c_stake (with_ms cs s1) blk ep a u pays fail spa bs bl = Ok (cs2, o, calls, e) /\
    MS.ep_xfer (c_ms cs2) u a (nth 0 o 0) (nth 1 o 0) = Ok (s3, [], []) /\ cs' = with_ms cs2 s3.
Proof.
  unfold c_stake_ob. intros H.
  destruct (AC.is_whitelisted (c_hub cs) u a) eqn:Ew; [|discriminate]. split; [reflexivity|].
  destruct pays as [|first adds]; [discriminate|].
  destruct (MS.p_tok first =? MS.TK_LPF) eqn:Et; [|discriminate]. apply Z.eqb_eq in Et.
  mon H w Hw. destruct (w =? u) eqn:Eu; [|discriminate]. apply Z.eqb_eq in Eu. subst w.
  mon H t Ho. destruct t. mon H s1 H1. mon H r Hr. destruct r as [[[cs2 o2] calls2] e2].
  mon H r3 H3. destruct r3 as [[s3 o3] c3]. cbn [fst] in H. inversion H; subst cs' o calls e. clear H.
  pose proof (MSP.xfer_back _ _ _ _ _ _ _ _ H3) as (_ & _ & -> & ->).
  exists first, adds, s1, cs2, s3. repeat split; assumption.
Qed.

Lemma c_claim_ob_parts cs blk ep a pays fail spa bl bs cs' o calls e u :
  c_claim_ob cs blk ep a pays fail spa bl bs = Ok (cs', o, calls, e, u) ->
  exists p s1 cs2 s3,
    pays = [p] /\ c_underlying_owner cs p = Ok u /\ AC.is_whitelisted (c_hub cs) u a = true /\
    xfer_all (c_ms cs) a u [p] = Ok s1 /\
    c_claim (with_ms cs s1) blk ep u pays fail spa bl bs = Ok (cs2, o, calls, e) /\
    MS.ep_xfer (c_ms cs2) u a (nth 2 o 0) (nth 3 o 0) = Ok (s3, [], []) /\ cs' = with_ms cs2 s3.
Proof.
  unfold c_claim_ob. intros H.
  destruct pays as [|p [|? ?]]; try discriminate.
  mon H u0 Hu. destruct (AC.is_whitelisted (c_hub cs) u0 a) eqn:Ew; [|discriminate].
  mon H s1 H1. mon H r Hr. destruct r as [[[cs2 o2] calls2] e2].
  mon H r3 H3. destruct r3 as [[s3 o3] c3]. cbn [fst] in H. inversion H; subst cs' o calls e u0. clear H.
  pose proof (MSP.xfer_back _ _ _ _ _ _ _ _ H3) as (_ & _ & -> & ->).
  exists p, s1, cs2, s3. repeat split; assumption.
Qed.

Lemma callee_runs_with_ms cs s1 cs2 s3 : callee_runs (with_ms cs s1) cs2 -> callee_runs cs (with_ms cs2 s3).
Proof. intros [A B D]. constructor; assumption. Qed.

(** ---------------------------------------------------------------- every operation: runs of the callee models *)
Lemma cstep_runs cs op cs' o calls : cstep cs op = Ok (cs', o, calls) -> CI cs -> cvalid op -> callee_runs cs cs'.
Proof.
  intros H C V. pose proof C as [_ K _ _ I _ Hh].
  destruct op as [blk ep c pays fail spa bs bl | blk ep c pays fail spa bl bs | blk ep c pays m1 m2 bl bs | src dst n amt
                 | blk ep a u pays fail spa bs bl | blk ep a pays fail spa bl bs | hop | lop | pop | qop];
    cbn [cstep] in H; cbn [cvalid] in V.
  - mon H r Hr. destruct r as [[[cs2 o2] calls2] e]. inversion H; subst cs2 o2 calls2. clear H.
    destruct (c_stake_spec _ _ _ _ _ _ _ _ _ _ _ _ _ _ Hr K I (uid_valid _ V) (uid_valid _ V)) as (k & a & adds & parts & v & F).
    exact (sf_runs _ _ _ _ _ _ _ _ _ _ _ _ _ _ F).
  - mon H r Hr. destruct r as [[[cs2 o2] calls2] e]. inversion H; subst cs2 o2 calls2. clear H.
    destruct (c_claim_spec _ _ _ _ _ _ _ _ _ _ _ _ _ Hr K I (uid_valid _ V)) as (n & p & part & v & F).
    exact (cf_runs _ _ _ _ _ _ _ _ _ _ _ _ F).
  - mon H r Hr. destruct r as [[[cs2 o2] calls2] e]. inversion H; subst cs2 o2 calls2. clear H.
    destruct (c_unstake_spec _ _ _ _ _ _ _ _ _ _ _ _ _ Hr K I (uid_valid _ V)) as (n & p & part & stk & F).
    exact (uf_runs _ _ _ _ _ _ _ _ _ _ _ _ _ F).
  - mon H r Hr. inversion H; subst. constructor; cbn; try reflexivity; exists []; split; constructor.
  - destruct V as [Va Vu]. mon H r Hr. destruct r as [[[cs2 o2] calls2] e]. inversion H; subst cs2 o2 calls2. clear H.
    destruct (c_stake_ob_parts _ _ _ _ _ _ _ _ _ _ _ _ _ _ Hr) as (_ & first & adds & s1 & cs2 & s3 & _ & _ & _ & _ & _ & Hs & _ & ->).
    destruct (c_stake_spec _ _ _ _ _ _ _ _ _ _ _ _ _ _ Hs K I (uid_valid _ Va) (uid_valid _ Vu)) as (k & a0 & adds0 & parts & v & F).
    eapply callee_runs_with_ms. exact (sf_runs _ _ _ _ _ _ _ _ _ _ _ _ _ _ F).
  - mon H r Hr. destruct r as [[[[cs2 o2] calls2] e] u]. inversion H; subst cs2 o2 calls2. clear H.
    destruct (c_claim_ob_parts _ _ _ _ _ _ _ _ _ _ _ _ _ _ Hr) as (p & s1 & cs2 & s3 & _ & _ & Hw & _ & Hs & _ & ->).
    apply BP.is_whitelisted_listed in Hw. destruct Hw as [Hw _]. apply Hh in Hw.
    destruct (c_claim_spec _ _ _ _ _ _ _ _ _ _ _ _ _ Hs K I (uid_valid _ Hw)) as (n & p0 & part & v & F).
    eapply callee_runs_with_ms. exact (cf_runs _ _ _ _ _ _ _ _ _ _ _ _ F).
  - mon H h' Hh'. inversion H; subst. constructor; cbn; try reflexivity; exists []; split; constructor.
  - mon H r Hr. destruct r as [cs2 o2]. inversion H; subst cs2 o2 calls. clear H.
    unfold c_lp_direct in Hr. mon Hr r Hl. destruct r as [[lf' o'] rc]. mon Hr p' Hp. inversion Hr; subst cs' o. clear Hr.
    constructor; cbn [c_lf c_sp c_hub c_stkfirst]; try reflexivity; [|exists []; split; constructor].
    destruct lop as [fop|c0 e0].
    + apply BF.lstep_LF in Hl. destruct Hl as (Hf & _). exists [fop]. split; [constructor; [apply lp_user_valid; exact V | constructor]|].
      symmetry. eapply BF.frun_one. exact Hf.
    + apply FLP.lstep_setlock in Hl. destruct Hl as (_ & Hf & _). exists []. split; [constructor | exact Hf].
  - mon H r Hr. destruct r as [sp' o']. inversion H; subst cs' o calls. clear H. destruct V as [Vs _].
    constructor; cbn [c_lf c_sp c_hub c_stkfirst]; try reflexivity; [exists []; split; constructor|].
    exists [pop]. split; [constructor; [exact Vs | constructor]|]. symmetry. eapply prun_one. exact Hr.
  - mon H r Hr. inversion H; subst. constructor; cbn; try reflexivity; exists []; split; constructor.
Qed.

(** ---------------------------------------------------------------- (2) the closed invariant is preserved *)
Lemma runs_ci cs cs' : callee_runs cs cs' -> CI cs -> MSP.Inv (c_ms cs') -> chub_ok (c_hub cs') -> CI cs'.
Proof.
  intros [(fops & Vf & Ef) (pops & Vp & Ep) _] [_ K U T I VI _] Im Hh.
  destruct (BF.frun_all fops _ K U Vf) as (K' & U' & F').
  destruct (SPP.prun_virt pops _ I VI Vp) as (I' & VI').
  constructor; try assumption.
  - rewrite Ef. exact K'.
  - rewrite Ef. split; assumption.
  - rewrite Ef. apply FT.frun_ti; assumption.
  - rewrite Ep. exact I'.
  - rewrite Ep. exact VI'.
Qed.

Lemma xfer_all_inv ps s a u s1 : xfer_all s a u ps = Ok s1 -> MSP.Inv s -> MSP.Inv s1.
Proof. rewrite xfer_all_eq. intros H K. destruct (MBP.xfer_all_inv _ _ _ _ _ H) as (Hi & _). auto. Qed.

Theorem cstep_ci cs op cs' o calls : cstep cs op = Ok (cs', o, calls) -> CI cs -> cvalid op -> cwf op -> CI cs'.
Proof.
  intros H C V W. pose proof (cstep_runs _ _ _ _ _ H C V) as R.
  pose proof C as [Im K _ _ I _ Hh].
  apply (runs_ci cs cs' R C);
  destruct op as [blk ep c pays fail spa bs bl | blk ep c pays fail spa bl bs | blk ep c pays m1 m2 bl bs | src dst n amt
                 | blk ep a u pays fail spa bs bl | blk ep a pays fail spa bl bs | hop | lop | pop | qop];
    cbn [cstep] in H; cbn [cvalid] in V; cbn [cwf] in W.
  (* the proxy's invariant *)
  - mon H r Hr. destruct r as [[[cs2 o2] calls2] e]. inversion H; subst cs2 o2 calls2. clear H.
    destruct (c_stake_spec _ _ _ _ _ _ _ _ _ _ _ _ _ _ Hr K I (uid_valid _ V) (uid_valid _ V)) as (k & a & adds & parts & v & F).
    destruct (stake_facts_lawful _ _ _ _ _ _ _ _ _ _ _ _ _ _ F W) as (Hnn & _).
    eapply MSP.step_inv; [exact (sf_step _ _ _ _ _ _ _ _ _ _ _ _ _ _ F) | exact Hnn | exact Im].
  - mon H r Hr. destruct r as [[[cs2 o2] calls2] e]. inversion H; subst cs2 o2 calls2. clear H.
    destruct (c_claim_spec _ _ _ _ _ _ _ _ _ _ _ _ _ Hr K I (uid_valid _ V)) as (n & p & part & v & F).
    destruct (claim_facts_lawful _ _ _ _ _ _ _ _ _ _ _ _ F W) as (Hnn & _).
    eapply MSP.step_inv; [exact (cf_step _ _ _ _ _ _ _ _ _ _ _ _ F) | exact Hnn | exact Im].
  - mon H r Hr. destruct r as [[[cs2 o2] calls2] e]. inversion H; subst cs2 o2 calls2. clear H.
    destruct (c_unstake_spec _ _ _ _ _ _ _ _ _ _ _ _ _ Hr K I (uid_valid _ V)) as (n & p & part & stk & F).
    destruct (unstake_facts_lawful _ _ _ _ _ _ _ _ _ _ _ _ _ F) as (Hnn & _).
    eapply MSP.step_inv; [exact (uf_step _ _ _ _ _ _ _ _ _ _ _ _ _ F) | exact Hnn | exact Im].
  - mon H r Hr. destruct r as [[ms' o'] c']. inversion H; subst. cbn [with_ms c_ms fst].
    eapply MSP.step_inv; [exact Hr | reflexivity | exact Im].
  - destruct V as [Va Vu]. mon H r Hr. destruct r as [[[cs2 o2] calls2] e]. inversion H; subst cs2 o2 calls2. clear H.
    destruct (c_stake_ob_parts _ _ _ _ _ _ _ _ _ _ _ _ _ _ Hr) as (_ & first & adds & s1 & cs2 & s3 & _ & _ & _ & _ & H1 & Hs & H3 & ->).
    destruct (c_stake_spec _ _ _ _ _ _ _ _ _ _ _ _ _ _ Hs K I (uid_valid _ Va) (uid_valid _ Vu)) as (k & a0 & adds0 & parts & v & F).
    destruct (stake_facts_lawful _ _ _ _ _ _ _ _ _ _ _ _ _ _ F W) as (Hnn & _).
    cbn [with_ms c_ms].
    apply (MSP.step_inv (c_ms cs2) (MS.Xfer u a (nth 0 o 0) (nth 1 o 0)) s3 [] []); [exact H3 | reflexivity|].
    eapply MSP.step_inv; [exact (sf_step _ _ _ _ _ _ _ _ _ _ _ _ _ _ F) | exact Hnn|].
    cbn [with_ms c_ms]. eapply xfer_all_inv; eassumption.
  - mon H r Hr. destruct r as [[[[cs2 o2] calls2] e] u]. inversion H; subst cs2 o2 calls2. clear H.
    destruct (c_claim_ob_parts _ _ _ _ _ _ _ _ _ _ _ _ _ _ Hr) as (p & s1 & cs2 & s3 & _ & _ & Hw & H1 & Hs & H3 & ->).
    apply BP.is_whitelisted_listed in Hw. destruct Hw as [Hw _]. apply Hh in Hw.
    destruct (c_claim_spec _ _ _ _ _ _ _ _ _ _ _ _ _ Hs K I (uid_valid _ Hw)) as (n & p0 & part & v & F).
    destruct (claim_facts_lawful _ _ _ _ _ _ _ _ _ _ _ _ F W) as (Hnn & _).
    cbn [with_ms c_ms].
    apply (MSP.step_inv (c_ms cs2) (MS.Xfer u a (nth 2 o 0) (nth 3 o 0)) s3 [] []); [exact H3 | reflexivity|].
    eapply MSP.step_inv; [exact (cf_step _ _ _ _ _ _ _ _ _ _ _ _ F) | exact Hnn|].
    cbn [with_ms c_ms]. eapply xfer_all_inv; eassumption.
  - mon H h' Hh'. inversion H; subst. exact Im.
  - mon H r Hr. destruct r as [cs2 o2]. inversion H; subst cs2 o2 calls. clear H.
    unfold c_lp_direct in Hr. mon Hr r Hl. destruct r as [[lf' o'] rc]. mon Hr p' Hp. inversion Hr; subst cs' o. exact Im.
  - mon H r Hr. inversion H; subst. exact Im.
  - mon H r Hr. inversion H; subst. exact Im.
  (* the hub *)
  - mon H r Hr. destruct r as [[[cs2 o2] calls2] e]. inversion H; subst cs2 o2 calls2. clear H.
    destruct (c_stake_spec _ _ _ _ _ _ _ _ _ _ _ _ _ _ Hr K I (uid_valid _ V) (uid_valid _ V)) as (k & a & adds & parts & v & F).
    rewrite (sf_hub _ _ _ _ _ _ _ _ _ _ _ _ _ _ F). exact Hh.
  - mon H r Hr. destruct r as [[[cs2 o2] calls2] e]. inversion H; subst cs2 o2 calls2. clear H.
    destruct (c_claim_spec _ _ _ _ _ _ _ _ _ _ _ _ _ Hr K I (uid_valid _ V)) as (n & p & part & v & F).
    rewrite (cf_hub _ _ _ _ _ _ _ _ _ _ _ _ F). exact Hh.
  - mon H r Hr. destruct r as [[[cs2 o2] calls2] e]. inversion H; subst cs2 o2 calls2. clear H.
    destruct (c_unstake_spec _ _ _ _ _ _ _ _ _ _ _ _ _ Hr K I (uid_valid _ V)) as (n & p & part & stk & F).
    rewrite (uf_hub _ _ _ _ _ _ _ _ _ _ _ _ _ F). exact Hh.
  - mon H r Hr. inversion H; subst. exact Hh.
  - destruct V as [Va Vu]. mon H r Hr. destruct r as [[[cs2 o2] calls2] e]. inversion H; subst cs2 o2 calls2. clear H.
    destruct (c_stake_ob_parts _ _ _ _ _ _ _ _ _ _ _ _ _ _ Hr) as (_ & first & adds & s1 & cs2 & s3 & _ & _ & _ & _ & H1 & Hs & H3 & ->).
    destruct (c_stake_spec _ _ _ _ _ _ _ _ _ _ _ _ _ _ Hs K I (uid_valid _ Va) (uid_valid _ Vu)) as (k & a0 & adds0 & parts & v & F).
    cbn [with_ms c_hub]. rewrite (sf_hub _ _ _ _ _ _ _ _ _ _ _ _ _ _ F). exact Hh.
  - mon H r Hr. destruct r as [[[[cs2 o2] calls2] e] u]. inversion H; subst cs2 o2 calls2. clear H.
    destruct (c_claim_ob_parts _ _ _ _ _ _ _ _ _ _ _ _ _ _ Hr) as (p & s1 & cs2 & s3 & _ & _ & Hw & H1 & Hs & H3 & ->).
    apply BP.is_whitelisted_listed in Hw. destruct Hw as [Hw _]. apply Hh in Hw.
    destruct (c_claim_spec _ _ _ _ _ _ _ _ _ _ _ _ _ Hs K I (uid_valid _ Hw)) as (n & p0 & part & v & F).
    cbn [with_ms c_hub]. rewrite (cf_hub _ _ _ _ _ _ _ _ _ _ _ _ F). exact Hh.
  - mon H h' Hh'. inversion H; subst. cbn [c_hub]. eapply chub_step; eassumption.
  - mon H r Hr. destruct r as [cs2 o2]. inversion H; subst cs2 o2 calls. clear H.
    unfold c_lp_direct in Hr. mon Hr r Hl. destruct r as [[lf' o'] rc]. mon Hr p' Hp. inversion Hr; subst cs' o. exact Hh.
  - mon H r Hr. inversion H; subst. exact Hh.
  - mon H r Hr. inversion H; subst. exact Hh.
Qed.

Definition cvalid_ops (ops : list cop) : Prop := Forall (fun op => cvalid op /\ cwf op) ops.

Theorem crun_ci : forall ops cs, CI cs -> cvalid_ops ops -> CI (crun cs ops).
Proof.
  induction ops as [|op t IH]; intros cs C V; [exact C|].
  change (crun cs (op :: t)) with (crun (cstep_total cs op) t). inversion V as [|? ? [V1 V2] Vt]; subst.
  apply IH; [|exact Vt]. unfold cstep_total. destruct (cstep cs op) as [[[cs' o] calls]|er] eqn:E; [|exact C].
  eapply cstep_ci; eassumption.
Qed.

Lemma init_c_ci ldsc opts lock sdsc apr minub fee sfee sf ho : 0 < ldsc -> 0 < sdsc -> 0 < apr ->
  CI (init_c ldsc opts lock sdsc apr minub fee sfee sf ho).
Proof.
  intros Hl Hs Ha. constructor; cbn [init_c c_ms c_lf c_sp c_hub FL.init_locked FL.l_f].
  - exact MSP.init_inv.
  - apply FS.init_farm_ok. exact Hl.
  - apply FO.init_ut.
  - apply FT.init_ti. exact Hl.
  - apply SPP.init_sp_inv; assumption.
  - reflexivity.
  - intros u a H. discriminate.
Qed.

(** the C15 clauses on every reachable closed state - NO law hypothesis: the laws are theorems of the callee models *)
Theorem closed_backed cs : CI cs ->
  let s := c_ms cs in
  (forall k, MS.lpf_bal s k = MSP.lp_claim s k) /\
  (forall k, MS.sf_bal s k = MSP.sf_claim s k) /\
  (forall n a, In (n, a) (MS.s_attrs s) ->
     MSP.nonce_ok s n a /\
     MS.sup s n <= MS.sf_bal s (MS.d_sfn a) /\
     MS.d_lpa a - MS.rel s n <= MS.lpf_bal s (MS.d_lpn a) /\
     (forall x, 0 <= x <= MS.sup s n -> MSP.claimable a x <= MS.lpf_bal s (MS.d_lpn a))) /\
  (forall t, MS.fbal s t = 0).
Proof. intros C. apply MBP.inv_backed. exact (ci_ms _ C). Qed.

Theorem closed_parts cs : CI cs ->
  let s := c_ms cs in
  forall n a, In (n, a) (MS.s_attrs s) ->
    0 <= MS.rel s n <= MS.d_lpa a /\ 0 <= MS.d_sfa a - MS.sup s n <= MS.d_sfa a /\
    MS.rel s n * MS.d_sfa a <= MS.d_lpa a * (MS.d_sfa a - MS.sup s n).
Proof.
  intros C s n a Hin. destruct (closed_backed cs C) as (_ & _ & H & _). fold s in H.
  destruct (H n a Hin) as ((HT & HL & (Hs0 & HsT) & Hr0 & Hr) & _). repeat split; try lia; nia.
Qed.

(** C15_unstake on the closed system: the unbond token is issued for EXACTLY the staking tokens the pair model paid
    for the LP tokens the LP-farm model released (L5 discharged), the token returned first is the other pool token
    (L6 discharged), the proxy keeps nothing *)
Theorem closed_unstake cs blk ep c n p m1 m2 bl bs cs' o calls :
  cstep cs (CUnstake blk ep c [(MS.TK_DY, n, p)] m1 m2 bl bs) = Ok (cs', o, calls) -> CI cs -> uid c ->
  exists a part e stk oa,
    MS.find_attr (MS.s_attrs (c_ms cs)) n = Some a /\ MS.dy_part a p = Ok part /\
    canswers cs (CUnstake blk ep c [(MS.TK_DY, n, p)] m1 m2 bl bs) = AUnstake e /\
    MS.pick_staking (MS.eu_rm e) = Ok (stk, MS.TK_OTH, oa) /\
    o = [oa; MS.eu_rl e; MS.eu_rs e; MS.eu_ubn e; stk] /\
    calls = [MS.CLpExit (MS.d_lpn a) (MS.d_lpa part); MS.CPairRemove (MS.eu_lp e) m1 m2; MS.CStkUnstake stk (MS.d_sfn a) p] /\
    (forall t, MS.fbal (c_ms cs') t = MS.fbal (c_ms cs) t) /\
    MS.sup (c_ms cs') n = MS.sup (c_ms cs) n - p /\ MS.hold (c_ms cs') n c = MS.hold (c_ms cs) n c - p /\
    (exists p1 x1 x2 eff, lp_exit_flow (c_pair cs) PX (MS.d_lpa part) (MS.eu_lp e) = Ok p1 /\
       PR.ep_remove p1 PX (MS.eu_lp e) m1 m2 = Ok (c_pair cs', [x1; x2], eff) /\
       MS.eu_rm e = (tok_code (c_stkfirst cs) PR.T1, x1, tok_code (c_stkfirst cs) PR.T2, x2)).
Proof.
  intros H C V. destruct (closed_step_lawful _ _ _ _ _ H C V Logic.I) as (e & Ha & Hs & (_ & stk0 & ot0 & oa0 & Hpk0 & H6 & H5) & _).
  destruct (MSP.unstake_char _ _ _ _ _ _ _ _ _ _ _ Hs) as (a & part & stk & ot & oa & Hf & Hp & Hpk & Ho & Hc & L5 & L6 & Hfb & _ & _ & _ & Hsup & Hhold).
  rewrite Hpk in Hpk0. inversion Hpk0; subst stk0 ot0 oa0. clear Hpk0.
  specialize (L5 H5). specialize (L6 H6). subst ot.
  exists a, part, e, stk, oa. rewrite <- L5 at 2.
  split; [exact Hf|]. split; [exact Hp|]. split; [exact Ha|]. split; [exact Hpk|]. split; [exact Ho|].
  split; [exact Hc|]. split; [exact Hfb|]. split; [exact Hsup|]. split; [exact Hhold|].
  cbn [cstep] in H. mon H r Hr. destruct r as [[[cs2 o2] calls2] e2]. inversion H; subst cs2 o2 calls2. clear H.
  cbn [canswers] in Ha. rewrite Hr in Ha. inversion Ha; subst e2. clear Ha.
  destruct C as [_ K _ _ I _ _].
  destruct (c_unstake_spec _ _ _ _ _ _ _ _ _ _ _ _ _ Hr K I (uid_valid _ V)) as (n' & p' & part' & stk' & F).
  destruct (uf_rel _ _ _ _ _ _ _ _ _ _ _ _ _ F) as (s1 & Hrel).
  pose proof (uf_pays _ _ _ _ _ _ _ _ _ _ _ _ _ F) as Epay. inversion Epay; subst n' p'. clear Epay.
  apply MSP.release_spec in Hrel. destruct Hrel as (a' & R).
  pose proof (MSP.rl_attr _ _ _ _ _ _ _ R) as Ha'. rewrite Hf in Ha'. inversion Ha'; subst a'.
  pose proof (MSP.rl_part _ _ _ _ _ _ _ R) as Hp'. rewrite Hp in Hp'. inversion Hp'; subst part'.
  exact (uf_pair_call _ _ _ _ _ _ _ _ _ _ _ _ _ F).
Qed.

(** C15_safe on the closed system (stake): the value registered in the staking farm is the staking-token side of the
    pair's safe-price answer; the new dual-yield token is issued for exactly that value plus the merged staking parts
    and records exactly the LP-farm amounts paid in (L2, L3 discharged) *)
Theorem closed_safe_stake cs blk ep c pays fail spa bs bl cs' o calls :
  cstep cs (CStake blk ep c pays fail spa bs bl) = Ok (cs', o, calls) -> CI cs -> uid c -> spa_ok spa ->
  exists k a adds parts v ot oa n new rest,
    pays = (MS.TK_LPF, k, a) :: adds /\ Forall2 (MSP.part_of_pay (c_ms cs)) adds parts /\
    MS.pick_staking spa = Ok (v, ot, oa) /\
    calls = MS.CSafePrice a :: MS.CStkEnter v (MSP.sf_toks parts) :: rest /\
    MS.registered calls = v /\
    In (n, new) (MS.s_attrs (c_ms cs')) /\ nth 0 o 0 = n /\ nth 1 o 0 = MS.d_sfa new /\
    MS.d_sfa new = v + MS.sum_sfa parts /\
    (adds = [] -> MS.d_lpn new = k /\ MS.d_lpa new = a) /\
    (adds <> [] -> MS.d_lpa new = a + MS.sum_lpa parts).
Proof.
  intros H C V W. destruct (closed_step_lawful _ _ _ _ _ H C V W) as (e & _ & Hsp & Hs & (_ & k0 & a0 & adds0 & s1 & parts0 & v0 & ot0 & oa0 & Hp0 & Hr0 & Hpk0 & _ & H3 & H2) & _).
  cbn [MS.step] in Hs. apply MSP.stake_spec in Hs.
  destruct Hs as (k & a & adds & s1' & s3 & s4 & parts & v & ot & oa & n & K).
  destruct K as [Kp Ka Krel Kpick K13 Kmint K4 Kh Kf Ko Kc].
  rewrite Kp in Hp0. inversion Hp0; subst k0 a0 adds0. clear Hp0.
  rewrite Hr0 in Krel. inversion Krel; subst s1' parts0. clear Krel.
  rewrite Kpick in Hpk0. inversion Hpk0; subst v0 ot0 oa0. clear Hpk0.
  destruct (MSP.release_all_spec _ _ _ _ _ Hr0) as (_ & _ & _ & Hall).
  exists k, a, adds, parts, v, ot, oa, n, (MSP.merged_attr k a adds e),
         (match adds with [] => [] | _ => [MS.CLpMerge (MSP.lp_toks parts ++ [(k, a)])] end).
  split; [exact Kp|]. split; [exact Hall|]. split; [rewrite <- Hsp; exact Kpick|]. split; [exact Kc|].
  split; [rewrite Kc; destruct adds; simpl; lia|].
  split.
  { destruct K4 as (A & _). rewrite A, (MSP.mt_attrs _ _ _ _ _ Kmint). apply in_or_app. right. left. reflexivity. }
  rewrite Ko. cbn [nth]. split; [reflexivity|].
  assert (Esfa : MS.d_sfa (MSP.merged_attr k a adds e) = MS.es_sfa e) by (unfold MSP.merged_attr; destruct adds; reflexivity).
  split; [symmetry; exact Esfa|].
  split; [rewrite Esfa; unfold MS.law_L3 in H3; apply Z.eqb_eq in H3; exact H3|].
  split; [intros ->; simpl; auto|].
  intros Hne. specialize (H2 Hne). unfold MS.law_L2 in H2. apply Z.eqb_eq in H2.
  unfold MSP.merged_attr. destruct adds; [contradiction | exact H2].
Qed.

(** C15_safe on the closed system (claim): the position is re-valued at the safe price; the new token is issued for
    exactly that value and records exactly the LP-farm amount of the part claimed (L1, L4 discharged) *)
Theorem closed_safe_claim cs blk ep c pays fail spa bl bs cs' o calls :
  cstep cs (CClaim blk ep c pays fail spa bl bs) = Ok (cs', o, calls) -> CI cs -> uid c -> spa_ok spa ->
  exists n p a part v ot oa n' new,
    pays = [(MS.TK_DY, n, p)] /\ MS.find_attr (MS.s_attrs (c_ms cs)) n = Some a /\ MS.dy_part a p = Ok part /\
    MS.pick_staking spa = Ok (v, ot, oa) /\
    calls = [MS.CSafePrice (MS.d_lpa part); MS.CLpClaim (MS.d_lpn a) (MS.d_lpa part); MS.CStkClaim (MS.d_sfn a) p v] /\
    MS.registered calls = v - p /\
    In (n', new) (MS.s_attrs (c_ms cs')) /\ nth 2 o 0 = n' /\ nth 3 o 0 = MS.d_sfa new /\
    MS.d_sfa new = v /\ MS.d_lpa new = MS.d_lpa part.
Proof.
  intros H C V W. destruct (closed_step_lawful _ _ _ _ _ H C V W) as (e & _ & Hsp & Hs & (_ & n0 & p0 & s1 & part0 & v0 & ot0 & oa0 & Hp0 & Hr0 & Hpk0 & _ & H1 & H4) & _).
  destruct (MSP.claim_safe _ _ _ _ _ _ _ _ Hs) as (n & p & a & part & v & ot & oa & n' & new & Hp & Hf & Hpart & Hpk & Hc & Hreg & Hin & Ho & L4 & L1).
  rewrite Hp in Hp0. inversion Hp0; subst n0 p0. clear Hp0.
  rewrite Hpk in Hpk0. inversion Hpk0; subst v0 ot0 oa0. clear Hpk0.
  apply MSP.release_spec in Hr0. destruct Hr0 as (a' & R).
  pose proof (MSP.rl_attr _ _ _ _ _ _ _ R) as Ha'. rewrite Hf in Ha'. inversion Ha'; subst a'.
  pose proof (MSP.rl_part _ _ _ _ _ _ _ R) as Hp'. rewrite Hpart in Hp'. inversion Hp'; subst part0.
  exists n, p, a, part, v, ot, oa, n', new.
  split; [exact Hp|]. split; [exact Hf|]. split; [exact Hpart|]. split; [rewrite <- Hsp; exact Hpk|]. split; [exact Hc|].
  split; [exact Hreg|]. split; [exact Hin|]. rewrite Ho. cbn [nth]. split; [reflexivity|]. split; [reflexivity|].
  split; [exact (L4 H4) | exact (L1 H1)].
Qed.

(** ================================================================== C. cross-contract conservation *)
(** sum over the dual-yield nonces of the outstanding amounts = the staking amounts recorded in outstanding tokens *)
Definition sum_sup (s : MS.st) : Z := MSP.wsum (fun n _ => MS.sup s n) (MS.s_attrs s).

Lemma sum_sup_back s s' : MSP.same_back s s' -> sum_sup s' = sum_sup s.
Proof.
  intros (A & _ & U & _). unfold sum_sup. rewrite A. apply MSP.wsum_ext. intros n a _. unfold MS.sup. rewrite U. reflexivity.
Qed.

Lemma sum_sup_release s s' c n p a part : MSP.released s s' c n p a part -> MSP.InvB s -> sum_sup s' = sum_sup s - p.
Proof.
  intros R [_ I1 _ _ _ _ _]. unfold sum_sup. rewrite (MSP.rl_attrs _ _ _ _ _ _ _ R).
  apply (MSP.wsum_change (fun m _ => MS.sup s m) (fun m _ => MS.sup s' m) (MS.s_attrs s) n a); [exact I1 | | |].
  - apply MSP.find_attr_in. exact (MSP.rl_attr _ _ _ _ _ _ _ R).
  - rewrite (MSP.rl_sup _ _ _ _ _ _ _ R), Z.eqb_refl. reflexivity.
  - intros m b _ Hne. rewrite (MSP.rl_sup _ _ _ _ _ _ _ R). rewrite (proj2 (Z.eqb_neq n m)) by congruence. reflexivity.
Qed.

Lemma sum_sup_mint s s' c a n : MSP.minted s s' c a n -> MSP.InvB s -> sum_sup s' = sum_sup s + MS.d_sfa a.
Proof.
  intros M [_ I1 I2 I3 _ _ _]. unfold sum_sup. rewrite (MSP.mt_attrs _ _ _ _ _ M), MSP.wsum_app. cbn [fst snd].
  assert (Hfresh : ~ In n (map fst (MS.s_attrs s))).
  { intros Hin. apply in_map_iff in Hin. destruct Hin as ([m b] & Hm & Hin). simpl in Hm. subst m.
    apply I2 in Hin. pose proof (MSP.mt_n _ _ _ _ _ M). lia. }
  destruct (I3 n Hfresh) as [Hs0 _].
  rewrite (MSP.mt_sup _ _ _ _ _ M), Z.eqb_refl, Hs0.
  rewrite (MSP.wsum_ext (fun m _ => MS.sup s' m) (fun m _ => MS.sup s m) (MS.s_attrs s)); [lia|].
  intros m b Hin. rewrite (MSP.mt_sup _ _ _ _ _ M).
  destruct (n =? m) eqn:E; [|reflexivity]. apply Z.eqb_eq in E. subst m. exfalso. apply Hfresh.
  change n with (fst (n, b)). apply in_map. exact Hin.
Qed.

Lemma release_all_sum ps : forall s c s' parts, MS.release_all s c ps = Ok (s', parts) -> MSP.InvB s ->
  sum_sup s' = sum_sup s - MS.sum_sfa parts /\ MSP.InvB s'.
Proof.
  induction ps as [|p t IH]; intros s c s' parts H I; simpl in H.
  - inversion H; subst. simpl. split; [lia | exact I].
  - mon H r1 H1. destruct r1 as [s1 part]. mon H r2 H2. destruct r2 as [s2 parts']. inversion H; subst. clear H.
    apply MSP.release_spec in H1. destruct H1 as (a & R).
    pose proof (MSP.release_inv _ _ _ _ _ _ _ R I) as I1.
    destruct (IH _ _ _ _ H2 I1) as (E2 & I2). split; [|exact I2].
    rewrite E2, (sum_sup_release _ _ _ _ _ _ _ R I). simpl.
    pose proof (MSP.dy_part_spec _ _ _ (MSP.rl_part _ _ _ _ _ _ _ R)) as (_ & _ & Psa & _). lia.
Qed.

(** the proxy's staking-farm balances through one endpoint *)
Lemma release_all_sf ps : forall s c s' parts, MS.release_all s c ps = Ok (s', parts) ->
  forall k, MS.sf_bal s' k = MS.sf_bal s k - LW.pay_sum (filter (fun t => fst t =? k) (sf_toks parts)).
Proof.
  induction ps as [|p t IH]; intros s c s' parts H k; simpl in H.
  - inversion H; subst. simpl. lia.
  - mon H r1 H1. destruct r1 as [s1 part]. mon H r2 H2. destruct r2 as [s2 parts']. inversion H; subst. clear H.
    apply MSP.release_spec in H1. destruct H1 as (a & R).
    rewrite (IH _ _ _ _ H2 k), (MSP.rl_sf _ _ _ _ _ _ _ R k).
    pose proof (MSP.dy_part_spec _ _ _ (MSP.rl_part _ _ _ _ _ _ _ R)) as (_ & Psn & Psa & _).
    cbn [sf_toks map filter fst]. fold (sf_toks parts'). rewrite Psn, Psa.
    destruct (MS.d_sfn a =? k); simpl; lia.
Qed.

Lemma release_all_lpf ps : forall s c s' parts, MS.release_all s c ps = Ok (s', parts) ->
  forall k, MS.lpf_bal s' k = MS.lpf_bal s k - LW.pay_sum (filter (fun t => fst t =? k) (lp_toks parts)).
Proof.
  induction ps as [|p t IH]; intros s c s' parts H k; simpl in H.
  - inversion H; subst. simpl. lia.
  - mon H r1 H1. destruct r1 as [s1 part]. mon H r2 H2. destruct r2 as [s2 parts']. inversion H; subst. clear H.
    apply MSP.release_spec in H1. destruct H1 as (a & R).
    rewrite (IH _ _ _ _ H2 k), (MSP.rl_lpf _ _ _ _ _ _ _ R k).
    pose proof (MSP.dy_part_spec _ _ _ (MSP.rl_part _ _ _ _ _ _ _ R)) as (Pn & _ & _ & _).
    cbn [lp_toks map filter fst]. fold (lp_toks parts'). rewrite Pn.
    destruct (MS.d_lpn a =? k); simpl; lia.
Qed.

(** ---------------------------------------------------------------- the proxy's holdings in the staking-farm model *)
Definition ksum (k : Z) (toks : list (Z * Z)) : Z := LW.pay_sum (filter (fun t => fst t =? k) toks).

Lemma pxkey_ne k k' : k <> k' -> SP.hkey k PX <> SP.hkey k' PX.
Proof. unfold SP.hkey. lia. Qed.

Lemma sp_pay_all_px ps : forall sp sp1, SP.pay_all sp PX ps = Ok sp1 ->
  forall k, SP.held sp1 k PX = SP.held sp k PX - ksum k ps.
Proof.
  induction ps as [|[n x] t IH]; intros sp sp1 H k; simpl in H.
  - inversion H; subst. unfold ksum. simpl. lia.
  - mon H sp0 H0. rewrite (IH _ _ H k). unfold ksum. cbn [filter fst].
    unfold SP.pay_in in H0. destruct (0 <? x); [|discriminate]. mon H0 b Hb. apply sub_chk_ok in Hb. destruct Hb as [_ ->].
    inversion H0; subst sp0. clear H0. unfold SP.held. cbn [SP.p_held SP.with_held].
    destruct (n =? k) eqn:E.
    + apply Z.eqb_eq in E. subst n. rewrite aget_aset_same. simpl. unfold SP.held. lia.
    + apply Z.eqb_neq in E. rewrite aget_aset_other by (apply pxkey_ne; exact E). lia.
Qed.

Lemma stake_proxy_held sp blk ep u v toks bs sp' n amt b : SP.pstep sp (SP.PStakeProxy blk ep PX u v toks bs) = Ok (sp', [n; amt; b]) ->
  SPP.Inv sp ->
  (forall k, SP.held sp' k PX = SP.held sp k PX - ksum k toks + (if k =? n then amt else 0)) /\
  ST.s_virt (SP.p_s sp') = ST.s_virt (SP.p_s sp) + v.
Proof.
  intros H I. cbn [SP.pstep] in H.
  destruct (SPP.ep_stake_shape _ _ _ _ _ _ _ _ _ _ _ H I px_valid) as (sp1 & s2 & s5 & m & H1 & _ & _ & _ & _ & Hsh).
  cbv zeta in Hsh. destruct Hsh as (Ho & _ & _ & Hh & _ & Hv & _). inversion Ho; subst n amt b. clear Ho.
  pose proof (SPP.pay_all_post _ _ _ _ H1 (SPP.i_led _ I) px_valid) as [Hrest _ L1 _ _ _].
  apply SPP.rest_fields in Hrest. destruct Hrest as (S1 & _).
  assert (Hz : SP.held sp1 (ST.s_next (SP.p_s sp)) PX = 0).
  { unfold SP.held. apply (SPP.fresh_zero sp1); [exact L1 | rewrite S1; lia | exact px_valid]. }
  split; [|exact Hv].
  intros k. unfold SP.held at 1. rewrite Hh. destruct (k =? ST.s_next (SP.p_s sp)) eqn:E.
  - apply Z.eqb_eq in E. subst k. rewrite aget_aset_same. rewrite <- (sp_pay_all_px _ _ _ H1), Hz. lia.
  - apply Z.eqb_neq in E. rewrite aget_aset_other by (apply pxkey_ne; congruence).
    fold (SP.held sp1 k PX). rewrite (sp_pay_all_px _ _ _ H1). lia.
Qed.

Lemma claim_proxy_held sp blk ep u n0 x0 v bs sp' n amt r : SP.pstep sp (SP.PClaimNewValue blk ep PX u (n0, x0) v bs) = Ok (sp', [n; amt; r]) ->
  SPP.Inv sp ->
  (forall k, SP.held sp' k PX = SP.held sp k PX - (if k =? n0 then x0 else 0) + (if k =? n then amt else 0)) /\
  ST.s_virt (SP.p_s sp') = ST.s_virt (SP.p_s sp) + v - x0 /\ amt = v /\ n0 <> n.
Proof.
  intros H I. pose proof H as H0. cbn [SP.pstep] in H.
  destruct (SPP.ep_claim_shape _ _ _ _ _ _ _ _ _ _ _ H I px_valid) as (s2 & s3 & a & base & _ & _ & Hx & _ & _ & Hsh).
  cbv zeta in Hsh. destruct Hsh as (Ho & _ & _ & Hh & _). inversion Ho; subst n amt r. clear Ho.
  destruct (L15.L4_staking _ _ _ _ _ _ _ _ _ _ _ (MS.mkEC false (0, 0, 0, 0) 0 0 0 0 0 0) I H0)
    as (e & He & _ & _ & _ & _ & _ & _ & _ & Hn & _ & _ & _ & _ & Hlt & _ & _ & _ & _ & Hv).
  cbn [L15.answer_of_claimRewardsWithNewValue] in He. inversion He; subst e. cbn [MS.ec_sfn MS.registered] in *.
  assert (Hz : SP.held sp (ST.s_next (SP.p_s sp)) PX = 0).
  { unfold SP.held. apply (SPP.fresh_zero sp); [exact (SPP.i_led _ I) | lia | exact px_valid]. }
  split; [|split; [rewrite Hv; lia | split; [reflexivity | lia]]].
  intros k. unfold SP.held at 1. rewrite Hh. destruct (k =? ST.s_next (SP.p_s sp)) eqn:E.
  - apply Z.eqb_eq in E. subst k. rewrite aget_aset_same, Hz. destruct (ST.s_next (SP.p_s sp) =? n0) eqn:E2; [apply Z.eqb_eq in E2; lia | lia].
  - apply Z.eqb_neq in E. rewrite aget_aset_other by (apply pxkey_ne; congruence).
    destruct (k =? n0) eqn:E2.
    + apply Z.eqb_eq in E2. subst k. rewrite aget_aset_same. lia.
    + apply Z.eqb_neq in E2. rewrite aget_aset_other by (apply pxkey_ne; congruence). unfold SP.held. lia.
Qed.

Lemma unstake_proxy_held sp blk ep u n0 x0 stk bs sp' n amt r sp2 : SP.pstep sp (SP.PUnstakeProxy blk ep PX u (n0, x0) stk bs) = Ok (sp', [n; amt; r]) ->
  SP.pstep sp' (SP.PTransferUb n PX u amt) = Ok (sp2, []) ->
  SPP.Inv sp ->
  (forall k, SP.held sp2 k PX = SP.held sp k PX - (if k =? n0 then x0 else 0)) /\
  ST.s_virt (SP.p_s sp2) = ST.s_virt (SP.p_s sp) - x0.
Proof.
  intros H Ht I. cbn [SP.pstep] in H.
  destruct (SPP.ep_unstake_shape _ _ _ _ _ _ _ _ _ _ _ H I px_valid) as (s2 & s3 & a & base & _ & _ & Hx & _ & _ & Hsh).
  cbv zeta in Hsh. destruct Hsh as (Ho & _ & Hh & _ & Hv & _).
  cbn [SP.pstep] in Ht. unfold SP.ep_transfer_ub in Ht. mon Ht sp1 H1.
  destruct (SPP.debit_ub_shape _ _ _ _ H1) as (h & ->). inversion Ht; subst sp2. clear Ht.
  unfold SP.credit_ub, SP.with_ubheld. cbn [SP.p_s SP.p_held].
  split; [|exact Hv].
  intros k. unfold SP.held at 1. cbn [SP.p_held]. rewrite Hh. destruct (k =? n0) eqn:E2.
  - apply Z.eqb_eq in E2. subst k. rewrite aget_aset_same. lia.
  - apply Z.eqb_neq in E2. rewrite aget_aset_other by (apply pxkey_ne; congruence). unfold SP.held. lia.
Qed.

(** the users' own operations on the staking farm never touch what the proxy holds, nor the virtual principal *)
Lemma sp_key_other n c k : FI.valid_id c -> c <> PX -> SP.hkey n c <> SP.hkey k PX.
Proof. intros Hc Hne E. apply SPP.hkey_inj in E; [|exact Hc | exact px_valid]. destruct E as [_ E]. contradiction. Qed.

Lemma sp_pay_all_other ps : forall sp c sp1, SP.pay_all sp c ps = Ok sp1 -> FI.valid_id c -> c <> PX ->
  forall k, SP.held sp1 k PX = SP.held sp k PX.
Proof.
  induction ps as [|[n x] t IH]; intros sp c sp1 H Hc Hne k; simpl in H.
  - inversion H; subst. reflexivity.
  - mon H sp0 H0. rewrite (IH _ _ _ H Hc Hne k).
    unfold SP.pay_in in H0. destruct (0 <? x); [|discriminate]. mon H0 b Hb. inversion H0; subst sp0. clear H0.
    unfold SP.held. cbn [SP.p_held SP.with_held]. apply aget_aset_other. apply sp_key_other; assumption.
Qed.

Lemma pstep_user_frame sp op sp' o : SP.pstep sp op = Ok (sp', o) -> SPP.Inv sp -> SPP.sep_op op -> stk_user_op op ->
  (forall k, SP.held sp' k PX = SP.held sp k PX) /\ ST.s_virt (SP.p_s sp') = ST.s_virt (SP.p_s sp).
Proof.
  intros H I S U. pose proof (SPP.i_stk _ I) as IS.
  destruct op; cbn [SP.pstep SPP.sep_op stk_user_op] in H, S, U.
  - (* Stake *) destruct S as [Hc Hne].
    destruct (SPP.ep_stake_shape _ _ _ _ _ _ _ _ _ _ _ H I Hc) as (sp1 & s2 & s5 & m & H1 & _ & _ & _ & _ & Hsh).
    cbv zeta in Hsh. destruct Hsh as (_ & _ & _ & Hh & _ & Hv & _). split; [|rewrite Hv; lia].
    intros k. unfold SP.held at 1. rewrite Hh, aget_aset_other by (apply sp_key_other; assumption).
    apply (sp_pay_all_other _ _ _ _ H1 Hc Hne).
  - (* StakeProxy *) exfalso. apply U. apply (SPP.wl_stake _ _ _ _ _ _ _ _ _ H).
  - (* Claim *) destruct S as [Hc Hne]. destruct p as [n0 x0].
    destruct (SPP.ep_claim_shape _ _ _ _ _ _ _ _ _ _ _ H I Hc) as (s2 & s3 & a & base & Hs2 & _ & _ & _ & Hs3 & Hsh).
    cbv zeta in Hsh. destruct Hsh as (_ & _ & _ & Hh & Hs & _).
    destruct (SPP.settle_virt _ _ _ Hs2 IS) as [V2 _]. destruct (SPP.settle_full _ _ _ Hs2 IS) as (IS2 & _).
    destruct (SPP.pay_virt _ _ _ _ Hs3 IS2) as [V3 _]. split; [|rewrite Hs; cbn; lia].
    intros k. unfold SP.held at 1. rewrite Hh, !aget_aset_other by (apply sp_key_other; assumption). reflexivity.
  - (* ClaimNewValue *) exfalso. apply U. apply (SPP.wl_claim _ _ _ _ _ _ _ _ _ H).
  - (* Compound *) destruct S as [Hc Hne]. destruct first as [n0 x0].
    destruct (SPP.ep_compound_shape _ _ _ _ _ _ _ _ _ _ H I Hc) as (sp1 & s2 & s3 & a & base & m & H1 & _ & _ & _ & _ & _ & _ & Hsh).
    cbv zeta in Hsh. destruct Hsh as (_ & _ & _ & _ & Hh & _ & Hv & _). split; [|exact Hv].
    intros k. unfold SP.held at 1. rewrite Hh, aget_aset_other by (apply sp_key_other; assumption).
    apply (sp_pay_all_other _ _ _ _ H1 Hc Hne).
  - (* Unstake *) destruct S as [Hc Hne]. destruct p as [n0 x0].
    destruct (SPP.ep_unstake_shape _ _ _ _ _ _ _ _ _ _ _ H I Hc) as (s2 & s3 & a & base & _ & _ & _ & _ & _ & Hsh).
    cbv zeta in Hsh. destruct Hsh as (_ & _ & Hh & _ & Hv & _). split; [|exact Hv].
    intros k. unfold SP.held at 1. rewrite Hh, aget_aset_other by (apply sp_key_other; assumption). reflexivity.
  - (* UnstakeProxy *) exfalso. apply U. apply (SPP.wl_unstake _ _ _ _ _ _ _ _ _ H).
  - (* Unbond *) unfold SP.ep_unbond in H. mon H sp1 H1. mon H so Hs. destruct so as [s' o']. inversion H; subst sp' o. clear H.
    destruct (SPP.debit_ub_shape _ _ _ _ H1) as (h & ->). cbn [SP.p_s SP.with_ubheld fst] in Hs.
    split; [intros k; reflexivity|]. cbn [SP.with_s SP.p_s fst]. apply (SPP.unbond_virt _ _ _ _ _ _ _ Hs).
  - (* Merge *) destruct S as [Hc Hne]. destruct ps as [|[n0 x0] rest]; [discriminate|].
    destruct (SPP.ep_merge_shape _ _ _ _ _ _ _ _ _ _ H I Hc) as (sp1 & s2 & a & part & m0 & H1 & _ & _ & _ & _ & _ & Hsh).
    cbv zeta in Hsh. destruct Hsh as (_ & _ & _ & Hh & _ & Hv & _). split; [|exact Hv].
    intros k. unfold SP.held at 1. rewrite Hh, aget_aset_other by (apply sp_key_other; assumption).
    apply (sp_pay_all_other _ _ _ _ H1 Hc Hne).
  - (* ClaimBoosted *) unfold SP.ep_claim_boosted in H.
    destruct (negb (SP.utot sp c =? 0)); [|discriminate]. destruct (ST.active (SP.p_s sp)); [|discriminate].
    mon H sp1 H1. mon H sp2 H2. inversion H; subst sp' o. clear H.
    unfold SP.psettle in H1. mon H1 s1 Hs1. inversion H1; subst sp1. clear H1.
    unfold SP.ppay in H2. mon H2 s2 Hs2. inversion H2; subst sp2. clear H2. cbn [SP.p_s SP.with_s] in Hs2.
    destruct (SPP.settle_virt _ _ _ Hs1 IS) as [V1 _]. destruct (SPP.settle_full _ _ _ Hs1 IS) as (IS1 & _).
    destruct (SPP.pay_virt _ _ _ _ Hs2 IS1) as [V2 _].
    split; [intros k; reflexivity|]. cbn [SP.with_paid SP.p_s]. lia.
  - (* Transfer *) destruct S as (Hs & Hd & Hns & Hnd). unfold SP.ep_transfer in H. mon H sp1 H1. inversion H; subst sp' o. clear H.
    assert (H1' : SP.pay_all sp src [(n, amt)] = Ok sp1) by (cbn [SP.pay_all]; rewrite H1; reflexivity).
    split.
    + intros k. unfold SP.held at 1. cbn [SP.p_held SP.with_held]. rewrite aget_aset_other by (apply sp_key_other; assumption).
      apply (sp_pay_all_other _ _ _ _ H1' Hs Hns).
    + unfold SP.pay_in in H1. destruct (0 <? amt); [|discriminate]. mon H1 b Hb. inversion H1; subst. reflexivity.
  - (* TransferUb *) unfold SP.ep_transfer_ub in H. mon H sp1 H1. inversion H; subst sp' o. clear H.
    destruct (SPP.debit_ub_shape _ _ _ _ H1) as (h & ->). split; [intros k|]; reflexivity.
  - (* Admin *) destruct (SP.is_admin_op a) eqn:Ea; [|discriminate].
    mon H so Hs. destruct so as [s' o']. inversion H; subst sp' o. clear H. cbn [fst snd].
    split; [intros k; reflexivity|]. cbn [SP.with_s SP.p_s]. apply (SPP.admin_virt _ _ _ _ Ea Hs IS).
Qed.

(** (3), staking side: what the proxy model says the proxy holds of every staking-farm nonce IS what the staking-farm
    model says the proxy holds; the staking farm's virtual principal IS the sum of the outstanding dual-yield amounts *)
Definition LinkS (cs : cst) : Prop :=
  (forall k, MS.sf_bal (c_ms cs) k = SP.held (c_sp cs) k PX) /\
  ST.s_virt (SP.p_s (c_sp cs)) = sum_sup (c_ms cs).

Lemma links_back cs s1 : MSP.same_back (c_ms cs) s1 -> LinkS cs -> LinkS (with_ms cs s1).
Proof.
  intros B [L1 L2]. split; cbn [with_ms c_ms c_sp].
  - intros k. destruct B as (_ & _ & _ & _ & _ & Bs). rewrite Bs. apply L1.
  - rewrite (sum_sup_back _ _ B). exact L2.
Qed.

Lemma stake_links cs cs' pc u pays spa o calls e k a adds parts v :
  stake_facts cs cs' pc u pays spa o calls e k a adds parts v -> MSP.InvB (c_ms cs) -> SPP.Inv (c_sp cs) -> LinkS cs -> LinkS cs'.
Proof.
  intros F IB I [L1 L2]. destruct F as [Kp (s1 & Kr) _ Ks _ K3 _ _ _ (blk & ep & Kc) _ _ _].
  cbn [MS.step] in Ks. apply MSP.stake_spec in Ks.
  destruct Ks as (k' & a' & adds' & s1' & s3 & s4 & parts' & v' & ot' & oa' & n' & K).
  destruct K as [Kp' _ Krel _ K13 Kmint K4 _ _ _ _].
  rewrite Kp in Kp'. inversion Kp'; subst k' a' adds'. clear Kp'.
  rewrite Kr in Krel. inversion Krel; subst s1' parts'. clear Krel.
  destruct (stake_proxy_held _ _ _ _ _ _ _ _ _ _ _ Kc I) as (Hh & Hv).
  destruct (release_all_sum _ _ _ _ _ Kr IB) as (E1 & IB1).
  pose proof (MSP.InvB_ext _ _ K13 IB1) as IB3.
  assert (Esfa : MS.d_sfa (MSP.merged_attr k a adds e) = MS.es_sfa e) by (unfold MSP.merged_attr; destruct adds; reflexivity).
  assert (Esfn : MS.d_sfn (MSP.merged_attr k a adds e) = MS.es_sfn e) by (unfold MSP.merged_attr; destruct adds; reflexivity).
  split.
  - intros j. destruct K4 as (_ & _ & _ & _ & _ & B4). destruct K13 as (_ & _ & _ & _ & _ & B13).
    rewrite B4, (MSP.mt_sf _ _ _ _ _ Kmint), B13, (release_all_sf _ _ _ _ _ Kr), Esfa, Esfn, Hh, L1.
    unfold ksum. rewrite (Z.eqb_sym j). reflexivity.
  - rewrite Hv, L2, (sum_sup_back _ _ K4), (sum_sup_mint _ _ _ _ _ Kmint IB3), (sum_sup_back _ _ K13), E1, Esfa.
    unfold MS.law_L3 in K3. apply Z.eqb_eq in K3. lia.
Qed.

Lemma claim_links cs cs' u pays spa o calls e n p part v :
  claim_facts cs cs' u pays spa o calls e n p part v -> MSP.InvB (c_ms cs) -> SPP.Inv (c_sp cs) -> LinkS cs -> LinkS cs'.
Proof.
  intros F IB I [L1 L2]. destruct F as [Kp (s1 & Kr) _ Ks _ _ K4 _ _ (blk & ep & bs & sp' & Kc & Esp) _ _ _].
  cbn [MS.step] in Ks. apply MSP.claim_spec in Ks.
  destruct Ks as (n0 & p0 & a & part0 & s1' & s2 & s3 & v' & ot' & oa' & n' & K).
  destruct K as [Kp' R _ K12 Kmint K3 _ _ _ _].
  rewrite Kp in Kp'. inversion Kp'; subst n0 p0. clear Kp'.
  pose proof (MSP.rl_part _ _ _ _ _ _ _ R) as Hpart.
  assert (Epart : part0 = part).
  { apply MSP.release_spec in Kr. destruct Kr as (a2 & R2).
    pose proof (MSP.rl_attr _ _ _ _ _ _ _ R) as A1. pose proof (MSP.rl_attr _ _ _ _ _ _ _ R2) as A2. rewrite A1 in A2. inversion A2; subst a2.
    pose proof (MSP.rl_part _ _ _ _ _ _ _ R2) as P2. rewrite Hpart in P2. inversion P2. reflexivity. }
  subst part0.
  pose proof (MSP.dy_part_spec _ _ _ Hpart) as (_ & Psn & Psa & _).
  subst sp'. destruct (claim_proxy_held _ _ _ _ _ _ _ _ _ _ _ _ Kc I) as (Hh & Hv & Eamt & _).
  pose proof (MSP.release_inv _ _ _ _ _ _ _ R IB) as IB1.
  pose proof (MSP.InvB_ext _ _ K12 IB1) as IB2.
  split.
  - intros j. destruct K3 as (_ & _ & _ & _ & _ & B3). destruct K12 as (_ & _ & _ & _ & _ & B12).
    rewrite B3, (MSP.mt_sf _ _ _ _ _ Kmint), B12, (MSP.rl_sf _ _ _ _ _ _ _ R). cbn [MS.d_sfn MS.d_sfa].
    rewrite Hh, L1, Psn, Psa. rewrite (Z.eqb_sym j (MS.d_sfn a)), (Z.eqb_sym j (MS.ec_sfn e)). reflexivity.
  - rewrite Hv, L2, (sum_sup_back _ _ K3), (sum_sup_mint _ _ _ _ _ Kmint IB2), (sum_sup_back _ _ K12), (sum_sup_release _ _ _ _ _ _ _ R IB).
    cbn [MS.d_sfa]. rewrite Psa. lia.
Qed.

Lemma unstake_links cs cs' u pays m1 m2 o calls e n p part stk :
  unstake_facts cs cs' u pays m1 m2 o calls e n p part stk -> MSP.InvB (c_ms cs) -> SPP.Inv (c_sp cs) -> LinkS cs -> LinkS cs'.
Proof.
  intros F IB I [L1 L2]. destruct F as [Kp (s1 & Kr) _ Ks _ _ _ _ _ (blk & ep & bs & sp1 & Kc & Kt) _ _].
  cbn [MS.step] in Ks. apply MSP.unstake_spec in Ks.
  destruct Ks as (n0 & p0 & a & part0 & s1' & stk' & ot' & oa' & K).
  destruct K as [Kp' R _ Kdy _ Ksf _ _ _].
  rewrite Kp in Kp'. inversion Kp'; subst n0 p0. clear Kp'.
  pose proof (MSP.rl_part _ _ _ _ _ _ _ R) as Hpart.
  assert (Epart : part0 = part).
  { apply MSP.release_spec in Kr. destruct Kr as (a2 & R2).
    pose proof (MSP.rl_attr _ _ _ _ _ _ _ R) as A1. pose proof (MSP.rl_attr _ _ _ _ _ _ _ R2) as A2. rewrite A1 in A2. inversion A2; subst a2.
    pose proof (MSP.rl_part _ _ _ _ _ _ _ R2) as P2. rewrite Hpart in P2. inversion P2. reflexivity. }
  subst part0.
  pose proof (MSP.dy_part_spec _ _ _ Hpart) as (_ & Psn & Psa & _).
  destruct (unstake_proxy_held _ _ _ _ _ _ _ _ _ _ _ _ _ Kc Kt I) as (Hh & Hv).
  split.
  - intros j. rewrite Ksf, (MSP.rl_sf _ _ _ _ _ _ _ R), Hh, L1, Psn, Psa. rewrite (Z.eqb_sym j). reflexivity.
  - rewrite Hv, L2, Psa.
    assert (E : sum_sup (c_ms cs') = sum_sup s1').
    { destruct Kdy as (A & U & _). unfold sum_sup. rewrite A. apply MSP.wsum_ext. intros m b _. unfold MS.sup. rewrite U. reflexivity. }
    rewrite E, (sum_sup_release _ _ _ _ _ _ _ R IB). reflexivity.
Qed.

Lemma xfer_all_back ps s a u s1 : xfer_all s a u ps = Ok s1 -> MSP.same_back s s1.
Proof. rewrite xfer_all_eq. intros H. destruct (MBP.xfer_all_inv _ _ _ _ _ H) as (_ & B & _). exact B. Qed.

Theorem cstep_links cs op cs' o calls : cstep cs op = Ok (cs', o, calls) -> CI cs -> LinkS cs -> cvalid op -> LinkS cs'.
Proof.
  intros H C L V. pose proof C as [[IB _] K _ _ I _ Hh].
  destruct op as [blk ep c pays fail spa bs bl | blk ep c pays fail spa bl bs | blk ep c pays m1 m2 bl bs | src dst n amt
                 | blk ep a u pays fail spa bs bl | blk ep a pays fail spa bl bs | hop | lop | pop | qop];
    cbn [cstep] in H; cbn [cvalid] in V.
  - mon H r Hr. destruct r as [[[cs2 o2] calls2] e]. inversion H; subst cs2 o2 calls2. clear H.
    destruct (c_stake_spec _ _ _ _ _ _ _ _ _ _ _ _ _ _ Hr K I (uid_valid _ V) (uid_valid _ V)) as (k & a & adds & parts & v & F).
    eapply stake_links; eassumption.
  - mon H r Hr. destruct r as [[[cs2 o2] calls2] e]. inversion H; subst cs2 o2 calls2. clear H.
    destruct (c_claim_spec _ _ _ _ _ _ _ _ _ _ _ _ _ Hr K I (uid_valid _ V)) as (n & p & part & v & F).
    eapply claim_links; eassumption.
  - mon H r Hr. destruct r as [[[cs2 o2] calls2] e]. inversion H; subst cs2 o2 calls2. clear H.
    destruct (c_unstake_spec _ _ _ _ _ _ _ _ _ _ _ _ _ Hr K I (uid_valid _ V)) as (n & p & part & stk & F).
    eapply unstake_links; eassumption.
  - mon H r Hr. destruct r as [[ms' o'] c']. inversion H; subst. cbn [fst].
    cbn [MS.step] in Hr. apply MSP.xfer_back in Hr. destruct Hr as (B & _). apply links_back; assumption.
  - destruct V as [Va Vu]. mon H r Hr. destruct r as [[[cs2 o2] calls2] e]. inversion H; subst cs2 o2 calls2. clear H.
    destruct (c_stake_ob_parts _ _ _ _ _ _ _ _ _ _ _ _ _ _ Hr) as (_ & first & adds & s1 & cs2 & s3 & _ & _ & _ & _ & H1 & Hs & H3 & ->).
    destruct (c_stake_spec _ _ _ _ _ _ _ _ _ _ _ _ _ _ Hs K I (uid_valid _ Va) (uid_valid _ Vu)) as (k & a0 & adds0 & parts & v & F).
    pose proof (xfer_all_back _ _ _ _ _ H1) as B1.
    assert (L2 : LinkS cs2).
    { eapply (stake_links (with_ms cs s1)); [exact F | cbn [with_ms c_ms]; eapply MSP.InvB_ext; eassumption | exact I | apply links_back; assumption]. }
    apply MSP.xfer_back in H3. destruct H3 as (B3 & _). apply links_back; assumption.
  - mon H r Hr. destruct r as [[[[cs2 o2] calls2] e] u]. inversion H; subst cs2 o2 calls2. clear H.
    destruct (c_claim_ob_parts _ _ _ _ _ _ _ _ _ _ _ _ _ _ Hr) as (p & s1 & cs2 & s3 & _ & _ & Hw & H1 & Hs & H3 & ->).
    apply BP.is_whitelisted_listed in Hw. destruct Hw as [Hw _]. apply Hh in Hw.
    destruct (c_claim_spec _ _ _ _ _ _ _ _ _ _ _ _ _ Hs K I (uid_valid _ Hw)) as (n & p0 & part & v & F).
    pose proof (xfer_all_back _ _ _ _ _ H1) as B1.
    assert (L2 : LinkS cs2).
    { eapply (claim_links (with_ms cs s1)); [exact F | cbn [with_ms c_ms]; eapply MSP.InvB_ext; eassumption | exact I | apply links_back; assumption]. }
    apply MSP.xfer_back in H3. destruct H3 as (B3 & _). apply links_back; assumption.
  - mon H h' Hh'. inversion H; subst. exact L.
  - mon H r Hr. destruct r as [cs2 o2]. inversion H; subst cs2 o2 calls. clear H.
    unfold c_lp_direct in Hr. mon Hr r Hl. destruct r as [[lf' o'] rc]. mon Hr p' Hp. inversion Hr; subst cs' o. exact L.
  - mon H r Hr. destruct r as [sp' o']. inversion H; subst cs' o calls. clear H. destruct V as [Vs Vu].
    destruct (pstep_user_frame _ _ _ _ Hr I Vs Vu) as (Fh & Fv). destruct L as [L1 L2].
    split; cbn [c_ms c_sp fst]; [intros k; rewrite Fh; apply L1 | rewrite Fv; exact L2].
  - mon H r Hr. inversion H; subst. exact L.
Qed.

Theorem crun_ci_links : forall ops cs, CI cs -> LinkS cs -> cvalid_ops ops -> CI (crun cs ops) /\ LinkS (crun cs ops).
Proof.
  induction ops as [|op t IH]; intros cs C L V; [split; assumption|].
  change (crun cs (op :: t)) with (crun (cstep_total cs op) t). inversion V as [|? ? [V1 V2] Vt]; subst.
  unfold cstep_total. destruct (cstep cs op) as [[[cs' o] calls]|er] eqn:E; [|apply IH; assumption].
  apply IH; [eapply cstep_ci; eassumption | eapply cstep_links; eassumption | exact Vt].
Qed.

Lemma init_c_links ldsc opts lock sdsc apr minub fee sfee sf ho : LinkS (init_c ldsc opts lock sdsc apr minub fee sfee sf ho).
Proof. split; [intros k; reflexivity | reflexivity]. Qed.

(** ---------------------------------------------------------------- the proxy's holdings in the LP-farm model *)
Definition hpx (f : F.farm) (k : Z) : Z := F.held f k PX.

Lemma f_key_other n c k : FI.valid_id c -> c <> PX -> F.hkey n c <> F.hkey k PX.
Proof. unfold F.hkey, FI.valid_id, PX, ST.PROXY. intros. lia. Qed.

Lemma f_pxkey_ne k k' : k <> k' -> F.hkey k PX <> F.hkey k' PX.
Proof. unfold F.hkey. lia. Qed.

Lemma f_debit_other f c p f' : F.debit_held f c p = Ok f' -> FI.valid_id c -> c <> PX -> forall k, hpx f' k = hpx f k.
Proof.
  unfold F.debit_held. destruct p as [n x]. intros H Hc Hne k. destruct (0 <? x); [|discriminate].
  mon H b Hb. inversion H; subst. unfold hpx, F.held. cbn [F.f_held F.upd_tokens]. apply aget_aset_other. apply f_key_other; assumption.
Qed.

Lemma f_pay_in_other f c p f' : F.pay_in f c p = Ok f' -> FI.valid_id c -> c <> PX -> forall k, hpx f' k = hpx f k.
Proof.
  unfold F.pay_in. intros H Hc Hne k. mon H f1 H1. mon H o Ho. inversion H; subst.
  unfold hpx, F.held. cbn [F.f_held F.upd_out]. apply (f_debit_other _ _ _ _ H1 Hc Hne k).
Qed.

Lemma f_pay_all_other ps : forall f c f', F.pay_all f c ps = Ok f' -> FI.valid_id c -> c <> PX -> forall k, hpx f' k = hpx f k.
Proof.
  induction ps as [|p t IH]; intros f c f' H Hc Hne k; simpl in H.
  - inversion H; subst. reflexivity.
  - mon H f1 H1. rewrite (IH _ _ _ H Hc Hne k). apply (f_pay_in_other _ _ _ _ H1 Hc Hne k).
Qed.

Lemma f_settle_held f blk f' : F.settle f blk = Ok f' -> F.f_held f' = F.f_held f.
Proof.
  unfold F.settle. destruct (blk <=? F.f_last f); [intros H; inversion H; reflexivity|]. cbv zeta.
  destruct (_ =? 0); [intros H; inversion H; reflexivity|]. intros H. mon H inc Hinc. inversion H; subst. reflexivity.
Qed.

Lemma f_pay_reward_held f r b f' : F.pay_reward f r b = Ok f' -> F.f_held f' = F.f_held f.
Proof. intros H. destruct (FI.pay_reward_spec _ _ _ _ H) as (_ & T & _). unfold FI.toks in T. congruence. Qed.

Lemma f_check_update_held ps f u f' : F.check_update f u ps = Ok f' -> F.f_held f' = F.f_held f.
Proof. intros H. apply FI.check_update_only in H. destruct H as (_ & _ & _ & E & _). exact E. Qed.

Lemma f_decrease_user_held f p f' : F.decrease_user f p = Ok f' -> F.f_held f' = F.f_held f.
Proof. intros H. apply FI.decrease_user_only in H. destruct H as (_ & _ & _ & E & _). exact E. Qed.

Lemma f_mint_other f m c f' n : F.mint_pos f m c = (f', n) -> FI.valid_id c -> c <> PX -> forall k, hpx f' k = hpx f k.
Proof.
  unfold F.mint_pos. intros H Hc Hne k. inversion H; subst. unfold hpx, F.held. cbn [F.f_held F.upd_out F.upd_tokens].
  apply aget_aset_other. apply f_key_other; assumption.
Qed.

Lemma hpx_held f f' : F.f_held f' = F.f_held f -> forall k, hpx f' k = hpx f k.
Proof. intros E k. unfold hpx, F.held. rewrite E. reflexivity. Qed.

(** the users' own operations on the LP farm (and its owner's) never touch what the proxy holds *)
Lemma fstep_user_frame f op f' o : F.fstep f op = Ok (f', o) -> lp_user_op op -> forall k, hpx f' k = hpx f k.
Proof.
  intros H U k. destruct op; cbn [F.fstep lp_user_op] in H, U.
  - (* enter *) destruct U as (Hc & Hne & _). unfold F.ep_enter in H. destruct (0 <? amt); [|discriminate].
    mon H f0 H0. destruct (F.active f0); [|discriminate]. mon H f1 H1. mon H f2 H2. mon H f4 H4. mon H m Hm.
    destruct (F.mint_pos _ m c) as [f6 n] eqn:Em. inversion H; subst f' o. clear H.
    unfold hpx at 1, F.held. cbn [F.f_held F.upd_money]. fold (F.held f6 k PX). fold (hpx f6 k).
    rewrite (f_mint_other _ _ _ _ _ Em Hc Hne k). unfold hpx at 1, F.held. cbn [F.f_held F.upd_core].
    rewrite (f_settle_held _ _ _ H4). cbn [F.f_held F.increase_user F.set_utot F.upd_tokens].
    rewrite (f_check_update_held _ _ _ _ H2). fold (F.held f1 k PX). fold (hpx f1 k).
    rewrite (f_pay_all_other _ _ _ _ H1 Hc Hne k). apply hpx_held. apply (f_pay_reward_held _ _ _ _ H0).
  - (* claim *) destruct U as (Hc & Hne & _). unfold F.ep_claim in H. destruct (F.active f); [|discriminate].
    mon H f1 H1. mon H f2 H2. mon H a Ha. mon H part Hp. mon H base Hb. mon H f3 H3. mon H f4 H4. mon H m Hm.
    destruct (F.mint_pos f4 m c) as [f5 n] eqn:Em. inversion H; subst f' o. clear H.
    rewrite (f_mint_other _ _ _ _ _ Em Hc Hne k), (hpx_held _ _ (f_check_update_held _ _ _ _ H4)),
            (hpx_held _ _ (f_pay_reward_held _ _ _ _ H3)), (hpx_held _ _ (f_settle_held _ _ _ H2)).
    apply (f_pay_all_other _ _ _ _ H1 Hc Hne k).
  - (* compound *) destruct U as (Hc & Hne & _). unfold F.ep_compound in H. destruct (F.active f); [|discriminate].
    destruct (F.f_same f); [|discriminate].
    mon H f1 H1. mon H f2 H2. mon H a Ha. mon H part Hp. mon H base Hb. cbv zeta in H. mon H f3 H3. mon H f4 H4. mon H m Hm.
    destruct (F.mint_pos f4 m c) as [f5 n] eqn:Em. inversion H; subst f' o. clear H.
    unfold hpx at 1, F.held. cbn [F.f_held F.upd_money F.increase_user F.set_utot F.upd_tokens]. fold (F.held f5 k PX). fold (hpx f5 k).
    rewrite (f_mint_other _ _ _ _ _ Em Hc Hne k), (hpx_held _ _ (f_check_update_held _ _ _ _ H4)).
    unfold hpx at 1, F.held. cbn [F.f_held F.upd_core]. fold (F.held f3 k PX). fold (hpx f3 k).
    rewrite (hpx_held _ _ (f_pay_reward_held _ _ _ _ H3)), (hpx_held _ _ (f_settle_held _ _ _ H2)).
    apply (f_pay_all_other _ _ _ _ H1 Hc Hne k).
  - (* exit *) destruct U as (Hc & Hne & _). unfold F.ep_exit in H. destruct (F.active f); [|discriminate].
    mon H f1 H1. mon H f2 H2. mon H a Ha. mon H part Hp. mon H base Hb. mon H f3 H3. mon H f4 H4.
    mon H sup Hsup. mon H age Hage. cbv zeta in H. mon H out Hout. mon H bal Hbal. inversion H; subst f' o. clear H.
    unfold hpx at 1, F.held. cbn [F.f_held F.upd_money F.upd_core]. fold (F.held f4 k PX). fold (hpx f4 k).
    rewrite (hpx_held _ _ (f_decrease_user_held _ _ _ H4)), (hpx_held _ _ (f_pay_reward_held _ _ _ _ H3)),
            (hpx_held _ _ (f_settle_held _ _ _ H2)).
    apply (f_pay_in_other _ _ _ _ H1 Hc Hne k).
  - (* merge *) destruct U as (Hc & Hne & _). unfold F.ep_merge in H. destruct (F.active f); [|discriminate].
    destruct ps as [|first rest]; [discriminate|].
    mon H f0 H0. mon H f1 H1. mon H f2 H2. mon H a Ha. mon H part Hp. mon H m0 Hm.
    destruct (F.mint_pos f2 _ c) as [f3 n] eqn:Em. inversion H; subst f' o. clear H.
    rewrite (f_mint_other _ _ _ _ _ Em Hc Hne k), (hpx_held _ _ (f_check_update_held _ _ _ _ H2)),
            (f_pay_all_other _ _ _ _ H1 Hc Hne k).
    apply hpx_held. apply (f_pay_reward_held _ _ _ _ H0).
  - (* claim boosted *) unfold F.ep_claim_boosted in H. destruct (negb _); [|discriminate]. destruct (F.active f); [|discriminate].
    mon H f1 H1. mon H f2 H2. inversion H; subst f' o. clear H.
    rewrite (hpx_held _ _ (f_pay_reward_held _ _ _ _ H2)). apply hpx_held. apply (f_settle_held _ _ _ H1).
  - (* transfer *) destruct U as ((Hs & Hns & _) & (Hd & Hnd & _)). unfold F.ep_transfer in H. mon H f1 H1. inversion H; subst f' o. clear H.
    unfold hpx at 1, F.held. cbn [F.f_held F.upd_tokens]. rewrite aget_aset_other by (apply f_key_other; assumption).
    apply (f_debit_other _ _ _ _ H1 Hs Hns k).
  - destruct (F.admin c); [|discriminate]. destruct (_ && _); [|discriminate]. mon H f1 H1. inversion H; subst. apply hpx_held. cbn. apply (f_settle_held _ _ _ H1).
  - destruct (F.admin c); [|discriminate]. destruct (negb _); [|discriminate]. destruct (negb _); [|discriminate]. inversion H; subst. reflexivity.
  - destruct (F.admin c); [|discriminate]. mon H f1 H1. inversion H; subst. apply hpx_held. cbn. apply (f_settle_held _ _ _ H1).
  - destruct (F.admin c); [|discriminate]. destruct (_ && _); [|discriminate]. mon H f1 H1. inversion H; subst. apply hpx_held. cbn. apply (f_settle_held _ _ _ H1).
  - destruct (F.admin c); [|discriminate]. inversion H; subst. reflexivity.
  - destruct (F.admin c); [|discriminate]. destruct (_ || _); [|discriminate]. inversion H; subst. reflexivity.
  - destruct (F.admin c); [|discriminate]. destruct (_ && _); [|discriminate]. inversion H; subst. reflexivity.
  - destruct (F.admin c); [|discriminate]. destruct (_ && _); [|discriminate]. inversion H; subst. reflexivity.
  - destruct (0 <? amt); [|discriminate]. inversion H; subst. reflexivity.
Qed.

Lemma xfer_out_held f n u x f' o : F.ep_transfer f n PX u x = Ok (f', o) -> FI.valid_id u -> u <> PX ->
  forall k, hpx f' k = hpx f k - (if k =? n then x else 0).
Proof.
  intros H Hu Hne k. destruct (BF.ep_transfer_frame _ _ _ _ _ _ _ H) as (_ & _ & _ & Hh).
  unfold hpx, F.held. rewrite Hh. rewrite aget_aset_other by (apply f_key_other; assumption).
  destruct (k =? n) eqn:E.
  - apply Z.eqb_eq in E. subst k. rewrite aget_aset_same. reflexivity.
  - apply Z.eqb_neq in E. rewrite aget_aset_other by (apply f_pxkey_ne; congruence). lia.
Qed.

Lemma xfer_in_held f n u x f' o : F.ep_transfer f n u PX x = Ok (f', o) -> FI.valid_id u -> u <> PX ->
  forall k, hpx f' k = hpx f k + (if k =? n then x else 0).
Proof.
  intros H Hu Hne k. destruct (BF.ep_transfer_frame _ _ _ _ _ _ _ H) as (_ & _ & _ & Hh).
  unfold hpx, F.held. rewrite Hh.
  destruct (k =? n) eqn:E.
  - apply Z.eqb_eq in E. subst k. rewrite aget_aset_same. rewrite aget_aset_other by (apply f_key_other; assumption). reflexivity.
  - apply Z.eqb_neq in E. rewrite aget_aset_other by (apply f_pxkey_ne; congruence).
    rewrite aget_aset_other by (apply f_key_other; assumption). lia.
Qed.

Lemma ksum_cons k n x t : ksum k ((n, x) :: t) = (if k =? n then x else 0) + ksum k t.
Proof. unfold ksum. cbn [filter fst]. rewrite (Z.eqb_sym n k). destruct (k =? n); simpl; lia. Qed.

Lemma ksum_app k l1 l2 : ksum k (l1 ++ l2) = ksum k l1 + ksum k l2.
Proof. unfold ksum. rewrite filter_app. apply pay_sum_app. Qed.

Lemma xfers_out_held toks : forall f u f1, FB.fseq f (map (FB.xfer PX u) toks) = Ok f1 -> FI.valid_id u -> u <> PX ->
  forall k, hpx f1 k = hpx f k - ksum k toks.
Proof.
  induction toks as [|[n x] t IH]; intros f u f1 H Hu Hne k; simpl in H.
  - inversion H; subst. unfold ksum. simpl. lia.
  - mon H r H0. destruct r as [f0 o0]. cbn [fst] in H. cbn [FB.xfer fst snd F.fstep] in H0.
    rewrite (IH _ _ _ H Hu Hne k), (xfer_out_held _ _ _ _ _ _ H0 Hu Hne k), ksum_cons. lia.
Qed.

Lemma lp_via_user_held lf u toks op back lf' o rc :
  lp_via_user lf u toks op back = Ok (lf', o, rc) -> uid u -> lp_user_op op ->
  forall k, hpx (FL.l_f lf') k = hpx (FL.l_f lf) k - ksum k toks + (if back then (if k =? nth 0 o 0 then nth 1 o 0 else 0) else 0).
Proof.
  unfold lp_via_user. intros H (Hu & Hne & _) Hop k.
  mon H lf1 H1. mon H r Hr. destruct r as [[lf2 o2] rc2].
  apply BF.lseq_xfers in H1. destruct H1 as (Hq & _).
  apply BF.lstep_LF in Hr. destruct Hr as (Hf & _).
  pose proof (fstep_user_frame _ _ _ _ Hf Hop k) as E2. pose proof (xfers_out_held _ _ _ _ Hq Hu Hne k) as E1.
  destruct back.
  - mon H r' Hr'. destruct r' as [[lf3 o3] rc3]. cbn [fst] in H. inversion H; subst lf' o rc. clear H.
    apply BF.lstep_LF in Hr'. destruct Hr' as (Hf' & _). cbn [F.fstep] in Hf'.
    rewrite (xfer_in_held _ _ _ _ _ _ Hf' Hu Hne k), E2, E1. reflexivity.
  - inversion H; subst lf' o rc. clear H. rewrite E2, E1. lia.
Qed.

(** (3), LP-farm side *)
Definition LinkL (cs : cst) : Prop := forall k, MS.lpf_bal (c_ms cs) k = hpx (FL.l_f (c_lf cs)) k.

Lemma linkl_back cs s1 : MSP.same_back (c_ms cs) s1 -> LinkL cs -> LinkL (with_ms cs s1).
Proof. intros (_ & _ & _ & _ & Bl & _) L k. cbn [with_ms c_ms c_lf]. rewrite Bl. apply L. Qed.

Lemma claim_linkl cs blk ep u pays fail spa bl bs cs' o calls e :
  c_claim cs blk ep u pays fail spa bl bs = Ok (cs', o, calls, e) -> uid u -> LinkL cs -> LinkL cs'.
Proof.
  unfold c_claim. intros H Hu L.
  destruct pays as [|p0 [|? ?]]; try discriminate.
  destruct (MS.p_tok p0 =? MS.TK_DY) eqn:Et; [|discriminate].
  mon H rp Hrp. destruct rp as [s1 part]. cbn [snd] in H.
  destruct fail; [discriminate|]. cbn [negb] in H.
  mon H pk Hpk. mon H rl Hrl. destruct rl as [[lf1 lo] rc].
  mon H e1 He1. apply opt_ok in He1. cbn [fst snd] in He1, H.
  mon H rs Hrs. destruct rs as [sp1 so]. cbn [fst snd] in H.
  mon H e2 He2. apply opt_ok in He2.
  mon H rr Hrr. destruct rr as [[ms' o'] calls']. inversion H; subst cs' o calls e. clear H.
  assert (Hop : lp_user_op (F.FClaim blk ep u (MS.d_lpn part, MS.d_lpa part) [] bl)) by exact Hu.
  pose proof (lp_via_user_held _ _ _ _ _ _ _ _ Hrl Hu Hop) as Hh.
  destruct lo as [|x1 [|x2 [|x3 [|? ?]]]]; try discriminate He1. cbn [answer_of_lp_claimRewards] in He1. inversion He1; subst e1. clear He1.
  destruct so as [|y1 [|y2 [|y3 [|? ?]]]]; try discriminate He2.
  cbn [L15.answer_of_claimRewardsWithNewValue MS.ec_fail MS.ec_sp MS.ec_lpn MS.ec_lpa MS.ec_rl] in He2. inversion He2; subst e2. clear He2.
  cbn [MS.step] in Hrr. apply MSP.claim_spec in Hrr.
  destruct Hrr as (n0 & p1 & a & part0 & s1' & s2 & s3 & v' & ot' & oa' & n' & K).
  destruct K as [Kp R _ K12 Kmint K3 _ _ _ _]. inversion Kp; subst p0. clear Kp.
  unfold MS.p_nonce, MS.p_amt in Hrp. cbn [fst snd] in Hrp.
  pose proof (MSP.rl_part _ _ _ _ _ _ _ R) as Hpart.
  assert (Epart : part0 = part).
  { apply MSP.release_spec in Hrp. destruct Hrp as (a2 & R2).
    pose proof (MSP.rl_attr _ _ _ _ _ _ _ R) as A1. pose proof (MSP.rl_attr _ _ _ _ _ _ _ R2) as A2. rewrite A1 in A2. inversion A2; subst a2.
    pose proof (MSP.rl_part _ _ _ _ _ _ _ R2) as P2. rewrite Hpart in P2. inversion P2. reflexivity. }
  subst part0. pose proof (MSP.dy_part_spec _ _ _ Hpart) as (Pn & _).
  intros j. cbn [c_ms c_lf]. destruct K3 as (_ & _ & _ & _ & B3 & _). destruct K12 as (_ & _ & _ & _ & B12 & _).
  rewrite B3, (MSP.mt_lpf _ _ _ _ _ Kmint), B12, (MSP.rl_lpf _ _ _ _ _ _ _ R). cbn [MS.d_lpn MS.d_lpa].
  rewrite Hh, (L j), ksum_cons. cbn [nth]. unfold ksum. cbn [filter LW.pay_sum fold_right].
  rewrite Pn, (Z.eqb_sym j (MS.d_lpn a)), (Z.eqb_sym j x1). cbn [MS.ec_lpn MS.ec_lpa].
  destruct (MS.d_lpn a =? j); destruct (x1 =? j); lia.
Qed.

Lemma unstake_linkl cs blk ep u pays m1 m2 bl bs cs' o calls e :
  c_unstake cs blk ep u pays m1 m2 bl bs = Ok (cs', o, calls, e) -> uid u -> LinkL cs -> LinkL cs'.
Proof.
  unfold c_unstake. intros H Hu L.
  destruct pays as [|p0 [|? ?]]; try discriminate.
  destruct (MS.p_tok p0 =? MS.TK_DY) eqn:Et; [|discriminate].
  mon H rp Hrp. destruct rp as [s1 part]. cbn [snd] in H.
  mon H rl Hrl. destruct rl as [[lf1 lo] rc]. cbn [fst snd] in H.
  mon H e1 He1. mon H p1 Hp1. mon H rq Hrq. mon H e2 He2. mon H pk Hpk. mon H rs Hrs. mon H e3 He3. mon H rt Hrt.
  mon H rr Hrr. destruct rr as [[ms' o'] calls']. inversion H; subst cs' o calls e. clear H.
  assert (Hop : lp_user_op (F.FExit blk ep u (MS.d_lpn part, MS.d_lpa part) bl)) by exact Hu.
  pose proof (lp_via_user_held _ _ _ _ _ _ _ _ Hrl Hu Hop) as Hh.
  cbn [MS.step] in Hrr. apply MSP.unstake_spec in Hrr.
  destruct Hrr as (n0 & p1' & a & part0 & s1' & stk' & ot' & oa' & K).
  destruct K as [Kp R _ _ Klpf _ _ _ _]. inversion Kp; subst p0. clear Kp.
  unfold MS.p_nonce, MS.p_amt in Hrp. cbn [fst snd] in Hrp.
  pose proof (MSP.rl_part _ _ _ _ _ _ _ R) as Hpart.
  assert (Epart : part0 = part).
  { apply MSP.release_spec in Hrp. destruct Hrp as (a2 & R2).
    pose proof (MSP.rl_attr _ _ _ _ _ _ _ R) as A1. pose proof (MSP.rl_attr _ _ _ _ _ _ _ R2) as A2. rewrite A1 in A2. inversion A2; subst a2.
    pose proof (MSP.rl_part _ _ _ _ _ _ _ R2) as P2. rewrite Hpart in P2. inversion P2. reflexivity. }
  subst part0. pose proof (MSP.dy_part_spec _ _ _ Hpart) as (Pn & _).
  intros j. cbn [c_ms c_lf fst]. rewrite Klpf, (MSP.rl_lpf _ _ _ _ _ _ _ R), Hh, (L j), ksum_cons.
  unfold ksum. cbn [filter LW.pay_sum fold_right]. rewrite Pn, (Z.eqb_sym j (MS.d_lpn a)). destruct (MS.d_lpn a =? j); lia.
Qed.

Lemma stake_linkl cs blk ep pc u pays fail spa bs bl cs' o calls e :
  c_stake cs blk ep pc u pays fail spa bs bl = Ok (cs', o, calls, e) -> uid pc -> uid u -> LinkL cs -> LinkL cs'.
Proof.
  unfold c_stake. intros H Hpc Hu L.
  destruct pays as [|first adds]; [discriminate|].
  destruct (MS.p_tok first =? MS.TK_LPF) eqn:Et; [|discriminate]. apply Z.eqb_eq in Et.
  destruct (forallb MS.is_dy adds) eqn:Edy; [|discriminate].
  mon H r0 Hr0. destruct r0 as [[lf0 o0] rc0]. cbn [fst] in H.
  mon H rp Hrp. destruct rp as [s1 parts]. cbn [snd] in H.
  destruct fail; [discriminate|]. cbn [negb] in H.
  mon H pk Hpk. mon H rs Hrs. destruct rs as [sp1 so]. cbn [fst snd] in H.
  mon H e1 He1. apply opt_ok in He1.
  destruct first as [[t0 k] a]. unfold MS.p_tok, MS.p_nonce, MS.p_amt in *. cbn [fst snd] in *. subst t0.
  apply BF.lstep_LF in Hr0. destruct Hr0 as (Hf0 & _). cbn [F.fstep] in Hf0.
  destruct Hpc as (Vpc & Npc & _).
  pose proof (xfer_in_held _ _ _ _ _ _ Hf0 Vpc Npc) as H0.
  destruct so as [|y1 [|y2 [|y3 [|? ?]]]]; try discriminate He1.
  cbn [L15.answer_of_stakeFarmThroughProxy rest_stake MS.es_fail MS.es_sp MS.es_lpn MS.es_lpa MS.es_bl] in He1. inversion He1; subst e1. clear He1.
  destruct adds as [|ad adds'].
  - cbn [bind] in H. mon H rr Hrr. destruct rr as [[ms' o'] calls']. inversion H; subst cs' o calls e. clear H.
    cbn [MS.step] in Hrr. apply MSP.stake_spec in Hrr.
    destruct Hrr as (k' & a' & adds0 & s1' & s3 & s4 & parts' & v' & ot' & oa' & n' & K).
    destruct K as [Kp _ Krel _ K13 Kmint K4 _ _ _ _]. inversion Kp; subst k' a' adds0. clear Kp.
    simpl in Krel. inversion Krel; subst s1' parts'. clear Krel.
    intros j. cbn [c_ms c_lf]. destruct K4 as (_ & _ & _ & _ & B4 & _). destruct K13 as (_ & _ & _ & _ & B13 & _).
    rewrite B4, (MSP.mt_lpf _ _ _ _ _ Kmint), B13. cbn [MSP.merged_attr MS.d_lpn MS.d_lpa].
    rewrite H0, (L j), (Z.eqb_sym j k). reflexivity.
  - set (adds := ad :: adds') in *. set (toks := lp_toks parts ++ [(k, a)]) in *.
    mon H rm Hrm. mon Hrm r Hr. destruct r as [[lfm lo] rcm]. cbn [fst snd] in Hrm.
    mon Hrm e2' He2. apply opt_ok in He2. inversion Hrm; subst rm. clear Hrm.
    mon H rr Hrr. destruct rr as [[ms' o'] calls']. inversion H; subst cs' o calls e. clear H.
    assert (Hop : lp_user_op (F.FMerge blk ep u toks bl)) by exact Hu.
    pose proof (lp_via_user_held _ _ _ _ _ _ _ _ Hr Hu Hop) as Hh.
    destruct lo as [|x1 [|x2 [|x3 [|? ?]]]]; try discriminate He2.
    cbn [answer_of_lp_mergeFarmTokens MS.es_fail MS.es_sp MS.es_sfn MS.es_sfa MS.es_bs] in He2. inversion He2; subst e2'. clear He2.
    cbn [MS.step] in Hrr. apply MSP.stake_spec in Hrr.
    destruct Hrr as (k' & a' & adds0 & s1' & s3 & s4 & parts' & v' & ot' & oa' & n' & K).
    destruct K as [Kp _ Krel _ K13 Kmint K4 _ _ _ _]. inversion Kp; subst k' a' adds0. clear Kp.
    fold adds in Krel. rewrite Hrp in Krel. inversion Krel; subst s1' parts'. clear Krel.
    intros j. cbn [c_ms c_lf]. destruct K4 as (_ & _ & _ & _ & B4 & _). destruct K13 as (_ & _ & _ & _ & B13 & _).
    rewrite B4, (MSP.mt_lpf _ _ _ _ _ Kmint), B13, (release_all_lpf _ _ _ _ _ Hrp).
    unfold MSP.merged_attr. fold adds. cbn [adds MS.d_lpn MS.d_lpa MS.es_lpn MS.es_lpa].
    rewrite Hh, H0, (L j). unfold toks. rewrite ksum_app, ksum_cons. cbn [nth]. unfold ksum. cbn [filter LW.pay_sum fold_right].
    rewrite (Z.eqb_sym j x1). destruct (j =? k); destruct (x1 =? j); lia.
Qed.

Theorem cstep_linkl cs op cs' o calls : cstep cs op = Ok (cs', o, calls) -> CI cs -> LinkL cs -> cvalid op -> LinkL cs'.
Proof.
  intros H C L V. pose proof C as [_ _ _ _ _ _ Hh].
  destruct op as [blk ep c pays fail spa bs bl | blk ep c pays fail spa bl bs | blk ep c pays m1 m2 bl bs | src dst n amt
                 | blk ep a u pays fail spa bs bl | blk ep a pays fail spa bl bs | hop | lop | pop | qop];
    cbn [cstep] in H; cbn [cvalid] in V.
  - mon H r Hr. destruct r as [[[cs2 o2] calls2] e]. inversion H; subst cs2 o2 calls2. eapply stake_linkl; eassumption.
  - mon H r Hr. destruct r as [[[cs2 o2] calls2] e]. inversion H; subst cs2 o2 calls2. eapply claim_linkl; eassumption.
  - mon H r Hr. destruct r as [[[cs2 o2] calls2] e]. inversion H; subst cs2 o2 calls2. eapply unstake_linkl; eassumption.
  - mon H r Hr. destruct r as [[ms' o'] c']. inversion H; subst. cbn [fst].
    cbn [MS.step] in Hr. apply MSP.xfer_back in Hr. destruct Hr as (B & _). apply linkl_back; assumption.
  - destruct V as [Va Vu]. mon H r Hr. destruct r as [[[cs2 o2] calls2] e]. inversion H; subst cs2 o2 calls2. clear H.
    destruct (c_stake_ob_parts _ _ _ _ _ _ _ _ _ _ _ _ _ _ Hr) as (_ & first & adds & s1 & cs2 & s3 & _ & _ & _ & _ & H1 & Hs & H3 & ->).
    pose proof (xfer_all_back _ _ _ _ _ H1) as B1.
    assert (L2 : LinkL cs2) by (eapply (stake_linkl (with_ms cs s1)); [exact Hs | exact Va | exact Vu | apply linkl_back; assumption]).
    apply MSP.xfer_back in H3. destruct H3 as (B3 & _). apply linkl_back; assumption.
  - mon H r Hr. destruct r as [[[[cs2 o2] calls2] e] u]. inversion H; subst cs2 o2 calls2. clear H.
    destruct (c_claim_ob_parts _ _ _ _ _ _ _ _ _ _ _ _ _ _ Hr) as (p & s1 & cs2 & s3 & _ & _ & Hw & H1 & Hs & H3 & ->).
    apply BP.is_whitelisted_listed in Hw. destruct Hw as [Hw _]. apply Hh in Hw.
    pose proof (xfer_all_back _ _ _ _ _ H1) as B1.
    assert (L2 : LinkL cs2) by (eapply (claim_linkl (with_ms cs s1)); [exact Hs | exact Hw | apply linkl_back; assumption]).
    apply MSP.xfer_back in H3. destruct H3 as (B3 & _). apply linkl_back; assumption.
  - mon H h' Hh'. inversion H; subst. exact L.
  - mon H r Hr. destruct r as [cs2 o2]. inversion H; subst cs2 o2 calls. clear H.
    unfold c_lp_direct in Hr. mon Hr r Hl. destruct r as [[lf' o'] rc]. mon Hr p' Hp. inversion Hr; subst cs' o. clear Hr.
    intros j. cbn [c_ms c_lf]. rewrite (L j). symmetry. destruct lop as [fop|c0 e0].
    + apply BF.lstep_LF in Hl. destruct Hl as (Hf & _). apply (fstep_user_frame _ _ _ _ Hf V j).
    + apply FLP.lstep_setlock in Hl. destruct Hl as (_ & Hf & _). rewrite Hf. reflexivity.
  - mon H r Hr. inversion H; subst. exact L.
  - mon H r Hr. inversion H; subst. exact L.
Qed.

(** (3) over every history *)
Definition Link (cs : cst) : Prop := LinkS cs /\ LinkL cs.

Theorem crun_all : forall ops cs, CI cs -> Link cs -> cvalid_ops ops -> CI (crun cs ops) /\ Link (crun cs ops).
Proof.
  induction ops as [|op t IH]; intros cs C L V; [split; assumption|].
  change (crun cs (op :: t)) with (crun (cstep_total cs op) t). inversion V as [|? ? [V1 V2] Vt]; subst.
  unfold cstep_total. destruct (cstep cs op) as [[[cs' o] calls]|er] eqn:E; [|apply IH; assumption].
  destruct L as [LS LL].
  apply IH; [eapply cstep_ci; eassumption | split; [eapply cstep_links | eapply cstep_linkl]; eassumption | exact Vt].
Qed.

Lemma init_c_link ldsc opts lock sdsc apr minub fee sfee sf ho : Link (init_c ldsc opts lock sdsc apr minub fee sfee sf ho).
Proof. split; [apply init_c_links | intros k; reflexivity]. Qed.

(** (3) as one statement about any state satisfying the closed invariants *)
Theorem closed_conservation cs : CI cs -> Link cs ->
  (* the LP-farm tokens the proxy model holds ARE holdings of the proxy in the LP-farm model, hence outstanding positions *)
  (forall k, MS.lpf_bal (c_ms cs) k = F.held (FL.l_f (c_lf cs)) k PX /\
             F.held (FL.l_f (c_lf cs)) k PX <= F.outst (FL.l_f (c_lf cs)) k <= F.f_supply (FL.l_f (c_lf cs))) /\
  (* the staking-farm tokens likewise *)
  (forall k, MS.sf_bal (c_ms cs) k = SP.held (c_sp cs) k PX) /\
  (* the staking farm's virtual principal = sum of the staking amounts recorded in outstanding dual-yield tokens
     = everything the proxy holds in the staking-farm model, and it is part of the farm-token supply *)
  ST.s_virt (SP.p_s (c_sp cs)) = sum_sup (c_ms cs) /\
  ST.s_virt (SP.p_s (c_sp cs)) = SPP.proxy_held (c_sp cs) /\
  0 <= ST.s_virt (SP.p_s (c_sp cs)) <= ST.s_supply (SP.p_s (c_sp cs)).
Proof.
  intros [_ K _ T I VI _] [[L1 L2] LL]. pose proof K as (A & _ & _).
  split; [|split; [exact L1 | split; [exact L2 | split; [exact VI | exact (SPP.virt_within_supply _ I VI)]]]].
  intros k. split; [exact (LL k)|]. split; [apply FT.held_le_outst; [exact A | exact T | exact px_valid] | apply FT.outst_le_supply; exact A].
Qed.

Theorem closed_reach ldsc opts lock sdsc apr minub fee sfee sf ho ops : 0 < ldsc -> 0 < sdsc -> 0 < apr -> cvalid_ops ops ->
  let cs := crun (init_c ldsc opts lock sdsc apr minub fee sfee sf ho) ops in CI cs /\ Link cs.
Proof. intros Hl Hs Ha V cs. apply crun_all; [apply init_c_ci; assumption | apply init_c_link | exact V]. Qed.

(** ================================================================== D. (4) no failure on a callee counter: partial *)
(** the farm positions a redemption hands to the farms are there - in the CALLEE models: neither farm can reject the
    proxy's payment for lack of balance (the proxy's ledger and the farms' ledgers agree, and the proxy's ledger covers
    every redemption: C15_backed) *)
Theorem closed_positions_available cs c n p s1 part : CI cs -> Link cs ->
  MS.release (c_ms cs) c n p = Ok (s1, part) ->
  MS.d_sfa part = p /\ 0 < p <= SP.held (c_sp cs) (MS.d_sfn part) PX /\
  MS.d_lpa part <= F.held (FL.l_f (c_lf cs)) (MS.d_lpn part) PX.
Proof.
  intros _ [[L1 _] LL] H. apply MSP.release_spec in H. destruct H as (a & R).
  pose proof (MSP.dy_part_spec _ _ _ (MSP.rl_part _ _ _ _ _ _ _ R)) as (Pn & Psn & Psa & _).
  split; [exact Psa|]. rewrite Pn, Psn, <- L1. unfold LinkL, hpx in LL. rewrite <- LL.
  split; [split; [exact (MSP.rl_pos _ _ _ _ _ _ _ R) | exact (MSP.rl_sf_le _ _ _ _ _ _ _ R)] | exact (MSP.rl_lpf_le _ _ _ _ _ _ _ R)].
Qed.

(** every call a proxy endpoint makes to a farm is made on a state of that farm's model reachable by valid operations
    ([callee_runs]), where the farm's own no-spurious-failure theorem applies: the call can fail only on one of the
    farm's DOCUMENTED guards (Proofs/FarmTotal.v [fguards]; Proofs/StakingPosProofs.v [guards]), never on a counter *)
Theorem closed_callee_calls_total_partial cs : CI cs ->
  (forall fops fop, Forall FI.valid_op fops -> FI.valid_op fop ->
     let f := F.frun (FL.l_f (c_lf cs)) fops in FT.fguards f fop -> exists r, F.fstep f fop = Ok r) /\
  (forall pops pop, Forall SPP.sep_op pops -> SPP.pvalid_op pop ->
     let sp := SP.prun (c_sp cs) pops in SPP.guards sp pop -> exists r, SP.pstep sp pop = Ok r).
Proof.
  intros [_ K U T I VI _]. split.
  - intros fops fop Vs V f G. destruct (BF.frun_all fops _ K U Vs) as (K' & _ & _).
    apply FT.farm_no_spurious_failure; [exact K' | apply FT.frun_ti; assumption | exact V | exact G].
  - intros pops pop Vs V sp G. destruct (SPP.prun_virt pops _ I VI Vs) as (I' & VI').
    apply SPP.pstep_live; [exact I' | apply (SPP.virt_within_supply _ I' VI') | exact V | exact G].
Qed.

(** the staking-farm calls of claimDualYield / unstakeFarmTokens: the position guard is DISCHARGED by the composition -
    they can fail only because the farm is paused, the new value is negative / no staking tokens are sent, or the
    boosted payout exceeds the farm's boosted pool *)
Theorem closed_staking_calls_total_partial cs c n p s1 part blk ep u : CI cs -> Link cs ->
  MS.release (c_ms cs) c n p = Ok (s1, part) -> ST.active (SP.p_s (c_sp cs)) = true ->
  (forall v bs, 0 <= v -> SPP.pool_ok (c_sp cs) blk bs ->
     exists r, SP.pstep (c_sp cs) (SP.PClaimNewValue blk ep PX u (MS.d_sfn part, MS.d_sfa part) v bs) = Ok r) /\
  (forall stk bs, 0 < stk -> SPP.pool_ok (c_sp cs) blk bs ->
     exists r, SP.pstep (c_sp cs) (SP.PUnstakeProxy blk ep PX u (MS.d_sfn part, MS.d_sfa part) stk bs) = Ok r).
Proof.
  intros C L H Hact. destruct (closed_positions_available _ _ _ _ _ _ C L H) as (Ea & Hp & _).
  destruct C as [_ _ _ _ I VI _]. pose proof (SPP.virt_within_supply _ I VI) as Hv.
  split.
  - intros v bs Hv0 Hpool. apply SPP.pstep_live; [exact I | lia | exact px_valid|].
    split; [exact Hact|]. cbn [fst snd]. rewrite Ea. split; [reflexivity|]. split; [exact Hv0|]. split; [exact Hp | exact Hpool].
  - intros stk bs Hs Hpool. apply SPP.pstep_live; [exact I | lia | exact px_valid|].
    split; [exact Hact|]. cbn [fst snd]. rewrite Ea. split; [reflexivity|]. split; [exact Hs|]. split; [exact Hp | exact Hpool].
Qed.

(** restatements used by Props/C15_closed.v *)
Lemma cstep_runs_ex cs op cs' o calls : cstep cs op = Ok (cs', o, calls) -> CI cs -> cvalid op ->
  (exists fops, Forall FI.valid_op fops /\ FL.l_f (c_lf cs') = F.frun (FL.l_f (c_lf cs)) fops) /\
  (exists pops, Forall SPP.sep_op pops /\ c_sp cs' = SP.prun (c_sp cs) pops).
Proof. intros H C V. destruct (cstep_runs cs op cs' o calls H C V) as [A B _]. split; assumption. Qed.

Lemma cstep_all cs op cs' o calls : cstep cs op = Ok (cs', o, calls) -> CI cs -> Link cs -> cvalid op -> cwf op -> CI cs' /\ Link cs'.
Proof.
  intros H C [LS LL] V W.
  split; [eapply cstep_ci; eassumption | split; [eapply cstep_links | eapply cstep_linkl]; eassumption].
Qed.
