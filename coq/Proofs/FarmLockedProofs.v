(** farm-with-locked-rewards: the wrapper [lstep] of Model/FarmLocked.v is a restriction of
    [Farm.fstep] on the shared state, so every invariant of the dex/farm model (C05, C06, C07)
    holds for it; plus the contract's own clause: rewards leave only as LOCKED tokens created for
    the caller, and the contract's own reward-token balance moves only by donations. *)
From MX Require Import Base.Prelude Gen.Params Model.Farm Model.FarmLocked.
From MX Require Import Proofs.FarmInv Proofs.FarmSolv Proofs.FarmRps Proofs.FarmOwner.

(** ------------------------------------------------------------------ reduction to fstep *)
Definition lvalid (op : lop) : Prop := match op with LF op => valid_op op | _ => True end.

Lemma topup_donated op : topup_of op = donated op.
Proof. destruct op; reflexivity. Qed.

(** a successful operation of the locked farm on a farm endpoint IS a successful [fstep] of the
    shared state with the same results *)
Lemma lstep_farm s op s' o lk : lstep s (LF op) = Ok (s', o, lk) ->
  has_endpoint op = true /\ fstep (l_f s) op = Ok (l_f s', o) /\
  l_base s' = l_base s + donated op /\ l_opts s' = l_opts s /\ l_lock s' = l_lock s /\
  l_locked s' = l_locked s + Z.max 0 (reward_of op o).
Proof.
  unfold lstep. intros H. destruct (has_endpoint op); [|discriminate].
  apply bind_ok in H. destruct H as ([f' o'] & Hf & H). rewrite topup_donated in H. cbv zeta in H.
  destruct (0 <? reward_of op o') eqn:Er.
  - destruct (listed s); [|discriminate]. destruct (op_epoch op <? _); [|discriminate].
    inversion H; subst; clear H. simpl. apply Z.ltb_lt in Er. repeat split; auto; lia.
  - inversion H; subst; clear H. simpl. apply Z.ltb_ge in Er. repeat split; auto; lia.
Qed.

Lemma lstep_setlock s c e s' o lk : lstep s (LSetLockEpochs c e) = Ok (s', o, lk) ->
  c = OWNER /\ l_f s' = l_f s /\ l_base s' = l_base s /\ l_opts s' = l_opts s /\ l_lock s' = e /\
  l_locked s' = l_locked s /\ o = [] /\ lk = [].
Proof.
  unfold lstep. unfold admin. destruct (c =? OWNER) eqn:E; [|discriminate]. apply Z.eqb_eq in E.
  destruct (0 <=? e); [|discriminate]. intros H. inversion H; subst. simpl. repeat split; auto.
Qed.

(** the shared state of any history of the locked farm is the state of a dex/farm-model history
    (its successful farm operations): every theorem about [frun] transfers *)
Theorem lrun_refines_frun : forall ops s, exists fops,
  (Forall lvalid ops -> Forall valid_op fops) /\ l_f (lrun s ops) = frun (l_f s) fops.
Proof.
  induction ops as [|op t IH]; intros s.
  - exists []. split; auto.
  - change (lrun s (op :: t)) with (lrun (lstep_total s op) t). unfold lstep_total.
    destruct (lstep s op) as [[[s' o] lk]|] eqn:E.
    + destruct op as [fop|c e].
      * apply lstep_farm in E. destruct E as (_ & Ef & _).
        destruct (IH s') as (fops & V & R). exists (fop :: fops). split.
        -- intros W. inversion W; subst. constructor; auto.
        -- change (frun (l_f s) (fop :: fops)) with (frun (fstep_total (l_f s) fop) fops).
           unfold fstep_total. rewrite Ef. exact R.
      * apply lstep_setlock in E. destruct E as (_ & Ef & _).
        destruct (IH s') as (fops & V & R). exists fops. split.
        -- intros W. inversion W; auto.
        -- rewrite <- Ef. exact R.
    + destruct (IH s) as (fops & V & R). exists fops. split; [|exact R].
      intros W. inversion W; auto.
Qed.

(** ------------------------------------------------------------------ C05 / C06 / C07 for the locked farm *)
Theorem lrun_ok : forall ops s, FarmOK (l_f s) -> Forall lvalid ops -> FarmOK (l_f (lrun s ops)).
Proof.
  intros ops s K V. destruct (lrun_refines_frun ops s) as (fops & W & R). rewrite R. apply frun_ok; auto.
Qed.

Theorem lrun_acc : forall ops s, FarmAcc (l_f s) -> Forall lvalid ops -> FarmAcc (l_f (lrun s ops)).
Proof.
  intros ops s K V. destruct (lrun_refines_frun ops s) as (fops & W & R). rewrite R. apply frun_acc; auto.
Qed.

Theorem lrun_ut : forall ops s, FarmOK (l_f s) -> UT (l_f s) /\ AttrFresh (l_f s) -> Forall lvalid ops ->
  UT (l_f (lrun s ops)).
Proof.
  intros ops s K U V. destruct (lrun_refines_frun ops s) as (fops & W & R). rewrite R. apply frun_ut; auto.
Qed.

(** C05 for every reachable state of the locked farm, from any deployment: reserve = generated - paid,
    principal backed, supply = sum of positions, reserve covers all claimable base rewards on top of
    the boosted pools *)
Theorem locked_C05_reach : forall dsc same opts lock ops, 0 < dsc -> Forall lvalid ops ->
  let f := l_f (lrun (init_locked dsc same opts lock) ops) in
  FarmOK f /\
  f_reserve f = f_gen f - f_paid f /\ f_bal_farming f = f_supply f /\
  claimable f <= f_dsc f * (f_reserve f - f_pool f) /\ 0 <= f_pool f <= f_reserve f /\
  f_paid f + f_pool f <= f_gen f.
Proof.
  intros dsc same opts lock ops Hd V f.
  assert (K : FarmOK f) by (apply lrun_ok; [apply init_farm_ok; assumption | assumption]).
  split; [exact K|]. destruct K as (A & S & D).
  pose proof (pool_within_reserve f A S). pose proof (issuance_bound f A S).
  destruct A as [[acc led hh fr frh nx (w1 & w2 & w3 & w4 & w5 & w6)] out prin]. destruct S as [_ CV].
  repeat split; auto; lia.
Qed.

(** C05/C06 per step: every successful operation preserves the invariant and never lowers the index *)
Theorem locked_step_ok : forall s op s' o lk, FarmOK (l_f s) -> lvalid op -> lstep s op = Ok (s', o, lk) ->
  FarmOK (l_f s') /\ f_rps (l_f s) <= f_rps (l_f s').
Proof.
  intros s op s' o lk K V E. destruct op as [fop|c e].
  - apply lstep_farm in E. destruct E as (_ & Ef & _).
    destruct (fstep_ok _ _ _ _ Ef K V) as (K' & _ & R). split; assumption.
  - apply lstep_setlock in E. destruct E as (_ & Ef & _). rewrite Ef. split; [exact K | lia].
Qed.

(** C07 for every reachable state: supply = sum of outstanding positions = what accounts hold; each
    user's tracked total = sum of the outstanding positions recorded as theirs *)
Theorem locked_C07_reach : forall dsc same opts lock ops u, 0 < dsc -> Forall lvalid ops ->
  let f := l_f (lrun (init_locked dsc same opts lock) ops) in
  f_supply f = asum (f_out f) /\ asum (f_out f) = asum (f_held f) /\
  utot f u = wsum (fun n => if owner_of f n =? u then 1 else 0) (f_out f).
Proof.
  intros dsc same opts lock ops u Hd V f.
  destruct (lrun_ok ops (init_locked dsc same opts lock) (init_farm_ok dsc same Hd) V) as ([[_ _ hh _ _ _ _] out _] & _ & _).
  split; [symmetry; exact out|]. split; [symmetry; exact hh|].
  exact (lrun_ut ops (init_locked dsc same opts lock) (init_farm_ok dsc same Hd) (init_ut dsc same) V u).
Qed.

(** ------------------------------------------------------------------ what each endpoint pays: f_paid grows by the reported reward *)
Lemma debit_held_paid f c p f' : debit_held f c p = Ok f' -> f_paid f' = f_paid f.
Proof.
  unfold debit_held. destruct p as [n x]. intros H. destruct (0 <? x); [|discriminate].
  apply bind_ok in H. destruct H as (b & _ & H). inversion H; subst. reflexivity.
Qed.

Lemma pay_in_paid f c p f' : pay_in f c p = Ok f' -> f_paid f' = f_paid f.
Proof.
  unfold pay_in. intros H. apply bind_ok in H. destruct H as (f1 & H1 & H).
  apply bind_ok in H. destruct H as (x & _ & H). inversion H; subst. simpl. eapply debit_held_paid; eauto.
Qed.

Lemma pay_all_paid ps : forall f c f', pay_all f c ps = Ok f' -> f_paid f' = f_paid f.
Proof.
  induction ps as [|p t IH]; intros f c f' H; simpl in H.
  - inversion H; subst. reflexivity.
  - apply bind_ok in H. destruct H as (f1 & H1 & H). apply IH in H. apply pay_in_paid in H1. lia.
Qed.

Lemma only_utot_paid f f' : only_utot f f' -> f_paid f' = f_paid f.
Proof. intros ((_ & _ & M) & _). unfold money in M. inj M. assumption. Qed.

Lemma settle_paid f blk f' : settle f blk = Ok f' -> f_paid f' = f_paid f.
Proof.
  unfold settle. intros H. destruct (blk <=? f_last f); [inversion H; subst; reflexivity|].
  cbv zeta in H. destruct (_ =? 0); [inversion H; subst; reflexivity|].
  apply bind_ok in H. destruct H as (inc & _ & H). inversion H; subst. reflexivity.
Qed.

Lemma pay_reward_paid f r b f' : pay_reward f r b = Ok f' -> f_paid f' = f_paid f + r.
Proof. intros H. apply pay_reward_spec in H. tauto. Qed.

Lemma mint_pos_paid f a d f' n : mint_pos f a d = (f', n) -> f_paid f' = f_paid f.
Proof. unfold mint_pos. intros H. inversion H; subst. reflexivity. Qed.

Lemma base_reward_nonneg f a x base : base_reward f a x = Ok base -> 0 < f_dsc f -> 0 <= x -> 0 <= base.
Proof.
  unfold base_reward. intros H Hd Hx. destruct (a_rps a <? f_rps f) eqn:E.
  - apply div_chk_ok in H. destruct H as [_ ->]. apply Z.ltb_lt in E. apply div_nonneg; nia.
  - inversion H; subst. lia.
Qed.

Ltac stepn H x Hx := apply bind_ok in H; destruct H as (x & Hx & H).
Ltac chk H := match type of H with (if ?c then _ else Err _) = Ok _ => destruct c; [|discriminate] end.

(** the paid counter grows by exactly the reward the endpoint reports, which is never negative *)
Lemma fstep_paid f op f' o : has_endpoint op = true -> MI f -> fstep f op = Ok (f', o) ->
  f_paid f' = f_paid f + reward_of op o /\ 0 <= reward_of op o.
Proof.
  intros HE M H. destruct op; simpl in HE; try discriminate; simpl in H; simpl reward_of.
  - (* Enter *) unfold ep_enter in H. chk H. stepn H f0 H0. chk H. stepn H f1 H1. stepn H f2 H2. stepn H f4 H4. stepn H m Hm.
    destruct (mint_pos _ _ _) as [f6 n] eqn:Em. inversion H; subst; clear H. simpl.
    apply mint_pos_paid in Em. simpl in Em. apply settle_paid in H4. unfold increase_user in H4. simpl in H4.
    apply check_update_only, only_utot_paid in H2. apply pay_all_paid in H1. apply pay_reward_spec in H0. lia.
  - (* Claim *) unfold ep_claim in H. chk H. stepn H f1 H1. stepn H f2 H2. stepn H a Ha. stepn H part Hp. stepn H base Hb.
    stepn H f3 H3. stepn H f4 H4. stepn H m Hm.
    destruct (mint_pos _ _ _) as [f5 n] eqn:Em. inversion H; subst; clear H. simpl.
    apply mint_pos_paid in Em. apply check_update_only, only_utot_paid in H4. apply pay_reward_spec in H3.
    pose proof (settle_paid _ _ _ H2). pose proof (pay_all_paid _ _ _ _ H1).
    apply pay_all_MI in H1; auto. destruct H1 as (M1 & _ & _ & _ & _ & _ & Pos & _).
    apply settle_MI in H2; auto. destruct H2 as (M2 & _).
    inversion Pos; subst. apply base_reward_nonneg in Hb; [|apply dsc_pos; assumption|lia]. lia.
  - (* Exit *) unfold ep_exit in H. chk H. stepn H f1 H1. stepn H f2 H2. stepn H a Ha. stepn H part Hp. stepn H base Hb.
    stepn H f3 H3. stepn H f4 H4. stepn H sup Hs. stepn H age Hg. stepn H out Ho. stepn H bal Hbl.
    inversion H; subst; clear H. simpl.
    apply decrease_user_only, only_utot_paid in H4. apply pay_reward_spec in H3.
    pose proof (settle_paid _ _ _ H2). pose proof (pay_in_paid _ _ _ _ H1).
    assert (H1' : pay_all f c [p] = Ok f1) by (simpl; rewrite H1; reflexivity).
    apply pay_all_MI in H1'; auto. destruct H1' as (M1 & _ & _ & _ & _ & _ & Pos & _).
    apply settle_MI in H2; auto. destruct H2 as (M2 & _).
    inversion Pos; subst. apply base_reward_nonneg in Hb; [|apply dsc_pos; assumption|lia]. lia.
  - (* Merge *) unfold ep_merge in H. chk H. destruct ps as [|first rest]; [discriminate|].
    stepn H f0 H0. stepn H f1 H1. stepn H f2 H2. stepn H a Ha. stepn H part Hp. stepn H m0 Hm.
    destruct (mint_pos _ _ _) as [f3 n] eqn:Em. inversion H; subst; clear H. simpl.
    apply mint_pos_paid in Em. apply check_update_only, only_utot_paid in H2. apply pay_all_paid in H1.
    apply pay_reward_spec in H0. lia.
  - (* ClaimBoosted *) unfold ep_claim_boosted in H. chk H. chk H. stepn H f1 H1. stepn H f2 H2.
    inversion H; subst; clear H. simpl. apply pay_reward_spec in H2. apply settle_paid in H1. lia.
  - (* Transfer *) unfold ep_transfer in H. stepn H f1 H1. inversion H; subst; clear H. simpl.
    apply debit_held_paid in H1. lia.
  - chk H. chk H. stepn H f1 H1. inversion H; subst; clear H. simpl. apply settle_paid in H1. lia.
  - chk H. chk H. chk H. inversion H; subst; clear H. simpl. lia.
  - chk H. stepn H f1 H1. inversion H; subst; clear H. simpl. apply settle_paid in H1. lia.
  - chk H. chk H. stepn H f1 H1. inversion H; subst; clear H. simpl. apply settle_paid in H1. lia.
  - chk H. inversion H; subst; clear H. simpl. lia.
  - chk H. chk H. inversion H; subst; clear H. simpl. lia.
  - chk H. chk H. inversion H; subst; clear H. simpl. lia.
  - chk H. chk H. inversion H; subst; clear H. simpl. lia.
  - chk H. inversion H; subst; clear H. simpl. lia.
Qed.

(** ------------------------------------------------------------------ the locked farm's own clause *)
(** invariant tying the wrapper's counters to the shared state:
    the ghost balance of the dex/farm model = reserve + what the contract really holds;
    every reward ever paid exists as LOCKED tokens created for users *)
Definition LOK (s : lfarm) : Prop :=
  FarmOK (l_f s) /\ l_base s = don (l_f s) /\ l_locked s = f_paid (l_f s).

Lemma init_locked_ok dsc same opts lock : 0 < dsc -> LOK (init_locked dsc same opts lock).
Proof. intros Hd. split; [apply init_farm_ok; assumption|]. split; reflexivity. Qed.

Lemma lstep_lok s op s' o lk : LOK s -> lvalid op -> lstep s op = Ok (s', o, lk) -> LOK s'.
Proof.
  intros (K & B & L) V E. destruct op as [fop|c e].
  - apply lstep_farm in E. destruct E as (HE & Ef & Eb & _ & _ & El).
    destruct (fstep_ok _ _ _ _ Ef K V) as (K' & D' & _).
    assert (M : MI (l_f s)) by (destruct K as ([M _ _] & _); exact M).
    destruct (fstep_paid _ _ _ _ HE M Ef) as (P & N).
    split; [exact K'|]. split; lia.
  - apply lstep_setlock in E. destruct E as (_ & Ef & Eb & _ & _ & El & _). unfold LOK. rewrite Ef.
    split; [exact K|]. split; congruence.
Qed.

Theorem lrun_lok : forall ops s, LOK s -> Forall lvalid ops -> LOK (lrun s ops).
Proof.
  induction ops as [|op t IH]; intros s K V; [exact K|].
  change (lrun s (op :: t)) with (lrun (lstep_total s op) t). inversion V; subst.
  apply IH; [|assumption]. unfold lstep_total.
  destruct (lstep s op) as [[[s' o] lk]|] eqn:E; [|exact K]. eapply lstep_lok; eauto.
Qed.

(** C05's first clause as it applies to a farm that does not mint: in every reachable state the
    reported reserve = rewards generated - rewards handed out as LOCKED tokens, the contract's own
    reward-token balance is exactly what was donated to it, and it is what the ghost balance of the
    dex/farm model has on top of the reserve *)
Theorem locked_reserve_exact : forall dsc same opts lock ops, 0 < dsc -> Forall lvalid ops ->
  let s := lrun (init_locked dsc same opts lock) ops in
  f_reserve (l_f s) = f_gen (l_f s) - l_locked s /\ 0 <= l_base s /\
  f_bal_rew (l_f s) = f_reserve (l_f s) + l_base s.
Proof.
  intros dsc same opts lock ops Hd V s.
  destruct (lrun_lok ops _ (init_locked_ok dsc same opts lock Hd) V) as ((A & _ & D) & B & L).
  fold s in A, D, B, L. destruct A as [[acc _ _ _ _ _ _] _ _]. unfold don in *. repeat split; lia.
Qed.

(** rewards leave only as LOCKED tokens: one operation *)
Lemma epm_pos : 0 < EPOCHS_PER_MONTH.
Proof. vm_compute. reflexivity. Qed.

Lemma unlock_of_spec ep le : unlock_of ep le <= ep + le /\ unlock_of ep le mod EPOCHS_PER_MONTH = 0.
Proof.
  unfold unlock_of. pose proof epm_pos as Hm. pose proof (Z.mod_pos_bound (ep + le) _ Hm).
  split; [lia|]. rewrite (Z.div_mod (ep + le) EPOCHS_PER_MONTH) at 1 by lia.
  replace (EPOCHS_PER_MONTH * ((ep + le) / EPOCHS_PER_MONTH) + (ep + le) mod EPOCHS_PER_MONTH - (ep + le) mod EPOCHS_PER_MONTH)
    with ((ep + le) / EPOCHS_PER_MONTH * EPOCHS_PER_MONTH) by lia.
  apply Z_mod_mult.
Qed.

Theorem locked_receipts : forall s fop s' o lk, LOK s -> valid_op fop -> lstep s (LF fop) = Ok (s', o, lk) ->
  let r := reward_of fop o in
  0 <= r /\ f_paid (l_f s') = f_paid (l_f s) + r /\ l_locked s' = l_locked s + r /\
  l_base s' = l_base s + donated fop /\
  (r = 0 -> lk = []) /\
  (0 < r -> listed s = true /\ exists ue, lk = [(op_caller fop, (r, ue))] /\
            op_epoch fop < ue <= op_epoch fop + l_lock s /\ ue mod EPOCHS_PER_MONTH = 0).
Proof.
  intros s fop s' o lk (K & B & L) V E r.
  pose proof E as E0. apply lstep_farm in E. destruct E as (HE & Ef & Eb & _ & _ & El).
  assert (M : MI (l_f s)) by (destruct K as ([M _ _] & _); exact M).
  destruct (fstep_paid _ _ _ _ HE M Ef) as (P & N). fold r in P, N, El.
  split; [exact N|]. split; [exact P|]. split; [lia|]. split; [exact Eb|].
  unfold lstep in E0. rewrite HE, Ef in E0. simpl in E0. fold r in E0.
  destruct (0 <? r) eqn:Er.
  - apply Z.ltb_lt in Er. destruct (listed s) eqn:Li; [|discriminate].
    destruct (op_epoch fop <? unlock_of (op_epoch fop) (l_lock s)) eqn:Eu; [|discriminate].
    apply Z.ltb_lt in Eu. inversion E0; subst. split; [lia|]. intros _. split; [reflexivity|].
    exists (unlock_of (op_epoch fop) (l_lock s)). pose proof (unlock_of_spec (op_epoch fop) (l_lock s)).
    split; [reflexivity|]. split; [lia | tauto].
  - apply Z.ltb_ge in Er. inversion E0; subst. split; [reflexivity | lia].
Qed.

(** the contract's own reward-token balance over a whole history: only successful plain transfers
    (donations) move it — no enter / claim / exit / merge / claimBoosted / admin operation does *)
Fixpoint donations (s : lfarm) (ops : list lop) : Z :=
  match ops with
  | [] => 0
  | op :: t =>
      (match lstep s op, op with Ok _, LF (FTopUp a) => a | _, _ => 0 end) + donations (lstep_total s op) t
  end.

Theorem lrun_base_balance : forall ops s, l_base (lrun s ops) = l_base s + donations s ops.
Proof.
  induction ops as [|op t IH]; intros s; [simpl; lia|].
  change (lrun s (op :: t)) with (lrun (lstep_total s op) t). rewrite IH. simpl donations.
  unfold lstep_total at 1. destruct (lstep s op) as [[[s' o] lk]|] eqn:E; [|destruct op; lia].
  destruct op as [fop|c e].
  - apply lstep_farm in E. destruct E as (_ & _ & Eb & _). rewrite Eb. destruct fop; simpl; lia.
  - apply lstep_setlock in E. destruct E as (_ & _ & Eb & _). lia.
Qed.

(** the locked farm has no compound operation *)
Theorem locked_no_compound : forall s blk ep c first adds b, is_ok (lstep s (LF (FCompound blk ep c first adds b))) = false.
Proof. reflexivity. Qed.

(** non-vacuity: a reachable state with supply, an unpaid boosted pool, locked rewards handed out, a
    donation, every operation of the list successful *)
Definition locked_example : list lop :=
  [LF (FSetRate 10 OWNER 1000); LF (FSetState OWNER 1); LF (FStart 10 OWNER); LF (FSetPct 10 OWNER 2500); LF (FSetFactors OWNER);
   LF (FEnter 12 5 1 100 [] 0); LF (FEnter 15 5 2 250 [] 0); LF (FClaim 20 6 1 (1, 60) [] 0); LF (FTransfer 2 2 1 50);
   LSetLockEpochs OWNER 720; LF (FTopUp 77);
   LF (FEnter 30 9 1 7 [(2, 50); (1, 40)] 0); LF (FExit 31 9 2 (2, 200) 0); LF (FClaimBoosted 40 9 1 3)].
Example locked_nonvacuous :
  let s0 := init_locked 1000000 false [360; 720; 1440] 360 in
  let s := lrun s0 locked_example in
  0 < f_supply (l_f s) /\ 0 < f_pool (l_f s) /\ 0 < l_locked s /\ l_base s = 77 /\ l_locked s = f_paid (l_f s) /\
  forallb (fun k => is_ok (lstep (lrun s0 (firstn k locked_example)) (nth k locked_example (LSetLockEpochs 0 0))))
          (seq 0 14) = true /\
  match lstep (lrun s0 (firstn 13 locked_example)) (LF (FClaimBoosted 40 9 1 3)) with
  | Ok (_, _, lk) => lk = [(1, (3, 720))]      (* 9 + 720 = 729 -> start of month 720 *)
  | _ => False
  end.
Proof. vm_compute. repeat split. Qed.
