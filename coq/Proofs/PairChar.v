(** Characterisation of swap and liquidity results against the DOCUMENTED formulas (C03, C04):
    the model's integer expressions are shown to be the unique floors of the documented rationals,
    via cross-multiplied bounds, not by restating the definitions. *)
From MX Require Import Base.Prelude Gen.Params Model.Pair Proofs.ParamFacts Proofs.PairMath Proofs.PairInv.

(** q is floor(n/d) for d > 0 *)
Definition is_floor (q n d : Z) : Prop := q * d <= n < (q + 1) * d.

Lemma is_floor_div n d : 0 < d -> is_floor (n / d) n d.
Proof. intros. unfold is_floor. pose proof (div_lo n d H). pose proof (div_hi n d H). lia. Qed.

Lemma is_floor_unique q n d : 0 < d -> is_floor q n d -> q = n / d.
Proof. intros Hd [A B]. apply (proj2 (div_char n d q Hd)). lia. Qed.

(** ---------------------------------------------------------------- fixed-input swap *)
Lemma swap_in_char p c tin ain tout mn p' outs e :
  PairInv p -> ep_swap_in p c tin ain tout mn = Ok (p', outs, e) ->
  exists ord out special,
    swap_order tin tout = Ok ord /\ outs = [out] /\ p_state p = ST_Active /\ 0 < ain /\
    (* out = floor( ain*(1-f)*rOut / (rIn + ain*(1-f)) ), scaled by M *)
    is_floor out (ain * (M - p_fee p) * rout p ord) (rin p ord * M + ain * (M - p_fee p)) /\
    0 < mn <= out /\ 0 < out < rout p ord /\
    special = (if fee_enabled p then ain * p_sfee p / M else 0) /\
    0 <= special /\ special * M <= ain * p_sfee p /\
    (* what the caller gives up = reserve gain + special fee (part of which a local fee swap may push back into the pool) *)
    rin p ord + (ain - special) <= rin p' ord /\
    rout p' ord <= rout p ord - out /\
    (* the pair's balances: caller's input arrives, [out] leaves, at most [special] leaves on the input side *)
    ex_out p' ord = ex_out p ord /\
    ex_in p ord <= ex_in p' ord <= ex_in p ord + special.
Proof.
  intros Hinv H. unfold ep_swap_in in H.
  destruct (0 <? mn) eqn:Emn; [|discriminate]. destruct (0 <? ain) eqn:Eain; [|discriminate].
  apply Z.ltb_lt in Eain, Emn.
  apply bind_ok in H. destruct H as (ord & Hord & H).
  destruct (can_swap (p_state p)) eqn:Ecs; [|discriminate].
  destruct (mn <? rout p ord) eqn:Emr; [|discriminate].
  apply bind_ok in H. destruct H as (out & Hout & H).
  destruct (mn <=? out) eqn:Emo; [|discriminate].
  destruct (out <? rout p ord) eqn:Eor; [|discriminate].
  destruct (negb (out =? 0)) eqn:Eo0; [|discriminate].
  cbv zeta in H.
  apply bind_ok in H. destruct H as (after & Haft & H).
  apply bind_ok in H. destruct H as (ro & Hro & H).
  destruct (k_check p _) eqn:Ek; [|discriminate].
  apply bind_ok in H. destruct H as ([p3 e3] & Hfee & H).
  apply bind_ok in H. destruct H as (p4 & Hsb & H).
  inversion H; subst; clear H.
  apply Z.ltb_lt in Emr, Eor. apply Z.leb_le in Emo.
  apply negb_true_iff in Eo0. apply Z.eqb_neq in Eo0.
  apply sub_chk_ok in Haft, Hro. destruct Haft as [Hfle ->]. destruct Hro as [_ ->].
  destruct (pool_positive p ord mn Hinv ltac:(lia)) as (HS & Hri & Hrou).
  destruct (fee_lt_M _ Hinv) as (Fs & FM).
  destruct (swap_order_spec _ _ _ Hord) as [Htin Htout].
  unfold amount_out in Hout. cbv zeta in Hout. apply div_chk_ok in Hout. destruct Hout as [_ ->].
  assert (HD : 0 < rin p ord * M + ain * (M - p_fee p)) by (pose proof M_pos; nia).
  pose proof (is_floor_div (ain * (M - p_fee p) * rout p ord) _ HD) as HF.
  set (out := ain * (M - p_fee p) * rout p ord / (rin p ord * M + ain * (M - p_fee p))) in *.
  assert (Hout0 : 0 <= out) by (apply div_nonneg; pose proof M_pos; nia).
  set (fee := if fee_enabled p then special_fee (p_sfee p) ain else 0) in *.
  assert (Hfe : 0 <= fee /\ fee * M <= ain * p_sfee p).
  { unfold fee, special_fee. destruct (fee_enabled p).
    - split; [apply div_nonneg; [nia|apply M_pos] | apply div_lo; apply M_pos].
    - split; [lia | nia]. }
  destruct Hfe as [Hfee0 HfeeM].
  assert (Hfeq : fee = (if fee_enabled p then ain * p_sfee p / M else 0)) by reflexivity.
  clearbody out fee.
  set (p1 := set_rs p ord (rin p ord + (ain - fee)) (rout p ord - out)) in *.
  set (p2 := add_bal p1 tin ain) in *.
  assert (F2 : same_cfg p p2 /\ rin p2 ord = rin p ord + (ain - fee) /\
               rout p2 ord = rout p ord - out /\ ex_in p2 ord = ex_in p ord + fee /\
               ex_out p2 ord = ex_out p ord + out).
  { subst tin. unfold p2, p1, add_bal, set_rs, same_cfg, ex_in, ex_out, ex1, ex2, rin, rout.
    destruct ord; simpl; repeat split; lia. }
  destruct F2 as (C2 & R2i & R2o & X2i & X2o).
  assert (F3 : fee_post ord fee p2 p3).
  { destruct (0 <? fee) eqn:Ef.
    - subst tin. apply send_fee_spec in Hfee; auto; try lia.
      destruct C2 as (_ & _ & _ & _ & C5 & _). unfold cut_ok. rewrite C5. apply (i_cut _ Hinv).
    - inversion Hfee as [[Hp3 He3]]; clear Hfee; subst p3. apply Z.ltb_ge in Ef.
      apply slice_fee_post with (amt := 0); [apply slice_post_refl; lia | lia]. }
  destruct F3 as [C3 L3 X3i X3o R3i R3o K3].
  apply sub_bal_spec in Hsb. subst tout. rewrite tok_out_T1 in Hsb.
  destruct Hsb as (Hle4 & C4 & L4 & R41 & R42 & B4).
  assert (Fin : rin p' ord = rin p3 ord /\ rout p' ord = rout p3 ord /\
                ex_in p' ord = ex_in p3 ord /\ ex_out p' ord = ex_out p3 ord - out).
  { unfold rin, rout, ex_in, ex_out, ex1, ex2. destruct ord; simpl in *; lia. }
  destruct Fin as (R5i & R5o & X5i & X5o).
  exists ord, out, fee.
  unfold can_swap in Ecs. apply Z.eqb_eq in Ecs.
  split; [exact Hord|]. split; [reflexivity|]. split; [exact Ecs|]. split; [exact Eain|].
  split; [exact HF|]. split; [clear - Emn Emo; lia|]. split; [clear - Eo0 Hout0 Eor; lia|].
  split; [exact Hfeq|]. split; [exact Hfee0|]. split; [exact HfeeM|].
  split; [clear - R5i R3i R2i; lia|]. split; [clear - R5o R3o R2o; lia|].
  split; [clear - X5o X3o X2o; lia|]. clear - X5i X3i X2i Hfee0; lia.
Qed.

(** a fixed-input swap never pays less than the caller's minimum: if the documented output is below
    [mn] the transaction fails (and by atomicity changes nothing) *)
Lemma swap_in_slippage p c tin ain tout mn ord :
  PairInv p -> swap_order tin tout = Ok ord ->
  ain * (M - p_fee p) * rout p ord / (rin p ord * M + ain * (M - p_fee p)) < mn ->
  is_ok (ep_swap_in p c tin ain tout mn) = false.
Proof.
  intros Hinv Hord Hlt.
  destruct (ep_swap_in p c tin ain tout mn) as [[[p' o] e]|] eqn:E; [|reflexivity].
  exfalso. apply swap_in_char in E; auto.
  destruct E as (ord' & out & sp & Hord' & _ & _ & Hain & HF & Hmn & Hout & _).
  rewrite Hord in Hord'. inversion Hord'; subst ord'.
  destruct (fee_lt_M _ Hinv) as (Fs & FM).
  destruct (pool_positive p ord out Hinv ltac:(lia)) as (HS & Hri & Hrou).
  apply is_floor_unique in HF; [|pose proof M_pos; nia]. lia.
Qed.

(** ---------------------------------------------------------------- fixed-output swap *)
Lemma swap_out_char p c tin amax tout aout p' outs e :
  PairInv p -> ep_swap_out p c tin amax tout aout = Ok (p', outs, e) ->
  exists ord charged special,
    swap_order tin tout = Ok ord /\ outs = [aout; amax - charged] /\ p_state p = ST_Active /\
    0 < aout < rout p ord /\
    (* charged = floor( rIn*out / ((rOut-out)*(1-f)) ) + 1, scaled by M *)
    is_floor (charged - 1) (rin p ord * aout * M) ((rout p ord - aout) * (M - p_fee p)) /\
    0 < charged <= amax /\
    (* always enough under the fixed-input rule *)
    aout <= charged * (M - p_fee p) * rout p ord / (rin p ord * M + charged * (M - p_fee p)) /\
    special = (if fee_enabled p then charged * p_sfee p / M else 0) /\
    0 <= special /\ special * M <= charged * p_sfee p /\
    rin p ord + (charged - special) <= rin p' ord /\
    rout p' ord <= rout p ord - aout /\
    ex_out p' ord = ex_out p ord /\
    ex_in p ord <= ex_in p' ord <= ex_in p ord + special.
Proof.
  intros Hinv H. unfold ep_swap_out in H.
  destruct (0 <? aout) eqn:Eao; [|discriminate]. destruct (0 <? amax) eqn:Eam; [|discriminate].
  apply Z.ltb_lt in Eao.
  apply bind_ok in H. destruct H as (ord & Hord & H).
  destruct (can_swap (p_state p)) eqn:Ecs; [|discriminate].
  destruct (aout <? rout p ord) eqn:Emr; [|discriminate].
  apply bind_ok in H. destruct H as (ain & Hain & H).
  destruct (ain <=? amax) eqn:Emo; [|discriminate].
  destruct (negb (ain =? 0)) eqn:Eo0; [|discriminate].
  cbv zeta in H.
  apply bind_ok in H. destruct H as (after & Haft & H).
  apply bind_ok in H. destruct H as (ro & Hro & H).
  destruct (k_check p _) eqn:Ek; [|discriminate].
  apply bind_ok in H. destruct H as ([p3 e3] & Hfee & H).
  apply bind_ok in H. destruct H as (p4 & Hsb & H).
  inversion H; subst; clear H.
  apply Z.ltb_lt in Emr. apply Z.leb_le in Emo.
  apply sub_chk_ok in Haft, Hro. destruct Haft as [Hfle ->]. destruct Hro as [_ ->].
  destruct (pool_positive p ord aout Hinv) as (HS & Hri & Hrou); [lia|].
  destruct (fee_lt_M _ Hinv) as (Fs & FM).
  destruct (swap_order_spec _ _ _ Hord) as [Htin Htout].
  unfold amount_in in Hain.
  apply bind_ok in Hain. destruct Hain as (d & Hd & Hain).
  apply bind_ok in Hain. destruct Hain as (q & Hq & Hain).
  inversion Hain; subst ain; clear Hain.
  apply sub_chk_ok in Hd. destruct Hd as [_ ->].
  apply div_chk_ok in Hq. destruct Hq as [_ ->].
  assert (HD : 0 < (rout p ord - aout) * (M - p_fee p)) by (pose proof M_pos; nia).
  pose proof (is_floor_div (rin p ord * aout * M) _ HD) as HF.
  pose proof (in_enough M M_pos aout (rin p ord) (rout p ord) (p_fee p) ltac:(lia) Hri ltac:(lia)) as HE.
  cbv zeta in HE.
  set (cin := rin p ord * aout * M / ((rout p ord - aout) * (M - p_fee p)) + 1) in *.
  assert (HF' : is_floor (cin - 1) (rin p ord * aout * M) ((rout p ord - aout) * (M - p_fee p))).
  { unfold cin. replace (rin p ord * aout * M / ((rout p ord - aout) * (M - p_fee p)) + 1 - 1)
      with (rin p ord * aout * M / ((rout p ord - aout) * (M - p_fee p))) by lia. exact HF. }
  assert (Hcin : 0 < cin).
  { unfold cin. assert (0 <= rin p ord * aout * M / ((rout p ord - aout) * (M - p_fee p))).
    { apply div_nonneg; pose proof M_pos; nia. } lia. }
  set (fee := if fee_enabled p then special_fee (p_sfee p) cin else 0) in *.
  assert (Hfe : 0 <= fee /\ fee * M <= cin * p_sfee p).
  { unfold fee, special_fee. destruct (fee_enabled p).
    - split; [apply div_nonneg; [nia|apply M_pos] | apply div_lo; apply M_pos].
    - split; [lia | nia]. }
  destruct Hfe as [Hfee0 HfeeM].
  assert (Hfeq : fee = (if fee_enabled p then cin * p_sfee p / M else 0)) by reflexivity.
  clearbody cin fee. clear HF.
  set (p1 := set_rs p ord (rin p ord + (cin - fee)) (rout p ord - aout)) in *.
  set (p2 := add_bal p1 tin cin) in *.
  assert (F2 : same_cfg p p2 /\ rin p2 ord = rin p ord + (cin - fee) /\
               rout p2 ord = rout p ord - aout /\ ex_in p2 ord = ex_in p ord + fee /\
               ex_out p2 ord = ex_out p ord + aout).
  { subst tin. unfold p2, p1, add_bal, set_rs, same_cfg, ex_in, ex_out, ex1, ex2, rin, rout.
    destruct ord; simpl; repeat split; lia. }
  destruct F2 as (C2 & R2i & R2o & X2i & X2o).
  assert (F3 : fee_post ord fee p2 p3).
  { destruct (0 <? fee) eqn:Ef.
    - subst tin. apply send_fee_spec in Hfee; auto; try lia.
      destruct C2 as (_ & _ & _ & _ & C5 & _). unfold cut_ok. rewrite C5. apply (i_cut _ Hinv).
    - inversion Hfee as [[Hp3 He3]]; clear Hfee; subst p3. apply Z.ltb_ge in Ef.
      apply slice_fee_post with (amt := 0); [apply slice_post_refl; lia | lia]. }
  destruct F3 as [C3 L3 X3i X3o R3i R3o K3].
  apply sub_bal_spec in Hsb. subst tout. rewrite tok_out_T1 in Hsb.
  destruct Hsb as (Hle4 & C4 & L4 & R41 & R42 & B4).
  assert (Fin : rin p' ord = rin p3 ord /\ rout p' ord = rout p3 ord /\
                ex_in p' ord = ex_in p3 ord /\ ex_out p' ord = ex_out p3 ord - aout).
  { unfold rin, rout, ex_in, ex_out, ex1, ex2. destruct ord; simpl in *; lia. }
  destruct Fin as (R5i & R5o & X5i & X5o).
  exists ord, cin, fee.
  unfold can_swap in Ecs. apply Z.eqb_eq in Ecs.
  split; [exact Hord|]. split; [reflexivity|]. split; [exact Ecs|]. split; [clear - Eao Emr; lia|].
  split; [exact HF'|]. split; [clear - Hcin Emo; lia|]. split; [exact HE|].
  split; [exact Hfeq|]. split; [exact Hfee0|]. split; [exact HfeeM|].
  split; [clear - R5i R3i R2i; lia|]. split; [clear - R5o R3o R2o; lia|].
  split; [clear - X5o X3o X2o; lia|]. clear - X5i X3i X2i Hfee0; lia.
Qed.

(** the special fee is at most in*special/100000 and at most the total fee's share *)
Lemma special_bound p ain : PairInv p -> 0 <= ain ->
  special_fee (p_sfee p) ain * M <= ain * p_sfee p /\ special_fee (p_sfee p) ain <= ain.
Proof.
  intros Hinv Ha. destruct (fee_lt_M _ Hinv) as (Fs & FM). unfold special_fee.
  pose proof (div_lo (ain * p_sfee p) M M_pos). split; [lia|].
  apply Z.div_le_upper_bound; [apply M_pos|]. pose proof M_pos. nia.
Qed.
