(** Characterisation of swap and liquidity results against the DOCUMENTED formulas (C03, C04):
    the model's integer expressions are shown to be the unique floors of the documented rationals,
    via cross-multiplied bounds, not by restating the definitions. *)
From MX Require Import Base.Prelude Gen.Params Model.Pair Proofs.ParamFacts Proofs.PairMath Proofs.PairInv.

(** q is floor(n/d) for d > 0 *)
Definition is_floor (q n d : Z) : Prop := q * d <= n < (q + 1) * d.

Lemma is_floor_div n d : 0 < d -> is_floor (n / d) n d.
Proof. intros. unfold is_floor. pose proof (div_lo n d H). pose proof (div_hi n d H). lia. Qed.

Lemma is_floor_unique q n d : 0 < d -> is_floor q n d -> q = n / d.
Proof. intros Hd [A B]. apply (proj2 (div_char n d q Hd)). lia. Qed.

(** ---------------------------------------------------------------- fixed-input swap *)
Lemma swap_in_char p c tin ain tout mn p' outs e :
  PairInv p -> ep_swap_in p c tin ain tout mn = Ok (p', outs, e) ->
  exists ord out special,
    swap_order tin tout = Ok ord /\ outs = [out] /\ p_state p = ST_Active /\ 0 < ain /\
    (* out = floor( ain*(1-f)*rOut / (rIn + ain*(1-f)) ), scaled by M *)
    is_floor out (ain * (M - p_fee p) * rout p ord) (rin p ord * M + ain * (M - p_fee p)) /\
    0 < mn <= out /\ 0 < out < rout p ord /\
    special = (if fee_enabled p then ain * p_sfee p / M else 0) /\
    0 <= special /\ special * M <= ain * p_sfee p /\
    (* what the caller gives up = reserve gain + special fee (part of which a local fee swap may push back into the pool) *)
    rin p ord + (ain - special) <= rin p' ord /\
    rout p' ord <= rout p ord - out /\
    (* the pair's balances: caller's input arrives, [out] leaves, at most [special] leaves on the input side *)
    ex_out p' ord = ex_out p ord /\
    ex_in p ord <= ex_in p' ord <= ex_in p ord + special.
Proof.
  intros Hinv H. unfold ep_swap_in in H.
  destruct (0 <? mn) eqn:Emn; [|discriminate]. destruct (0 <? ain) eqn:Eain; [|discriminate].
  apply Z.ltb_lt in Eain, Emn.
  apply bind_ok in H. destruct H as (ord & Hord & H).
  destruct (can_swap (p_state p)) eqn:Ecs; [|discriminate].
  destruct (mn <? rout p ord) eqn:Emr; [|discriminate].
  apply bind_ok in H. destruct H as (out & Hout & H).
  destruct (mn <=? out) eqn:Emo; [|discriminate].
  destruct (out <? rout p ord) eqn:Eor; [|discriminate].
  destruct (negb (out =? 0)) eqn:Eo0; [|discriminate].
  cbv zeta in H.
  apply bind_ok in H. destruct H as (after & Haft & H).
  apply bind_ok in H. destruct H as (ro & Hro & H).
  destruct (k_check p _) eqn:Ek; [|discriminate].
  apply bind_ok in H. destruct H as ([p3 e3] & Hfee & H).
  apply bind_ok in H. destruct H as (p4 & Hsb & H).
  inversion H; subst; clear H.
  apply Z.ltb_lt in Emr, Eor. apply Z.leb_le in Emo.
  apply negb_true_iff in Eo0. apply Z.eqb_neq in Eo0.
  apply sub_chk_ok in Haft, Hro. destruct Haft as [Hfle ->]. destruct Hro as [_ ->].
  destruct (pool_positive p ord mn Hinv ltac:(lia)) as (HS & Hri & Hrou).
  destruct (fee_lt_M _ Hinv) as (Fs & FM).
  destruct (swap_order_spec _ _ _ Hord) as [Htin Htout].
  unfold amount_out in Hout. cbv zeta in Hout. apply div_chk_ok in Hout. destruct Hout as [_ ->].
  assert (HD : 0 < rin p ord * M + ain * (M - p_fee p)) by (pose proof M_pos; nia).
  pose proof (is_floor_div (ain * (M - p_fee p) * rout p ord) _ HD) as HF.
  set (out := ain * (M - p_fee p) * rout p ord / (rin p ord * M + ain * (M - p_fee p))) in *.
  assert (Hout0 : 0 <= out) by (apply div_nonneg; pose proof M_pos; nia).
  set (fee := if fee_enabled p then special_fee (p_sfee p) ain else 0) in *.
  assert (Hfe : 0 <= fee /\ fee * M <= ain * p_sfee p).
  { unfold fee, special_fee. destruct (fee_enabled p).
    - split; [apply div_nonneg; [nia|apply M_pos] | apply div_lo; apply M_pos].
    - split; [lia | nia]. }
  destruct Hfe as [Hfee0 HfeeM].
  assert (Hfeq : fee = (if fee_enabled p then ain * p_sfee p / M else 0)) by reflexivity.
  clearbody out fee.
  set (p1 := set_rs p ord (rin p ord + (ain - fee)) (rout p ord - out)) in *.
  set (p2 := add_bal p1 tin ain) in *.
  assert (F2 : same_cfg p p2 /\ rin p2 ord = rin p ord + (ain - fee) /\
               rout p2 ord = rout p ord - out /\ ex_in p2 ord = ex_in p ord + fee /\
               ex_out p2 ord = ex_out p ord + out).
  { subst tin. unfold p2, p1, add_bal, set_rs, same_cfg, ex_in, ex_out, ex1, ex2, rin, rout.
    destruct ord; simpl; repeat split; lia. }
  destruct F2 as (C2 & R2i & R2o & X2i & X2o).
  assert (F3 : fee_post ord fee p2 p3).
  { destruct (0 <? fee) eqn:Ef.
    - subst tin. apply send_fee_spec in Hfee; auto; try lia.
      destruct C2 as (_ & _ & _ & _ & C5 & _). unfold cut_ok. rewrite C5. apply (i_cut _ Hinv).
    - inversion Hfee as [[Hp3 He3]]; clear Hfee; subst p3. apply Z.ltb_ge in Ef.
      apply slice_fee_post with (amt := 0); [apply slice_post_refl; lia | lia]. }
  destruct F3 as [C3 L3 X3i X3o R3i R3o K3].
  apply sub_bal_spec in Hsb. subst tout. rewrite tok_out_T1 in Hsb.
  destruct Hsb as (Hle4 & C4 & L4 & R41 & R42 & B4).
  assert (Fin : rin p' ord = rin p3 ord /\ rout p' ord = rout p3 ord /\
                ex_in p' ord = ex_in p3 ord /\ ex_out p' ord = ex_out p3 ord - out).
  { clear - R41 R42 B4. unfold rin, rout, ex_in, ex_out, ex1, ex2. destruct ord; simpl in *; lia. }
  destruct Fin as (R5i & R5o & X5i & X5o).
  exists ord, out, fee.
  unfold can_swap in Ecs. apply Z.eqb_eq in Ecs.
  split; [exact Hord|]. split; [reflexivity|]. split; [exact Ecs|]. split; [exact Eain|].
  split; [exact HF|]. split; [clear - Emn Emo; lia|]. split; [clear - Eo0 Hout0 Eor; lia|].
  split; [exact Hfeq|]. split; [exact Hfee0|]. split; [exact HfeeM|].
  split; [clear - R5i R3i R2i; lia|]. split; [clear - R5o R3o R2o; lia|].
  split; [clear - X5o X3o X2o; lia|]. clear - X5i X3i X2i Hfee0; lia.
Qed.

(** a fixed-input swap never pays less than the caller's minimum: if the documented output is below
    [mn] the transaction fails (and by atomicity changes nothing) *)
Lemma swap_in_slippage p c tin ain tout mn ord :
  PairInv p -> swap_order tin tout = Ok ord ->
  ain * (M - p_fee p) * rout p ord / (rin p ord * M + ain * (M - p_fee p)) < mn ->
  is_ok (ep_swap_in p c tin ain tout mn) = false.
Proof.
  intros Hinv Hord Hlt.
  destruct (ep_swap_in p c tin ain tout mn) as [[[p' o] e]|] eqn:E; [|reflexivity].
  exfalso. apply swap_in_char in E; auto.
  destruct E as (ord' & out & sp & Hord' & _ & _ & Hain & HF & Hmn & Hout & _).
  rewrite Hord in Hord'. inversion Hord'; subst ord'.
  destruct (fee_lt_M _ Hinv) as (Fs & FM).
  destruct (pool_positive p ord out Hinv ltac:(lia)) as (HS & Hri & Hrou).
  apply is_floor_unique in HF; [|pose proof M_pos; nia]. lia.
Qed.

(** ---------------------------------------------------------------- fixed-output swap *)
Lemma swap_out_char p c tin amax tout aout p' outs e :
  PairInv p -> ep_swap_out p c tin amax tout aout = Ok (p', outs, e) ->
  exists ord charged special,
    swap_order tin tout = Ok ord /\ outs = [aout; amax - charged] /\ p_state p = ST_Active /\
    0 < aout < rout p ord /\
    (* charged = floor( rIn*out / ((rOut-out)*(1-f)) ) + 1, scaled by M *)
    is_floor (charged - 1) (rin p ord * aout * M) ((rout p ord - aout) * (M - p_fee p)) /\
    0 < charged <= amax /\
    (* always enough under the fixed-input rule *)
    aout <= charged * (M - p_fee p) * rout p ord / (rin p ord * M + charged * (M - p_fee p)) /\
    special = (if fee_enabled p then charged * p_sfee p / M else 0) /\
    0 <= special /\ special * M <= charged * p_sfee p /\
    rin p ord + (charged - special) <= rin p' ord /\
    rout p' ord <= rout p ord - aout /\
    ex_out p' ord = ex_out p ord /\
    ex_in p ord <= ex_in p' ord <= ex_in p ord + special.
Proof.
  intros Hinv H. unfold ep_swap_out in H.
  destruct (0 <? aout) eqn:Eao; [|discriminate]. destruct (0 <? amax) eqn:Eam; [|discriminate].
  apply Z.ltb_lt in Eao.
  apply bind_ok in H. destruct H as (ord & Hord & H).
  destruct (can_swap (p_state p)) eqn:Ecs; [|discriminate].
  destruct (aout <? rout p ord) eqn:Emr; [|discriminate].
  apply bind_ok in H. destruct H as (ain & Hain & H).
  destruct (ain <=? amax) eqn:Emo; [|discriminate].
  destruct (negb (ain =? 0)) eqn:Eo0; [|discriminate].
  cbv zeta in H.
  apply bind_ok in H. destruct H as (after & Haft & H).
  apply bind_ok in H. destruct H as (ro & Hro & H).
  destruct (k_check p _) eqn:Ek; [|discriminate].
  apply bind_ok in H. destruct H as ([p3 e3] & Hfee & H).
  apply bind_ok in H. destruct H as (p4 & Hsb & H).
  inversion H; subst; clear H.
  apply Z.ltb_lt in Emr. apply Z.leb_le in Emo.
  apply sub_chk_ok in Haft, Hro. destruct Haft as [Hfle ->]. destruct Hro as [_ ->].
  destruct (pool_positive p ord aout Hinv) as (HS & Hri & Hrou); [lia|].
  destruct (fee_lt_M _ Hinv) as (Fs & FM).
  destruct (swap_order_spec _ _ _ Hord) as [Htin Htout].
  unfold amount_in in Hain.
  apply bind_ok in Hain. destruct Hain as (d & Hd & Hain).
  apply bind_ok in Hain. destruct Hain as (q & Hq & Hain).
  inversion Hain; subst ain; clear Hain.
  apply sub_chk_ok in Hd. destruct Hd as [_ ->].
  apply div_chk_ok in Hq. destruct Hq as [_ ->].
  assert (HD : 0 < (rout p ord - aout) * (M - p_fee p)) by (pose proof M_pos; nia).
  pose proof (is_floor_div (rin p ord * aout * M) _ HD) as HF.
  pose proof (in_enough M M_pos aout (rin p ord) (rout p ord) (p_fee p) ltac:(lia) Hri ltac:(lia)) as HE.
  cbv zeta in HE.
  set (cin := rin p ord * aout * M / ((rout p ord - aout) * (M - p_fee p)) + 1) in *.
  assert (HF' : is_floor (cin - 1) (rin p ord * aout * M) ((rout p ord - aout) * (M - p_fee p))).
  { unfold cin. replace (rin p ord * aout * M / ((rout p ord - aout) * (M - p_fee p)) + 1 - 1)
      with (rin p ord * aout * M / ((rout p ord - aout) * (M - p_fee p))) by lia. exact HF. }
  assert (Hcin : 0 < cin).
  { unfold cin. assert (0 <= rin p ord * aout * M / ((rout p ord - aout) * (M - p_fee p))).
    { apply div_nonneg; pose proof M_pos; nia. } lia. }
  set (fee := if fee_enabled p then special_fee (p_sfee p) cin else 0) in *.
  assert (Hfe : 0 <= fee /\ fee * M <= cin * p_sfee p).
  { unfold fee, special_fee. destruct (fee_enabled p).
    - split; [apply div_nonneg; [nia|apply M_pos] | apply div_lo; apply M_pos].
    - split; [lia | nia]. }
  destruct Hfe as [Hfee0 HfeeM].
  assert (Hfeq : fee = (if fee_enabled p then cin * p_sfee p / M else 0)) by reflexivity.
  clearbody cin fee. clear HF.
  set (p1 := set_rs p ord (rin p ord + (cin - fee)) (rout p ord - aout)) in *.
  set (p2 := add_bal p1 tin cin) in *.
  assert (F2 : same_cfg p p2 /\ rin p2 ord = rin p ord + (cin - fee) /\
               rout p2 ord = rout p ord - aout /\ ex_in p2 ord = ex_in p ord + fee /\
               ex_out p2 ord = ex_out p ord + aout).
  { subst tin. unfold p2, p1, add_bal, set_rs, same_cfg, ex_in, ex_out, ex1, ex2, rin, rout.
    destruct ord; simpl; repeat split; lia. }
  destruct F2 as (C2 & R2i & R2o & X2i & X2o).
  assert (F3 : fee_post ord fee p2 p3).
  { destruct (0 <? fee) eqn:Ef.
    - subst tin. apply send_fee_spec in Hfee; auto; try lia.
      destruct C2 as (_ & _ & _ & _ & C5 & _). unfold cut_ok. rewrite C5. apply (i_cut _ Hinv).
    - inversion Hfee as [[Hp3 He3]]; clear Hfee; subst p3. apply Z.ltb_ge in Ef.
      apply slice_fee_post with (amt := 0); [apply slice_post_refl; lia | lia]. }
  destruct F3 as [C3 L3 X3i X3o R3i R3o K3].
  apply sub_bal_spec in Hsb. subst tout. rewrite tok_out_T1 in Hsb.
  destruct Hsb as (Hle4 & C4 & L4 & R41 & R42 & B4).
  assert (Fin : rin p' ord = rin p3 ord /\ rout p' ord = rout p3 ord /\
                ex_in p' ord = ex_in p3 ord /\ ex_out p' ord = ex_out p3 ord - aout).
  { clear - R41 R42 B4. unfold rin, rout, ex_in, ex_out, ex1, ex2. destruct ord; simpl in *; lia. }
  destruct Fin as (R5i & R5o & X5i & X5o).
  exists ord, cin, fee.
  unfold can_swap in Ecs. apply Z.eqb_eq in Ecs.
  split; [exact Hord|]. split; [reflexivity|]. split; [exact Ecs|]. split; [clear - Eao Emr; lia|].
  split; [exact HF'|]. split; [clear - Hcin Emo; lia|]. split; [exact HE|].
  split; [exact Hfeq|]. split; [exact Hfee0|]. split; [exact HfeeM|].
  split; [clear - R5i R3i R2i; lia|]. split; [clear - R5o R3o R2o; lia|].
  split; [clear - X5o X3o X2o; lia|]. clear - X5i X3i X2i Hfee0; lia.
Qed.

(** the special fee is at most in*special/100000 and at most the total fee's share *)
Lemma special_bound p ain : PairInv p -> 0 <= ain ->
  special_fee (p_sfee p) ain * M <= ain * p_sfee p /\ special_fee (p_sfee p) ain <= ain.
Proof.
  intros Hinv Ha. destruct (fee_lt_M _ Hinv) as (Fs & FM). unfold special_fee.
  pose proof (div_lo (ain * p_sfee p) M M_pos). split; [lia|].
  apply Z.div_le_upper_bound; [apply M_pos|]. pose proof M_pos. nia.
Qed.

(** ---------------------------------------------------------------- liquidity (C04) *)
Lemma add_char p c a1 a2 m1 m2 p' outs e :
  PairInv p -> 0 < p_S p -> ep_add p c a1 a2 m1 m2 = Ok (p', outs, e) ->
  exists o1 o2 liq,
    outs = [liq; o1; o2] /\
    (* the largest deposit at the pool ratio that fits the payment *)
    ((o1 = a1 /\ is_floor o2 (a1 * p_r2 p) (p_r1 p) /\ o2 <= a2) \/
     (a2 < a1 * p_r2 p / p_r1 p /\ o2 = a2 /\ is_floor o1 (a2 * p_r1 p) (p_r2 p) /\ o1 <= a1)) /\
    0 < m1 <= o1 /\ 0 < m2 <= o2 /\
    liq = Z.min (o1 * p_S p / p_r1 p) (o2 * p_S p / p_r2 p) /\ 0 < liq /\
    (* pool and ledger: used amounts stay, the rest is refunded; LP minted to the caller *)
    p_r1 p' = p_r1 p + o1 /\ p_r2 p' = p_r2 p + o2 /\ p_S p' = p_S p + liq /\
    p_bal1 p' = p_bal1 p + o1 /\ p_bal2 p' = p_bal2 p + o2 /\
    lp_of p' c = lp_of p c + liq /\ (forall b, b <> c -> lp_of p' b = lp_of p b).
Proof.
  intros Hinv HS H. unfold ep_add in H.
  destruct ((0 <? m1) && (0 <? m2)) eqn:Em; [|discriminate].
  destruct ((0 <? a1) && (0 <? a2)) eqn:Ea; [|discriminate].
  destruct (is_state_active (p_state p)); [|discriminate].
  destruct (match p_adder p with Some _ => negb (p_S p =? 0) | None => true end); [|discriminate].
  apply bind_ok in H. destruct H as ([o1 o2] & Hopt & H).
  apply bind_ok in H. destruct H as ([p1 liq] & Hpool & H).
  destruct (k_check p p1) eqn:Ek; [|discriminate].
  inversion H; subst; clear H.
  apply andb_prop in Ea. destruct Ea as [Ea1 Ea2]. apply Z.ltb_lt in Ea1, Ea2.
  apply andb_prop in Em. destruct Em as [Em1 Em2]. apply Z.ltb_lt in Em1, Em2.
  destruct (i_pos _ Hinv HS) as (P1 & P2 & PL).
  destruct (p_S p =? 0) eqn:ES; [apply Z.eqb_eq in ES; lia|].
  unfold set_optimal in Hopt. rewrite ES in Hopt.
  apply bind_ok in Hopt. destruct Hopt as (q2 & Hq2 & Hopt).
  apply bind_ok in Hopt. destruct Hopt as ([x1 x2] & Hx & Hopt).
  destruct (m1 <=? x1) eqn:M1; [|discriminate]. destruct (m2 <=? x2) eqn:M2; [|discriminate].
  inversion Hopt; subst x1 x2; clear Hopt. apply Z.leb_le in M1, M2.
  unfold quote in Hq2. apply div_chk_ok in Hq2. destruct Hq2 as [_ ->].
  assert (Hcase : (o1 = a1 /\ is_floor o2 (a1 * p_r2 p) (p_r1 p) /\ o2 <= a2) \/
     (a2 < a1 * p_r2 p / p_r1 p /\ o2 = a2 /\ is_floor o1 (a2 * p_r1 p) (p_r2 p) /\ o1 <= a1)).
  { destruct (a1 * p_r2 p / p_r1 p <=? a2) eqn:Eq.
    - inversion Hx; subst. apply Z.leb_le in Eq. left. split; [reflexivity|]. split; [apply is_floor_div; assumption | exact Eq].
    - apply Z.leb_gt in Eq. apply bind_ok in Hx. destruct Hx as (q1 & Hq1 & Hx).
      destruct (q1 <=? a1) eqn:Eq1; [|discriminate]. inversion Hx; subst. apply Z.leb_le in Eq1.
      unfold quote in Hq1. apply div_chk_ok in Hq1. destruct Hq1 as [_ ->].
      right. split; [lia|]. split; [reflexivity|]. split; [apply is_floor_div; assumption | exact Eq1]. }
  apply bind_ok in Hpool. destruct Hpool as (l1 & Hl1 & Hpool).
  apply bind_ok in Hpool. destruct Hpool as (l2 & Hl2 & Hpool).
  cbv zeta in Hpool. destruct (0 <? Z.min l1 l2) eqn:EL; [|discriminate].
  inversion Hpool; subst; clear Hpool. apply Z.ltb_lt in EL.
  apply div_chk_ok in Hl1, Hl2. destruct Hl1 as [_ ->]. destruct Hl2 as [_ ->].
  exists o1, o2, (Z.min (o1 * p_S p / p_r1 p) (o2 * p_S p / p_r2 p)).
  split; [reflexivity|]. split; [exact Hcase|]. split; [lia|]. split; [lia|].
  split; [reflexivity|]. split; [exact EL|].
  split; [reflexivity|]. split; [reflexivity|]. split; [reflexivity|].
  split; [simpl; lia|]. split; [simpl; lia|].
  unfold lp_credit, lp_of, set_lp. simpl.
  split; [apply aget_aset_same|]. intros b Hb. apply aget_aset_other. congruence.
Qed.

Lemma remove_char p c lp m1 m2 p' outs e :
  PairInv p -> ep_remove p c lp m1 m2 = Ok (p', outs, e) ->
  exists x1 x2,
    outs = [x1; x2] /\ 0 < lp /\ lp + MINIMUM_LIQUIDITY <= p_S p /\
    is_floor x1 (lp * p_r1 p) (p_S p) /\ is_floor x2 (lp * p_r2 p) (p_S p) /\
    0 < m1 <= x1 /\ 0 < m2 <= x2 /\ 0 < x1 < p_r1 p /\ 0 < x2 < p_r2 p /\
    p_r1 p' = p_r1 p - x1 /\ p_r2 p' = p_r2 p - x2 /\ p_S p' = p_S p - lp /\
    p_bal1 p' = p_bal1 p - x1 /\ p_bal2 p' = p_bal2 p - x2 /\
    lp_of p' c = lp_of p c - lp /\ lp <= lp_of p c.
Proof.
  intros Hinv H. unfold ep_remove in H.
  destruct ((0 <? m1) && (0 <? m2)) eqn:Em; [|discriminate].
  destruct (is_state_active (p_state p)); [|discriminate].
  destruct (0 <? lp) eqn:Elp; [|discriminate]. apply Z.ltb_lt in Elp.
  apply bind_ok in H. destruct H as (p0 & Hdeb & H).
  apply bind_ok in H. destruct H as ([[p1 x1] x2] & Hrem & H).
  destruct (p_r1 p1 * p_r2 p1 <=? p_r1 p * p_r2 p); [|discriminate].
  apply bind_ok in H. destruct H as (p2 & Hs1 & H).
  apply bind_ok in H. destruct H as (p3 & Hs2 & H).
  inversion H; subst; clear H.
  apply andb_prop in Em. destruct Em as [Em1 Em2]. apply Z.ltb_lt in Em1, Em2.
  pose proof Hinv as [b1 b2 iS ind inn ipos izero iS0 ifee icut].
  apply lp_debit_spec in Hdeb; auto; try lia.
  destruct Hdeb as (Hne & Hle & SD & NDD & NND & GD & OD & Ep0).
  apply pool_remove_spec in Hrem; auto.
  rewrite Ep0 in Hrem. simpl in Hrem.
  destruct Hrem as (HS & HSl & -> & -> & Hx1 & Hx2 & Hm1 & Hm2 & ->).
  pose proof (is_floor_div (lp * p_r1 p) (p_S p) HS) as F1.
  pose proof (is_floor_div (lp * p_r2 p) (p_S p) HS) as F2.
  set (x1 := lp * p_r1 p / p_S p) in *. set (x2 := lp * p_r2 p / p_S p) in *. clearbody x1 x2.
  apply sub_bal_spec in Hs1. simpl in Hs1.
  destruct Hs1 as (Hb1 & C1 & L1 & R11 & R12 & B11 & B12).
  apply sub_bal_spec in Hs2. simpl in Hs2.
  destruct Hs2 as (Hb2 & C2 & L2 & R21 & R22 & B21 & B22).
  unfold set_pool, set_lp in *. simpl in *.
  destruct L1 as (l11 & l12). destruct L2 as (l21 & l22).
  exists x1, x2.
  split; [reflexivity|]. split; [exact Elp|]. split; [exact HSl|]. split; [exact F1|]. split; [exact F2|].
  split; [lia|]. split; [lia|]. split; [lia|]. split; [lia|].
  split; [lia|]. split; [lia|]. split; [rewrite l21, l11; simpl; lia|]. split; [lia|]. split; [lia|].
  unfold lp_of in *. rewrite l22, l12. split; [exact GD | exact Hle].
Qed.

Lemma remove_slippage p c lp m1 m2 :
  PairInv p -> 0 < p_S p -> (lp * p_r1 p / p_S p < m1 \/ lp * p_r2 p / p_S p < m2) ->
  is_ok (ep_remove p c lp m1 m2) = false.
Proof.
  intros Hinv HS Hlt.
  destruct (ep_remove p c lp m1 m2) as [[[p' o] e]|] eqn:E; [|reflexivity].
  exfalso. apply remove_char in E; auto.
  destruct E as (x1 & x2 & _ & _ & _ & F1 & F2 & M1 & M2 & _).
  apply is_floor_unique in F1; [|assumption]. apply is_floor_unique in F2; [|assumption]. lia.
Qed.

(** first deposit (either endpoint): min(a1,a2) LP created, 1000 of them stay in the pair for ever *)
Lemma first_deposit_char p c a1 a2 p' outs e :
  PairInv p -> ep_add_initial p c a1 a2 = Ok (p', outs, e) ->
  p_S p = 0 /\ is_state_active (p_state p) = false /\
  (forall ad, p_adder p = Some ad -> c = ad) /\
  MINIMUM_LIQUIDITY < Z.min a1 a2 /\
  outs = [Z.min a1 a2 - MINIMUM_LIQUIDITY; a1; a2] /\
  p_S p' = Z.min a1 a2 /\ p_r1 p' = a1 /\ p_r2 p' = a2 /\ p_state p' = ST_PartialActive /\
  lp_of p' SELF >= MINIMUM_LIQUIDITY.
Proof.
  intros Hinv H. pose proof H as H0. unfold ep_add_initial in H.
  destruct (match p_adder p with Some ad => c =? ad | None => true end) eqn:Ead; [|discriminate].
  destruct ((0 <? a1) && (0 <? a2)) eqn:Ea; [|discriminate].
  destruct (negb (is_state_active (p_state p))) eqn:Est; [|discriminate].
  destruct (p_S p =? 0) eqn:ES; [|discriminate].
  cbv zeta in H.
  destruct (MINIMUM_LIQUIDITY <? Z.min a1 a2) eqn:EL; [|discriminate].
  apply Z.eqb_eq in ES. apply Z.ltb_lt in EL. apply negb_true_iff in Est.
  destruct (i_zero _ Hinv ES) as [Z1 Z2].
  apply ep_add_initial_spec in H0; auto. destruct H0 as (I' & _ & _).
  inversion H; subst; clear H. simpl.
  split; [exact ES|]. split; [exact Est|].
  split; [intros ad Had; rewrite Had in Ead; apply Z.eqb_eq in Ead; exact Ead|].
  split; [exact EL|]. split; [reflexivity|].
  split; [reflexivity|]. split; [lia|]. split; [lia|]. split; [reflexivity|].
  pose proof min_liq_pos.
  assert (HSp : 0 < p_S (set_state (lp_credit (add_bal (add_bal (set_pool (lp_credit p SELF MINIMUM_LIQUIDITY)
      (p_r1 p + a1) (p_r2 p + a2) (Z.min a1 a2)) T1 a1) T2 a2) c (Z.min a1 a2 - MINIMUM_LIQUIDITY)) ST_PartialActive)).
  { simpl. lia. }
  destruct (i_pos _ I' HSp) as (_ & _ & G). lia.
Qed.

(** once liquidity exists the LP supply can never return to zero (nor below the locked floor) *)
Lemma step_S_floor p op p' o e :
  PairInv p -> 0 < p_S p -> step p op = Ok (p', o, e) -> MINIMUM_LIQUIDITY <= p_S p'.
Proof.
  intros Hinv HS H.
  pose proof (step_spec _ _ _ _ _ H Hinv) as (I' & _ & _).
  assert (Hpos : 0 < p_S p' -> MINIMUM_LIQUIDITY <= p_S p').
  { intros Hp. destruct (i_pos _ I' Hp) as (_ & _ & G).
    pose proof (i_S _ I') as ES. pose proof (i_nn _ I') as NN. pose proof (i_nd _ I') as ND.
    (* S' = sum of all LP balances >= the pair's own balance *)
    assert (Hge : forall l a, NoDup (akeys l) -> all_nonneg l -> aget l a <= asum l).
    { clear. induction l as [|[k v] t IH]; intros a ND NN; simpl; [lia|].
      inversion ND; subst. inversion NN; subst. simpl in *.
      destruct (k =? a).
      - assert (0 <= asum t). { clear - H4. induction t as [|[k' v'] t' IH']; simpl; [lia|]. inversion H4; subst. simpl in *. specialize (IH' H2). lia. }
        lia.
      - specialize (IH a H2 H4). lia. }
    specialize (Hge (p_lp p') SELF ND NN). unfold lp_of in G. lia. }
  destruct op; simpl in H.
  - (* AddInitial needs S = 0 *) unfold ep_add_initial in H.
    destruct (match p_adder p with Some ad => c =? ad | None => true end); [|discriminate].
    destruct ((0 <? a1) && (0 <? a2)); [|discriminate].
    destruct (negb (is_state_active (p_state p))); [|discriminate].
    destruct (p_S p =? 0) eqn:ES; [apply Z.eqb_eq in ES; lia | discriminate].
  - apply add_char in H; auto. destruct H as (o1 & o2 & liq & _ & _ & _ & _ & _ & Hl & _ & _ & HS' & _).
    apply Hpos. lia.
  - apply remove_char in H; auto.
    destruct H as (x1 & x2 & _ & Hlp & HSl & _ & _ & _ & _ & _ & _ & _ & _ & HS' & _). lia.
  - apply ep_swap_in_spec in H; auto. destruct H as (_ & _ & _ & [LS _] & _). apply Hpos. lia.
  - apply ep_swap_out_spec in H; auto. destruct H as (_ & _ & _ & [LS _] & _). apply Hpos. lia.
  - apply ep_swap_no_fee_spec in H; auto. destruct H as (_ & _ & _ & [LS _] & _). apply Hpos. lia.
  - (* RemoveBuyBack *) unfold ep_remove_buyback in H.
    destruct (existsb _ _); [|discriminate].
    destruct (0 <? lp) eqn:Elp; [|discriminate]. apply Z.ltb_lt in Elp.
    apply bind_ok in H. destruct H as (p0 & Hdeb & H).
    apply bind_ok in H. destruct H as ([[p1 x1] x2] & Hrem & H).
    apply bind_ok in H. destruct H as ([p2 e2] & Hf1 & H).
    apply bind_ok in H. destruct H as ([p3 e3] & Hf2 & H).
    inversion H; subst; clear H.
    unfold lp_debit in Hdeb. destruct (negb (c =? SELF)); [|discriminate].
    apply bind_ok in Hdeb. destruct Hdeb as (b & _ & Hdeb). inversion Hdeb; subst; clear Hdeb.
    apply pool_remove_spec in Hrem; auto. simpl in Hrem.
    destruct Hrem as (_ & HSl & -> & -> & Hx1 & Hx2 & _ & _ & ->).
    destruct (i_pos _ Hinv HS) as (P1 & P2 & _).
    change T1 with (tok_in true) in Hf1.
    apply send_fee_slice_spec in Hf1; try (unfold rin, rout; simpl; lia).
    destruct Hf1 as [_ [L2 _] _ _ R2i R2o _].
    change T2 with (tok_in false) in Hf2.
    apply send_fee_slice_spec in Hf2; try (unfold rin, rout in *; simpl in *; lia).
    destruct Hf2 as [_ [L3 _] _ _ _ _ _].
    rewrite L3, L2. simpl. lia.
  - unfold ep_set_fee in H. destruct (has_owner_perm c); [|discriminate].
    destruct (_ && _); [|discriminate]. inversion H; subst. simpl. apply Hpos. simpl. lia.
  - unfold ep_set_fee_on in H. destruct (has_owner_perm c); [|discriminate]. destruct en.
    + destruct (negb _); [|discriminate]. inversion H; subst. apply Hpos. simpl. lia.
    + destruct (existsb (fun d => fst d =? a) (p_dests p)); [|discriminate].
      destruct (existsb (pair_eqb (a, tok)) (p_dests p)); [|discriminate].
      inversion H; subst. apply Hpos. simpl. lia.
  - unfold ep_set_collector in H. destruct (has_owner_perm c); [|discriminate].
    destruct (_ && _); [|discriminate]. inversion H; subst. apply Hpos. simpl. lia.
  - unfold ep_set_state in H. destruct (has_owner_perm c); [|discriminate].
    destruct (_ && _); [|discriminate]. inversion H; subst. apply Hpos. simpl. lia.
  - unfold ep_wl_add in H. destruct (has_owner_perm c); [|discriminate].
    destruct (negb _); [|discriminate]. inversion H; subst. apply Hpos. simpl. lia.
  - unfold ep_wl_rm in H. destruct (has_owner_perm c); [|discriminate].
    destruct (existsb _ _); [|discriminate]. inversion H; subst. apply Hpos. simpl. lia.
  - unfold ep_trust in H. destruct (has_owner_perm c); [|discriminate].
    destruct (negb (ta =? tb)); [|discriminate]. destruct (negb _); [|discriminate].
    inversion H; subst. apply Hpos. simpl. lia.
  - unfold ep_lp_transfer in H. destruct (0 <? amt); [|discriminate].
    apply bind_ok in H. destruct H as (p1 & Hd & H). inversion H; subst; clear H.
    unfold lp_debit in Hd. destruct (negb (src =? SELF)); [|discriminate].
    apply bind_ok in Hd. destruct Hd as (b & _ & Hd). inversion Hd; subst. apply Hpos. simpl. lia.
  - unfold ep_donate in H. destruct (_ && _); [|discriminate]. inversion H; subst.
    apply Hpos. unfold add_bal. destruct (tok =? T1); simpl; lia.
Qed.

(** with an initial-liquidity adder configured, addLiquidity is rejected until the first deposit *)
Lemma add_needs_initial p c a1 a2 m1 m2 ad :
  p_adder p = Some ad -> p_S p = 0 -> is_ok (ep_add p c a1 a2 m1 m2) = false.
Proof.
  intros Had HS. unfold ep_add. rewrite Had, HS. simpl.
  destruct ((0 <? m1) && (0 <? m2)); [|reflexivity].
  destruct ((0 <? a1) && (0 <? a2)); [|reflexivity].
  destruct (is_state_active (p_state p)); reflexivity.
Qed.
