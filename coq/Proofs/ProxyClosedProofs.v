(** The closed proxy-DEX composition (Model/ProxyClosed.v): theorems.

    Part A  every successful closed step projects onto a ProxyDex step on a record of answers that the callee models
            COMPUTED, and onto steps of the callee models; the record satisfies [x_law] - discharged from the callee
            models (Proofs/LawsC16.v), not assumed.  Hence every closed run is a lawful ProxyDex run and every C16
            theorem holds on every reachable closed state without a law hypothesis.
    Part B  cross-contract conservation: LP tokens, farm tokens and locked tokens the proxy's books record = what the
            pair model / the farm models / the factory model hold for the proxy; the proxy's base-asset flows.
    Part C  C08 for proxy positions: the energy entry of every account = sum over (tokens it holds + tokens carried
            for it); who carries the energy of a wrapped token that changes hands. *)
From MX Require Import Base.Prelude Gen.Params Model.ProxyDex Proofs.ProxyDexProofs.
From MX Require Model.Pair Model.Farm Model.FarmLocked Model.FarmBehalf Model.Energy.
From MX Require Proofs.PairInv Proofs.FarmInv Proofs.FarmSolv Proofs.FarmLockedProofs Proofs.BehalfProofs Proofs.EnergyProofs Proofs.LawsC16.
From MX Require Import Model.ProxyClosed.

Module PI := MX.Proofs.PairInv.
Module FI := MX.Proofs.FarmInv.
Module FLP := MX.Proofs.FarmLockedProofs.
Module BF := MX.Proofs.BehalfProofs.FarmB.
Module ENP := MX.Proofs.EnergyProofs.

(** ================================================================== generic helpers *)
Lemma opt_ok {A} (o : option A) a : opt o = Ok a -> o = Some a.
Proof. destruct o; simpl; intros H; inversion H; reflexivity. Qed.

Ltac opt_in H := apply opt_ok in H.

(** the users of the closed system: ordinary accounts *)
Definition uid (c : Z) : Prop := 0 < c < 1000 /\ c <> PX /\ c <> LPFARM /\ c <> LPBURN.

Lemma uid_valid c : uid c -> FI.valid_id c.
Proof. unfold uid, FI.valid_id. lia. Qed.

(** ================================================================== Part A: projection, laws discharged *)
(** ---- what the proxy hands to the factory / the farm in a merge is what its own model accounts for *)
Lemma wlp_parts_tsum ps : forall s u s' ta tl fps,
  take_wlp_list s u ps = Ok (s', (ta, tl)) -> wlp_parts s u ps = Ok fps -> ENP.tsum fps = tl.
Proof.
  induction ps as [|p t IH]; intros s u s' ta tl fps H W; simpl in H, W.
  - inversion H; inversion W; subst. reflexivity.
  - destruct (p_tok p =? TK_WLP); [|discriminate].
    mon H r Hr. destruct r as [s1 [k lp]]. rewrite Hr in W. cbn [bind] in W.
    mon H r2 Hr2. destruct r2 as [s2 [ta2 tl2]]. inversion H; subst s' ta tl; clear H.
    mon W rest Wr. inversion W; subst fps; clear W. cbn [ENP.tsum]. rewrite (IH _ _ _ _ _ _ Hr2 Wr). reflexivity.
Qed.

Lemma wfm_toks_sum ps : forall s u s' its toks,
  take_wfm_list s u ps = Ok (s', its) -> wfm_toks s u ps = Ok toks -> L16.farm_sum toks = items_farm_total its.
Proof.
  induction ps as [|p t IH]; intros s u s' its toks H W; simpl in H, W.
  - inversion H; inversion W; subst. reflexivity.
  - destruct (p_tok p =? TK_WFM); [|discriminate].
    mon H r Hr. destruct r as [s1 [w pp]]. rewrite Hr in W. cbn [bind] in W.
    mon H r2 Hr2. destruct r2 as [s2 its2]. inversion H; subst s' its; clear H.
    mon W rest Wr. inversion W; subst toks; clear W. cbn [L16.farm_sum items_farm_total mk_item].
    rewrite (IH _ _ _ _ _ Hr2 Wr). reflexivity.
Qed.

Lemma items_locked_wlp_kill its : forall s fps, items_locked_wlp s its = Ok fps ->
  exists s' tw, kill_items s its = Ok (s', (tw, ENP.tsum fps)).
Proof.
  induction its as [|it t IH]; intros s fps H; simpl in H.
  - inversion H; subst. exists s, 0. reflexivity.
  - destruct it as [[[[fa a] ki] pn] pp]. mon H r Hr. destruct r as [s1 [k lq]]. mon H rest Hrest.
    inversion H; subst fps; clear H. destruct (IH _ _ Hrest) as (s' & tw & Hk).
    exists s', (pp + tw). cbn [kill_items]. rewrite Hr. cbn [bind]. rewrite Hk. reflexivity.
Qed.

Lemma pp_total_map its :
  ENP.tsum (map (fun it : item => let '(_, _, _, pn, pp) := it in (pn, pp)) its) = items_pp_total its.
Proof.
  induction its as [|it t IH]; [reflexivity|]. destruct it as [[[[fa a] ki] pn] pp]. cbn [map ENP.tsum items_pp_total].
  rewrite IH. reflexivity.
Qed.

Lemma items_locked_total s its fps : items_locked s its = Ok fps -> L16.merge_locked_total s its = Some (ENP.tsum fps).
Proof.
  unfold items_locked, L16.merge_locked_total. destruct its as [|it t]; [discriminate|].
  destruct it as [[[[fa a] kind] pn] pp]. destruct (kind =? 0).
  - intros H. injection H as <-. f_equal. symmetry. exact (pp_total_map ((fa, a, kind, pn, pp) :: t)).
  - intros H. destruct (items_locked_wlp_kill _ _ _ H) as (s' & tw & Hk). rewrite Hk. reflexivity.
Qed.

(** [merge_items] reads only three fields of the record of answers *)
Lemma merge_items_env s u farm its e e' : v_ok e' = v_ok e -> v_fact e' = v_fact e -> v_fmerge e' = v_fmerge e ->
  merge_items s u farm its e' = merge_items s u farm its e.
Proof. intros E1 E2 E3. unfold merge_items. rewrite E1, E2, E3. reflexivity. Qed.

(** ---- the factory model's step behind the proxy's calls *)
Lemma step_merge_via s u fps s' o : EN.step s (EN.MergeVia u fps) = Ok (s', o) -> 0 < u /\ EN.ep_merge s u fps = Ok (s', o).
Proof.
  unfold EN.step. cbn [EN.accounts_ok]. unfold EN.is_user. destruct (0 <? u) eqn:E; [|discriminate].
  apply Z.ltb_lt in E. auto.
Qed.

Lemma step_extend_via s u e amt le s' o : EN.step s (EN.ExtendVia u e amt le) = Ok (s', o) ->
  0 < u /\ EN.ep_extend s u e amt le u = Ok (s', o).
Proof.
  unfold EN.step. cbn [EN.accounts_ok]. unfold EN.is_user. destruct (0 <? u) eqn:E; [|discriminate].
  apply Z.ltb_lt in E. auto.
Qed.

Lemma step_lock_virtual s u amt le s' o : EN.step s (EN.LockVirtual u amt le) = Ok (s', o) ->
  0 < u /\ EN.ep_lock s amt le u = Ok (s', o).
Proof.
  unfold EN.step. cbn [EN.accounts_ok]. unfold EN.is_user. destruct (0 <? u) eqn:E; [|discriminate].
  apply Z.ltb_lt in E. auto.
Qed.

Lemma px_merge_inv c u fps c' o : px_merge c u fps = Ok (c', o) ->
  exists c1 s2 ne ma, from_px_all c u fps = Ok c1 /\ EN.ep_merge (fst c1) u fps = Ok (s2, o) /\ 0 < u /\
    o = [ne; ma] /\ to_px (s2, snd c1) u ne ma = Ok c'.
Proof.
  unfold px_merge. intros H. mon H c1 H1. mon H r Hr. destruct r as [s2 o2].
  apply step_merge_via in Hr. destruct Hr as [Hu Hr].
  destruct o2 as [|ne [|ma [|z t]]]; try discriminate. mon H c3 H3. inversion H; subst c' o; clear H.
  exists c1, s2, ne, ma. auto.
Qed.

Lemma px_extend_inv c u e amt le c' o : px_extend c u e amt le = Ok (c', o) ->
  exists c1 s2 ne ma, from_px c u e amt = Ok c1 /\ EN.ep_extend (fst c1) u e amt le u = Ok (s2, o) /\ 0 < u /\
    o = [ne; ma] /\ to_px (s2, snd c1) u ne ma = Ok c'.
Proof.
  unfold px_extend. intros H. mon H c1 H1. mon H r Hr. destruct r as [s2 o2].
  apply step_extend_via in Hr. destruct Hr as [Hu Hr].
  destruct o2 as [|ne [|ma [|z t]]]; try discriminate. mon H c3 H3. inversion H; subst c' o; clear H.
  exists c1, s2, ne, ma. auto.
Qed.

(** ---- the farm model's steps behind the proxy's calls *)
Lemma via_user_inv lf u toks op back lf' o rc : via_user lf u toks op back = Ok (lf', o, rc) ->
  exists lf1 lf2, FB.lseq lf (map (FB.xfer PX u) toks) = Ok lf1 /\ FL.lstep lf1 (FL.LF op) = Ok (lf2, o, rc) /\
    (if back then exists r', FL.lstep lf2 (FL.LF (F.FTransfer (nth 0 o 0) u PX (nth 1 o 0))) = Ok r' /\ lf' = fst (fst r')
     else lf' = lf2).
Proof.
  unfold via_user. intros H. mon H lf1 H1. mon H r Hr. destruct r as [[lf2 o2] rc2]. exists lf1, lf2.
  destruct back.
  - mon H r' Hr'. inversion H; subst lf' o rc; clear H. split; [exact H1|]. split; [exact Hr|]. exists r'. auto.
  - inversion H; subst lf' o rc; clear H. auto.
Qed.

Lemma lseq_nil lf lf1 : FB.lseq lf (map (FB.xfer PX 0) []) = Ok lf1 -> lf1 = lf.
Proof. simpl. intros H. inversion H. reflexivity. Qed.

(** ================================================================== the inversion of every closed endpoint *)
(** what a closed step consists of: the ProxyDex step on the computed record and the law it satisfies *)
Definition pop_of (o : cop) (e : env) : option op :=
  match o with
  | CAddLiq u pid p1 p2 extra _ _ => Some (AddLiq u pid p1 p2 extra e)
  | CRemoveLiq u pid p _ _ => Some (RemoveLiq u pid p e)
  | CEnterFarm u farm p extra _ => Some (EnterFarm u farm p extra e)
  | CExitFarm u farm p _ => Some (ExitFarm u farm p e)
  | CClaim u farm p _ => Some (ClaimRew u farm p e)
  | CMergeWlp u ps => Some (MergeWlp u ps e)
  | CMergeWfm u farm ps _ => Some (MergeWfm u farm ps e)
  | CIncLp u p _ => Some (IncLp u p e)
  | CIncFm u p _ => Some (IncFm u p e)
  | CSetPair u b => Some (SetPair u b)
  | CSetFarm u farm b => Some (SetFarm u farm b)
  | CXferWlp a b n x => Some (XferWlp a b n x)
  | CXferWfm a b n x => Some (XferWfm a b n x)
  | CPair _ | CFarm _ _ | CEnergy _ | CTime _ _ => None
  end.

Lemma add_used_set_fact p1 e kf o e' : L16.answer_of_mergeTokens e kf o = Some e' ->
  L16.add_used_locked p1 e' = L16.add_used_locked p1 e /\ v_pair e' = v_pair e.
Proof.
  unfold L16.answer_of_mergeTokens. destruct o as [|a [|b [|c t]]]; try discriminate. intros H. inversion H; subst.
  split; reflexivity.
Qed.

Lemma c_add_liq_proj cs u pid p1 p2 extra m1 m2 cs' co : c_add_liq cs u pid p1 p2 extra m1 m2 = Ok (cs', co) ->
  step (c_px cs) (AddLiq u pid p1 p2 extra (co_e co)) = Ok (c_px cs', co_x co) /\ x_law (co_x co) = true.
Proof.
  unfold c_add_liq. intros H. chk H. mon H c0 H0. mon H rp Hp. destruct rp as [[pair' po] ef].
  mon H e1 He1. opt_in He1. cbv zeta in H. mon H re Hre. destruct re as [c1 e]. mon H rx Hx. destruct rx as [px' x].
  mon H c2 H2. inversion H; subst cs' co; clear H. cbn [co_e co_x c_px]. split; [exact Hx|].
  cbn [PR.step] in Hp. cbn [step] in Hx.
  destruct extra as [|q t].
  - inversion Hre; subst c1 e; clear Hre. eapply L16.add_liq_closed; eauto.
  - mon Hre parts Hparts. mon Hre rm Hrm. destruct rm as [cm fo]. cbn [fst snd] in Hre. mon Hre e2 He2. opt_in He2.
    inversion Hre; subst c1 e; clear Hre.
    destruct (px_merge_inv _ _ _ _ _ Hrm) as (ca & s2 & ne & ma & Hfrom & Hmerge & Hu & Eo & Hto).
    destruct (add_used_set_fact p1 _ _ _ _ He2) as [Eused _].
    eapply (L16.add_liq_merge_closed _ _ _ _ _ _ _ _ _ _ _ _ _ _ _ _ _ _ _ _ _ _ _ _ Hp Hmerge He1 He2); [|exact Hx].
    intros s1 ta tl Ht. cbn [ENP.tsum]. rewrite Eused. rewrite (wlp_parts_tsum _ _ _ _ _ _ _ Ht Hparts). reflexivity.
Qed.

Lemma c_remove_liq_proj cs u pid p m1 m2 cs' co : c_remove_liq cs u pid p m1 m2 = Ok (cs', co) ->
  step (c_px cs) (RemoveLiq u pid p (co_e co)) = Ok (c_px cs', co_x co) /\ x_law (co_x co) = true.
Proof.
  unfold c_remove_liq. intros H. mon H rp Hp. destruct rp as [[pair' po] ef]. mon H e He. opt_in He.
  mon H rx Hx. destruct rx as [px' x]. mon H c2 H2. inversion H; subst cs' co; clear H. cbn [co_e co_x c_px].
  split; [exact Hx|]. cbn [PR.step] in Hp. cbn [step] in Hx. eapply L16.remove_liq_closed; eauto.
Qed.

Lemma answer_enter_fields e rk fo e' : L16.answer_of_enterFarm e rk fo = Some e' ->
  v_ok e' = v_ok e /\ v_fact e' = v_fact e /\ v_fmerge e' = v_fmerge e /\ v_pair e' = v_pair e /\
  v_farm e' = (nth 0 fo 0, nth 1 fo 0) /\ v_rew e' = (rk, nth 2 fo 0) /\ v_now e' = v_now e /\
  v_energy e' = v_energy e /\ v_unlock e' = v_unlock e.
Proof.
  unfold L16.answer_of_enterFarm. destruct fo as [|n [|amt [|r [|z t]]]]; try discriminate. intros H. inversion H; subst.
  repeat split; reflexivity.
Qed.

Lemma c_enter_farm_proj cs u farm p extra b cs' co : c_enter_farm cs u farm p extra b = Ok (cs', co) ->
  step (c_px cs) (EnterFarm u farm p extra (co_e co)) = Ok (c_px cs', co_x co) /\ x_law (co_x co) = true.
Proof.
  unfold c_enter_farm. intros H. cbv zeta in H. mon H lf Hlf. mon H r0 Hr0. destruct r0 as [[s1 kind] minted].
  mon H c0 H0. mon H rf Hrf. destruct rf as [[lf1 fo] rc]. mon H pair1 Hpair. mon H c1 H1.
  mon H re Hre. destruct re as [[lf' c3] e]. mon H rx Hx. destruct rx as [px' x]. mon H c4 H4.
  destruct (set_farm cs farm lf') as [f0' f1']. inversion H; subst cs' co; clear H. cbn [co_e co_x c_px].
  split; [exact Hx|].
  destruct (via_user_inv _ _ _ _ _ _ _ _ Hrf) as (lfa & lfb & Hq & Hstep & _). simpl in Hq. inversion Hq; subst lfa; clear Hq.
  cbn [step] in Hx.
  destruct extra as [|q t].
  - mon Hre e' He. opt_in He. inversion Hre; subst lf' c3 e'; clear Hre. eapply L16.enter_farm_closed; eauto.
  - mon Hre rt Hrt. destruct rt as [s2 its]. mon Hre fps Hfps. mon Hre toks Htoks. mon Hre rm Hrm. destruct rm as [cm mo].
    mon Hre rg Hrg. destruct rg as [[lf2 go] rcm]. mon Hre c2 H2. cbn [fst snd] in Hre.
    mon Hre e1 He1. opt_in He1. mon Hre e2 He2. opt_in He2. mon Hre e3 He3. opt_in He3.
    inversion Hre; subst lf' c3 e3; clear Hre.
    destruct (px_merge_inv _ _ _ _ _ Hrm) as (ca & sm & ne & ma & Hfrom & Hmerge & Hu & Eo & Hto).
    destruct (via_user_inv _ _ _ _ _ _ _ _ Hrg) as (lfc & lfd & _ & Hmstep & _).
    destruct (answer_enter_fields _ _ _ _ He3) as (Eok & Efact & Efm & _ & Efarm & _).
    destruct (L16.lfarm_enter_law _ _ _ _ _ _ _ _ _ e2 (rk_of rc) Hstep) as (e' & He' & Lenter & _).
    rewrite He3 in He'. inversion He'; subst e'; clear He'.
    assert (Hmi : forall s0 its0, merge_items s0 u farm its0 e = merge_items s0 u farm its0 e2)
      by (intros; apply merge_items_env; assumption).
    clear Eok Efact Efm.
    (* the proxy's own computation on the record *)
    unfold ep_enter_farm in Hx. chk Hx. chk Hx. unfold enter_pre in Hr0. cbv zeta in Hr0.
    mon Hx r0' Hr0'. rewrite Hr0 in Hr0'. inversion Hr0'; subst r0'; clear Hr0'. chk Hx.
    rewrite Efarm in Hx. destruct (v_rew e) as [rk ra]. rewrite Hrt in Hx. cbn [bind] in Hx.
    mon Hx z Hz. mon Hx r2 Hr2. destruct r2 as [s5 [[m amt] law]]. inversion Hx; subst px' x; clear Hx. cbn [x_law].
    rewrite Efarm in Lenter. cbn [snd] in Lenter. unfold L16.law_farm_enter in Lenter. rewrite Lenter. cbn [andb].
    rewrite Hmi in Hr2.
    edestruct L16.merge_items_closed as [Hl _]; [exact Hmerge | exact Hmstep | exact He1 | exact He2 | | | exact Hr2 | exact Hl].
    + apply items_locked_total. exact Hfps.
    + cbn [L16.farm_sum items_farm_total mk_item]. rewrite (wfm_toks_sum _ _ _ _ _ _ Hrt Htoks). reflexivity.
Qed.

Lemma c_exit_farm_proj cs u farm p b cs' co : c_exit_farm cs u farm p b = Ok (cs', co) ->
  step (c_px cs) (ExitFarm u farm p (co_e co)) = Ok (c_px cs', co_x co) /\ x_law (co_x co) = true.
Proof.
  unfold c_exit_farm. intros H. cbv zeta in H. mon H lf Hlf.
  destruct (getn (s_wfm (c_px cs)) (p_non p)) as [w|] eqn:Hw; [|discriminate].
  mon H rf Hrf. destruct rf as [[lf1 fo] rc]. mon H pair1 Hpair. mon H c1 H1. mon H e He. opt_in He.
  mon H rx Hx. destruct rx as [px' x]. mon H c2 H2. destruct (set_farm cs farm lf1) as [f0' f1'].
  inversion H; subst cs' co; clear H. cbn [co_e co_x c_px]. split; [exact Hx|].
  destruct (via_user_inv _ _ _ _ _ _ _ _ Hrf) as (lfa & lfb & _ & Hstep & _).
  cbn [step] in Hx. eapply L16.exit_farm_closed; eauto.
Qed.

Lemma c_claim_proj cs u farm p b cs' co : c_claim cs u farm p b = Ok (cs', co) ->
  step (c_px cs) (ClaimRew u farm p (co_e co)) = Ok (c_px cs', co_x co) /\ x_law (co_x co) = true.
Proof.
  unfold c_claim. intros H. cbv zeta in H. mon H lf Hlf.
  destruct (getn (s_wfm (c_px cs)) (p_non p)) as [w|] eqn:Hw; [|discriminate].
  mon H rf Hrf. destruct rf as [[lf1 fo] rc]. mon H c1 H1. mon H e He. opt_in He.
  mon H rx Hx. destruct rx as [px' x]. mon H c2 H2. destruct (set_farm cs farm lf1) as [f0' f1'].
  inversion H; subst cs' co; clear H. cbn [co_e co_x c_px]. split; [exact Hx|].
  destruct (via_user_inv _ _ _ _ _ _ _ _ Hrf) as (lfa & lfb & _ & Hstep & _).
  cbn [step] in Hx. eapply L16.claim_closed; eauto.
Qed.

Lemma c_merge_wlp_proj cs u ps cs' co : c_merge_wlp cs u ps = Ok (cs', co) ->
  step (c_px cs) (MergeWlp u ps (co_e co)) = Ok (c_px cs', co_x co) /\ x_law (co_x co) = true.
Proof.
  unfold c_merge_wlp. intros H. cbv zeta in H. mon H parts Hparts. mon H rm Hrm. destruct rm as [cm mo]. cbn [fst snd] in H.
  mon H e He. opt_in He. mon H rx Hx. destruct rx as [px' x]. mon H c2 H2.
  inversion H; subst cs' co; clear H. cbn [co_e co_x c_px]. split; [exact Hx|].
  destruct (px_merge_inv _ _ _ _ _ Hrm) as (ca & sm & ne & ma & Hfrom & Hmerge & Hu & Eo & Hto).
  cbn [step] in Hx. eapply (L16.merge_wlp_closed _ _ _ _ _ _ _ _ _ _ _ _ _ Hmerge He); [|exact Hx].
  intros s1 ta tl Ht. exact (wlp_parts_tsum _ _ _ _ _ _ _ Ht Hparts).
Qed.

Lemma c_merge_wfm_proj cs u farm ps bm cs' co : c_merge_wfm cs u farm ps bm = Ok (cs', co) ->
  step (c_px cs) (MergeWfm u farm ps (co_e co)) = Ok (c_px cs', co_x co) /\ x_law (co_x co) = true.
Proof.
  unfold c_merge_wfm. intros H. cbv zeta in H. mon H lf Hlf. mon H rt Hrt. destruct rt as [s1 its].
  mon H fps Hfps. mon H toks Htoks. mon H rm Hrm. destruct rm as [cm mo]. mon H rg Hrg. destruct rg as [[lf1 go] rcm].
  cbn [fst snd] in H. mon H c1 H1. mon H e1 He1. opt_in He1. mon H e He. opt_in He.
  mon H rx Hx. destruct rx as [px' x]. mon H c2 H2. destruct (set_farm cs farm lf1) as [f0' f1'].
  inversion H; subst cs' co; clear H. cbn [co_e co_x c_px]. split; [exact Hx|].
  destruct (px_merge_inv _ _ _ _ _ Hrm) as (ca & sm & ne & ma & Hfrom & Hmerge & Hu & Eo & Hto).
  destruct (via_user_inv _ _ _ _ _ _ _ _ Hrg) as (lfc & lfd & _ & Hmstep & _).
  cbn [step] in Hx.
  eapply (L16.merge_wfm_closed _ _ _ _ _ _ _ _ _ _ _ _ _ _ _ _ _ _ _ _ _ _ _ _ _ Hmerge Hmstep He1 He); [|exact Hx].
  intros s1' its' Ht. rewrite Hrt in Ht. inversion Ht; subst s1' its'; clear Ht. split.
  - apply items_locked_total. exact Hfps.
  - exact (wfm_toks_sum _ _ _ _ _ _ Hrt Htoks).
Qed.

Lemma c_inc_lp_proj cs u p le cs' co : c_inc_lp cs u p le = Ok (cs', co) ->
  step (c_px cs) (IncLp u p (co_e co)) = Ok (c_px cs', co_x co) /\ x_law (co_x co) = true.
Proof.
  unfold c_inc_lp. intros H. cbv zeta in H. mon H rt Hrt. destruct rt as [s1 [k lp]].
  mon H rm Hrm. destruct rm as [cm mo]. cbn [fst snd] in H. mon H e He. opt_in He.
  mon H rx Hx. destruct rx as [px' x]. mon H c2 H2.
  inversion H; subst cs' co; clear H. cbn [co_e co_x c_px]. split; [exact Hx|].
  destruct (px_extend_inv _ _ _ _ _ _ _ Hrm) as (ca & sm & ne & ma & Hfrom & Hext & Hu & Eo & Hto).
  cbn [step] in Hx. eapply (L16.inc_lp_closed _ _ _ _ _ _ _ _ _ _ _ _ _ _ _ Hext He); [|exact Hx].
  intros s1' k' lp' Ht. rewrite Hrt in Ht. inversion Ht. reflexivity.
Qed.

Lemma c_inc_fm_proj cs u p le cs' co : c_inc_fm cs u p le = Ok (cs', co) ->
  step (c_px cs) (IncFm u p (co_e co)) = Ok (c_px cs', co_x co) /\ x_law (co_x co) = true.
Proof.
  unfold c_inc_fm. intros H. cbv zeta in H. mon H rt Hrt. destruct rt as [s1 [w pp]].
  mon H kl Hkl. destruct kl as [k lq]. mon H rm Hrm. destruct rm as [cm mo]. cbn [fst snd] in H. mon H e He. opt_in He.
  mon H rx Hx. destruct rx as [px' x]. mon H c2 H2.
  inversion H; subst cs' co; clear H. cbn [co_e co_x c_px]. split; [exact Hx|].
  destruct (px_extend_inv _ _ _ _ _ _ _ Hrm) as (ca & sm & ne & ma & Hfrom & Hext & Hu & Eo & Hto).
  cbn [step] in Hx. eapply (L16.inc_fm_closed _ _ _ _ _ _ _ _ _ _ _ _ _ _ _ Hext He); [|exact Hx].
  intros s1' w' pp' Ht. rewrite Hrt in Ht. inversion Ht; subst s1' w' pp'; clear Ht.
  destruct (wf_kind w =? 0).
  - inversion Hkl. reflexivity.
  - intros s2 k2 lq2 Hr. rewrite Hr in Hkl. cbn [bind snd] in Hkl. inversion Hkl. reflexivity.
Qed.

Lemma c_plain_proj cs o cs' co : c_plain cs o = Ok (cs', co) ->
  step (c_px cs) o = Ok (c_px cs', co_x co).
Proof.
  unfold c_plain. intros H. mon H rx Hx. destruct rx as [px' x]. inversion H; subst. exact Hx.
Qed.

(** ---- every successful closed step *)
Theorem cstep_proj cs o cs' co : cstep cs o = Ok (cs', co) ->
  match pop_of o (co_e co) with
  | Some po => step (c_px cs) po = Ok (c_px cs', co_x co) /\ x_law (co_x co) = true
  | None => c_px cs' = c_px cs
  end.
Proof.
  destruct o; cbn [cstep pop_of]; intros H.
  - eapply c_add_liq_proj; eauto.
  - eapply c_remove_liq_proj; eauto.
  - eapply c_enter_farm_proj; eauto.
  - eapply c_exit_farm_proj; eauto.
  - eapply c_claim_proj; eauto.
  - eapply c_merge_wlp_proj; eauto.
  - eapply c_merge_wfm_proj; eauto.
  - eapply c_inc_lp_proj; eauto.
  - eapply c_inc_fm_proj; eauto.
  - pose proof (c_plain_proj _ _ _ _ H) as Hs. split; [exact Hs|]. exact (L16.x_law_no_call _ _ _ _ Hs).
  - pose proof (c_plain_proj _ _ _ _ H) as Hs. split; [exact Hs|]. exact (L16.x_law_no_call _ _ _ _ Hs).
  - pose proof (c_plain_proj _ _ _ _ H) as Hs. split; [exact Hs|]. exact (L16.x_law_no_call _ _ _ _ Hs).
  - pose proof (c_plain_proj _ _ _ _ H) as Hs. split; [exact Hs|]. exact (L16.x_law_no_call _ _ _ _ Hs).
  - unfold c_pair_env in H. chk H. mon H r Hr. destruct r as [[pair' po] ef]. inversion H; subst. reflexivity.
  - unfold c_farm_env in H. mon H lf Hlf. chk H. mon H r Hr. destruct r as [[lf' fo] rc]. mon H pair' Hp. mon H en' He.
    cbv zeta in H. destruct (set_farm cs farm lf') as [f0' f1']. inversion H; subst. reflexivity.
  - unfold c_energy_env in H. chk H. mon H r Hr. inversion H; subst. reflexivity.
  - unfold c_time in H. chk H. mon H r Hr. inversion H; subst. reflexivity.
Qed.

(** ---- closed runs are lawful ProxyDex runs *)
(** the ProxyDex operations a closed run performs, with the records of answers the callee models computed *)
Fixpoint pops (cs : cst) (ops : list cop) : list op :=
  match ops with
  | [] => []
  | o :: t =>
      match cstep cs o with
      | Ok (cs', co) =>
          match pop_of o (co_e co) with Some po => po :: pops cs' t | None => pops cs' t end
      | Err _ => pops cs t
      end
  end.

Theorem crun_proj ops : forall cs, c_px (crun cs ops) = run (c_px cs) (pops cs ops) /\ lawful (c_px cs) (pops cs ops) = true.
Proof.
  induction ops as [|o t IH]; intros cs; [split; reflexivity|].
  change (crun cs (o :: t)) with (crun (cstep_total cs o) t). cbn [pops]. unfold cstep_total.
  destruct (cstep cs o) as [[cs' co]|] eqn:E.
  - pose proof (cstep_proj _ _ _ _ E) as P. destruct (IH cs') as [R L].
    destruct (pop_of o (co_e co)) as [po|].
    + destruct P as [Hs Hl]. split.
      * change (run (c_px cs) (po :: pops cs' t)) with (run (step_total (c_px cs) po) (pops cs' t)).
        unfold step_total. rewrite Hs. exact R.
      * cbn [lawful]. rewrite Hs, Hl. exact L.
    + rewrite <- P. split; assumption.
  - apply IH.
Qed.

(** reachable closed states: any closed run from a state whose proxy is freshly deployed *)
Definition creach (cs : cst) : Prop := exists cs0 ops, c_px cs0 = init_state /\ cs = crun cs0 ops.

Theorem creach_reach cs : creach cs -> reach (c_px cs).
Proof.
  intros (cs0 & ops & Hi & ->). destruct (crun_proj ops cs0) as [R L]. rewrite R, Hi in *.
  apply lawful_reach; [constructor | exact L].
Qed.

Theorem creach_backed cs : creach cs -> Backed (c_px cs).
Proof. intros H. apply reach_backed. apply creach_reach. exact H. Qed.

Lemma creach_step cs o : creach cs -> creach (cstep_total cs o).
Proof.
  intros (cs0 & ops & Hi & ->). exists cs0, (ops ++ [o]). split; [exact Hi|].
  unfold crun. rewrite fold_left_app. reflexivity.
Qed.

Lemma creach_ok cs o cs' co : creach cs -> cstep cs o = Ok (cs', co) -> creach cs'.
Proof.
  intros R H. pose proof (creach_step cs o R) as R'. unfold cstep_total in R'. rewrite H in R'. exact R'.
Qed.

(** ================================================================== Part C, foundations: the factory model under a
    view of its ledger extended by a SIGNED list of extra entries [d] (the carried tokens).  Every endpoint of
    Model/Energy.v keeps "entry = sum over (ledger ++ d)" for every account and every [d]: the entry updates are
    linear in the amounts the endpoint itself moves, whatever else is attributed to the account.  (The proofs are those
    of Proofs/EnergyProofs.v, replayed on the view; the model's guards are evaluated on the real ledger.) *)
Module EV.
Import MX.Model.Energy MX.Proofs.EnergyProofs.

Definition view (s : st) (d : ledger) : st := set_bal s (s_bal s ++ d).

Lemma lweight_app l1 l2 h : lweight (l1 ++ l2) h = lweight l1 h + lweight l2 h.
Proof. induction l1 as [|[[h' e] a] t IH]; simpl; [reflexivity | rewrite IH; lia]. Qed.
Lemma ltotal_app l1 l2 h : ltotal (l1 ++ l2) h = ltotal l1 h + ltotal l2 h.
Proof. induction l1 as [|[[h' e] a] t IH]; simpl; [reflexivity | rewrite IH; lia]. Qed.
Lemma lget_app l1 l2 h e : lget (l1 ++ l2) h e = lget l1 h e + lget l2 h e.
Proof. induction l1 as [|[[h' e'] a] t IH]; simpl; [reflexivity | rewrite IH; lia]. Qed.
Lemma lsum_e_app l1 l2 e : lsum_e (l1 ++ l2) e = lsum_e l1 e + lsum_e l2 e.
Proof. induction l1 as [|[[h' e'] a] t IH]; simpl; [reflexivity | rewrite IH; lia]. Qed.

Definition VInv (d : ledger) (s : st) : Prop := EnergyInv (view s d).

Lemma entry_fresh_v d s u : VInv d s -> 0 < u ->
  fresh (entry_now s u) (lweight (s_bal s) u + lweight d u) (ltotal (s_bal s) u + ltotal d u) (s_now s).
Proof.
  intros I Hu. pose proof (entry_fresh (view s d) u I Hu) as F. unfold view in F. cbn [s_bal set_bal s_now] in F.
  rewrite lweight_app, ltotal_app in F. exact F.
Qed.

Lemma inv_update_v d d' s s' u en' :
  VInv d s -> 0 < u ->
  s_cfg s' = s_cfg s -> s_now s' = s_now s -> s_en s' = eset (s_en s) u en' ->
  (forall v, 0 < v -> v <> u ->
     lweight (s_bal s') v + lweight d' v = lweight (s_bal s) v + lweight d v /\
     ltotal (s_bal s') v + ltotal d' v = ltotal (s_bal s) v + ltotal d v) ->
  fresh en' (lweight (s_bal s') u + lweight d' u) (ltotal (s_bal s') u + ltotal d' u) (s_now s) ->
  Forall (fun p => 0 < ub_locked (snd p)) (s_unb s') ->
  Forall (fun x => all_pos (xf_funds x) = true) (s_xf s') ->
  VInv d' s'.
Proof.
  intros I Hu Hc Hn He Hfr Hf Hub Hxf. unfold VInv.
  apply (inv_update (view s d) (view s' d') u en'); auto; unfold view; cbn [s_bal set_bal s_now s_cfg s_en s_unb s_xf].
  - intros v Hv Hne. rewrite !lweight_app, !ltotal_app. apply Hfr; assumption.
  - rewrite lweight_app, ltotal_app. exact Hf.
Qed.

Lemma inv_frame_v d d' s s' :
  VInv d s ->
  s_cfg s' = s_cfg s -> s_now s <= s_now s' -> s_en s' = s_en s ->
  (forall v, 0 < v ->
     lweight (s_bal s') v + lweight d' v = lweight (s_bal s) v + lweight d v /\
     ltotal (s_bal s') v + ltotal d' v = ltotal (s_bal s) v + ltotal d v) ->
  Forall (fun p => 0 < ub_locked (snd p)) (s_unb s') ->
  Forall (fun x => all_pos (xf_funds x) = true) (s_xf s') ->
  VInv d' s'.
Proof.
  intros I Hc Hn He Hfr Hub Hxf. unfold VInv.
  apply (inv_frame (view s d) (view s' d')); auto; unfold view; cbn [s_bal set_bal s_now s_cfg s_en s_unb s_xf]; auto.
  intros v Hv. rewrite !lweight_app, !ltotal_app. apply Hfr; assumption.
Qed.

Lemma v_unb d s : VInv d s -> Forall (fun p => 0 < ub_locked (snd p)) (s_unb s).
Proof. intros I. exact (inv_unb _ I). Qed.
Lemma v_xf d s : VInv d s -> Forall (fun x => all_pos (xf_funds x) = true) (s_xf s).
Proof. intros I. exact (inv_xf _ I). Qed.
Lemma v_opts d s : VInv d s -> valid_opts (opts_of s) = true.
Proof. intros I. exact (inv_opts _ I). Qed.

(** close a goal [VInv d s'] after an endpoint rewrote the entry of [u] to the fresh [F] *)
Ltac vupd d s u I F :=
  eapply (inv_update_v d d s _ u); try reflexivity; auto; proj;
    try (apply (v_unb _ _ I)); try (apply (v_xf _ _ I));
    [ let v := fresh "v" in let Hv := fresh "Hv" in let Hne := fresh "Hne" in
      intros v Hv Hne; ledger_facts; at_holder v; lia
    | ledger_facts; at_holder u; try lia; eapply fresh_ext; [exact F | lia | lia] | .. ].

Lemma ep_lock_v d s amt le dest s' o : VInv d s -> 0 < dest -> ep_lock s amt le dest = Ok (s', o) -> VInv d s'.
Proof.
  intros I Hd H. unfold ep_lock in H. inv_ok H. zb.
  rewrite lock_tokens_future by assumption.
  pose proof (entry_fresh_v d s dest I Hd) as F.
  apply (add_lock_fresh _ _ _ _ amt (som (s_now s + le))) in F; [|lia|lia].
  vupd d s dest I F.
Qed.

Lemma ep_extend_v d s u e amt le dest s' o : VInv d s -> 0 < u -> ep_extend s u e amt le dest = Ok (s', o) -> VInv d s'.
Proof.
  intros I Hu H. unfold ep_extend in H. inv_ok H. zb. subst dest.
  rewrite lock_tokens_future by assumption.
  pose proof (entry_fresh_v d s u I Hu) as F.
  eapply change_fresh in F; [| | |eassumption]; [|lia|lia].
  vupd d s u I F.
Qed.

Lemma ep_unlock_v d s c ps s' o : VInv d s -> 0 < c -> ep_unlock s c ps = Ok (s', o) -> VInv d s'.
Proof.
  intros I Hu H. unfold ep_unlock in H. inv_ok H.
  pose proof (entry_fresh_v d s c I Hu) as F.
  eapply unlock_loop_fresh in F; [|eassumption].
  vupd d s c I F.
Qed.

Lemma ep_merge_v d s u ps s' o : VInv d s -> 0 < u -> ep_merge s u ps = Ok (s', o) -> VInv d s'.
Proof.
  intros I Hu H. unfold ep_merge in H.
  apply bind_ok in H. destruct H as (bal1 & Hd & H).
  destruct (forallb (fun p => 0 <? snd p) ps) eqn:Hpos; [|discriminate].
  destruct ps as [|[e0 a0] t]; [discriminate|].
  inv_ok H. clear E0. zb.
  change (forallb (fun p => 0 <? snd p) ((e0, a0) :: t)) with (all_pos ((e0, a0) :: t)) in Hpos.
  unfold all_pos in Hpos. simpl in Hpos. apply andb_true_iff in Hpos. destruct Hpos as [Pa Pt]. zb.
  pose proof (entry_fresh_v d s u I Hu) as F.
  eapply any_fresh in F; [|eassumption].
  destruct (merge_loop_spec _ _ _ _ _ _ _ _ _ _ F E Pa Pt Hb0) as (F2 & Hme & Hma & Hmp).
  destruct (valid_opts_facts _ (v_opts _ _ I)) as (_ & HL & _).
  assert (Hne : s_now s < som_upper (opts_of s) (s_now s) z0).
  { apply som_upper_future; [pose proof month_le_year; lia | exact Hme]. }
  rewrite lock_tokens_future by assumption.
  apply (add_lock_fresh _ _ _ _ z (som_upper (opts_of s) (s_now s) z0)) in F2; [|lia|lia].
  eapply (inv_update_v d d s _ u); try reflexivity; auto; proj;
    try (apply (v_unb _ _ I)); try (apply (v_xf _ _ I)).
  - intros v Hv Hne'. ledger_facts. at_holder v; lia.
  - ledger_facts. at_holder u; try lia. simpl in *. eapply fresh_ext; [exact F2 | lia | lia].
Qed.

Lemma reduce_common_v d s c e amt ole en1 nle lft :
  VInv d s -> 0 < c -> reduce_common s c e amt ole = Ok (en1, nle, lft) ->
  fresh en1 (lweight (s_bal s) c + lweight d c - amt * e) (ltotal (s_bal s) c + ltotal d c - amt) (s_now s) /\
  0 < lft /\ 0 < amt /\ s_now s < e /\
  match ole with
  | Some le => listed (opts_of s) le = true -> 0 < nle /\ s_now s + nle = som (s_now s + le)
  | None => nle = 0
  end.
Proof.
  intros I Hc H. unfold reduce_common in H. inv_ok H. zb.
  split; [eapply early_fresh; [apply entry_fresh_v; auto | lia | eassumption]|].
  split; [lia|]. split; [lia|]. split; [lia|].
  destruct ole as [le|].
  - intros Hl. apply sub_chk_ok in Hb. destruct Hb as [_ ->].
    destruct (valid_opts_facts _ (v_opts _ _ I)) as (_ & _ & HY). specialize (HY _ Hl).
    pose proof (som_bounds (s_now s + le)). pose proof month_le_year. lia.
  - inversion Hb. reflexivity.
Qed.

Lemma ep_unlock_early_v d s c e amt s' o : VInv d s -> 0 < c -> ep_unlock_early s c e amt = Ok (s', o) -> VInv d s'.
Proof.
  intros I Hc H. unfold ep_unlock_early in H.
  apply bind_ok in H. destruct H as (bal0 & Hd & H).
  apply bind_ok in H. destruct H as ([[en1 nle] lft] & Hr & H). inversion H; subst s' o; clear H.
  destruct (reduce_common_v _ _ _ _ _ _ _ _ _ I Hc Hr) as (F & Hl & Ha & He & _).
  eapply (inv_update_v d d s _ c); try reflexivity; auto; proj; try (apply (v_xf _ _ I)).
  - intros v Hv Hne. ledger_facts. at_holder v; lia.
  - ledger_facts. at_holder c; try lia. eapply fresh_ext; [exact F | lia | lia].
  - apply Forall_app. split; [apply (v_unb _ _ I)|]. constructor; [simpl; lia | constructor].
Qed.

Lemma ep_reduce_v d s c e amt le s' o : VInv d s -> 0 < c -> ep_reduce s c e amt le = Ok (s', o) -> VInv d s'.
Proof.
  intros I Hc H. unfold ep_reduce in H.
  destruct (listed (opts_of s) le) eqn:Hl; [|discriminate].
  apply bind_ok in H. destruct H as (bal0 & Hd & H).
  apply bind_ok in H. destruct H as ([[en1 nle] lft] & Hr & H). inversion H; subst s' o; clear H.
  destruct (reduce_common_v _ _ _ _ _ _ _ _ _ I Hc Hr) as (F & Hlf & Ha & He & Hn).
  destruct (Hn Hl) as [Hn1 Hn2].
  rewrite lock_tokens_future by lia.
  apply (add_lock_fresh _ _ _ _ lft (s_now s + nle)) in F; [|lia|lia].
  vupd d s c I F.
Qed.

Lemma ep_claim_v d s c s' o : VInv d s -> ep_claim s c = Ok (s', o) -> VInv d s'.
Proof.
  intros I H. unfold ep_claim in H.
  pose proof (claim_scan_kept _ (s_unb s) c (s_now s) (Z.to_nat MAX_CLAIM_UNLOCKED_TOKENS) false (v_unb _ _ I)) as K.
  destruct (claim_scan (s_unb s) c (s_now s) (Z.to_nat MAX_CLAIM_UNLOCKED_TOKENS) false) as [kept got].
  inv_ok H. simpl in K.
  eapply (inv_frame_v d d s); try reflexivity; auto; proj; try lia; try (apply (v_xf _ _ I)); auto.
  intros v Hv. ledger_facts. at_holder v; lia.
Qed.

Lemma queue_pos_v d s c : VInv d s -> Forall (fun ub => 0 < ub_locked ub) (queue_of (s_unb s) c).
Proof. intros I. exact (queue_pos (view s d) c I). Qed.

Lemma ep_cancel_unbond_v d s c s' o : VInv d s -> 0 < c -> ep_cancel_unbond s c = Ok (s', o) -> VInv d s'.
Proof.
  intros I Hc H. unfold ep_cancel_unbond in H. inv_ok H.
  pose proof (entry_fresh_v d s c I Hc) as F.
  eapply cancel_loop_fresh in F; [| apply (queue_pos_v d); exact I | eassumption].
  change (map (fun ub => (ub_e ub, ub_locked ub)) (queue_of (s_unb s) c)) with (map ub_pay (queue_of (s_unb s) c)) in *.
  eapply (inv_update_v d d s _ c); try reflexivity; auto; proj; try (apply (v_xf _ _ I)).
  - intros v Hv Hne. ledger_facts. at_holder v; lia.
  - ledger_facts. at_holder c; try lia. eapply fresh_ext; [exact F | lia | lia].
  - apply Forall_filter_keep. apply (v_unb _ _ I).
Qed.

Lemma find_xf_pos_v d s r sd x : VInv d s -> find_xf (s_xf s) r sd = Some x -> all_pos (xf_funds x) = true.
Proof. intros I H. exact (find_xf_pos (view s d) r sd x I H). Qed.

Lemma ep_lock_funds_v d s sender receiver ps s' o :
  VInv d s -> 0 < sender -> ep_lock_funds s sender receiver ps = Ok (s', o) -> VInv d s'.
Proof.
  intros I Hc H. unfold ep_lock_funds in H.
  apply bind_ok in H. destruct H as (bal1 & Hd & H).
  destruct (forallb (fun p => 0 <? snd p) ps) eqn:Hpos; [|discriminate].
  inv_ok H.
  pose proof (entry_fresh_v d s sender I Hc) as F.
  eapply deduct_loop_fresh in F; [|eassumption].
  eapply (inv_update_v d d s _ sender); try reflexivity; auto; proj; try (apply (v_unb _ _ I)).
  - intros v Hv Hne. ledger_facts. at_holder v; lia.
  - ledger_facts. at_holder sender; try lia. eapply fresh_ext; [exact F | lia | lia].
  - apply Forall_app. split; [apply (v_xf _ _ I)|]. constructor; [exact Hpos | constructor].
Qed.

Lemma ep_withdraw_v d s receiver sender s' o :
  VInv d s -> 0 < receiver -> ep_withdraw s receiver sender = Ok (s', o) -> VInv d s'.
Proof.
  intros I Hc H. unfold ep_withdraw in H.
  destruct (negb (on_cooldown s (aget (s_rlast s) receiver))); [|discriminate].
  destruct (find_xf (s_xf s) receiver sender) as [x|] eqn:Hf; [|discriminate].
  pose proof (find_xf_pos_v _ _ _ _ _ I Hf) as Hpos.
  inv_ok H.
  pose proof (entry_fresh_v d s receiver I Hc) as F.
  eapply add_dest_loop_fresh in F; [| exact Hpos | eassumption].
  eapply (inv_update_v d d s _ receiver); try reflexivity; auto; proj; try (apply (v_unb _ _ I)).
  - intros v Hv Hne. ledger_facts. at_holder v; lia.
  - ledger_facts. at_holder receiver; try lia. eapply fresh_ext; [exact F | lia | lia].
  - apply Forall_filter_keep. apply (v_xf _ _ I).
Qed.

Lemma ep_cancel_transfer_v d s c sender receiver s' o :
  VInv d s -> 0 < sender -> ep_cancel_transfer s c sender receiver = Ok (s', o) -> VInv d s'.
Proof.
  intros I Hc H. unfold ep_cancel_transfer in H.
  destruct (c =? ADMIN); [|discriminate].
  destruct (find_xf (s_xf s) receiver sender) as [x|] eqn:Hf; [|discriminate].
  pose proof (find_xf_pos_v _ _ _ _ _ I Hf) as Hpos.
  inv_ok H.
  pose proof (entry_fresh_v d s sender I Hc) as F.
  eapply add_dest_loop_fresh in F; [| exact Hpos | eassumption].
  eapply (inv_update_v d d s _ sender); try reflexivity; auto; proj; try (apply (v_unb _ _ I)).
  - intros v Hv Hne. ledger_facts. at_holder v; lia.
  - ledger_facts. at_holder sender; try lia. eapply fresh_ext; [exact F | lia | lia].
  - apply Forall_filter_keep. apply (v_xf _ _ I).
Qed.

Lemma ep_wrap_v d s c e amt s' o : VInv d s -> 0 < c -> ep_wrap s c e amt = Ok (s', o) -> VInv d s'.
Proof.
  intros I Hc H. unfold ep_wrap in H.
  apply bind_ok in H. destruct H as (bal0 & Hd & H).
  destruct (0 <? amt) eqn:Ha; [|discriminate].
  apply bind_ok in H. destruct H as (en1 & Hl & H). inversion H; subst s' o; clear H.
  pose proof (entry_fresh_v d s c I Hc) as F.
  eapply deduct_loop_fresh in F; [|eassumption]. simpl in F.
  vupd d s c I F.
Qed.

Lemma ep_unwrap_v d s c e amt s' o : VInv d s -> 0 < c -> ep_unwrap s c e amt = Ok (s', o) -> VInv d s'.
Proof.
  intros I Hc H. unfold ep_unwrap in H.
  apply bind_ok in H. destruct H as (w1 & Hw & H). clear Hw.
  destruct (0 <? amt) eqn:Ha; [|discriminate].
  apply bind_ok in H. destruct H as (en1 & Hl & H).
  apply bind_ok in H. destruct H as (bal0 & Hd & H). inversion H; subst s' o; clear H.
  pose proof (entry_fresh_v d s c I Hc) as F.
  eapply add_dest_loop_fresh in F; [| | eassumption]; [|unfold all_pos; simpl; rewrite Ha; reflexivity].
  simpl in F.
  vupd d s c I F.
Qed.

Lemma ep_wtransfer_v d s a b e amt s' o : VInv d s -> ep_wtransfer s a b e amt = Ok (s', o) -> VInv d s'.
Proof.
  intros I H. unfold ep_wtransfer in H. inv_ok H.
  eapply (inv_frame_v d d s); try reflexivity; auto; proj; try lia;
    try (apply (v_unb _ _ I)); try (apply (v_xf _ _ I)); auto.
Qed.

Lemma ep_advance_v d s dd s' o : VInv d s -> ep_advance s dd = Ok (s', o) -> VInv d s'.
Proof.
  intros I H. unfold ep_advance in H. inv_ok H. zb.
  eapply (inv_frame_v d d s); try reflexivity; auto; proj; try lia;
    try (apply (v_unb _ _ I)); try (apply (v_xf _ _ I)); auto.
Qed.

(** every operation of the factory model keeps the view invariant, for every extension [d] *)
Theorem step_v d s op s' o : VInv d s -> step s op = Ok (s', o) -> VInv d s'.
Proof.
  intros I H. unfold step in H.
  destruct (accounts_ok op) eqn:Ha; [|discriminate].
  destruct op; simpl in Ha; unfold is_user in Ha; zb.
  - eapply ep_lock_v; [exact I | | exact H]; assumption.
  - eapply ep_lock_v; [exact I | | exact H]; assumption.
  - eapply ep_extend_v; [exact I | | exact H]; assumption.
  - eapply ep_extend_v; [exact I | | exact H]; assumption.
  - eapply ep_merge_v; [exact I | | exact H]; assumption.
  - eapply ep_merge_v; [exact I | | exact H]; assumption.
  - eapply ep_reduce_v; [exact I | | exact H]; assumption.
  - eapply ep_unlock_v; [exact I | | exact H]; assumption.
  - eapply ep_unlock_early_v; [exact I | | exact H]; assumption.
  - eapply ep_claim_v; [exact I | exact H].
  - eapply ep_cancel_unbond_v; [exact I | | exact H]; assumption.
  - eapply ep_lock_funds_v; [exact I | | exact H]; assumption.
  - eapply ep_withdraw_v; [exact I | | exact H]; assumption.
  - eapply ep_cancel_transfer_v; [exact I | | exact H]; assumption.
  - eapply ep_wrap_v; [exact I | | exact H]; assumption.
  - eapply ep_unwrap_v; [exact I | | exact H]; assumption.
  - eapply ep_wtransfer_v; [exact I | exact H].
  - discriminate.
  - eapply ep_advance_v; [exact I | exact H].
Qed.
End EV.

(** the factory model never touches the ledger row of an account that is neither a user nor one of its three escrows
    (the proxy's row [H_PX] in particular), nor any row at all except through the accounts the operation names *)
Module EV2.
Import MX.Model.Energy MX.Proofs.EnergyProofs.

Lemma step_row s op s' o h : step s op = Ok (s', o) -> h < -2 -> forall e, lget (s_bal s') h e = lget (s_bal s) h e.
Proof.
  intros H Hh e. unfold step in H. destruct (accounts_ok op) eqn:Ha; [|discriminate].
  destruct op; simpl in Ha; unfold is_user in Ha; zb; try discriminate.
  - unfold ep_lock in H. inv_ok H. proj. lock_facts; lpt_facts; at_point h e; lia.
  - unfold ep_lock in H. inv_ok H. proj. lock_facts; lpt_facts; at_point h e; lia.
  - unfold ep_extend in H. inv_ok H. proj. lock_facts; lpt_facts; at_point h e; lia.
  - unfold ep_extend in H. inv_ok H. proj. lock_facts; lpt_facts; at_point h e; lia.
  - unfold ep_merge in H. destruct ps as [|[e0 a0] t]; inv_ok H; proj; lock_facts; lpt_facts; at_point h e; lia.
  - unfold ep_merge in H. destruct ps as [|[e0 a0] t]; inv_ok H; proj; lock_facts; lpt_facts; at_point h e; lia.
  - unfold ep_reduce in H. inv_ok H. proj. lock_facts; lpt_facts; at_point h e; lia.
  - unfold ep_unlock in H. inv_ok H. proj. lock_facts; lpt_facts; at_point h e; lia.
  - unfold ep_unlock_early in H. inv_ok H. proj. lock_facts; lpt_facts; at_point h e; lia.
  - unfold ep_claim in H. inv_ok H. proj. lock_facts; lpt_facts; at_point h e; lia.
  - unfold ep_cancel_unbond in H. inv_ok H. proj. lock_facts; lpt_facts; at_point h e; lia.
  - unfold ep_lock_funds in H. inv_ok H. proj. lock_facts; lpt_facts; at_point h e; lia.
  - unfold ep_withdraw in H. inv_ok H. proj. lock_facts; lpt_facts; at_point h e; lia.
  - unfold ep_cancel_transfer in H. inv_ok H. proj. lock_facts; lpt_facts; at_point h e; lia.
  - unfold ep_wrap in H. inv_ok H. proj. lock_facts; lpt_facts; at_point h e; lia.
  - unfold ep_unwrap in H. inv_ok H. proj. lock_facts; lpt_facts; at_point h e; lia.
  - unfold ep_wtransfer in H. inv_ok H. reflexivity.
  - unfold ep_advance in H. inv_ok H. reflexivity.
Qed.
End EV2.

(** ================================================================== Part C: custody of locked tokens *)
(** the invariant of the factory state together with the carried ledger:
      every account's entry = sum over (the tokens it holds ++ the tokens carried for it)      [EV.VInv]
      per unlock epoch, the carried amounts of all accounts add up to what the proxy holds
      only user accounts carry *)
Definition CInv (c : cus) : Prop :=
  EV.VInv (snd c) (fst c) /\
  (forall e, ENP.lsum_e (snd c) e = EN.lget (EN.s_bal (fst c)) H_PX e) /\
  Forall (fun x : Z * Z * Z => 0 < fst (fst x)) (snd c).

(** between two states: same epoch, same configuration, and only [u]'s stored entry may differ *)
Definition ent_frame (u : Z) (s s' : EN.st) : Prop :=
  EN.s_now s' = EN.s_now s /\ EN.s_cfg s' = EN.s_cfg s /\ forall v, v <> u -> EN.eget (EN.s_en s') v = EN.eget (EN.s_en s) v.

Definition CT (u : Z) (c c' : cus) : Prop := (CInv c -> CInv c') /\ ent_frame u (fst c) (fst c').

Lemma CT_refl u c : CT u c c.
Proof. split; [auto | repeat split; auto]. Qed.

Lemma CT_trans u c1 c2 c3 : CT u c1 c2 -> CT u c2 c3 -> CT u c1 c3.
Proof.
  intros [A (N1 & C1 & E1)] [B (N2 & C2 & E2)]. split; [auto|]. repeat split; try congruence.
  intros v Hv. rewrite E2, E1; auto.
Qed.

Module CU.
Import MX.Model.Energy MX.Proofs.EnergyProofs.

Lemma lsum_credit l h e a e0 : lsum_e (credit l h e a) e0 = lsum_e l e0 + (if e =? e0 then a else 0).
Proof. simpl. lia. Qed.

Lemma to_px_ct c u e a c' : to_px c u e a = Ok c' -> 0 < u -> CT u c c'.
Proof.
  unfold to_px. destruct c as [s car]. intros H Hu. inv_ok H. split; [|repeat split; reflexivity].
  intros (V & S & P). cbn [fst snd] in *. split; [|split].
  - eapply (EV.inv_frame_v car _ s); try reflexivity; auto; proj; try lia; try (apply (EV.v_unb _ _ V)); try (apply (EV.v_xf _ _ V)).
    intros v Hv. unfold H_PX. cbn [fst snd]. proj. ledger_facts. at_holder v; lia.
  - intros e0. cbn [fst snd]. rewrite lsum_credit, S. proj. lpt_facts. unfold H_PX in *. at_point (-3) e0; lia.
  - constructor; [exact Hu | exact P].
Qed.

Lemma from_px_ct c u e a c' : from_px c u e a = Ok c' -> 0 < u -> CT u c c'.
Proof.
  unfold from_px. destruct c as [s car]. intros H Hu. inv_ok H. split; [|repeat split; reflexivity].
  intros (V & S & P). cbn [fst snd] in *. split; [|split].
  - eapply (EV.inv_frame_v car _ s); try reflexivity; auto; proj; try lia; try (apply (EV.v_unb _ _ V)); try (apply (EV.v_xf _ _ V)).
    intros v Hv. unfold H_PX in *. cbn [fst snd]. proj. ledger_facts. at_holder v; lia.
  - intros e0. cbn [fst snd]. rewrite lsum_credit, S. proj. lpt_facts. unfold H_PX in *. at_point (-3) e0; lia.
  - constructor; [exact Hu | exact P].
Qed.

Lemma to_px_all_ct ps : forall c u c', to_px_all c u ps = Ok c' -> 0 < u -> CT u c c'.
Proof.
  induction ps as [|[e a] t IH]; intros c u c' H Hu; simpl in H.
  - inversion H; subst. apply CT_refl.
  - apply bind_ok in H. destruct H as (c1 & H1 & H). eapply CT_trans; [eapply to_px_ct; eauto | eapply IH; eauto].
Qed.

Lemma from_px_all_ct ps : forall c u c', from_px_all c u ps = Ok c' -> 0 < u -> CT u c c'.
Proof.
  induction ps as [|[e a] t IH]; intros c u c' H Hu; simpl in H.
  - inversion H; subst. apply CT_refl.
  - apply bind_ok in H. destruct H as (c1 & H1 & H). eapply CT_trans; [eapply from_px_ct; eauto | eapply IH; eauto].
Qed.

(** a step of the factory model keeps the invariant, whatever is carried *)
Lemma en_step_cinv s car op s' o : step s op = Ok (s', o) -> CInv (s, car) -> CInv (s', car).
Proof.
  intros H (V & S & P). cbn [fst snd] in *. split; [|split]; cbn [fst snd].
  - eapply EV.step_v; eauto.
  - intros e. rewrite S. symmetry. apply (EV2.step_row _ _ _ _ _ H). unfold H_PX. lia.
  - exact P.
Qed.

(** the three factory endpoints the proxy's paths reach write the entry of the named account only *)
Lemma ep_lock_frame s amt le u s' o : ep_lock s amt le u = Ok (s', o) -> ent_frame u s s'.
Proof.
  unfold ep_lock. intros H. inv_ok H. repeat split. intros v Hv. proj. apply eget_eset_other. congruence.
Qed.

Lemma ep_extend_frame s u e amt le s' o : ep_extend s u e amt le u = Ok (s', o) -> ent_frame u s s'.
Proof.
  unfold ep_extend. intros H. inv_ok H. repeat split. intros v Hv. proj. apply eget_eset_other. congruence.
Qed.

Lemma ep_merge_frame s u ps s' o : ep_merge s u ps = Ok (s', o) -> ent_frame u s s'.
Proof.
  unfold ep_merge. intros H. destruct ps as [|[e0 a0] t]; inv_ok H. repeat split. intros v Hv. proj. apply eget_eset_other. congruence.
Qed.
End CU.

Lemma px_merge_ct c u fps c' o : px_merge c u fps = Ok (c', o) -> CT u c c'.
Proof.
  unfold px_merge. intros H. mon H c1 H1. mon H r Hr. destruct r as [s2 o2].
  destruct (step_merge_via _ _ _ _ _ Hr) as [Hu Hm].
  destruct o2 as [|ne [|ma [|z t]]]; try discriminate. mon H c3 H3. inversion H; subst c' o; clear H.
  eapply CT_trans; [eapply CU.from_px_all_ct; eauto|]. destruct c1 as [s1 car1]. cbn [fst snd] in *.
  eapply CT_trans; [|eapply CU.to_px_ct; eauto].
  split; [intros I; eapply CU.en_step_cinv; eauto | cbn [fst]; eapply CU.ep_merge_frame; eauto].
Qed.

Lemma px_extend_ct c u e amt le c' o : px_extend c u e amt le = Ok (c', o) -> CT u c c'.
Proof.
  unfold px_extend. intros H. mon H c1 H1. mon H r Hr. destruct r as [s2 o2].
  destruct (step_extend_via _ _ _ _ _ _ _ Hr) as [Hu Hm].
  destruct o2 as [|ne [|ma [|z t]]]; try discriminate. mon H c3 H3. inversion H; subst c' o; clear H.
  eapply CT_trans; [eapply CU.from_px_ct; eauto|]. destruct c1 as [s1 car1]. cbn [fst snd] in *.
  eapply CT_trans; [|eapply CU.to_px_ct; eauto].
  split; [intros I; eapply CU.en_step_cinv; eauto | cbn [fst]; eapply CU.ep_extend_frame; eauto].
Qed.

(** the receipts of a farm call made for [u] name [u] *)
Definition rc_for (u : Z) (rc : list FL.receipt) : Prop := Forall (fun r : FL.receipt => fst r = u) rc.

Lemma lock_receipts_ct rc : forall s car lock u s', lock_receipts s lock rc = Ok s' -> rc_for u rc -> CT u (s, car) (s', car).
Proof.
  induction rc as [|[c [r ue]] t IH]; intros s car lock u s' H R; simpl in H.
  - inversion H; subst. apply CT_refl.
  - inversion R as [|? ? Rc Rt]; subst. cbn [fst] in *. mon H q Hq. destruct q as [s1 o].
    destruct o as [|ue' [|r' [|z t']]]; try discriminate. chk H.
    destruct (step_lock_virtual _ _ _ _ _ _ Hq) as [Hu Hl].
    eapply CT_trans; [|eapply IH; eauto].
    split; [intros I; eapply CU.en_step_cinv; eauto | cbn [fst]; eapply CU.ep_lock_frame; eauto].
Qed.

Lemma lock_receipts_user rc : forall s lock s', lock_receipts s lock rc = Ok s' -> Forall (fun r : FL.receipt => 0 < fst r) rc.
Proof.
  induction rc as [|[c [r ue]] t IH]; intros s lock s' H; simpl in H; [constructor|].
  mon H q Hq. destruct q as [s1 o]. destruct o as [|ue' [|r' [|z t']]]; try discriminate. chk H.
  destruct (step_lock_virtual _ _ _ _ _ _ Hq) as [Hu _]. constructor; [exact Hu | eapply IH; eauto].
Qed.

Lemma rc_px_ct c lock u rc c' : rc_px c lock u rc = Ok c' -> rc_for u rc -> 0 < u -> CT u c c'.
Proof.
  unfold rc_px. destruct c as [s car]. cbn [fst snd]. intros H R Hu. mon H s1 H1.
  eapply CT_trans; [eapply lock_receipts_ct; eauto | eapply CU.to_px_all_ct; eauto].
Qed.

(** ---- what the proxy burns and which entry it writes, per endpoint (Model/ProxyDex.v) *)
Definition burn_ok (s : state) (o : op) (x : eff) : Prop :=
  match o with
  | RemoveLiq _ _ p e =>
      burn_energy e (snd (x_lburn x)) = Ok (x_energy x) /\ (snd (x_lburn x) <> 0 -> fst (x_lburn x) = wlp_k s (p_non p))
  | ExitFarm _ _ p e =>
      burn_energy e (snd (x_lburn x)) = Ok (x_energy x) /\ (snd (x_lburn x) <> 0 -> fst (x_lburn x) = wfm_k s (p_non p))
  | _ => x_lburn x = (0, 0) /\ x_energy x = None
  end.

Lemma merge_wfm_noburn s u farm ps e s' x : ep_merge_wfm s u farm ps e = Ok (s', x) -> x_lburn x = (0, 0) /\ x_energy x = None.
Proof.
  unfold ep_merge_wfm. intros H. chk H. chk H. mon H r Hr. destruct r as [s1 its].
  mon H r2 Hr2. destruct r2 as [s2 [[m amt] law]]. destruct (v_rew e) as [rk ra]. inversion H; subst. split; reflexivity.
Qed.

Lemma step_burn s o s' x : step s o = Ok (s', x) -> Backed s -> burn_ok s o x.
Proof.
  intros H Hb. destruct o; cbn [step burn_ok] in *.
  - destruct (add_liq_mint_any _ _ _ _ _ _ _ _ _ H) as (_ & _ & _ & _ & A & B). auto.
  - destruct (remove_liq_char _ _ _ _ _ _ _ H Hb) as (w & lp & Hw & _ & R). cbv zeta in R.
    destruct R as (_ & _ & _ & El & _ & Hen). rewrite El. unfold wlp_k. rewrite Hw.
    destruct (lp <? snd (fst (v_pair e))) eqn:E; cbn [fst snd].
    + apply Z.ltb_lt in E. rewrite Z.max_l in Hen by lia. split; [exact Hen | intros C; contradiction].
    + split; [exact Hen | reflexivity].
  - destruct (enter_farm_mint_any _ _ _ _ _ _ _ _ H) as (_ & _ & A & B & _). auto.
  - destruct (exit_farm_char _ _ _ _ _ _ _ H Hb) as (w & Hw & _ & _ & R). cbv zeta in R.
    destruct R as (_ & _ & _ & _ & _ & K0 & K1 & K2). unfold wfm_k. rewrite Hw.
    destruct (wf_kind w =? 0) eqn:Ek.
    + apply Z.eqb_eq in Ek. destruct (K0 Ek) as (E1 & E2 & E3). rewrite E1. split; [exact E3 | exact E2].
    + apply Z.eqb_neq in Ek. destruct (Z.eq_dec (p_amt p - snd (v_farm e)) 0) as [Ez|Ez].
      * destruct (K1 Ek Ez) as [E1 E2]. rewrite E1, E2. split; [reflexivity | intros C; contradiction].
      * destruct (K2 Ek Ez) as (wl & lold & lnew & Hwl & _ & _ & E1 & _ & E2). rewrite E1. cbn [fst snd].
        split; [exact E2|]. intros _. unfold wlp_k. rewrite Hwl. reflexivity.
  - unfold ep_claim in H. chk H. chk H. mon H r Hr. destruct r as [s1 [w pp]]. chk H. chk H.
    destruct (v_farm e) as [f F]. destruct (v_rew e) as [rk ra]. destruct (mint_wfm _ _ _ _ _ _ _ _) as [s2 m].
    inversion H; subst. split; reflexivity.
  - unfold ep_merge_wlp in H. chk H. mon H r Hr. destruct r as [s1 [ta tl]]. chk H. destruct (v_fact e) as [kf lf].
    destruct (mint_wlp_user _ _ _ _ _) as [s2 n]. inversion H; subst. split; reflexivity.
  - eapply merge_wfm_noburn; eauto.
  - unfold ep_inc_lp in H. chk H. mon H r Hr. destruct r as [s1 [k lp]]. chk H. destruct (v_fact e) as [kf lf].
    destruct (mint_wlp_user _ _ _ _ _) as [s2 n]. inversion H; subst. split; reflexivity.
  - unfold ep_inc_fm in H. chk H. mon H r Hr. destruct r as [s1 [w pp]]. destruct (v_fact e) as [kf lf].
    destruct (wf_kind w =? 0).
    + chk H. destruct (mint_wfm _ _ _ _ _ _ _ _) as [s2 m]. inversion H; subst. split; reflexivity.
    + mon H r2 Hr2. destruct r2 as [s2 [k lq]]. chk H. destruct (mint_wlp _ _ _ _) as [s3 n].
      destruct (mint_wfm _ _ _ _ _ _ _ _) as [s4 m]. inversion H; subst. split; reflexivity.
  - chk H. chk H. inversion H; subst. split; reflexivity.
  - chk H. chk H. chk H. inversion H; subst. split; reflexivity.
  - unfold ep_xfer_wlp in H. chk H. mon H h Hh. inversion H; subst. split; reflexivity.
  - unfold ep_xfer_wfm in H. chk H. mon H h Hh. inversion H; subst. split; reflexivity.
Qed.

(** burn_locked_tokens_and_update_energy on the factory model: the entry written is fresh for what is left *)
Module CB.
Import MX.Model.Energy MX.Proofs.EnergyProofs.

Lemma burn_ledger bal car u k amt l1 : debit bal H_PX k amt = Ok l1 -> 0 < u ->
  (forall v, 0 < v ->
     lweight l1 v + lweight (credit car u k (- amt)) v = lweight bal v + lweight car v - (if u =? v then amt * k else 0) /\
     ltotal l1 v + ltotal (credit car u k (- amt)) v = ltotal bal v + ltotal car v - (if u =? v then amt else 0)) /\
  (forall e0, lsum_e (credit car u k (- amt)) e0 = lsum_e car e0 - (if k =? e0 then amt else 0) /\
              lget l1 H_PX e0 = lget bal H_PX e0 - (if k =? e0 then amt else 0)).
Proof.
  intros Hd Hu. split.
  - intros v Hv. unfold H_PX in *. ledger_facts. at_holder v; lia.
  - intros e0. split; [rewrite CU.lsum_credit; destruct (k =? e0); lia|]. lpt_facts. unfold H_PX in *. at_point (-3) e0; lia.
Qed.
End CB.

Lemma px_burn_ct c u x e c' : px_burn c u x = Ok c' -> 0 < u ->
  burn_energy e (snd (x_lburn x)) = Ok (x_energy x) ->
  (snd (x_lburn x) <> 0 -> fst (x_lburn x) = v_unlock e) ->
  v_energy e = L16.pe_of (EN.view_entry (fst c) u) -> v_now e = EN.s_now (fst c) ->
  CT u c c'.
Proof.
  unfold px_burn. destruct c as [s car]. destruct (x_lburn x) as [k amt] eqn:El. cbn [fst snd].
  intros H Hu Hbe Hk Hen Hnow. mon H l1 Hd. inversion H; subst c'; clear H.
  destruct (CB.burn_ledger _ car _ _ _ _ Hd Hu) as [LW LS].
  destruct (L16.burn_energy_is_factory_update s u e amt _ Hen Hnow Hbe) as [(Hz & Hn)|(Hnz & en' & Hs & Hup)].
  - (* nothing burned *) rewrite Hn. split.
    + intros (V & S & P). cbn [fst snd] in *. split; [|split]; cbn [fst snd].
      * eapply (EV.inv_frame_v car _ s); try reflexivity; auto; try lia;
          try (apply (EV.v_unb _ _ V)); try (apply (EV.v_xf _ _ V)).
        intros v Hv. cbn [EN.s_bal EN.set_bal]. destruct (LW v Hv) as [A B]. rewrite A, B. subst amt. destruct (u =? v); lia.
      * intros e0. destruct (LS e0) as [A B]. cbn [EN.s_bal EN.set_bal]. rewrite A, B, S. reflexivity.
      * constructor; [exact Hu | exact P].
    + repeat split; reflexivity.
  - (* the entry of [u] is rewritten *) rewrite Hs. specialize (Hk Hnz). split.
    + intros (V & S & P). cbn [fst snd] in *. split; [|split]; cbn [fst snd].
      * pose proof (EV.entry_fresh_v car s u V Hu) as F.
        eapply ENP.any_fresh in F; [|exact Hup].
        eapply (EV.inv_update_v car _ s _ u); try reflexivity; auto;
          try (apply (EV.v_unb _ _ V)); try (apply (EV.v_xf _ _ V)).
        -- intros v Hv Hne. cbn [EN.s_bal EN.set_bal EN.put_entry EN.set_en]. destruct (LW v Hv) as [A B]. rewrite A, B.
           assert (E : u =? v = false) by (apply Z.eqb_neq; congruence). rewrite E. lia.
        -- cbn [EN.s_bal EN.set_bal EN.put_entry EN.set_en]. destruct (LW u Hu) as [A B]. rewrite A, B, Z.eqb_refl.
           eapply ENP.fresh_ext; [exact F | rewrite Hk; lia | lia].
      * intros e0. destruct (LS e0) as [A B]. cbn [EN.s_bal EN.set_bal EN.put_entry EN.set_en]. rewrite A, B, S. reflexivity.
      * constructor; [exact Hu | exact P].
    + repeat split; try reflexivity. intros v Hv. cbn [EN.s_en EN.put_entry EN.set_en EN.set_bal]. apply ENP.eget_eset_other. congruence.
Qed.

Lemma from_px_all_en ps : forall c u c1, from_px_all c u ps = Ok c1 ->
  EN.s_en (fst c1) = EN.s_en (fst c) /\ EN.s_now (fst c1) = EN.s_now (fst c).
Proof.
  induction ps as [|[e0 a0] t IH]; intros c u c1 H; simpl in H.
  - inversion H; subst. auto.
  - mon H c2 H2. destruct (IH _ _ _ H) as [A B]. rewrite A, B. unfold from_px in H2. destruct c as [s car].
    mon H2 l1 Hd. inversion H2; subst. auto.
Qed.

Lemma to_px_all_en ps : forall c u c1, to_px_all c u ps = Ok c1 ->
  EN.s_en (fst c1) = EN.s_en (fst c) /\ EN.s_now (fst c1) = EN.s_now (fst c).
Proof.
  induction ps as [|[e0 a0] t IH]; intros c u c1 H; simpl in H.
  - inversion H; subst. auto.
  - mon H c2 H2. destruct (IH _ _ _ H) as [A B]. rewrite A, B. unfold to_px in H2. destruct c as [s car].
    mon H2 l1 Hd. inversion H2; subst. auto.
Qed.

Lemma view_entry_same s s' u : EN.s_en s' = EN.s_en s -> EN.s_now s' = EN.s_now s -> EN.view_entry s' u = EN.view_entry s u.
Proof. intros A B. unfold EN.view_entry, EN.entry_now. rewrite A, B. reflexivity. Qed.

Lemma settle_ct c u x e c' : settle c u x = Ok c' -> 0 < u ->
  burn_energy e (snd (x_lburn x)) = Ok (x_energy x) ->
  (snd (x_lburn x) <> 0 -> fst (x_lburn x) = v_unlock e) ->
  v_energy e = L16.pe_of (EN.view_entry (fst c) u) -> v_now e = EN.s_now (fst c) ->
  CT u c c'.
Proof.
  unfold settle. intros H Hu Hbe Hk Hen Hnow. mon H c1 H1.
  eapply CT_trans; [eapply CU.from_px_all_ct; eauto|].
  destruct (from_px_all_en _ _ _ _ H1) as [A B].
  eapply px_burn_ct; eauto.
  - rewrite Hen. f_equal. symmetry. apply view_entry_same; assumption.
  - congruence.
Qed.

Lemma lstep_rc_for ls op ls' o rc : FL.lstep ls (FL.LF op) = Ok (ls', o, rc) -> rc_for (FL.op_caller op) rc.
Proof.
  intros H. destruct (BF.lstep_LF _ _ _ _ _ H) as (_ & _ & _ & ->). unfold BF.receipts_of, rc_for.
  destruct (0 <? _); constructor; [reflexivity | constructor].
Qed.

Lemma via_user_rc_for lf u toks op back lf' o rc : via_user lf u toks op back = Ok (lf', o, rc) -> FL.op_caller op = u -> rc_for u rc.
Proof.
  intros H E. destruct (via_user_inv _ _ _ _ _ _ _ _ H) as (lf1 & lf2 & _ & Hs & _). rewrite <- E. eapply lstep_rc_for; eauto.
Qed.

Lemma answer_remove_fields bf e po e' : L16.answer_of_removeLiquidity bf e po = Some e' ->
  v_now e' = v_now e /\ v_energy e' = v_energy e /\ v_unlock e' = v_unlock e.
Proof.
  unfold L16.answer_of_removeLiquidity. destruct po as [|a [|b [|c t]]]; try discriminate. intros H. inversion H; subst.
  repeat split; reflexivity.
Qed.

Lemma answer_exit_fields e rk fo e' : L16.answer_of_exitFarm e rk fo = Some e' ->
  v_now e' = v_now e /\ v_energy e' = v_energy e /\ v_unlock e' = v_unlock e.
Proof.
  unfold L16.answer_of_exitFarm. destruct fo as [|a [|b [|c t]]]; try discriminate. intros H. inversion H; subst.
  repeat split; reflexivity.
Qed.

(** the cus of a closed state *)
Definition cus_of (cs : cst) : cus := (c_en cs, g_car (c_g cs)).

(** endpoints without burn: [settle] on any record *)
Lemma settle_noburn c u x c' : settle c u x = Ok c' -> 0 < u -> x_lburn x = (0, 0) -> x_energy x = None -> CT u c c'.
Proof.
  intros H Hu El En.
  eapply (settle_ct c u x (env0 (EN.s_now (fst c)) (entry_of (fst c) u) 0)); eauto.
  - rewrite El, En. reflexivity.
  - rewrite El. cbn [snd]. intros C. contradiction.
Qed.

Theorem c_add_liq_ct cs u pid p1 p2 extra m1 m2 cs' co : c_add_liq cs u pid p1 p2 extra m1 m2 = Ok (cs', co) ->
  0 < u -> Backed (c_px cs) -> CT u (cus_of cs) (cus_of cs').
Proof.
  unfold c_add_liq. intros H Hu Hb. chk H. mon H c0 H0. mon H rp Hp. destruct rp as [[pair' po] ef].
  mon H e1 He1. cbv zeta in H. mon H re Hre. destruct re as [c1 e]. mon H rx Hx. destruct rx as [px' x].
  mon H c2 H2. inversion H; subst cs' co; clear H. unfold cus_of. cbn [c_en c_g g_car upd_g].
  destruct c2 as [s2 car2]. cbn [fst snd].
  pose proof (step_burn _ _ _ _ Hx Hb) as [El En]. cbn [burn_ok] in *.
  eapply CT_trans; [eapply CU.to_px_all_ct; eauto|].
  eapply CT_trans; [|eapply settle_noburn; eauto].
  destruct extra as [|q t].
  - inversion Hre; subst. apply CT_refl.
  - mon Hre parts Hparts. mon Hre rm Hrm. destruct rm as [cm fo]. cbn [fst snd] in Hre. mon Hre e2 He2.
    inversion Hre; subst c1 e; clear Hre. eapply px_merge_ct; eauto.
Qed.

Theorem c_remove_liq_ct cs u pid p m1 m2 cs' co : c_remove_liq cs u pid p m1 m2 = Ok (cs', co) ->
  0 < u -> Backed (c_px cs) -> CT u (cus_of cs) (cus_of cs').
Proof.
  unfold c_remove_liq. intros H Hu Hb. mon H rp Hp. destruct rp as [[pair' po] ef]. mon H e He. opt_in He.
  mon H rx Hx. destruct rx as [px' x]. mon H c2 H2. inversion H; subst cs' co; clear H.
  unfold cus_of. cbn [c_en c_g g_car upd_g]. destruct c2 as [s2 car2]. cbn [fst snd].
  pose proof (step_burn _ _ _ _ Hx Hb) as [Hbe Hk]. cbn [burn_ok] in *.
  destruct (answer_remove_fields _ _ _ _ He) as (E1 & E2 & E3). cbn [env0 v_now v_energy v_unlock] in *.
  eapply (settle_ct _ u x e); eauto.
  - rewrite E3. exact Hk.
Qed.

Theorem c_enter_farm_ct cs u farm p extra b cs' co : c_enter_farm cs u farm p extra b = Ok (cs', co) ->
  0 < u -> Backed (c_px cs) -> CT u (cus_of cs) (cus_of cs').
Proof.
  unfold c_enter_farm. intros H Hu Hb. cbv zeta in H. mon H lf Hlf. mon H r0 Hr0. destruct r0 as [[s1 kind] minted].
  mon H c0 H0. mon H rf Hrf. destruct rf as [[lf1 fo] rc]. mon H pair1 Hpair. mon H c1 H1.
  mon H re Hre. destruct re as [[lf' c3] e]. mon H rx Hx. destruct rx as [px' x]. mon H c4 H4.
  destruct (set_farm cs farm lf') as [f0' f1']. inversion H; subst cs' co; clear H.
  unfold cus_of. cbn [c_en c_g g_car upd_g]. destruct c4 as [s4 car4]. cbn [fst snd].
  pose proof (step_burn _ _ _ _ Hx Hb) as [El En]. cbn [burn_ok] in *.
  eapply CT_trans; [eapply CU.to_px_all_ct; eauto|].
  eapply CT_trans; [eapply rc_px_ct; eauto; eapply via_user_rc_for; eauto; reflexivity|].
  eapply CT_trans; [|eapply settle_noburn; eauto].
  destruct extra as [|q t].
  - mon Hre e' He. inversion Hre; subst. apply CT_refl.
  - mon Hre rt Hrt. destruct rt as [s2 its]. mon Hre fps Hfps. mon Hre toks Htoks. mon Hre rm Hrm. destruct rm as [cm mo].
    mon Hre rg Hrg. destruct rg as [[lf2 go] rcm]. mon Hre c2 H2. cbn [fst snd] in Hre.
    mon Hre e1 He1. mon Hre e2 He2. mon Hre e3 He3. inversion Hre; subst lf' c3 e3; clear Hre.
    eapply CT_trans; [eapply px_merge_ct; eauto|].
    eapply rc_px_ct; [exact H2 | eapply via_user_rc_for; [exact Hrg | reflexivity] | exact Hu].
Qed.

Theorem c_exit_farm_ct cs u farm p b cs' co : c_exit_farm cs u farm p b = Ok (cs', co) ->
  0 < u -> Backed (c_px cs) -> CT u (cus_of cs) (cus_of cs').
Proof.
  unfold c_exit_farm. intros H Hu Hb. cbv zeta in H. mon H lf Hlf.
  destruct (getn (s_wfm (c_px cs)) (p_non p)) as [w|] eqn:Hw; [|discriminate].
  mon H rf Hrf. destruct rf as [[lf1 fo] rc]. mon H pair1 Hpair. mon H c1 H1. mon H e He. opt_in He.
  mon H rx Hx. destruct rx as [px' x]. mon H c2 H2. destruct (set_farm cs farm lf1) as [f0' f1'].
  inversion H; subst cs' co; clear H. unfold cus_of. cbn [c_en c_g g_car upd_g]. destruct c2 as [s2 car2]. cbn [fst snd].
  pose proof (step_burn _ _ _ _ Hx Hb) as [Hbe Hk]. cbn [burn_ok] in *.
  destruct (answer_exit_fields _ _ _ _ He) as (E1 & E2 & E3). cbn [env0 v_now v_energy v_unlock] in *.
  pose proof (rc_px_ct _ _ _ _ _ H1 (via_user_rc_for _ _ _ _ _ _ _ _ Hrf eq_refl) Hu) as T1.
  eapply CT_trans; [exact T1|]. destruct T1 as [_ (N1 & _)]. cbn [fst] in N1.
  eapply (settle_ct _ u x e); eauto.
  - rewrite E3. exact Hk.
  - rewrite E1. unfold now_of. congruence.
Qed.

Theorem c_claim_ct cs u farm p b cs' co : c_claim cs u farm p b = Ok (cs', co) ->
  0 < u -> Backed (c_px cs) -> CT u (cus_of cs) (cus_of cs').
Proof.
  unfold c_claim. intros H Hu Hb. cbv zeta in H. mon H lf Hlf.
  destruct (getn (s_wfm (c_px cs)) (p_non p)) as [w|] eqn:Hw; [|discriminate].
  mon H rf Hrf. destruct rf as [[lf1 fo] rc]. mon H c1 H1. mon H e He.
  mon H rx Hx. destruct rx as [px' x]. mon H c2 H2. destruct (set_farm cs farm lf1) as [f0' f1'].
  inversion H; subst cs' co; clear H. unfold cus_of. cbn [c_en c_g g_car upd_g]. destruct c2 as [s2 car2]. cbn [fst snd].
  pose proof (step_burn _ _ _ _ Hx Hb) as [El En]. cbn [burn_ok] in *.
  eapply CT_trans; [eapply rc_px_ct; eauto; eapply via_user_rc_for; eauto; reflexivity|].
  eapply settle_noburn; eauto.
Qed.

Theorem c_merge_wlp_ct cs u ps cs' co : c_merge_wlp cs u ps = Ok (cs', co) ->
  0 < u -> Backed (c_px cs) -> CT u (cus_of cs) (cus_of cs').
Proof.
  unfold c_merge_wlp. intros H Hu Hb. cbv zeta in H. mon H parts Hparts. mon H rm Hrm. destruct rm as [cm mo]. cbn [fst snd] in H.
  mon H e He. mon H rx Hx. destruct rx as [px' x]. mon H c2 H2.
  inversion H; subst cs' co; clear H. unfold cus_of. cbn [c_en c_g g_car upd_g]. destruct c2 as [s2 car2]. cbn [fst snd].
  pose proof (step_burn _ _ _ _ Hx Hb) as [El En]. cbn [burn_ok] in *.
  eapply CT_trans; [eapply px_merge_ct; eauto|]. eapply settle_noburn; eauto.
Qed.

Theorem c_merge_wfm_ct cs u farm ps bm cs' co : c_merge_wfm cs u farm ps bm = Ok (cs', co) ->
  0 < u -> Backed (c_px cs) -> CT u (cus_of cs) (cus_of cs').
Proof.
  unfold c_merge_wfm. intros H Hu Hb. cbv zeta in H. mon H lf Hlf. mon H rt Hrt. destruct rt as [s1 its].
  mon H fps Hfps. mon H toks Htoks. mon H rm Hrm. destruct rm as [cm mo]. mon H rg Hrg. destruct rg as [[lf1 go] rcm].
  cbn [fst snd] in H. mon H c1 H1. mon H e1 He1. mon H e He.
  mon H rx Hx. destruct rx as [px' x]. mon H c2 H2. destruct (set_farm cs farm lf1) as [f0' f1'].
  inversion H; subst cs' co; clear H. unfold cus_of. cbn [c_en c_g g_car upd_g]. destruct c2 as [s2 car2]. cbn [fst snd].
  pose proof (step_burn _ _ _ _ Hx Hb) as [El En]. cbn [burn_ok] in *.
  eapply CT_trans; [eapply px_merge_ct; eauto|].
  eapply CT_trans; [eapply rc_px_ct; eauto; eapply via_user_rc_for; eauto; reflexivity|].
  eapply settle_noburn; eauto.
Qed.

Theorem c_inc_lp_ct cs u p le cs' co : c_inc_lp cs u p le = Ok (cs', co) ->
  0 < u -> Backed (c_px cs) -> CT u (cus_of cs) (cus_of cs').
Proof.
  unfold c_inc_lp. intros H Hu Hb. cbv zeta in H. mon H rt Hrt. destruct rt as [s1 [k lp]].
  mon H rm Hrm. destruct rm as [cm mo]. cbn [fst snd] in H. mon H e He.
  mon H rx Hx. destruct rx as [px' x]. mon H c2 H2.
  inversion H; subst cs' co; clear H. unfold cus_of. cbn [c_en c_g g_car upd_g]. destruct c2 as [s2 car2]. cbn [fst snd].
  pose proof (step_burn _ _ _ _ Hx Hb) as [El En]. cbn [burn_ok] in *.
  eapply CT_trans; [eapply px_extend_ct; eauto|]. eapply settle_noburn; eauto.
Qed.

Theorem c_inc_fm_ct cs u p le cs' co : c_inc_fm cs u p le = Ok (cs', co) ->
  0 < u -> Backed (c_px cs) -> CT u (cus_of cs) (cus_of cs').
Proof.
  unfold c_inc_fm. intros H Hu Hb. cbv zeta in H. mon H rt Hrt. destruct rt as [s1 [w pp]].
  mon H kl Hkl. destruct kl as [k lq]. mon H rm Hrm. destruct rm as [cm mo]. cbn [fst snd] in H. mon H e He.
  mon H rx Hx. destruct rx as [px' x]. mon H c2 H2.
  inversion H; subst cs' co; clear H. unfold cus_of. cbn [c_en c_g g_car upd_g]. destruct c2 as [s2 car2]. cbn [fst snd].
  pose proof (step_burn _ _ _ _ Hx Hb) as [El En]. cbn [burn_ok] in *.
  eapply CT_trans; [eapply px_extend_ct; eauto|]. eapply settle_noburn; eauto.
Qed.

(** ---- every closed step keeps the custody invariant *)
(** the caller of a proxy endpoint is a user account *)
Definition caller_of (o : cop) : option Z :=
  match o with
  | CAddLiq u _ _ _ _ _ _ | CRemoveLiq u _ _ _ _ | CEnterFarm u _ _ _ _ | CExitFarm u _ _ _ | CClaim u _ _ _
  | CMergeWlp u _ | CMergeWfm u _ _ _ | CIncLp u _ _ | CIncFm u _ _ => Some u
  | _ => None
  end.

Definition cuser (o : cop) : Prop := match caller_of o with Some u => uid u | None => True end.

Lemma lock_receipts_cinv rc : forall s car lock s', lock_receipts s lock rc = Ok s' -> CInv (s, car) -> CInv (s', car).
Proof.
  induction rc as [|[c [r ue]] t IH]; intros s car lock s' H I; simpl in H.
  - inversion H; subst. exact I.
  - mon H q Hq. destruct q as [s1 o]. destruct o as [|ue' [|r' [|z t']]]; try discriminate. chk H.
    eapply IH; [exact H|]. eapply CU.en_step_cinv; eauto.
Qed.

Theorem cstep_cinv cs o cs' co : cstep cs o = Ok (cs', co) -> Backed (c_px cs) -> cuser o ->
  CInv (cus_of cs) -> CInv (cus_of cs').
Proof.
  intros H Hb Hu I. unfold cuser in Hu.
  destruct o; cbn [cstep caller_of] in *;
    try (destruct Hu as ((Hu & _) & _)).
  - exact (proj1 (c_add_liq_ct _ _ _ _ _ _ _ _ _ _ H Hu Hb) I).
  - exact (proj1 (c_remove_liq_ct _ _ _ _ _ _ _ _ H Hu Hb) I).
  - exact (proj1 (c_enter_farm_ct _ _ _ _ _ _ _ _ H Hu Hb) I).
  - exact (proj1 (c_exit_farm_ct _ _ _ _ _ _ _ H Hu Hb) I).
  - exact (proj1 (c_claim_ct _ _ _ _ _ _ _ H Hu Hb) I).
  - exact (proj1 (c_merge_wlp_ct _ _ _ _ _ H Hu Hb) I).
  - exact (proj1 (c_merge_wfm_ct _ _ _ _ _ _ _ H Hu Hb) I).
  - exact (proj1 (c_inc_lp_ct _ _ _ _ _ _ H Hu Hb) I).
  - exact (proj1 (c_inc_fm_ct _ _ _ _ _ _ H Hu Hb) I).
  - unfold c_plain in H. mon H rx Hx. destruct rx. inversion H; subst. exact I.
  - unfold c_plain in H. mon H rx Hx. destruct rx. inversion H; subst. exact I.
  - unfold c_plain in H. mon H rx Hx. destruct rx. inversion H; subst. exact I.
  - unfold c_plain in H. mon H rx Hx. destruct rx. inversion H; subst. exact I.
  - unfold c_pair_env in H. chk H. mon H r Hr. destruct r as [[pair' po] ef]. inversion H; subst. exact I.
  - unfold c_farm_env in H. mon H lf Hlf. chk H. mon H r Hr. destruct r as [[lf' fo] rc]. mon H pair' Hp. mon H en' He.
    cbv zeta in H. destruct (set_farm cs farm lf') as [f0' f1']. inversion H; subst. unfold cus_of in *. cbn [c_en c_g] in *.
    eapply lock_receipts_cinv; eauto.
  - unfold c_energy_env in H. chk H. mon H r Hr. destruct r as [s' o']. inversion H; subst. unfold cus_of in *. cbn [c_en c_g fst] in *.
    eapply CU.en_step_cinv; eauto.
  - unfold c_time in H. chk H. mon H r Hr. destruct r as [s' o']. inversion H; subst. unfold cus_of in *. cbn [c_en c_g fst] in *.
    eapply CU.en_step_cinv; eauto.
Qed.

(** closed histories: the proxy freshly deployed, the factory consistent, nothing carried yet; callers are users *)
Definition cinit (cs0 : cst) : Prop := c_px cs0 = init_state /\ CInv (cus_of cs0).

Definition chist (cs : cst) : Prop := exists cs0 ops, cinit cs0 /\ Forall cuser ops /\ cs = crun cs0 ops.

Lemma chist_creach cs : chist cs -> creach cs.
Proof. intros (cs0 & ops & (Hi & _) & _ & ->). exists cs0, ops. auto. Qed.

Theorem chist_cinv cs : chist cs -> CInv (cus_of cs).
Proof.
  intros (cs0 & ops & Hi & Hu & ->). revert Hu. pattern ops. apply rev_ind; clear ops.
  - intros _. exact (proj2 Hi).
  - intros o ops IH Hu. apply Forall_app in Hu. destruct Hu as [Hu Ho]. inversion Ho as [|? ? Huo _]; subst.
    unfold crun. rewrite fold_left_app. cbn [fold_left]. fold (crun cs0 ops). specialize (IH Hu).
    unfold cstep_total. destruct (cstep (crun cs0 ops) o) as [[cs' co]|] eqn:E; [|exact IH].
    eapply cstep_cinv; eauto. apply creach_backed. exists cs0, ops. split; [exact (proj1 Hi) | reflexivity].
Qed.

Lemma init_c_cinit fee sfee bf dsc opts lock blk epoch : EN.valid_opts opts = true -> 0 <= epoch ->
  cinit (init_c fee sfee bf dsc opts lock blk epoch).
Proof.
  intros Hv He. split; [reflexivity|]. unfold cus_of, init_c. cbn [c_en c_g g_car g0]. split; [|split]; cbn [fst snd].
  - unfold EV.VInv. apply (ENP.init_inv (EN.mkCfg opts 10 0 0) epoch); assumption.
  - intros e. reflexivity.
  - constructor.
Qed.

(** ---- what the invariant says *)
Theorem cinv_view c u : CInv c -> 0 < u ->
  let s := fst c in let d := snd c in
  EN.e_amt (EN.view_entry s u) = ENP.spec_energy (EN.s_bal s ++ d) u (EN.s_now s) /\
  EN.e_tot (EN.view_entry s u) = ENP.spec_total (EN.s_bal s ++ d) u /\
  EN.e_upd (EN.view_entry s u) = EN.s_now s /\
  EN.view_amount s u = Z.max 0 (ENP.spec_energy (EN.s_bal s ++ d) u (EN.s_now s)).
Proof. intros (V & _) Hu. exact (ENP.inv_view (EV.view (fst c) (snd c)) u V Hu). Qed.

Theorem cinv_proxy_no_energy c : CInv c ->
  EN.view_entry (fst c) H_PX = EN.mkEn 0 (EN.s_now (fst c)) 0 /\ EN.view_amount (fst c) H_PX = 0.
Proof. intros (V & _). apply (ENP.inv_escrow (EV.view (fst c) (snd c)) H_PX V). unfold H_PX. lia. Qed.

(** the spec sums split: tokens held + tokens carried *)
Lemma spec_energy_app l d u now : ENP.spec_energy (l ++ d) u now = ENP.spec_energy l u now + ENP.spec_energy d u now.
Proof. rewrite !ENP.spec_energy_eq, EV.lweight_app, EV.ltotal_app. lia. Qed.
Lemma spec_total_app l d u : ENP.spec_total (l ++ d) u = ENP.spec_total l u + ENP.spec_total d u.
Proof. rewrite !ENP.spec_total_eq, EV.ltotal_app. lia. Qed.

(** ---- who carries the energy of tokens at work *)
(** a proxy endpoint called by [u] touches the stored entry of nobody but [u] *)
Theorem cstep_only_caller cs o cs' co u : cstep cs o = Ok (cs', co) -> Backed (c_px cs) -> caller_of o = Some u -> uid u ->
  ent_frame u (c_en cs) (c_en cs').
Proof.
  intros H Hb Hc ((Hu & _) & _).
  destruct o; cbn [cstep caller_of] in *; try discriminate; inversion Hc; subst u0.
  - exact (proj2 (c_add_liq_ct _ _ _ _ _ _ _ _ _ _ H Hu Hb)).
  - exact (proj2 (c_remove_liq_ct _ _ _ _ _ _ _ _ H Hu Hb)).
  - exact (proj2 (c_enter_farm_ct _ _ _ _ _ _ _ _ H Hu Hb)).
  - exact (proj2 (c_exit_farm_ct _ _ _ _ _ _ _ H Hu Hb)).
  - exact (proj2 (c_claim_ct _ _ _ _ _ _ _ H Hu Hb)).
  - exact (proj2 (c_merge_wlp_ct _ _ _ _ _ H Hu Hb)).
  - exact (proj2 (c_merge_wfm_ct _ _ _ _ _ _ _ H Hu Hb)).
  - exact (proj2 (c_inc_lp_ct _ _ _ _ _ _ H Hu Hb)).
  - exact (proj2 (c_inc_fm_ct _ _ _ _ _ _ H Hu Hb)).
Qed.

Lemma ent_frame_view u s s' v : ent_frame u s s' -> v <> u -> EN.view_entry s' v = EN.view_entry s v.
Proof. intros (N & _ & E) Hv. unfold EN.view_entry, EN.entry_now. rewrite N, (E v Hv). reflexivity. Qed.

(** a wrapped token changing hands (and the whitelist operations) move no energy and no carried token *)
Theorem cstep_transfer_moves_nothing cs o cs' co : cstep cs o = Ok (cs', co) ->
  match o with CXferWlp _ _ _ _ | CXferWfm _ _ _ _ | CSetPair _ _ | CSetFarm _ _ _ => True | _ => False end ->
  c_en cs' = c_en cs /\ c_g cs' = c_g cs /\ c_pair cs' = c_pair cs /\ c_f0 cs' = c_f0 cs /\ c_f1 cs' = c_f1 cs.
Proof.
  intros H Ho. destruct o; try contradiction; cbn [cstep] in H; unfold c_plain in H; mon H rx Hx; destruct rx;
    inversion H; subst; repeat split; reflexivity.
Qed.

(** the deduction is exact: when the proxy burns [amt] locked tokens of unlock epoch [k] for the caller [u], the
    caller's entry loses amt * (k - now) (a refund when the lock has expired: k < now) and amt locked tokens,
    starting from the entry as it was when the proxy read it *)
Lemma deplete_upd en now : EN.e_upd (EN.deplete en now) = now.
Proof. unfold EN.deplete. destruct (EN.e_upd en =? now) eqn:E; [apply Z.eqb_eq in E; exact E | reflexivity]. Qed.

Lemma pe_deplete_id p now : pe_upd p = now -> pe_deplete p now = p.
Proof. unfold pe_deplete. intros E. rewrite E, Z.eqb_refl. reflexivity. Qed.

Lemma deplete_id en now : EN.e_upd en = now -> EN.deplete en now = en.
Proof. unfold EN.deplete. intros E. rewrite E, Z.eqb_refl. reflexivity. Qed.

Theorem px_burn_exact c u x e c' k amt : px_burn c u x = Ok c' -> x_lburn x = (k, amt) -> amt <> 0 ->
  burn_energy e amt = Ok (x_energy x) -> v_unlock e = k ->
  v_energy e = L16.pe_of (EN.view_entry (fst c) u) -> v_now e = EN.s_now (fst c) ->
  let en := EN.view_entry (fst c) u in let en' := EN.view_entry (fst c') u in
  EN.e_amt en' = EN.e_amt en - amt * (k - EN.s_now (fst c)) /\ EN.e_tot en' = EN.e_tot en - amt /\ amt <= EN.e_tot en /\
  snd c' = EN.credit (snd c) u k (- amt).
Proof.
  unfold px_burn. destruct c as [s car]. intros H El Hnz Hbe Hk Hen Hnow. rewrite El in H. mon H l1 Hd.
  unfold burn_energy in Hbe. destruct (amt =? 0) eqn:Ez; [apply Z.eqb_eq in Ez; contradiction|].
  mon Hbe en1 Hu1. inversion Hbe as [Hx]; clear Hbe. rewrite <- Hx in H. inversion H; subst c'; clear H. cbn [fst snd].
  destruct (energy_update_char _ _ _ _ _ Hu1) as (A & B & C & D).
  rewrite Hen, Hnow in *. cbn [fst] in *.
  assert (U : pe_upd (L16.pe_of (EN.view_entry s u)) = EN.s_now s) by (cbn; apply deplete_upd).
  rewrite (pe_deplete_id _ _ U) in A, B, C, D. cbn [L16.pe_of pe_amt pe_tot pe_upd] in A, B, C, D.
  unfold EN.view_entry at 1 3 5. unfold EN.entry_now. cbn [EN.s_en EN.put_entry EN.set_en EN.set_bal EN.s_now].
  rewrite ENP.eget_eset_same. rewrite deplete_id by (cbn; rewrite D; apply deplete_upd).
  cbn [L16.en_of EN.e_amt EN.e_tot]. rewrite Hk in A. repeat split; auto.
Qed.

Lemma settle_burn_exact c u x e c' k amt : settle c u x = Ok c' -> x_lburn x = (k, amt) -> amt <> 0 ->
  burn_energy e (snd (x_lburn x)) = Ok (x_energy x) ->
  (snd (x_lburn x) <> 0 -> fst (x_lburn x) = v_unlock e) ->
  v_energy e = L16.pe_of (EN.view_entry (fst c) u) -> v_now e = EN.s_now (fst c) ->
  let en' := EN.view_entry (fst c') u in
  EN.e_amt en' = pe_amt (v_energy e) - amt * (k - v_now e) /\ EN.e_tot en' = pe_tot (v_energy e) - amt /\
  amt <= pe_tot (v_energy e) /\ k = v_unlock e.
Proof.
  unfold settle. intros H El Hnz Hbe Hk Hen Hnow. mon H c1 H1. rewrite El in Hbe, Hk. cbn [fst snd] in Hbe, Hk.
  specialize (Hk Hnz). destruct (from_px_all_en _ _ _ _ H1) as [A B].
  assert (Hen1 : v_energy e = L16.pe_of (EN.view_entry (fst c1) u)).
  { rewrite Hen. f_equal. symmetry. apply view_entry_same; assumption. }
  assert (Hnow1 : v_now e = EN.s_now (fst c1)) by congruence.
  destruct (px_burn_exact _ _ _ _ _ _ _ H El Hnz Hbe (eq_sym Hk) Hen1 Hnow1) as (P1 & P2 & P3 & _).
  cbv zeta. rewrite P1, P2, Hen1, Hnow1. cbn [L16.pe_of pe_amt pe_tot] in *. repeat split; auto.
Qed.

(** removeLiquidityProxy / exitFarmProxy: the only endpoints that burn locked tokens; the deduction is exact, from
    the entry the factory model reports when the proxy reads it (for exitFarmProxy: after the reward was locked) *)
Theorem cstep_burn_exact cs o cs' co u k amt : cstep cs o = Ok (cs', co) -> Backed (c_px cs) -> caller_of o = Some u -> uid u ->
  x_lburn (co_x co) = (k, amt) -> amt <> 0 ->
  let r := v_energy (co_e co) in
  let en' := EN.view_entry (c_en cs') u in
  (match o with CRemoveLiq _ _ _ _ _ | CExitFarm _ _ _ _ => True | _ => False end) /\
  (match o with CRemoveLiq _ _ _ _ _ => r = entry_of (c_en cs) u | _ => True end) /\
  pe_upd r = now_of cs /\
  EN.e_amt en' = pe_amt r - amt * (k - now_of cs) /\ EN.e_tot en' = pe_tot r - amt /\ amt <= pe_tot r /\
  k = v_unlock (co_e co) /\
  (match o with
   | CRemoveLiq _ _ p _ _ => k = wlp_k (c_px cs) (p_non p)
   | CExitFarm _ _ p _ => k = wfm_k (c_px cs) (p_non p)
   | _ => True end).
Proof.
  intros H Hb Hc ((Hu & _) & _) El Hnz.
  pose proof (cstep_proj _ _ _ _ H) as P.
  destruct o; cbn [cstep caller_of pop_of] in *; try discriminate; inversion Hc; subst u0; destruct P as [Hs _];
    pose proof (step_burn _ _ _ _ Hs Hb) as Bk; cbn [burn_ok] in Bk;
    try (destruct Bk as [Bl _]; rewrite Bl in El; inversion El; subst; contradiction).
  - (* remove *) unfold c_remove_liq in H. mon H rp Hp. destruct rp as [[pair' po] ef]. mon H e He. opt_in He.
    mon H rx Hx. destruct rx as [px' x]. mon H c2 H2. inversion H; subst cs' co; clear H. cbn [co_e co_x c_en] in *.
    destruct Bk as [Hbe Hk].
    destruct (answer_remove_fields _ _ _ _ He) as (E1 & E2 & E3). cbn [env0 v_now v_energy v_unlock] in *.
    assert (Hk' : snd (x_lburn x) <> 0 -> fst (x_lburn x) = v_unlock e) by (rewrite E3; exact Hk).
    destruct (settle_burn_exact _ _ _ e _ _ _ H2 El Hnz Hbe Hk' E2 E1) as (Q1 & Q2 & Q3 & Q4).
    cbv zeta. rewrite E1 in Q1. unfold now_of.
    split; [exact I|]. split; [exact E2|]. split; [rewrite E2; cbn; apply deplete_upd|].
    split; [exact Q1|]. split; [exact Q2|]. split; [exact Q3|]. split; [exact Q4|]. rewrite Q4, E3. reflexivity.
  - (* exit *) unfold c_exit_farm in H. cbv zeta in H. mon H lf Hlf.
    destruct (getn (s_wfm (c_px cs)) (p_non p)) as [w|] eqn:Hw; [|discriminate].
    mon H rf Hrf. destruct rf as [[lf1 fo] rc]. mon H pair1 Hpair. mon H c1 H1. mon H e He. opt_in He.
    mon H rx Hx. destruct rx as [px' x]. mon H c2 H2. destruct (set_farm cs farm lf1) as [f0' f1'].
    inversion H; subst cs' co; clear H. cbn [co_e co_x c_en] in *.
    destruct Bk as [Hbe Hk].
    destruct (answer_exit_fields _ _ _ _ He) as (E1 & E2 & E3). cbn [env0 v_now v_energy v_unlock] in *.
    assert (Hk' : snd (x_lburn x) <> 0 -> fst (x_lburn x) = v_unlock e) by (rewrite E3; exact Hk).
    pose proof (rc_px_ct _ _ _ _ _ H1 (via_user_rc_for _ _ _ _ _ _ _ _ Hrf eq_refl) Hu) as [_ (N1 & _)]. cbn [fst] in N1.
    assert (E1' : v_now e = EN.s_now (fst c1)) by (rewrite E1; unfold now_of; congruence).
    destruct (settle_burn_exact _ _ _ e _ _ _ H2 El Hnz Hbe Hk' E2 E1') as (Q1 & Q2 & Q3 & Q4).
    cbv zeta. rewrite E1 in Q1.
    split; [exact I|]. split; [exact I|]. split; [rewrite E2; unfold entry_of, EN.view_entry, EN.entry_now; cbn [L16.pe_of pe_upd]; rewrite deplete_upd; exact N1|].
    split; [exact Q1|]. split; [exact Q2|]. split; [exact Q3|]. split; [exact Q4|]. rewrite Q4, E3. reflexivity.
Qed.

(** ================================================================== Part B: the proxy's books against the callee models *)
(** ---- the proxy's own books (Model/ProxyDex.v): LP tokens, farm tokens, and the kind of every wrapped farm position.
    A wrapped farm position of the base-asset farm records locked tokens, one of the LP farm records wrapped LP tokens. *)
Definition kf_ok (w : wfm) : Prop := (wf_farm w = 0 /\ wf_kind w = 0) \/ (wf_farm w = 1 /\ wf_kind w = 1).
Definition KF (s : state) : Prop := Forall kf_ok (s_wfm s).

(** [s'] differs from [s], in these books, by [dlp] LP tokens and [df key] farm tokens per key *)
Definition bk (s s' : state) (dlp : Z) (df : Z -> Z) : Prop :=
  s_lp s' = s_lp s + dlp /\ (forall key, aget (s_farm s') key = aget (s_farm s) key + df key) /\ (KF s -> KF s').

Definition df0 : Z -> Z := fun _ => 0.
Definition df1 (k a : Z) : Z -> Z := fun key => if k =? key then a else 0.
Definition dfadd (f g : Z -> Z) : Z -> Z := fun key => f key + g key.

Lemma bk_trans s1 s2 s3 d1 f1 d2 f2 : bk s1 s2 d1 f1 -> bk s2 s3 d2 f2 -> bk s1 s3 (d1 + d2) (dfadd f1 f2).
Proof.
  intros (A1 & B1 & C1) (A2 & B2 & C2). split; [lia|]. split; [|auto].
  intros key. unfold dfadd. rewrite B2, B1. lia.
Qed.

Lemma bk_same s s' : s_lp s' = s_lp s -> s_farm s' = s_farm s -> s_wfm s' = s_wfm s -> bk s s' 0 df0.
Proof. intros Ea Eb Ec. split; [lia|]. split; [intros key; rewrite Eb; unfold df0; lia|]. unfold KF. rewrite Ec. auto. Qed.

Lemma bk_ext s s' d f d' f' : bk s s' d f -> d = d' -> (forall key, f key = f' key) -> bk s s' d' f'.
Proof. intros (Ea & Eb & Ec) -> E. split; [exact Ea|]. split; [intros key; rewrite Eb, E; reflexivity | exact Ec]. Qed.

Lemma locked_out_fr s k a s' : locked_out s k a = Ok s' -> s_lp s' = s_lp s /\ s_farm s' = s_farm s /\ s_wfm s' = s_wfm s /\ s_wlp s' = s_wlp s.
Proof. unfold locked_out. intros H. mon H l Hl. inversion H; subst. auto. Qed.

Lemma release_wlp_fr s n a s' r : release_wlp s n a = Ok (s', r) -> s_lp s' = s_lp s /\ s_farm s' = s_farm s /\ s_wfm s' = s_wfm s.
Proof.
  unfold release_wlp. intros H. destruct (getn (s_wlp s) n) as [w|]; [|discriminate]. chk H. mon H lp Hlp. mon H live Hlive.
  mon H s2 Hs2. inversion H; subst. destruct (locked_out_fr _ _ _ _ Hs2) as (Ea & Eb & Ec & _). rewrite Ea, Eb, Ec. auto.
Qed.

Lemma take_wlp_user_bk s u n a s' r : take_wlp_user s u n a = Ok (s', r) -> bk s s' (- a) df0.
Proof.
  unfold take_wlp_user. intros H. mon H h Hh. mon H lp Hlp. apply sub_chk_ok in Hlp. destruct Hlp as [_ ->].
  destruct (release_wlp_fr _ _ _ _ _ H) as (Ea & Eb & Ec). cbn in Ea, Eb, Ec. split; [lia|].
  split; [intros key; rewrite Eb; unfold df0; lia|]. unfold KF. rewrite Ec. auto.
Qed.

Lemma kill_wlp_fr s n a s' r : kill_wlp s n a = Ok (s', r) -> s_lp s' = s_lp s /\ s_farm s' = s_farm s /\ s_wfm s' = s_wfm s.
Proof.
  unfold kill_wlp. intros H. mon H r0 Hr. destruct r0 as [s1 kl]. destruct (release_wlp_fr _ _ _ _ _ Hr) as (Ea & Eb & Ec).
  destruct (getn (s_wlp s1) n) as [w|]; [|discriminate]. inversion H; subst. cbn. auto.
Qed.

Lemma mint_wlp_fr s T k L s' n : mint_wlp s T k L = (s', n) -> s_lp s' = s_lp s /\ s_farm s' = s_farm s /\ s_wfm s' = s_wfm s.
Proof. unfold mint_wlp. intros H. inversion H; subst. cbn. auto. Qed.

Lemma mint_wlp_user_bk s u T k L s' n : mint_wlp_user s u T k L = (s', n) -> bk s s' T df0.
Proof.
  unfold mint_wlp_user. destruct (mint_wlp s T k L) as [s1 n1] eqn:E. intros H. inversion H; subst.
  destruct (mint_wlp_fr _ _ _ _ _ _ E) as (Ea & Eb & Ec). split; [cbn; lia|].
  split; [intros key; cbn; rewrite Eb; unfold df0; lia|]. unfold KF. cbn. rewrite Ec. auto.
Qed.

Lemma take_wlp_list_bk ps : forall s u s' ta tl, take_wlp_list s u ps = Ok (s', (ta, tl)) -> bk s s' (- ta) df0.
Proof.
  induction ps as [|p t IH]; intros s u s' ta tl H; simpl in H.
  - inversion H; subst. apply bk_same; reflexivity.
  - destruct (p_tok p =? TK_WLP); [|discriminate]. mon H r Hr. destruct r as [s1 [k lp]].
    mon H r2 Hr2. destruct r2 as [s2 [ta2 tl2]]. inversion H; subst s' ta tl; clear H.
    eapply bk_ext; [eapply bk_trans; [eapply take_wlp_user_bk; eauto | eapply IH; eauto] | lia | intros; reflexivity].
Qed.

Lemma take_wfm_bk s u m a s' w pp : take_wfm s u m a = Ok (s', (w, pp)) ->
  getn (s_wfm s) m = Some w /\ bk s s' 0 (df1 (fkey (wf_f w) (wf_farm w)) (- a)) /\ (KF s -> kf_ok w) /\ s_wlp s' = s_wlp s.
Proof.
  unfold take_wfm. intros H. destruct (getn (s_wfm s) m) as [w0|] eqn:Hw; [|discriminate]. chk H.
  mon H h Hh. mon H pp0 Hpp. mon H sup Hsup. mon H fb Hfb. apply bal_sub_ok in Hfb. destruct Hfb as [_ ->].
  mon H s2 Hs2. inversion H; subst s2 w0 pp0; clear H. split; [reflexivity|].
  set (w' := mkWfm (wf_farm w) (wf_f w) (wf_T w) (wf_kind w) (wf_pn w) (wf_P w) sup) in *.
  assert (E : s_lp s' = s_lp s /\ s_farm s' = aset (s_farm s) (fkey (wf_f w) (wf_farm w)) (aget (s_farm s) (fkey (wf_f w) (wf_farm w)) - a)
              /\ s_wfm s' = setn (s_wfm s) m w' /\ s_wlp s' = s_wlp s).
  { destruct (wf_kind w =? 0).
    - destruct (locked_out_fr _ _ _ _ Hs2) as (Ea & Eb & Ec & Ed). rewrite Ea, Eb, Ec, Ed. cbn. auto.
    - mon Hs2 l Hl. inversion Hs2; subst. cbn. auto. }
  destruct E as (Ea & Eb & Ec & Ed).
  assert (Kw : KF s -> kf_ok w) by (intros K; exact (Forall_getn _ _ _ _ K Hw)).
  split; [|split; [exact Kw | exact Ed]]. split; [lia|]. split.
  - intros key. rewrite Eb, aget_aset. unfold df1. destruct (fkey (wf_f w) (wf_farm w) =? key) eqn:Ek; [|lia].
    apply Z.eqb_eq in Ek. subst key. lia.
  - intros K. unfold KF. rewrite Ec. apply Forall_setnth; [exact K|]. specialize (Kw K). unfold kf_ok in *. exact Kw.
Qed.

Lemma mint_wfm_bk' s u farm f T kind pn P s' m : mint_wfm s u farm f T kind pn P = (s', m) ->
  s_lp s' = s_lp s /\ (forall key, aget (s_farm s') key = aget (s_farm s) key + df1 (fkey f farm) T key) /\
  s_wfm s' = s_wfm s ++ [mkWfm farm f T kind pn P T].
Proof.
  unfold mint_wfm. intros H.
  assert (E : s_lp s' = s_lp s /\ s_farm s' = bal_add (s_farm s) (fkey f farm) T /\ s_wfm s' = s_wfm s ++ [mkWfm farm f T kind pn P T]).
  { destruct (kind =? 0); inversion H; subst; cbn; auto. }
  destruct E as (Ea & Eb & Ec). split; [exact Ea|]. split; [|exact Ec].
  intros key. rewrite Eb, aget_bal_add. unfold df1. destruct (fkey f farm =? key) eqn:Ek; [|lia].
  apply Z.eqb_eq in Ek. subst key. lia.
Qed.

Lemma mint_wfm_bk2 s u farm f T kind pn P s' m : mint_wfm s u farm f T kind pn P = (s', m) ->
  ((farm = 0 /\ kind = 0) \/ (farm = 1 /\ kind = 1)) -> bk s s' 0 (df1 (fkey f farm) T).
Proof.
  intros H Hk. destruct (mint_wfm_bk' _ _ _ _ _ _ _ _ _ _ H) as (Ea & Eb & Ec). split; [lia|]. split; [exact Eb|].
  intros K. unfold KF. rewrite Ec. apply Forall_app. split; [exact K|]. constructor; [|constructor]. exact Hk.
Qed.

(** farm tokens taken out of the books by a list of wrapped farm payments: per farm-token key *)
Definition item_kf (it : item) : Prop := let '(fa, _, ki, _, _) := it in (fa = 0 /\ ki = 0) \/ (fa = 1 /\ ki = 1).

Fixpoint ksumf (its : list item) (toks : list (Z * Z)) (key : Z) : Z :=
  match its, toks with
  | (fa, _, _, _, _) :: its', (f, a) :: toks' => (if fkey f fa =? key then a else 0) + ksumf its' toks' key
  | _, _ => 0
  end.

Lemma take_wfm_list_bk ps : forall s u s' its toks, take_wfm_list s u ps = Ok (s', its) -> wfm_toks s u ps = Ok toks ->
  bk s s' 0 (fun key => - ksumf its toks key) /\ (KF s -> Forall item_kf its) /\ s_wlp s' = s_wlp s /\ length toks = length its.
Proof.
  induction ps as [|p t IH]; intros s u s' its toks H W; simpl in H, W.
  - inversion H; inversion W; subst. split; [apply bk_same; reflexivity|]. split; [constructor|]. split; reflexivity.
  - destruct (p_tok p =? TK_WFM); [|discriminate].
    mon H r Hr. destruct r as [s1 [w pp]]. rewrite Hr in W. cbn [bind] in W.
    mon H r2 Hr2. destruct r2 as [s2 its2]. inversion H; subst s' its; clear H.
    mon W rest Wr. inversion W; subst toks; clear W.
    destruct (take_wfm_bk _ _ _ _ _ _ _ Hr) as (Hw & B1 & K1 & L1).
    destruct (IH _ _ _ _ _ Hr2 Wr) as (B2 & K2 & L2 & N2).
    split; [|split; [|split]].
    + eapply bk_ext; [eapply bk_trans; eauto | lia |]. intros key. unfold dfadd, df1. cbn [ksumf mk_item].
      destruct (fkey (wf_f w) (wf_farm w) =? key); lia.
    + intros K. constructor; [exact (K1 K) | apply K2; exact (proj2 (proj2 B1) K)].
    + congruence.
    + cbn [length]. rewrite N2. reflexivity.
Qed.

Lemma kill_items_fr its : forall s s' r, kill_items s its = Ok (s', r) -> s_lp s' = s_lp s /\ s_farm s' = s_farm s /\ s_wfm s' = s_wfm s.
Proof.
  induction its as [|it t IH]; intros s s' r H; simpl in H.
  - inversion H; subst. auto.
  - destruct it as [[[[fa a] ki] pn] pp]. mon H r1 Hr1. destruct r1 as [s1 [k lq]]. mon H r2 Hr2. destruct r2 as [s2 [ta tl]].
    inversion H; subst. destruct (kill_wlp_fr _ _ _ _ _ Hr1) as (Ea & Eb & Ec). destruct (IH _ _ _ Hr2) as (Fa & Fb & Fc).
    rewrite Fa, Fb, Fc. auto.
Qed.

Lemma merge_items_bk s u farm its e s' m amt law : merge_items s u farm its e = Ok (s', (m, amt, law)) ->
  s_lp s' = s_lp s /\ (forall key, aget (s_farm s') key = aget (s_farm s) key + df1 (fkey (fst (v_fmerge e)) farm) (snd (v_fmerge e)) key) /\
  (KF s -> Forall item_kf its -> KF s') /\ amt = snd (v_fmerge e) /\
  (exists fa a ki pn pp t, its = (fa, a, ki, pn, pp) :: t /\ fa = farm /\ items_same fa ki its = true).
Proof.
  unfold merge_items. intros H. destruct its as [|it t]; [discriminate|].
  destruct it as [[[[fa a] kind] pn] pp]. cbv beta iota in H.
  match type of H with context [items_same ?x ?y ?z] => destruct (items_same x y z) eqn:Es; [|discriminate] end.
  destruct (fa =? farm) eqn:Ef; [|discriminate]. apply Z.eqb_eq in Ef. destruct (v_ok e); [|discriminate].
  destruct (v_fact e) as [kf lf]. destruct (v_fmerge e) as [f' F']. cbn [fst snd].
  assert (Last : exists fa0 a0 ki0 pn0 pp0 t0, (fa, a, kind, pn, pp) :: t = (fa0, a0, ki0, pn0, pp0) :: t0 /\ fa0 = farm /\
                 items_same fa0 ki0 ((fa, a, kind, pn, pp) :: t) = true) by (exists fa, a, kind, pn, pp, t; auto).
  destruct (kind =? 0) eqn:Ek.
  - destruct (mint_wfm s u farm f' F' 0 kf lf) as [s1 m1] eqn:Hm. inversion H; subst s' m amt law; clear H.
    destruct (mint_wfm_bk' _ _ _ _ _ _ _ _ _ _ Hm) as (Ea & Eb & Ec). split; [exact Ea|]. split; [exact Eb|].
    split; [|split; [reflexivity | exact Last]].
    intros K Hi. inversion Hi as [|? ? H1 _]; subst. cbn [item_kf] in H1. apply Z.eqb_eq in Ek.
    unfold KF. rewrite Ec. apply Forall_app. split; [exact K|]. constructor; [|constructor]. unfold kf_ok. cbn. lia.
  - mon H r Hr. destruct r as [s1 [tw tl]]. destruct (kill_items_fr _ _ _ _ Hr) as (Ka & Kb & Kc).
    destruct (mint_wlp s1 tw kf lf) as [s2 n] eqn:Hm2. destruct (mint_wlp_fr _ _ _ _ _ _ Hm2) as (Ma & Mb & Mc).
    destruct (mint_wfm s2 u farm f' F' 1 n tw) as [s3 m3] eqn:Hm3. inversion H; subst s' m amt law; clear H.
    destruct (mint_wfm_bk' _ _ _ _ _ _ _ _ _ _ Hm3) as (Ea & Eb & Ec).
    split; [congruence|]. split; [intros key; rewrite Eb, Mb, Kb; reflexivity|].
    split; [|split; [reflexivity | exact Last]].
    intros K Hi. inversion Hi as [|? ? H1 _]; subst. cbn [item_kf] in H1. apply Z.eqb_neq in Ek.
    unfold KF. rewrite Ec, Mc, Kc. apply Forall_app. split; [exact K|]. constructor; [|constructor]. unfold kf_ok. cbn. lia.
Qed.

(** when all items belong to one farm, the farm tokens taken are those of [toks] under that farm's keys *)
Fixpoint ksum (k : Z) (toks : list (Z * Z)) : Z :=
  match toks with [] => 0 | (n, x) :: t => (if k =? n then x else 0) + ksum k t end.

Lemma fkey_inj f farm f' farm' : (farm = 0 \/ farm = 1) -> (farm' = 0 \/ farm' = 1) ->
  (fkey f farm =? fkey f' farm') = (f =? f') && (farm =? farm').
Proof.
  intros H H'. unfold fkey.
  destruct (Z.eq_dec f f') as [->|N1]; destruct (Z.eq_dec farm farm') as [->|N2].
  - rewrite !Z.eqb_refl. reflexivity.
  - rewrite Z.eqb_refl. replace (farm =? farm') with false by (symmetry; apply Z.eqb_neq; exact N2).
    apply Z.eqb_neq. lia.
  - replace (f =? f') with false by (symmetry; apply Z.eqb_neq; exact N1). apply Z.eqb_neq. lia.
  - replace (f =? f') with false by (symmetry; apply Z.eqb_neq; exact N1). apply Z.eqb_neq. lia.
Qed.

Lemma ksumf_same its : forall toks farm ki k farm', items_same farm ki its = true -> length toks = length its ->
  (farm = 0 \/ farm = 1) -> (farm' = 0 \/ farm' = 1) ->
  ksumf its toks (fkey k farm') = if farm =? farm' then ksum k toks else 0.
Proof.
  induction its as [|it t IH]; intros toks farm ki k farm' Hs Hl Hf Hf'.
  - destruct toks; [|discriminate]. cbn. destruct (farm =? farm'); reflexivity.
  - destruct it as [[[[fa a] ki0] pn] pp]. destruct toks as [|[f x] toks]; [discriminate|]. cbn [items_same] in Hs.
    apply andb_prop in Hs. destruct Hs as [Hs1 Hs2]. apply andb_prop in Hs1. destruct Hs1 as [E1 E2]. apply Z.eqb_eq in E1. subst fa.
    cbn [ksumf ksum]. rewrite (IH toks farm ki k farm' Hs2) by (auto; cbn in Hl; lia).
    rewrite fkey_inj by assumption. rewrite (Z.eqb_sym f k). destruct (k =? f); destruct (farm =? farm'); cbn [andb]; lia.
Qed.

(** ---- the books after each endpoint of the proxy *)
Lemma ep_add_liq_bk s u pid p1 p2 extra e s' x : ep_add_liq s u pid p1 p2 extra e = Ok (s', x) ->
  bk s s' (fst (fst (v_pair e))) df0.
Proof.
  unfold ep_add_liq. intros H. chk H. chk H. chk H. chk H. destruct (v_pair e) as [[lp used1] used2]. cbn [fst].
  mon H left1 Hl1. mon H left2 Hl2. destruct extra as [|q t].
  - destruct (mint_wlp_user s u lp _ _) as [s1 n] eqn:Hm. inversion H; subst. eapply mint_wlp_user_bk; eauto.
  - mon H r Hr. destruct r as [s1 [ta tl]]. mon H z Hz. destruct (v_fact e) as [kf lf].
    destruct (mint_wlp_user s1 u (lp + ta) kf lf) as [s2 n] eqn:Hm. inversion H; subst.
    eapply bk_ext; [eapply bk_trans; [eapply take_wlp_list_bk; eauto | eapply mint_wlp_user_bk; eauto] | lia | intros; reflexivity].
Qed.

Lemma ep_remove_liq_bk s u pid p e s' x : ep_remove_liq s u pid p e = Ok (s', x) -> bk s s' (- p_amt p) df0.
Proof.
  unfold ep_remove_liq. intros H. chk H. chk H. mon H r Hr. destruct r as [s1 [k lp]]. chk H.
  destruct (v_pair e) as [[z rb] ro]. pose proof (take_wlp_user_bk _ _ _ _ _ _ Hr) as B.
  destruct (lp <? rb); [|mon H en Hen]; inversion H; subst; exact B.
Qed.

Lemma enter_pre_bk s u farm p s1 kind minted : enter_pre s u farm p = Ok (s1, kind, minted) ->
  bk s s1 (if p_tok p =? TK_WLP then - p_amt p else 0) df0 /\ ((farm = 0 /\ kind = 0) \/ (farm = 1 /\ kind = 1)) /\
  (p_tok p = TK_LOCKED \/ p_tok p = TK_WLP) /\ (p_tok p =? TK_WLP) = (farm =? 1).
Proof.
  unfold enter_pre. intros H. destruct (p_tok p =? TK_LOCKED) eqn:El.
  - chk H. inversion H; subst. apply Z.eqb_eq in C, El. rewrite El. cbn. split; [apply bk_same; reflexivity|].
    split; [left; auto|]. split; [left; reflexivity|]. subst farm. reflexivity.
  - destruct (p_tok p =? TK_WLP) eqn:Ew; [|discriminate]. destruct (getn (s_wlp s) (p_non p)) as [w|]; [|discriminate].
    mon H h Hh. mon H z Hz. mon H lp Hlp. apply sub_chk_ok in Hlp. destruct Hlp as [_ ->]. chk H. inversion H; subst.
    apply Z.eqb_eq in C, Ew. split; [|split; [right; auto | split; [right; exact Ew | subst farm; reflexivity]]].
    split; [cbn; lia|]. split; [intros key; cbn; unfold df0; lia | auto].
Qed.

Lemma ep_enter_farm_bk s u farm p extra e s' x : ep_enter_farm s u farm p extra e = Ok (s', x) ->
  exists s1 kind minted, enter_pre s u farm p = Ok (s1, kind, minted) /\
    let dlp := if farm =? 1 then - p_amt p else 0 in
    match extra with
    | [] => bk s s' dlp (df1 (fkey (fst (v_farm e)) farm) (snd (v_farm e)))
    | _ => exists s2 its, take_wfm_list s1 u extra = Ok (s2, its) /\
           forall toks, wfm_toks s1 u extra = Ok toks ->
             bk s s' dlp (dfadd (fun key => - ksumf its toks key) (df1 (fkey (fst (v_fmerge e)) farm) (snd (v_fmerge e)))) /\
             items_same farm kind its = true /\ length toks = length its
    end.
Proof.
  unfold ep_enter_farm. intros H. chk H. chk H. mon H r0 Hr0. destruct r0 as [[s1 kind] minted]. chk H.
  exists s1, kind, minted. split; [exact Hr0|].
  destruct (enter_pre_bk _ _ _ _ _ _ _ Hr0) as (B0 & Kk & _ & Ew). rewrite Ew in B0. cbv zeta.
  destruct (v_farm e) as [f F]. destruct (v_rew e) as [rk ra]. cbn [fst snd].
  destruct extra as [|q t].
  - destruct (mint_wfm s1 u farm f F kind (p_non p) (p_amt p)) as [s2 m] eqn:Hm. inversion H; subst.
    eapply bk_ext; [eapply bk_trans; [exact B0 | eapply mint_wfm_bk2; eauto] | lia | intros; unfold dfadd, df0; lia].
  - mon H r Hr. destruct r as [s2 its]. mon H z Hz. mon H r2 Hr2. destruct r2 as [s5 [[m amt] law]]. inversion H; subst s' x; clear H.
    exists s2, its. split; [exact Hr|]. intros toks Ht.
    destruct (take_wfm_list_bk _ _ _ _ _ _ Hr Ht) as (B1 & K1 & _ & N1).
    destruct (merge_items_bk _ _ _ _ _ _ _ _ _ Hr2) as (Ma & Mb & Mc & _ & (fa & a0 & ki & pn & pp & t0 & Eits & Efa & Es)).
    inversion Eits; subst fa a0 ki pn pp t0. cbn [items_same] in Es. apply andb_prop in Es. destruct Es as [_ Es].
    split; [|split; [exact Es | exact N1]].
    destruct B0 as (A0 & F0 & K0). destruct B1 as (A1 & F1 & K1').
    split; [lia|]. split.
    + intros key. rewrite Mb, F1, F0. unfold dfadd, df0. lia.
    + intros K. apply Mc; [apply K1'; apply K0; exact K|]. constructor; [exact Kk | apply K1; apply K0; exact K].
Qed.

Lemma ep_exit_farm_bk s u farm p e s' x : ep_exit_farm s u farm p e = Ok (s', x) ->
  exists w, getn (s_wfm s) (p_non p) = Some w /\ wf_farm w = farm /\
    bk s s' (if wf_kind w =? 0 then 0 else snd (v_farm e)) (df1 (fkey (wf_f w) farm) (- p_amt p)).
Proof.
  unfold ep_exit_farm. intros H. chk H. chk H. mon H r Hr. destruct r as [s1 [w pp]]. chk H. chk H.
  destruct (v_rew e) as [rk ra]. chk H. apply Z.eqb_eq in C1.
  destruct (take_wfm_bk _ _ _ _ _ _ _ Hr) as (Hw & B1 & _ & L1). rewrite C1 in B1.
  exists w. split; [exact Hw|]. split; [exact C1|].
  set (F := snd (v_farm e)) in *. clearbody F.
  destruct (F =? p_amt p).
  - destruct (wf_kind w =? 0); inversion H; subst; [exact B1|].
    eapply bk_ext; [eapply bk_trans; [exact B1 | apply (bk_ext _ _ F df0 F df0); [|reflexivity | reflexivity]] | lia | intros; unfold dfadd, df0; lia].
    split; [cbn; lia|]. split; [intros key; cbn; unfold df0; lia | auto].
  - mon H rem Hrem. destruct (wf_kind w =? 0).
    + mon H en Hen. inversion H; subst. exact B1.
    + destruct (getn (s_wlp s1) (wf_pn w)) as [wl|]; [|discriminate].
      mon H lnew Hln. mon H r2 Hr2. destruct r2 as [s2 [k lold]]. mon H extra Hex. mon H en Hen.
      destruct (mint_wlp (upd_lp s2 (s_lp s2 + F)) rem k lnew) as [s4 n] eqn:Hm. inversion H; subst s' x; clear H.
      destruct (kill_wlp_fr _ _ _ _ _ Hr2) as (Ka & Kb & Kc). destruct (mint_wlp_fr _ _ _ _ _ _ Hm) as (Ma & Mb & Mc).
      cbn in Ma, Mb, Mc. destruct B1 as (A1 & F1 & K1).
      split; [cbn; lia|]. split; [intros key; cbn; rewrite Mb, Kb, F1; lia|].
      intros K. unfold KF. cbn. rewrite Mc, Kc. apply K1. exact K.
Qed.

Lemma ep_claim_bk s u farm p e s' x : ep_claim s u farm p e = Ok (s', x) ->
  exists w, getn (s_wfm s) (p_non p) = Some w /\ wf_farm w = farm /\
    bk s s' 0 (dfadd (df1 (fkey (wf_f w) farm) (- p_amt p)) (df1 (fkey (fst (v_farm e)) farm) (snd (v_farm e)))).
Proof.
  unfold ep_claim. intros H. chk H. chk H. mon H r Hr. destruct r as [s1 [w pp]]. chk H. chk H. apply Z.eqb_eq in C1.
  destruct (v_farm e) as [f F]. destruct (v_rew e) as [rk ra]. cbn [fst snd].
  destruct (mint_wfm s1 u farm f F (wf_kind w) (wf_pn w) pp) as [s2 m] eqn:Hm. inversion H; subst s' x; clear H.
  destruct (take_wfm_bk _ _ _ _ _ _ _ Hr) as (Hw & B1 & K1 & L1). rewrite C1 in B1.
  exists w. split; [exact Hw|]. split; [exact C1|].
  destruct (mint_wfm_bk' _ _ _ _ _ _ _ _ _ _ Hm) as (Ea & Eb & Ec). destruct B1 as (A1 & F1 & K1').
  split; [lia|]. split; [intros key; rewrite Eb, F1; unfold dfadd; lia|].
  intros K. unfold KF. rewrite Ec. apply Forall_app. split; [apply K1'; exact K|]. constructor; [|constructor].
  specialize (K1 K). unfold kf_ok in *. cbn. rewrite <- C1. exact K1.
Qed.

Lemma ep_merge_wlp_bk s u ps e s' x : ep_merge_wlp s u ps e = Ok (s', x) -> bk s s' 0 df0.
Proof.
  unfold ep_merge_wlp. intros H. chk H. mon H r Hr. destruct r as [s1 [ta tl]]. chk H. destruct (v_fact e) as [kf lf].
  destruct (mint_wlp_user s1 u ta kf lf) as [s2 n] eqn:Hm. inversion H; subst.
  eapply bk_ext; [eapply bk_trans; [eapply take_wlp_list_bk; eauto | eapply mint_wlp_user_bk; eauto] | lia | intros; reflexivity].
Qed.

Lemma ep_merge_wfm_bk s u farm ps e s' x : ep_merge_wfm s u farm ps e = Ok (s', x) ->
  exists s1 its, take_wfm_list s u ps = Ok (s1, its) /\
    forall toks, wfm_toks s u ps = Ok toks ->
      bk s s' 0 (dfadd (fun key => - ksumf its toks key) (df1 (fkey (fst (v_fmerge e)) farm) (snd (v_fmerge e)))) /\
      (exists ki, items_same farm ki its = true) /\ length toks = length its.
Proof.
  unfold ep_merge_wfm. intros H. chk H. chk H. mon H r Hr. destruct r as [s1 its].
  mon H r2 Hr2. destruct r2 as [s2 [[m amt] law]]. destruct (v_rew e) as [rk ra]. inversion H; subst s' x; clear H.
  exists s1, its. split; [exact Hr|]. intros toks Ht.
  destruct (take_wfm_list_bk _ _ _ _ _ _ Hr Ht) as (B1 & K1 & _ & N1).
  destruct (merge_items_bk _ _ _ _ _ _ _ _ _ Hr2) as (Ma & Mb & Mc & _ & (fa & a0 & ki & pn & pp & t0 & Eits & Efa & Es)).
  subst fa. split; [|split; [exists ki; exact Es | exact N1]].
  destruct B1 as (A1 & F1 & K1').
  split; [cbn; lia|]. split.
  - intros key. cbn [s_farm locked_in upd_locked]. rewrite Mb, F1. unfold dfadd. lia.
  - intros K. unfold KF. cbn [s_wfm locked_in upd_locked]. apply Mc; [apply K1'; exact K | apply K1; exact K].
Qed.

Lemma ep_inc_lp_bk s u p e s' x : ep_inc_lp s u p e = Ok (s', x) -> bk s s' 0 df0.
Proof.
  unfold ep_inc_lp. intros H. chk H. mon H r Hr. destruct r as [s1 [k lp]]. chk H. destruct (v_fact e) as [kf lf].
  destruct (mint_wlp_user s1 u (p_amt p) kf lf) as [s2 n] eqn:Hm. inversion H; subst.
  eapply bk_ext; [eapply bk_trans; [eapply take_wlp_user_bk; eauto | eapply mint_wlp_user_bk; eauto] | lia | intros; reflexivity].
Qed.

Lemma ep_inc_fm_bk s u p e s' x : ep_inc_fm s u p e = Ok (s', x) -> bk s s' 0 df0.
Proof.
  unfold ep_inc_fm. intros H. chk H. mon H r Hr. destruct r as [s1 [w pp]]. destruct (v_fact e) as [kf lf].
  destruct (take_wfm_bk _ _ _ _ _ _ _ Hr) as (Hw & (A1 & F1 & K1') & K1 & L1).
  destruct (wf_kind w =? 0) eqn:Ek.
  - chk H. destruct (mint_wfm s1 u (wf_farm w) (wf_f w) (p_amt p) 0 kf lf) as [s2 m] eqn:Hm. inversion H; subst s' x; clear H.
    destruct (mint_wfm_bk' _ _ _ _ _ _ _ _ _ _ Hm) as (Ea & Eb & Ec).
    split; [lia|]. split; [intros key; rewrite Eb, F1; unfold df1, df0; destruct (_ =? key); lia|].
    intros K. unfold KF. rewrite Ec. apply Forall_app. split; [apply K1'; exact K|]. constructor; [|constructor].
    specialize (K1 K). apply Z.eqb_eq in Ek. unfold kf_ok in *. cbn. lia.
  - mon H r2 Hr2. destruct r2 as [s2 [k lq]]. chk H. destruct (release_wlp_fr _ _ _ _ _ Hr2) as (Ra & Rb & Rc).
    destruct (mint_wlp s2 pp kf lf) as [s3 n] eqn:Hm3. destruct (mint_wlp_fr _ _ _ _ _ _ Hm3) as (Ma & Mb & Mc).
    destruct (mint_wfm s3 u (wf_farm w) (wf_f w) (p_amt p) 1 n pp) as [s4 m] eqn:Hm4. inversion H; subst s' x; clear H.
    destruct (mint_wfm_bk' _ _ _ _ _ _ _ _ _ _ Hm4) as (Ea & Eb & Ec).
    split; [lia|]. split; [intros key; rewrite Eb, Mb, Rb, F1; unfold df1, df0; destruct (_ =? key); lia|].
    intros K. unfold KF. rewrite Ec, Mc, Rc. apply Forall_app. split; [apply K1'; exact K|]. constructor; [|constructor].
    specialize (K1 K). apply Z.eqb_neq in Ek. unfold kf_ok in *. cbn. lia.
Qed.

Lemma plain_bk s o s' x : step s o = Ok (s', x) ->
  match o with SetPair _ _ | SetFarm _ _ _ | XferWlp _ _ _ _ | XferWfm _ _ _ _ => bk s s' 0 df0 | _ => True end.
Proof.
  destruct o; cbn [step]; intros H; try exact I.
  - chk H. chk H. inversion H; subst. apply bk_same; reflexivity.
  - chk H. chk H. chk H. inversion H; subst. destruct (farm =? 0); apply bk_same; reflexivity.
  - unfold ep_xfer_wlp in H. chk H. mon H h Hh. inversion H; subst. apply bk_same; reflexivity.
  - unfold ep_xfer_wfm in H. chk H. mon H h Hh. inversion H; subst. apply bk_same; reflexivity.
Qed.

(** ---- the pair model's LP ledger, row of the proxy *)
Module PL.
Import MX.Model.Pair.

Definition lpx (p : pair) : Z := lp_of p PX.

Lemma set_pool_lp p a b c : p_lp (set_pool p a b c) = p_lp p. Proof. reflexivity. Qed.
Lemma set_bals_lp p a b : p_lp (set_bals p a b) = p_lp p. Proof. reflexivity. Qed.
Lemma add_bal_lp p t a : p_lp (add_bal p t a) = p_lp p. Proof. unfold add_bal. destruct (t =? T1); reflexivity. Qed.
Lemma set_rs_lp p o a b : p_lp (set_rs p o a b) = p_lp p. Proof. unfold set_rs. destruct o; reflexivity. Qed.

Lemma sub_bal_lp p t a p' : sub_bal p t a = Ok p' -> p_lp p' = p_lp p.
Proof. unfold sub_bal. intros H. apply bind_ok in H. destruct H as (b & _ & H). inversion H; subst. destruct (t =? T1); reflexivity. Qed.

Lemma burn_tok_lp p e t a p' e' : burn_tok p e t a = Ok (p', e') -> p_lp p' = p_lp p.
Proof.
  unfold burn_tok. destruct (a =? 0); intros H; [inversion H; reflexivity|].
  apply bind_ok in H. destruct H as (p1 & H1 & H). inversion H; subst. eapply sub_bal_lp; eauto.
Qed.

Lemma swap_safe_lp p o a p' out : swap_safe_no_fee p o a = Ok (p', out) -> p_lp p' = p_lp p.
Proof.
  unfold swap_safe_no_fee. intros H. destruct (negb _); [|discriminate].
  apply bind_ok in H. destruct H as (x & _ & H). destruct (_ && _); [|discriminate].
  apply bind_ok in H. destruct H as (ro & _ & H). inversion H; subst. apply set_rs_lp.
Qed.

Lemma send_fee_slice_lp p e o ft slice req p' e' : send_fee_slice p e o ft slice req = Ok (p', e') -> p_lp p' = p_lp p.
Proof.
  unfold send_fee_slice. intros H. destruct (ft =? req); [eapply burn_tok_lp; eauto|].
  destruct (_ || _).
  - apply bind_ok in H. destruct H as ([p1 out] & H1 & H). rewrite (burn_tok_lp _ _ _ _ _ _ H). eapply swap_safe_lp; eauto.
  - destruct (has_trusted p ft req).
    + apply bind_ok in H. destruct H as (p1 & H1 & H). inversion H; subst. eapply sub_bal_lp; eauto.
    + destruct (_ && _); [|discriminate].
      apply bind_ok in H. destruct H as ([p1 out] & H1 & H). apply bind_ok in H. destruct H as (p2 & H2 & H).
      inversion H; subst. rewrite (sub_bal_lp _ _ _ _ H2). eapply swap_safe_lp; eauto.
Qed.

Lemma send_slices_lp ds : forall p e o ft slice p' e', send_slices p e o ft slice ds = Ok (p', e') -> p_lp p' = p_lp p.
Proof.
  induction ds as [|[a req] t IH]; intros p e o ft slice p' e' H; simpl in H.
  - inversion H; reflexivity.
  - apply bind_ok in H. destruct H as ([p1 e1] & H1 & H). rewrite (IH _ _ _ _ _ _ _ H). eapply send_fee_slice_lp; eauto.
Qed.

Lemma send_fee_lp p e o ft fee p' e' : send_fee p e o ft fee = Ok (p', e') -> p_lp p' = p_lp p.
Proof.
  unfold send_fee. destruct (fee =? 0); intros H; [inversion H; reflexivity|].
  apply bind_ok in H. destruct H as ([[p1 e1] rest] & H1 & H).
  assert (E1 : p_lp p1 = p_lp p).
  { destruct (p_cut p) as [cut|]; [|inversion H1; reflexivity].
    apply bind_ok in H1. destruct H1 as (rem & _ & H1). destruct (0 <? _); [|inversion H1; reflexivity].
    apply bind_ok in H1. destruct H1 as (p2 & H2 & H1). inversion H1; subst. eapply sub_bal_lp; eauto. }
  destruct (_ =? 0); [inversion H; subst; exact E1|]. destruct (_ =? 0); [inversion H; subst; exact E1|].
  rewrite (send_slices_lp _ _ _ _ _ _ _ _ H). exact E1.
Qed.

Lemma lp_of_credit p a amt b : lp_of (lp_credit p a amt) b = if a =? b then lp_of p b + amt else lp_of p b.
Proof.
  unfold lp_credit, lp_of, set_lp. simpl. destruct (a =? b) eqn:E.
  - apply Z.eqb_eq in E. subst. apply aget_aset_same.
  - apply Z.eqb_neq in E. apply aget_aset_other. exact E.
Qed.

Lemma lp_of_debit p a amt p' b : lp_debit p a amt = Ok p' -> lp_of p' b = if a =? b then lp_of p b - amt else lp_of p b.
Proof.
  unfold lp_debit. intros H. destruct (negb _); [|discriminate]. apply bind_ok in H. destruct H as (x & Hx & H).
  apply sub_chk_ok in Hx. destruct Hx as [_ ->]. inversion H; subst. unfold lp_of, set_lp. simpl. destruct (a =? b) eqn:E.
  - apply Z.eqb_eq in E. subst. apply aget_aset_same.
  - apply Z.eqb_neq in E. apply aget_aset_other. exact E.
Qed.

Lemma lp_of_eq p p' b : p_lp p' = p_lp p -> lp_of p' b = lp_of p b.
Proof. unfold lp_of. intros ->. reflexivity. Qed.

Lemma pool_remove_lp p lp m1 m2 p' x1 x2 : pool_remove p lp m1 m2 = Ok (p', x1, x2) -> p_lp p' = p_lp p.
Proof.
  unfold pool_remove. intros H. destruct (_ <=? _); [|discriminate].
  apply bind_ok in H. destruct H as (y1 & _ & H). destruct (0 <? y1); [|discriminate]. destruct (m1 <=? y1); [|discriminate].
  destruct (y1 <? _); [|discriminate].
  apply bind_ok in H. destruct H as (y2 & _ & H). destruct (0 <? y2); [|discriminate]. destruct (m2 <=? y2); [|discriminate].
  destruct (y2 <? _); [|discriminate].
  apply bind_ok in H. destruct H as (s' & _ & H). apply bind_ok in H. destruct H as (r1 & _ & H).
  apply bind_ok in H. destruct H as (r2 & _ & H). inversion H; subst. reflexivity.
Qed.

(** addLiquidity by [c]: [c]'s LP balance grows by the LP minted; the pair's own row may grow (first liquidity) *)
Lemma ep_add_row p c a1 a2 m1 m2 p' o e b : ep_add p c a1 a2 m1 m2 = Ok (p', o, e) -> b <> SELF ->
  lp_of p' b = lp_of p b + (if c =? b then nth 0 o 0 else 0).
Proof.
  unfold ep_add. intros H Hb. destruct (_ && _); [|discriminate]. destruct (_ && _); [|discriminate].
  destruct (is_state_active _); [|discriminate]. destruct (match p_adder p with Some _ => _ | None => _ end); [|discriminate].
  apply bind_ok in H. destruct H as ([o1 o2] & _ & H). apply bind_ok in H. destruct H as ([p1 liq] & Hl & H).
  destruct (k_check p p1); [|discriminate]. inversion H; subst p' o e; clear H. cbn [nth].
  rewrite lp_of_credit. rewrite !(lp_of_eq p1 (add_bal (add_bal p1 T1 o1) T2 o2)) by (rewrite !add_bal_lp; reflexivity).
  assert (E : lp_of p1 b = lp_of p b).
  { destruct (p_S p =? 0).
    - destruct (_ <? _); [|discriminate]. inversion Hl; subst. rewrite (lp_of_eq (lp_credit p SELF MINIMUM_LIQUIDITY) _) by reflexivity.
      rewrite lp_of_credit. destruct (SELF =? b) eqn:E0; [apply Z.eqb_eq in E0; congruence | reflexivity].
    - apply bind_ok in Hl. destruct Hl as (l1 & _ & Hl). apply bind_ok in Hl. destruct Hl as (l2 & _ & Hl).
      destruct (0 <? _); [|discriminate]. inversion Hl; subst. reflexivity. }
  rewrite E. destruct (c =? b); lia.
Qed.

Lemma ep_remove_row p c lp m1 m2 p' o e b : ep_remove p c lp m1 m2 = Ok (p', o, e) ->
  lp_of p' b = lp_of p b - (if c =? b then lp else 0).
Proof.
  unfold ep_remove. intros H. destruct (_ && _); [|discriminate]. destruct (is_state_active _); [|discriminate].
  destruct (0 <? lp); [|discriminate].
  apply bind_ok in H. destruct H as (p0 & H0 & H). apply bind_ok in H. destruct H as ([[p1 x1] x2] & H1 & H).
  destruct (_ <=? _); [|discriminate].
  apply bind_ok in H. destruct H as (p2 & H2 & H). apply bind_ok in H. destruct H as (p3 & H3 & H). inversion H; subst p' o e; clear H.
  rewrite (lp_of_eq p0 p3) by (rewrite (sub_bal_lp _ _ _ _ H3), (sub_bal_lp _ _ _ _ H2); eapply pool_remove_lp; eauto).
  rewrite (lp_of_debit _ _ _ _ b H0). destruct (c =? b); lia.
Qed.

Lemma ep_lp_transfer_row p s d amt p' o e b : ep_lp_transfer p s d amt = Ok (p', o, e) ->
  lp_of p' b = lp_of p b - (if s =? b then amt else 0) + (if d =? b then amt else 0).
Proof.
  unfold ep_lp_transfer. intros H. destruct (0 <? amt); [|discriminate].
  apply bind_ok in H. destruct H as (p1 & H1 & H). inversion H; subst. rewrite lp_of_credit, (lp_of_debit _ _ _ _ b H1).
  destruct (s =? b); destruct (d =? b); lia.
Qed.

(** an operation of the pair that does not name [b] leaves [b]'s LP balance alone *)
Lemma step_row p o p' po ef b : step p o = Ok (p', po, ef) -> b <> SELF -> ~ In b (pair_accts o) -> lp_of p' b = lp_of p b.
Proof.
  intros H Hs Hn. destruct o; cbn [step pair_accts] in *.
  - (* add initial *) unfold ep_add_initial in H. destruct (match p_adder p with Some _ => _ | None => _ end); [|discriminate].
    destruct (_ && _); [|discriminate]. destruct (negb _); [|discriminate]. destruct (_ =? 0); [|discriminate]. cbv zeta in H.
    destruct (MINIMUM_LIQUIDITY <? Z.min a1 a2); [|discriminate]. inversion H; subst.
    match goal with |- lp_of (set_state ?q ?st) b = _ => rewrite (lp_of_eq q (set_state q st) b) by reflexivity end.
    rewrite lp_of_credit. rewrite !(lp_of_eq (lp_credit p SELF MINIMUM_LIQUIDITY) (add_bal (add_bal (set_pool (lp_credit p SELF MINIMUM_LIQUIDITY) (p_r1 p + a1) (p_r2 p + a2) (Z.min a1 a2)) T1 a1) T2 a2)) by (rewrite !add_bal_lp; reflexivity).
    rewrite lp_of_credit.
    destruct (c =? b) eqn:E1; [apply Z.eqb_eq in E1; exfalso; apply Hn; left; exact E1|].
    destruct (SELF =? b) eqn:E2; [apply Z.eqb_eq in E2; congruence | reflexivity].
  - rewrite (ep_add_row _ _ _ _ _ _ _ _ _ b H Hs). destruct (c =? b) eqn:E1; [apply Z.eqb_eq in E1; exfalso; apply Hn; left; exact E1 | lia].
  - rewrite (ep_remove_row _ _ _ _ _ _ _ _ b H). destruct (c =? b) eqn:E1; [apply Z.eqb_eq in E1; exfalso; apply Hn; left; exact E1 | lia].
  - (* swap in *) apply lp_of_eq. unfold ep_swap_in in H. destruct (0 <? minout); [|discriminate]. destruct (0 <? ain); [|discriminate].
    apply bind_ok in H. destruct H as (o & _ & H). destruct (can_swap _); [|discriminate]. destruct (minout <? _); [|discriminate].
    apply bind_ok in H. destruct H as (out & _ & H). destruct (minout <=? out); [|discriminate]. destruct (out <? _); [|discriminate].
    destruct (negb _); [|discriminate]. cbv zeta in H. apply bind_ok in H. destruct H as (after & _ & H).
    apply bind_ok in H. destruct H as (ro & _ & H). destruct (k_check _ _); [|discriminate].
    apply bind_ok in H. destruct H as ([p3 e] & H3 & H). apply bind_ok in H. destruct H as (p4 & H4 & H). inversion H; subst.
    rewrite (sub_bal_lp _ _ _ _ H4).
    destruct (0 <? _); [rewrite (send_fee_lp _ _ _ _ _ _ _ H3) | inversion H3; subst]; rewrite add_bal_lp, set_rs_lp; reflexivity.
  - (* swap out *) apply lp_of_eq. unfold ep_swap_out in H. destruct (0 <? aout); [|discriminate]. destruct (0 <? ainmax); [|discriminate].
    apply bind_ok in H. destruct H as (o & _ & H). destruct (can_swap _); [|discriminate]. destruct (aout <? _); [|discriminate].
    apply bind_ok in H. destruct H as (ain & _ & H). destruct (ain <=? ainmax); [|discriminate]. destruct (negb _); [|discriminate].
    cbv zeta in H. apply bind_ok in H. destruct H as (after & _ & H).
    apply bind_ok in H. destruct H as (ro & _ & H). destruct (k_check _ _); [|discriminate].
    apply bind_ok in H. destruct H as ([p3 e] & H3 & H). apply bind_ok in H. destruct H as (p4 & H4 & H). inversion H; subst.
    rewrite (sub_bal_lp _ _ _ _ H4).
    destruct (0 <? _); [rewrite (send_fee_lp _ _ _ _ _ _ _ H3) | inversion H3; subst]; rewrite add_bal_lp, set_rs_lp; reflexivity.
  - (* swap no fee *) apply lp_of_eq. unfold ep_swap_no_fee in H. destruct (existsb _ _); [|discriminate]. destruct (0 <? ain); [|discriminate].
    apply bind_ok in H. destruct H as (o & _ & H). destruct (can_swap _); [|discriminate].
    apply bind_ok in H. destruct H as ([p1 out] & H1 & H). destruct (0 <? out); [|discriminate]. destruct (k_check _ _); [|discriminate].
    apply bind_ok in H. destruct H as ([p3 e] & H3 & H). inversion H; subst.
    rewrite (burn_tok_lp _ _ _ _ _ _ H3), add_bal_lp. eapply swap_safe_lp; eauto.
  - (* remove buy back *) unfold ep_remove_buyback in H. destruct (existsb _ _); [|discriminate]. destruct (0 <? lp); [|discriminate].
    apply bind_ok in H. destruct H as (p0 & H0 & H). apply bind_ok in H. destruct H as ([[p1 x1] x2] & H1 & H).
    apply bind_ok in H. destruct H as ([p2 e2] & H2 & H). apply bind_ok in H. destruct H as ([p3 e3] & H3 & H). inversion H; subst.
    rewrite (lp_of_eq p0 p') by (rewrite (send_fee_slice_lp _ _ _ _ _ _ _ _ H3), (send_fee_slice_lp _ _ _ _ _ _ _ _ H2); eapply pool_remove_lp; eauto).
    rewrite (lp_of_debit _ _ _ _ b H0). destruct (c =? b) eqn:E1; [apply Z.eqb_eq in E1; exfalso; apply Hn; left; exact E1 | reflexivity].
  - unfold ep_set_fee in H. destruct (has_owner_perm c); [|discriminate]. destruct (_ && _); [|discriminate]. inversion H; subst. reflexivity.
  - unfold ep_set_fee_on in H. destruct (has_owner_perm c); [|discriminate]. destruct en.
    + destruct (negb _); [|discriminate]. inversion H; subst. reflexivity.
    + destruct (existsb _ _); [|discriminate]. destruct (existsb _ _); [|discriminate]. inversion H; subst. reflexivity.
  - unfold ep_set_collector in H. destruct (has_owner_perm c); [|discriminate]. destruct (_ && _); [|discriminate]. inversion H; subst. reflexivity.
  - unfold ep_set_state in H. destruct (has_owner_perm c); [|discriminate]. destruct (_ && _); [|discriminate]. inversion H; subst. reflexivity.
  - unfold ep_wl_add in H. destruct (has_owner_perm c); [|discriminate]. destruct (negb _); [|discriminate]. inversion H; subst. reflexivity.
  - unfold ep_wl_rm in H. destruct (has_owner_perm c); [|discriminate]. destruct (existsb _ _); [|discriminate]. inversion H; subst. reflexivity.
  - unfold ep_trust in H. destruct (has_owner_perm c); [|discriminate]. destruct (negb _); [|discriminate]. destruct (negb _); [|discriminate].
    inversion H; subst. reflexivity.
  - rewrite (ep_lp_transfer_row _ _ _ _ _ _ _ b H).
    destruct (src =? b) eqn:E1; [apply Z.eqb_eq in E1; exfalso; apply Hn; left; exact E1|].
    destruct (dst =? b) eqn:E2; [apply Z.eqb_eq in E2; exfalso; apply Hn; right; left; exact E2 | lia].
  - unfold ep_donate in H. destruct (_ && _); [|discriminate]. inversion H; subst. apply lp_of_eq. apply add_bal_lp.
Qed.
End PL.

(** ---- the farm models' position ledger, row of the proxy (the technique of the closed metastaking composition) *)
Module FH.
Import MX.Model.Farm.

Definition hpx (f : farm) (k : Z) : Z := held f k PX.

(** an operation of a farm names only accounts other than the proxy *)
Definition user_op (op : fop) : Prop := Forall (fun c => FI.valid_id c /\ c <> PX) (farm_accts op).

Lemma key_other n c k : FI.valid_id c -> c <> PX -> hkey n c <> hkey k PX.
Proof. unfold hkey, FI.valid_id, PX. intros. lia. Qed.

Lemma pxkey_ne k k' : k <> k' -> hkey k PX <> hkey k' PX.
Proof. unfold hkey. lia. Qed.

Lemma debit_other f c p f' : debit_held f c p = Ok f' -> FI.valid_id c -> c <> PX -> forall k, hpx f' k = hpx f k.
Proof.
  unfold debit_held. destruct p as [n x]. intros H Hc Hne k. destruct (0 <? x); [|discriminate].
  mon H b Hb. inversion H; subst. unfold hpx, held. cbn [f_held upd_tokens]. apply aget_aset_other. apply key_other; assumption.
Qed.

Lemma pay_in_other f c p f' : pay_in f c p = Ok f' -> FI.valid_id c -> c <> PX -> forall k, hpx f' k = hpx f k.
Proof.
  unfold pay_in. intros H Hc Hne k. mon H f1 H1. mon H o Ho. inversion H; subst.
  unfold hpx, held. cbn [f_held upd_out]. apply (debit_other _ _ _ _ H1 Hc Hne k).
Qed.

Lemma pay_all_other ps : forall f c f', pay_all f c ps = Ok f' -> FI.valid_id c -> c <> PX -> forall k, hpx f' k = hpx f k.
Proof.
  induction ps as [|p t IH]; intros f c f' H Hc Hne k; simpl in H.
  - inversion H; subst. reflexivity.
  - mon H f1 H1. rewrite (IH _ _ _ H Hc Hne k). apply (pay_in_other _ _ _ _ H1 Hc Hne k).
Qed.

Lemma settle_held f blk f' : settle f blk = Ok f' -> f_held f' = f_held f.
Proof.
  unfold settle. destruct (blk <=? f_last f); [intros H; inversion H; reflexivity|]. cbv zeta.
  destruct (_ =? 0); [intros H; inversion H; reflexivity|]. intros H. mon H inc Hinc. inversion H; subst. reflexivity.
Qed.

Lemma pay_reward_held f r b f' : pay_reward f r b = Ok f' -> f_held f' = f_held f.
Proof. intros H. destruct (FI.pay_reward_spec _ _ _ _ H) as (_ & T & _). unfold FI.toks in T. congruence. Qed.

Lemma check_update_held ps f u f' : check_update f u ps = Ok f' -> f_held f' = f_held f.
Proof. intros H. apply FI.check_update_only in H. destruct H as (_ & _ & _ & E & _). exact E. Qed.

Lemma decrease_user_held f p f' : decrease_user f p = Ok f' -> f_held f' = f_held f.
Proof. intros H. apply FI.decrease_user_only in H. destruct H as (_ & _ & _ & E & _). exact E. Qed.

Lemma mint_other f m c f' n : mint_pos f m c = (f', n) -> FI.valid_id c -> c <> PX -> forall k, hpx f' k = hpx f k.
Proof.
  unfold mint_pos. intros H Hc Hne k. inversion H; subst. unfold hpx, held. cbn [f_held upd_out upd_tokens].
  apply aget_aset_other. apply key_other; assumption.
Qed.

Lemma hpx_held f f' : f_held f' = f_held f -> forall k, hpx f' k = hpx f k.
Proof. intros E k. unfold hpx, held. rewrite E. reflexivity. Qed.

Ltac uop U := cbn [farm_accts] in U; unfold user_op in U; cbn [farm_accts] in U;
  repeat match goal with H : Forall _ (_ :: _) |- _ => inversion H; subst; clear H end.

(** operations of other accounts (and the owner's) never touch what the proxy holds *)
Lemma fstep_user_frame f op f' o : fstep f op = Ok (f', o) -> user_op op -> forall k, hpx f' k = hpx f k.
Proof.
  intros H U k. unfold user_op in U. destruct op; cbn [fstep farm_accts] in H, U.
  - (* enter *) inversion U as [|? ? [Hc Hne] _]; subst. unfold ep_enter in H. destruct (0 <? amt); [|discriminate].
    mon H f0 H0. destruct (active f0); [|discriminate]. mon H f1 H1. mon H f2 H2. mon H f4 H4. mon H m Hm.
    destruct (mint_pos _ m c) as [f6 n] eqn:Em. inversion H; subst f' o. clear H.
    unfold hpx at 1, held. cbn [f_held upd_money]. fold (held f6 k PX). fold (hpx f6 k).
    rewrite (mint_other _ _ _ _ _ Em Hc Hne k). unfold hpx at 1, held. cbn [f_held upd_core].
    rewrite (settle_held _ _ _ H4). cbn [f_held increase_user set_utot upd_tokens].
    rewrite (check_update_held _ _ _ _ H2). fold (held f1 k PX). fold (hpx f1 k).
    rewrite (pay_all_other _ _ _ _ H1 Hc Hne k). apply hpx_held. apply (pay_reward_held _ _ _ _ H0).
  - (* claim *) inversion U as [|? ? [Hc Hne] _]; subst. unfold ep_claim in H. destruct (active f); [|discriminate].
    mon H f1 H1. mon H f2 H2. mon H a Ha. mon H part Hp. mon H base Hb. mon H f3 H3. mon H f4 H4. mon H m Hm.
    destruct (mint_pos f4 m c) as [f5 n] eqn:Em. inversion H; subst f' o. clear H.
    rewrite (mint_other _ _ _ _ _ Em Hc Hne k), (hpx_held _ _ (check_update_held _ _ _ _ H4)),
            (hpx_held _ _ (pay_reward_held _ _ _ _ H3)), (hpx_held _ _ (settle_held _ _ _ H2)).
    apply (pay_all_other _ _ _ _ H1 Hc Hne k).
  - (* compound *) inversion U as [|? ? [Hc Hne] _]; subst. unfold ep_compound in H. destruct (active f); [|discriminate].
    destruct (f_same f); [|discriminate].
    mon H f1 H1. mon H f2 H2. mon H a Ha. mon H part Hp. mon H base Hb. cbv zeta in H. mon H f3 H3. mon H f4 H4. mon H m Hm.
    destruct (mint_pos f4 m c) as [f5 n] eqn:Em. inversion H; subst f' o. clear H.
    unfold hpx at 1, held. cbn [f_held upd_money increase_user set_utot upd_tokens]. fold (held f5 k PX). fold (hpx f5 k).
    rewrite (mint_other _ _ _ _ _ Em Hc Hne k), (hpx_held _ _ (check_update_held _ _ _ _ H4)).
    unfold hpx at 1, held. cbn [f_held upd_core]. fold (held f3 k PX). fold (hpx f3 k).
    rewrite (hpx_held _ _ (pay_reward_held _ _ _ _ H3)), (hpx_held _ _ (settle_held _ _ _ H2)).
    apply (pay_all_other _ _ _ _ H1 Hc Hne k).
  - (* exit *) inversion U as [|? ? [Hc Hne] _]; subst. unfold ep_exit in H. destruct (active f); [|discriminate].
    mon H f1 H1. mon H f2 H2. mon H a Ha. mon H part Hp. mon H base Hb. mon H f3 H3. mon H f4 H4.
    mon H sup Hsup. mon H age Hage. cbv zeta in H. mon H out Hout. mon H bal Hbal. inversion H; subst f' o. clear H.
    unfold hpx at 1, held. cbn [f_held upd_money upd_core]. fold (held f4 k PX). fold (hpx f4 k).
    rewrite (hpx_held _ _ (decrease_user_held _ _ _ H4)), (hpx_held _ _ (pay_reward_held _ _ _ _ H3)),
            (hpx_held _ _ (settle_held _ _ _ H2)).
    apply (pay_in_other _ _ _ _ H1 Hc Hne k).
  - (* merge *) inversion U as [|? ? [Hc Hne] _]; subst. unfold ep_merge in H. destruct (active f); [|discriminate].
    destruct ps as [|first rest]; [discriminate|].
    mon H f0 H0. mon H f1 H1. mon H f2 H2. mon H a Ha. mon H part Hp. mon H m0 Hm.
    destruct (mint_pos f2 _ c) as [f3 n] eqn:Em. inversion H; subst f' o. clear H.
    rewrite (mint_other _ _ _ _ _ Em Hc Hne k), (hpx_held _ _ (check_update_held _ _ _ _ H2)),
            (pay_all_other _ _ _ _ H1 Hc Hne k).
    apply hpx_held. apply (pay_reward_held _ _ _ _ H0).
  - (* claim boosted *) unfold ep_claim_boosted in H. destruct (negb _); [|discriminate]. destruct (active f); [|discriminate].
    mon H f1 H1. mon H f2 H2. inversion H; subst f' o. clear H.
    rewrite (hpx_held _ _ (pay_reward_held _ _ _ _ H2)). apply hpx_held. apply (settle_held _ _ _ H1).
  - (* transfer *) inversion U as [|? ? [Hs Hns] U2]; subst. inversion U2 as [|? ? [Hd Hnd] _]; subst.
    unfold ep_transfer in H. mon H f1 H1. inversion H; subst f' o. clear H.
    unfold hpx at 1, held. cbn [f_held upd_tokens]. rewrite aget_aset_other by (apply key_other; assumption).
    apply (debit_other _ _ _ _ H1 Hs Hns k).
  - destruct (admin c); [|discriminate]. destruct (_ && _); [|discriminate]. mon H f1 H1. inversion H; subst. apply hpx_held. cbn. apply (settle_held _ _ _ H1).
  - destruct (admin c); [|discriminate]. destruct (negb _); [|discriminate]. destruct (negb _); [|discriminate]. inversion H; subst. reflexivity.
  - destruct (admin c); [|discriminate]. mon H f1 H1. inversion H; subst. apply hpx_held. cbn. apply (settle_held _ _ _ H1).
  - destruct (admin c); [|discriminate]. destruct (_ && _); [|discriminate]. mon H f1 H1. inversion H; subst. apply hpx_held. cbn. apply (settle_held _ _ _ H1).
  - destruct (admin c); [|discriminate]. inversion H; subst. reflexivity.
  - destruct (admin c); [|discriminate]. destruct (_ || _); [|discriminate]. inversion H; subst. reflexivity.
  - destruct (admin c); [|discriminate]. destruct (_ && _); [|discriminate]. inversion H; subst. reflexivity.
  - destruct (admin c); [|discriminate]. destruct (_ && _); [|discriminate]. inversion H; subst. reflexivity.
  - destruct (0 <? amt); [|discriminate]. inversion H; subst. reflexivity.
Qed.

Lemma xfer_out_held f n u x f' o : ep_transfer f n PX u x = Ok (f', o) -> FI.valid_id u -> u <> PX ->
  forall k, hpx f' k = hpx f k - (if k =? n then x else 0).
Proof.
  intros H Hu Hne k. destruct (BF.ep_transfer_frame _ _ _ _ _ _ _ H) as (_ & _ & _ & Hh).
  unfold hpx, held. rewrite Hh. rewrite aget_aset_other by (apply key_other; assumption).
  destruct (k =? n) eqn:E.
  - apply Z.eqb_eq in E. subst k. rewrite aget_aset_same. reflexivity.
  - apply Z.eqb_neq in E. rewrite aget_aset_other by (apply pxkey_ne; congruence). lia.
Qed.

Lemma xfer_in_held f n u x f' o : ep_transfer f n u PX x = Ok (f', o) -> FI.valid_id u -> u <> PX ->
  forall k, hpx f' k = hpx f k + (if k =? n then x else 0).
Proof.
  intros H Hu Hne k. destruct (BF.ep_transfer_frame _ _ _ _ _ _ _ H) as (_ & _ & _ & Hh).
  unfold hpx, held. rewrite Hh.
  destruct (k =? n) eqn:E.
  - apply Z.eqb_eq in E. subst k. rewrite aget_aset_same. rewrite aget_aset_other by (apply key_other; assumption). reflexivity.
  - apply Z.eqb_neq in E. rewrite aget_aset_other by (apply pxkey_ne; congruence).
    rewrite aget_aset_other by (apply key_other; assumption). lia.
Qed.

Lemma xfers_out_held toks : forall f u f1, FB.fseq f (map (FB.xfer PX u) toks) = Ok f1 -> FI.valid_id u -> u <> PX ->
  forall k, hpx f1 k = hpx f k - ksum k toks.
Proof.
  induction toks as [|[n x] t IH]; intros f u f1 H Hu Hne k; simpl in H.
  - inversion H; subst. simpl. lia.
  - mon H r H0. destruct r as [f0 o0]. cbn [fst] in H. cbn [FB.xfer fst snd fstep] in H0.
    rewrite (IH _ _ _ H Hu Hne k), (xfer_out_held _ _ _ _ _ _ H0 Hu Hne k). cbn [ksum]. lia.
Qed.
End FH.

Lemma via_user_held lf u toks op back lf' o rc :
  via_user lf u toks op back = Ok (lf', o, rc) -> FI.valid_id u -> u <> PX -> FH.user_op op ->
  forall k, FH.hpx (FL.l_f lf') k = FH.hpx (FL.l_f lf) k - ksum k toks + (if back then (if k =? nth 0 o 0 then nth 1 o 0 else 0) else 0).
Proof.
  unfold via_user. intros H Hu Hne Hop k.
  mon H lf1 H1. mon H r Hr. destruct r as [[lf2 o2] rc2].
  apply BF.lseq_xfers in H1. destruct H1 as (Hq & _).
  apply BF.lstep_LF in Hr. destruct Hr as (Hf & _).
  pose proof (FH.fstep_user_frame _ _ _ _ Hf Hop k) as E2. pose proof (FH.xfers_out_held _ _ _ _ Hq Hu Hne k) as E1.
  destruct back.
  - mon H r' Hr'. destruct r' as [[lf3 o3] rc3]. cbn [fst] in H. inversion H; subst lf' o rc. clear H.
    apply BF.lstep_LF in Hr'. destruct Hr' as (Hf' & _). cbn [F.fstep] in Hf'.
    rewrite (FH.xfer_in_held _ _ _ _ _ _ Hf' Hu Hne k), E2, E1. reflexivity.
  - inversion H; subst lf' o rc. clear H. rewrite E2, E1. lia.
Qed.

(** ---- the links *)
Definition lf_of (cs : cst) (farm : Z) : FL.lfarm := if farm =? 0 then c_f0 cs else c_f1 cs.

(** the LP tokens the proxy's books record = the LP balance the PAIR MODEL holds for the proxy *)
Definition LinkLP (cs : cst) : Prop := s_lp (c_px cs) = PR.lp_of (c_pair cs) PX.
(** per farm and farm-token nonce: the farm tokens the proxy's books record = the position the FARM MODEL holds for the proxy *)
Definition LinkF (cs : cst) : Prop :=
  forall farm k, farm = 0 \/ farm = 1 -> aget (s_farm (c_px cs)) (fkey k farm) = FH.hpx (FL.l_f (lf_of cs farm)) k.

Definition Links (cs : cst) : Prop := LinkLP cs /\ LinkF cs /\ KF (c_px cs).

Lemma farm_of_ok cs farm lf : farm_of cs farm = Ok lf -> (farm = 0 \/ farm = 1) /\ lf = lf_of cs farm.
Proof.
  unfold farm_of, lf_of. destruct (farm =? 0) eqn:E0.
  - apply Z.eqb_eq in E0. intros H. inversion H. auto.
  - destruct (farm =? 1) eqn:E1; [|discriminate]. apply Z.eqb_eq in E1. intros H. inversion H. auto.
Qed.

Lemma df1_at n farm x k farm' : farm = 0 \/ farm = 1 -> farm' = 0 \/ farm' = 1 ->
  df1 (fkey n farm) x (fkey k farm') = if (n =? k) && (farm =? farm') then x else 0.
Proof. intros H H'. unfold df1. rewrite fkey_inj by assumption. reflexivity. Qed.

Lemma linkf_update cs cs' farm lf lf' (d : Z -> Z) :
  farm_of cs farm = Ok lf -> (c_f0 cs', c_f1 cs') = set_farm cs farm lf' ->
  (forall key, aget (s_farm (c_px cs')) key = aget (s_farm (c_px cs)) key + d key) ->
  (forall k, FH.hpx (FL.l_f lf') k = FH.hpx (FL.l_f lf) k + d (fkey k farm)) ->
  (forall k farm', farm' = 0 \/ farm' = 1 -> farm' <> farm -> d (fkey k farm') = 0) ->
  LinkF cs -> LinkF cs'.
Proof.
  intros Hf Hset Hpx Hh Hz L farm' k Hf'. destruct (farm_of_ok _ _ _ Hf) as [Hfk ->].
  rewrite Hpx, (L farm' k Hf'). unfold set_farm in Hset. unfold lf_of at 2.
  destruct (Z.eq_dec farm' farm) as [->|Hne].
  - rewrite <- Hh. destruct (farm =? 0); inversion Hset as [[E0 E1]]; [rewrite E0 | rewrite E1]; reflexivity.
  - rewrite (Hz k farm' Hf' Hne). unfold lf_of.
    destruct (farm =? 0) eqn:Ef; inversion Hset as [[E0 E1]]; destruct (farm' =? 0) eqn:Ef'; try (rewrite E0); try (rewrite E1);
      try lia; apply Z.eqb_eq in Ef; try apply Z.eqb_eq in Ef'; try apply Z.eqb_neq in Ef; try apply Z.eqb_neq in Ef'; exfalso; lia.
Qed.

Lemma linkf_same cs cs' : s_farm (c_px cs') = s_farm (c_px cs) -> c_f0 cs' = c_f0 cs -> c_f1 cs' = c_f1 cs -> LinkF cs -> LinkF cs'.
Proof. intros A B C L farm k Hf. unfold lf_of. rewrite A, B, C. apply (L farm k Hf). Qed.

Lemma bk_farm_same s s' d : bk s s' d df0 -> forall key, aget (s_farm s') key = aget (s_farm s) key.
Proof. intros (_ & F & _) key. rewrite F. unfold df0. lia. Qed.

Lemma linkf_bk0 cs cs' d : bk (c_px cs) (c_px cs') d df0 -> c_f0 cs' = c_f0 cs -> c_f1 cs' = c_f1 cs -> LinkF cs -> LinkF cs'.
Proof. intros B E0 E1 L farm k Hf. unfold lf_of. rewrite (bk_farm_same _ _ _ B), E0, E1. apply (L farm k Hf). Qed.

Lemma uid_px u : uid u -> FI.valid_id u /\ u <> PX.
Proof. unfold uid, FI.valid_id. lia. Qed.

Lemma answer_add_pair e po e' : L16.answer_of_addLiquidity e po = Some e' -> fst (fst (v_pair e')) = nth 0 po 0.
Proof. unfold L16.answer_of_addLiquidity. destruct po as [|a [|b [|c [|z t]]]]; try discriminate. intros H. inversion H. reflexivity. Qed.

Lemma answer_exit_farm_field e rk fo e' : L16.answer_of_exitFarm e rk fo = Some e' -> snd (v_farm e') = nth 0 fo 0.
Proof. unfold L16.answer_of_exitFarm. destruct fo as [|a [|b [|c t]]]; try discriminate. intros H. inversion H. reflexivity. Qed.

Lemma answer_claim_fields e rk fo e' : L16.answer_of_claimRewards e rk fo = Some e' -> v_farm e' = (nth 0 fo 0, nth 1 fo 0).
Proof. unfold L16.answer_of_claimRewards. destruct fo as [|a [|b [|c [|z t]]]]; try discriminate. intros H. inversion H. reflexivity. Qed.

Lemma answer_fmerge_fields e rk go e' : L16.answer_of_mergeFarmTokens e rk go = Some e' -> v_fmerge e' = (nth 0 go 0, nth 1 go 0).
Proof. unfold L16.answer_of_mergeFarmTokens. destruct go as [|a [|b [|c [|z t]]]]; try discriminate. intros H. inversion H. reflexivity. Qed.

Lemma lp_exit_flow_row p dst amt out p' b : lp_exit_flow p dst amt out = Ok p' -> b <> LPFARM -> b <> LPBURN ->
  PR.lp_of p' b = PR.lp_of p b + (if dst =? b then out else 0).
Proof.
  unfold lp_exit_flow. intros H H1 H2. mon H p1 Hd. mon H pen Hp. inversion H; subst.
  rewrite !PL.lp_of_credit, (PL.lp_of_debit _ _ _ _ b Hd).
  destruct (LPBURN =? b) eqn:E1; [apply Z.eqb_eq in E1; congruence|].
  destruct (LPFARM =? b) eqn:E2; [apply Z.eqb_eq in E2; congruence|]. destruct (dst =? b); lia.
Qed.

Lemma lp_enter_flow_row p src amt p' b : lp_enter_flow p src amt = Ok p' -> b <> LPFARM ->
  PR.lp_of p' b = PR.lp_of p b - (if src =? b then amt else 0).
Proof.
  unfold lp_enter_flow. intros H H1. mon H r Hr. destruct r as [[p1 o] e]. inversion H; subst. cbn [fst].
  rewrite (PL.ep_lp_transfer_row _ _ _ _ _ _ _ b Hr). destruct (LPFARM =? b) eqn:E2; [apply Z.eqb_eq in E2; congruence | lia].
Qed.

Lemma PX_ne_self : PX <> PR.SELF. Proof. unfold PX, PR.SELF. lia. Qed.

Theorem c_add_liq_links cs u pid p1 p2 extra m1 m2 cs' co : c_add_liq cs u pid p1 p2 extra m1 m2 = Ok (cs', co) ->
  Links cs -> Links cs'.
Proof.
  intros H (L1 & L2 & K). pose proof (c_add_liq_proj _ _ _ _ _ _ _ _ _ _ H) as [Hs _]. cbn [step] in Hs.
  pose proof (ep_add_liq_bk _ _ _ _ _ _ _ _ _ Hs) as B.
  unfold c_add_liq in H. chk H. mon H c0 H0. mon H rp Hp. destruct rp as [[pair' po] ef].
  mon H e1 He1. opt_in He1. cbv zeta in H. mon H re Hre. destruct re as [c1 e]. mon H rx Hx. destruct rx as [px' x].
  mon H c2 H2. inversion H; subst cs' co; clear H. cbn [co_e co_x c_px] in *.
  assert (Ev : fst (fst (v_pair e)) = nth 0 po 0).
  { destruct extra as [|q t].
    - inversion Hre; subst. eapply answer_add_pair; eauto.
    - mon Hre parts Hparts. mon Hre rm Hrm. destruct rm as [cm fo]. cbn [fst snd] in Hre. mon Hre e2 He2. opt_in He2.
      inversion Hre; subst. destruct (add_used_set_fact p1 _ _ _ _ He2) as [_ Ep]. rewrite Ep. eapply answer_add_pair; eauto. }
  split; [|split].
  - unfold LinkLP in *. cbn [c_px c_pair]. destruct B as (A & _). rewrite A, L1, Ev. cbn [PR.step] in Hp.
    rewrite (PL.ep_add_row _ _ _ _ _ _ _ _ _ PX Hp PX_ne_self). rewrite Z.eqb_refl. reflexivity.
  - eapply linkf_bk0; eauto.
  - cbn [c_px]. exact (proj2 (proj2 B) K).
Qed.

Theorem c_remove_liq_links cs u pid p m1 m2 cs' co : c_remove_liq cs u pid p m1 m2 = Ok (cs', co) ->
  Links cs -> Links cs'.
Proof.
  intros H (L1 & L2 & K). pose proof (c_remove_liq_proj _ _ _ _ _ _ _ _ H) as [Hs _]. cbn [step] in Hs.
  pose proof (ep_remove_liq_bk _ _ _ _ _ _ _ Hs) as B.
  unfold c_remove_liq in H. mon H rp Hp. destruct rp as [[pair' po] ef]. mon H e He. mon H rx Hx. destruct rx as [px' x].
  mon H c2 H2. inversion H; subst cs' co; clear H. cbn [co_e co_x c_px] in *.
  split; [|split].
  - unfold LinkLP in *. cbn [c_px c_pair]. destruct B as (A & _). rewrite A, L1. cbn [PR.step] in Hp.
    rewrite (PL.ep_remove_row _ _ _ _ _ _ _ _ PX Hp). rewrite Z.eqb_refl. lia.
  - eapply linkf_bk0; eauto.
  - cbn [c_px]. exact (proj2 (proj2 B) K).
Qed.

Theorem c_nofarm_links cs cs' d : bk (c_px cs) (c_px cs') 0 d -> (forall key, d key = 0) ->
  c_pair cs' = c_pair cs -> c_f0 cs' = c_f0 cs -> c_f1 cs' = c_f1 cs -> Links cs -> Links cs'.
Proof.
  intros (A & F & Kk) Hd Ep E0 E1 (L1 & L2 & K). split; [|split].
  - unfold LinkLP in *. rewrite A, Ep, L1. lia.
  - intros farm k Hf. unfold lf_of. rewrite F, Hd, E0, E1. rewrite Z.add_0_r. apply (L2 farm k Hf).
  - apply Kk. exact K.
Qed.

Theorem c_merge_wlp_links cs u ps cs' co : c_merge_wlp cs u ps = Ok (cs', co) -> Links cs -> Links cs'.
Proof.
  intros H L. pose proof (c_merge_wlp_proj _ _ _ _ _ H) as [Hs _]. cbn [step] in Hs.
  pose proof (ep_merge_wlp_bk _ _ _ _ _ _ Hs) as B.
  unfold c_merge_wlp in H. cbv zeta in H. mon H parts Hparts. mon H rm Hrm. destruct rm as [cm mo]. cbn [fst snd] in H.
  mon H e He. mon H rx Hx. destruct rx as [px' x]. mon H c2 H2. inversion H; subst cs' co; clear H. cbn [co_e co_x c_px] in *.
  eapply c_nofarm_links; eauto; reflexivity.
Qed.

Theorem c_inc_lp_links cs u p le cs' co : c_inc_lp cs u p le = Ok (cs', co) -> Links cs -> Links cs'.
Proof.
  intros H L. pose proof (c_inc_lp_proj _ _ _ _ _ _ H) as [Hs _]. cbn [step] in Hs.
  pose proof (ep_inc_lp_bk _ _ _ _ _ _ Hs) as B.
  unfold c_inc_lp in H. cbv zeta in H. mon H rt Hrt. destruct rt as [s1 [k lp]]. mon H rm Hrm. destruct rm as [cm mo]. cbn [fst snd] in H.
  mon H e He. mon H rx Hx. destruct rx as [px' x]. mon H c2 H2. inversion H; subst cs' co; clear H. cbn [co_e co_x c_px] in *.
  eapply c_nofarm_links; eauto; reflexivity.
Qed.

Theorem c_inc_fm_links cs u p le cs' co : c_inc_fm cs u p le = Ok (cs', co) -> Links cs -> Links cs'.
Proof.
  intros H L. pose proof (c_inc_fm_proj _ _ _ _ _ _ H) as [Hs _]. cbn [step] in Hs.
  pose proof (ep_inc_fm_bk _ _ _ _ _ _ Hs) as B.
  unfold c_inc_fm in H. cbv zeta in H. mon H rt Hrt. destruct rt as [s1 [w pp]]. mon H kl Hkl. destruct kl as [k lq].
  mon H rm Hrm. destruct rm as [cm mo]. cbn [fst snd] in H.
  mon H e He. mon H rx Hx. destruct rx as [px' x]. mon H c2 H2. inversion H; subst cs' co; clear H. cbn [co_e co_x c_px] in *.
  eapply c_nofarm_links; eauto; reflexivity.
Qed.

Theorem c_plain_links cs o cs' co : c_plain cs o = Ok (cs', co) ->
  match o with SetPair _ _ | SetFarm _ _ _ | XferWlp _ _ _ _ | XferWfm _ _ _ _ => True | _ => False end ->
  Links cs -> Links cs'.
Proof.
  intros H Ho L. pose proof (c_plain_proj _ _ _ _ H) as Hs. pose proof (plain_bk _ _ _ _ Hs) as B.
  unfold c_plain in H. mon H rx Hx. destruct rx as [px' x]. inversion H; subst cs' co; clear H. cbn [c_px] in *.
  destruct o; try contradiction; eapply c_nofarm_links; eauto; reflexivity.
Qed.

Lemma user_op_of u (op : F.fop) : FI.valid_id u /\ u <> PX -> farm_accts op = [u] -> FH.user_op op.
Proof. intros Hu E. unfold FH.user_op. rewrite E. constructor; [exact Hu | constructor]. Qed.

Lemma kf_kind w farm : kf_ok w -> wf_farm w = farm -> (wf_kind w =? 0) = (farm =? 0) /\ (farm = 0 \/ farm = 1).
Proof. unfold kf_ok. intros [[A B]|[A B]] E; rewrite B; subst farm; rewrite A; split; auto. Qed.

Theorem c_exit_farm_links cs u farm p b cs' co : c_exit_farm cs u farm p b = Ok (cs', co) -> uid u ->
  Links cs -> Links cs'.
Proof.
  intros H Hu (L1 & L2 & K). destruct (uid_px _ Hu) as [Hv Hne].
  pose proof (c_exit_farm_proj _ _ _ _ _ _ _ H) as [Hs _]. cbn [step] in Hs.
  destruct (ep_exit_farm_bk _ _ _ _ _ _ _ Hs) as (w & Hw & Efarm & B).
  unfold c_exit_farm in H. cbv zeta in H. mon H lf Hlf. rewrite Hw in H.
  mon H rf Hrf. destruct rf as [[lf1 fo] rc]. mon H pair1 Hpair. mon H c1 H1. mon H e He. opt_in He.
  mon H rx Hx. destruct rx as [px' x]. mon H c2 H2. destruct (set_farm cs farm lf1) as [f0' f1'] eqn:Eset.
  inversion H; subst cs' co; clear H. cbn [co_e co_x c_px] in *.
  destruct (kf_kind _ _ (Forall_getn _ _ _ _ K Hw) Efarm) as [Ek Hf].
  rewrite (answer_exit_farm_field _ _ _ _ He) in B. destruct B as (A & Fm & Kk).
  match type of Hrf with via_user _ _ _ ?op _ = _ =>
    assert (Hop : FH.user_op op) by (unfold FH.user_op; cbn [farm_accts]; constructor; [split; assumption | constructor]) end.
  pose proof (via_user_held _ _ _ _ _ _ _ _ Hrf Hv Hne Hop) as Hh. cbn [ksum] in Hh.
  split; [|split].
  - unfold LinkLP in *. cbn [c_px c_pair]. rewrite A, L1, Ek.
    destruct (farm =? 0) eqn:E0.
    + apply Z.eqb_eq in E0. rewrite E0 in Hpair. cbn in Hpair. inversion Hpair; subst pair1. lia.
    + destruct Hf as [Hf|Hf]; [rewrite Hf in E0; discriminate|]. rewrite Hf in Hpair. cbn in Hpair.
      rewrite (lp_exit_flow_row _ _ _ _ _ PX Hpair) by (unfold PX, LPFARM, LPBURN; lia). rewrite Z.eqb_refl. reflexivity.
  - eapply (linkf_update cs _ farm lf lf1 (df1 (fkey (wf_f w) farm) (- p_amt p)));
      [exact Hlf | cbn [c_f0 c_f1]; symmetry; exact Eset | exact Fm | | | exact L2].
    + intros k. rewrite Hh, df1_at by assumption. rewrite Z.eqb_refl, andb_true_r, (Z.eqb_sym k). destruct (wf_f w =? k); lia.
    + intros k farm' Hf' Hn. rewrite df1_at by assumption.
      replace (farm =? farm') with false by (symmetry; apply Z.eqb_neq; congruence). rewrite andb_false_r. reflexivity.
  - cbn [c_px]. apply Kk. exact K.
Qed.

Theorem c_claim_links cs u farm p b cs' co : c_claim cs u farm p b = Ok (cs', co) -> uid u ->
  Links cs -> Links cs'.
Proof.
  intros H Hu (L1 & L2 & K). destruct (uid_px _ Hu) as [Hv Hne].
  pose proof (c_claim_proj _ _ _ _ _ _ _ H) as [Hs _]. cbn [step] in Hs.
  destruct (ep_claim_bk _ _ _ _ _ _ _ Hs) as (w & Hw & Efarm & B).
  unfold c_claim in H. cbv zeta in H. mon H lf Hlf. rewrite Hw in H.
  mon H rf Hrf. destruct rf as [[lf1 fo] rc]. mon H c1 H1. mon H e He. opt_in He.
  mon H rx Hx. destruct rx as [px' x]. mon H c2 H2. destruct (set_farm cs farm lf1) as [f0' f1'] eqn:Eset.
  inversion H; subst cs' co; clear H. cbn [co_e co_x c_px] in *.
  destruct (kf_kind _ _ (Forall_getn _ _ _ _ K Hw) Efarm) as [Ek Hf].
  rewrite (answer_claim_fields _ _ _ _ He) in B. cbn [fst snd] in B. destruct B as (A & Fm & Kk).
  match type of Hrf with via_user _ _ _ ?op _ = _ =>
    assert (Hop : FH.user_op op) by (unfold FH.user_op; cbn [farm_accts]; constructor; [split; assumption | constructor]) end.
  pose proof (via_user_held _ _ _ _ _ _ _ _ Hrf Hv Hne Hop) as Hh. cbn [ksum] in Hh.
  split; [|split].
  - unfold LinkLP in *. cbn [c_px c_pair]. rewrite A, L1. lia.
  - eapply (linkf_update cs _ farm lf lf1);
      [exact Hlf | cbn [c_f0 c_f1]; symmetry; exact Eset | exact Fm | | | exact L2].
    + intros k. rewrite Hh. unfold dfadd. rewrite !df1_at by assumption. rewrite Z.eqb_refl, !andb_true_r.
      rewrite (Z.eqb_sym k (wf_f w)), (Z.eqb_sym k (nth 0 fo 0)). destruct (wf_f w =? k); destruct (nth 0 fo 0 =? k); lia.
    + intros k farm' Hf' Hn. unfold dfadd. rewrite !df1_at by assumption.
      replace (farm =? farm') with false by (symmetry; apply Z.eqb_neq; congruence). rewrite !andb_false_r. reflexivity.
  - cbn [c_px]. apply Kk. exact K.
Qed.

Theorem c_merge_wfm_links cs u farm ps bm cs' co : c_merge_wfm cs u farm ps bm = Ok (cs', co) -> uid u ->
  Links cs -> Links cs'.
Proof.
  intros H Hu (L1 & L2 & K). destruct (uid_px _ Hu) as [Hv Hne].
  pose proof (c_merge_wfm_proj _ _ _ _ _ _ _ H) as [Hs _]. cbn [step] in Hs.
  destruct (ep_merge_wfm_bk _ _ _ _ _ _ _ Hs) as (s1' & its' & Ht' & B).
  unfold c_merge_wfm in H. cbv zeta in H. mon H lf Hlf. mon H rt Hrt. destruct rt as [s1 its].
  rewrite Hrt in Ht'. inversion Ht'; subst s1' its'; clear Ht'.
  mon H fps Hfps. mon H toks Htoks. mon H rm Hrm. destruct rm as [cm mo]. mon H rg Hrg. destruct rg as [[lf1 go] rcm].
  cbn [fst snd] in H. mon H c1 H1. mon H e1 He1. mon H e He. opt_in He.
  mon H rx Hx. destruct rx as [px' x]. mon H c2 H2. destruct (set_farm cs farm lf1) as [f0' f1'] eqn:Eset.
  inversion H; subst cs' co; clear H. cbn [co_e co_x c_px] in *.
  destruct (B toks Htoks) as ((A & Fm & Kk) & (ki & Hsame) & Hlen).
  rewrite (answer_fmerge_fields _ _ _ _ He) in Fm. cbn [fst snd] in Fm.
  destruct (farm_of_ok _ _ _ Hlf) as [Hf _].
  match type of Hrg with via_user _ _ _ ?op _ = _ =>
    assert (Hop : FH.user_op op) by (unfold FH.user_op; cbn [farm_accts]; constructor; [split; assumption | constructor]) end.
  pose proof (via_user_held _ _ _ _ _ _ _ _ Hrg Hv Hne Hop) as Hh.
  split; [|split].
  - unfold LinkLP in *. cbn [c_px c_pair]. rewrite A, L1. lia.
  - eapply (linkf_update cs _ farm lf lf1);
      [exact Hlf | cbn [c_f0 c_f1]; symmetry; exact Eset | exact Fm | | | exact L2].
    + intros k. rewrite Hh. unfold dfadd. rewrite df1_at by assumption.
      rewrite (ksumf_same _ _ _ _ k farm Hsame Hlen Hf Hf). rewrite Z.eqb_refl, andb_true_r, (Z.eqb_sym k). destruct (nth 0 go 0 =? k); lia.
    + intros k farm' Hf' Hn. unfold dfadd. rewrite df1_at by assumption.
      rewrite (ksumf_same _ _ _ _ k farm' Hsame Hlen Hf Hf').
      replace (farm =? farm') with false by (symmetry; apply Z.eqb_neq; congruence). rewrite andb_false_r. reflexivity.
  - cbn [c_px]. apply Kk. exact K.
Qed.

Theorem c_enter_farm_links cs u farm p extra b cs' co : c_enter_farm cs u farm p extra b = Ok (cs', co) -> uid u ->
  Links cs -> Links cs'.
Proof.
  intros H Hu (L1 & L2 & K). destruct (uid_px _ Hu) as [Hv Hne].
  pose proof (c_enter_farm_proj _ _ _ _ _ _ _ _ H) as [Hs _]. cbn [step] in Hs.
  destruct (ep_enter_farm_bk _ _ _ _ _ _ _ _ Hs) as (s1' & kind' & minted' & Hpre' & B). cbv zeta in B.
  unfold c_enter_farm in H. cbv zeta in H. mon H lf Hlf. mon H r0 Hr0. destruct r0 as [[s1 kind] minted].
  rewrite Hr0 in Hpre'. inversion Hpre'; subst s1' kind' minted'; clear Hpre'.
  mon H c0 H0. mon H rf Hrf. destruct rf as [[lf1 fo] rc]. mon H pair1 Hpair. mon H c1 H1.
  mon H re Hre. destruct re as [[lf' c3] e]. mon H rx Hx. destruct rx as [px' x]. mon H c4 H4.
  destruct (set_farm cs farm lf') as [f0' f1'] eqn:Eset. inversion H; subst cs' co; clear H. cbn [co_e co_x c_px] in *.
  destruct (farm_of_ok _ _ _ Hlf) as [Hf _].
  match type of Hrf with via_user _ _ _ ?op _ = _ =>
    assert (Hop : FH.user_op op) by (unfold FH.user_op; cbn [farm_accts]; constructor; [split; assumption | constructor]) end.
  pose proof (via_user_held _ _ _ _ _ _ _ _ Hrf Hv Hne Hop) as Hh. cbn [ksum] in Hh.
  assert (LPok : forall dl, s_lp px' = s_lp (c_px cs) + (if farm =? 1 then - p_amt p else 0) -> dl = 0 ->
                 s_lp px' = PR.lp_of pair1 PX).
  { intros dl A _. unfold LinkLP in L1. rewrite A, L1. destruct (farm =? 1).
    - rewrite (lp_enter_flow_row _ _ _ _ PX Hpair) by (unfold PX, LPFARM; lia). rewrite Z.eqb_refl. lia.
    - inversion Hpair; subst. lia. }
  destruct extra as [|q t].
  - mon Hre e' He. opt_in He. inversion Hre; subst lf' c3 e'; clear Hre.
    destruct (answer_enter_fields _ _ _ _ He) as (_ & _ & _ & _ & Efarm & _). rewrite Efarm in B. cbn [fst snd] in B.
    destruct B as (A & Fm & Kk).
    split; [|split].
    + unfold LinkLP. cbn [c_px c_pair]. apply (LPok 0 A eq_refl).
    + eapply (linkf_update cs _ farm lf lf1);
        [exact Hlf | cbn [c_f0 c_f1]; symmetry; exact Eset | exact Fm | | | exact L2].
      * intros k. rewrite Hh, df1_at by assumption. rewrite Z.eqb_refl, andb_true_r, (Z.eqb_sym k). destruct (nth 0 fo 0 =? k); lia.
      * intros k farm' Hf' Hn. rewrite df1_at by assumption.
        replace (farm =? farm') with false by (symmetry; apply Z.eqb_neq; congruence). rewrite andb_false_r. reflexivity.
    + cbn [c_px]. apply Kk. exact K.
  - destruct B as (s2' & its' & Ht' & B).
    mon Hre rt Hrt. destruct rt as [s2 its]. rewrite Hrt in Ht'. inversion Ht'; subst s2' its'; clear Ht'.
    mon Hre fps Hfps. mon Hre toks Htoks. mon Hre rm Hrm. destruct rm as [cm mo].
    mon Hre rg Hrg. destruct rg as [[lf2 go] rcm]. mon Hre c2 H2. cbn [fst snd] in Hre.
    mon Hre e1 He1. mon Hre e2 He2. opt_in He2. mon Hre e3 He3. opt_in He3. inversion Hre; subst lf' c3 e3; clear Hre.
    destruct (B toks Htoks) as ((A & Fm & Kk) & Hsame & Hlen).
    destruct (answer_enter_fields _ _ _ _ He3) as (_ & _ & Efm & _). rewrite Efm, (answer_fmerge_fields _ _ _ _ He2) in Fm.
    cbn [fst snd] in Fm.
    match type of Hrg with via_user _ _ _ ?op _ = _ =>
      assert (Hop2 : FH.user_op op) by (unfold FH.user_op; cbn [farm_accts]; constructor; [split; assumption | constructor]) end.
    pose proof (via_user_held _ _ _ _ _ _ _ _ Hrg Hv Hne Hop2) as Hh2. cbn [ksum] in Hh2.
    split; [|split].
    + unfold LinkLP. cbn [c_px c_pair]. apply (LPok 0 A eq_refl).
    + eapply (linkf_update cs _ farm lf lf2);
        [exact Hlf | cbn [c_f0 c_f1]; symmetry; exact Eset | exact Fm | | | exact L2].
      * intros k. rewrite Hh2, Hh. unfold dfadd. rewrite df1_at by assumption.
        rewrite (ksumf_same _ _ _ _ k farm Hsame Hlen Hf Hf). rewrite Z.eqb_refl, andb_true_r, (Z.eqb_sym k (nth 0 go 0)).
        destruct (k =? nth 0 fo 0); destruct (nth 0 go 0 =? k); lia.
      * intros k farm' Hf' Hn. unfold dfadd. rewrite df1_at by assumption.
        rewrite (ksumf_same _ _ _ _ k farm' Hsame Hlen Hf Hf').
        replace (farm =? farm') with false by (symmetry; apply Z.eqb_neq; congruence). rewrite andb_false_r. reflexivity.
    + cbn [c_px]. apply Kk. exact K.
Qed.

Lemma not_reserved l a : existsb reserved l = false -> reserved a = true -> ~ In a l.
Proof.
  intros H Ha Hin. assert (existsb reserved l = true) by (apply existsb_exists; exists a; auto). congruence.
Qed.

Lemma reserved_px : reserved PX = true. Proof. reflexivity. Qed.

(** well-formed operations: callers of the proxy's endpoints are user accounts; the accounts of a direct farm
    operation are account ids of the farm model *)
Definition cwf (o : cop) : Prop :=
  cuser o /\ match o with CFarm _ (FL.LF fo) => Forall FI.valid_id (farm_accts fo) | _ => True end.

Theorem c_pair_env_links cs o cs' co : c_pair_env cs o = Ok (cs', co) -> Links cs -> Links cs'.
Proof.
  unfold c_pair_env. intros H (L1 & L2 & K). chk H. apply negb_true_iff in C. mon H r Hr. destruct r as [[pair' po] ef].
  inversion H; subst cs' co; clear H. split; [|split]; cbn [c_px]; auto.
  - unfold LinkLP in *. cbn [c_px c_pair]. rewrite L1. symmetry.
    apply (PL.step_row _ _ _ _ _ PX Hr PX_ne_self). apply not_reserved; [exact C | reflexivity].
Qed.

Theorem c_farm_env_links cs farm o cs' co : c_farm_env cs farm o = Ok (cs', co) ->
  match o with FL.LF fo => Forall FI.valid_id (farm_accts fo) | _ => True end -> Links cs -> Links cs'.
Proof.
  unfold c_farm_env. intros H Hv (L1 & L2 & K). mon H lf Hlf. chk H. mon H r Hr. destruct r as [[lf' fo] rc].
  mon H pair' Hp. mon H en' He. cbv zeta in H. destruct (set_farm cs farm lf') as [f0' f1'] eqn:Eset.
  inversion H; subst cs' co; clear H. destruct (farm_of_ok _ _ _ Hlf) as [Hf _].
  split; [|split]; cbn [c_px]; auto.
  - (* the LP ledger: nobody but the farm and the caller is touched, and the caller is not the proxy *)
    unfold LinkLP in *. cbn [c_px c_pair]. rewrite L1. destruct o as [op|c e]; [|inversion Hp; reflexivity].
    apply andb_prop in C. destruct C as [C _]. apply negb_true_iff in C.
    destruct op; try (inversion Hp; reflexivity); cbn [farm_accts] in C.
    + destruct (farm =? 1); [|inversion Hp; reflexivity].
      rewrite (lp_enter_flow_row _ _ _ _ PX Hp) by (unfold PX, LPFARM; lia).
      destruct (c =? PX) eqn:E; [apply Z.eqb_eq in E; subst c; cbn in C; discriminate | lia].
    + destruct (farm =? 1); [|inversion Hp; reflexivity].
      rewrite (lp_exit_flow_row _ _ _ _ _ PX Hp) by (unfold PX, LPFARM, LPBURN; lia).
      destruct (c =? PX) eqn:E; [apply Z.eqb_eq in E; subst c; cbn in C; discriminate | lia].
  - eapply (linkf_update cs _ farm lf lf' df0);
      [exact Hlf | cbn [c_f0 c_f1]; symmetry; exact Eset | intros key; cbn [c_px]; unfold df0; lia | | intros; reflexivity | exact L2].
    intros k. unfold df0. rewrite Z.add_0_r. destruct o as [op|c e].
    + apply andb_prop in C. destruct C as [C _]. apply negb_true_iff in C.
      destruct (BF.lstep_LF _ _ _ _ _ Hr) as (Hfs & _).
      apply (FH.fstep_user_frame _ _ _ _ Hfs). unfold FH.user_op. apply Forall_forall. intros a Ha.
      split; [rewrite Forall_forall in Hv; exact (Hv a Ha)|]. intros ->. exact (not_reserved _ _ C reserved_px Ha).
    + unfold FL.lstep in Hr. destruct (F.admin c); [|discriminate]. destruct (0 <=? e); [|discriminate]. inversion Hr; subst. reflexivity.
Qed.

Theorem cstep_links cs o cs' co : cstep cs o = Ok (cs', co) -> cwf o -> Links cs -> Links cs'.
Proof.
  intros H (Hu & Hv) L. unfold cuser in Hu.
  destruct o; cbn [cstep caller_of] in *.
  - eapply c_add_liq_links; eauto.
  - eapply c_remove_liq_links; eauto.
  - eapply c_enter_farm_links; eauto.
  - eapply c_exit_farm_links; eauto.
  - eapply c_claim_links; eauto.
  - eapply c_merge_wlp_links; eauto.
  - eapply c_merge_wfm_links; eauto.
  - eapply c_inc_lp_links; eauto.
  - eapply c_inc_fm_links; eauto.
  - eapply c_plain_links; eauto; exact I.
  - eapply c_plain_links; eauto; exact I.
  - eapply c_plain_links; eauto; exact I.
  - eapply c_plain_links; eauto; exact I.
  - eapply c_pair_env_links; eauto.
  - eapply c_farm_env_links; eauto.
  - unfold c_energy_env in H. chk H. mon H r Hr. inversion H; subst. exact L.
  - unfold c_time in H. chk H. mon H r Hr. inversion H; subst. exact L.
Qed.

(** closed histories of well-formed operations from a state whose books agree *)
Definition FlowsG (g : ghost) : Prop :=
  g_mint g - g_burn g = (g_pin g - g_pout g) + (g_fin g - g_fout g) + g_paid g.
Definition cinit2 (cs0 : cst) : Prop := cinit cs0 /\ Links cs0 /\ FlowsG (c_g cs0).
Definition chist2 (cs : cst) : Prop := exists cs0 ops, cinit2 cs0 /\ Forall cwf ops /\ cs = crun cs0 ops.

Lemma chist2_chist cs : chist2 cs -> chist cs.
Proof.
  intros (cs0 & ops & (Hi & _) & Hw & ->). exists cs0, ops. split; [exact Hi|]. split; [|reflexivity].
  eapply Forall_impl; [|exact Hw]. intros o [Hu _]. exact Hu.
Qed.

Theorem chist2_links cs : chist2 cs -> Links cs.
Proof.
  intros (cs0 & ops & Hi & Hu & ->). revert Hu. pattern ops. apply rev_ind; clear ops.
  - intros _. exact (proj1 (proj2 Hi)).
  - intros o ops IH Hu. apply Forall_app in Hu. destruct Hu as [Hu Ho]. inversion Ho as [|? ? Huo _]; subst.
    unfold crun. rewrite fold_left_app. cbn [fold_left]. fold (crun cs0 ops). specialize (IH Hu).
    unfold cstep_total. destruct (cstep (crun cs0 ops) o) as [[cs' co]|] eqn:E; [|exact IH].
    eapply cstep_links; eauto.
Qed.

Lemma init_c_cinit2 fee sfee bf dsc opts lock blk epoch : EN.valid_opts opts = true -> 0 <= epoch ->
  cinit2 (init_c fee sfee bf dsc opts lock blk epoch).
Proof.
  intros Hv He. split; [apply init_c_cinit; assumption|]. split; [|reflexivity]. split; [reflexivity|]. split; [|constructor].
  intros farm k Hf. unfold lf_of, init_c. cbn. destruct (farm =? 0); reflexivity.
Qed.

(** ================================================================== Part B, flows: the base asset the proxy mints and burns *)
(** base asset minted - burned by the proxy = net base asset the pair took from it + net base asset the base-asset farm
    took from it + base asset it paid out (pool surplus): the proxy itself never keeps any *)
Definition Flows (g : ghost) : Prop := FlowsG g.

Lemma step_no_mint s o s' x : step s o = Ok (s', x) ->
  match o with
  | AddLiq _ _ _ _ _ _ | RemoveLiq _ _ _ _ | EnterFarm _ _ _ _ _ | ExitFarm _ _ _ _ => True
  | _ => x_mint x = 0 /\ x_burn x = 0
  end.
Proof.
  intros H. destruct o; cbn [step] in *; try exact I.
  - unfold ep_claim in H. chk H. chk H. mon H r Hr. destruct r as [s1 [w pp]]. chk H. chk H.
    destruct (v_farm e) as [f F]. destruct (v_rew e) as [rk ra]. destruct (mint_wfm _ _ _ _ _ _ _ _) as [s2 m].
    inversion H; subst. split; reflexivity.
  - unfold ep_merge_wlp in H. chk H. mon H r Hr. destruct r as [s1 [ta tl]]. chk H. destruct (v_fact e) as [kf lf].
    destruct (mint_wlp_user _ _ _ _ _) as [s2 n]. inversion H; subst. split; reflexivity.
  - unfold ep_merge_wfm in H. chk H. chk H. mon H r Hr. destruct r as [s1 its].
    mon H r2 Hr2. destruct r2 as [s2 [[m amt] law]]. destruct (v_rew e) as [rk ra]. inversion H; subst. split; reflexivity.
  - unfold ep_inc_lp in H. chk H. mon H r Hr. destruct r as [s1 [k lp]]. chk H. destruct (v_fact e) as [kf lf].
    destruct (mint_wlp_user _ _ _ _ _) as [s2 n]. inversion H; subst. split; reflexivity.
  - unfold ep_inc_fm in H. chk H. mon H r Hr. destruct r as [s1 [w pp]]. destruct (v_fact e) as [kf lf].
    destruct (wf_kind w =? 0).
    + chk H. destruct (mint_wfm _ _ _ _ _ _ _ _) as [s2 m]. inversion H; subst. split; reflexivity.
    + mon H r2 Hr2. destruct r2 as [s2 [k lq]]. chk H. destruct (mint_wlp _ _ _ _) as [s3 n].
      destruct (mint_wfm _ _ _ _ _ _ _ _) as [s4 m]. inversion H; subst. split; reflexivity.
  - chk H. chk H. inversion H; subst. split; reflexivity.
  - chk H. chk H. chk H. inversion H; subst. split; reflexivity.
  - unfold ep_xfer_wlp in H. chk H. mon H h Hh. inversion H; subst. split; reflexivity.
  - unfold ep_xfer_wfm in H. chk H. mon H h Hh. inversion H; subst. split; reflexivity.
Qed.

Lemma flows_upd g car x pin pout fin fout fpen paid : Flows g ->
  x_mint x - x_burn x = pin - pout + fin - fout + paid -> Flows (upd_g g car x pin pout fin fout fpen paid).
Proof. unfold Flows, FlowsG, upd_g. cbn. intros. lia. Qed.

Lemma base_paid_remove lp rb k ro :
  base_paid ((if lp <? rb then [(TK_BASE, 0, rb - lp)] else []) ++ [(TK_LOCKED, k, Z.min rb lp)] ++ [(TK_OTHER, 0, ro)]) =
  if lp <? rb then rb - lp else 0.
Proof. destruct (lp <? rb); cbn; lia. Qed.

Theorem cstep_flows cs o cs' co : cstep cs o = Ok (cs', co) -> Backed (c_px cs) -> Flows (c_g cs) -> Flows (c_g cs').
Proof.
  intros H Hb Fl. pose proof (cstep_proj _ _ _ _ H) as P.
  destruct o; cbn [cstep pop_of] in *; try (match type of P with _ /\ _ => destruct P as [Hs _] end).
  - (* add *) unfold c_add_liq in H. chk H. mon H c0 H0. mon H rp Hp. destruct rp as [[pair' po] ef].
    mon H e1 He1. opt_in He1. cbv zeta in H. mon H re Hre. destruct re as [c1 e]. mon H rx Hx. destruct rx as [px' x].
    mon H c2 H2. inversion H; subst cs' co; clear H. cbn [co_e co_x c_g] in *. apply flows_upd; [exact Fl|].
    cbn [step] in Hs. destruct (add_liq_mint_any _ _ _ _ _ _ _ _ _ Hs) as (_ & A & B & _). cbv zeta in A, B. rewrite A, B.
    assert (Eu : L16.add_used_locked p1 e1 = L16.add_used_locked p1 e).
    { destruct extra; [inversion Hre; reflexivity|]. mon Hre parts Hparts. mon Hre rm Hrm. destruct rm as [cm fo]. cbn [fst snd] in Hre.
      mon Hre e2 He2. opt_in He2. inversion Hre; subst. symmetry. exact (proj1 (add_used_set_fact p1 _ _ _ _ He2)). }
    rewrite Eu. unfold L16.add_used_locked. lia.
  - (* remove *) unfold c_remove_liq in H. mon H rp Hp. destruct rp as [[pair' po] ef]. mon H e He.
    mon H rx Hx. destruct rx as [px' x]. mon H c2 H2. inversion H; subst cs' co; clear H. cbn [co_e co_x c_g] in *.
    apply flows_upd; [exact Fl|]. cbn [step] in Hs.
    destruct (remove_liq_char _ _ _ _ _ _ _ Hs Hb) as (w & lp & _ & _ & R). cbv zeta in R. destruct R as (Eo & Em & Eb & _).
    rewrite Eo, Em, Eb, base_paid_remove. destruct (lp <? snd (fst (v_pair e))) eqn:E; [apply Z.ltb_lt in E | apply Z.ltb_ge in E]; lia.
  - (* enter *) unfold c_enter_farm in H. cbv zeta in H. mon H lf Hlf. mon H r0 Hr0. destruct r0 as [[s1 kind] minted].
    mon H c0 H0. mon H rf Hrf. destruct rf as [[lf1 fo] rc]. mon H pair1 Hpair. mon H c1 H1.
    mon H re Hre. destruct re as [[lf' c3] e]. mon H rx Hx. destruct rx as [px' x]. mon H c4 H4.
    destruct (set_farm cs farm lf') as [f0' f1']. inversion H; subst cs' co; clear H. cbn [co_e co_x c_g] in *.
    apply flows_upd; [exact Fl|]. cbn [step] in Hs.
    destruct (enter_farm_mint_any _ _ _ _ _ _ _ _ Hs) as (A & B & _). rewrite A, B.
    assert (minted = if p_tok p =? TK_LOCKED then p_amt p else 0); [|lia].
    unfold enter_pre in Hr0. cbv zeta in Hr0. destruct (p_tok p =? TK_LOCKED).
    + chk Hr0. inversion Hr0. reflexivity.
    + destruct (p_tok p =? TK_WLP); [|discriminate]. destruct (getn _ _); [|discriminate].
      mon Hr0 h Hh. mon Hr0 z Hz. mon Hr0 lp Hlp. chk Hr0. inversion Hr0. reflexivity.
  - (* exit *) unfold c_exit_farm in H. cbv zeta in H. mon H lf Hlf.
    destruct (getn (s_wfm (c_px cs)) (p_non p)) as [w|] eqn:Hw; [|discriminate].
    mon H rf Hrf. destruct rf as [[lf1 fo] rc]. mon H pair1 Hpair. mon H c1 H1. mon H e He. opt_in He.
    mon H rx Hx. destruct rx as [px' x]. mon H c2 H2. destruct (set_farm cs farm lf1) as [f0' f1'].
    inversion H; subst cs' co; clear H. cbn [co_e co_x c_g] in *. apply flows_upd; [exact Fl|]. cbn [step] in Hs.
    destruct (exit_farm_char _ _ _ _ _ _ _ Hs Hb) as (w' & _ & _ & _ & R). cbv zeta in R. destruct R as (_ & _ & Em & Eb & _).
    rewrite Em, Eb, (answer_exit_farm_field _ _ _ _ He). destruct (farm =? 0); lia.
  - unfold c_claim in H. cbv zeta in H. mon H lf Hlf. destruct (getn _ _) as [w|]; [|discriminate].
    mon H rf Hrf. destruct rf as [[lf1 fo] rc]. mon H c1 H1. mon H e He. mon H rx Hx. destruct rx as [px' x]. mon H c2 H2.
    destruct (set_farm cs farm lf1) as [f0' f1']. inversion H; subst cs' co; clear H. cbn [co_e co_x c_g] in *.
    apply flows_upd; [exact Fl|]. destruct (step_no_mint _ _ _ _ Hs) as [A B]. rewrite A, B. lia.
  - unfold c_merge_wlp in H. cbv zeta in H. mon H parts Hparts. mon H rm Hrm. destruct rm as [cm mo]. cbn [fst snd] in H.
    mon H e He. mon H rx Hx. destruct rx as [px' x]. mon H c2 H2. inversion H; subst cs' co; clear H. cbn [co_e co_x c_g] in *.
    apply flows_upd; [exact Fl|]. destruct (step_no_mint _ _ _ _ Hs) as [A B]. rewrite A, B. lia.
  - unfold c_merge_wfm in H. cbv zeta in H. mon H lf Hlf. mon H rt Hrt. destruct rt as [s1 its].
    mon H fps Hfps. mon H toks Htoks. mon H rm Hrm. destruct rm as [cm mo]. mon H rg Hrg. destruct rg as [[lf1 go] rcm].
    cbn [fst snd] in H. mon H c1 H1. mon H e1 He1. mon H e He. mon H rx Hx. destruct rx as [px' x]. mon H c2 H2.
    destruct (set_farm cs farm lf1) as [f0' f1']. inversion H; subst cs' co; clear H. cbn [co_e co_x c_g] in *.
    apply flows_upd; [exact Fl|]. destruct (step_no_mint _ _ _ _ Hs) as [A B]. rewrite A, B. lia.
  - unfold c_inc_lp in H. cbv zeta in H. mon H rt Hrt. destruct rt as [s1 [k lp]]. mon H rm Hrm. destruct rm as [cm mo]. cbn [fst snd] in H.
    mon H e He. mon H rx Hx. destruct rx as [px' x]. mon H c2 H2. inversion H; subst cs' co; clear H. cbn [co_e co_x c_g] in *.
    apply flows_upd; [exact Fl|]. destruct (step_no_mint _ _ _ _ Hs) as [A B]. rewrite A, B. lia.
  - unfold c_inc_fm in H. cbv zeta in H. mon H rt Hrt. destruct rt as [s1 [w pp]]. mon H kl Hkl. destruct kl as [k lq].
    mon H rm Hrm. destruct rm as [cm mo]. cbn [fst snd] in H.
    mon H e He. mon H rx Hx. destruct rx as [px' x]. mon H c2 H2. inversion H; subst cs' co; clear H. cbn [co_e co_x c_g] in *.
    apply flows_upd; [exact Fl|]. destruct (step_no_mint _ _ _ _ Hs) as [A B]. rewrite A, B. lia.
  - unfold c_plain in H. mon H rx Hx. destruct rx. inversion H; subst. exact Fl.
  - unfold c_plain in H. mon H rx Hx. destruct rx. inversion H; subst. exact Fl.
  - unfold c_plain in H. mon H rx Hx. destruct rx. inversion H; subst. exact Fl.
  - unfold c_plain in H. mon H rx Hx. destruct rx. inversion H; subst. exact Fl.
  - unfold c_pair_env in H. chk H. mon H r Hr. destruct r as [[pair' po] ef]. inversion H; subst. exact Fl.
  - unfold c_farm_env in H. mon H lf Hlf. chk H. mon H r Hr. destruct r as [[lf' fo] rc]. mon H pair' Hp. mon H en' He.
    cbv zeta in H. destruct (set_farm cs farm lf') as [f0' f1']. inversion H; subst. exact Fl.
  - unfold c_energy_env in H. chk H. mon H r Hr. inversion H; subst. exact Fl.
  - unfold c_time in H. chk H. mon H r Hr. inversion H; subst. exact Fl.
Qed.


Theorem chist2_flows cs : chist2 cs -> Flows (c_g cs).
Proof.
  intros (cs0 & ops & Hi & Hu & ->). revert Hu. pattern ops. apply rev_ind; clear ops.
  - intros _. exact (proj2 (proj2 Hi)).
  - intros o ops IH Hu. apply Forall_app in Hu. destruct Hu as [Hu Ho].
    unfold crun. rewrite fold_left_app. cbn [fold_left]. fold (crun cs0 ops). specialize (IH Hu).
    unfold cstep_total. destruct (cstep (crun cs0 ops) o) as [[cs' co]|] eqn:E; [|exact IH].
    eapply cstep_flows; eauto. apply creach_backed. exists cs0, ops. split; [exact (proj1 (proj1 Hi)) | reflexivity].
Qed.

(** ================================================================== Part B, supply: round trips including the callees *)
(** the change of the global base-asset and locked-token supplies in a closed step ([co_db], [co_dl]) counts what the
    proxy mints and burns AND what the callee models burn (the base-asset farm burns the exit penalty it keeps) and
    mint (locked rewards) *)
Theorem closed_pool_round_trip cs u pid p1 p2 m1 m2 cs1 co1 cs2 m1' m2' cs3 co3 :
  Backed (c_px cs) -> c_add_liq cs u pid p1 p2 [] m1 m2 = Ok (cs1, co1) -> c_px cs2 = c_px cs1 ->
  c_remove_liq cs2 u pid (TK_WLP, next_nonce (s_wlp (c_px cs)), fst (fst (v_pair (co_e co1)))) m1' m2' = Ok (cs3, co3) ->
  co_dl co1 = 0 /\ co_db co1 = L16.add_used_locked p1 (co_e co1) /\
  (co_db co1 + co_dl co1) + (co_db co3 + co_dl co3) = 0.
Proof.
  intros Hb Ha Epx Hr.
  destruct (c_add_liq_proj _ _ _ _ _ _ _ _ _ _ Ha) as [S1 L1]. destruct (c_remove_liq_proj _ _ _ _ _ _ _ _ Hr) as [S3 _].
  rewrite Epx in S3. cbn [step] in S1, S3.
  pose proof (add_remove_round_trip _ _ _ _ _ _ _ _ _ _ _ Hb S1 L1 S3) as RT.
  destruct (add_liq_mint_any _ _ _ _ _ _ _ _ _ S1) as (_ & A & B & _ & C & _). cbv zeta in A, B.
  assert (Hb1 : Backed (c_px cs1)) by (eapply ep_add_liq_backed; eauto).
  destruct (remove_liq_char _ _ _ _ _ _ _ S3 Hb1) as (w & lp & _ & _ & R). cbv zeta in R. destruct R as (_ & Em & _).
  assert (D1 : co_db co1 = x_mint (co_x co1) - x_burn (co_x co1) /\ co_dl co1 = - snd (x_lburn (co_x co1))).
  { unfold c_add_liq in Ha. chk Ha. mon Ha c0 H0. mon Ha rp Hp. destruct rp as [[pair' po] ef].
    mon Ha e1 He1. cbv zeta in Ha. mon Ha re Hre. destruct re as [c1 e]. mon Ha rx Hx. destruct rx as [px' x].
    mon Ha c2 H2. inversion Ha; subst. split; reflexivity. }
  assert (D3 : co_db co3 = x_mint (co_x co3) - x_burn (co_x co3) /\ co_dl co3 = - snd (x_lburn (co_x co3))).
  { unfold c_remove_liq in Hr. mon Hr rp Hp. destruct rp as [[pair' po] ef]. mon Hr e He.
    mon Hr rx Hx. destruct rx as [px' x]. mon Hr c2 H2. inversion Hr; subst. split; reflexivity. }
  destruct D1 as [D1 D1']. destruct D3 as [D3 D3']. rewrite D1, D1', D3, D3', C, Em, A, B. cbn [snd].
  unfold L16.add_used_locked. repeat split; try lia.
Qed.

(** enterFarmProxy with locked tokens, then exitFarmProxy of the whole position: the base asset minted on entry is
    burned in full - part by the proxy (what the farm returned), part by the FARM MODEL (the penalty it kept, counted
    in [co_db] of the exit); the proxy burns the penalty once more in locked tokens, so the caller gets back
    a - penalty locked tokens and the global base supply is where it was *)
Theorem closed_farm_round_trip cs u p b1 cs1 co1 cs2 b2 cs3 co3 :
  Backed (c_px cs) -> p_tok p = TK_LOCKED -> c_enter_farm cs u 0 p [] b1 = Ok (cs1, co1) -> c_px cs2 = c_px cs1 ->
  c_exit_farm cs2 u 0 (TK_WFM, next_nonce (s_wfm (c_px cs)), p_amt p) b2 = Ok (cs3, co3) ->
  let pen := snd (x_lburn (co_x co3)) in
  co_db co1 = p_amt p /\ co_db co3 = - p_amt p /\ co_db co1 + co_db co3 = 0 /\
  x_burn (co_x co3) = p_amt p - pen /\                       (* burned by the proxy; the farm model burned [pen] *)
  co_db co3 = - (x_burn (co_x co3) + pen) /\
  (exists rew, x_outs (co_x co3) = [(TK_LOCKED, p_non p, p_amt p - pen); rew]).
Proof.
  intros Hb Hp Ha Epx Hr.
  destruct (c_enter_farm_proj _ _ _ _ _ _ _ _ Ha) as [S1 L1]. destruct (c_exit_farm_proj _ _ _ _ _ _ _ Hr) as [S3 _].
  rewrite Epx in S3. cbn [step] in S1, S3.
  destruct (enter_exit_round_trip _ _ _ _ _ _ _ _ _ Hb Hp S1 L1 S3) as (RT & Hout).
  destruct (enter_farm_mint_any _ _ _ _ _ _ _ _ S1) as (A & B & C & _). rewrite Hp in A. cbn in A.
  assert (Hb1 : Backed (c_px cs1)) by (eapply ep_enter_farm_backed; eauto).
  destruct (exit_farm_char _ _ _ _ _ _ _ S3 Hb1) as (w & _ & _ & _ & R). cbv zeta in R. destruct R as (_ & _ & Em & Eb & _).
  cbn [Z.eqb] in Eb.
  assert (D1 : co_db co1 = x_mint (co_x co1) - x_burn (co_x co1)).
  { unfold c_enter_farm in Ha. cbv zeta in Ha. mon Ha lf Hlf. mon Ha r0 Hr0. destruct r0 as [[s1 kind] minted].
    mon Ha c0 H0. mon Ha rf Hrf. destruct rf as [[lf1 fo] rc]. mon Ha pair1 Hpair. mon Ha c1 H1.
    mon Ha re Hre. destruct re as [[lf' c3] e]. mon Ha rx Hx. destruct rx as [px' x]. mon Ha c4 H4.
    destruct (set_farm cs 0 lf') as [f0' f1']. inversion Ha; subst. reflexivity. }
  assert (D3 : co_db co3 = x_mint (co_x co3) - x_burn (co_x co3) - (p_amt p - snd (v_farm (co_e co3)))).
  { unfold c_exit_farm in Hr. cbv zeta in Hr. mon Hr lf2 Hlf2.
    destruct (getn (s_wfm (c_px cs2)) _) as [w2|] eqn:Hw2; [|discriminate].
    mon Hr rf2 Hrf2. destruct rf2 as [[lf3 fo3] rc3]. mon Hr pair3 Hpair3. mon Hr c5 H5. mon Hr e3 He3. opt_in He3.
    mon Hr rx3 Hx3. destruct rx3 as [px3 x3]. mon Hr c6 H6. destruct (set_farm cs2 0 lf3) as [f0'' f1''].
    inversion Hr; subst. cbn [co_db co_x co_e Z.eqb p_amt snd]. rewrite (answer_exit_farm_field _ _ _ _ He3). reflexivity. }
  cbv zeta. rewrite D1, D3, A, B, Em, Eb. repeat split; try lia. exact Hout.
Qed.

(** ---- the pool keeps what the proxy does not get back *)
Module PB.
Import MX.Model.Pair.

Lemma ep_add_bal p c a1 a2 m1 m2 p' o e : ep_add p c a1 a2 m1 m2 = Ok (p', o, e) ->
  p_bal1 p' = p_bal1 p + nth 1 o 0 /\ p_bal2 p' = p_bal2 p + nth 2 o 0.
Proof.
  unfold ep_add. intros H. destruct (_ && _); [|discriminate]. destruct (_ && _); [|discriminate].
  destruct (is_state_active _); [|discriminate]. destruct (match p_adder p with Some _ => _ | None => _ end); [|discriminate].
  apply bind_ok in H. destruct H as ([o1 o2] & _ & H). apply bind_ok in H. destruct H as ([p1 liq] & Hl & H).
  destruct (k_check p p1); [|discriminate]. inversion H; subst p' o e; clear H. cbn [nth].
  assert (E : p_bal1 p1 = p_bal1 p /\ p_bal2 p1 = p_bal2 p).
  { destruct (p_S p =? 0).
    - destruct (_ <? _); [|discriminate]. inversion Hl; subst. split; reflexivity.
    - apply bind_ok in Hl. destruct Hl as (l1 & _ & Hl). apply bind_ok in Hl. destruct Hl as (l2 & _ & Hl).
      destruct (0 <? _); [|discriminate]. inversion Hl; subst. split; reflexivity. }
  destruct E as [E1 E2]. unfold lp_credit, set_lp, add_bal. cbn. rewrite E1, E2. split; reflexivity.
Qed.

Lemma sub_bal_bals p t a p' : sub_bal p t a = Ok p' ->
  p_bal1 p' = p_bal1 p - (if t =? T1 then a else 0) /\ p_bal2 p' = p_bal2 p - (if t =? T1 then 0 else a).
Proof.
  unfold sub_bal, bal. intros H. apply bind_ok in H. destruct H as (b & Hb & H). apply sub_chk_ok in Hb. destruct Hb as [_ ->].
  inversion H; subst. destruct (t =? T1); cbn; split; lia.
Qed.

Lemma pool_remove_bals p lp m1 m2 p' x1 x2 : pool_remove p lp m1 m2 = Ok (p', x1, x2) -> p_bal1 p' = p_bal1 p /\ p_bal2 p' = p_bal2 p.
Proof.
  unfold pool_remove. intros H. destruct (_ <=? _); [|discriminate].
  apply bind_ok in H. destruct H as (y1 & _ & H). destruct (0 <? y1); [|discriminate]. destruct (m1 <=? y1); [|discriminate].
  destruct (y1 <? _); [|discriminate].
  apply bind_ok in H. destruct H as (y2 & _ & H). destruct (0 <? y2); [|discriminate]. destruct (m2 <=? y2); [|discriminate].
  destruct (y2 <? _); [|discriminate].
  apply bind_ok in H. destruct H as (s' & _ & H). apply bind_ok in H. destruct H as (r1 & _ & H).
  apply bind_ok in H. destruct H as (r2 & _ & H). inversion H; subst. split; reflexivity.
Qed.

Lemma ep_remove_bal p c lp m1 m2 p' o e : ep_remove p c lp m1 m2 = Ok (p', o, e) ->
  p_bal1 p' = p_bal1 p - nth 0 o 0 /\ p_bal2 p' = p_bal2 p - nth 1 o 0.
Proof.
  unfold ep_remove. intros H. destruct (_ && _); [|discriminate]. destruct (is_state_active _); [|discriminate].
  destruct (0 <? lp); [|discriminate].
  apply bind_ok in H. destruct H as (p0 & H0 & H). apply bind_ok in H. destruct H as ([[p1 x1] x2] & H1 & H).
  destruct (_ <=? _); [|discriminate].
  apply bind_ok in H. destruct H as (p2 & H2 & H). apply bind_ok in H. destruct H as (p3 & H3 & H). inversion H; subst p' o e; clear H.
  cbn [nth]. destruct (sub_bal_bals _ _ _ _ H3) as [A3 B3]. destruct (sub_bal_bals _ _ _ _ H2) as [A2 B2].
  destruct (pool_remove_bals _ _ _ _ _ _ _ H1) as [A1 B1].
  assert (E0 : p_bal1 p0 = p_bal1 p /\ p_bal2 p0 = p_bal2 p).
  { unfold lp_debit in H0. destruct (negb _); [|discriminate]. apply bind_ok in H0. destruct H0 as (b & _ & H0). inversion H0. split; reflexivity. }
  destruct E0 as [A0 B0]. cbn in A3, B3, A2, B2. rewrite A3, B3, A2, B2, A1, B1, A0, B0. split; lia.
Qed.
End PB.

(** the pair model's balance of the base asset *)
Definition pool_base (cs : cst) : Z := if c_bf cs then PR.p_bal1 (c_pair cs) else PR.p_bal2 (c_pair cs).

Theorem closed_add_pool cs u pid p1 p2 extra m1 m2 cs' co : c_add_liq cs u pid p1 p2 extra m1 m2 = Ok (cs', co) ->
  pool_base cs' = pool_base cs + L16.add_used_locked p1 (co_e co) /\ c_bf cs' = c_bf cs.
Proof.
  intros H. pose proof (c_add_liq_proj _ _ _ _ _ _ _ _ _ _ H) as [Hs _]. cbn [step] in Hs.
  unfold c_add_liq in H. chk H. mon H c0 H0. mon H rp Hp. destruct rp as [[pair' po] ef].
  mon H e1 He1. opt_in He1. cbv zeta in H. mon H re Hre. destruct re as [c1 e]. mon H rx Hx. destruct rx as [px' x].
  mon H c2 H2. inversion H; subst cs' co; clear H. cbn [co_e co_x] in *. split; [|reflexivity].
  assert (Ev : v_pair e = v_pair e1).
  { destruct extra as [|q t]; [inversion Hre; reflexivity|].
    mon Hre parts Hparts. mon Hre rm Hrm. destruct rm as [cm fo]. cbn [fst snd] in Hre. mon Hre e2 He2. opt_in He2.
    inversion Hre; subst. exact (proj2 (add_used_set_fact p1 _ _ _ _ He2)). }
  cbn [PR.step] in Hp. destruct (PB.ep_add_bal _ _ _ _ _ _ _ _ _ Hp) as [B1 B2].
  unfold L16.answer_of_addLiquidity in He1. destruct po as [|liq [|o1 [|o2 [|z t]]]]; try discriminate. inversion He1; subst e1. clear He1.
  unfold pool_base, L16.add_used_locked. cbn [c_bf c_pair]. rewrite Ev. cbn [L16.set_v_pair v_pair fst snd nth] in *.
  (* the locked payment is the one on the base-asset side of the pool *)
  destruct (add_liq_mint_any _ _ _ _ _ _ _ _ _ Hs) as (Hl & _). cbv zeta in Hl.
  unfold pool_order, und in C. destruct (c_bf cs).
  - rewrite B1. destruct (p_tok p1 =? TK_LOCKED) eqn:E1; [reflexivity|].
    apply andb_prop in C. destruct C as [C1 C2]. rewrite Hl in C2. cbn in C2. discriminate.
  - rewrite B2. destruct (p_tok p1 =? TK_LOCKED) eqn:E1; [|reflexivity].
    apply andb_prop in C. destruct C as [C1 C2]. cbn in C1. discriminate.
Qed.

Theorem closed_remove_pool cs u pid p m1 m2 cs' co : c_remove_liq cs u pid p m1 m2 = Ok (cs', co) ->
  pool_base cs' = pool_base cs - snd (fst (v_pair (co_e co))) /\ c_bf cs' = c_bf cs.
Proof.
  intros H. unfold c_remove_liq in H. mon H rp Hp. destruct rp as [[pair' po] ef]. mon H e He. opt_in He.
  mon H rx Hx. destruct rx as [px' x]. mon H c2 H2. inversion H; subst cs' co; clear H. cbn [co_e]. split; [|reflexivity].
  cbn [PR.step] in Hp. destruct (PB.ep_remove_bal _ _ _ _ _ _ _ _ Hp) as [B1 B2].
  unfold L16.answer_of_removeLiquidity in He. destruct po as [|x1 [|x2 [|z t]]]; try discriminate. inversion He; subst e. clear He.
  unfold pool_base. cbn [c_bf c_pair nth] in *. destruct (c_bf cs); cbn [L16.set_v_pair v_pair fst snd]; lia.
Qed.

(** ================================================================== the C16 theorems on closed steps: no law hypothesis *)
Theorem closed_backed_step cs o cs' co : cstep cs o = Ok (cs', co) -> Backed (c_px cs) -> Backed (c_px cs').
Proof.
  intros H Hb. pose proof (cstep_proj _ _ _ _ H) as P. destruct (pop_of o (co_e co)) as [po|].
  - destruct P as [Hs Hl]. eapply step_backed; eauto.
  - rewrite P. exact Hb.
Qed.

Theorem closed_locked_remove cs u pid p m1 m2 cs' co : creach cs -> cstep cs (CRemoveLiq u pid p m1 m2) = Ok (cs', co) ->
  let s := c_px cs in let e := co_e co in let x := co_x co in
  exists w lp, getn (s_wlp s) (p_non p) = Some w /\ part_wlp w (p_amt p) = Ok lp /\
    let rb := snd (fst (v_pair e)) in let ro := snd (v_pair e) in
    let burned := Z.max 0 (lp - rb) in
    x_outs x = (if lp <? rb then [(TK_BASE, 0, rb - lp)] else []) ++
               [(TK_LOCKED, wl_k w, Z.min rb lp)] ++ [(TK_OTHER, 0, ro)] /\
    x_mint x = 0 /\ x_burn x = Z.min rb lp /\ x_lburn x = (if lp <? rb then (0, 0) else (wl_k w, burned)) /\
    x_burn x + snd (x_lburn x) = lp /\
    burn_energy e burned = Ok (x_energy x).
Proof.
  intros R H. destruct (cstep_proj _ _ _ _ H) as [Hs _]. exact (remove_liq_char _ _ _ _ _ _ _ Hs (creach_backed _ R)).
Qed.

Theorem closed_locked_exit cs u farm p b cs' co : creach cs -> cstep cs (CExitFarm u farm p b) = Ok (cs', co) ->
  let s := c_px cs in let e := co_e co in let x := co_x co in
  exists w, getn (s_wfm s) (p_non p) = Some w /\ wf_farm w = farm /\ wf_P w = wf_T w /\
    let a := p_amt p in let F := snd (v_farm e) in let pen := a - F in
    0 < a /\ F <= a /\ x_mint x = 0 /\ x_burn x = (if farm =? 0 then F else 0) /\
    (exists out, x_outs x = [out; (TK_LOCKED, fst (v_rew e), snd (v_rew e))] /\ p_amt out = a - pen /\
       ((wf_kind w = 0 /\ out = (TK_LOCKED, wf_pn w, a - pen)) \/ (wf_kind w <> 0 /\ p_tok out = TK_WLP /\ (pen = 0 -> p_non out = wf_pn w)))) /\
    (wf_kind w = 0 -> snd (x_lburn x) = pen /\ (pen <> 0 -> fst (x_lburn x) = wf_pn w) /\ burn_energy e pen = Ok (x_energy x)) /\
    (wf_kind w <> 0 -> pen = 0 -> x_lburn x = (0, 0) /\ x_energy x = None) /\
    (wf_kind w <> 0 -> pen <> 0 -> exists wl lold lnew,
        getn (s_wlp s) (wf_pn w) = Some wl /\ part_wlp wl a = Ok lold /\ part_wlp wl (a - pen) = Ok lnew /\
        x_lburn x = (wl_k wl, lold - lnew) /\ lnew <= lold /\ burn_energy e (lold - lnew) = Ok (x_energy x)).
Proof.
  intros R H. destruct (cstep_proj _ _ _ _ H) as [Hs _]. exact (exit_farm_char _ _ _ _ _ _ _ Hs (creach_backed _ R)).
Qed.

(** no closed operation pays base asset except removeLiquidityProxy's pool surplus above the locked part *)
Theorem closed_base_only_surplus cs o cs' co pay : cstep cs o = Ok (cs', co) -> In pay (x_outs (co_x co)) -> p_tok pay = TK_BASE ->
  exists u pid p m1 m2 lp w, o = CRemoveLiq u pid p m1 m2 /\ getn (s_wlp (c_px cs)) (p_non p) = Some w /\
    part_wlp w (p_amt p) = Ok lp /\ lp < snd (fst (v_pair (co_e co))) /\ pay = (TK_BASE, 0, snd (fst (v_pair (co_e co))) - lp).
Proof.
  intros H Hin Hb. pose proof (cstep_proj _ _ _ _ H) as P.
  destruct o; cbn [pop_of] in P;
    try (match type of P with _ /\ _ => destruct P as [Hs _] end; destruct (base_only_surplus _ _ _ _ _ Hs Hin Hb) as (u' & pid' & p' & e' & lp & w & Eo & Hw & Hp & Hlt & Epay);
         inversion Eo; subst; eauto 12; fail).
  - cbn [cstep] in H. unfold c_pair_env in H. chk H. mon H r Hr. destruct r as [[pair' po] ef]. inversion H; subst. contradiction.
  - cbn [cstep] in H. unfold c_farm_env in H. mon H lf Hlf. chk H. mon H r Hr. destruct r as [[lf' fo] rc]. mon H pair' Hp. mon H en' He.
    cbv zeta in H. destruct (set_farm cs farm lf') as [f0' f1']. inversion H; subst. contradiction.
  - cbn [cstep] in H. unfold c_energy_env in H. chk H. mon H r Hr. inversion H; subst. contradiction.
  - cbn [cstep] in H. unfold c_time in H. chk H. mon H r Hr. inversion H; subst. contradiction.
Qed.

Theorem closed_locked_merge cs u ps cs' co : creach cs -> cstep cs (CMergeWlp u ps) = Ok (cs', co) ->
  let s := c_px cs in let e := co_e co in let x := co_x co in
  let n := next_nonce (s_wlp s) in
  x_outs x = [(TK_WLP, n, sum_amt ps)] /\ x_mint x = 0 /\ x_burn x = 0 /\ x_lburn x = (0, 0) /\ x_energy x = None /\
  0 < sum_amt ps /\ 0 <= snd (v_fact e) /\
  getn (s_wlp (c_px cs')) n = Some (mkWlp (sum_amt ps) (fst (v_fact e)) (snd (v_fact e)) (sum_amt ps) 0).
Proof.
  intros R H. destruct (cstep_proj _ _ _ _ H) as [Hs Hl]. exact (merge_wlp_char _ _ _ _ _ _ Hs (creach_backed _ R) Hl).
Qed.

Theorem closed_mint_burn_add cs u pid p1 p2 m1 m2 cs' co : creach cs -> cstep cs (CAddLiq u pid p1 p2 [] m1 m2) = Ok (cs', co) ->
  let s := c_px cs in let e := co_e co in let x := co_x co in
  exists pl po used_l used_o,
    ((p_tok p1 = TK_LOCKED /\ p_tok p2 <> TK_LOCKED /\ pl = p1 /\ po = p2 /\ used_l = snd (fst (v_pair e)) /\ used_o = snd (v_pair e)) \/
     (p_tok p2 = TK_LOCKED /\ p_tok p1 <> TK_LOCKED /\ pl = p2 /\ po = p1 /\ used_l = snd (v_pair e) /\ used_o = snd (fst (v_pair e)))) /\
    let lp := fst (fst (v_pair e)) in
    let n := next_nonce (s_wlp s) in
    0 <= used_l <= p_amt pl /\
    x_mint x = p_amt pl /\ x_burn x = p_amt pl - used_l /\ x_lburn x = (0, 0) /\ x_energy x = None /\
    x_outs x = [(TK_WLP, n, lp); (TK_LOCKED, p_non pl, p_amt pl - used_l); (TK_OTHER, 0, p_amt po - used_o)] /\
    getn (s_wlp (c_px cs')) n = Some (mkWlp lp (p_non pl) used_l lp 0).
Proof.
  intros R H. destruct (cstep_proj _ _ _ _ H) as [Hs Hl]. exact (add_liq_char _ _ _ _ _ _ _ _ Hs (creach_backed _ R) Hl).
Qed.

Theorem closed_mint_burn_enter cs u farm p b cs' co : creach cs -> cstep cs (CEnterFarm u farm p [] b) = Ok (cs', co) ->
  let s := c_px cs in let e := co_e co in let x := co_x co in
  let a := p_amt p in let m := next_nonce (s_wfm s) in
  0 < a /\ snd (v_farm e) = a /\ x_burn x = 0 /\ x_lburn x = (0, 0) /\ x_energy x = None /\
  x_outs x = [(TK_WFM, m, a); (TK_LOCKED, fst (v_rew e), snd (v_rew e))] /\
  ((p_tok p = TK_LOCKED /\ farm = 0 /\ x_mint x = a /\
    getn (s_wfm (c_px cs')) m = Some (mkWfm farm (fst (v_farm e)) a 0 (p_non p) a a)) \/
   (p_tok p = TK_WLP /\ farm = 1 /\ x_mint x = 0 /\
    getn (s_wfm (c_px cs')) m = Some (mkWfm farm (fst (v_farm e)) a 1 (p_non p) a a))).
Proof.
  intros R H. destruct (cstep_proj _ _ _ _ H) as [Hs Hl]. exact (enter_farm_char _ _ _ _ _ _ _ Hs (creach_backed _ R) Hl).
Qed.

(** reachable closed states stay reachable under any further closed operation, so the round trips above apply to
    reachable states through [creach_backed] *)
Theorem closed_pool_round_trip_reach cs u pid p1 p2 m1 m2 cs1 co1 cs2 m1' m2' cs3 co3 :
  creach cs -> c_add_liq cs u pid p1 p2 [] m1 m2 = Ok (cs1, co1) -> c_px cs2 = c_px cs1 ->
  c_remove_liq cs2 u pid (TK_WLP, next_nonce (s_wlp (c_px cs)), fst (fst (v_pair (co_e co1)))) m1' m2' = Ok (cs3, co3) ->
  co_dl co1 = 0 /\ co_db co1 = L16.add_used_locked p1 (co_e co1) /\
  (co_db co1 + co_dl co1) + (co_db co3 + co_dl co3) = 0.
Proof. intros R. apply closed_pool_round_trip. apply creach_backed. exact R. Qed.

Theorem closed_farm_round_trip_reach cs u p b1 cs1 co1 cs2 b2 cs3 co3 :
  creach cs -> p_tok p = TK_LOCKED -> c_enter_farm cs u 0 p [] b1 = Ok (cs1, co1) -> c_px cs2 = c_px cs1 ->
  c_exit_farm cs2 u 0 (TK_WFM, next_nonce (s_wfm (c_px cs)), p_amt p) b2 = Ok (cs3, co3) ->
  let pen := snd (x_lburn (co_x co3)) in
  co_db co1 = p_amt p /\ co_db co3 = - p_amt p /\ co_db co1 + co_db co3 = 0 /\
  x_burn (co_x co3) = p_amt p - pen /\ co_db co3 = - (x_burn (co_x co3) + pen) /\
  (exists rew, x_outs (co_x co3) = [(TK_LOCKED, p_non p, p_amt p - pen); rew]).
Proof. intros R. apply closed_farm_round_trip. apply creach_backed. exact R. Qed.

(** ================================================================== example history (Props/C16_closed.v, Props/C08_proxy.v:
    non-vacuity).  Executed on the real composed system (tools/sys_proxy_closed.py, scripted): user 1 adds liquidity with
    10^8 locked tokens (unlock epoch 360), hands the wrapped LP token to user 2; the trader moves the price; two epochs
    later user 2 removes the liquidity - the pool returns 68 814 513 base asset, so user 2 gets 68 814 513 LOCKED
    tokens and the proxy burns 31 185 487 with the deduction taken from USER 2's entry; user 1 enters the base-asset farm
    with 10^6 locked tokens and exits one epoch later with the 1 % penalty and a locked reward. *)
Definition ex_init : cst :=
  init_c 300 50 true 1000000000000000000 [(360, 4000); (1800, 6000); (3600, 8000)] 360 10 1.

Definition ex_setup : list cop :=
  [CFarm 0 (FL.LF (F.FSetRate 10 100 5000)); CFarm 0 (FL.LF (F.FSetState 100 1)); CFarm 0 (FL.LF (F.FStart 10 100));
   CFarm 0 (FL.LF (F.FSetFactors 100)); CFarm 0 (FL.LF (F.FSetPct 10 100 2500));
   CFarm 1 (FL.LF (F.FSetRate 10 100 5000)); CFarm 1 (FL.LF (F.FSetState 100 1)); CFarm 1 (FL.LF (F.FStart 10 100));
   CFarm 1 (FL.LF (F.FSetFactors 100)); CFarm 1 (FL.LF (F.FSetPct 10 100 2500));
   CEnergy (EN.Lock 1 1000000000000 360 1); CEnergy (EN.Lock 2 500000000000 1800 2); CEnergy (EN.Lock 3 10000000000 360 3);
   CPair (PR.AddInitial 100 1000000000 2000000000); CPair (PR.SetState 100 1)].

Definition ex_hist : list cop :=
  [CAddLiq 1 0 (2, 360, 100000000) (1, 0, 200000000) [] 1 1;
   CXferWlp 1 2 1 100000000;
   CPair (PR.SwapIn 7 2 1000000000 1 1);
   CTime 5 2;
   CRemoveLiq 2 0 (3, 1, 100000000) 1 1;
   CEnterFarm 1 0 (2, 360, 1000000) [] 0;
   CTime 5 1;
   CExitFarm 1 0 (4, 1, 1000000) 0].

Definition ex_ops : list cop := ex_setup ++ ex_hist.

Fixpoint all_ok (cs : cst) (ops : list cop) : bool :=
  match ops with
  | [] => true
  | o :: t => match cstep cs o with Ok (cs', _) => all_ok cs' t | Err _ => false end
  end.

Definition cwf_b (o : cop) : bool :=
  match caller_of o with
  | Some u => (0 <? u) && (u <? 1000) && negb (reserved u)
  | None => match o with CFarm _ (FL.LF fo) => forallb (fun c => (0 <=? c) && (c <? 1000)) (farm_accts fo) | _ => true end
  end.

Lemma cwf_b_ok o : cwf_b o = true -> cwf o.
Proof.
  unfold cwf, cuser. destruct o; cbn [cwf_b caller_of]; intros H;
    try (split; [|exact I]; apply andb_prop in H; destruct H as [H H3]; apply andb_prop in H; destruct H as [H1 H2];
         apply Z.ltb_lt in H1, H2; apply negb_true_iff in H3; unfold reserved in H3;
         apply orb_false_iff in H3; destruct H3 as [H3 H5]; apply orb_false_iff in H3; destruct H3 as [H3 H4];
         apply Z.eqb_neq in H3, H4, H5; unfold uid; lia);
    try (split; exact I).
  split; [exact I|]. destruct o; [|exact I]. apply Forall_forall. intros c Hc. rewrite forallb_forall in H.
  specialize (H c Hc). apply andb_prop in H. destruct H as [H1 H2]. apply Z.leb_le in H1. apply Z.ltb_lt in H2. unfold FI.valid_id. lia.
Qed.

(** with the backing invariant: the wrapped tokens are backed by what the CALLEE MODELS hold for the proxy *)
Theorem chist2_backed_by_callees cs : chist2 cs ->
  asum (s_hlp (c_px cs)) <= PR.lp_of (c_pair cs) PX /\
  forall m w, getn (s_wfm (c_px cs)) m = Some w ->
    (wf_farm w = 0 \/ wf_farm w = 1) /\ wf_sup w <= F.held (FL.l_f (lf_of cs (wf_farm w))) (wf_f w) PX.
Proof.
  intros H. destruct (chist2_links _ H) as (L1 & L2 & K).
  pose proof (creach_backed _ (chist_creach _ (chist2_chist _ H))) as Hb.
  split; [unfold LinkLP in L1; rewrite <- L1; exact (bk_lp _ Hb)|].
  intros m w Hw. pose proof (Forall_getn _ _ _ _ K Hw) as Kw.
  assert (Hf : wf_farm w = 0 \/ wf_farm w = 1) by (unfold kf_ok in Kw; tauto).
  split; [exact Hf|]. destruct (backed_wfm_position _ _ _ Hb Hw) as (_ & Hs & _).
  rewrite (L2 (wf_farm w) (wf_f w) Hf) in Hs. exact Hs.
Qed.

(** ---- C08 for proxy positions, as stated in Props/C08_proxy.v *)
Theorem chist_view cs u : chist cs -> 0 < u ->
  let s := c_en cs in let d := g_car (c_g cs) in
  EN.e_amt (EN.view_entry s u) = ENP.spec_energy (EN.s_bal s ++ d) u (EN.s_now s) /\
  EN.e_tot (EN.view_entry s u) = ENP.spec_total (EN.s_bal s ++ d) u /\
  EN.e_upd (EN.view_entry s u) = EN.s_now s /\
  EN.view_amount s u = Z.max 0 (ENP.spec_energy (EN.s_bal s ++ d) u (EN.s_now s)).
Proof. intros H Hu. exact (cinv_view (cus_of cs) u (chist_cinv _ H) Hu). Qed.

Theorem spec_split l d u now :
  ENP.spec_energy (l ++ d) u now = ENP.spec_energy l u now + ENP.spec_energy d u now /\
  ENP.spec_total (l ++ d) u = ENP.spec_total l u + ENP.spec_total d u.
Proof. split; [apply spec_energy_app | apply spec_total_app]. Qed.

Theorem chist_custody cs : chist cs ->
  (forall e, ENP.lsum_e (g_car (c_g cs)) e = EN.lget (EN.s_bal (c_en cs)) H_PX e) /\
  Forall (fun x : Z * Z * Z => 0 < fst (fst x)) (g_car (c_g cs)) /\
  EN.view_entry (c_en cs) H_PX = EN.mkEn 0 (EN.s_now (c_en cs)) 0 /\ EN.view_amount (c_en cs) H_PX = 0.
Proof.
  intros H. pose proof (chist_cinv _ H) as I. destruct (cinv_proxy_no_energy _ I) as [A B].
  destruct I as (_ & S & P). split; [exact S|]. split; [exact P|]. split; assumption.
Qed.

Theorem cstep_only_caller_view cs o cs' co u v : cstep cs o = Ok (cs', co) -> Backed (c_px cs) ->
  caller_of o = Some u -> uid u -> v <> u ->
  EN.view_entry (c_en cs') v = EN.view_entry (c_en cs) v.
Proof. intros H Hb Hc Hu Hv. eapply ent_frame_view; [eapply cstep_only_caller; eauto | exact Hv]. Qed.

(** ================================================================== Part A, second half: projection onto CALLEE steps *)
(** the callee-model steps a successful closed transaction contains (the nested calls, on the states the glue handed them) *)
Theorem cstep_callees cs o cs' co : cstep cs o = Ok (cs', co) ->
  match o with
  | CAddLiq u _ p1 p2 extra m1 m2 =>
      (exists po ef, PR.step (c_pair cs) (PR.Add PX (p_amt p1) (p_amt p2) m1 m2) = Ok (c_pair cs', po, ef)) /\
      (extra <> [] -> exists s1 fps s2 fo, EN.step s1 (EN.MergeVia u fps) = Ok (s2, fo))
  | CRemoveLiq _ _ p m1 m2 => exists po ef, PR.step (c_pair cs) (PR.Remove PX (p_amt p) m1 m2) = Ok (c_pair cs', po, ef)
  | CEnterFarm u farm p extra b =>
      (exists lf lf2 fo rc, farm_of cs farm = Ok lf /\
         FL.lstep lf (FL.LF (F.FEnter (c_blk cs) (now_of cs) u (p_amt p) [] b)) = Ok (lf2, fo, rc)) /\
      (extra <> [] -> (exists s1 fps s2 fo, EN.step s1 (EN.MergeVia u fps) = Ok (s2, fo)) /\
                      (exists lf3 toks lf4 go rcm, FL.lstep lf3 (FL.LF (F.FMerge (c_blk cs) (now_of cs) u toks 0)) = Ok (lf4, go, rcm)))
  | CExitFarm u _ p b => exists w lf1 lf2 fo rc, getn (s_wfm (c_px cs)) (p_non p) = Some w /\
      FL.lstep lf1 (FL.LF (F.FExit (c_blk cs) (now_of cs) u (wf_f w, p_amt p) b)) = Ok (lf2, fo, rc)
  | CClaim u _ p b => exists w lf1 lf2 fo rc, getn (s_wfm (c_px cs)) (p_non p) = Some w /\
      FL.lstep lf1 (FL.LF (F.FClaim (c_blk cs) (now_of cs) u (wf_f w, p_amt p) [] b)) = Ok (lf2, fo, rc)
  | CMergeWlp u _ => exists s1 fps s2 fo, EN.step s1 (EN.MergeVia u fps) = Ok (s2, fo)
  | CMergeWfm u _ _ bm =>
      (exists s1 fps s2 fo, EN.step s1 (EN.MergeVia u fps) = Ok (s2, fo)) /\
      (exists lf1 toks lf2 go rcm, FL.lstep lf1 (FL.LF (F.FMerge (c_blk cs) (now_of cs) u toks bm)) = Ok (lf2, go, rcm))
  | CIncLp u _ le | CIncFm u _ le => exists s1 k amt s2 fo, EN.step s1 (EN.ExtendVia u k amt le) = Ok (s2, fo)
  | CPair o' => exists po ef, PR.step (c_pair cs) o' = Ok (c_pair cs', po, ef)
  | CFarm farm o' => exists lf lf' fo rc, farm_of cs farm = Ok lf /\ FL.lstep lf o' = Ok (lf', fo, rc) /\ lf' = lf_of cs' farm
  | CEnergy o' => exists out, EN.step (c_en cs) o' = Ok (c_en cs', out)
  | CTime _ dep => exists out, EN.step (c_en cs) (EN.Advance dep) = Ok (c_en cs', out)
  | _ => True
  end.
Proof.
  destruct o; cbn [cstep]; intros H; try exact I.
  - unfold c_add_liq in H. chk H. mon H c0 H0. mon H rp Hp. destruct rp as [[pair' po] ef].
    mon H e1 He1. cbv zeta in H. mon H re Hre. destruct re as [c1 e]. mon H rx Hx. destruct rx as [px' x].
    mon H c2 H2. inversion H; subst cs' co; clear H. cbn [c_pair]. split; [eauto|]. intros Hne.
    destruct extra as [|q t]; [contradiction|]. mon Hre parts Hparts. mon Hre rm Hrm. destruct rm as [cm fo].
    unfold px_merge in Hrm. mon Hrm ca Ha. mon Hrm r Hr. destruct r as [s2 o2]. eauto.
  - unfold c_remove_liq in H. mon H rp Hp. destruct rp as [[pair' po] ef]. mon H e He.
    mon H rx Hx. destruct rx as [px' x]. mon H c2 H2. inversion H; subst. cbn [c_pair]. eauto.
  - unfold c_enter_farm in H. cbv zeta in H. mon H lf Hlf. mon H r0 Hr0. destruct r0 as [[s1 kind] minted].
    mon H c0 H0. mon H rf Hrf. destruct rf as [[lf1 fo] rc]. mon H pair1 Hpair. mon H c1 H1.
    mon H re Hre. destruct re as [[lf' c3] e]. mon H rx Hx. destruct rx as [px' x]. mon H c4 H4.
    destruct (via_user_inv _ _ _ _ _ _ _ _ Hrf) as (lfa & lfb & Hq & Hstep & _). simpl in Hq. inversion Hq; subst lfa.
    split; [eauto 8|]. intros Hne. destruct extra as [|q t]; [contradiction|].
    mon Hre rt Hrt. destruct rt as [s2 its]. mon Hre fps Hfps. mon Hre toks Htoks. mon Hre rm Hrm. destruct rm as [cm mo].
    mon Hre rg Hrg. destruct rg as [[lf2 go] rcm].
    unfold px_merge in Hrm. mon Hrm ca Ha. mon Hrm r Hr. destruct r as [sm o2].
    destruct (via_user_inv _ _ _ _ _ _ _ _ Hrg) as (lfc & lfd & _ & Hmstep & _). split; eauto 8.
  - unfold c_exit_farm in H. cbv zeta in H. mon H lf Hlf.
    destruct (getn (s_wfm (c_px cs)) (p_non p)) as [w|] eqn:Hw; [|discriminate].
    mon H rf Hrf. destruct rf as [[lf1 fo] rc]. destruct (via_user_inv _ _ _ _ _ _ _ _ Hrf) as (lfa & lfb & _ & Hstep & _). eauto 8.
  - unfold c_claim in H. cbv zeta in H. mon H lf Hlf.
    destruct (getn (s_wfm (c_px cs)) (p_non p)) as [w|] eqn:Hw; [|discriminate].
    mon H rf Hrf. destruct rf as [[lf1 fo] rc]. destruct (via_user_inv _ _ _ _ _ _ _ _ Hrf) as (lfa & lfb & _ & Hstep & _). eauto 8.
  - unfold c_merge_wlp in H. cbv zeta in H. mon H parts Hparts. mon H rm Hrm. destruct rm as [cm mo].
    unfold px_merge in Hrm. mon Hrm ca Ha. mon Hrm r Hr. destruct r as [s2 o2]. eauto.
  - unfold c_merge_wfm in H. cbv zeta in H. mon H lf Hlf. mon H rt Hrt. destruct rt as [s1 its].
    mon H fps Hfps. mon H toks Htoks. mon H rm Hrm. destruct rm as [cm mo]. mon H rg Hrg. destruct rg as [[lf1 go] rcm].
    unfold px_merge in Hrm. mon Hrm ca Ha. mon Hrm r Hr. destruct r as [s2 o2].
    destruct (via_user_inv _ _ _ _ _ _ _ _ Hrg) as (lfc & lfd & _ & Hmstep & _). split; eauto 8.
  - unfold c_inc_lp in H. cbv zeta in H. mon H rt Hrt. destruct rt as [s1 [k lp]]. mon H rm Hrm. destruct rm as [cm mo].
    unfold px_extend in Hrm. mon Hrm ca Ha. mon Hrm r Hr. destruct r as [s2 o2]. eauto 8.
  - unfold c_inc_fm in H. cbv zeta in H. mon H rt Hrt. destruct rt as [s1 [w pp]]. mon H kl Hkl. destruct kl as [k lq].
    mon H rm Hrm. destruct rm as [cm mo]. unfold px_extend in Hrm. mon Hrm ca Ha. mon Hrm r Hr. destruct r as [s2 o2]. eauto 8.
  - unfold c_pair_env in H. chk H. mon H r Hr. destruct r as [[pair' po] ef]. inversion H; subst. cbn [c_pair]. eauto.
  - unfold c_farm_env in H. mon H lf Hlf. chk H. mon H r Hr. destruct r as [[lf' fo] rc]. mon H pair' Hp. mon H en' He.
    cbv zeta in H. destruct (set_farm cs farm lf') as [f0' f1'] eqn:Es. inversion H; subst. exists lf, lf', fo, rc.
    split; [exact Hlf|]. split; [exact Hr|]. destruct (farm_of_ok _ _ _ Hlf) as [Hf _]. unfold lf_of, set_farm in *. cbn [c_f0 c_f1].
    destruct (farm =? 0); inversion Es; reflexivity.
  - unfold c_energy_env in H. chk H. mon H r Hr. destruct r as [s' out]. inversion H; subst. cbn [c_en fst]. eauto.
  - unfold c_time in H. chk H. mon H r Hr. destruct r as [s' out]. inversion H; subst. cbn [c_en fst]. eauto.
Qed.

(** ================================================================== the callee models' own invariants inside the composition
    C01's PairInv for the pair model and C05-C07's invariant of the locked farm (FarmLockedProofs.LOK = FarmOK + the
    reward-ledger identities) hold in every closed history: every theorem of Props/C01..C07 about those models applies to
    the callee states of the composition. *)
Definition CalleeOK (cs : cst) : Prop := PI.PairInv (c_pair cs) /\ FLP.LOK (c_f0 cs) /\ FLP.LOK (c_f1 cs).

Lemma px_valid : FI.valid_id PX. Proof. unfold FI.valid_id, PX. lia. Qed.

Lemma lseq_lok toks : forall lf u lf1, FB.lseq lf (map (FB.xfer PX u) toks) = Ok lf1 -> FLP.LOK lf -> FI.valid_id u -> FLP.LOK lf1.
Proof.
  induction toks as [|t ts IH]; intros lf u lf1 H K Hu; cbn [map FB.lseq] in H.
  - inversion H; subst. exact K.
  - mon H r Hr. destruct r as [[lf0 o] rc]. cbn [fst] in H. eapply IH; [exact H | | exact Hu].
    eapply FLP.lstep_lok; [exact K | | exact Hr]. cbn. split; [exact px_valid | exact Hu].
Qed.

Lemma via_user_lok lf u toks op back lf' o rc : via_user lf u toks op back = Ok (lf', o, rc) ->
  FLP.LOK lf -> FI.valid_id u -> FI.valid_op op -> FLP.LOK lf'.
Proof.
  unfold via_user. intros H K Hu Hop. mon H lf1 H1. mon H r Hr. destruct r as [[lf2 o2] rc2].
  pose proof (lseq_lok _ _ _ _ H1 K Hu) as K1.
  assert (K2 : FLP.LOK lf2) by (eapply (FLP.lstep_lok lf1 (FL.LF op)); [exact K1 | exact Hop | exact Hr]).
  destruct back.
  - mon H r' Hr'. destruct r' as [[lf3 o3] rc3]. inversion H; subst. cbn [fst].
    eapply FLP.lstep_lok; [exact K2 | | exact Hr']. cbn. split; [exact Hu | exact px_valid].
  - inversion H; subst. exact K2.
Qed.

Lemma lp_exit_flow_inv p dst amt out p' : lp_exit_flow p dst amt out = Ok p' -> PI.PairInv p -> 0 <= out -> PI.PairInv p'.
Proof.
  unfold lp_exit_flow. intros H Hinv Ho. mon H p1 Hd. mon H pen Hp. apply sub_chk_ok in Hp. destruct Hp as [Hle ->].
  inversion H; subst p'; clear H.
  pose proof Hinv as [b1 b2 iS ind inn ipos izero iS0 ifee icut].
  apply PI.lp_debit_spec in Hd; auto; try lia.
  destruct Hd as (Hne & Hle' & SD & NDD & NND & GD & OD & Ep1).
  pose proof (PI.lp_credit_spec p1 dst out ltac:(lia) NDD NND) as Hc. cbv zeta in Hc.
  destruct Hc as (S2 & ND2 & NN2 & G2 & O2).
  pose proof (PI.lp_credit_spec (PR.lp_credit p1 dst out) LPBURN (amt - out) ltac:(lia) ND2 NN2) as Hc3. cbv zeta in Hc3.
  destruct Hc3 as (S3 & ND3 & NN3 & G3 & O3).
  assert (F : PR.p_r1 p1 = PR.p_r1 p /\ PR.p_r2 p1 = PR.p_r2 p /\ PR.p_S p1 = PR.p_S p /\ PR.p_bal1 p1 = PR.p_bal1 p /\
              PR.p_bal2 p1 = PR.p_bal2 p /\ PR.p_fee p1 = PR.p_fee p /\ PR.p_sfee p1 = PR.p_sfee p /\ PR.p_cut p1 = PR.p_cut p).
  { rewrite Ep1. simpl. repeat split; reflexivity. }
  destruct F as (F1 & F2 & F3 & F4 & F5 & F6 & F7 & F8).
  set (q := PR.lp_credit (PR.lp_credit p1 dst out) LPBURN (amt - out)) in *.
  assert (Q : PR.p_r1 q = PR.p_r1 p /\ PR.p_r2 q = PR.p_r2 p /\ PR.p_S q = PR.p_S p /\ PR.p_bal1 q = PR.p_bal1 p /\
              PR.p_bal2 q = PR.p_bal2 p /\ PR.p_fee q = PR.p_fee p /\ PR.p_sfee q = PR.p_sfee p /\ PR.p_cut q = PR.p_cut p).
  { unfold q. cbn. rewrite F1, F2, F3, F4, F5, F6, F7, F8. repeat split; reflexivity. }
  destruct Q as (Q1 & Q2 & Q3 & Q4 & Q5 & Q6 & Q7 & Q8).
  assert (LPBURN <> PR.SELF) by (unfold LPBURN, PR.SELF; lia).
  constructor; rewrite ?Q1, ?Q2, ?Q3, ?Q4, ?Q5, ?Q6, ?Q7; auto.
  - rewrite S3, S2, SD. lia.
  - intros HS. destruct (ipos HS) as (P1 & P2 & PL). split; [auto|split; [auto|]].
    rewrite O3 by congruence.
    destruct (Z.eq_dec dst PR.SELF) as [->|Hd'].
    + rewrite G2. rewrite OD by congruence. lia.
    + rewrite O2 by congruence. rewrite OD by congruence. exact PL.
  - unfold PI.cut_ok in *. rewrite Q8. exact icut.
Qed.

Lemma lp_enter_flow_inv p src amt p' : lp_enter_flow p src amt = Ok p' -> PI.PairInv p -> PI.PairInv p'.
Proof.
  unfold lp_enter_flow. intros H Hinv. mon H r Hr. destruct r as [[p1 o] e]. inversion H; subst. cbn [fst].
  exact (proj1 (PI.step_spec p (PR.LpTransfer src LPFARM amt) _ _ _ Hr Hinv)).
Qed.

Lemma exit_out_nonneg ls blk ep c n a b ls' o rc : FL.lstep ls (FL.LF (F.FExit blk ep c (n, a) b)) = Ok (ls', o, rc) -> 0 <= nth 0 o 0.
Proof.
  intros H. destruct (L16.lfarm_exit_law _ _ _ _ _ _ _ _ _ _ (env0 0 (mkPEn 0 0 0) 0) 0 H) as (e' & He' & L & _).
  rewrite (answer_exit_farm_field _ _ _ _ He') in L. unfold L16.law_farm_exit in L. apply Z.leb_le in L. exact L.
Qed.

Lemma set_farm_ok cs farm lf lf' f0' f1' : farm_of cs farm = Ok lf -> set_farm cs farm lf' = (f0', f1') ->
  FLP.LOK (c_f0 cs) -> FLP.LOK (c_f1 cs) -> FLP.LOK lf' -> FLP.LOK f0' /\ FLP.LOK f1'.
Proof.
  intros Hf Hs K0 K1 K. unfold set_farm in Hs. destruct (farm =? 0); inversion Hs; subst; auto.
Qed.

Lemma farm_of_lok cs farm lf : farm_of cs farm = Ok lf -> FLP.LOK (c_f0 cs) -> FLP.LOK (c_f1 cs) -> FLP.LOK lf.
Proof. intros H K0 K1. destruct (farm_of_ok _ _ _ H) as [_ ->]. unfold lf_of. destruct (farm =? 0); assumption. Qed.

Theorem cstep_callee_ok cs o cs' co : cstep cs o = Ok (cs', co) -> cwf o -> CalleeOK cs -> CalleeOK cs'.
Proof.
  intros H (Hu & Hv) (P & K0 & K1). unfold cuser in Hu.
  destruct o; cbn [cstep caller_of] in *; try (pose proof (uid_valid _ Hu) as Hvu).
  - unfold c_add_liq in H. chk H. mon H c0 H0. mon H rp Hp. destruct rp as [[pair' po] ef].
    mon H e1 He1. cbv zeta in H. mon H re Hre. destruct re as [c1 e]. mon H rx Hx. destruct rx as [px' x].
    mon H c2 H2. inversion H; subst. split; [|split]; auto. exact (proj1 (PI.step_spec _ _ _ _ _ Hp P)).
  - unfold c_remove_liq in H. mon H rp Hp. destruct rp as [[pair' po] ef]. mon H e He.
    mon H rx Hx. destruct rx as [px' x]. mon H c2 H2. inversion H; subst. split; [|split]; auto.
    exact (proj1 (PI.step_spec _ _ _ _ _ Hp P)).
  - unfold c_enter_farm in H. cbv zeta in H. mon H lf Hlf. mon H r0 Hr0. destruct r0 as [[s1 kind] minted].
    mon H c0 H0. mon H rf Hrf. destruct rf as [[lf1 fo] rc]. mon H pair1 Hpair. mon H c1 H1.
    mon H re Hre. destruct re as [[lf' c3] e]. mon H rx Hx. destruct rx as [px' x]. mon H c4 H4.
    destruct (set_farm cs farm lf') as [f0' f1'] eqn:Es. inversion H; subst cs' co; clear H.
    pose proof (farm_of_lok _ _ _ Hlf K0 K1) as K.
    pose proof (via_user_lok _ _ _ _ _ _ _ _ Hrf K Hvu Hvu) as Kl1.
    assert (Kl' : FLP.LOK lf').
    { destruct extra as [|q t].
      - mon Hre e' He. inversion Hre; subst. exact Kl1.
      - mon Hre rt Hrt. destruct rt as [s2 its]. mon Hre fps Hfps. mon Hre toks Htoks. mon Hre rm Hrm. destruct rm as [cm mo].
        mon Hre rg Hrg. destruct rg as [[lf2 go] rcm]. mon Hre c2 H2. mon Hre e1 He1. mon Hre e2 He2. mon Hre e3 He3.
        inversion Hre; subst. exact (via_user_lok _ _ _ _ _ _ _ _ Hrg Kl1 Hvu Hvu). }
    destruct (set_farm_ok _ _ _ _ _ _ Hlf Es K0 K1 Kl') as [A B]. split; [|split]; auto. cbn [c_pair].
    destruct (farm =? 1); [eapply lp_enter_flow_inv; eauto | inversion Hpair; subst; exact P].
  - unfold c_exit_farm in H. cbv zeta in H. mon H lf Hlf.
    destruct (getn (s_wfm (c_px cs)) (p_non p)) as [w|] eqn:Hw; [|discriminate].
    mon H rf Hrf. destruct rf as [[lf1 fo] rc]. mon H pair1 Hpair. mon H c1 H1. mon H e He.
    mon H rx Hx. destruct rx as [px' x]. mon H c2 H2. destruct (set_farm cs farm lf1) as [f0' f1'] eqn:Es.
    inversion H; subst cs' co; clear H.
    pose proof (farm_of_lok _ _ _ Hlf K0 K1) as K.
    pose proof (via_user_lok _ _ _ _ _ _ _ _ Hrf K Hvu Hvu) as Kl1.
    destruct (set_farm_ok _ _ _ _ _ _ Hlf Es K0 K1 Kl1) as [A B]. split; [|split]; auto. cbn [c_pair].
    destruct (farm =? 1); [|inversion Hpair; subst; exact P].
    destruct (via_user_inv _ _ _ _ _ _ _ _ Hrf) as (la & lb & _ & Hst & _).
    eapply lp_exit_flow_inv; [exact Hpair | exact P | eapply exit_out_nonneg; eauto].
  - unfold c_claim in H. cbv zeta in H. mon H lf Hlf.
    destruct (getn (s_wfm (c_px cs)) (p_non p)) as [w|] eqn:Hw; [|discriminate].
    mon H rf Hrf. destruct rf as [[lf1 fo] rc]. mon H c1 H1. mon H e He.
    mon H rx Hx. destruct rx as [px' x]. mon H c2 H2. destruct (set_farm cs farm lf1) as [f0' f1'] eqn:Es.
    inversion H; subst cs' co; clear H.
    pose proof (farm_of_lok _ _ _ Hlf K0 K1) as K.
    pose proof (via_user_lok _ _ _ _ _ _ _ _ Hrf K Hvu Hvu) as Kl1.
    destruct (set_farm_ok _ _ _ _ _ _ Hlf Es K0 K1 Kl1) as [A B]. split; [|split]; auto.
  - unfold c_merge_wlp in H. cbv zeta in H. mon H parts Hparts. mon H rm Hrm. destruct rm as [cm mo]. cbn [fst snd] in H.
    mon H e He. mon H rx Hx. destruct rx as [px' x]. mon H c2 H2. inversion H; subst. split; [|split]; auto.
  - unfold c_merge_wfm in H. cbv zeta in H. mon H lf Hlf. mon H rt Hrt. destruct rt as [s1 its].
    mon H fps Hfps. mon H toks Htoks. mon H rm Hrm. destruct rm as [cm mo]. mon H rg Hrg. destruct rg as [[lf1 go] rcm].
    cbn [fst snd] in H. mon H c1 H1. mon H e1 He1. mon H e He. mon H rx Hx. destruct rx as [px' x]. mon H c2 H2.
    destruct (set_farm cs farm lf1) as [f0' f1'] eqn:Es. inversion H; subst cs' co; clear H.
    pose proof (farm_of_lok _ _ _ Hlf K0 K1) as K.
    pose proof (via_user_lok _ _ _ _ _ _ _ _ Hrg K Hvu Hvu) as Kl1.
    destruct (set_farm_ok _ _ _ _ _ _ Hlf Es K0 K1 Kl1) as [A B]. split; [|split]; auto.
  - unfold c_inc_lp in H. cbv zeta in H. mon H rt Hrt. destruct rt as [s1 [k lp]]. mon H rm Hrm. destruct rm as [cm mo]. cbn [fst snd] in H.
    mon H e He. mon H rx Hx. destruct rx as [px' x]. mon H c2 H2. inversion H; subst. split; [|split]; auto.
  - unfold c_inc_fm in H. cbv zeta in H. mon H rt Hrt. destruct rt as [s1 [w pp]]. mon H kl Hkl. destruct kl as [k lq].
    mon H rm Hrm. destruct rm as [cm mo]. cbn [fst snd] in H.
    mon H e He. mon H rx Hx. destruct rx as [px' x]. mon H c2 H2. inversion H; subst. split; [|split]; auto.
  - unfold c_plain in H. mon H rx Hx. destruct rx. inversion H; subst. split; [|split]; auto.
  - unfold c_plain in H. mon H rx Hx. destruct rx. inversion H; subst. split; [|split]; auto.
  - unfold c_plain in H. mon H rx Hx. destruct rx. inversion H; subst. split; [|split]; auto.
  - unfold c_plain in H. mon H rx Hx. destruct rx. inversion H; subst. split; [|split]; auto.
  - unfold c_pair_env in H. chk H. mon H r Hr. destruct r as [[pair' po] ef]. inversion H; subst. split; [|split]; auto.
    exact (proj1 (PI.step_spec _ _ _ _ _ Hr P)).
  - unfold c_farm_env in H. mon H lf Hlf. chk H. mon H r Hr. destruct r as [[lf' fo] rc]. mon H pair' Hp. mon H en' He.
    cbv zeta in H. destruct (set_farm cs farm lf') as [f0' f1'] eqn:Es. inversion H; subst cs' co; clear H.
    pose proof (farm_of_lok _ _ _ Hlf K0 K1) as K.
    assert (Kl' : FLP.LOK lf').
    { eapply FLP.lstep_lok; [exact K | | exact Hr]. destruct o as [fo0|c e]; [|exact I]. cbn.
      destruct fo0; cbn [farm_accts] in Hv; cbn; try exact I;
        repeat match goal with H : Forall _ (_ :: _) |- _ => inversion H; subst; clear H end; auto. }
    destruct (set_farm_ok _ _ _ _ _ _ Hlf Es K0 K1 Kl') as [A B]. split; [|split]; auto. cbn [c_pair].
    destruct o as [fo0|c e]; [|inversion Hp; subst; exact P].
    destruct fo0; try (inversion Hp; subst; exact P).
    + destruct (farm =? 1); [eapply lp_enter_flow_inv; eauto | inversion Hp; subst; exact P].
    + destruct (farm =? 1); [|inversion Hp; subst; exact P].
      destruct p as [n a]. eapply lp_exit_flow_inv; [exact Hp | exact P | eapply exit_out_nonneg; eauto].
  - unfold c_energy_env in H. chk H. mon H r Hr. inversion H; subst. split; [|split]; auto.
  - unfold c_time in H. chk H. mon H r Hr. inversion H; subst. split; [|split]; auto.
Qed.

Theorem crun_callee_ok ops : forall cs, Forall cwf ops -> CalleeOK cs -> CalleeOK (crun cs ops).
Proof.
  induction ops as [|o t IH]; intros cs Hw K; [exact K|]. inversion Hw as [|? ? Ho Ht]; subst.
  change (crun cs (o :: t)) with (crun (cstep_total cs o) t). apply IH; [exact Ht|].
  unfold cstep_total. destruct (cstep cs o) as [[cs' co]|] eqn:E; [|exact K]. eapply cstep_callee_ok; eauto.
Qed.

Theorem init_c_callee_ok fee sfee bf dsc opts lock blk epoch : 0 <= sfee <= fee -> fee <= PAIR_MAX_FEE_PERCENTAGE -> 0 < dsc ->
  CalleeOK (init_c fee sfee bf dsc opts lock blk epoch).
Proof.
  intros H1 H2 H3. split; [apply PI.init_inv; assumption|]. split; apply FLP.init_locked_ok; assumption.
Qed.

(** everything at once, from the deployed world *)
Theorem closed_world_invariants fee sfee bf dsc opts lock blk epoch ops :
  0 <= sfee <= fee -> fee <= PAIR_MAX_FEE_PERCENTAGE -> 0 < dsc -> EN.valid_opts opts = true -> 0 <= epoch -> Forall cwf ops ->
  let cs := crun (init_c fee sfee bf dsc opts lock blk epoch) ops in
  Backed (c_px cs) /\ Links cs /\ Flows (c_g cs) /\ CInv (cus_of cs) /\ CalleeOK cs.
Proof.
  intros H1 H2 H3 H4 H5 Hw cs.
  assert (C2 : chist2 cs).
  { exists (init_c fee sfee bf dsc opts lock blk epoch), ops. split; [apply init_c_cinit2; assumption|]. split; [exact Hw | reflexivity]. }
  split; [apply creach_backed, chist_creach, chist2_chist; exact C2|].
  split; [apply chist2_links; exact C2|]. split; [apply chist2_flows; exact C2|].
  split; [apply chist_cinv, chist2_chist; exact C2|].
  apply crun_callee_ok; [exact Hw | apply init_c_callee_ok; assumption].
Qed.
