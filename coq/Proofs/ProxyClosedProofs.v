(** The closed proxy-DEX composition (Model/ProxyClosed.v): theorems.

    Part A  every successful closed step projects onto a ProxyDex step on a record of answers that the callee models
            COMPUTED, and onto steps of the callee models; the record satisfies [x_law] - discharged from the callee
            models (Proofs/LawsC16.v), not assumed.  Hence every closed run is a lawful ProxyDex run and every C16
            theorem holds on every reachable closed state without a law hypothesis.
    Part B  cross-contract conservation: LP tokens, farm tokens and locked tokens the proxy's books record = what the
            pair model / the farm models / the factory model hold for the proxy; the proxy's base-asset flows.
    Part C  C08 for proxy positions: the energy entry of every account = sum over (tokens it holds + tokens carried
            for it); who carries the energy of a wrapped token that changes hands. *)
From MX Require Import Base.Prelude Gen.Params Model.ProxyDex Proofs.ProxyDexProofs.
From MX Require Model.Pair Model.Farm Model.FarmLocked Model.FarmBehalf Model.Energy.
From MX Require Proofs.PairInv Proofs.FarmInv Proofs.FarmSolv Proofs.FarmLockedProofs Proofs.BehalfProofs Proofs.EnergyProofs Proofs.LawsC16.
From MX Require Import Model.ProxyClosed.

Module PI := MX.Proofs.PairInv.
Module FI := MX.Proofs.FarmInv.
Module FLP := MX.Proofs.FarmLockedProofs.
Module BF := MX.Proofs.BehalfProofs.FarmB.
Module ENP := MX.Proofs.EnergyProofs.

(** ================================================================== generic helpers *)
Lemma opt_ok {A} (o : option A) a : opt o = Ok a -> o = Some a.
Proof. destruct o; simpl; intros H; inversion H; reflexivity. Qed.

Ltac opt_in H := apply opt_ok in H.

(** the users of the closed system: ordinary accounts *)
Definition uid (c : Z) : Prop := 0 < c < 1000 /\ c <> PX /\ c <> LPFARM /\ c <> LPBURN.

Lemma uid_valid c : uid c -> FI.valid_id c.
Proof. unfold uid, FI.valid_id. lia. Qed.

(** ================================================================== Part A: projection, laws discharged *)
(** ---- what the proxy hands to the factory / the farm in a merge is what its own model accounts for *)
Lemma wlp_parts_tsum ps : forall s u s' ta tl fps,
  take_wlp_list s u ps = Ok (s', (ta, tl)) -> wlp_parts s u ps = Ok fps -> ENP.tsum fps = tl.
Proof.
  induction ps as [|p t IH]; intros s u s' ta tl fps H W; simpl in H, W.
  - inversion H; inversion W; subst. reflexivity.
  - destruct (p_tok p =? TK_WLP); [|discriminate].
    mon H r Hr. destruct r as [s1 [k lp]]. rewrite Hr in W. cbn [bind] in W.
    mon H r2 Hr2. destruct r2 as [s2 [ta2 tl2]]. inversion H; subst s' ta tl; clear H.
    mon W rest Wr. inversion W; subst fps; clear W. cbn [ENP.tsum]. rewrite (IH _ _ _ _ _ _ Hr2 Wr). reflexivity.
Qed.

Lemma wfm_toks_sum ps : forall s u s' its toks,
  take_wfm_list s u ps = Ok (s', its) -> wfm_toks s u ps = Ok toks -> L16.farm_sum toks = items_farm_total its.
Proof.
  induction ps as [|p t IH]; intros s u s' its toks H W; simpl in H, W.
  - inversion H; inversion W; subst. reflexivity.
  - destruct (p_tok p =? TK_WFM); [|discriminate].
    mon H r Hr. destruct r as [s1 [w pp]]. rewrite Hr in W. cbn [bind] in W.
    mon H r2 Hr2. destruct r2 as [s2 its2]. inversion H; subst s' its; clear H.
    mon W rest Wr. inversion W; subst toks; clear W. cbn [L16.farm_sum items_farm_total mk_item].
    rewrite (IH _ _ _ _ _ Hr2 Wr). reflexivity.
Qed.

Lemma items_locked_wlp_kill its : forall s fps, items_locked_wlp s its = Ok fps ->
  exists s' tw, kill_items s its = Ok (s', (tw, ENP.tsum fps)).
Proof.
  induction its as [|it t IH]; intros s fps H; simpl in H.
  - inversion H; subst. exists s, 0. reflexivity.
  - destruct it as [[[[fa a] ki] pn] pp]. mon H r Hr. destruct r as [s1 [k lq]]. mon H rest Hrest.
    inversion H; subst fps; clear H. destruct (IH _ _ Hrest) as (s' & tw & Hk).
    exists s', (pp + tw). cbn [kill_items]. rewrite Hr. cbn [bind]. rewrite Hk. reflexivity.
Qed.

Lemma pp_total_map its :
  ENP.tsum (map (fun it : item => let '(_, _, _, pn, pp) := it in (pn, pp)) its) = items_pp_total its.
Proof.
  induction its as [|it t IH]; [reflexivity|]. destruct it as [[[[fa a] ki] pn] pp]. cbn [map ENP.tsum items_pp_total].
  rewrite IH. reflexivity.
Qed.

Lemma items_locked_total s its fps : items_locked s its = Ok fps -> L16.merge_locked_total s its = Some (ENP.tsum fps).
Proof.
  unfold items_locked, L16.merge_locked_total. destruct its as [|it t]; [discriminate|].
  destruct it as [[[[fa a] kind] pn] pp]. destruct (kind =? 0).
  - intros H. injection H as <-. f_equal. symmetry. exact (pp_total_map ((fa, a, kind, pn, pp) :: t)).
  - intros H. destruct (items_locked_wlp_kill _ _ _ H) as (s' & tw & Hk). rewrite Hk. reflexivity.
Qed.

(** [merge_items] reads only three fields of the record of answers *)
Lemma merge_items_env s u farm its e e' : v_ok e' = v_ok e -> v_fact e' = v_fact e -> v_fmerge e' = v_fmerge e ->
  merge_items s u farm its e' = merge_items s u farm its e.
Proof. intros E1 E2 E3. unfold merge_items. rewrite E1, E2, E3. reflexivity. Qed.

(** ---- the factory model's step behind the proxy's calls *)
Lemma step_merge_via s u fps s' o : EN.step s (EN.MergeVia u fps) = Ok (s', o) -> 0 < u /\ EN.ep_merge s u fps = Ok (s', o).
Proof.
  unfold EN.step. cbn [EN.accounts_ok]. unfold EN.is_user. destruct (0 <? u) eqn:E; [|discriminate].
  apply Z.ltb_lt in E. auto.
Qed.

Lemma step_extend_via s u e amt le s' o : EN.step s (EN.ExtendVia u e amt le) = Ok (s', o) ->
  0 < u /\ EN.ep_extend s u e amt le u = Ok (s', o).
Proof.
  unfold EN.step. cbn [EN.accounts_ok]. unfold EN.is_user. destruct (0 <? u) eqn:E; [|discriminate].
  apply Z.ltb_lt in E. auto.
Qed.

Lemma step_lock_virtual s u amt le s' o : EN.step s (EN.LockVirtual u amt le) = Ok (s', o) ->
  0 < u /\ EN.ep_lock s amt le u = Ok (s', o).
Proof.
  unfold EN.step. cbn [EN.accounts_ok]. unfold EN.is_user. destruct (0 <? u) eqn:E; [|discriminate].
  apply Z.ltb_lt in E. auto.
Qed.

Lemma px_merge_inv c u fps c' o : px_merge c u fps = Ok (c', o) ->
  exists c1 s2 ne ma, from_px_all c u fps = Ok c1 /\ EN.ep_merge (fst c1) u fps = Ok (s2, o) /\ 0 < u /\
    o = [ne; ma] /\ to_px (s2, snd c1) u ne ma = Ok c'.
Proof.
  unfold px_merge. intros H. mon H c1 H1. mon H r Hr. destruct r as [s2 o2].
  apply step_merge_via in Hr. destruct Hr as [Hu Hr].
  destruct o2 as [|ne [|ma [|z t]]]; try discriminate. mon H c3 H3. inversion H; subst c' o; clear H.
  exists c1, s2, ne, ma. auto.
Qed.

Lemma px_extend_inv c u e amt le c' o : px_extend c u e amt le = Ok (c', o) ->
  exists c1 s2 ne ma, from_px c u e amt = Ok c1 /\ EN.ep_extend (fst c1) u e amt le u = Ok (s2, o) /\ 0 < u /\
    o = [ne; ma] /\ to_px (s2, snd c1) u ne ma = Ok c'.
Proof.
  unfold px_extend. intros H. mon H c1 H1. mon H r Hr. destruct r as [s2 o2].
  apply step_extend_via in Hr. destruct Hr as [Hu Hr].
  destruct o2 as [|ne [|ma [|z t]]]; try discriminate. mon H c3 H3. inversion H; subst c' o; clear H.
  exists c1, s2, ne, ma. auto.
Qed.

(** ---- the farm model's steps behind the proxy's calls *)
Lemma via_user_inv lf u toks op back lf' o rc : via_user lf u toks op back = Ok (lf', o, rc) ->
  exists lf1 lf2, FB.lseq lf (map (FB.xfer PX u) toks) = Ok lf1 /\ FL.lstep lf1 (FL.LF op) = Ok (lf2, o, rc) /\
    (if back then exists r', FL.lstep lf2 (FL.LF (F.FTransfer (nth 0 o 0) u PX (nth 1 o 0))) = Ok r' /\ lf' = fst (fst r')
     else lf' = lf2).
Proof.
  unfold via_user. intros H. mon H lf1 H1. mon H r Hr. destruct r as [[lf2 o2] rc2]. exists lf1, lf2.
  destruct back.
  - mon H r' Hr'. inversion H; subst lf' o rc; clear H. split; [exact H1|]. split; [exact Hr|]. exists r'. auto.
  - inversion H; subst lf' o rc; clear H. auto.
Qed.

Lemma lseq_nil lf lf1 : FB.lseq lf (map (FB.xfer PX 0) []) = Ok lf1 -> lf1 = lf.
Proof. simpl. intros H. inversion H. reflexivity. Qed.

(** ================================================================== the inversion of every closed endpoint *)
(** what a closed step consists of: the ProxyDex step on the computed record and the law it satisfies *)
Definition pop_of (o : cop) (e : env) : option op :=
  match o with
  | CAddLiq u pid p1 p2 extra _ _ => Some (AddLiq u pid p1 p2 extra e)
  | CRemoveLiq u pid p _ _ => Some (RemoveLiq u pid p e)
  | CEnterFarm u farm p extra _ => Some (EnterFarm u farm p extra e)
  | CExitFarm u farm p _ => Some (ExitFarm u farm p e)
  | CClaim u farm p _ => Some (ClaimRew u farm p e)
  | CMergeWlp u ps => Some (MergeWlp u ps e)
  | CMergeWfm u farm ps _ => Some (MergeWfm u farm ps e)
  | CIncLp u p _ => Some (IncLp u p e)
  | CIncFm u p _ => Some (IncFm u p e)
  | CSetPair u b => Some (SetPair u b)
  | CSetFarm u farm b => Some (SetFarm u farm b)
  | CXferWlp a b n x => Some (XferWlp a b n x)
  | CXferWfm a b n x => Some (XferWfm a b n x)
  | CPair _ | CFarm _ _ | CEnergy _ | CTime _ _ => None
  end.

Lemma add_used_set_fact p1 e kf o e' : L16.answer_of_mergeTokens e kf o = Some e' ->
  L16.add_used_locked p1 e' = L16.add_used_locked p1 e /\ v_pair e' = v_pair e.
Proof.
  unfold L16.answer_of_mergeTokens. destruct o as [|a [|b [|c t]]]; try discriminate. intros H. inversion H; subst.
  split; reflexivity.
Qed.

Lemma c_add_liq_proj cs u pid p1 p2 extra m1 m2 cs' co : c_add_liq cs u pid p1 p2 extra m1 m2 = Ok (cs', co) ->
  step (c_px cs) (AddLiq u pid p1 p2 extra (co_e co)) = Ok (c_px cs', co_x co) /\ x_law (co_x co) = true.
Proof.
  unfold c_add_liq. intros H. chk H. mon H c0 H0. mon H rp Hp. destruct rp as [[pair' po] ef].
  mon H e1 He1. opt_in He1. cbv zeta in H. mon H re Hre. destruct re as [c1 e]. mon H rx Hx. destruct rx as [px' x].
  mon H c2 H2. inversion H; subst cs' co; clear H. cbn [co_e co_x c_px]. split; [exact Hx|].
  cbn [PR.step] in Hp. cbn [step] in Hx.
  destruct extra as [|q t].
  - inversion Hre; subst c1 e; clear Hre. eapply L16.add_liq_closed; eauto.
  - mon Hre parts Hparts. mon Hre rm Hrm. destruct rm as [cm fo]. cbn [fst snd] in Hre. mon Hre e2 He2. opt_in He2.
    inversion Hre; subst c1 e; clear Hre.
    destruct (px_merge_inv _ _ _ _ _ Hrm) as (ca & s2 & ne & ma & Hfrom & Hmerge & Hu & Eo & Hto).
    destruct (add_used_set_fact p1 _ _ _ _ He2) as [Eused _].
    eapply (L16.add_liq_merge_closed _ _ _ _ _ _ _ _ _ _ _ _ _ _ _ _ _ _ _ _ _ _ _ _ Hp Hmerge He1 He2); [|exact Hx].
    intros s1 ta tl Ht. cbn [ENP.tsum]. rewrite Eused. rewrite (wlp_parts_tsum _ _ _ _ _ _ _ Ht Hparts). reflexivity.
Qed.

Lemma c_remove_liq_proj cs u pid p m1 m2 cs' co : c_remove_liq cs u pid p m1 m2 = Ok (cs', co) ->
  step (c_px cs) (RemoveLiq u pid p (co_e co)) = Ok (c_px cs', co_x co) /\ x_law (co_x co) = true.
Proof.
  unfold c_remove_liq. intros H. mon H rp Hp. destruct rp as [[pair' po] ef]. mon H e He. opt_in He.
  mon H rx Hx. destruct rx as [px' x]. mon H c2 H2. inversion H; subst cs' co; clear H. cbn [co_e co_x c_px].
  split; [exact Hx|]. cbn [PR.step] in Hp. cbn [step] in Hx. eapply L16.remove_liq_closed; eauto.
Qed.

Lemma answer_enter_fields e rk fo e' : L16.answer_of_enterFarm e rk fo = Some e' ->
  v_ok e' = v_ok e /\ v_fact e' = v_fact e /\ v_fmerge e' = v_fmerge e /\ v_pair e' = v_pair e /\
  v_farm e' = (nth 0 fo 0, nth 1 fo 0) /\ v_rew e' = (rk, nth 2 fo 0) /\ v_now e' = v_now e /\
  v_energy e' = v_energy e /\ v_unlock e' = v_unlock e.
Proof.
  unfold L16.answer_of_enterFarm. destruct fo as [|n [|amt [|r [|z t]]]]; try discriminate. intros H. inversion H; subst.
  repeat split; reflexivity.
Qed.

Lemma c_enter_farm_proj cs u farm p extra b cs' co : c_enter_farm cs u farm p extra b = Ok (cs', co) ->
  step (c_px cs) (EnterFarm u farm p extra (co_e co)) = Ok (c_px cs', co_x co) /\ x_law (co_x co) = true.
Proof.
  unfold c_enter_farm. intros H. cbv zeta in H. mon H lf Hlf. mon H r0 Hr0. destruct r0 as [[s1 kind] minted].
  mon H c0 H0. mon H rf Hrf. destruct rf as [[lf1 fo] rc]. mon H pair1 Hpair. mon H c1 H1.
  mon H re Hre. destruct re as [[lf' c3] e]. mon H rx Hx. destruct rx as [px' x]. mon H c4 H4.
  destruct (set_farm cs farm lf') as [f0' f1']. inversion H; subst cs' co; clear H. cbn [co_e co_x c_px].
  split; [exact Hx|].
  destruct (via_user_inv _ _ _ _ _ _ _ _ Hrf) as (lfa & lfb & Hq & Hstep & _). simpl in Hq. inversion Hq; subst lfa; clear Hq.
  cbn [step] in Hx.
  destruct extra as [|q t].
  - mon Hre e' He. opt_in He. inversion Hre; subst lf' c3 e'; clear Hre. eapply L16.enter_farm_closed; eauto.
  - mon Hre rt Hrt. destruct rt as [s2 its]. mon Hre fps Hfps. mon Hre toks Htoks. mon Hre rm Hrm. destruct rm as [cm mo].
    mon Hre rg Hrg. destruct rg as [[lf2 go] rcm]. mon Hre c2 H2. cbn [fst snd] in Hre.
    mon Hre e1 He1. opt_in He1. mon Hre e2 He2. opt_in He2. mon Hre e3 He3. opt_in He3.
    inversion Hre; subst lf' c3 e3; clear Hre.
    destruct (px_merge_inv _ _ _ _ _ Hrm) as (ca & sm & ne & ma & Hfrom & Hmerge & Hu & Eo & Hto).
    destruct (via_user_inv _ _ _ _ _ _ _ _ Hrg) as (lfc & lfd & _ & Hmstep & _).
    destruct (answer_enter_fields _ _ _ _ He3) as (Eok & Efact & Efm & _ & Efarm & _).
    destruct (L16.lfarm_enter_law _ _ _ _ _ _ _ _ _ e2 (rk_of rc) Hstep) as (e' & He' & Lenter & _).
    rewrite He3 in He'. inversion He'; subst e'; clear He'.
    assert (Hmi : forall s0 its0, merge_items s0 u farm its0 e = merge_items s0 u farm its0 e2)
      by (intros; apply merge_items_env; assumption).
    clear Eok Efact Efm.
    (* the proxy's own computation on the record *)
    unfold ep_enter_farm in Hx. chk Hx. chk Hx. unfold enter_pre in Hr0. cbv zeta in Hr0.
    mon Hx r0' Hr0'. rewrite Hr0 in Hr0'. inversion Hr0'; subst r0'; clear Hr0'. chk Hx.
    rewrite Efarm in Hx. destruct (v_rew e) as [rk ra]. rewrite Hrt in Hx. cbn [bind] in Hx.
    mon Hx z Hz. mon Hx r2 Hr2. destruct r2 as [s5 [[m amt] law]]. inversion Hx; subst px' x; clear Hx. cbn [x_law].
    rewrite Efarm in Lenter. cbn [snd] in Lenter. unfold L16.law_farm_enter in Lenter. rewrite Lenter. cbn [andb].
    rewrite Hmi in Hr2.
    edestruct L16.merge_items_closed as [Hl _]; [exact Hmerge | exact Hmstep | exact He1 | exact He2 | | | exact Hr2 | exact Hl].
    + apply items_locked_total. exact Hfps.
    + cbn [L16.farm_sum items_farm_total mk_item]. rewrite (wfm_toks_sum _ _ _ _ _ _ Hrt Htoks). reflexivity.
Qed.

Lemma c_exit_farm_proj cs u farm p b cs' co : c_exit_farm cs u farm p b = Ok (cs', co) ->
  step (c_px cs) (ExitFarm u farm p (co_e co)) = Ok (c_px cs', co_x co) /\ x_law (co_x co) = true.
Proof.
  unfold c_exit_farm. intros H. cbv zeta in H. mon H lf Hlf.
  destruct (getn (s_wfm (c_px cs)) (p_non p)) as [w|] eqn:Hw; [|discriminate].
  mon H rf Hrf. destruct rf as [[lf1 fo] rc]. mon H pair1 Hpair. mon H c1 H1. mon H e He. opt_in He.
  mon H rx Hx. destruct rx as [px' x]. mon H c2 H2. destruct (set_farm cs farm lf1) as [f0' f1'].
  inversion H; subst cs' co; clear H. cbn [co_e co_x c_px]. split; [exact Hx|].
  destruct (via_user_inv _ _ _ _ _ _ _ _ Hrf) as (lfa & lfb & _ & Hstep & _).
  cbn [step] in Hx. eapply L16.exit_farm_closed; eauto.
Qed.

Lemma c_claim_proj cs u farm p b cs' co : c_claim cs u farm p b = Ok (cs', co) ->
  step (c_px cs) (ClaimRew u farm p (co_e co)) = Ok (c_px cs', co_x co) /\ x_law (co_x co) = true.
Proof.
  unfold c_claim. intros H. cbv zeta in H. mon H lf Hlf.
  destruct (getn (s_wfm (c_px cs)) (p_non p)) as [w|] eqn:Hw; [|discriminate].
  mon H rf Hrf. destruct rf as [[lf1 fo] rc]. mon H c1 H1. mon H e He. opt_in He.
  mon H rx Hx. destruct rx as [px' x]. mon H c2 H2. destruct (set_farm cs farm lf1) as [f0' f1'].
  inversion H; subst cs' co; clear H. cbn [co_e co_x c_px]. split; [exact Hx|].
  destruct (via_user_inv _ _ _ _ _ _ _ _ Hrf) as (lfa & lfb & _ & Hstep & _).
  cbn [step] in Hx. eapply L16.claim_closed; eauto.
Qed.

Lemma c_merge_wlp_proj cs u ps cs' co : c_merge_wlp cs u ps = Ok (cs', co) ->
  step (c_px cs) (MergeWlp u ps (co_e co)) = Ok (c_px cs', co_x co) /\ x_law (co_x co) = true.
Proof.
  unfold c_merge_wlp. intros H. cbv zeta in H. mon H parts Hparts. mon H rm Hrm. destruct rm as [cm mo]. cbn [fst snd] in H.
  mon H e He. opt_in He. mon H rx Hx. destruct rx as [px' x]. mon H c2 H2.
  inversion H; subst cs' co; clear H. cbn [co_e co_x c_px]. split; [exact Hx|].
  destruct (px_merge_inv _ _ _ _ _ Hrm) as (ca & sm & ne & ma & Hfrom & Hmerge & Hu & Eo & Hto).
  cbn [step] in Hx. eapply (L16.merge_wlp_closed _ _ _ _ _ _ _ _ _ _ _ _ _ Hmerge He); [|exact Hx].
  intros s1 ta tl Ht. exact (wlp_parts_tsum _ _ _ _ _ _ _ Ht Hparts).
Qed.

Lemma c_merge_wfm_proj cs u farm ps bm cs' co : c_merge_wfm cs u farm ps bm = Ok (cs', co) ->
  step (c_px cs) (MergeWfm u farm ps (co_e co)) = Ok (c_px cs', co_x co) /\ x_law (co_x co) = true.
Proof.
  unfold c_merge_wfm. intros H. cbv zeta in H. mon H lf Hlf. mon H rt Hrt. destruct rt as [s1 its].
  mon H fps Hfps. mon H toks Htoks. mon H rm Hrm. destruct rm as [cm mo]. mon H rg Hrg. destruct rg as [[lf1 go] rcm].
  cbn [fst snd] in H. mon H c1 H1. mon H e1 He1. opt_in He1. mon H e He. opt_in He.
  mon H rx Hx. destruct rx as [px' x]. mon H c2 H2. destruct (set_farm cs farm lf1) as [f0' f1'].
  inversion H; subst cs' co; clear H. cbn [co_e co_x c_px]. split; [exact Hx|].
  destruct (px_merge_inv _ _ _ _ _ Hrm) as (ca & sm & ne & ma & Hfrom & Hmerge & Hu & Eo & Hto).
  destruct (via_user_inv _ _ _ _ _ _ _ _ Hrg) as (lfc & lfd & _ & Hmstep & _).
  cbn [step] in Hx.
  eapply (L16.merge_wfm_closed _ _ _ _ _ _ _ _ _ _ _ _ _ _ _ _ _ _ _ _ _ _ _ _ _ Hmerge Hmstep He1 He); [|exact Hx].
  intros s1' its' Ht. rewrite Hrt in Ht. inversion Ht; subst s1' its'; clear Ht. split.
  - apply items_locked_total. exact Hfps.
  - exact (wfm_toks_sum _ _ _ _ _ _ Hrt Htoks).
Qed.

Lemma c_inc_lp_proj cs u p le cs' co : c_inc_lp cs u p le = Ok (cs', co) ->
  step (c_px cs) (IncLp u p (co_e co)) = Ok (c_px cs', co_x co) /\ x_law (co_x co) = true.
Proof.
  unfold c_inc_lp. intros H. cbv zeta in H. mon H rt Hrt. destruct rt as [s1 [k lp]].
  mon H rm Hrm. destruct rm as [cm mo]. cbn [fst snd] in H. mon H e He. opt_in He.
  mon H rx Hx. destruct rx as [px' x]. mon H c2 H2.
  inversion H; subst cs' co; clear H. cbn [co_e co_x c_px]. split; [exact Hx|].
  destruct (px_extend_inv _ _ _ _ _ _ _ Hrm) as (ca & sm & ne & ma & Hfrom & Hext & Hu & Eo & Hto).
  cbn [step] in Hx. eapply (L16.inc_lp_closed _ _ _ _ _ _ _ _ _ _ _ _ _ _ _ Hext He); [|exact Hx].
  intros s1' k' lp' Ht. rewrite Hrt in Ht. inversion Ht. reflexivity.
Qed.

Lemma c_inc_fm_proj cs u p le cs' co : c_inc_fm cs u p le = Ok (cs', co) ->
  step (c_px cs) (IncFm u p (co_e co)) = Ok (c_px cs', co_x co) /\ x_law (co_x co) = true.
Proof.
  unfold c_inc_fm. intros H. cbv zeta in H. mon H rt Hrt. destruct rt as [s1 [w pp]].
  mon H kl Hkl. destruct kl as [k lq]. mon H rm Hrm. destruct rm as [cm mo]. cbn [fst snd] in H. mon H e He. opt_in He.
  mon H rx Hx. destruct rx as [px' x]. mon H c2 H2.
  inversion H; subst cs' co; clear H. cbn [co_e co_x c_px]. split; [exact Hx|].
  destruct (px_extend_inv _ _ _ _ _ _ _ Hrm) as (ca & sm & ne & ma & Hfrom & Hext & Hu & Eo & Hto).
  cbn [step] in Hx. eapply (L16.inc_fm_closed _ _ _ _ _ _ _ _ _ _ _ _ _ _ _ Hext He); [|exact Hx].
  intros s1' w' pp' Ht. rewrite Hrt in Ht. inversion Ht; subst s1' w' pp'; clear Ht.
  destruct (wf_kind w =? 0).
  - inversion Hkl. reflexivity.
  - intros s2 k2 lq2 Hr. rewrite Hr in Hkl. cbn [bind snd] in Hkl. inversion Hkl. reflexivity.
Qed.

Lemma c_plain_proj cs o cs' co : c_plain cs o = Ok (cs', co) ->
  step (c_px cs) o = Ok (c_px cs', co_x co).
Proof.
  unfold c_plain. intros H. mon H rx Hx. destruct rx as [px' x]. inversion H; subst. exact Hx.
Qed.

(** ---- every successful closed step *)
Theorem cstep_proj cs o cs' co : cstep cs o = Ok (cs', co) ->
  match pop_of o (co_e co) with
  | Some po => step (c_px cs) po = Ok (c_px cs', co_x co) /\ x_law (co_x co) = true
  | None => c_px cs' = c_px cs
  end.
Proof.
  destruct o; cbn [cstep pop_of]; intros H.
  - eapply c_add_liq_proj; eauto.
  - eapply c_remove_liq_proj; eauto.
  - eapply c_enter_farm_proj; eauto.
  - eapply c_exit_farm_proj; eauto.
  - eapply c_claim_proj; eauto.
  - eapply c_merge_wlp_proj; eauto.
  - eapply c_merge_wfm_proj; eauto.
  - eapply c_inc_lp_proj; eauto.
  - eapply c_inc_fm_proj; eauto.
  - pose proof (c_plain_proj _ _ _ _ H) as Hs. split; [exact Hs|]. exact (L16.x_law_no_call _ _ _ _ Hs).
  - pose proof (c_plain_proj _ _ _ _ H) as Hs. split; [exact Hs|]. exact (L16.x_law_no_call _ _ _ _ Hs).
  - pose proof (c_plain_proj _ _ _ _ H) as Hs. split; [exact Hs|]. exact (L16.x_law_no_call _ _ _ _ Hs).
  - pose proof (c_plain_proj _ _ _ _ H) as Hs. split; [exact Hs|]. exact (L16.x_law_no_call _ _ _ _ Hs).
  - unfold c_pair_env in H. chk H. mon H r Hr. destruct r as [[pair' po] ef]. inversion H; subst. reflexivity.
  - unfold c_farm_env in H. mon H lf Hlf. chk H. mon H r Hr. destruct r as [[lf' fo] rc]. mon H pair' Hp. mon H en' He.
    cbv zeta in H. destruct (set_farm cs farm lf') as [f0' f1']. inversion H; subst. reflexivity.
  - unfold c_energy_env in H. chk H. mon H r Hr. inversion H; subst. reflexivity.
  - unfold c_time in H. chk H. mon H r Hr. inversion H; subst. reflexivity.
Qed.

(** ---- closed runs are lawful ProxyDex runs *)
(** the ProxyDex operations a closed run performs, with the records of answers the callee models computed *)
Fixpoint pops (cs : cst) (ops : list cop) : list op :=
  match ops with
  | [] => []
  | o :: t =>
      match cstep cs o with
      | Ok (cs', co) =>
          match pop_of o (co_e co) with Some po => po :: pops cs' t | None => pops cs' t end
      | Err _ => pops cs t
      end
  end.

Theorem crun_proj ops : forall cs, c_px (crun cs ops) = run (c_px cs) (pops cs ops) /\ lawful (c_px cs) (pops cs ops) = true.
Proof.
  induction ops as [|o t IH]; intros cs; [split; reflexivity|].
  change (crun cs (o :: t)) with (crun (cstep_total cs o) t). cbn [pops]. unfold cstep_total.
  destruct (cstep cs o) as [[cs' co]|] eqn:E.
  - pose proof (cstep_proj _ _ _ _ E) as P. destruct (IH cs') as [R L].
    destruct (pop_of o (co_e co)) as [po|].
    + destruct P as [Hs Hl]. split.
      * change (run (c_px cs) (po :: pops cs' t)) with (run (step_total (c_px cs) po) (pops cs' t)).
        unfold step_total. rewrite Hs. exact R.
      * cbn [lawful]. rewrite Hs, Hl. exact L.
    + rewrite <- P. split; assumption.
  - apply IH.
Qed.

(** reachable closed states: any closed run from a state whose proxy is freshly deployed *)
Definition creach (cs : cst) : Prop := exists cs0 ops, c_px cs0 = init_state /\ cs = crun cs0 ops.

Theorem creach_reach cs : creach cs -> reach (c_px cs).
Proof.
  intros (cs0 & ops & Hi & ->). destruct (crun_proj ops cs0) as [R L]. rewrite R, Hi in *.
  apply lawful_reach; [constructor | exact L].
Qed.

Theorem creach_backed cs : creach cs -> Backed (c_px cs).
Proof. intros H. apply reach_backed. apply creach_reach. exact H. Qed.

Lemma creach_step cs o : creach cs -> creach (cstep_total cs o).
Proof.
  intros (cs0 & ops & Hi & ->). exists cs0, (ops ++ [o]). split; [exact Hi|].
  unfold crun. rewrite fold_left_app. reflexivity.
Qed.

Lemma creach_ok cs o cs' co : creach cs -> cstep cs o = Ok (cs', co) -> creach cs'.
Proof.
  intros R H. pose proof (creach_step cs o R) as R'. unfold cstep_total in R'. rewrite H in R'. exact R'.
Qed.

(** ================================================================== Part C, foundations: the factory model under a
    view of its ledger extended by a SIGNED list of extra entries [d] (the carried tokens).  Every endpoint of
    Model/Energy.v keeps "entry = sum over (ledger ++ d)" for every account and every [d]: the entry updates are
    linear in the amounts the endpoint itself moves, whatever else is attributed to the account.  (The proofs are those
    of Proofs/EnergyProofs.v, replayed on the view; the model's guards are evaluated on the real ledger.) *)
Module EV.
Import MX.Model.Energy MX.Proofs.EnergyProofs.

Definition view (s : st) (d : ledger) : st := set_bal s (s_bal s ++ d).

Lemma lweight_app l1 l2 h : lweight (l1 ++ l2) h = lweight l1 h + lweight l2 h.
Proof. induction l1 as [|[[h' e] a] t IH]; simpl; [reflexivity | rewrite IH; lia]. Qed.
Lemma ltotal_app l1 l2 h : ltotal (l1 ++ l2) h = ltotal l1 h + ltotal l2 h.
Proof. induction l1 as [|[[h' e] a] t IH]; simpl; [reflexivity | rewrite IH; lia]. Qed.
Lemma lget_app l1 l2 h e : lget (l1 ++ l2) h e = lget l1 h e + lget l2 h e.
Proof. induction l1 as [|[[h' e'] a] t IH]; simpl; [reflexivity | rewrite IH; lia]. Qed.
Lemma lsum_e_app l1 l2 e : lsum_e (l1 ++ l2) e = lsum_e l1 e + lsum_e l2 e.
Proof. induction l1 as [|[[h' e'] a] t IH]; simpl; [reflexivity | rewrite IH; lia]. Qed.

Definition VInv (d : ledger) (s : st) : Prop := EnergyInv (view s d).

Lemma entry_fresh_v d s u : VInv d s -> 0 < u ->
  fresh (entry_now s u) (lweight (s_bal s) u + lweight d u) (ltotal (s_bal s) u + ltotal d u) (s_now s).
Proof.
  intros I Hu. pose proof (entry_fresh (view s d) u I Hu) as F. unfold view in F. cbn [s_bal set_bal s_now] in F.
  rewrite lweight_app, ltotal_app in F. exact F.
Qed.

Lemma inv_update_v d d' s s' u en' :
  VInv d s -> 0 < u ->
  s_cfg s' = s_cfg s -> s_now s' = s_now s -> s_en s' = eset (s_en s) u en' ->
  (forall v, 0 < v -> v <> u ->
     lweight (s_bal s') v + lweight d' v = lweight (s_bal s) v + lweight d v /\
     ltotal (s_bal s') v + ltotal d' v = ltotal (s_bal s) v + ltotal d v) ->
  fresh en' (lweight (s_bal s') u + lweight d' u) (ltotal (s_bal s') u + ltotal d' u) (s_now s) ->
  Forall (fun p => 0 < ub_locked (snd p)) (s_unb s') ->
  Forall (fun x => all_pos (xf_funds x) = true) (s_xf s') ->
  VInv d' s'.
Proof.
  intros I Hu Hc Hn He Hfr Hf Hub Hxf. unfold VInv.
  apply (inv_update (view s d) (view s' d') u en'); auto; unfold view; cbn [s_bal set_bal s_now s_cfg s_en s_unb s_xf].
  - intros v Hv Hne. rewrite !lweight_app, !ltotal_app. apply Hfr; assumption.
  - rewrite lweight_app, ltotal_app. exact Hf.
Qed.

Lemma inv_frame_v d d' s s' :
  VInv d s ->
  s_cfg s' = s_cfg s -> s_now s <= s_now s' -> s_en s' = s_en s ->
  (forall v, 0 < v ->
     lweight (s_bal s') v + lweight d' v = lweight (s_bal s) v + lweight d v /\
     ltotal (s_bal s') v + ltotal d' v = ltotal (s_bal s) v + ltotal d v) ->
  Forall (fun p => 0 < ub_locked (snd p)) (s_unb s') ->
  Forall (fun x => all_pos (xf_funds x) = true) (s_xf s') ->
  VInv d' s'.
Proof.
  intros I Hc Hn He Hfr Hub Hxf. unfold VInv.
  apply (inv_frame (view s d) (view s' d')); auto; unfold view; cbn [s_bal set_bal s_now s_cfg s_en s_unb s_xf]; auto.
  intros v Hv. rewrite !lweight_app, !ltotal_app. apply Hfr; assumption.
Qed.

Lemma v_unb d s : VInv d s -> Forall (fun p => 0 < ub_locked (snd p)) (s_unb s).
Proof. intros I. exact (inv_unb _ I). Qed.
Lemma v_xf d s : VInv d s -> Forall (fun x => all_pos (xf_funds x) = true) (s_xf s).
Proof. intros I. exact (inv_xf _ I). Qed.
Lemma v_opts d s : VInv d s -> valid_opts (opts_of s) = true.
Proof. intros I. exact (inv_opts _ I). Qed.

(** close a goal [VInv d s'] after an endpoint rewrote the entry of [u] to the fresh [F] *)
Ltac vupd d s u I F :=
  eapply (inv_update_v d d s _ u); try reflexivity; auto; proj;
    try (apply (v_unb _ _ I)); try (apply (v_xf _ _ I));
    [ let v := fresh "v" in let Hv := fresh "Hv" in let Hne := fresh "Hne" in
      intros v Hv Hne; ledger_facts; at_holder v; lia
    | ledger_facts; at_holder u; try lia; eapply fresh_ext; [exact F | lia | lia] | .. ].

Lemma ep_lock_v d s amt le dest s' o : VInv d s -> 0 < dest -> ep_lock s amt le dest = Ok (s', o) -> VInv d s'.
Proof.
  intros I Hd H. unfold ep_lock in H. inv_ok H. zb.
  rewrite lock_tokens_future by assumption.
  pose proof (entry_fresh_v d s dest I Hd) as F.
  apply (add_lock_fresh _ _ _ _ amt (som (s_now s + le))) in F; [|lia|lia].
  vupd d s dest I F.
Qed.

Lemma ep_extend_v d s u e amt le dest s' o : VInv d s -> 0 < u -> ep_extend s u e amt le dest = Ok (s', o) -> VInv d s'.
Proof.
  intros I Hu H. unfold ep_extend in H. inv_ok H. zb. subst dest.
  rewrite lock_tokens_future by assumption.
  pose proof (entry_fresh_v d s u I Hu) as F.
  eapply change_fresh in F; [| | |eassumption]; [|lia|lia].
  vupd d s u I F.
Qed.

Lemma ep_unlock_v d s c ps s' o : VInv d s -> 0 < c -> ep_unlock s c ps = Ok (s', o) -> VInv d s'.
Proof.
  intros I Hu H. unfold ep_unlock in H. inv_ok H.
  pose proof (entry_fresh_v d s c I Hu) as F.
  eapply unlock_loop_fresh in F; [|eassumption].
  vupd d s c I F.
Qed.

Lemma ep_merge_v d s u ps s' o : VInv d s -> 0 < u -> ep_merge s u ps = Ok (s', o) -> VInv d s'.
Proof.
  intros I Hu H. unfold ep_merge in H.
  apply bind_ok in H. destruct H as (bal1 & Hd & H).
  destruct (forallb (fun p => 0 <? snd p) ps) eqn:Hpos; [|discriminate].
  destruct ps as [|[e0 a0] t]; [discriminate|].
  inv_ok H. clear E0. zb.
  change (forallb (fun p => 0 <? snd p) ((e0, a0) :: t)) with (all_pos ((e0, a0) :: t)) in Hpos.
  unfold all_pos in Hpos. simpl in Hpos. apply andb_true_iff in Hpos. destruct Hpos as [Pa Pt]. zb.
  pose proof (entry_fresh_v d s u I Hu) as F.
  eapply any_fresh in F; [|eassumption].
  destruct (merge_loop_spec _ _ _ _ _ _ _ _ _ _ F E Pa Pt Hb0) as (F2 & Hme & Hma & Hmp).
  destruct (valid_opts_facts _ (v_opts _ _ I)) as (_ & HL & _).
  assert (Hne : s_now s < som_upper (opts_of s) (s_now s) z0).
  { apply som_upper_future; [pose proof month_le_year; lia | exact Hme]. }
  rewrite lock_tokens_future by assumption.
  apply (add_lock_fresh _ _ _ _ z (som_upper (opts_of s) (s_now s) z0)) in F2; [|lia|lia].
  eapply (inv_update_v d d s _ u); try reflexivity; auto; proj;
    try (apply (v_unb _ _ I)); try (apply (v_xf _ _ I)).
  - intros v Hv Hne'. ledger_facts. at_holder v; lia.
  - ledger_facts. at_holder u; try lia. simpl in *. eapply fresh_ext; [exact F2 | lia | lia].
Qed.

Lemma reduce_common_v d s c e amt ole en1 nle lft :
  VInv d s -> 0 < c -> reduce_common s c e amt ole = Ok (en1, nle, lft) ->
  fresh en1 (lweight (s_bal s) c + lweight d c - amt * e) (ltotal (s_bal s) c + ltotal d c - amt) (s_now s) /\
  0 < lft /\ 0 < amt /\ s_now s < e /\
  match ole with
  | Some le => listed (opts_of s) le = true -> 0 < nle /\ s_now s + nle = som (s_now s + le)
  | None => nle = 0
  end.
Proof.
  intros I Hc H. unfold reduce_common in H. inv_ok H. zb.
  split; [eapply early_fresh; [apply entry_fresh_v; auto | lia | eassumption]|].
  split; [lia|]. split; [lia|]. split; [lia|].
  destruct ole as [le|].
  - intros Hl. apply sub_chk_ok in Hb. destruct Hb as [_ ->].
    destruct (valid_opts_facts _ (v_opts _ _ I)) as (_ & _ & HY). specialize (HY _ Hl).
    pose proof (som_bounds (s_now s + le)). pose proof month_le_year. lia.
  - inversion Hb. reflexivity.
Qed.

Lemma ep_unlock_early_v d s c e amt s' o : VInv d s -> 0 < c -> ep_unlock_early s c e amt = Ok (s', o) -> VInv d s'.
Proof.
  intros I Hc H. unfold ep_unlock_early in H.
  apply bind_ok in H. destruct H as (bal0 & Hd & H).
  apply bind_ok in H. destruct H as ([[en1 nle] lft] & Hr & H). inversion H; subst s' o; clear H.
  destruct (reduce_common_v _ _ _ _ _ _ _ _ _ I Hc Hr) as (F & Hl & Ha & He & _).
  eapply (inv_update_v d d s _ c); try reflexivity; auto; proj; try (apply (v_xf _ _ I)).
  - intros v Hv Hne. ledger_facts. at_holder v; lia.
  - ledger_facts. at_holder c; try lia. eapply fresh_ext; [exact F | lia | lia].
  - apply Forall_app. split; [apply (v_unb _ _ I)|]. constructor; [simpl; lia | constructor].
Qed.

Lemma ep_reduce_v d s c e amt le s' o : VInv d s -> 0 < c -> ep_reduce s c e amt le = Ok (s', o) -> VInv d s'.
Proof.
  intros I Hc H. unfold ep_reduce in H.
  destruct (listed (opts_of s) le) eqn:Hl; [|discriminate].
  apply bind_ok in H. destruct H as (bal0 & Hd & H).
  apply bind_ok in H. destruct H as ([[en1 nle] lft] & Hr & H). inversion H; subst s' o; clear H.
  destruct (reduce_common_v _ _ _ _ _ _ _ _ _ I Hc Hr) as (F & Hlf & Ha & He & Hn).
  destruct (Hn Hl) as [Hn1 Hn2].
  rewrite lock_tokens_future by lia.
  apply (add_lock_fresh _ _ _ _ lft (s_now s + nle)) in F; [|lia|lia].
  vupd d s c I F.
Qed.

Lemma ep_claim_v d s c s' o : VInv d s -> ep_claim s c = Ok (s', o) -> VInv d s'.
Proof.
  intros I H. unfold ep_claim in H.
  pose proof (claim_scan_kept _ (s_unb s) c (s_now s) (Z.to_nat MAX_CLAIM_UNLOCKED_TOKENS) false (v_unb _ _ I)) as K.
  destruct (claim_scan (s_unb s) c (s_now s) (Z.to_nat MAX_CLAIM_UNLOCKED_TOKENS) false) as [kept got].
  inv_ok H. simpl in K.
  eapply (inv_frame_v d d s); try reflexivity; auto; proj; try lia; try (apply (v_xf _ _ I)); auto.
  intros v Hv. ledger_facts. at_holder v; lia.
Qed.

Lemma queue_pos_v d s c : VInv d s -> Forall (fun ub => 0 < ub_locked ub) (queue_of (s_unb s) c).
Proof. intros I. exact (queue_pos (view s d) c I). Qed.

Lemma ep_cancel_unbond_v d s c s' o : VInv d s -> 0 < c -> ep_cancel_unbond s c = Ok (s', o) -> VInv d s'.
Proof.
  intros I Hc H. unfold ep_cancel_unbond in H. inv_ok H.
  pose proof (entry_fresh_v d s c I Hc) as F.
  eapply cancel_loop_fresh in F; [| apply (queue_pos_v d); exact I | eassumption].
  change (map (fun ub => (ub_e ub, ub_locked ub)) (queue_of (s_unb s) c)) with (map ub_pay (queue_of (s_unb s) c)) in *.
  eapply (inv_update_v d d s _ c); try reflexivity; auto; proj; try (apply (v_xf _ _ I)).
  - intros v Hv Hne. ledger_facts. at_holder v; lia.
  - ledger_facts. at_holder c; try lia. eapply fresh_ext; [exact F | lia | lia].
  - apply Forall_filter_keep. apply (v_unb _ _ I).
Qed.

Lemma find_xf_pos_v d s r sd x : VInv d s -> find_xf (s_xf s) r sd = Some x -> all_pos (xf_funds x) = true.
Proof. intros I H. exact (find_xf_pos (view s d) r sd x I H). Qed.

Lemma ep_lock_funds_v d s sender receiver ps s' o :
  VInv d s -> 0 < sender -> ep_lock_funds s sender receiver ps = Ok (s', o) -> VInv d s'.
Proof.
  intros I Hc H. unfold ep_lock_funds in H.
  apply bind_ok in H. destruct H as (bal1 & Hd & H).
  destruct (forallb (fun p => 0 <? snd p) ps) eqn:Hpos; [|discriminate].
  inv_ok H.
  pose proof (entry_fresh_v d s sender I Hc) as F.
  eapply deduct_loop_fresh in F; [|eassumption].
  eapply (inv_update_v d d s _ sender); try reflexivity; auto; proj; try (apply (v_unb _ _ I)).
  - intros v Hv Hne. ledger_facts. at_holder v; lia.
  - ledger_facts. at_holder sender; try lia. eapply fresh_ext; [exact F | lia | lia].
  - apply Forall_app. split; [apply (v_xf _ _ I)|]. constructor; [exact Hpos | constructor].
Qed.

Lemma ep_withdraw_v d s receiver sender s' o :
  VInv d s -> 0 < receiver -> ep_withdraw s receiver sender = Ok (s', o) -> VInv d s'.
Proof.
  intros I Hc H. unfold ep_withdraw in H.
  destruct (negb (on_cooldown s (aget (s_rlast s) receiver))); [|discriminate].
  destruct (find_xf (s_xf s) receiver sender) as [x|] eqn:Hf; [|discriminate].
  pose proof (find_xf_pos_v _ _ _ _ _ I Hf) as Hpos.
  inv_ok H.
  pose proof (entry_fresh_v d s receiver I Hc) as F.
  eapply add_dest_loop_fresh in F; [| exact Hpos | eassumption].
  eapply (inv_update_v d d s _ receiver); try reflexivity; auto; proj; try (apply (v_unb _ _ I)).
  - intros v Hv Hne. ledger_facts. at_holder v; lia.
  - ledger_facts. at_holder receiver; try lia. eapply fresh_ext; [exact F | lia | lia].
  - apply Forall_filter_keep. apply (v_xf _ _ I).
Qed.

Lemma ep_cancel_transfer_v d s c sender receiver s' o :
  VInv d s -> 0 < sender -> ep_cancel_transfer s c sender receiver = Ok (s', o) -> VInv d s'.
Proof.
  intros I Hc H. unfold ep_cancel_transfer in H.
  destruct (c =? ADMIN); [|discriminate].
  destruct (find_xf (s_xf s) receiver sender) as [x|] eqn:Hf; [|discriminate].
  pose proof (find_xf_pos_v _ _ _ _ _ I Hf) as Hpos.
  inv_ok H.
  pose proof (entry_fresh_v d s sender I Hc) as F.
  eapply add_dest_loop_fresh in F; [| exact Hpos | eassumption].
  eapply (inv_update_v d d s _ sender); try reflexivity; auto; proj; try (apply (v_unb _ _ I)).
  - intros v Hv Hne. ledger_facts. at_holder v; lia.
  - ledger_facts. at_holder sender; try lia. eapply fresh_ext; [exact F | lia | lia].
  - apply Forall_filter_keep. apply (v_xf _ _ I).
Qed.

Lemma ep_wrap_v d s c e amt s' o : VInv d s -> 0 < c -> ep_wrap s c e amt = Ok (s', o) -> VInv d s'.
Proof.
  intros I Hc H. unfold ep_wrap in H.
  apply bind_ok in H. destruct H as (bal0 & Hd & H).
  destruct (0 <? amt) eqn:Ha; [|discriminate].
  apply bind_ok in H. destruct H as (en1 & Hl & H). inversion H; subst s' o; clear H.
  pose proof (entry_fresh_v d s c I Hc) as F.
  eapply deduct_loop_fresh in F; [|eassumption]. simpl in F.
  vupd d s c I F.
Qed.

Lemma ep_unwrap_v d s c e amt s' o : VInv d s -> 0 < c -> ep_unwrap s c e amt = Ok (s', o) -> VInv d s'.
Proof.
  intros I Hc H. unfold ep_unwrap in H.
  apply bind_ok in H. destruct H as (w1 & Hw & H). clear Hw.
  destruct (0 <? amt) eqn:Ha; [|discriminate].
  apply bind_ok in H. destruct H as (en1 & Hl & H).
  apply bind_ok in H. destruct H as (bal0 & Hd & H). inversion H; subst s' o; clear H.
  pose proof (entry_fresh_v d s c I Hc) as F.
  eapply add_dest_loop_fresh in F; [| | eassumption]; [|unfold all_pos; simpl; rewrite Ha; reflexivity].
  simpl in F.
  vupd d s c I F.
Qed.

Lemma ep_wtransfer_v d s a b e amt s' o : VInv d s -> ep_wtransfer s a b e amt = Ok (s', o) -> VInv d s'.
Proof.
  intros I H. unfold ep_wtransfer in H. inv_ok H.
  eapply (inv_frame_v d d s); try reflexivity; auto; proj; try lia;
    try (apply (v_unb _ _ I)); try (apply (v_xf _ _ I)); auto.
Qed.

Lemma ep_advance_v d s dd s' o : VInv d s -> ep_advance s dd = Ok (s', o) -> VInv d s'.
Proof.
  intros I H. unfold ep_advance in H. inv_ok H. zb.
  eapply (inv_frame_v d d s); try reflexivity; auto; proj; try lia;
    try (apply (v_unb _ _ I)); try (apply (v_xf _ _ I)); auto.
Qed.

(** every operation of the factory model keeps the view invariant, for every extension [d] *)
Theorem step_v d s op s' o : VInv d s -> step s op = Ok (s', o) -> VInv d s'.
Proof.
  intros I H. unfold step in H.
  destruct (accounts_ok op) eqn:Ha; [|discriminate].
  destruct op; simpl in Ha; unfold is_user in Ha; zb.
  - eapply ep_lock_v; [exact I | | exact H]; assumption.
  - eapply ep_lock_v; [exact I | | exact H]; assumption.
  - eapply ep_extend_v; [exact I | | exact H]; assumption.
  - eapply ep_extend_v; [exact I | | exact H]; assumption.
  - eapply ep_merge_v; [exact I | | exact H]; assumption.
  - eapply ep_merge_v; [exact I | | exact H]; assumption.
  - eapply ep_reduce_v; [exact I | | exact H]; assumption.
  - eapply ep_unlock_v; [exact I | | exact H]; assumption.
  - eapply ep_unlock_early_v; [exact I | | exact H]; assumption.
  - eapply ep_claim_v; [exact I | exact H].
  - eapply ep_cancel_unbond_v; [exact I | | exact H]; assumption.
  - eapply ep_lock_funds_v; [exact I | | exact H]; assumption.
  - eapply ep_withdraw_v; [exact I | | exact H]; assumption.
  - eapply ep_cancel_transfer_v; [exact I | | exact H]; assumption.
  - eapply ep_wrap_v; [exact I | | exact H]; assumption.
  - eapply ep_unwrap_v; [exact I | | exact H]; assumption.
  - eapply ep_wtransfer_v; [exact I | exact H].
  - discriminate.
  - eapply ep_advance_v; [exact I | exact H].
Qed.
End EV.

(** the factory model never touches the ledger row of an account that is neither a user nor one of its three escrows
    (the proxy's row [H_PX] in particular), nor any row at all except through the accounts the operation names *)
Module EV2.
Import MX.Model.Energy MX.Proofs.EnergyProofs.

Lemma step_row s op s' o h : step s op = Ok (s', o) -> h < -2 -> forall e, lget (s_bal s') h e = lget (s_bal s) h e.
Proof.
  intros H Hh e. unfold step in H. destruct (accounts_ok op) eqn:Ha; [|discriminate].
  destruct op; simpl in Ha; unfold is_user in Ha; zb; try discriminate.
  - unfold ep_lock in H. inv_ok H. proj. lock_facts; lpt_facts; at_point h e; lia.
  - unfold ep_lock in H. inv_ok H. proj. lock_facts; lpt_facts; at_point h e; lia.
  - unfold ep_extend in H. inv_ok H. proj. lock_facts; lpt_facts; at_point h e; lia.
  - unfold ep_extend in H. inv_ok H. proj. lock_facts; lpt_facts; at_point h e; lia.
  - unfold ep_merge in H. destruct ps as [|[e0 a0] t]; inv_ok H; proj; lock_facts; lpt_facts; at_point h e; lia.
  - unfold ep_merge in H. destruct ps as [|[e0 a0] t]; inv_ok H; proj; lock_facts; lpt_facts; at_point h e; lia.
  - unfold ep_reduce in H. inv_ok H. proj. lock_facts; lpt_facts; at_point h e; lia.
  - unfold ep_unlock in H. inv_ok H. proj. lock_facts; lpt_facts; at_point h e; lia.
  - unfold ep_unlock_early in H. inv_ok H. proj. lock_facts; lpt_facts; at_point h e; lia.
  - unfold ep_claim in H. inv_ok H. proj. lock_facts; lpt_facts; at_point h e; lia.
  - unfold ep_cancel_unbond in H. inv_ok H. proj. lock_facts; lpt_facts; at_point h e; lia.
  - unfold ep_lock_funds in H. inv_ok H. proj. lock_facts; lpt_facts; at_point h e; lia.
  - unfold ep_withdraw in H. inv_ok H. proj. lock_facts; lpt_facts; at_point h e; lia.
  - unfold ep_cancel_transfer in H. inv_ok H. proj. lock_facts; lpt_facts; at_point h e; lia.
  - unfold ep_wrap in H. inv_ok H. proj. lock_facts; lpt_facts; at_point h e; lia.
  - unfold ep_unwrap in H. inv_ok H. proj. lock_facts; lpt_facts; at_point h e; lia.
  - unfold ep_wtransfer in H. inv_ok H. reflexivity.
  - unfold ep_advance in H. inv_ok H. reflexivity.
Qed.
End EV2.

(** ================================================================== Part C: custody of locked tokens *)
(** the invariant of the factory state together with the carried ledger:
      every account's entry = sum over (the tokens it holds ++ the tokens carried for it)      [EV.VInv]
      per unlock epoch, the carried amounts of all accounts add up to what the proxy holds
      only user accounts carry *)
Definition CInv (c : cus) : Prop :=
  EV.VInv (snd c) (fst c) /\
  (forall e, ENP.lsum_e (snd c) e = EN.lget (EN.s_bal (fst c)) H_PX e) /\
  Forall (fun x : Z * Z * Z => 0 < fst (fst x)) (snd c).

(** between two states: same epoch, same configuration, and only [u]'s stored entry may differ *)
Definition ent_frame (u : Z) (s s' : EN.st) : Prop :=
  EN.s_now s' = EN.s_now s /\ EN.s_cfg s' = EN.s_cfg s /\ forall v, v <> u -> EN.eget (EN.s_en s') v = EN.eget (EN.s_en s) v.

Definition CT (u : Z) (c c' : cus) : Prop := (CInv c -> CInv c') /\ ent_frame u (fst c) (fst c').

Lemma CT_refl u c : CT u c c.
Proof. split; [auto | repeat split; auto]. Qed.

Lemma CT_trans u c1 c2 c3 : CT u c1 c2 -> CT u c2 c3 -> CT u c1 c3.
Proof.
  intros [A (N1 & C1 & E1)] [B (N2 & C2 & E2)]. split; [auto|]. repeat split; try congruence.
  intros v Hv. rewrite E2, E1; auto.
Qed.

Module CU.
Import MX.Model.Energy MX.Proofs.EnergyProofs.

Lemma lsum_credit l h e a e0 : lsum_e (credit l h e a) e0 = lsum_e l e0 + (if e =? e0 then a else 0).
Proof. simpl. lia. Qed.

Lemma to_px_ct c u e a c' : to_px c u e a = Ok c' -> 0 < u -> CT u c c'.
Proof.
  unfold to_px. destruct c as [s car]. intros H Hu. inv_ok H. split; [|repeat split; reflexivity].
  intros (V & S & P). cbn [fst snd] in *. split; [|split].
  - eapply (EV.inv_frame_v car _ s); try reflexivity; auto; proj; try lia; try (apply (EV.v_unb _ _ V)); try (apply (EV.v_xf _ _ V)).
    intros v Hv. unfold H_PX. cbn [fst snd]. proj. ledger_facts. at_holder v; lia.
  - intros e0. cbn [fst snd]. rewrite lsum_credit, S. proj. lpt_facts. unfold H_PX in *. at_point (-3) e0; lia.
  - constructor; [exact Hu | exact P].
Qed.

Lemma from_px_ct c u e a c' : from_px c u e a = Ok c' -> 0 < u -> CT u c c'.
Proof.
  unfold from_px. destruct c as [s car]. intros H Hu. inv_ok H. split; [|repeat split; reflexivity].
  intros (V & S & P). cbn [fst snd] in *. split; [|split].
  - eapply (EV.inv_frame_v car _ s); try reflexivity; auto; proj; try lia; try (apply (EV.v_unb _ _ V)); try (apply (EV.v_xf _ _ V)).
    intros v Hv. unfold H_PX in *. cbn [fst snd]. proj. ledger_facts. at_holder v; lia.
  - intros e0. cbn [fst snd]. rewrite lsum_credit, S. proj. lpt_facts. unfold H_PX in *. at_point (-3) e0; lia.
  - constructor; [exact Hu | exact P].
Qed.

Lemma to_px_all_ct ps : forall c u c', to_px_all c u ps = Ok c' -> 0 < u -> CT u c c'.
Proof.
  induction ps as [|[e a] t IH]; intros c u c' H Hu; simpl in H.
  - inversion H; subst. apply CT_refl.
  - apply bind_ok in H. destruct H as (c1 & H1 & H). eapply CT_trans; [eapply to_px_ct; eauto | eapply IH; eauto].
Qed.

Lemma from_px_all_ct ps : forall c u c', from_px_all c u ps = Ok c' -> 0 < u -> CT u c c'.
Proof.
  induction ps as [|[e a] t IH]; intros c u c' H Hu; simpl in H.
  - inversion H; subst. apply CT_refl.
  - apply bind_ok in H. destruct H as (c1 & H1 & H). eapply CT_trans; [eapply from_px_ct; eauto | eapply IH; eauto].
Qed.

(** a step of the factory model keeps the invariant, whatever is carried *)
Lemma en_step_cinv s car op s' o : step s op = Ok (s', o) -> CInv (s, car) -> CInv (s', car).
Proof.
  intros H (V & S & P). cbn [fst snd] in *. split; [|split]; cbn [fst snd].
  - eapply EV.step_v; eauto.
  - intros e. rewrite S. symmetry. apply (EV2.step_row _ _ _ _ _ H). unfold H_PX. lia.
  - exact P.
Qed.

(** the three factory endpoints the proxy's paths reach write the entry of the named account only *)
Lemma ep_lock_frame s amt le u s' o : ep_lock s amt le u = Ok (s', o) -> ent_frame u s s'.
Proof.
  unfold ep_lock. intros H. inv_ok H. repeat split. intros v Hv. proj. apply eget_eset_other. congruence.
Qed.

Lemma ep_extend_frame s u e amt le s' o : ep_extend s u e amt le u = Ok (s', o) -> ent_frame u s s'.
Proof.
  unfold ep_extend. intros H. inv_ok H. repeat split. intros v Hv. proj. apply eget_eset_other. congruence.
Qed.

Lemma ep_merge_frame s u ps s' o : ep_merge s u ps = Ok (s', o) -> ent_frame u s s'.
Proof.
  unfold ep_merge. intros H. destruct ps as [|[e0 a0] t]; inv_ok H. repeat split. intros v Hv. proj. apply eget_eset_other. congruence.
Qed.
End CU.

Lemma px_merge_ct c u fps c' o : px_merge c u fps = Ok (c', o) -> CT u c c'.
Proof.
  unfold px_merge. intros H. mon H c1 H1. mon H r Hr. destruct r as [s2 o2].
  destruct (step_merge_via _ _ _ _ _ Hr) as [Hu Hm].
  destruct o2 as [|ne [|ma [|z t]]]; try discriminate. mon H c3 H3. inversion H; subst c' o; clear H.
  eapply CT_trans; [eapply CU.from_px_all_ct; eauto|]. destruct c1 as [s1 car1]. cbn [fst snd] in *.
  eapply CT_trans; [|eapply CU.to_px_ct; eauto].
  split; [intros I; eapply CU.en_step_cinv; eauto | cbn [fst]; eapply CU.ep_merge_frame; eauto].
Qed.

Lemma px_extend_ct c u e amt le c' o : px_extend c u e amt le = Ok (c', o) -> CT u c c'.
Proof.
  unfold px_extend. intros H. mon H c1 H1. mon H r Hr. destruct r as [s2 o2].
  destruct (step_extend_via _ _ _ _ _ _ _ Hr) as [Hu Hm].
  destruct o2 as [|ne [|ma [|z t]]]; try discriminate. mon H c3 H3. inversion H; subst c' o; clear H.
  eapply CT_trans; [eapply CU.from_px_ct; eauto|]. destruct c1 as [s1 car1]. cbn [fst snd] in *.
  eapply CT_trans; [|eapply CU.to_px_ct; eauto].
  split; [intros I; eapply CU.en_step_cinv; eauto | cbn [fst]; eapply CU.ep_extend_frame; eauto].
Qed.

(** the receipts of a farm call made for [u] name [u] *)
Definition rc_for (u : Z) (rc : list FL.receipt) : Prop := Forall (fun r : FL.receipt => fst r = u) rc.

Lemma lock_receipts_ct rc : forall s car lock u s', lock_receipts s lock rc = Ok s' -> rc_for u rc -> CT u (s, car) (s', car).
Proof.
  induction rc as [|[c [r ue]] t IH]; intros s car lock u s' H R; simpl in H.
  - inversion H; subst. apply CT_refl.
  - inversion R as [|? ? Rc Rt]; subst. cbn [fst] in *. mon H q Hq. destruct q as [s1 o].
    destruct o as [|ue' [|r' [|z t']]]; try discriminate. chk H.
    destruct (step_lock_virtual _ _ _ _ _ _ Hq) as [Hu Hl].
    eapply CT_trans; [|eapply IH; eauto].
    split; [intros I; eapply CU.en_step_cinv; eauto | cbn [fst]; eapply CU.ep_lock_frame; eauto].
Qed.

Lemma lock_receipts_user rc : forall s lock s', lock_receipts s lock rc = Ok s' -> Forall (fun r : FL.receipt => 0 < fst r) rc.
Proof.
  induction rc as [|[c [r ue]] t IH]; intros s lock s' H; simpl in H; [constructor|].
  mon H q Hq. destruct q as [s1 o]. destruct o as [|ue' [|r' [|z t']]]; try discriminate. chk H.
  destruct (step_lock_virtual _ _ _ _ _ _ Hq) as [Hu _]. constructor; [exact Hu | eapply IH; eauto].
Qed.

Lemma rc_px_ct c lock u rc c' : rc_px c lock u rc = Ok c' -> rc_for u rc -> 0 < u -> CT u c c'.
Proof.
  unfold rc_px. destruct c as [s car]. cbn [fst snd]. intros H R Hu. mon H s1 H1.
  eapply CT_trans; [eapply lock_receipts_ct; eauto | eapply CU.to_px_all_ct; eauto].
Qed.

(** ---- what the proxy burns and which entry it writes, per endpoint (Model/ProxyDex.v) *)
Definition burn_ok (s : state) (o : op) (x : eff) : Prop :=
  match o with
  | RemoveLiq _ _ p e =>
      burn_energy e (snd (x_lburn x)) = Ok (x_energy x) /\ (snd (x_lburn x) <> 0 -> fst (x_lburn x) = wlp_k s (p_non p))
  | ExitFarm _ _ p e =>
      burn_energy e (snd (x_lburn x)) = Ok (x_energy x) /\ (snd (x_lburn x) <> 0 -> fst (x_lburn x) = wfm_k s (p_non p))
  | _ => x_lburn x = (0, 0) /\ x_energy x = None
  end.

Lemma merge_wfm_noburn s u farm ps e s' x : ep_merge_wfm s u farm ps e = Ok (s', x) -> x_lburn x = (0, 0) /\ x_energy x = None.
Proof.
  unfold ep_merge_wfm. intros H. chk H. chk H. mon H r Hr. destruct r as [s1 its].
  mon H r2 Hr2. destruct r2 as [s2 [[m amt] law]]. destruct (v_rew e) as [rk ra]. inversion H; subst. split; reflexivity.
Qed.

Lemma step_burn s o s' x : step s o = Ok (s', x) -> Backed s -> burn_ok s o x.
Proof.
  intros H Hb. destruct o; cbn [step burn_ok] in *.
  - destruct (add_liq_mint_any _ _ _ _ _ _ _ _ _ H) as (_ & _ & _ & _ & A & B). auto.
  - destruct (remove_liq_char _ _ _ _ _ _ _ H Hb) as (w & lp & Hw & _ & R). cbv zeta in R.
    destruct R as (_ & _ & _ & El & _ & Hen). rewrite El. unfold wlp_k. rewrite Hw.
    destruct (lp <? snd (fst (v_pair e))) eqn:E; cbn [fst snd].
    + apply Z.ltb_lt in E. rewrite Z.max_l in Hen by lia. split; [exact Hen | intros C; contradiction].
    + split; [exact Hen | reflexivity].
  - destruct (enter_farm_mint_any _ _ _ _ _ _ _ _ H) as (_ & _ & A & B & _). auto.
  - destruct (exit_farm_char _ _ _ _ _ _ _ H Hb) as (w & Hw & _ & _ & R). cbv zeta in R.
    destruct R as (_ & _ & _ & _ & _ & K0 & K1 & K2). unfold wfm_k. rewrite Hw.
    destruct (wf_kind w =? 0) eqn:Ek.
    + apply Z.eqb_eq in Ek. destruct (K0 Ek) as (E1 & E2 & E3). rewrite E1. split; [exact E3 | exact E2].
    + apply Z.eqb_neq in Ek. destruct (Z.eq_dec (p_amt p - snd (v_farm e)) 0) as [Ez|Ez].
      * destruct (K1 Ek Ez) as [E1 E2]. rewrite E1, E2. split; [reflexivity | intros C; contradiction].
      * destruct (K2 Ek Ez) as (wl & lold & lnew & Hwl & _ & _ & E1 & _ & E2). rewrite E1. cbn [fst snd].
        split; [exact E2|]. intros _. unfold wlp_k. rewrite Hwl. reflexivity.
  - unfold ep_claim in H. chk H. chk H. mon H r Hr. destruct r as [s1 [w pp]]. chk H. chk H.
    destruct (v_farm e) as [f F]. destruct (v_rew e) as [rk ra]. destruct (mint_wfm _ _ _ _ _ _ _ _) as [s2 m].
    inversion H; subst. split; reflexivity.
  - unfold ep_merge_wlp in H. chk H. mon H r Hr. destruct r as [s1 [ta tl]]. chk H. destruct (v_fact e) as [kf lf].
    destruct (mint_wlp_user _ _ _ _ _) as [s2 n]. inversion H; subst. split; reflexivity.
  - eapply merge_wfm_noburn; eauto.
  - unfold ep_inc_lp in H. chk H. mon H r Hr. destruct r as [s1 [k lp]]. chk H. destruct (v_fact e) as [kf lf].
    destruct (mint_wlp_user _ _ _ _ _) as [s2 n]. inversion H; subst. split; reflexivity.
  - unfold ep_inc_fm in H. chk H. mon H r Hr. destruct r as [s1 [w pp]]. destruct (v_fact e) as [kf lf].
    destruct (wf_kind w =? 0).
    + chk H. destruct (mint_wfm _ _ _ _ _ _ _ _) as [s2 m]. inversion H; subst. split; reflexivity.
    + mon H r2 Hr2. destruct r2 as [s2 [k lq]]. chk H. destruct (mint_wlp _ _ _ _) as [s3 n].
      destruct (mint_wfm _ _ _ _ _ _ _ _) as [s4 m]. inversion H; subst. split; reflexivity.
  - chk H. chk H. inversion H; subst. split; reflexivity.
  - chk H. chk H. chk H. inversion H; subst. split; reflexivity.
  - unfold ep_xfer_wlp in H. chk H. mon H h Hh. inversion H; subst. split; reflexivity.
  - unfold ep_xfer_wfm in H. chk H. mon H h Hh. inversion H; subst. split; reflexivity.
Qed.

(** burn_locked_tokens_and_update_energy on the factory model: the entry written is fresh for what is left *)
Module CB.
Import MX.Model.Energy MX.Proofs.EnergyProofs.

Lemma burn_ledger bal car u k amt l1 : debit bal H_PX k amt = Ok l1 -> 0 < u ->
  (forall v, 0 < v ->
     lweight l1 v + lweight (credit car u k (- amt)) v = lweight bal v + lweight car v - (if u =? v then amt * k else 0) /\
     ltotal l1 v + ltotal (credit car u k (- amt)) v = ltotal bal v + ltotal car v - (if u =? v then amt else 0)) /\
  (forall e0, lsum_e (credit car u k (- amt)) e0 = lsum_e car e0 - (if k =? e0 then amt else 0) /\
              lget l1 H_PX e0 = lget bal H_PX e0 - (if k =? e0 then amt else 0)).
Proof.
  intros Hd Hu. split.
  - intros v Hv. unfold H_PX in *. ledger_facts. at_holder v; lia.
  - intros e0. split; [rewrite CU.lsum_credit; destruct (k =? e0); lia|]. lpt_facts. unfold H_PX in *. at_point (-3) e0; lia.
Qed.
End CB.

Lemma px_burn_ct c u x e c' : px_burn c u x = Ok c' -> 0 < u ->
  burn_energy e (snd (x_lburn x)) = Ok (x_energy x) ->
  (snd (x_lburn x) <> 0 -> fst (x_lburn x) = v_unlock e) ->
  v_energy e = L16.pe_of (EN.view_entry (fst c) u) -> v_now e = EN.s_now (fst c) ->
  CT u c c'.
Proof.
  unfold px_burn. destruct c as [s car]. destruct (x_lburn x) as [k amt] eqn:El. cbn [fst snd].
  intros H Hu Hbe Hk Hen Hnow. mon H l1 Hd. inversion H; subst c'; clear H.
  destruct (CB.burn_ledger _ car _ _ _ _ Hd Hu) as [LW LS].
  destruct (L16.burn_energy_is_factory_update s u e amt _ Hen Hnow Hbe) as [(Hz & Hn)|(Hnz & en' & Hs & Hup)].
  - (* nothing burned *) rewrite Hn. split.
    + intros (V & S & P). cbn [fst snd] in *. split; [|split]; cbn [fst snd].
      * eapply (EV.inv_frame_v car _ s); try reflexivity; auto; try lia;
          try (apply (EV.v_unb _ _ V)); try (apply (EV.v_xf _ _ V)).
        intros v Hv. cbn [EN.s_bal EN.set_bal]. destruct (LW v Hv) as [A B]. rewrite A, B. subst amt. destruct (u =? v); lia.
      * intros e0. destruct (LS e0) as [A B]. cbn [EN.s_bal EN.set_bal]. rewrite A, B, S. reflexivity.
      * constructor; [exact Hu | exact P].
    + repeat split; reflexivity.
  - (* the entry of [u] is rewritten *) rewrite Hs. specialize (Hk Hnz). split.
    + intros (V & S & P). cbn [fst snd] in *. split; [|split]; cbn [fst snd].
      * pose proof (EV.entry_fresh_v car s u V Hu) as F.
        eapply ENP.any_fresh in F; [|exact Hup].
        eapply (EV.inv_update_v car _ s _ u); try reflexivity; auto;
          try (apply (EV.v_unb _ _ V)); try (apply (EV.v_xf _ _ V)).
        -- intros v Hv Hne. cbn [EN.s_bal EN.set_bal EN.put_entry EN.set_en]. destruct (LW v Hv) as [A B]. rewrite A, B.
           assert (E : u =? v = false) by (apply Z.eqb_neq; congruence). rewrite E. lia.
        -- cbn [EN.s_bal EN.set_bal EN.put_entry EN.set_en]. destruct (LW u Hu) as [A B]. rewrite A, B, Z.eqb_refl.
           eapply ENP.fresh_ext; [exact F | rewrite Hk; lia | lia].
      * intros e0. destruct (LS e0) as [A B]. cbn [EN.s_bal EN.set_bal EN.put_entry EN.set_en]. rewrite A, B, S. reflexivity.
      * constructor; [exact Hu | exact P].
    + repeat split; try reflexivity. intros v Hv. cbn [EN.s_en EN.put_entry EN.set_en EN.set_bal]. apply ENP.eget_eset_other. congruence.
Qed.

Lemma from_px_all_en ps : forall c u c1, from_px_all c u ps = Ok c1 ->
  EN.s_en (fst c1) = EN.s_en (fst c) /\ EN.s_now (fst c1) = EN.s_now (fst c).
Proof.
  induction ps as [|[e0 a0] t IH]; intros c u c1 H; simpl in H.
  - inversion H; subst. auto.
  - mon H c2 H2. destruct (IH _ _ _ H) as [A B]. rewrite A, B. unfold from_px in H2. destruct c as [s car].
    mon H2 l1 Hd. inversion H2; subst. auto.
Qed.

Lemma to_px_all_en ps : forall c u c1, to_px_all c u ps = Ok c1 ->
  EN.s_en (fst c1) = EN.s_en (fst c) /\ EN.s_now (fst c1) = EN.s_now (fst c).
Proof.
  induction ps as [|[e0 a0] t IH]; intros c u c1 H; simpl in H.
  - inversion H; subst. auto.
  - mon H c2 H2. destruct (IH _ _ _ H) as [A B]. rewrite A, B. unfold to_px in H2. destruct c as [s car].
    mon H2 l1 Hd. inversion H2; subst. auto.
Qed.

Lemma view_entry_same s s' u : EN.s_en s' = EN.s_en s -> EN.s_now s' = EN.s_now s -> EN.view_entry s' u = EN.view_entry s u.
Proof. intros A B. unfold EN.view_entry, EN.entry_now. rewrite A, B. reflexivity. Qed.

Lemma settle_ct c u x e c' : settle c u x = Ok c' -> 0 < u ->
  burn_energy e (snd (x_lburn x)) = Ok (x_energy x) ->
  (snd (x_lburn x) <> 0 -> fst (x_lburn x) = v_unlock e) ->
  v_energy e = L16.pe_of (EN.view_entry (fst c) u) -> v_now e = EN.s_now (fst c) ->
  CT u c c'.
Proof.
  unfold settle. intros H Hu Hbe Hk Hen Hnow. mon H c1 H1.
  eapply CT_trans; [eapply CU.from_px_all_ct; eauto|].
  destruct (from_px_all_en _ _ _ _ H1) as [A B].
  eapply px_burn_ct; eauto.
  - rewrite Hen. f_equal. symmetry. apply view_entry_same; assumption.
  - congruence.
Qed.

Lemma lstep_rc_for ls op ls' o rc : FL.lstep ls (FL.LF op) = Ok (ls', o, rc) -> rc_for (FL.op_caller op) rc.
Proof.
  intros H. destruct (BF.lstep_LF _ _ _ _ _ H) as (_ & _ & _ & ->). unfold BF.receipts_of, rc_for.
  destruct (0 <? _); constructor; [reflexivity | constructor].
Qed.

Lemma via_user_rc_for lf u toks op back lf' o rc : via_user lf u toks op back = Ok (lf', o, rc) -> FL.op_caller op = u -> rc_for u rc.
Proof.
  intros H E. destruct (via_user_inv _ _ _ _ _ _ _ _ H) as (lf1 & lf2 & _ & Hs & _). rewrite <- E. eapply lstep_rc_for; eauto.
Qed.

Lemma answer_remove_fields bf e po e' : L16.answer_of_removeLiquidity bf e po = Some e' ->
  v_now e' = v_now e /\ v_energy e' = v_energy e /\ v_unlock e' = v_unlock e.
Proof.
  unfold L16.answer_of_removeLiquidity. destruct po as [|a [|b [|c t]]]; try discriminate. intros H. inversion H; subst.
  repeat split; reflexivity.
Qed.

Lemma answer_exit_fields e rk fo e' : L16.answer_of_exitFarm e rk fo = Some e' ->
  v_now e' = v_now e /\ v_energy e' = v_energy e /\ v_unlock e' = v_unlock e.
Proof.
  unfold L16.answer_of_exitFarm. destruct fo as [|a [|b [|c t]]]; try discriminate. intros H. inversion H; subst.
  repeat split; reflexivity.
Qed.

(** the cus of a closed state *)
Definition cus_of (cs : cst) : cus := (c_en cs, g_car (c_g cs)).

(** endpoints without burn: [settle] on any record *)
Lemma settle_noburn c u x c' : settle c u x = Ok c' -> 0 < u -> x_lburn x = (0, 0) -> x_energy x = None -> CT u c c'.
Proof.
  intros H Hu El En.
  eapply (settle_ct c u x (env0 (EN.s_now (fst c)) (entry_of (fst c) u) 0)); eauto.
  - rewrite El, En. reflexivity.
  - rewrite El. cbn [snd]. intros C. contradiction.
Qed.

Theorem c_add_liq_ct cs u pid p1 p2 extra m1 m2 cs' co : c_add_liq cs u pid p1 p2 extra m1 m2 = Ok (cs', co) ->
  0 < u -> Backed (c_px cs) -> CT u (cus_of cs) (cus_of cs').
Proof.
  unfold c_add_liq. intros H Hu Hb. chk H. mon H c0 H0. mon H rp Hp. destruct rp as [[pair' po] ef].
  mon H e1 He1. cbv zeta in H. mon H re Hre. destruct re as [c1 e]. mon H rx Hx. destruct rx as [px' x].
  mon H c2 H2. inversion H; subst cs' co; clear H. unfold cus_of. cbn [c_en c_g g_car upd_g].
  destruct c2 as [s2 car2]. cbn [fst snd].
  pose proof (step_burn _ _ _ _ Hx Hb) as [El En]. cbn [burn_ok] in *.
  eapply CT_trans; [eapply CU.to_px_all_ct; eauto|].
  eapply CT_trans; [|eapply settle_noburn; eauto].
  destruct extra as [|q t].
  - inversion Hre; subst. apply CT_refl.
  - mon Hre parts Hparts. mon Hre rm Hrm. destruct rm as [cm fo]. cbn [fst snd] in Hre. mon Hre e2 He2.
    inversion Hre; subst c1 e; clear Hre. eapply px_merge_ct; eauto.
Qed.

Theorem c_remove_liq_ct cs u pid p m1 m2 cs' co : c_remove_liq cs u pid p m1 m2 = Ok (cs', co) ->
  0 < u -> Backed (c_px cs) -> CT u (cus_of cs) (cus_of cs').
Proof.
  unfold c_remove_liq. intros H Hu Hb. mon H rp Hp. destruct rp as [[pair' po] ef]. mon H e He. opt_in He.
  mon H rx Hx. destruct rx as [px' x]. mon H c2 H2. inversion H; subst cs' co; clear H.
  unfold cus_of. cbn [c_en c_g g_car upd_g]. destruct c2 as [s2 car2]. cbn [fst snd].
  pose proof (step_burn _ _ _ _ Hx Hb) as [Hbe Hk]. cbn [burn_ok] in *.
  destruct (answer_remove_fields _ _ _ _ He) as (E1 & E2 & E3). cbn [env0 v_now v_energy v_unlock] in *.
  eapply (settle_ct _ u x e); eauto.
  - rewrite E3. exact Hk.
Qed.

Theorem c_enter_farm_ct cs u farm p extra b cs' co : c_enter_farm cs u farm p extra b = Ok (cs', co) ->
  0 < u -> Backed (c_px cs) -> CT u (cus_of cs) (cus_of cs').
Proof.
  unfold c_enter_farm. intros H Hu Hb. cbv zeta in H. mon H lf Hlf. mon H r0 Hr0. destruct r0 as [[s1 kind] minted].
  mon H c0 H0. mon H rf Hrf. destruct rf as [[lf1 fo] rc]. mon H pair1 Hpair. mon H c1 H1.
  mon H re Hre. destruct re as [[lf' c3] e]. mon H rx Hx. destruct rx as [px' x]. mon H c4 H4.
  destruct (set_farm cs farm lf') as [f0' f1']. inversion H; subst cs' co; clear H.
  unfold cus_of. cbn [c_en c_g g_car upd_g]. destruct c4 as [s4 car4]. cbn [fst snd].
  pose proof (step_burn _ _ _ _ Hx Hb) as [El En]. cbn [burn_ok] in *.
  eapply CT_trans; [eapply CU.to_px_all_ct; eauto|].
  eapply CT_trans; [eapply rc_px_ct; eauto; eapply via_user_rc_for; eauto; reflexivity|].
  eapply CT_trans; [|eapply settle_noburn; eauto].
  destruct extra as [|q t].
  - mon Hre e' He. inversion Hre; subst. apply CT_refl.
  - mon Hre rt Hrt. destruct rt as [s2 its]. mon Hre fps Hfps. mon Hre toks Htoks. mon Hre rm Hrm. destruct rm as [cm mo].
    mon Hre rg Hrg. destruct rg as [[lf2 go] rcm]. mon Hre c2 H2. cbn [fst snd] in Hre.
    mon Hre e1 He1. mon Hre e2 He2. mon Hre e3 He3. inversion Hre; subst lf' c3 e3; clear Hre.
    eapply CT_trans; [eapply px_merge_ct; eauto|].
    eapply rc_px_ct; [exact H2 | eapply via_user_rc_for; [exact Hrg | reflexivity] | exact Hu].
Qed.

Theorem c_exit_farm_ct cs u farm p b cs' co : c_exit_farm cs u farm p b = Ok (cs', co) ->
  0 < u -> Backed (c_px cs) -> CT u (cus_of cs) (cus_of cs').
Proof.
  unfold c_exit_farm. intros H Hu Hb. cbv zeta in H. mon H lf Hlf.
  destruct (getn (s_wfm (c_px cs)) (p_non p)) as [w|] eqn:Hw; [|discriminate].
  mon H rf Hrf. destruct rf as [[lf1 fo] rc]. mon H pair1 Hpair. mon H c1 H1. mon H e He. opt_in He.
  mon H rx Hx. destruct rx as [px' x]. mon H c2 H2. destruct (set_farm cs farm lf1) as [f0' f1'].
  inversion H; subst cs' co; clear H. unfold cus_of. cbn [c_en c_g g_car upd_g]. destruct c2 as [s2 car2]. cbn [fst snd].
  pose proof (step_burn _ _ _ _ Hx Hb) as [Hbe Hk]. cbn [burn_ok] in *.
  destruct (answer_exit_fields _ _ _ _ He) as (E1 & E2 & E3). cbn [env0 v_now v_energy v_unlock] in *.
  pose proof (rc_px_ct _ _ _ _ _ H1 (via_user_rc_for _ _ _ _ _ _ _ _ Hrf eq_refl) Hu) as T1.
  eapply CT_trans; [exact T1|]. destruct T1 as [_ (N1 & _)]. cbn [fst] in N1.
  eapply (settle_ct _ u x e); eauto.
  - rewrite E3. exact Hk.
  - rewrite E1. unfold now_of. congruence.
Qed.

Theorem c_claim_ct cs u farm p b cs' co : c_claim cs u farm p b = Ok (cs', co) ->
  0 < u -> Backed (c_px cs) -> CT u (cus_of cs) (cus_of cs').
Proof.
  unfold c_claim. intros H Hu Hb. cbv zeta in H. mon H lf Hlf.
  destruct (getn (s_wfm (c_px cs)) (p_non p)) as [w|] eqn:Hw; [|discriminate].
  mon H rf Hrf. destruct rf as [[lf1 fo] rc]. mon H c1 H1. mon H e He.
  mon H rx Hx. destruct rx as [px' x]. mon H c2 H2. destruct (set_farm cs farm lf1) as [f0' f1'].
  inversion H; subst cs' co; clear H. unfold cus_of. cbn [c_en c_g g_car upd_g]. destruct c2 as [s2 car2]. cbn [fst snd].
  pose proof (step_burn _ _ _ _ Hx Hb) as [El En]. cbn [burn_ok] in *.
  eapply CT_trans; [eapply rc_px_ct; eauto; eapply via_user_rc_for; eauto; reflexivity|].
  eapply settle_noburn; eauto.
Qed.

Theorem c_merge_wlp_ct cs u ps cs' co : c_merge_wlp cs u ps = Ok (cs', co) ->
  0 < u -> Backed (c_px cs) -> CT u (cus_of cs) (cus_of cs').
Proof.
  unfold c_merge_wlp. intros H Hu Hb. cbv zeta in H. mon H parts Hparts. mon H rm Hrm. destruct rm as [cm mo]. cbn [fst snd] in H.
  mon H e He. mon H rx Hx. destruct rx as [px' x]. mon H c2 H2.
  inversion H; subst cs' co; clear H. unfold cus_of. cbn [c_en c_g g_car upd_g]. destruct c2 as [s2 car2]. cbn [fst snd].
  pose proof (step_burn _ _ _ _ Hx Hb) as [El En]. cbn [burn_ok] in *.
  eapply CT_trans; [eapply px_merge_ct; eauto|]. eapply settle_noburn; eauto.
Qed.

Theorem c_merge_wfm_ct cs u farm ps bm cs' co : c_merge_wfm cs u farm ps bm = Ok (cs', co) ->
  0 < u -> Backed (c_px cs) -> CT u (cus_of cs) (cus_of cs').
Proof.
  unfold c_merge_wfm. intros H Hu Hb. cbv zeta in H. mon H lf Hlf. mon H rt Hrt. destruct rt as [s1 its].
  mon H fps Hfps. mon H toks Htoks. mon H rm Hrm. destruct rm as [cm mo]. mon H rg Hrg. destruct rg as [[lf1 go] rcm].
  cbn [fst snd] in H. mon H c1 H1. mon H e1 He1. mon H e He.
  mon H rx Hx. destruct rx as [px' x]. mon H c2 H2. destruct (set_farm cs farm lf1) as [f0' f1'].
  inversion H; subst cs' co; clear H. unfold cus_of. cbn [c_en c_g g_car upd_g]. destruct c2 as [s2 car2]. cbn [fst snd].
  pose proof (step_burn _ _ _ _ Hx Hb) as [El En]. cbn [burn_ok] in *.
  eapply CT_trans; [eapply px_merge_ct; eauto|].
  eapply CT_trans; [eapply rc_px_ct; eauto; eapply via_user_rc_for; eauto; reflexivity|].
  eapply settle_noburn; eauto.
Qed.

Theorem c_inc_lp_ct cs u p le cs' co : c_inc_lp cs u p le = Ok (cs', co) ->
  0 < u -> Backed (c_px cs) -> CT u (cus_of cs) (cus_of cs').
Proof.
  unfold c_inc_lp. intros H Hu Hb. cbv zeta in H. mon H rt Hrt. destruct rt as [s1 [k lp]].
  mon H rm Hrm. destruct rm as [cm mo]. cbn [fst snd] in H. mon H e He.
  mon H rx Hx. destruct rx as [px' x]. mon H c2 H2.
  inversion H; subst cs' co; clear H. unfold cus_of. cbn [c_en c_g g_car upd_g]. destruct c2 as [s2 car2]. cbn [fst snd].
  pose proof (step_burn _ _ _ _ Hx Hb) as [El En]. cbn [burn_ok] in *.
  eapply CT_trans; [eapply px_extend_ct; eauto|]. eapply settle_noburn; eauto.
Qed.

Theorem c_inc_fm_ct cs u p le cs' co : c_inc_fm cs u p le = Ok (cs', co) ->
  0 < u -> Backed (c_px cs) -> CT u (cus_of cs) (cus_of cs').
Proof.
  unfold c_inc_fm. intros H Hu Hb. cbv zeta in H. mon H rt Hrt. destruct rt as [s1 [w pp]].
  mon H kl Hkl. destruct kl as [k lq]. mon H rm Hrm. destruct rm as [cm mo]. cbn [fst snd] in H. mon H e He.
  mon H rx Hx. destruct rx as [px' x]. mon H c2 H2.
  inversion H; subst cs' co; clear H. unfold cus_of. cbn [c_en c_g g_car upd_g]. destruct c2 as [s2 car2]. cbn [fst snd].
  pose proof (step_burn _ _ _ _ Hx Hb) as [El En]. cbn [burn_ok] in *.
  eapply CT_trans; [eapply px_extend_ct; eauto|]. eapply settle_noburn; eauto.
Qed.

(** ---- every closed step keeps the custody invariant *)
(** the caller of a proxy endpoint is a user account *)
Definition caller_of (o : cop) : option Z :=
  match o with
  | CAddLiq u _ _ _ _ _ _ | CRemoveLiq u _ _ _ _ | CEnterFarm u _ _ _ _ | CExitFarm u _ _ _ | CClaim u _ _ _
  | CMergeWlp u _ | CMergeWfm u _ _ _ | CIncLp u _ _ | CIncFm u _ _ => Some u
  | _ => None
  end.

Definition cuser (o : cop) : Prop := match caller_of o with Some u => uid u | None => True end.

Lemma lock_receipts_cinv rc : forall s car lock s', lock_receipts s lock rc = Ok s' -> CInv (s, car) -> CInv (s', car).
Proof.
  induction rc as [|[c [r ue]] t IH]; intros s car lock s' H I; simpl in H.
  - inversion H; subst. exact I.
  - mon H q Hq. destruct q as [s1 o]. destruct o as [|ue' [|r' [|z t']]]; try discriminate. chk H.
    eapply IH; [exact H|]. eapply CU.en_step_cinv; eauto.
Qed.

Theorem cstep_cinv cs o cs' co : cstep cs o = Ok (cs', co) -> Backed (c_px cs) -> cuser o ->
  CInv (cus_of cs) -> CInv (cus_of cs').
Proof.
  intros H Hb Hu I. unfold cuser in Hu.
  destruct o; cbn [cstep caller_of] in *;
    try (destruct Hu as ((Hu & _) & _)).
  - exact (proj1 (c_add_liq_ct _ _ _ _ _ _ _ _ _ _ H Hu Hb) I).
  - exact (proj1 (c_remove_liq_ct _ _ _ _ _ _ _ _ H Hu Hb) I).
  - exact (proj1 (c_enter_farm_ct _ _ _ _ _ _ _ _ H Hu Hb) I).
  - exact (proj1 (c_exit_farm_ct _ _ _ _ _ _ _ H Hu Hb) I).
  - exact (proj1 (c_claim_ct _ _ _ _ _ _ _ H Hu Hb) I).
  - exact (proj1 (c_merge_wlp_ct _ _ _ _ _ H Hu Hb) I).
  - exact (proj1 (c_merge_wfm_ct _ _ _ _ _ _ _ H Hu Hb) I).
  - exact (proj1 (c_inc_lp_ct _ _ _ _ _ _ H Hu Hb) I).
  - exact (proj1 (c_inc_fm_ct _ _ _ _ _ _ H Hu Hb) I).
  - unfold c_plain in H. mon H rx Hx. destruct rx. inversion H; subst. exact I.
  - unfold c_plain in H. mon H rx Hx. destruct rx. inversion H; subst. exact I.
  - unfold c_plain in H. mon H rx Hx. destruct rx. inversion H; subst. exact I.
  - unfold c_plain in H. mon H rx Hx. destruct rx. inversion H; subst. exact I.
  - unfold c_pair_env in H. chk H. mon H r Hr. destruct r as [[pair' po] ef]. inversion H; subst. exact I.
  - unfold c_farm_env in H. mon H lf Hlf. chk H. mon H r Hr. destruct r as [[lf' fo] rc]. mon H pair' Hp. mon H en' He.
    cbv zeta in H. destruct (set_farm cs farm lf') as [f0' f1']. inversion H; subst. unfold cus_of in *. cbn [c_en c_g] in *.
    eapply lock_receipts_cinv; eauto.
  - unfold c_energy_env in H. chk H. mon H r Hr. destruct r as [s' o']. inversion H; subst. unfold cus_of in *. cbn [c_en c_g fst] in *.
    eapply CU.en_step_cinv; eauto.
  - unfold c_time in H. chk H. mon H r Hr. destruct r as [s' o']. inversion H; subst. unfold cus_of in *. cbn [c_en c_g fst] in *.
    eapply CU.en_step_cinv; eauto.
Qed.

(** closed histories: the proxy freshly deployed, the factory consistent, nothing carried yet; callers are users *)
Definition cinit (cs0 : cst) : Prop := c_px cs0 = init_state /\ CInv (cus_of cs0).

Definition chist (cs : cst) : Prop := exists cs0 ops, cinit cs0 /\ Forall cuser ops /\ cs = crun cs0 ops.

Lemma chist_creach cs : chist cs -> creach cs.
Proof. intros (cs0 & ops & (Hi & _) & _ & ->). exists cs0, ops. auto. Qed.

Theorem chist_cinv cs : chist cs -> CInv (cus_of cs).
Proof.
  intros (cs0 & ops & Hi & Hu & ->). revert Hu. pattern ops. apply rev_ind; clear ops.
  - intros _. exact (proj2 Hi).
  - intros o ops IH Hu. apply Forall_app in Hu. destruct Hu as [Hu Ho]. inversion Ho as [|? ? Huo _]; subst.
    unfold crun. rewrite fold_left_app. cbn [fold_left]. fold (crun cs0 ops). specialize (IH Hu).
    unfold cstep_total. destruct (cstep (crun cs0 ops) o) as [[cs' co]|] eqn:E; [|exact IH].
    eapply cstep_cinv; eauto. apply creach_backed. exists cs0, ops. split; [exact (proj1 Hi) | reflexivity].
Qed.

Lemma init_c_cinit fee sfee bf dsc opts lock blk epoch : EN.valid_opts opts = true -> 0 <= epoch ->
  cinit (init_c fee sfee bf dsc opts lock blk epoch).
Proof.
  intros Hv He. split; [reflexivity|]. unfold cus_of, init_c. cbn [c_en c_g g_car g0]. split; [|split]; cbn [fst snd].
  - unfold EV.VInv. apply (ENP.init_inv (EN.mkCfg opts 10 0 0) epoch); assumption.
  - intros e. reflexivity.
  - constructor.
Qed.

(** ---- what the invariant says *)
Theorem cinv_view c u : CInv c -> 0 < u ->
  let s := fst c in let d := snd c in
  EN.e_amt (EN.view_entry s u) = ENP.spec_energy (EN.s_bal s ++ d) u (EN.s_now s) /\
  EN.e_tot (EN.view_entry s u) = ENP.spec_total (EN.s_bal s ++ d) u /\
  EN.e_upd (EN.view_entry s u) = EN.s_now s /\
  EN.view_amount s u = Z.max 0 (ENP.spec_energy (EN.s_bal s ++ d) u (EN.s_now s)).
Proof. intros (V & _) Hu. exact (ENP.inv_view (EV.view (fst c) (snd c)) u V Hu). Qed.

Theorem cinv_proxy_no_energy c : CInv c ->
  EN.view_entry (fst c) H_PX = EN.mkEn 0 (EN.s_now (fst c)) 0 /\ EN.view_amount (fst c) H_PX = 0.
Proof. intros (V & _). apply (ENP.inv_escrow (EV.view (fst c) (snd c)) H_PX V). unfold H_PX. lia. Qed.

(** the spec sums split: tokens held + tokens carried *)
Lemma spec_energy_app l d u now : ENP.spec_energy (l ++ d) u now = ENP.spec_energy l u now + ENP.spec_energy d u now.
Proof. rewrite !ENP.spec_energy_eq, EV.lweight_app, EV.ltotal_app. lia. Qed.
Lemma spec_total_app l d u : ENP.spec_total (l ++ d) u = ENP.spec_total l u + ENP.spec_total d u.
Proof. rewrite !ENP.spec_total_eq, EV.ltotal_app. lia. Qed.
