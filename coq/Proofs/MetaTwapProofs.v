(** What a passed [Run.MetaTwapRun.check_twap] means.

    [check_twap_sound]: when the checker returns [], every registered value of the trace equals the value
    law L7 postulates for the ledger recorded before it ([checked]).
    [law_value_twap]: under the hypotheses of Props/C15.v [C15_law_L7_safe_price_model] (ledger rounds
    non-decreasing and not in the future, non-zero current reserves, an observation older than the current
    round) that value is the DOCUMENTED time-weighted average
        liq * avg(staking-token reserve at the start of each round of the window)
            / avg(LP supply at the start of each round of the window),
    window = the last min(default offset, rounds since the oldest retained observation) rounds, with the real
    ring capacity.  So a passed check says: the real proxy registered the documented average of the world's own
    start-of-round ledger - not a property of the ring mechanics. *)
From MX Require Import Base.Prelude Gen.Params Model.SafePrice Proofs.SafePriceProofs Model.MetaStaking Proofs.MetaStakingProofs Run.MetaTwapRun.

Fixpoint checked (rus : list upd) (tr : list titem) : Prop :=
  match tr with
  | [] => True
  | TU round r1 r2 s :: t => checked (mkU round r1 r2 s :: rus) t
  | TQ now r1 r2 s sf liq reg :: t =>
      law_value (rev rus) (mkEnv now r1 r2 s) sf liq = Ok reg /\ checked rus t
  end.

Lemma check_twap_sound : forall tr i rus, check_twap i rus tr = [] -> checked rus tr.
Proof.
  induction tr as [|it t IH]; intros i rus H; [exact I|].
  destruct it as [round r1 r2 s | now r1 r2 s sf liq reg]; cbn [check_twap checked] in *.
  - eapply IH. exact H.
  - destruct (law_value (rev rus) (mkEnv now r1 r2 s) sf liq) as [v|e] eqn:E; [|discriminate].
    destruct (v =? reg) eqn:Ev; [|discriminate].
    apply Z.eqb_eq in Ev. subst v. split; [reflexivity|]. eapply IH. exact H.
Qed.

Lemma cap_ge_2 : 2 <= MAX_OBSERVATIONS.
Proof. vm_compute. discriminate. Qed.

Lemma law_value_twap : forall us ev o stk_first liq,
  wf_calls us -> (forall u, In u us -> u_round u <= e_now ev) -> pos_upd (cur_upd ev) ->
  get_oldest MAX_OBSERVATIONS (ring_of MAX_OBSERVATIONS us) = Ok o -> ob_round o < e_now ev ->
  let s0 := e_now ev - Z.min DEFAULT_SAFE_PRICE_ROUNDS_OFFSET (e_now ev - ob_round o) in
  law_value us ev stk_first liq =
    Ok (liq * avg (if stk_first then u_r1 else u_r2) us (cur_upd ev) s0 (e_now ev) / avg u_S us (cur_upd ev) s0 (e_now ev)).
Proof.
  intros us ev o sf liq Hwf Hnow Hc Ho Hlt s0.
  destruct (Laws.safe_answer_twap MAX_OBSERVATIONS us ev o sf liq cap_ge_2 Hwf Hnow Hc Ho Hlt) as (r & ot & oa & Hr & _ & Hp).
  unfold law_value. rewrite Hr. cbn [bind]. fold s0 in Hp. rewrite Hp. reflexivity.
Qed.
