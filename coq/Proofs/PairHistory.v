(** K / S^2 along WHOLE histories of the pair (every operation kind, failed calls included): the per-step
    statement of Proofs/PairInv.v ([step_spec]) composed over [run] with the LP-supply floor of
    Proofs/PairChar.v ([step_S_floor]), which is what makes the cross-multiplied order transitive. *)
From MX Require Import Base.Prelude Gen.Params Model.Pair Proofs.PairInv Proofs.PairChar.

Lemma cross_trans k0 k1 k2 s0 s1 s2 :
  0 < s1 -> k0 * (s1 * s1) <= k1 * (s0 * s0) -> k1 * (s2 * s2) <= k2 * (s1 * s1) ->
  k0 * (s2 * s2) <= k2 * (s0 * s0).
Proof.
  intros H1 A B.
  assert (P1 : 0 < s1 * s1) by nia.
  assert (Q0 : 0 <= s0 * s0) by nia.
  assert (Q2 : 0 <= s2 * s2) by nia.
  apply Z.mul_le_mono_pos_r with (p := s1 * s1); [exact P1|].
  apply Z.le_trans with (m := k1 * (s0 * s0) * (s2 * s2)).
  - replace (k0 * (s2 * s2) * (s1 * s1)) with (k0 * (s1 * s1) * (s2 * s2)) by ring.
    apply Z.mul_le_mono_nonneg_r; assumption.
  - replace (k1 * (s0 * s0) * (s2 * s2)) with (k1 * (s2 * s2) * (s0 * s0)) by ring.
    replace (k2 * (s0 * s0) * (s1 * s1)) with (k2 * (s1 * s1) * (s0 * s0)) by ring.
    apply Z.mul_le_mono_nonneg_r; assumption.
Qed.

Lemma step_total_K p op : PairInv p -> 0 < p_S p ->
  0 < p_S (step_total p op) /\
  p_r1 p * p_r2 p * (p_S (step_total p op) * p_S (step_total p op))
    <= p_r1 (step_total p op) * p_r2 (step_total p op) * (p_S p * p_S p).
Proof.
  intros Hinv HS. unfold step_total. destruct (step p op) as [[[p' o] e]|] eqn:E.
  - pose proof (step_S_floor _ _ _ _ _ Hinv HS E) as Hf.
    pose proof (step_spec _ _ _ _ _ E Hinv) as (_ & HK & _).
    split; [unfold MINIMUM_LIQUIDITY in Hf; lia | exact (HK HS)].
  - split; [exact HS | lia].
Qed.

Lemma run_K ops : forall p, PairInv p -> 0 < p_S p ->
  0 < p_S (run p ops) /\
  p_r1 p * p_r2 p * (p_S (run p ops) * p_S (run p ops))
    <= p_r1 (run p ops) * p_r2 (run p ops) * (p_S p * p_S p).
Proof.
  induction ops as [|op t IH]; intros p Hinv HS.
  - unfold run; simpl. split; [exact HS | lia].
  - change (run p (op :: t)) with (run (step_total p op) t).
    destruct (step_total_K p op Hinv HS) as (HS1 & HK1).
    destruct (IH (step_total p op) (step_total_inv p op Hinv) HS1) as (HS2 & HK2).
    split; [exact HS2|].
    eapply cross_trans; [exact HS1 | exact HK1 | exact HK2].
Qed.

(** the LP supply never falls below the permanently locked minimum once the pool has been initialised *)
Lemma run_S_floor ops : forall p, PairInv p -> 0 < p_S p -> MINIMUM_LIQUIDITY <= lp_of (run p ops) SELF.
Proof.
  intros p Hinv HS. destruct (run_K ops p Hinv HS) as (HS' & _).
  exact (proj2 (proj2 (i_pos _ (run_inv ops p Hinv) HS'))).
Qed.

(** value of a share: what [l] LP units redeem for, compared across a whole history, in the product form the
    property uses — (l*r1/S)*(l*r2/S) is bounded below through K/S^2; here the un-floored statement *)
Lemma run_share_value ops p l : PairInv p -> 0 < p_S p -> 0 <= l ->
  (l * l) * (p_r1 p * p_r2 p) * (p_S (run p ops) * p_S (run p ops))
    <= (l * l) * (p_r1 (run p ops) * p_r2 (run p ops)) * (p_S p * p_S p).
Proof.
  intros Hinv HS Hl. destruct (run_K ops p Hinv HS) as (_ & HK).
  assert (0 <= l * l) by nia.
  replace (l * l * (p_r1 p * p_r2 p) * (p_S (run p ops) * p_S (run p ops)))
    with (l * l * (p_r1 p * p_r2 p * (p_S (run p ops) * p_S (run p ops)))) by ring.
  replace (l * l * (p_r1 (run p ops) * p_r2 (run p ops)) * (p_S p * p_S p))
    with (l * l * (p_r1 (run p ops) * p_r2 (run p ops) * (p_S p * p_S p))) by ring.
  apply Z.mul_le_mono_nonneg_l; assumption.
Qed.
