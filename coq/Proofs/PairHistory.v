(** K / S^2 along WHOLE histories of the pair (every operation kind, failed calls included): the per-step
    statement of Proofs/PairInv.v ([step_spec]) composed over [run] with the LP-supply floor of
    Proofs/PairChar.v ([step_S_floor]), which is what makes the cross-multiplied order transitive. *)
From MX Require Import Base.Prelude Gen.Params Model.Pair Proofs.PairInv Proofs.PairChar.

Lemma cross_trans k0 k1 k2 s0 s1 s2 :
  0 < s1 -> k0 * (s1 * s1) <= k1 * (s0 * s0) -> k1 * (s2 * s2) <= k2 * (s1 * s1) ->
  k0 * (s2 * s2) <= k2 * (s0 * s0).
Proof.
  intros H1 A B.
  assert (P1 : 0 < s1 * s1) by nia.
  assert (Q0 : 0 <= s0 * s0) by nia.
  assert (Q2 : 0 <= s2 * s2) by nia.
  apply Z.mul_le_mono_pos_r with (p := s1 * s1); [exact P1|].
  apply Z.le_trans with (m := k1 * (s0 * s0) * (s2 * s2)).
  - replace (k0 * (s2 * s2) * (s1 * s1)) with (k0 * (s1 * s1) * (s2 * s2)) by ring.
    apply Z.mul_le_mono_nonneg_r; assumption.
  - replace (k1 * (s0 * s0) * (s2 * s2)) with (k1 * (s2 * s2) * (s0 * s0)) by ring.
    replace (k2 * (s0 * s0) * (s1 * s1)) with (k2 * (s1 * s1) * (s0 * s0)) by ring.
    apply Z.mul_le_mono_nonneg_r; assumption.
Qed.

Lemma step_total_K p op : PairInv p -> 0 < p_S p ->
  0 < p_S (step_total p op) /\
  p_r1 p * p_r2 p * (p_S (step_total p op) * p_S (step_total p op))
    <= p_r1 (step_total p op) * p_r2 (step_total p op) * (p_S p * p_S p).
Proof.
  intros Hinv HS. unfold step_total. destruct (step p op) as [[[p' o] e]|] eqn:E.
  - pose proof (step_S_floor _ _ _ _ _ Hinv HS E) as Hf.
    pose proof (step_spec _ _ _ _ _ E Hinv) as (_ & HK & _).
    split; [unfold MINIMUM_LIQUIDITY in Hf; lia | exact (HK HS)].
  - split; [exact HS | lia].
Qed.

Lemma run_K ops : forall p, PairInv p -> 0 < p_S p ->
  0 < p_S (run p ops) /\
  p_r1 p * p_r2 p * (p_S (run p ops) * p_S (run p ops))
    <= p_r1 (run p ops) * p_r2 (run p ops) * (p_S p * p_S p).
Proof.
  induction ops as [|op t IH]; intros p Hinv HS.
  - unfold run; simpl. split; [exact HS | lia].
  - change (run p (op :: t)) with (run (step_total p op) t).
    destruct (step_total_K p op Hinv HS) as (HS1 & HK1).
    destruct (IH (step_total p op) (step_total_inv p op Hinv) HS1) as (HS2 & HK2).
    split; [exact HS2|].
    eapply cross_trans; [exact HS1 | exact HK1 | exact HK2].
Qed.

(** the LP supply never falls below the permanently locked minimum once the pool has been initialised *)
Lemma run_S_floor ops : forall p, PairInv p -> 0 < p_S p -> MINIMUM_LIQUIDITY <= lp_of (run p ops) SELF.
Proof.
  intros p Hinv HS. destruct (run_K ops p Hinv HS) as (HS' & _).
  exact (proj2 (proj2 (i_pos _ (run_inv ops p Hinv) HS'))).
Qed.

(** value of a share: what [l] LP units redeem for, compared across a whole history, in the product form the
    property uses — (l*r1/S)*(l*r2/S) is bounded below through K/S^2; here the un-floored statement *)
Lemma run_share_value ops p l : PairInv p -> 0 < p_S p -> 0 <= l ->
  (l * l) * (p_r1 p * p_r2 p) * (p_S (run p ops) * p_S (run p ops))
    <= (l * l) * (p_r1 (run p ops) * p_r2 (run p ops)) * (p_S p * p_S p).
Proof.
  intros Hinv HS Hl. destruct (run_K ops p Hinv HS) as (_ & HK).
  assert (0 <= l * l) by nia.
  replace (l * l * (p_r1 p * p_r2 p) * (p_S (run p ops) * p_S (run p ops)))
    with (l * l * (p_r1 p * p_r2 p * (p_S (run p ops) * p_S (run p ops)))) by ring.
  replace (l * l * (p_r1 (run p ops) * p_r2 (run p ops)) * (p_S p * p_S p))
    with (l * l * (p_r1 (run p ops) * p_r2 (run p ops) * (p_S p * p_S p))) by ring.
  apply Z.mul_le_mono_nonneg_l; assumption.
Qed.

(** ------------------------------------------------------------------ the two-pair world
    [w_p] is the pair under test, [w_q] the trusted pair that receives its fee slices as no-fee swaps
    ([apply_ext]).  Both keep K / S^2 monotone over every history of the world. *)
Definition KS_le (p p' : pair) : Prop :=
  0 < p_S p' /\ p_r1 p * p_r2 p * (p_S p' * p_S p') <= p_r1 p' * p_r2 p' * (p_S p * p_S p).

Lemma KS_le_refl p : 0 < p_S p -> KS_le p p.
Proof. intros H. split; [exact H | lia]. Qed.

Lemma KS_le_trans p q r : 0 < p_S p -> KS_le p q -> KS_le q r -> KS_le p r.
Proof.
  intros _ [S1 K1] [S2 K2]. split; [exact S2|].
  eapply cross_trans; [exact S1 | exact K1 | exact K2].
Qed.

Lemma apply_ext_K l : forall q q', apply_ext q l = Ok q' -> PairInv q -> 0 < p_S q -> KS_le q q'.
Proof.
  induction l as [|[[t a] r] tl IH]; intros q q' H Hq HS; simpl in H.
  - inversion H; subst. apply KS_le_refl; exact HS.
  - apply bind_ok in H. destruct H as ([[q1 o1] e1] & Hs & H).
    apply ep_swap_no_fee_spec in Hs; auto.
    destruct Hs as (I1 & K1 & _ & [LS _] & _).
    assert (HS1 : 0 < p_S q1) by (rewrite LS; exact HS).
    apply KS_le_trans with (q := q1); [exact HS | | eapply IH; eauto].
    split; [exact HS1 | exact (K1 HS)].
Qed.

Lemma wstep_total_K w op : WorldInv w -> 0 < p_S (w_p w) -> 0 < p_S (w_q w) ->
  KS_le (w_p w) (w_p (wstep_total w op)) /\ KS_le (w_q w) (w_q (wstep_total w op)).
Proof.
  intros [Hp Hq] HSp HSq. unfold wstep_total. destruct (wstep w op) as [[[w' o] e]|] eqn:E.
  - unfold wstep in E.
    apply bind_ok in E. destruct E as ([[p' o1] e1] & Hs & E).
    apply bind_ok in E. destruct E as (q' & Hx & E). inversion E; subst; clear E. simpl.
    split.
    + pose proof (step_S_floor _ _ _ _ _ Hp HSp Hs) as Hf.
      pose proof (step_spec _ _ _ _ _ Hs Hp) as (_ & HK & _).
      split; [unfold MINIMUM_LIQUIDITY in Hf; lia | exact (HK HSp)].
    + eapply apply_ext_K; eauto.
  - split; apply KS_le_refl; assumption.
Qed.

Lemma wrun_K ops : forall w, WorldInv w -> 0 < p_S (w_p w) -> 0 < p_S (w_q w) ->
  KS_le (w_p w) (w_p (wrun w ops)) /\ KS_le (w_q w) (w_q (wrun w ops)).
Proof.
  induction ops as [|op t IH]; intros w Hw HSp HSq.
  - unfold wrun; simpl. split; apply KS_le_refl; assumption.
  - change (wrun w (op :: t)) with (wrun (wstep_total w op) t).
    destruct (wstep_total_K w op Hw HSp HSq) as (Kp & Kq).
    assert (Hw1 : WorldInv (wstep_total w op)).
    { unfold wstep_total. destruct (wstep w op) as [[[w' o] e]|] eqn:E; [|exact Hw].
      apply wstep_inv in E; tauto. }
    destruct (IH _ Hw1 (proj1 Kp) (proj1 Kq)) as (Kp2 & Kq2).
    split; [eapply KS_le_trans with (q := w_p (wstep_total w op)) | eapply KS_le_trans with (q := w_q (wstep_total w op))];
      eauto.
Qed.

(** ------------------------------------------------------------------ C01 over histories: the excess of real
    balances over booked reserves (rounding dust, donations) never shrinks over ANY history. *)
Lemma run_excess ops : forall p, PairInv p ->
  p_bal1 p - p_r1 p <= p_bal1 (run p ops) - p_r1 (run p ops) /\
  p_bal2 p - p_r2 p <= p_bal2 (run p ops) - p_r2 (run p ops).
Proof.
  induction ops as [|op t IH]; intros p Hinv.
  - unfold run; simpl. lia.
  - change (run p (op :: t)) with (run (step_total p op) t).
    destruct (IH _ (step_total_inv p op Hinv)) as (A1 & A2).
    assert (B : p_bal1 p - p_r1 p <= p_bal1 (step_total p op) - p_r1 (step_total p op) /\
                p_bal2 p - p_r2 p <= p_bal2 (step_total p op) - p_r2 (step_total p op)).
    { unfold step_total. destruct (step p op) as [[[p' o] e]|] eqn:E; [|lia].
      pose proof (step_spec _ _ _ _ _ E Hinv) as (_ & _ & X). unfold ExMono, ex1, ex2 in X. lia. }
    lia.
Qed.

(** ------------------------------------------------------------------ no round-trip profit, any operation mix:
    a history that brings the LP supply back to where it started (swaps by anyone, liquidity added and later
    removed, donations, fee hand-offs, failed calls) cannot leave the pool with no more of either token and
    strictly less of one — generalises [swaps_no_profit] from swap-only histories. *)
Lemma run_same_S_no_profit ops p : PairInv p -> 0 < p_S p -> p_S (run p ops) = p_S p ->
  ~ (p_r1 (run p ops) <= p_r1 p /\ p_r2 (run p ops) <= p_r2 p /\
     (p_r1 (run p ops) < p_r1 p \/ p_r2 (run p ops) < p_r2 p)).
Proof.
  intros Hinv HS ES (L1 & L2 & L3).
  destruct (run_K ops p Hinv HS) as (HS' & HK). rewrite ES in HK.
  destruct (i_pos _ (run_inv ops p Hinv) HS') as (P1 & P2 & _).
  destruct (i_pos _ Hinv HS) as (Q1 & Q2 & _).
  assert (SS : 0 < p_S p * p_S p) by nia.
  assert (K : p_r1 p * p_r2 p <= p_r1 (run p ops) * p_r2 (run p ops)).
  { apply Z.mul_le_mono_pos_r with (p := p_S p * p_S p); assumption. }
  destruct L3 as [L3|L3]; nia.
Qed.

(** ------------------------------------------------------------------ C04 over histories: once initialised, the pool
    can never be emptied — after ANY history the supply is at least the locked floor, both reserves are positive and
    the pair itself still holds the floor. *)
Lemma aget_le_asum : forall l a, NoDup (akeys l) -> all_nonneg l -> aget l a <= asum l.
Proof.
  induction l as [|[k v] t IH]; intros a ND NN; simpl; [lia|].
  inversion ND; subst. inversion NN; subst. simpl in *.
  destruct (k =? a).
  - assert (0 <= asum t).
    { clear - H4. induction t as [|[k' v'] t' IH']; simpl; [lia|]. inversion H4; subst. simpl in *.
      specialize (IH' H2). lia. }
    lia.
  - specialize (IH a H2 H4). lia.
Qed.

Lemma run_never_emptied ops p : PairInv p -> 0 < p_S p ->
  MINIMUM_LIQUIDITY <= p_S (run p ops) /\ 0 < p_r1 (run p ops) /\ 0 < p_r2 (run p ops) /\
  MINIMUM_LIQUIDITY <= lp_of (run p ops) SELF.
Proof.
  intros Hinv HS. destruct (run_K ops p Hinv HS) as (HS' & _).
  pose proof (run_inv ops p Hinv) as I'.
  destruct (i_pos _ I' HS') as (P1 & P2 & G).
  pose proof (aget_le_asum (p_lp (run p ops)) SELF (i_nd _ I') (i_nn _ I')) as Hge.
  rewrite <- (i_S _ I') in Hge. unfold lp_of in G |- *.
  repeat split; try assumption. lia.
Qed.

Lemma inv_never_emptied p : PairInv p -> 0 < p_S p ->
  MINIMUM_LIQUIDITY <= p_S p /\ 0 < p_r1 p /\ 0 < p_r2 p /\ MINIMUM_LIQUIDITY <= lp_of p SELF.
Proof. intros I HS. exact (run_never_emptied [] p I HS). Qed.

(** both pools of the two-pair world, over every history of the world *)
Lemma wrun_never_emptied ops w : WorldInv w -> 0 < p_S (w_p w) -> 0 < p_S (w_q w) ->
  (MINIMUM_LIQUIDITY <= p_S (w_p (wrun w ops)) /\ 0 < p_r1 (w_p (wrun w ops)) /\ 0 < p_r2 (w_p (wrun w ops)) /\
   MINIMUM_LIQUIDITY <= lp_of (w_p (wrun w ops)) SELF) /\
  (MINIMUM_LIQUIDITY <= p_S (w_q (wrun w ops)) /\ 0 < p_r1 (w_q (wrun w ops)) /\ 0 < p_r2 (w_q (wrun w ops)) /\
   MINIMUM_LIQUIDITY <= lp_of (w_q (wrun w ops)) SELF).
Proof.
  intros Hw HSp HSq. destruct (wrun_K ops w Hw HSp HSq) as ([Sp _] & [Sq _]).
  destruct (wrun_inv ops w Hw) as (Ip & Iq).
  split; apply inv_never_emptied; assumption.
Qed.
