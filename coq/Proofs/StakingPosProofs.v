(** Position-level farm-staking (Model/StakingPos.v): C05 / C06 / C07 for the staking farm.

    Invariant [Inv] of every reachable state:
      - the C12 invariant [StkInv] of the money-flow part (capacity, balance identity, unbond tokens),
      - farm-token supply = sum of all position amounts held by accounts                       (C07)
      - userTotalFarmPosition(u) = sum of held amounts of positions whose original_owner is u   (C07)
      - reserve = accrued - paid                                                                (C05)
      - DSC * (reserve - boosted pools) >= sum over holdings of amount * (rps - rps_entry)      (C05)
    plus the split / merge laws of StakingFarmTokenAttributes (C07), the characterisation of what
    claim / unstake / compound pay and of the attributes of the position they mint (C06), and
    "no legitimate operation fails on a counter" (C05). *)
From MX Require Import Base.Prelude Gen.Params.
From MX Require Import Proofs.FarmInv Proofs.FarmSolv Proofs.FarmOwner.
From MX Require Import Model.Staking Model.StakingPos Proofs.StakingProofs.

(** ------------------------------------------------------------------ attribute algebra (C07) *)
Lemma sinto_part_amt a x p : sinto_part a x = Ok p ->
  sa_amt p = x /\ sa_rps p = sa_rps a /\ sa_owner p = sa_owner a.
Proof.
  unfold sinto_part. destruct (x =? sa_amt a) eqn:E.
  - intros H. inversion H; subst. apply Z.eqb_eq in E. auto.
  - intros H. apply bind_ok in H. destruct H as (c & _ & H). inversion H; subst. simpl. auto.
Qed.

(** splitting: index and owner unchanged, amount = the part, compounded reward = floor(comp * part / amount) *)
Lemma ssplit_spec a x p : 0 < x <= sa_amt a -> 0 <= sa_comp a -> sinto_part a x = Ok p ->
  sa_rps p = sa_rps a /\ sa_amt p = x /\ sa_owner p = sa_owner a /\
  sa_comp p * sa_amt a <= sa_comp a * x < sa_comp p * sa_amt a + sa_amt a.
Proof.
  unfold sinto_part, Farm.rule3. intros Hx Hc H. destruct (x =? sa_amt a) eqn:E.
  - inversion H; subst. apply Z.eqb_eq in E. subst x. repeat split; auto; lia.
  - apply bind_ok in H. destruct H as (c & Hcc & H). inversion H; subst; clear H. simpl.
    apply div_chk_ok in Hcc. destruct Hcc as [_ ->].
    assert (Ha : 0 < sa_amt a) by lia.
    pose proof (div_lo (sa_comp a * x) (sa_amt a) Ha). pose proof (div_hi (sa_comp a * x) (sa_amt a) Ha).
    repeat split; auto; lia.
Qed.

Lemma ssplit_comp_nonneg a x p : 0 < x -> 0 <= sa_amt a -> 0 <= sa_comp a -> sinto_part a x = Ok p -> 0 <= sa_comp p.
Proof.
  unfold sinto_part, Farm.rule3. intros Hx Ha Hc H. destruct (x =? sa_amt a) eqn:E.
  - inversion H; subst. exact Hc.
  - apply bind_ok in H. destruct H as (c & Hcc & H). inversion H; subst; clear H. simpl.
    apply div_chk_ok in Hcc. destruct Hcc as [Hne ->]. apply div_nonneg; [nia | lia].
Qed.

(** two complementary parts never carry more compounded reward than the whole *)
Lemma ssplit_no_gain a x y p q : 0 < x -> 0 < y -> x + y = sa_amt a -> 0 <= sa_comp a ->
  sinto_part a x = Ok p -> sinto_part a y = Ok q ->
  sa_amt p + sa_amt q = sa_amt a /\ sa_comp p + sa_comp q <= sa_comp a.
Proof.
  intros Hx Hy Hxy Hc Hp Hq.
  apply ssplit_spec in Hp; [|lia|assumption]. apply ssplit_spec in Hq; [|lia|assumption].
  destruct Hp as (_ & Pa & _ & P1 & _). destruct Hq as (_ & Qa & _ & Q1 & _).
  split; [lia|]. assert (Ha : 0 < sa_amt a) by lia. nia.
Qed.

(** merging: principal and compounded sums preserved; the merged index is the amount-weighted average
    rounded UP, so for every index level R the merged position is entitled to no more than the parts *)
Lemma smerge_entitlement a b m R : 0 < sa_amt a -> 0 < sa_amt b -> smerge_with a b = Ok m ->
  sa_amt m = sa_amt a + sa_amt b /\ sa_comp m = sa_comp a + sa_comp b /\ sa_owner m = sa_owner a /\
  sa_rps a * sa_amt a + sa_rps b * sa_amt b <= sa_rps m * sa_amt m < sa_rps a * sa_amt a + sa_rps b * sa_amt b + sa_amt m /\
  sa_amt m * (R - sa_rps m) <= sa_amt a * (R - sa_rps a) + sa_amt b * (R - sa_rps b) /\
  (sa_rps a <= R -> sa_rps b <= R -> sa_rps m <= R).
Proof.
  unfold smerge_with. intros Ha Hb H. apply bind_ok in H. destruct H as (r & Hr & H). inversion H; subst; clear H.
  apply ceil_avg_spec in Hr; [|lia]. simpl.
  split; [reflexivity|]. split; [reflexivity|]. split; [reflexivity|]. split; [lia|]. split; [nia|].
  intros H1 H2. destruct (Z_le_gt_dec r R); [assumption|]. exfalso. nia.
Qed.

Lemma smerge_amt a b m : smerge_with a b = Ok m ->
  sa_amt m = sa_amt a + sa_amt b /\ sa_comp m = sa_comp a + sa_comp b /\ sa_owner m = sa_owner a.
Proof.
  unfold smerge_with. intros H. apply bind_ok in H. destruct H as (r & _ & H). inversion H; subst. simpl. auto.
Qed.

Lemma merge_payments_amt ps : forall sp base m, merge_payments sp base ps = Ok m ->
  sa_amt m = sa_amt base + psum (fun _ => 1) ps /\ sa_owner m = sa_owner base.
Proof.
  induction ps as [|[n x] t IH]; intros sp base m H; simpl in H.
  - inversion H; subst. simpl. lia.
  - apply bind_ok in H. destruct H as (a & _ & H).
    apply bind_ok in H. destruct H as (p & Hp & H).
    apply bind_ok in H. destruct H as (mm & Hm & H).
    apply sinto_part_amt in Hp. apply smerge_amt in Hm. apply IH in H. simpl.
    destruct H, Hp as (? & ? & ?), Hm as (? & ? & ?). split; [lia | congruence].
Qed.

Lemma merge_payments_ext ps : forall sp sp' base, p_attrs sp' = p_attrs sp ->
  merge_payments sp' base ps = merge_payments sp base ps.
Proof.
  induction ps as [|[n x] t IH]; intros sp sp' base E; simpl; [reflexivity|].
  unfold get_attrs. rewrite E. destruct (find_sattrs (p_attrs sp) n) as [a|]; simpl; [|reflexivity].
  destruct (sinto_part a x) as [p|]; simpl; [|reflexivity].
  destruct (smerge_with base p) as [m|]; simpl; [|reflexivity]. apply IH. assumption.
Qed.

Definition srps_of (sp : spos) (n : Z) : Z :=
  match find_sattrs (p_attrs sp) n with Some a => sa_rps a | None => 0 end.
Definition sowner_of (sp : spos) (n : Z) : Z :=
  match find_sattrs (p_attrs sp) n with Some a => sa_owner a | None => -1 end.

(** any number of merged payments: un-rounded entitlement never increases, index never above the level *)
Lemma merge_payments_entitlement ps : forall sp base m R,
  merge_payments sp base ps = Ok m -> 0 < sa_amt base -> sa_rps base <= R ->
  Forall (fun p => 0 < snd p /\ exists a, find_sattrs (p_attrs sp) (fst p) = Some a /\ sa_rps a <= R) ps ->
  sa_amt m * (R - sa_rps m) <= sa_amt base * (R - sa_rps base) + psum (fun n => R - srps_of sp n) ps /\
  sa_rps m <= R /\ 0 < sa_amt m.
Proof.
  induction ps as [|[n x] t IH]; intros sp base m R H Hb HR Hall; simpl in H.
  - inversion H; subst. simpl. repeat split; lia.
  - apply bind_ok in H. destruct H as (a & Ha & H).
    apply bind_ok in H. destruct H as (p & Hp & H).
    apply bind_ok in H. destruct H as (mm & Hm & H).
    inversion Hall as [|? ? [Hx (a' & Ha' & Hr')] Hall']; subst. simpl in *.
    unfold get_attrs in Ha. rewrite Ha' in Ha. inversion Ha; subst a'; clear Ha.
    apply sinto_part_amt in Hp. destruct Hp as (Pa & Pr & _).
    assert (Hp0 : 0 < sa_amt p) by lia.
    pose proof (smerge_entitlement base p mm R Hb Hp0 Hm) as (Ma & _ & _ & _ & Me & Mr).
    specialize (Mr HR ltac:(lia)).
    apply IH with (R := R) in H; auto; [|lia].
    destruct H as (E1 & E2 & E3). split; [|split; assumption].
    unfold srps_of at 1. rewrite Ha'. rewrite Pr, Pa in Me. lia.
Qed.

(** the merged index is never below the exact amount-weighted average of the parts *)
Lemma merge_payments_index ps : forall sp base m,
  merge_payments sp base ps = Ok m -> 0 < sa_amt base ->
  Forall (fun p => 0 < snd p /\ exists a, find_sattrs (p_attrs sp) (fst p) = Some a) ps ->
  sa_rps base * sa_amt base + psum (srps_of sp) ps <= sa_rps m * sa_amt m.
Proof.
  induction ps as [|[n x] t IH]; intros sp base m H Hb Hall; simpl in H.
  - inversion H; subst. simpl. lia.
  - apply bind_ok in H. destruct H as (a & Ha & H).
    apply bind_ok in H. destruct H as (p & Hp & H).
    apply bind_ok in H. destruct H as (mm & Hm & H).
    inversion Hall as [|? ? [Hx (a' & Ha')] Hall']; subst. simpl in *.
    unfold get_attrs in Ha. rewrite Ha' in Ha. inversion Ha; subst a'; clear Ha.
    apply sinto_part_amt in Hp. destruct Hp as (Pa & Pr & _).
    assert (Hp0 : 0 < sa_amt p) by lia.
    pose proof (smerge_entitlement base p mm 0 Hb Hp0 Hm) as (Ma & _ & _ & Mi & _).
    apply IH in H; auto; [|lia].
    unfold srps_of at 1. rewrite Ha'. rewrite Pr, Pa in Mi. lia.
Qed.

(** compounded rewards of a merge = compounded of the base + the floor parts of the payments *)
Fixpoint comp_parts (sp : spos) (ps : list (Z * Z)) : Z :=
  match ps with
  | [] => 0
  | (n, x) :: t =>
      match find_sattrs (p_attrs sp) n with
      | Some a => (if x =? sa_amt a then sa_comp a else sa_comp a * x / sa_amt a) + comp_parts sp t
      | None => comp_parts sp t
      end
  end.

Lemma merge_payments_comp ps : forall sp base m, merge_payments sp base ps = Ok m ->
  sa_comp m = sa_comp base + comp_parts sp ps.
Proof.
  induction ps as [|[n x] t IH]; intros sp base m H; simpl in H.
  - inversion H; subst. simpl. lia.
  - apply bind_ok in H. destruct H as (a & Ha & H).
    apply bind_ok in H. destruct H as (p & Hp & H).
    apply bind_ok in H. destruct H as (mm & Hm & H).
    unfold get_attrs in Ha. simpl. destruct (find_sattrs (p_attrs sp) n) as [a'|] eqn:Ef; [|discriminate].
    inversion Ha; subst a'; clear Ha.
    apply smerge_amt in Hm. destruct Hm as (_ & Mc & _). apply IH in H. rewrite H, Mc.
    unfold sinto_part, Farm.rule3 in Hp. destruct (x =? sa_amt a) eqn:E.
    + inversion Hp; subst. lia.
    + apply bind_ok in Hp. destruct Hp as (c & Hc & Hp). inversion Hp; subst; clear Hp. simpl.
      apply div_chk_ok in Hc. destruct Hc as [_ ->]. lia.
Qed.

(** ------------------------------------------------------------------ keys of the token ledger *)
Lemma nonce_hkey n h : valid_id h -> nonce_of (hkey n h) = n.
Proof.
  unfold valid_id, nonce_of, hkey. intros H. rewrite Z.div_add_l by lia. rewrite Z.div_small by lia. lia.
Qed.

Lemma holder_hkey n h : valid_id h -> holder_of (hkey n h) = h.
Proof.
  unfold valid_id, holder_of, hkey. intros H. rewrite Z.add_comm, Z.mod_add by lia. apply Z.mod_small. lia.
Qed.

Lemma hkey_inj n h n' h' : valid_id h -> valid_id h' -> hkey n h = hkey n' h' -> n = n' /\ h = h'.
Proof. unfold valid_id, hkey. intros. lia. Qed.

(** sums over the holdings, weighted by a function of the NONCE of each holding *)
Definition hsum (w : Z -> Z) (l : list (Z * Z)) : Z := wsum (fun k => w (nonce_of k)) l.

Lemma hsum_ext w w' l : (forall k, In k (akeys l) -> w (nonce_of k) = w' (nonce_of k)) -> hsum w l = hsum w' l.
Proof. intros H. unfold hsum. apply wsum_ext. exact H. Qed.

Lemma hsum_one l : hsum (fun _ => 1) l = asum l.
Proof. unfold hsum. symmetry. apply asum_wsum. Qed.

(** ------------------------------------------------------------------ frames *)
(** everything except the position ledger *)
Definition rest_of (sp : spos) := (p_s sp, p_attrs sp, p_ubheld sp, p_utot sp, p_paid sp).

Record ledger_ok (sp : spos) : Prop := {
  lo_nd : NoDup (akeys (p_held sp));
  lo_nn : all_nonneg (p_held sp);
  lo_fresh : forall k, In k (akeys (p_held sp)) -> k < s_next (p_s sp) * 1000
}.

(** what paying positions in does to the ledger *)
Record pay_post (sp sp' : spos) (c : Z) (ps : list (Z * Z)) : Prop := {
  pp_rest : rest_of sp' = rest_of sp;
  pp_sum : forall w, hsum w (p_held sp') = hsum w (p_held sp) - psum w ps;
  pp_led : ledger_ok sp';
  pp_keys : forall k, In k (akeys (p_held sp')) -> In k (akeys (p_held sp));
  pp_pos : Forall (fun p => 0 < snd p /\ In (hkey (fst p) c) (akeys (p_held sp))) ps;
  pp_le : forall k, aget (p_held sp') k <= aget (p_held sp) k
}.

Lemma pay_in_post sp c p sp' : pay_in sp c p = Ok sp' -> ledger_ok sp -> valid_id c -> pay_post sp sp' c [p].
Proof.
  unfold pay_in. destruct p as [n x]. intros H [ND NN FR] Hc.
  destruct (0 <? x) eqn:Ex; [|discriminate]. apply Z.ltb_lt in Ex.
  apply bind_ok in H. destruct H as (b & Hb & H). inversion H; subst sp'; clear H.
  apply sub_chk_ok in Hb. destruct Hb as [Hb ->]. unfold held in *.
  assert (Hin : In (hkey n c) (akeys (p_held sp))) by (apply aget_pos_in; lia).
  constructor; simpl.
  - reflexivity.
  - intros w. unfold hsum. rewrite wsum_aset by assumption. rewrite nonce_hkey by assumption. simpl. lia.
  - constructor; simpl.
    + apply nodup_aset; assumption.
    + apply all_nonneg_aset; [assumption | lia].
    + intros k Hk. apply FR. eapply akeys_aset_sub; eauto.
  - intros k Hk. eapply akeys_aset_sub; eauto.
  - constructor; [simpl; split; [lia | assumption] | constructor].
  - intros k. destruct (Z.eq_dec (hkey n c) k) as [<-|Hne].
    + rewrite aget_aset_same. lia.
    + rewrite aget_aset_other by assumption. lia.
Qed.

Lemma pay_all_post ps : forall sp c sp', pay_all sp c ps = Ok sp' -> ledger_ok sp -> valid_id c -> pay_post sp sp' c ps.
Proof.
  induction ps as [|p t IH]; intros sp c sp' H L Hc; simpl in H.
  - inversion H; subst. constructor; auto; try (intros; simpl; lia); constructor.
  - apply bind_ok in H. destruct H as (sp1 & H1 & H).
    apply pay_in_post in H1; auto. destruct H1 as [r1 s1 l1 k1 pos1 le1].
    assert (N1 : s_next (p_s sp1) = s_next (p_s sp)) by (unfold rest_of in r1; congruence).
    apply IH in H; auto. destruct H as [r2 s2 l2 k2 pos2 le2]. destruct p as [n x].
    constructor.
    + congruence.
    + intros w. rewrite s2, s1. simpl. lia.
    + assumption.
    + auto.
    + constructor.
      * inversion pos1; subst. assumption.
      * eapply Forall_impl; [|exact pos2]. intros [n' x'] [A B]. simpl in *. split; auto.
    + intros k. specialize (le1 k). specialize (le2 k). lia.
Qed.

(** the user-total helpers only touch p_utot *)
Definition but_utot (sp : spos) := (p_s sp, p_attrs sp, p_held sp, p_ubheld sp, p_paid sp).

Lemma set_utot_but sp u v : but_utot (set_utot sp u v) = but_utot sp.
Proof. reflexivity. Qed.

Lemma decrease_user_but sp p sp' : decrease_user sp p = Ok sp' -> but_utot sp' = but_utot sp.
Proof.
  unfold decrease_user. destruct p as [n x]. intros H.
  apply bind_ok in H. destruct H as (a & Ha & H). inversion H; subst.
  destruct (x <? utot sp (sa_owner a)); reflexivity.
Qed.

Lemma check_update_but ps : forall sp u sp', check_update sp u ps = Ok sp' -> but_utot sp' = but_utot sp.
Proof.
  induction ps as [|[n x] t IH]; intros sp u sp' H; simpl in H.
  - inversion H; subst. reflexivity.
  - apply bind_ok in H. destruct H as (a & Ha & H).
    destruct (sa_owner a =? u).
    + eapply IH; eauto.
    + apply bind_ok in H. destruct H as (sp1 & H1 & H).
      apply (decrease_user_but sp (n, x) sp1) in H1. apply IH in H. rewrite H. unfold increase_user. rewrite set_utot_but. exact H1.
Qed.

(** ------------------------------------------------------------------ owner totals through check_and_update *)
Definition sind (sp : spos) (u n : Z) : Z := if sowner_of sp n =? u then 1 else 0.

Lemma sind_ext sp sp' : p_attrs sp' = p_attrs sp -> forall u n, sind sp' u n = sind sp u n.
Proof. intros E u n. unfold sind, sowner_of. rewrite E. reflexivity. Qed.

Lemma sind_nonneg sp u n : 0 <= sind sp u n.
Proof. unfold sind. destruct (_ =? _); lia. Qed.

Lemma psum_sind_nonneg sp u ps : Forall (fun p : Z * Z => 0 < snd p) ps -> 0 <= psum (sind sp u) ps.
Proof.
  induction ps as [|[n x] t IH]; simpl; intros H; [lia|]. inversion H; subst. simpl in *.
  specialize (IH H3). pose proof (sind_nonneg sp u n). nia.
Qed.

Lemma sutot_set_same sp u v : utot (set_utot sp u v) u = v.
Proof. unfold utot, set_utot. simpl. apply aget_aset_same. Qed.
Lemma sutot_set_other sp u v w : u <> w -> utot (set_utot sp u v) w = utot sp w.
Proof. intros H. unfold utot, set_utot. simpl. apply aget_aset_other. exact H. Qed.

(** check_and_update_user_farm_position, with [cr] = what has already been credited to [u]: afterwards every
    paid-in amount is booked on [u]; on the way the saturating decrease never saturates below its argument *)
Lemma check_update_ut ps : forall g u g' (W : Z -> Z) cr,
  check_update g u ps = Ok g' ->
  Forall (fun p : Z * Z => 0 < snd p) ps ->
  (forall v, utot g v = W v + psum (sind g v) ps + (if v =? u then cr else 0)) ->
  (forall v, 0 <= W v) -> 0 <= cr ->
  forall v, utot g' v = W v + (if v =? u then cr + psum (fun _ => 1) ps else 0).
Proof.
  induction ps as [|[n x] t IH]; intros g u g' W cr H Hpos Hut HW Hcr v; simpl in H.
  - inversion H; subst. rewrite Hut. simpl. destruct (v =? u); lia.
  - inversion Hpos as [|? ? Hx Hpos']; subst. simpl in Hx.
    apply bind_ok in H. destruct H as (a & Ha & H).
    assert (Hown : sowner_of g n = sa_owner a).
    { unfold sowner_of. unfold get_attrs in Ha. destruct (find_sattrs (p_attrs g) n); inversion Ha; reflexivity. }
    destruct (sa_owner a =? u) eqn:Eo.
    + apply Z.eqb_eq in Eo.
      apply (IH g u g' W (cr + x)) with (v := v) in H; auto; try lia.
      * rewrite H. simpl. destruct (v =? u); lia.
      * intros w. rewrite Hut. simpl. unfold sind at 1. rewrite Hown.
        destruct (w =? u) eqn:Ew.
        -- apply Z.eqb_eq in Ew. subst w. rewrite Eo, Z.eqb_refl. lia.
        -- rewrite Eo. destruct (u =? w) eqn:Ew'; [apply Z.eqb_eq in Ew'; subst; rewrite Z.eqb_refl in Ew; discriminate | lia].
    + apply Z.eqb_neq in Eo.
      apply bind_ok in H. destruct H as (g1 & H1 & H).
      unfold decrease_user in H1. rewrite Ha in H1. simpl in H1. inversion H1; subst g1; clear H1.
      set (o := sa_owner a) in *.
      assert (Hto : utot g o = W o + x + psum (sind g o) t).
      { rewrite Hut. simpl. unfold sind at 1. rewrite Hown. fold o. rewrite Z.eqb_refl.
        destruct (o =? u) eqn:E; [apply Z.eqb_eq in E; congruence | lia]. }
      assert (Hge : x <= utot g o).
      { pose proof (psum_sind_nonneg g o t Hpos'). specialize (HW o). lia. }
      set (g1 := if x <? utot g o then set_utot g o (utot g o - x) else set_utot g o 0) in *.
      assert (Hg1o : utot g1 o = utot g o - x).
      { unfold g1. destruct (x <? utot g o) eqn:E; rewrite sutot_set_same; [reflexivity|]. apply Z.ltb_ge in E. lia. }
      assert (Hg1w : forall w, w <> o -> utot g1 w = utot g w).
      { intros w Hw. unfold g1. destruct (x <? utot g o); apply sutot_set_other; congruence. }
      assert (Hg1a : p_attrs g1 = p_attrs g) by (unfold g1; destruct (x <? utot g o); reflexivity).
      set (g2 := increase_user g1 u x) in *.
      assert (Hg2a : p_attrs g2 = p_attrs g) by (unfold g2, increase_user, set_utot; simpl; exact Hg1a).
      apply (IH g2 u g' W (cr + x)) with (v := v) in H; auto; try lia.
      * rewrite H. simpl. destruct (v =? u); lia.
      * intros w. rewrite (psum_ext (sind g2 w) (sind g w)) by (intros k; apply sind_ext; exact Hg2a).
        unfold g2, increase_user.
        destruct (Z.eq_dec w u) as [->|Hwu].
        -- rewrite sutot_set_same. rewrite Z.eqb_refl.
           rewrite (Hg1w u) by congruence. rewrite Hut. simpl. rewrite Z.eqb_refl.
           unfold sind at 1. rewrite Hown. fold o.
           destruct (o =? u) eqn:E; [apply Z.eqb_eq in E; congruence | lia].
        -- rewrite sutot_set_other by congruence.
           destruct (w =? u) eqn:E; [apply Z.eqb_eq in E; congruence|].
           destruct (Z.eq_dec w o) as [->|Hwo].
           ++ rewrite Hg1o, Hto. lia.
           ++ rewrite (Hg1w w Hwo). rewrite Hut. simpl. rewrite E.
              unfold sind at 1. rewrite Hown. fold o.
              destruct (o =? w) eqn:E2; [apply Z.eqb_eq in E2; congruence | lia].
Qed.

(** ------------------------------------------------------------------ the money-flow helpers of Model/Staking.v, with full frames *)
(** fields [settle] never touches *)
Definition sframe (s : stk) :=
  (s_supply s, s_virt s, s_rate s, s_produce s, s_apr s, s_cap s, s_minub s, s_pct s, s_factors s, s_dsc s,
   s_state s, s_bal s, s_don s, s_next s, s_ub s, s_ubamt s, s_ubtot s).
(** fields [pay] never touches *)
Definition pframe (s : stk) :=
  (s_supply s, s_virt s, s_rps s, s_last s, s_rate s, s_produce s, s_apr s, s_cap s, s_acc s, s_minub s, s_pct s,
   s_factors s, s_dsc s, s_state s, s_don s, s_next s, s_ub s, s_ubamt s, s_ubtot s).

Lemma settle_full s blk s' : settle s blk = Ok s' -> StkInv s ->
  StkInv s' /\ sframe s' = sframe s /\ s_last s <= s_last s' /\
  exists total cut inc,
    0 <= cut <= total /\ 0 <= inc /\ inc * s_supply s <= (total - cut) * s_dsc s /\
    s_acc s' = s_acc s + total /\ s_reserve s' = s_reserve s + total /\ s_rps s' = s_rps s + inc /\
    s_pool s' = s_pool s + cut.
Proof.
  intros H I. pose proof (settle_spec _ _ _ H I) as (I' & _). split; [exact I'|].
  unfold settle in H. pose proof I as [cap bal ub ubnd ubnn fr fr2 (w1 & w2 & w3 & w4 & w5 & w6 & w7 & w8 & w9)].
  apply bind_ok in H. destruct H as (remaining & Hrem & H). apply sub_chk_ok in Hrem. destruct Hrem as [_ ->].
  destruct (blk <=? s_last s) eqn:E.
  { inversion H; subst. split; [reflexivity|]. split; [lia|]. exists 0, 0, 0. repeat split; lia. }
  apply Z.leb_gt in E. cbv zeta in H.
  pose proof (apr_per_block_nonneg s w5 w3) as Hapr.
  set (unb := if s_produce s then s_rate s * (blk - s_last s) else 0) in *.
  assert (Hunb : 0 <= unb) by (unfold unb; destruct (s_produce s); nia).
  set (aprb := apr_per_block s * (blk - s_last s)) in *.
  assert (Haprb : 0 <= aprb) by (unfold aprb; nia).
  set (total := Z.min (Z.min unb aprb) (s_cap s - s_acc s)) in *.
  assert (T0 : 0 <= total) by (unfold total; lia).
  destruct (total =? 0) eqn:E0.
  { apply Z.eqb_eq in E0. inversion H; subst s'; clear H. simpl.
    split; [reflexivity|]. split; [lia|]. exists 0, 0, 0. repeat split; lia. }
  pose proof (boosted_cut_bounds s total T0 w4) as Hc.
  set (cut := boosted_cut s total) in *. clearbody cut total unb aprb.
  apply bind_ok in H. destruct H as (inc & Hinc & H). inversion H; subst s'; clear H. simpl.
  split; [reflexivity|]. split; [lia|]. exists total, cut, inc.
  assert (Hi : 0 <= inc /\ inc * s_supply s <= (total - cut) * s_dsc s).
  { destruct (s_supply s =? 0) eqn:ES.
    - inversion Hinc; subst. apply Z.eqb_eq in ES. rewrite ES. nia.
    - apply Z.eqb_neq in ES. apply div_chk_ok in Hinc. destruct Hinc as [_ ->].
      assert (0 < s_supply s) by lia.
      split; [apply div_nonneg; nia | apply div_lo; assumption]. }
  repeat split; lia.
Qed.

Lemma pay_full s r b s' : pay s r b = Ok s' -> StkInv s ->
  StkInv s' /\ pframe s' = pframe s /\ 0 <= b <= r /\ r <= s_reserve s /\ b <= s_pool s /\ r <= s_bal s /\
  s_reserve s' = s_reserve s - r /\ s_pool s' = s_pool s - b /\ s_bal s' = s_bal s - r.
Proof.
  intros H I. pose proof (pay_inv _ _ _ _ H I) as I'. split; [exact I'|].
  unfold pay in H. destruct ((0 <=? b) && (b <=? r)) eqn:E; [|discriminate].
  apply andb_prop in E. destruct E as [E1 E2]. apply Z.leb_le in E1, E2.
  apply bind_ok in H. destruct H as (res & Hres & H).
  apply bind_ok in H. destruct H as (pool & Hpool & H).
  apply bind_ok in H. destruct H as (bal & Hbal & H).
  inversion H; subst; clear H. simpl.
  apply sub_chk_ok in Hres, Hpool, Hbal.
  destruct Hres as [? ->]. destruct Hpool as [? ->]. destruct Hbal as [? ->].
  repeat split; try reflexivity; lia.
Qed.

(** supply / virtual principal / balance moved together so that the C12 balance identity is kept *)
Lemma stk_adjust_bal s sup vir bal : StkInv s -> 0 <= sup -> bal - s_bal s = (sup - vir) - (s_supply s - s_virt s) ->
  StkInv (with_bal (with_supply s sup vir) bal).
Proof.
  intros [cap kb ub ubnd ubnn fr fr2 (w1 & w2 & w3 & w4 & w5 & w6 & w7 & w8 & w9)] Hs Hb.
  constructor; simpl; auto; try lia; repeat split; auto; lia.
Qed.

Lemma stk_adjust s sup vir : StkInv s -> 0 <= sup -> sup - vir = s_supply s - s_virt s ->
  StkInv (with_supply s sup vir).
Proof.
  intros [cap kb ub ubnd ubnn fr fr2 (w1 & w2 & w3 & w4 & w5 & w6 & w7 & w8 & w9)] Hs Hb.
  constructor; simpl; auto; try lia; repeat split; auto; lia.
Qed.

Ltac sfr H := unfold sframe in H; injection H; clear H; intros.
Ltac pfr H := unfold pframe in H; injection H; clear H; intros.

(** ------------------------------------------------------------------ the invariant *)
Definition sclaimable (sp : spos) : Z := hsum (fun n => s_rps (p_s sp) - srps_of sp n) (p_held sp).

Record AttrOK (sp : spos) : Prop := {
  ao_has : forall k, In k (akeys (p_held sp)) ->
     exists a, find_sattrs (p_attrs sp) (nonce_of k) = Some a /\ sa_rps a <= s_rps (p_s sp) /\
               (0 < aget (p_held sp) k -> 0 < sa_amt a);
  ao_fresh : forall k a, In (k, a) (p_attrs sp) -> k < s_next (p_s sp)
}.

Record Inv (sp : spos) : Prop := {
  i_stk : StkInv (p_s sp);                                          (* C12: capacity, balance identity, unbond tokens *)
  i_led : ledger_ok sp;
  i_attr : AttrOK sp;
  i_next : 0 < s_next (p_s sp);
  i_sup : asum (p_held sp) = s_supply (p_s sp);                     (* C07: supply = sum of position amounts held *)
  i_acc : s_reserve (p_s sp) = s_acc (p_s sp) - p_paid sp;          (* C05: reserve = accrued - paid *)
  i_solv : sclaimable sp <= s_dsc (p_s sp) * (s_reserve (p_s sp) - s_pool (p_s sp));   (* C05: solvency *)
  i_ut : forall u, utot sp u = hsum (sind sp u) (p_held sp)         (* C07: owner totals *)
}.

(** weights that depend on a nonce only through its attributes *)
Definition wa (f : option sattrs -> Z) (at_ : list (Z * sattrs)) (n : Z) : Z := f (find_sattrs at_ n).

Lemma find_sattrs_app l n a k : k <> n -> find_sattrs (l ++ [(n, a)]) k = find_sattrs l k.
Proof.
  intros Hk. induction l as [|[k' a'] t IH]; simpl.
  - destruct (n =? k) eqn:E; [apply Z.eqb_eq in E; congruence | reflexivity].
  - destruct (k' =? k); [reflexivity | exact IH].
Qed.

Lemma find_sattrs_app_new l n a : (forall k a', In (k, a') l -> k <> n) -> find_sattrs (l ++ [(n, a)]) n = Some a.
Proof.
  intros H. induction l as [|[k' a'] t IH]; simpl.
  - rewrite Z.eqb_refl. reflexivity.
  - destruct (k' =? n) eqn:E.
    + apply Z.eqb_eq in E. exfalso. apply (H k' a'); [left; reflexivity | exact E].
    + apply IH. intros k a'' Hin. apply (H k a''). right. exact Hin.
Qed.

Lemma nonce_lt k nx : 0 < nx -> k < nx * 1000 -> nonce_of k < nx.
Proof. intros Hn Hk. unfold nonce_of. apply Z.div_lt_upper_bound; lia. Qed.

(** nft_create of a position for [dst] *)
Record mint_post (sp sp' : spos) (a : sattrs) (dst n : Z) : Prop := {
  mp_n : n = s_next (p_s sp);
  mp_s : p_s sp' = bump (p_s sp);
  mp_attrs : p_attrs sp' = p_attrs sp ++ [(n, a)];
  mp_held : p_held sp' = aset (p_held sp) (hkey n dst) (sa_amt a);
  mp_others : p_ubheld sp' = p_ubheld sp /\ p_utot sp' = p_utot sp /\ p_paid sp' = p_paid sp;
  mp_new : find_sattrs (p_attrs sp') n = Some a;
  mp_old : forall k, In k (akeys (p_held sp)) -> find_sattrs (p_attrs sp') (nonce_of k) = find_sattrs (p_attrs sp) (nonce_of k);
  mp_sum : forall f, hsum (wa f (p_attrs sp')) (p_held sp') = hsum (wa f (p_attrs sp)) (p_held sp) + sa_amt a * f (Some a);
  mp_asum : asum (p_held sp') = asum (p_held sp) + sa_amt a;
  mp_led : ledger_ok sp';
  mp_zero : aget (p_held sp) (hkey n dst) = 0
}.

Lemma mint_pos_post sp a dst sp' n : mint_pos sp a dst = (sp', n) ->
  ledger_ok sp -> (forall k a', In (k, a') (p_attrs sp) -> k < s_next (p_s sp)) -> 0 < s_next (p_s sp) ->
  0 <= sa_amt a -> valid_id dst -> mint_post sp sp' a dst n.
Proof.
  unfold mint_pos. intros H [ND NN FR] AF Hnx Ha Hd. inversion H; subst sp' n; clear H.
  assert (H0 : aget (p_held sp) (hkey (s_next (p_s sp)) dst) = 0).
  { apply aget_notin. intros Hin. specialize (FR _ Hin). unfold hkey, valid_id in *. lia. }
  assert (Hnew : find_sattrs (p_attrs sp ++ [(s_next (p_s sp), a)]) (s_next (p_s sp)) = Some a).
  { apply find_sattrs_app_new. intros k a' Hin. specialize (AF _ _ Hin). lia. }
  assert (Hold : forall k, In k (akeys (p_held sp)) ->
            find_sattrs (p_attrs sp ++ [(s_next (p_s sp), a)]) (nonce_of k) = find_sattrs (p_attrs sp) (nonce_of k)).
  { intros k Hk. apply find_sattrs_app. specialize (FR _ Hk). pose proof (nonce_lt k _ Hnx FR). lia. }
  unfold held. rewrite H0. simpl.
  constructor; simpl; auto.
  - intros f. unfold hsum. rewrite wsum_aset by assumption. rewrite H0. rewrite nonce_hkey by assumption.
    unfold wa at 2. rewrite Hnew.
    rewrite (wsum_ext (fun k => wa f (p_attrs sp ++ [(s_next (p_s sp), a)]) (nonce_of k)) (fun k => wa f (p_attrs sp) (nonce_of k))); [lia|].
    intros k Hk. unfold wa. rewrite Hold by assumption. reflexivity.
  - rewrite asum_aset by assumption. rewrite H0. lia.
  - constructor; simpl.
    + apply nodup_aset; assumption.
    + apply all_nonneg_aset; assumption.
    + intros k Hk. apply akeys_aset_in in Hk. destruct Hk as [->|Hk]; [unfold hkey, valid_id in *; lia | specialize (FR _ Hk); lia].
Qed.

(** srps_of / sind as attribute weights *)
Definition f_rps (R : Z) (o : option sattrs) : Z := R - match o with Some a => sa_rps a | None => 0 end.
Definition f_own (u : Z) (o : option sattrs) : Z := if (match o with Some a => sa_owner a | None => -1 end) =? u then 1 else 0.

Lemma sclaimable_wa sp : sclaimable sp = hsum (wa (f_rps (s_rps (p_s sp))) (p_attrs sp)) (p_held sp).
Proof. reflexivity. Qed.
Lemma sind_wa sp u : hsum (sind sp u) (p_held sp) = hsum (wa (f_own u) (p_attrs sp)) (p_held sp).
Proof. reflexivity. Qed.

(** moving the index level: the weighted sum moves by inc * total amount *)
Lemma hsum_rps_shift at_ l R inc : hsum (wa (f_rps (R + inc)) at_) l = hsum (wa (f_rps R) at_) l + inc * asum l.
Proof.
  unfold hsum. rewrite (wsum_ext _ (fun k => wa (f_rps R) at_ (nonce_of k) + inc)).
  - rewrite wsum_add, wsum_const. reflexivity.
  - intros k _. unfold wa, f_rps. lia.
Qed.

Lemma psum_rps_shift sp R inc ps :
  psum (fun n => R + inc - srps_of sp n) ps = psum (fun n => R - srps_of sp n) ps + inc * psum (fun _ => 1) ps.
Proof. induction ps as [|[k v] t IH]; simpl; [lia|]. rewrite IH. lia. Qed.

Lemma AttrOK_pays sp c ps R : AttrOK sp -> s_rps (p_s sp) <= R ->
  Forall (fun p : Z * Z => 0 < snd p /\ In (hkey (fst p) c) (akeys (p_held sp))) ps -> valid_id c ->
  Forall (fun p => 0 < snd p /\ exists a, find_sattrs (p_attrs sp) (fst p) = Some a /\ sa_rps a <= R) ps.
Proof.
  intros [has _] HR H Hc. eapply Forall_impl; [|exact H]. intros [n x] [Hx Hin]. simpl in *.
  split; [assumption|]. destruct (has _ Hin) as (a & Ha & Hr & _). rewrite nonce_hkey in Ha by assumption.
  exists a. split; [assumption | lia].
Qed.

Lemma Forall_weaken_attrs at_ R ps :
  Forall (fun p : Z * Z => 0 < snd p /\ exists a, find_sattrs at_ (fst p) = Some a /\ sa_rps a <= R) ps ->
  Forall (fun p : Z * Z => 0 < snd p /\ exists a, find_sattrs at_ (fst p) = Some a) ps.
Proof. intros H. eapply Forall_impl; [|exact H]. intros p [A (a & B & _)]. split; [exact A | exists a; exact B]. Qed.

Lemma Forall_pos ps (P : Z * Z -> Prop) : Forall (fun p : Z * Z => 0 < snd p /\ P p) ps -> Forall (fun p : Z * Z => 0 < snd p) ps.
Proof. intros H. eapply Forall_impl; [|exact H]. intros p [A _]. exact A. Qed.

(** the arithmetic core of solvency, for every endpoint: positions worth [P] (at the old index) are taken
    out, the index moves by [inc] for the [sup] tokens, [base] is paid for an entitlement [E], a position
    entitled to [M] is minted, and E + M is within what was taken out (at the new index) *)
Lemma solv_arith cl dsc res pool sup P p1 inc total cut base b E M cl' :
  cl <= dsc * (res - pool) -> 0 < dsc -> 0 <= inc -> inc * sup <= (total - cut) * dsc ->
  dsc * base <= E -> E + M <= P + inc * p1 ->
  cl' = cl - P + inc * (sup - p1) + M ->
  cl' <= dsc * (res + total - (base + b) - (pool + cut - b)).
Proof. intros. nia. Qed.

(** ------------------------------------------------------------------ invariant preservation *)
Definition SUT (sp : spos) : Prop := forall u, utot sp u = hsum (sind sp u) (p_held sp).

Lemma rest_fields sp sp' : rest_of sp' = rest_of sp ->
  p_s sp' = p_s sp /\ p_attrs sp' = p_attrs sp /\ p_ubheld sp' = p_ubheld sp /\ p_utot sp' = p_utot sp /\ p_paid sp' = p_paid sp.
Proof. unfold rest_of. intros H. injection H; intros. auto. Qed.

Lemma but_fields sp sp' : but_utot sp' = but_utot sp ->
  p_s sp' = p_s sp /\ p_attrs sp' = p_attrs sp /\ p_held sp' = p_held sp /\ p_ubheld sp' = p_ubheld sp /\ p_paid sp' = p_paid sp.
Proof. unfold but_utot. intros H. injection H; intros. auto. Qed.

Lemma hsum_sind_nonneg sp v l : all_nonneg l -> 0 <= hsum (sind sp v) l.
Proof. intros NN. unfold hsum. apply wsum_nonneg; [assumption | intros; apply sind_nonneg]. Qed.

Lemma ut_after_pay sp c ps sp1 : pay_post sp sp1 c ps -> SUT sp ->
  forall v, utot sp1 v = hsum (sind sp1 v) (p_held sp1) + psum (sind sp1 v) ps.
Proof.
  intros [r s l k pos le] U v. apply rest_fields in r. destruct r as (_ & A & _ & Ut & _).
  unfold utot. rewrite Ut. fold (utot sp v). rewrite U.
  rewrite (hsum_ext (sind sp1 v) (sind sp v)) by (intros; apply sind_ext; exact A).
  rewrite s. rewrite (psum_ext (sind sp1 v) (sind sp v)) by (intros; apply sind_ext; exact A). lia.
Qed.

Lemma ut_check_fin sp1 ps h u sp2 g m c g' n fin extra :
  (forall v, utot sp1 v = hsum (sind sp1 v) (p_held sp1) + psum (sind sp1 v) ps) ->
  Forall (fun p : Z * Z => 0 < snd p) ps -> all_nonneg (p_held sp1) ->
  p_attrs h = p_attrs sp1 -> p_utot h = p_utot sp1 ->
  check_update h u ps = Ok sp2 ->
  p_attrs g = p_attrs sp1 -> p_held g = p_held sp1 ->
  sa_owner m = u -> sa_amt m = psum (fun _ => 1) ps + extra ->
  mint_post g g' m c n ->
  p_attrs fin = p_attrs g' -> p_held fin = p_held g' ->
  (forall v, utot fin v = utot sp2 v + (if v =? u then extra else 0)) ->
  SUT fin.
Proof.
  intros U1 Hpos NN Ah Uh Hcu Ag Hg Hmo Hma [mn ms mat mh _ mnew mold msum _ _ _] Af Hf Uf v.
  pose proof (check_update_ut ps h u sp2 (fun v => hsum (sind sp1 v) (p_held sp1)) 0 Hcu Hpos
                ltac:(intros w; unfold utot; rewrite Uh; fold (utot sp1 w); rewrite U1;
                      rewrite (psum_ext (sind h w) (sind sp1 w)) by (intros k; apply sind_ext; exact Ah); destruct (w =? u); lia)
                ltac:(intros w; apply hsum_sind_nonneg; assumption) ltac:(lia)) as U2.
  rewrite Uf, U2.
  rewrite (hsum_ext (sind fin v) (sind g' v)) by (intros; apply sind_ext; exact Af). rewrite Hf.
  rewrite (sind_wa g' v), msum. unfold f_own at 2. rewrite Hmo.
  rewrite <- (sind_wa g v).
  rewrite (hsum_ext (sind g v) (sind sp1 v)) by (intros; apply sind_ext; exact Ag). rewrite Hg.
  rewrite Hma. destruct (u =? v) eqn:E.
  - apply Z.eqb_eq in E. subst v. rewrite Z.eqb_refl. lia.
  - destruct (v =? u) eqn:E2; [apply Z.eqb_eq in E2; subst; rewrite Z.eqb_refl in E; discriminate | lia].
Qed.

Lemma ut_check_mint sp1 ps h u sp2 g m c g' n extra :
  (forall v, utot sp1 v = hsum (sind sp1 v) (p_held sp1) + psum (sind sp1 v) ps) ->
  Forall (fun p : Z * Z => 0 < snd p) ps -> all_nonneg (p_held sp1) ->
  p_attrs h = p_attrs sp1 -> p_utot h = p_utot sp1 ->
  check_update h u ps = Ok sp2 ->
  p_attrs g = p_attrs sp1 -> p_held g = p_held sp1 ->
  (forall v, utot g v = utot sp2 v + (if v =? u then extra else 0)) ->
  sa_owner m = u -> sa_amt m = psum (fun _ => 1) ps + extra ->
  mint_post g g' m c n -> SUT g'.
Proof.
  intros U1 Hpos NN Ah Uh Hcu Ag Hg Ug Hmo Hma Hm.
  apply (ut_check_fin sp1 ps h u sp2 g m c g' n g' extra); auto.
  intros v. destruct Hm as [_ _ _ _ (_ & mu & _) _ _ _ _ _ _]. unfold utot at 1. rewrite mu. apply Ug.
Qed.

Lemma sbase_reward_bound sp a x base : base_reward sp a x = Ok base -> 0 < s_dsc (p_s sp) -> 0 <= x -> sa_rps a <= s_rps (p_s sp) ->
  0 <= base /\ s_dsc (p_s sp) * base <= x * (s_rps (p_s sp) - sa_rps a).
Proof.
  unfold base_reward. intros H Hd Hx Hr. destruct (sa_rps a <? s_rps (p_s sp)) eqn:E.
  - apply div_chk_ok in H. destruct H as [_ ->]. apply Z.ltb_lt in E.
    pose proof (div_lo (x * (s_rps (p_s sp) - sa_rps a)) (s_dsc (p_s sp)) Hd).
    split; [apply div_nonneg; nia | lia].
  - inversion H; subst. apply Z.ltb_ge in E. nia.
Qed.

(** attributes invariant after taking payments out and (possibly) minting *)
Lemma AttrOK_shrink sp g : AttrOK sp ->
  (forall k, In k (akeys (p_held g)) -> In k (akeys (p_held sp))) -> (forall k, aget (p_held g) k <= aget (p_held sp) k) ->
  p_attrs g = p_attrs sp -> s_next (p_s sp) <= s_next (p_s g) -> s_rps (p_s sp) <= s_rps (p_s g) -> AttrOK g.
Proof.
  intros [has fr] K LE A N R. constructor.
  - intros k Hk. destruct (has k (K k Hk)) as (a & Ha & Hr & Hp). exists a. rewrite A.
    split; [assumption|]. split; [lia|]. intros Hpos. apply Hp. specialize (LE k). lia.
  - intros k a Hin. rewrite A in Hin. specialize (fr _ _ Hin). lia.
Qed.

Lemma AttrOK_mint g g' m c n : AttrOK g -> mint_post g g' m c n -> sa_rps m <= s_rps (p_s g) -> valid_id c -> AttrOK g'.
Proof.
  intros [has fr] [mn ms mat mh _ mnew mold _ _ _ mz] Hr Hc. constructor.
  - intros k Hk. rewrite mh in Hk. apply akeys_aset_in in Hk. rewrite ms. simpl.
    destruct (Z.eq_dec k (hkey n c)) as [->|Hne].
    + exists m. rewrite nonce_hkey by assumption. split; [exact mnew|]. split; [lia|].
      rewrite mh, aget_aset_same. auto.
    + destruct Hk as [->|Hk]; [congruence|].
      destruct (has k Hk) as (a & Ha & Hra & Hp). exists a. rewrite mold by assumption.
      split; [assumption|]. split; [assumption|]. rewrite mh, aget_aset_other by congruence. exact Hp.
  - intros k a Hin. rewrite mat in Hin. rewrite ms. simpl. apply in_app_or in Hin. destruct Hin as [Hin|[Hin|[]]].
    + specialize (fr _ _ Hin). lia.
    + inversion Hin; subst. lia.
Qed.

Lemma get_attrs_some sp n a : get_attrs sp n = Ok a -> find_sattrs (p_attrs sp) n = Some a.
Proof. unfold get_attrs. destruct (find_sattrs (p_attrs sp) n); intros H; inversion H; reflexivity. Qed.

Lemma srps_of_some sp n a : find_sattrs (p_attrs sp) n = Some a -> srps_of sp n = sa_rps a.
Proof. unfold srps_of. intros ->. reflexivity. Qed.

Lemma ep_claim_inv sp blk ep c u p newv b sp' o :
  ep_claim sp blk ep c u p newv b = Ok (sp', o) -> Inv sp -> valid_id c -> Inv sp'.
Proof.
  unfold ep_claim. intros H I Hc.
  destruct (match newv with Some _ => whitelisted c | None => auth c u end); [|discriminate].
  destruct (match newv with Some v => 0 <=? v | None => true end) eqn:Env; [|discriminate].
  apply bind_ok in H. destruct H as (sp1 & H1 & H).
  destruct (active (p_s sp1)); [|discriminate].
  apply bind_ok in H. destruct H as (sp2 & H2 & H).
  apply bind_ok in H. destruct H as (a & Ha & H).
  apply bind_ok in H. destruct H as (part & Hpart & H).
  apply bind_ok in H. destruct H as (base & Hbase & H).
  apply bind_ok in H. destruct H as (sp3 & H3 & H).
  apply bind_ok in H. destruct H as (sp4 & H4 & H).
  destruct I as [IS IL IA IN ISup IAcc ISolv IUT].
  pose proof (pay_all_post _ _ _ _ H1 IL Hc) as PP.
  pose proof (ut_after_pay _ _ _ _ PP IUT) as U1.
  destruct PP as [r1 s1 l1 k1 pos1 le1]. apply rest_fields in r1. destruct r1 as (S1 & A1 & UB1 & UT1 & PD1).
  unfold psettle in H2. apply bind_ok in H2. destruct H2 as (s2 & Hs2 & H2). inversion H2; subst sp2; clear H2.
  rewrite S1 in Hs2. destruct (settle_full _ _ _ Hs2 IS) as (IS2 & F2 & L2 & total & cut & inc & Hcut & Hinc & Hinc2 & Ac2 & Re2 & Rp2 & Pl2).
  destruct p as [n0 x0]. cbn [fst snd] in *.
  apply get_attrs_some in Ha. cbn [p_attrs with_s] in Ha. rewrite A1 in Ha.
  inversion pos1 as [|? ? [Hx0 Hin0] _]; subst. cbn [fst snd] in *.
  pose proof IA as [has fr]. destruct (has _ Hin0) as (a' & Ha' & Hra & Hpa). rewrite nonce_hkey in Ha' by assumption.
  assert (a' = a) by congruence. subst a'.
  apply sinto_part_amt in Hpart. destruct Hpart as (Pa & Pr & Po).
  pose proof (k_wf _ IS) as (Hd & _).
  sfr F2.
  apply sbase_reward_bound in Hbase; cbn [p_s with_s] in *; [|lia|lia|lia]. destruct Hbase as [Hb0 Hbb].
  unfold ppay in H3. apply bind_ok in H3. destruct H3 as (s3 & Hs3 & H3). inversion H3; subst sp3; clear H3. cbn [p_s with_s] in Hs3.
  destruct (pay_full _ _ _ _ Hs3 IS2) as (IS3 & F3 & Hb & Hr & Hbp & Hrb & Re3 & Pl3 & Bl3).
  pfr F3.
  pose proof (check_update_but _ _ _ _ H4) as B4. apply but_fields in B4. cbn in B4. destruct B4 as (S4 & A4 & HD4 & UB4 & PD4).
  assert (L4 : ledger_ok sp4).
  { destruct l1 as [nd nn fr1]. constructor; rewrite ?HD4; auto. intros k Hk. specialize (fr1 k Hk). rewrite S1 in fr1. rewrite S4. lia. }
  assert (AO4 : AttrOK sp4).
  { apply (AttrOK_shrink sp sp4 IA); rewrite ?HD4, ?S4; auto; try congruence; lia. }
  assert (AF4 : forall k a', In (k, a') (p_attrs sp4) -> k < s_next (p_s sp4)) by (destruct AO4; assumption).
  assert (N4 : 0 < s_next (p_s sp4)) by (rewrite S4; lia).
  assert (E1 := s1 (fun _ => 1)). rewrite !hsum_one in E1. cbn [psum] in E1.
  assert (Hrn0 : srps_of sp n0 = sa_rps a) by (apply srps_of_some; exact Ha).
  destruct newv as [v|].
  2:{ cbn [sa_amt sa_rps sa_comp sa_owner] in H.
      destruct (mint_pos sp4 _ c) as [sp5 n] eqn:Hm. inversion H; subst sp' o; clear H.
      apply mint_pos_post in Hm; auto; [|cbn; lia].
      pose proof (AttrOK_mint _ _ _ _ _ AO4 Hm ltac:(cbn; lia) Hc) as AO5.
      lazymatch type of H4 with check_update ?h _ _ = _ => lazymatch type of Hm with mint_post _ _ ?m _ _ =>
        pose proof (ut_check_mint sp1 [(n0, x0)] h u sp4 sp4 m c sp5 n 0 U1 ltac:(constructor; [cbn; lia | constructor]) (lo_nn _ l1)
                    eq_refl eq_refl H4 A4 HD4 ltac:(intros w; destruct (w =? u); lia) eq_refl ltac:(cbn; lia) Hm) as U5 end end.
      destruct Hm as [mn ms mat mh (mub & mut & mpd) mnew mold msum masum mled mz].
      constructor.
      - rewrite ms. apply inv_bump. rewrite S4. exact IS3.
      - exact mled.
      - exact AO5.
      - rewrite ms. cbn. lia.
      - rewrite masum, ms, HD4, S4. cbn. lia.
      - rewrite ms, mpd, PD4, S4. cbn. lia.
      - rewrite sclaimable_wa, ms, msum. cbn [bump s_rps s_dsc s_reserve s_pool u_tok sa_amt]. rewrite S4, A4, HD4, A1.
        unfold f_rps at 2. cbn [sa_rps].
        replace (s_rps s3) with (s_rps (p_s sp) + inc) by lia.
        rewrite hsum_rps_shift, s1, E1. rewrite <- sclaimable_wa. cbn [psum]. unfold wa at 1, f_rps at 1. rewrite Ha.
        assert (HE : s_dsc (p_s sp) * base <= x0 * (s_rps (p_s sp) + inc - sa_rps a)).
        { rewrite Pr in Hbb. replace (s_dsc (p_s sp)) with (s_dsc s2) by lia. replace (s_rps (p_s sp) + inc) with (s_rps s2) by lia. exact Hbb. }
        pose proof (solv_arith (sclaimable sp) (s_dsc (p_s sp)) (s_reserve (p_s sp)) (s_pool (p_s sp)) (s_supply (p_s sp))
                  (x0 * (s_rps (p_s sp) - sa_rps a)) x0 inc total cut base b (x0 * (s_rps (p_s sp) + inc - sa_rps a)) 0 _
                  ISolv Hd Hinc Hinc2 HE ltac:(lia) eq_refl) as SA.
        replace (s_dsc s3) with (s_dsc (p_s sp)) by lia.
        replace (s_reserve s3) with (s_reserve (p_s sp) + total - (base + b)) by lia.
        replace (s_pool s3) with (s_pool (p_s sp) + cut - b) by lia.
        rewrite ISup, Pa. lia.
      - exact U5. }
  cbn [sa_amt sa_rps sa_comp sa_owner] in H.
  apply bind_ok in H. destruct H as (sup & Hsup & H). apply bind_ok in H. destruct H as (ut & Hut & H).
  apply sub_chk_ok in Hsup, Hut. destruct Hsup as [Hsup ->]. destruct Hut as [Hut ->].
  apply Z.leb_le in Env. rewrite S4 in Hsup.
  match type of H with (let '(_, _) := mint_pos ?g0 _ _ in _) = _ => set (g := g0) in * end.
  destruct (mint_pos g _ c) as [sp6 n] eqn:Hm. inversion H; subst sp' o; clear H.
  assert (Lg : ledger_ok g).
  { destruct L4 as [nd nn fr4]. constructor; auto. }
  assert (AOg : AttrOK g).
  { destruct AO4 as [has4 fr4]. constructor; auto. }
  apply mint_pos_post in Hm; auto; try (destruct AOg; assumption); try (unfold g; cbn; rewrite ?S4; lia).
  pose proof (AttrOK_mint _ _ _ _ _ AOg Hm ltac:(cbn; lia) Hc) as AO6.
  assert (Ug : forall w, utot g w = utot sp4 w + (if w =? u then v - x0 else 0)).
  { intros w. unfold g. destruct (Z.eq_dec w u) as [->|Hw].
    - rewrite sutot_set_same, Z.eqb_refl. lia.
    - rewrite sutot_set_other by congruence. unfold utot. cbn. destruct (w =? u) eqn:E; [apply Z.eqb_eq in E; congruence | lia]. }
  lazymatch type of H4 with check_update ?h _ _ = _ => lazymatch type of Hm with mint_post _ _ ?m _ _ =>
    pose proof (ut_check_mint sp1 [(n0, x0)] h u sp4 g m c sp6 n (v - x0) U1 ltac:(constructor; [cbn; lia | constructor]) (lo_nn _ l1)
                    eq_refl eq_refl H4 A4 HD4 Ug eq_refl ltac:(cbn; lia) Hm) as U6 end end.
  destruct Hm as [mn ms mat mh (mub & mut & mpd) mnew mold msum masum mled mz].
  constructor.
  - rewrite ms. apply inv_bump. unfold g. cbn [p_s set_utot with_s]. rewrite S4. apply stk_adjust; [exact IS3 | lia | lia].
  - exact mled.
  - exact AO6.
  - rewrite ms. cbn. lia.
  - rewrite masum, ms. cbn. rewrite HD4, S4. lia.
  - rewrite ms, mpd. cbn. rewrite PD4, S4. cbn. lia.
  - rewrite sclaimable_wa, ms, msum. unfold g. cbn [p_s p_attrs p_held set_utot with_s with_supply u_core bump u_tok s_rps s_dsc s_reserve s_pool sa_amt]. rewrite S4, A4, HD4, A1.
    unfold f_rps at 2. cbn [sa_rps].
    replace (s_rps s3) with (s_rps (p_s sp) + inc) by lia.
    rewrite hsum_rps_shift, s1, E1. rewrite <- sclaimable_wa. cbn [psum]. unfold wa at 1, f_rps at 1. rewrite Ha.
    assert (HE : s_dsc (p_s sp) * base <= x0 * (s_rps (p_s sp) + inc - sa_rps a)).
    { rewrite Pr in Hbb. replace (s_dsc (p_s sp)) with (s_dsc s2) by lia. replace (s_rps (p_s sp) + inc) with (s_rps s2) by lia. exact Hbb. }
    pose proof (solv_arith (sclaimable sp) (s_dsc (p_s sp)) (s_reserve (p_s sp)) (s_pool (p_s sp)) (s_supply (p_s sp))
              (x0 * (s_rps (p_s sp) - sa_rps a)) x0 inc total cut base b (x0 * (s_rps (p_s sp) + inc - sa_rps a)) 0 _
              ISolv Hd Hinc Hinc2 HE ltac:(lia) eq_refl) as SA.
    replace (s_dsc s3) with (s_dsc (p_s sp)) by lia.
    replace (s_reserve s3) with (s_reserve (p_s sp) + total - (base + b)) by lia.
    replace (s_pool s3) with (s_pool (p_s sp) + cut - b) by lia.
    rewrite ISup. lia.
  - exact U6.
Qed.

Lemma ep_stake_inv virtual sp blk ep c u amt adds b sp' o :
  ep_stake virtual sp blk ep c u amt adds b = Ok (sp', o) -> Inv sp -> valid_id c -> Inv sp'.
Proof.
  unfold ep_stake. intros H I Hc.
  destruct (if virtual then whitelisted c else auth c u); [|discriminate].
  destruct (0 <? amt) eqn:Ea; [|discriminate]. apply Z.ltb_lt in Ea.
  apply bind_ok in H. destruct H as (sp1 & H1 & H).
  apply bind_ok in H. destruct H as (sp2 & H2 & H).
  destruct (active (p_s sp2)); [|discriminate].
  apply bind_ok in H. destruct H as (sp3 & H3 & H).
  apply bind_ok in H. destruct H as (sp5 & H5 & H). cbv zeta in H.
  apply bind_ok in H. destruct H as (m & Hm & H).
  destruct I as [IS IL IA IN ISup IAcc ISolv IUT].
  pose proof (pay_all_post _ _ _ _ H1 IL Hc) as PP.
  pose proof (ut_after_pay _ _ _ _ PP IUT) as U1.
  destruct PP as [r1 s1 l1 k1 pos1 le1]. apply rest_fields in r1. destruct r1 as (S1 & A1 & UB1 & UT1 & PD1).
  pose proof (k_wf _ IS) as (Hd & _).
  (* boosted payment *)
  unfold ppay in H2. apply bind_ok in H2. destruct H2 as (s2 & Hs2 & H2). inversion H2; subst sp2; clear H2. rewrite S1 in Hs2.
  destruct (pay_full _ _ _ _ Hs2 IS) as (IS2 & F2 & Hb & Hr & Hbp & Hrb & Re2 & Pl2 & Bl2).
  pfr F2.
  pose proof (check_update_but _ _ _ _ H3) as B3. apply but_fields in B3. cbn in B3. destruct B3 as (S3 & A3 & HD3 & UB3 & PD3).
  (* settle *)
  unfold psettle in H5. apply bind_ok in H5. destruct H5 as (s5 & Hs5 & H5). inversion H5; subst sp5; clear H5.
  cbn [p_s increase_user set_utot] in Hs5. rewrite S3 in Hs5.
  destruct (settle_full _ _ _ Hs5 IS2) as (IS5 & F5 & L5 & total & cut & inc & Hcut & Hinc & Hinc2 & Ac5 & Re5 & Rp5 & Pl5).
  sfr F5.
  cbn [p_s with_s increase_user set_utot] in *.
  set (s6 := if virtual then with_supply s5 (s_supply s5 + amt) (s_virt s5 + amt)
             else with_bal (with_supply s5 (s_supply s5 + amt) (s_virt s5)) (s_bal s5 + amt)) in *.
  assert (IS6 : StkInv s6).
  { pose proof (k_wf _ IS5) as (_ & _ & _ & _ & Hs5' & _).
    unfold s6. destruct virtual; [apply stk_adjust | apply stk_adjust_bal]; auto; cbn; lia. }
  assert (F6 : s_rps s6 = s_rps s5 /\ s_dsc s6 = s_dsc s5 /\ s_reserve s6 = s_reserve s5 /\ s_pool s6 = s_pool s5 /\
               s_next s6 = s_next s5 /\ s_acc s6 = s_acc s5 /\ s_supply s6 = s_supply s5 + amt).
  { unfold s6. destruct virtual; cbn; repeat split; reflexivity. }
  destruct F6 as (R6 & D6 & Re6 & Pl6 & N6 & Ac6 & Su6).
  match type of Hm with merge_payments ?g0 _ _ = _ => set (g := g0) in * end.
  destruct (mint_pos g m c) as [sp7 n] eqn:Hmint. inversion H; subst sp' o; clear H.
  assert (Ag : p_attrs g = p_attrs sp) by (unfold g; cbn; congruence).
  assert (Hg : p_held g = p_held sp1) by (unfold g; cbn; congruence).
  assert (Sg : p_s g = s6) by reflexivity.
  assert (Lg : ledger_ok g).
  { destruct l1 as [nd nn fr1]. constructor; rewrite ?Hg; auto. intros k Hk. specialize (fr1 k Hk). rewrite S1 in fr1. rewrite Sg. lia. }
  assert (AOg : AttrOK g).
  { apply (AttrOK_shrink sp g IA); rewrite ?Hg, ?Sg; auto; lia. }
  (* merged attributes *)
  pose proof (AttrOK_pays sp c adds (s_rps s6) IA ltac:(lia) pos1 Hc) as Hall.
  rewrite <- Ag in Hall.
  pose proof (merge_payments_amt _ _ _ _ Hm) as [Mamt Mown]. cbn [sa_amt sa_owner] in Mamt, Mown.
  pose proof (merge_payments_entitlement _ _ _ _ (s_rps s6) Hm ltac:(cbn; lia) ltac:(cbn; lia) Hall) as (Ment & Mrps & Mpos).
  cbn [sa_amt sa_rps] in Ment.
  apply mint_pos_post in Hmint; auto; try (destruct AOg; assumption); try (rewrite Sg; lia); try lia.
  pose proof (AttrOK_mint _ _ _ _ _ AOg Hmint ltac:(rewrite Sg; lia) Hc) as AO7.
  assert (Hposs : Forall (fun p : Z * Z => 0 < snd p) adds) by (eapply Forall_pos; exact pos1).
  assert (U7 : SUT sp7).
  { lazymatch type of H3 with check_update ?h _ _ = _ =>
      apply (ut_check_mint sp1 adds h u sp3 g m c sp7 n amt U1 Hposs (lo_nn _ l1)) end; auto; try (cbn; congruence); try lia.
    intros w. unfold g, increase_user, utot. cbn.
    destruct (Z.eq_dec w u) as [->|Hw].
    - rewrite aget_aset_same, Z.eqb_refl. reflexivity.
    - rewrite aget_aset_other by congruence. destruct (w =? u) eqn:E; [apply Z.eqb_eq in E; congruence | lia]. }
  assert (E1 := s1 (fun _ => 1)). rewrite !hsum_one in E1.
  assert (Hp1 : 0 <= psum (fun _ => 1) adds) by (apply psum1_nonneg; exact Hposs).
  destruct Hmint as [mn ms mat mh (mub & mut & mpd) mnew mold msum masum mled mz].
  constructor.
  - rewrite ms, Sg. apply inv_bump. exact IS6.
  - exact mled.
  - exact AO7.
  - rewrite ms, Sg. cbn. lia.
  - rewrite masum, ms, Hg, Sg. cbn. lia.
  - rewrite ms, mpd, Sg. unfold g. cbn. lia.
  - rewrite sclaimable_wa, ms, msum, Sg. cbn [bump s_rps s_dsc s_reserve s_pool u_tok]. rewrite Ag, Hg.
    unfold f_rps at 2.
    replace (s_rps s6) with (s_rps (p_s sp) + inc) by lia.
    rewrite hsum_rps_shift, s1, E1. rewrite <- sclaimable_wa.
    replace (psum (wa (f_rps (s_rps (p_s sp))) (p_attrs sp)) adds) with (psum (fun n => s_rps (p_s sp) - srps_of sp n) adds) by reflexivity.
    assert (HM : 0 + sa_amt m * (s_rps (p_s sp) + inc - sa_rps m) <=
                 psum (fun n => s_rps (p_s sp) - srps_of sp n) adds + inc * psum (fun _ => 1) adds).
    { rewrite <- psum_rps_shift. replace (s_rps (p_s sp) + inc) with (s_rps s6) by lia.
      rewrite (psum_ext (fun n0 => s_rps s6 - srps_of sp n0) (fun n0 => s_rps s6 - srps_of g n0)).
      - replace (s_rps s6 - s_rps s6) with 0 in Ment by lia. lia.
      - intros k. unfold srps_of. rewrite Ag. reflexivity. }
    pose proof (solv_arith (sclaimable sp) (s_dsc (p_s sp)) (s_reserve (p_s sp)) (s_pool (p_s sp)) (s_supply (p_s sp))
              (psum (fun n => s_rps (p_s sp) - srps_of sp n) adds) (psum (fun _ => 1) adds) inc total cut 0 b 0
              (sa_amt m * (s_rps (p_s sp) + inc - sa_rps m)) _
              ISolv Hd Hinc ltac:(replace (s_supply (p_s sp)) with (s_supply s2) by lia; replace (s_dsc (p_s sp)) with (s_dsc s2) by lia; exact Hinc2)
              ltac:(lia) HM eq_refl) as SA.
    replace (s_dsc s6) with (s_dsc (p_s sp)) by lia.
    replace (s_reserve s6) with (s_reserve (p_s sp) + total - (0 + b)) by lia.
    replace (s_pool s6) with (s_pool (p_s sp) + cut - b) by lia.
    rewrite ISup. lia.
  - exact U7.
Qed.

Lemma ep_compound_inv sp blk ep c first adds b sp' o :
  ep_compound sp blk ep c first adds b = Ok (sp', o) -> Inv sp -> valid_id c -> Inv sp'.
Proof.
  unfold ep_compound. intros H I Hc.
  apply bind_ok in H. destruct H as (sp1 & H1 & H).
  destruct (active (p_s sp1)); [|discriminate].
  apply bind_ok in H. destruct H as (sp2 & H2 & H).
  apply bind_ok in H. destruct H as (a & Ha & H).
  apply bind_ok in H. destruct H as (part & Hpart & H).
  apply bind_ok in H. destruct H as (base & Hbase & H). cbv zeta in H.
  apply bind_ok in H. destruct H as (sp3 & H3 & H).
  apply bind_ok in H. destruct H as (sp4 & H4 & H).
  apply bind_ok in H. destruct H as (m & Hm & H).
  destruct I as [IS IL IA IN ISup IAcc ISolv IUT].
  pose proof (pay_all_post _ _ _ _ H1 IL Hc) as PP.
  pose proof (ut_after_pay _ _ _ _ PP IUT) as U1.
  destruct PP as [r1 s1 l1 k1 pos1 le1]. apply rest_fields in r1. destruct r1 as (S1 & A1 & UB1 & UT1 & PD1).
  unfold psettle in H2. apply bind_ok in H2. destruct H2 as (s2 & Hs2 & H2). inversion H2; subst sp2; clear H2.
  rewrite S1 in Hs2. destruct (settle_full _ _ _ Hs2 IS) as (IS2 & F2 & L2 & total & cut & inc & Hcut & Hinc & Hinc2 & Ac2 & Re2 & Rp2 & Pl2).
  destruct first as [n0 x0]. cbn [fst snd] in *.
  apply get_attrs_some in Ha. cbn [p_attrs with_s] in Ha. rewrite A1 in Ha.
  inversion pos1 as [|? ? [Hx0 Hin0] pos1']; subst. cbn [fst snd] in *.
  pose proof IA as [has fr]. destruct (has _ Hin0) as (a' & Ha' & Hra & Hpa). rewrite nonce_hkey in Ha' by assumption.
  assert (a' = a) by congruence. subst a'.
  apply sinto_part_amt in Hpart. destruct Hpart as (Pa & Pr & Po).
  pose proof (k_wf _ IS) as (Hd & _).
  sfr F2.
  apply sbase_reward_bound in Hbase; cbn [p_s with_s] in *; [|lia|lia|lia]. destruct Hbase as [Hb0 Hbb].
  unfold ppay in H3. apply bind_ok in H3. destruct H3 as (s3 & Hs3 & H3). inversion H3; subst sp3; clear H3. cbn [p_s with_s] in Hs3.
  destruct (pay_full _ _ _ _ Hs3 IS2) as (IS3 & F3 & Hb & Hr & Hbp & Hrb & Re3 & Pl3 & Bl3).
  pfr F3.
  set (r := base + b) in *.
  cbn [p_s with_s with_paid] in *.
  set (s3' := with_bal (with_supply s3 (s_supply s3 + r) (s_virt s3)) (s_bal s3 + r)) in *.
  assert (IS3' : StkInv s3').
  { pose proof (k_wf _ IS3) as (_ & _ & _ & _ & Hs3' & _). apply stk_adjust_bal; auto; lia. }
  pose proof (check_update_but _ _ _ _ H4) as B4. apply but_fields in B4. cbn in B4. destruct B4 as (S4 & A4 & HD4 & UB4 & PD4).
  destruct (mint_pos sp4 m c) as [sp5 n] eqn:Hmint. inversion H; subst sp' o; clear H.
  assert (L4 : ledger_ok sp4).
  { destruct l1 as [nd nn fr1]. constructor; rewrite ?HD4; auto. intros k Hk. specialize (fr1 k Hk). rewrite S1 in fr1. rewrite S4. cbn. lia. }
  assert (AO4 : AttrOK sp4).
  { apply (AttrOK_shrink sp sp4 IA); rewrite ?HD4, ?S4; auto; try congruence; cbn; lia. }
  assert (Aeq : p_attrs sp4 = p_attrs sp) by congruence.
  pose proof (AttrOK_pays sp c adds (s_rps s3) IA ltac:(lia) pos1' Hc) as Hall.
  rewrite <- Aeq in Hall. rewrite S4 in Hm. cbn [s_rps s3' with_bal with_supply u_money u_core] in Hm.
  pose proof (merge_payments_amt _ _ _ _ Hm) as [Mamt Mown]. cbn [sa_amt sa_owner] in Mamt, Mown.
  pose proof (merge_payments_entitlement _ _ _ _ (s_rps s3) Hm ltac:(cbn; lia) ltac:(cbn; lia) Hall) as (Ment & Mrps & Mpos).
  cbn [sa_amt sa_rps] in Ment.
  apply mint_pos_post in Hmint; auto; try (destruct AO4; assumption); try (rewrite S4; cbn; lia); try lia.
  pose proof (AttrOK_mint _ _ _ _ _ AO4 Hmint ltac:(rewrite S4; cbn; lia) Hc) as AO5.
  assert (Hposs : Forall (fun p : Z * Z => 0 < snd p) ((n0, x0) :: adds)).
  { constructor; [cbn; lia | eapply Forall_pos; exact pos1']. }
  assert (Hp1 : 0 <= psum (fun _ => 1) adds) by (apply psum1_nonneg; inversion Hposs; assumption).
  assert (U5 : SUT (increase_user sp5 c r)).
  { lazymatch type of H4 with check_update ?h _ _ = _ =>
      apply (ut_check_fin sp1 ((n0, x0) :: adds) h c sp4 sp4 m c sp5 n (increase_user sp5 c r) r U1 Hposs (lo_nn _ l1)) end;
      auto; try (cbn; congruence); try (cbn [psum]; lia).
    intros w. destruct Hmint as [_ _ _ _ (_ & mu & _) _ _ _ _ _ _]. unfold increase_user, utot. cbn. rewrite mu.
    destruct (Z.eq_dec w c) as [->|Hw].
    - rewrite aget_aset_same, Z.eqb_refl. reflexivity.
    - rewrite aget_aset_other by congruence. destruct (w =? c) eqn:E; [apply Z.eqb_eq in E; congruence | lia]. }
  assert (E1 := s1 (fun _ => 1)). rewrite !hsum_one in E1. cbn [psum] in E1.
  assert (Hrn0 : srps_of sp n0 = sa_rps a) by (apply srps_of_some; exact Ha).
  destruct Hmint as [mn ms mat mh (mub & mut & mpd) mnew mold msum masum mled mz].
  constructor; cbn [increase_user set_utot p_s p_held p_attrs p_paid].
  - rewrite ms, S4. apply inv_bump. exact IS3'.
  - destruct mled. constructor; auto.
  - destruct AO5. constructor; auto.
  - rewrite ms, S4. cbn. lia.
  - rewrite masum, ms, HD4, S4. cbn. lia.
  - rewrite ms, mpd, PD4, S4. cbn. lia.
  - unfold sclaimable. cbn [increase_user set_utot p_s p_held p_attrs].
    change (hsum (wa (f_rps (s_rps (p_s sp5))) (p_attrs sp5)) (p_held sp5) <= s_dsc (p_s sp5) * (s_reserve (p_s sp5) - s_pool (p_s sp5))).
    rewrite ms, msum, S4. cbn [bump s_rps s_dsc s_reserve s_pool u_tok s3' with_bal with_supply u_money u_core]. rewrite Aeq, HD4.
    unfold f_rps at 2.
    replace (s_rps s3) with (s_rps (p_s sp) + inc) by lia.
    rewrite hsum_rps_shift, s1, E1. rewrite <- sclaimable_wa. cbn [psum]. unfold wa at 1, f_rps at 1. rewrite Ha.
    replace (psum (wa (f_rps (s_rps (p_s sp))) (p_attrs sp)) adds) with (psum (fun n => s_rps (p_s sp) - srps_of sp n) adds) by reflexivity.
    assert (HE : s_dsc (p_s sp) * base <= x0 * (s_rps (p_s sp) + inc - sa_rps a)).
    { rewrite Pr in Hbb. replace (s_dsc (p_s sp)) with (s_dsc s2) by lia. replace (s_rps (p_s sp) + inc) with (s_rps s2) by lia. exact Hbb. }
    assert (HM : x0 * (s_rps (p_s sp) + inc - sa_rps a) + sa_amt m * (s_rps (p_s sp) + inc - sa_rps m) <=
                 (x0 * (s_rps (p_s sp) - sa_rps a) + psum (fun n => s_rps (p_s sp) - srps_of sp n) adds) + inc * (x0 + psum (fun _ => 1) adds)).
    { assert (HM' : sa_amt m * (s_rps (p_s sp) + inc - sa_rps m) <= psum (fun n => s_rps (p_s sp) - srps_of sp n) adds + inc * psum (fun _ => 1) adds).
      { rewrite <- psum_rps_shift. replace (s_rps (p_s sp) + inc) with (s_rps s3) by lia.
        rewrite (psum_ext (fun k => s_rps s3 - srps_of sp k) (fun k => s_rps s3 - srps_of sp4 k)).
        - replace (s_rps s3 - s_rps s3) with 0 in Ment by lia. lia.
        - intros k. unfold srps_of. rewrite Aeq. reflexivity. }
      lia. }
    pose proof (solv_arith (sclaimable sp) (s_dsc (p_s sp)) (s_reserve (p_s sp)) (s_pool (p_s sp)) (s_supply (p_s sp))
              (x0 * (s_rps (p_s sp) - sa_rps a) + psum (fun n => s_rps (p_s sp) - srps_of sp n) adds) (x0 + psum (fun _ => 1) adds)
              inc total cut base b (x0 * (s_rps (p_s sp) + inc - sa_rps a))
              (sa_amt m * (s_rps (p_s sp) + inc - sa_rps m)) _
              ISolv Hd Hinc Hinc2 HE HM eq_refl) as SA.
    replace (s_dsc s3) with (s_dsc (p_s sp)) by lia.
    replace (s_reserve s3) with (s_reserve (p_s sp) + total - (base + b)) by (unfold r in *; lia).
    replace (s_pool s3) with (s_pool (p_s sp) + cut - b) by lia.
    rewrite ISup. lia.
  - exact U5.
Qed.

Lemma ep_merge_inv sp blk ep c ps b sp' o :
  ep_merge sp blk ep c ps b = Ok (sp', o) -> Inv sp -> valid_id c -> Inv sp'.
Proof.
  unfold ep_merge. intros H I Hc.
  destruct ps as [|first rest]; [discriminate|].
  apply bind_ok in H. destruct H as (sp1 & H1 & H).
  destruct (active (p_s sp1)); [|discriminate].
  apply bind_ok in H. destruct H as (sp2 & H2 & H).
  apply bind_ok in H. destruct H as (sp3 & H3 & H).
  apply bind_ok in H. destruct H as (a & Ha & H).
  apply bind_ok in H. destruct H as (part & Hpart & H).
  apply bind_ok in H. destruct H as (m0 & Hm & H). cbv zeta in H.
  destruct I as [IS IL IA IN ISup IAcc ISolv IUT].
  pose proof (pay_all_post _ _ _ _ H1 IL Hc) as PP.
  pose proof (ut_after_pay _ _ _ _ PP IUT) as U1.
  destruct PP as [r1 s1 l1 k1 pos1 le1]. apply rest_fields in r1. destruct r1 as (S1 & A1 & UB1 & UT1 & PD1).
  pose proof (k_wf _ IS) as (Hd & _).
  destruct first as [n0 x0]. cbn [fst snd] in *.
  inversion pos1 as [|? ? [Hx0 Hin0] pos1']; subst. cbn [fst snd] in *.
  unfold ppay in H2. apply bind_ok in H2. destruct H2 as (s2 & Hs2 & H2). inversion H2; subst sp2; clear H2. rewrite S1 in Hs2.
  destruct (pay_full _ _ _ _ Hs2 IS) as (IS2 & F2 & Hb & Hr & Hbp & Hrb & Re2 & Pl2 & Bl2).
  pfr F2.
  pose proof (check_update_but _ _ _ _ H3) as B3. apply but_fields in B3. cbn in B3. destruct B3 as (S3 & A3 & HD3 & UB3 & PD3).
  assert (Aeq : p_attrs sp3 = p_attrs sp) by congruence.
  apply get_attrs_some in Ha. rewrite Aeq in Ha.
  pose proof IA as [has fr]. destruct (has _ Hin0) as (a' & Ha' & Hra & Hpa). rewrite nonce_hkey in Ha' by assumption.
  assert (a' = a) by congruence. subst a'.
  apply sinto_part_amt in Hpart. destruct Hpart as (Pa & Pr & Po).
  match type of H with (let '(_, _) := mint_pos _ ?m0 _ in _) = _ => set (m := m0) in * end.
  destruct (mint_pos sp3 m c) as [sp4 n] eqn:Hmint. inversion H; subst sp' o; clear H.
  assert (L3 : ledger_ok sp3).
  { destruct l1 as [nd nn fr1]. constructor; rewrite ?HD3; auto. intros k Hk. specialize (fr1 k Hk). rewrite S1 in fr1. rewrite S3. lia. }
  assert (AO3 : AttrOK sp3).
  { apply (AttrOK_shrink sp sp3 IA); rewrite ?HD3, ?S3; auto; try congruence; lia. }
  pose proof (AttrOK_pays sp c rest (s_rps s2) IA ltac:(lia) pos1' Hc) as Hall.
  rewrite <- Aeq in Hall.
  pose proof (merge_payments_amt _ _ _ _ Hm) as [Mamt Mown].
  pose proof (merge_payments_entitlement _ _ _ _ (s_rps s2) Hm ltac:(lia) ltac:(lia) Hall) as (Ment & Mrps & Mpos).
  apply mint_pos_post in Hmint; auto; try (destruct AO3; assumption); try (rewrite S3; lia); try (unfold m; cbn; lia).
  pose proof (AttrOK_mint _ _ _ _ _ AO3 Hmint ltac:(rewrite S3; unfold m; cbn; lia) Hc) as AO4.
  assert (Hposs : Forall (fun p : Z * Z => 0 < snd p) ((n0, x0) :: rest)).
  { constructor; [cbn; lia | eapply Forall_pos; exact pos1']. }
  assert (Hp1 : 0 <= psum (fun _ => 1) rest) by (apply psum1_nonneg; inversion Hposs; assumption).
  assert (U4 : SUT sp4).
  { lazymatch type of H3 with check_update ?h _ _ = _ =>
      apply (ut_check_mint sp1 ((n0, x0) :: rest) h c sp3 sp3 m c sp4 n 0 U1 Hposs (lo_nn _ l1)) end;
      auto; try (cbn; congruence); try (unfold m; cbn [psum sa_amt]; lia).
    intros w. destruct (w =? c); lia. }
  assert (E1 := s1 (fun _ => 1)). rewrite !hsum_one in E1. cbn [psum] in E1.
  destruct Hmint as [mn ms mat mh (mub & mut & mpd) mnew mold msum masum mled mz].
  constructor.
  - rewrite ms, S3. apply inv_bump. exact IS2.
  - exact mled.
  - exact AO4.
  - rewrite ms, S3. cbn. lia.
  - rewrite masum, ms, HD3, S3. unfold m. cbn. lia.
  - rewrite ms, mpd, PD3, S3. cbn. lia.
  - rewrite sclaimable_wa, ms, msum, S3. cbn [bump s_rps s_dsc s_reserve s_pool u_tok]. rewrite Aeq, HD3.
    unfold f_rps at 2. unfold m at 1 2. cbn [sa_amt sa_rps].
    replace (s_rps s2) with (s_rps (p_s sp) + 0) by lia.
    rewrite hsum_rps_shift, s1. rewrite <- sclaimable_wa. cbn [psum]. unfold wa at 1, f_rps at 1. rewrite Ha.
    replace (psum (wa (f_rps (s_rps (p_s sp))) (p_attrs sp)) rest) with (psum (fun n => s_rps (p_s sp) - srps_of sp n) rest) by reflexivity.
    assert (HM : 0 + sa_amt m0 * (s_rps (p_s sp) + 0 - sa_rps m0) <=
                 (x0 * (s_rps (p_s sp) - sa_rps a) + psum (fun n => s_rps (p_s sp) - srps_of sp n) rest) + 0 * (x0 + psum (fun _ => 1) rest)).
    { replace (s_rps (p_s sp) + 0) with (s_rps s2) by lia. replace (s_rps (p_s sp)) with (s_rps s2) by lia.
      rewrite (psum_ext (fun k => s_rps s2 - srps_of sp k) (fun k => s_rps s2 - srps_of sp3 k)).
      - rewrite Pa, Pr in Ment. lia.
      - intros k. unfold srps_of. rewrite Aeq. reflexivity. }
    pose proof (solv_arith (sclaimable sp) (s_dsc (p_s sp)) (s_reserve (p_s sp)) (s_pool (p_s sp)) (s_supply (p_s sp))
              (x0 * (s_rps (p_s sp) - sa_rps a) + psum (fun n => s_rps (p_s sp) - srps_of sp n) rest) (x0 + psum (fun _ => 1) rest)
              0 0 0 0 b 0 (sa_amt m0 * (s_rps (p_s sp) + 0 - sa_rps m0)) _
              ISolv Hd ltac:(lia) ltac:(lia) ltac:(lia) HM eq_refl) as SA.
    replace (s_dsc s2) with (s_dsc (p_s sp)) by lia.
    replace (s_reserve s2) with (s_reserve (p_s sp) + 0 - (0 + b)) by lia.
    replace (s_pool s2) with (s_pool (p_s sp) + 0 - b) by lia.
    lia.
  - exact U4.
Qed.

Lemma ep_claim_boosted_inv sp blk ep c b sp' o :
  ep_claim_boosted sp blk ep c b = Ok (sp', o) -> Inv sp -> Inv sp'.
Proof.
  unfold ep_claim_boosted. intros H I.
  destruct (negb (utot sp c =? 0)); [|discriminate]. destruct (active (p_s sp)); [|discriminate].
  apply bind_ok in H. destruct H as (sp1 & H1 & H).
  apply bind_ok in H. destruct H as (sp2 & H2 & H). inversion H; subst sp' o; clear H.
  destruct I as [IS IL IA IN ISup IAcc ISolv IUT].
  pose proof (k_wf _ IS) as (Hd & _).
  unfold psettle in H1. apply bind_ok in H1. destruct H1 as (s1 & Hs1 & H1). inversion H1; subst sp1; clear H1.
  destruct (settle_full _ _ _ Hs1 IS) as (IS1 & F1 & L1 & total & cut & inc & Hcut & Hinc & Hinc2 & Ac1 & Re1 & Rp1 & Pl1).
  sfr F1.
  unfold ppay in H2. apply bind_ok in H2. destruct H2 as (s2 & Hs2 & H2). inversion H2; subst sp2; clear H2. cbn [p_s with_s] in Hs2.
  destruct (pay_full _ _ _ _ Hs2 IS1) as (IS2 & F2 & Hb & Hr & Hbp & Hrb & Re2 & Pl2 & Bl2).
  pfr F2.
  constructor; cbn [with_paid with_s p_s p_held p_attrs p_paid p_utot].
  - exact IS2.
  - destruct IL as [nd nn fr]. constructor; cbn; auto. intros k Hk. specialize (fr k Hk). lia.
  - apply (AttrOK_shrink sp _ IA); cbn; auto; lia.
  - lia.
  - lia.
  - lia.
  - unfold sclaimable. cbn [with_paid with_s p_s p_held p_attrs].
    change (hsum (wa (f_rps (s_rps s2)) (p_attrs sp)) (p_held sp) <= s_dsc s2 * (s_reserve s2 - s_pool s2)).
    replace (s_rps s2) with (s_rps (p_s sp) + inc) by lia.
    rewrite hsum_rps_shift. rewrite <- sclaimable_wa.
    pose proof (solv_arith (sclaimable sp) (s_dsc (p_s sp)) (s_reserve (p_s sp)) (s_pool (p_s sp)) (s_supply (p_s sp))
              0 0 inc total cut 0 b 0 0 _ ISolv Hd Hinc Hinc2 ltac:(lia) ltac:(lia) eq_refl) as SA.
    replace (s_dsc s2) with (s_dsc (p_s sp)) by lia.
    replace (s_reserve s2) with (s_reserve (p_s sp) + total - (0 + b)) by lia.
    replace (s_pool s2) with (s_pool (p_s sp) + cut - b) by lia.
    rewrite ISup. lia.
  - exact IUT.
Qed.

Lemma ep_unstake_inv sp blk ep c u p t b sp' o :
  ep_unstake sp blk ep c u p t b = Ok (sp', o) -> Inv sp -> valid_id c -> Inv sp'.
Proof.
  unfold ep_unstake. intros H I Hc.
  destruct (match t with Some _ => whitelisted c | None => auth c u end); [|discriminate].
  destruct (match t with Some v => 0 <? v | None => true end) eqn:Et; [|discriminate].
  apply bind_ok in H. destruct H as (sp1 & H1 & H).
  destruct (active (p_s sp1)); [|discriminate].
  apply bind_ok in H. destruct H as (sp2 & H2 & H).
  apply bind_ok in H. destruct H as (a & Ha & H).
  apply bind_ok in H. destruct H as (part & Hpart & H).
  apply bind_ok in H. destruct H as (base & Hbase & H).
  apply bind_ok in H. destruct H as (sp3 & H3 & H).
  apply bind_ok in H. destruct H as (sp4 & H4 & H). cbv zeta in H.
  apply bind_ok in H. destruct H as (sup & Hsup & H).
  destruct I as [IS IL IA IN ISup IAcc ISolv IUT].
  pose proof (pay_all_post _ _ _ _ H1 IL Hc) as PP.
  pose proof (ut_after_pay _ _ _ _ PP IUT) as U1.
  destruct PP as [r1 s1 l1 k1 pos1 le1]. apply rest_fields in r1. destruct r1 as (S1 & A1 & UB1 & UT1 & PD1).
  unfold psettle in H2. apply bind_ok in H2. destruct H2 as (s2 & Hs2 & H2). inversion H2; subst sp2; clear H2.
  rewrite S1 in Hs2. destruct (settle_full _ _ _ Hs2 IS) as (IS2 & F2 & L2 & total & cut & inc & Hcut & Hinc & Hinc2 & Ac2 & Re2 & Rp2 & Pl2).
  destruct p as [n0 x0]. cbn [fst snd] in *.
  apply get_attrs_some in Ha. cbn [p_attrs with_s] in Ha. rewrite A1 in Ha.
  inversion pos1 as [|? ? [Hx0 Hin0] _]; subst. cbn [fst snd] in *.
  pose proof IA as [has fr]. destruct (has _ Hin0) as (a' & Ha' & Hra & Hpa). rewrite nonce_hkey in Ha' by assumption.
  assert (a' = a) by congruence. subst a'.
  apply sinto_part_amt in Hpart. destruct Hpart as (Pa & Pr & Po).
  pose proof (k_wf _ IS) as (Hd & _).
  sfr F2.
  apply sbase_reward_bound in Hbase; cbn [p_s with_s] in *; [|lia|lia|lia]. destruct Hbase as [Hb0 Hbb].
  unfold ppay in H3. apply bind_ok in H3. destruct H3 as (s3 & Hs3 & H3). inversion H3; subst sp3; clear H3. cbn [p_s with_s] in Hs3.
  destruct (pay_full _ _ _ _ Hs3 IS2) as (IS3 & F3 & Hb & Hr & Hbp & Hrb & Re3 & Pl3 & Bl3).
  pfr F3.
  pose proof (decrease_user_but _ _ _ H4) as B4. apply but_fields in B4. cbn in B4. destruct B4 as (S4 & A4 & HD4 & UB4 & PD4).
  rewrite S4 in *. apply sub_chk_ok in Hsup. destruct Hsup as [Hsup ->].
  (* owner totals *)
  assert (UT4 : forall v, utot sp4 v = hsum (sind sp1 v) (p_held sp1)).
  { unfold decrease_user in H4. apply bind_ok in H4. destruct H4 as (a'' & Ha'' & H4).
    apply get_attrs_some in Ha''. cbn in Ha''. rewrite A1 in Ha''. assert (a'' = a) by congruence. subst a''.
    inversion H4; subst sp4; clear H4.
    set (ow := sa_owner a) in *.
    assert (Hown : sowner_of sp1 n0 = ow) by (unfold sowner_of; rewrite A1, Ha; reflexivity).
    match goal with |- context [if x0 <? ?T then _ else _] => set (tot := T) in * end.
    assert (Htot : tot = hsum (sind sp1 ow) (p_held sp1) + x0).
    { unfold tot, utot. cbn. fold (utot sp1 ow). rewrite U1. cbn [psum]. unfold sind at 2. rewrite Hown, Z.eqb_refl. lia. }
    pose proof (hsum_sind_nonneg sp1 ow _ (lo_nn _ l1)) as HW.
    intros v. destruct (Z.eq_dec v ow) as [->|Hv].
    - destruct (x0 <? tot) eqn:E; rewrite sutot_set_same; [lia|]. apply Z.ltb_ge in E. lia.
    - assert (Hoth : utot (with_paid (with_s sp1 s2) s3 (p_paid sp1 + (base + b))) v = hsum (sind sp1 v) (p_held sp1)).
      { unfold utot. cbn. fold (utot sp1 v). rewrite U1. cbn [psum]. unfold sind at 2. rewrite Hown.
        destruct (ow =? v) eqn:E; [apply Z.eqb_eq in E; congruence | lia]. }
      destruct (x0 <? tot); rewrite sutot_set_other by congruence; exact Hoth. }
  set (s5 := match t with
             | Some v => with_bal (with_supply s3 (s_supply s3 - sa_amt part) (s_virt s3 - sa_amt part)) (s_bal s3 + v)
             | None => with_supply s3 (s_supply s3 - sa_amt part) (s_virt s3)
             end) in *.
  set (ubamt := match t with Some v => v | None => sa_amt part end) in *.
  assert (Hub : 0 <= ubamt) by (unfold ubamt; destruct t; [apply Z.ltb_lt in Et|]; lia).
  destruct (mint_unbond s5 ep ubamt) as [s6 n] eqn:Hmu. inversion H; subst sp' o; clear H.
  assert (IS6 : StkInv s6 /\ s_next s6 = s_next s3 + 1 /\ s_rps s6 = s_rps s3 /\ s_dsc s6 = s_dsc s3 /\ s_reserve s6 = s_reserve s3 /\
                s_pool s6 = s_pool s3 /\ s_acc s6 = s_acc s3 /\ s_supply s6 = s_supply s3 - x0).
  { destruct IS3 as [cap kb ub ubnd ubnn fr3 fr23 (w1 & w2 & w3 & w4 & w5 & w6 & w7 & w8 & w9)].
    split.
    - apply (inv_mint_unbond s5 ep ubamt s6 n) in Hmu; auto; unfold s5, ubamt; destruct t; cbn; auto; try lia; try tauto; repeat split; auto; lia.
    - unfold mint_unbond in Hmu. inversion Hmu; subst s6 n. unfold s5. destruct t; cbn; repeat split; lia. }
  destruct IS6 as (IS6 & N6 & R6 & D6 & Re6 & Pl6 & Ac6 & Su6).
  assert (E1 := s1 (fun _ => 1)). rewrite !hsum_one in E1. cbn [psum] in E1.
  assert (Hrn0 : srps_of sp n0 = sa_rps a) by (apply srps_of_some; exact Ha).
  constructor; cbn [credit_ub with_ubheld with_s p_s p_held p_attrs p_paid p_utot].
  - exact IS6.
  - destruct l1 as [nd nn fr1]. constructor; cbn; rewrite ?HD4; auto. intros k Hk. specialize (fr1 k Hk). rewrite S1 in fr1. lia.
  - apply (AttrOK_shrink sp _ IA); cbn; rewrite ?HD4; auto; try congruence; lia.
  - lia.
  - rewrite HD4. lia.
  - rewrite PD4. lia.
  - change (hsum (wa (f_rps (s_rps s6)) (p_attrs sp4)) (p_held sp4) <= s_dsc s6 * (s_reserve s6 - s_pool s6)).
    rewrite HD4, A4. cbn [p_attrs with_paid with_s]. rewrite A1.
    replace (s_rps s6) with (s_rps (p_s sp) + inc) by lia.
    rewrite hsum_rps_shift, s1, E1. rewrite <- sclaimable_wa. cbn [psum]. unfold wa at 1, f_rps at 1. rewrite Ha.
    assert (HE : s_dsc (p_s sp) * base <= x0 * (s_rps (p_s sp) + inc - sa_rps a)).
    { rewrite Pr in Hbb. replace (s_dsc (p_s sp)) with (s_dsc s2) by lia. replace (s_rps (p_s sp) + inc) with (s_rps s2) by lia. exact Hbb. }
    pose proof (solv_arith (sclaimable sp) (s_dsc (p_s sp)) (s_reserve (p_s sp)) (s_pool (p_s sp)) (s_supply (p_s sp))
              (x0 * (s_rps (p_s sp) - sa_rps a)) x0 inc total cut base b (x0 * (s_rps (p_s sp) + inc - sa_rps a)) 0 _
              ISolv Hd Hinc Hinc2 HE ltac:(lia) eq_refl) as SA.
    replace (s_dsc s6) with (s_dsc (p_s sp)) by lia.
    replace (s_reserve s6) with (s_reserve (p_s sp) + total - (base + b)) by lia.
    replace (s_pool s6) with (s_pool (p_s sp) + cut - b) by lia.
    rewrite ISup. lia.
  - intros v. unfold utot. cbn [credit_ub with_ubheld with_s p_utot]. fold (utot sp4 v). rewrite UT4, HD4.
    apply hsum_ext. intros k _. apply sind_ext. cbn. congruence.
Qed.

(** only the money-flow part moves, by a settlement (possibly empty) plus fields the position layer does not read *)
Lemma Inv_stk_step sp s' : Inv sp -> StkInv s' ->
  s_supply s' = s_supply (p_s sp) -> s_dsc s' = s_dsc (p_s sp) -> s_next s' = s_next (p_s sp) ->
  (exists total cut inc, 0 <= cut <= total /\ 0 <= inc /\ inc * s_supply (p_s sp) <= (total - cut) * s_dsc (p_s sp) /\
     s_acc s' = s_acc (p_s sp) + total /\ s_reserve s' = s_reserve (p_s sp) + total /\ s_rps s' = s_rps (p_s sp) + inc /\
     s_pool s' = s_pool (p_s sp) + cut) ->
  Inv (with_s sp s').
Proof.
  intros [IS IL IA IN ISup IAcc ISolv IUT] IS' Su D N (total & cut & inc & Hcut & Hinc & Hinc2 & Ac & Re & Rp & Pl).
  pose proof (k_wf _ IS) as (Hd & _).
  constructor; cbn [with_s p_s p_held p_attrs p_paid p_utot].
  - exact IS'.
  - destruct IL as [nd nn fr]. constructor; cbn; auto. intros k Hk. specialize (fr k Hk). lia.
  - apply (AttrOK_shrink sp _ IA); cbn; auto; lia.
  - lia.
  - lia.
  - lia.
  - change (hsum (wa (f_rps (s_rps s')) (p_attrs sp)) (p_held sp) <= s_dsc s' * (s_reserve s' - s_pool s')).
    replace (s_rps s') with (s_rps (p_s sp) + inc) by lia.
    rewrite hsum_rps_shift. rewrite <- sclaimable_wa.
    pose proof (solv_arith (sclaimable sp) (s_dsc (p_s sp)) (s_reserve (p_s sp)) (s_pool (p_s sp)) (s_supply (p_s sp))
              0 0 inc total cut 0 0 0 0 _ ISolv Hd Hinc Hinc2 ltac:(lia) ltac:(lia) eq_refl) as SA.
    replace (s_dsc s') with (s_dsc (p_s sp)) by lia.
    replace (s_reserve s') with (s_reserve (p_s sp) + total - (0 + 0)) by lia.
    replace (s_pool s') with (s_pool (p_s sp) + cut - 0) by lia.
    rewrite ISup. lia.
  - exact IUT.
Qed.

Lemma Inv_ubheld sp h : Inv sp -> Inv (with_ubheld sp h).
Proof.
  intros [IS IL IA IN ISup IAcc ISolv IUT]. constructor; cbn; auto.
  - destruct IL. constructor; auto.
  - destruct IA. constructor; auto.
Qed.

Lemma settle_frame s blk s1 : settle s blk = Ok s1 -> StkInv s ->
  StkInv s1 /\ s_supply s1 = s_supply s /\ s_dsc s1 = s_dsc s /\ s_next s1 = s_next s /\
  exists total cut inc, 0 <= cut <= total /\ 0 <= inc /\ inc * s_supply s <= (total - cut) * s_dsc s /\
     s_acc s1 = s_acc s + total /\ s_reserve s1 = s_reserve s + total /\ s_rps s1 = s_rps s + inc /\ s_pool s1 = s_pool s + cut.
Proof.
  intros H I. destruct (settle_full _ _ _ H I) as (I1 & F & _ & total & cut & inc & R). sfr F.
  split; [exact I1|]. split; [lia|]. split; [lia|]. split; [lia|]. exists total, cut, inc. exact R.
Qed.

Lemma no_settle_frame (s : stk) :
  exists total cut inc, 0 <= cut <= total /\ 0 <= inc /\ inc * s_supply s <= (total - cut) * s_dsc s /\
     s_acc s = s_acc s + total /\ s_reserve s = s_reserve s + total /\ s_rps s = s_rps s + inc /\ s_pool s = s_pool s + cut.
Proof. exists 0, 0, 0. repeat split; lia. Qed.

Lemma admin_frame s a s' o : is_admin_op a = true -> sstep s a = Ok (s', o) -> StkInv s ->
  s_supply s' = s_supply s /\ s_dsc s' = s_dsc s /\ s_next s' = s_next s /\
  exists total cut inc, 0 <= cut <= total /\ 0 <= inc /\ inc * s_supply s <= (total - cut) * s_dsc s /\
     s_acc s' = s_acc s + total /\ s_reserve s' = s_reserve s + total /\ s_rps s' = s_rps s + inc /\ s_pool s' = s_pool s + cut.
Proof.
  intros Ha H I. destruct a; try discriminate Ha; cbn [sstep] in H.
  - (* TopUp *) destruct (is_admin c); [|discriminate]. destruct (0 <? amt); [|discriminate]. inversion H; subst. cbn.
    repeat split; try reflexivity. apply no_settle_frame.
  - (* Withdraw *) destruct (is_admin c); [|discriminate]. destruct (0 <=? w); [|discriminate].
    apply bind_ok in H. destruct H as (s1 & H1 & H). apply bind_ok in H. destruct H as (rem & _ & H).
    destruct (w <=? rem); [|discriminate]. apply bind_ok in H. destruct H as (c' & _ & H).
    apply bind_ok in H. destruct H as (b' & _ & H). inversion H; subst; clear H. cbn.
    destruct (settle_frame _ _ _ H1 I) as (_ & A & B & C & D). auto.
  - destruct (is_admin c); [|discriminate]. destruct (0 <? r); [|discriminate].
    apply bind_ok in H. destruct H as (s1 & H1 & H). inversion H; subst; clear H. cbn.
    destruct (settle_frame _ _ _ H1 I) as (_ & A & B & C & D). auto.
  - destruct (is_admin c); [|discriminate]. destruct (negb (s_rate s =? 0)); [|discriminate].
    destruct (negb (s_produce s)); [|discriminate]. inversion H; subst. cbn.
    repeat split; try reflexivity. apply no_settle_frame.
  - destruct (is_admin c); [|discriminate].
    apply bind_ok in H. destruct H as (s1 & H1 & H). inversion H; subst; clear H. cbn.
    destruct (settle_frame _ _ _ H1 I) as (_ & A & B & C & D). auto.
  - destruct (is_admin c); [|discriminate]. destruct (0 <? a); [|discriminate].
    apply bind_ok in H. destruct H as (s1 & H1 & H). inversion H; subst; clear H. cbn.
    destruct (settle_frame _ _ _ H1 I) as (_ & A & B & C & D). auto.
  - destruct (is_admin c); [|discriminate]. destruct (_ && _); [|discriminate]. inversion H; subst. cbn.
    repeat split; try reflexivity. apply no_settle_frame.
  - destruct (is_admin c); [|discriminate]. destruct (_ && _); [|discriminate].
    apply bind_ok in H. destruct H as (s1 & H1 & H). inversion H; subst; clear H. cbn.
    destruct (settle_frame _ _ _ H1 I) as (_ & A & B & C & D). auto.
  - destruct (is_admin c); [|discriminate]. inversion H; subst. cbn. repeat split; try reflexivity. apply no_settle_frame.
  - destruct (is_admin c); [|discriminate]. destruct (_ || _); [|discriminate]. inversion H; subst. cbn.
    repeat split; try reflexivity. apply no_settle_frame.
  - destruct (0 <? amt); [|discriminate]. inversion H; subst. cbn. repeat split; try reflexivity. apply no_settle_frame.
Qed.

Lemma unbond_frame s ep c n amt s' o : sstep s (SUnbond ep c n amt) = Ok (s', o) ->
  s_supply s' = s_supply s /\ s_dsc s' = s_dsc s /\ s_next s' = s_next s /\
  exists total cut inc, 0 <= cut <= total /\ 0 <= inc /\ inc * s_supply s <= (total - cut) * s_dsc s /\
     s_acc s' = s_acc s + total /\ s_reserve s' = s_reserve s + total /\ s_rps s' = s_rps s + inc /\ s_pool s' = s_pool s + cut.
Proof.
  intros H. cbn [sstep] in H.
  destruct (active s); [|discriminate]. destruct (0 <? amt); [|discriminate].
  destruct (find_z (s_ub s) n); [|discriminate]. destruct (_ <=? ep); [|discriminate].
  apply bind_ok in H. destruct H as (rest & _ & H). apply bind_ok in H. destruct H as (b' & _ & H).
  apply bind_ok in H. destruct H as (t' & _ & H). inversion H; subst; clear H. cbn.
  repeat split; try reflexivity. apply no_settle_frame.
Qed.

Lemma hsum_aset w l k v : NoDup (akeys l) -> hsum w (aset l k v) = hsum w l + (v - aget l k) * w (nonce_of k).
Proof. intros. unfold hsum. rewrite wsum_aset by assumption. reflexivity. Qed.

Lemma ep_transfer_inv sp n src dst amt sp' o :
  ep_transfer sp n src dst amt = Ok (sp', o) -> Inv sp -> valid_id src -> valid_id dst -> Inv sp'.
Proof.
  unfold ep_transfer. intros H I Hs Hd.
  apply bind_ok in H. destruct H as (sp1 & H1 & H). inversion H; subst sp' o; clear H.
  destruct I as [IS IL IA IN ISup IAcc ISolv IUT].
  pose proof (pay_in_post _ _ _ _ H1 IL Hs) as PP.
  destruct PP as [r1 s1 l1 k1 pos1 le1]. apply rest_fields in r1. destruct r1 as (S1 & A1 & UB1 & UT1 & PD1).
  inversion pos1 as [|? ? [Hx0 Hin0] _]; subst. cbn [fst snd] in *.
  destruct l1 as [nd1 nn1 fr1].
  assert (Hsum : forall w, hsum w (aset (p_held sp1) (hkey n dst) (held sp1 n dst + amt)) = hsum w (p_held sp)).
  { intros w. rewrite hsum_aset by assumption. rewrite nonce_hkey by assumption.
    rewrite s1. cbn [psum]. unfold held. lia. }
  pose proof IA as [has fr].
  destruct (has _ Hin0) as (a & Ha & Hra & Hpa). rewrite nonce_hkey in Ha by assumption.
  assert (Hsrc : amt <= aget (p_held sp) (hkey n src)).
  { unfold pay_in in H1. destruct (0 <? amt); [|discriminate]. apply bind_ok in H1. destruct H1 as (b0 & Hb0 & _).
    apply sub_chk_ok in Hb0. unfold held in Hb0. lia. }
  constructor; cbn [with_held p_s p_held p_attrs p_paid p_utot].
  - rewrite S1. exact IS.
  - constructor; cbn [with_held p_held p_s].
    + apply nodup_aset; assumption.
    + apply all_nonneg_aset; [assumption|]. unfold held. pose proof (aget_nonneg _ (hkey n dst) nn1). lia.
    + intros k Hk. apply akeys_aset_in in Hk. destruct Hk as [->|Hk]; [|apply fr1; assumption].
      rewrite S1. destruct IL as [_ _ fr0]. specialize (fr0 _ Hin0). unfold hkey, valid_id in *. lia.
  - constructor; cbn [with_held p_held p_s p_attrs].
    + intros k Hk. rewrite S1, A1. apply akeys_aset_in in Hk.
      destruct (Z.eq_dec k (hkey n dst)) as [->|Hne].
      * exists a. rewrite nonce_hkey by assumption. split; [assumption|]. split; [assumption|]. intros _. apply Hpa. lia.
      * destruct Hk as [->|Hk]; [congruence|].
        destruct (has k (k1 k Hk)) as (a0 & Ha0 & Hr0 & Hp0). exists a0. split; [assumption|]. split; [assumption|].
        rewrite aget_aset_other by congruence. intros Hpos. apply Hp0. specialize (le1 k). lia.
    + intros k a0 Hin. rewrite A1 in Hin. rewrite S1. eauto.
  - rewrite S1. exact IN.
  - rewrite <- (hsum_one (aset _ _ _)), Hsum, hsum_one, S1. exact ISup.
  - rewrite S1, PD1. exact IAcc.
  - unfold sclaimable. cbn [with_held p_s p_held].
    rewrite (hsum_ext _ (fun n0 => s_rps (p_s sp) - srps_of sp n0)).
    + rewrite Hsum, S1. exact ISolv.
    + intros k _. rewrite S1. unfold srps_of. cbn. rewrite A1. reflexivity.
  - intros v. unfold utot. cbn [with_held p_utot]. rewrite UT1. fold (utot sp v). rewrite IUT.
    rewrite (hsum_ext (sind (with_held sp1 _) v) (sind sp v)) by (intros; apply sind_ext; cbn; exact A1).
    cbn [with_held p_held]. rewrite Hsum. reflexivity.
Qed.

Lemma debit_ub_shape sp c p sp1 : debit_ub sp c p = Ok sp1 -> exists h, sp1 = with_ubheld sp h.
Proof.
  unfold debit_ub. destruct p as [n x]. destruct (0 <? x); [|discriminate]. intros H.
  apply bind_ok in H. destruct H as (b & _ & H). inversion H. eexists. reflexivity.
Qed.

Definition pvalid_op (op : pop) : Prop :=
  match op with
  | PStake _ _ c _ _ _ _ | PStakeProxy _ _ c _ _ _ _ | PClaim _ _ c _ _ _ | PClaimNewValue _ _ c _ _ _ _
  | PCompound _ _ c _ _ _ | PUnstake _ _ c _ _ _ | PUnstakeProxy _ _ c _ _ _ _ | PMerge _ _ c _ _ => valid_id c
  | PTransfer _ s d _ => valid_id s /\ valid_id d
  | _ => True
  end.

Lemma pstep_inv sp op sp' o : pstep sp op = Ok (sp', o) -> Inv sp -> pvalid_op op -> Inv sp'.
Proof.
  intros H I V. destruct op; cbn [pstep pvalid_op] in H, V.
  - eapply ep_stake_inv; eauto.
  - eapply ep_stake_inv; eauto.
  - eapply ep_claim_inv; eauto.
  - eapply ep_claim_inv; eauto.
  - eapply ep_compound_inv; eauto.
  - eapply ep_unstake_inv; eauto.
  - eapply ep_unstake_inv; eauto.
  - (* Unbond *) unfold ep_unbond in H. apply bind_ok in H. destruct H as (sp1 & H1 & H).
    apply bind_ok in H. destruct H as ([s' o'] & Hs & H). inversion H; subst sp' o; clear H. cbn [fst snd].
    destruct (debit_ub_shape _ _ _ _ H1) as (h & ->). cbn [p_s with_ubheld] in Hs.
    pose proof (Inv_ubheld sp h I) as I1.
    pose proof (sstep_inv _ _ _ _ Hs (i_stk _ I)) as IS'.
    destruct (unbond_frame _ _ _ _ _ _ _ Hs) as (A & B & C & D).
    apply (Inv_stk_step (with_ubheld sp h) s' I1 IS'); auto.
  - eapply ep_merge_inv; eauto.
  - eapply ep_claim_boosted_inv; eauto.
  - destruct V. eapply ep_transfer_inv; eauto.
  - (* TransferUb *) unfold ep_transfer_ub in H. apply bind_ok in H. destruct H as (sp1 & H1 & H). inversion H; subst sp' o; clear H.
    destruct (debit_ub_shape _ _ _ _ H1) as (h & ->). unfold credit_ub.
    apply (Inv_ubheld (with_ubheld sp h)). apply Inv_ubheld. exact I.
  - (* Admin *) destruct (is_admin_op a) eqn:Ea; [|discriminate].
    apply bind_ok in H. destruct H as ([s' o'] & Hs & H). inversion H; subst sp' o; clear H. cbn [fst snd].
    pose proof (sstep_inv _ _ _ _ Hs (i_stk _ I)) as IS'.
    destruct (admin_frame _ _ _ _ Ea Hs (i_stk _ I)) as (A & B & C & D).
    apply (Inv_stk_step sp s' I IS'); auto.
Qed.

Lemma init_sp_inv dsc apr minub : 0 < dsc -> 0 < apr -> Inv (init_sp dsc apr minub).
Proof.
  intros Hd Ha. constructor; cbn.
  - apply init_inv; assumption.
  - constructor; cbn; [constructor | constructor | intros k []].
  - constructor; cbn; [intros k [] | intros k a []].
  - lia.
  - reflexivity.
  - reflexivity.
  - unfold sclaimable, hsum. cbn. lia.
  - intros u. reflexivity.
Qed.

Lemma prun_inv ops : forall sp, Inv sp -> Forall pvalid_op ops -> Inv (prun sp ops).
Proof.
  induction ops as [|op t IH]; intros sp I V; cbn; [exact I|].
  inversion V; subst. apply IH; [|assumption].
  unfold pstep_total. destruct (pstep sp op) as [[sp' o]|] eqn:E; [|exact I].
  eapply pstep_inv; eauto.
Qed.

(** ------------------------------------------------------------------ shapes, virtual principal, floors, liveness *)
(** ------------------------------------------------------------------ what the endpoints compute (C06) *)
(** compounded reward carried by the part [x] of a position: floor(comp * x / amount) *)
Definition comp_part (a : sattrs) (x : Z) : Z := if x =? sa_amt a then sa_comp a else sa_comp a * x / sa_amt a.
(** documented base reward of [x] tokens that entered at index [e], at index [R] *)
Definition base_formula (R dsc e x : Z) : Z := if e <? R then x * (R - e) / dsc else 0.

Lemma sinto_part_comp a x p : sinto_part a x = Ok p -> sa_comp p = comp_part a x.
Proof.
  unfold sinto_part, comp_part, Farm.rule3. destruct (x =? sa_amt a) eqn:E.
  - intros H. inversion H; subst. reflexivity.
  - intros H. apply bind_ok in H. destruct H as (c & Hc & H). inversion H; subst; clear H. cbn.
    apply div_chk_ok in Hc. destruct Hc as [_ ->]. reflexivity.
Qed.

Lemma base_reward_formula sp a x base : base_reward sp a x = Ok base ->
  base = base_formula (s_rps (p_s sp)) (s_dsc (p_s sp)) (sa_rps a) x.
Proof.
  unfold base_reward, base_formula. destruct (sa_rps a <? s_rps (p_s sp)).
  - intros H. apply div_chk_ok in H. tauto.
  - intros H. inversion H. reflexivity.
Qed.

Lemma pay_all_single sp c n x sp1 : pay_all sp c [(n, x)] = Ok sp1 ->
  0 < x <= held sp n c /\ sp1 = with_held sp (aset (p_held sp) (hkey n c) (held sp n c - x)).
Proof.
  cbn [pay_all]. intros H. apply bind_ok in H. destruct H as (sp' & H & H'). inversion H'; subst sp'; clear H'.
  unfold pay_in in H. destruct (0 <? x) eqn:E; [|discriminate]. apply Z.ltb_lt in E.
  apply bind_ok in H. destruct H as (b & Hb & H). inversion H; subst; clear H.
  apply sub_chk_ok in Hb. destruct Hb as [Hb ->]. split; [lia | reflexivity].
Qed.

(** claimRewards / claimRewardsWithNewValue: pays floor(x * (rps_settled - rps_entry) / DSC) + b and re-mints
    the position at the settled index *)
Lemma ep_claim_shape sp blk ep c u n0 x0 newv b sp' o :
  ep_claim sp blk ep c u (n0, x0) newv b = Ok (sp', o) -> Inv sp -> valid_id c ->
  exists s2 s3 a base,
    settle (p_s sp) blk = Ok s2 /\ find_sattrs (p_attrs sp) n0 = Some a /\ 0 < x0 <= held sp n0 c /\
    base = base_formula (s_rps s2) (s_dsc (p_s sp)) (sa_rps a) x0 /\
    pay s2 (base + b) b = Ok s3 /\
    let n := s_next (p_s sp) in
    let amt := match newv with Some v => v | None => x0 end in
    let m := mkSA (s_rps s2) (comp_part a x0) amt u in
    o = [n; amt; base + b] /\
    p_attrs sp' = p_attrs sp ++ [(n, m)] /\ find_sattrs (p_attrs sp') n = Some m /\
    p_held sp' = aset (aset (p_held sp) (hkey n0 c) (held sp n0 c - x0)) (hkey n c) amt /\
    p_s sp' = bump (match newv with
                    | None => s3
                    | Some v => with_supply s3 (s_supply s3 - x0 + v) (s_virt s3 + v - x0)
                    end) /\
    s_rps (p_s sp') = s_rps s2.
Proof.
  unfold ep_claim. intros H I Hc.
  destruct (match newv with Some _ => whitelisted c | None => auth c u end); [|discriminate].
  destruct (match newv with Some v => 0 <=? v | None => true end) eqn:Env; [|discriminate].
  apply bind_ok in H. destruct H as (sp1 & H1 & H).
  destruct (active (p_s sp1)); [|discriminate].
  apply bind_ok in H. destruct H as (sp2 & H2 & H).
  apply bind_ok in H. destruct H as (a & Ha & H).
  apply bind_ok in H. destruct H as (part & Hpart & H).
  apply bind_ok in H. destruct H as (base & Hbase & H).
  apply bind_ok in H. destruct H as (sp3 & H3 & H).
  apply bind_ok in H. destruct H as (sp4 & H4 & H).
  destruct I as [IS IL IA IN ISup IAcc ISolv IUT].
  pose proof (pay_all_post _ _ _ _ H1 IL Hc) as [_ _ l1 _ _ _].
  apply pay_all_single in H1. destruct H1 as (Hx0 & ->).
  unfold psettle in H2. apply bind_ok in H2. destruct H2 as (s2 & Hs2 & H2). inversion H2; subst sp2; clear H2.
  cbn [p_s with_held] in Hs2.
  destruct (settle_full _ _ _ Hs2 IS) as (IS2 & F2 & _). sfr F2.
  cbn [fst snd] in *.
  apply get_attrs_some in Ha. cbn in Ha.
  pose proof (sinto_part_comp _ _ _ Hpart) as Pc. apply sinto_part_amt in Hpart. destruct Hpart as (Pa & Pr & Po).
  apply base_reward_formula in Hbase. cbn [p_s with_s] in Hbase. rewrite Pr in Hbase.
  unfold ppay in H3. apply bind_ok in H3. destruct H3 as (s3 & Hs3 & H3). inversion H3; subst sp3; clear H3. cbn [p_s with_s] in Hs3.
  destruct (pay_full _ _ _ _ Hs3 IS2) as (IS3 & F3 & _). pfr F3.
  pose proof (check_update_but _ _ _ _ H4) as B4. apply but_fields in B4. cbn in B4. destruct B4 as (S4 & A4 & HD4 & UB4 & PD4).
  exists s2, s3, a, base. split; [exact Hs2|]. split; [exact Ha|]. split; [exact Hx0|].
  split; [replace (s_dsc (p_s sp)) with (s_dsc s2) by lia; exact Hbase|]. split; [exact Hs3|].
  assert (L4 : ledger_ok sp4).
  { destruct l1 as [nd nn fr1]. constructor; rewrite ?HD4; auto. intros k Hk. specialize (fr1 k Hk). cbn in fr1. rewrite S4. lia. }
  assert (AF4 : forall k a', In (k, a') (p_attrs sp4) -> k < s_next (p_s sp4)).
  { intros k a' Hin. rewrite A4 in Hin. destruct IA as [_ fr]. specialize (fr _ _ Hin). rewrite S4. lia. }
  cbn [sa_amt sa_rps sa_comp sa_owner] in H.
  destruct newv as [v|].
  - apply bind_ok in H. destruct H as (sup & Hsup & H). apply bind_ok in H. destruct H as (ut & Hut & H).
    apply sub_chk_ok in Hsup. destruct Hsup as [Hsup ->]. apply Z.leb_le in Env.
    match type of H with (let '(_, _) := mint_pos ?g0 _ _ in _) = _ => set (g := g0) in * end.
    destruct (mint_pos g _ c) as [sp6 n] eqn:Hm. inversion H; subst sp' o; clear H.
    assert (Lg : ledger_ok g) by (destruct L4; constructor; auto).
    apply mint_pos_post in Hm; auto; try (unfold g; cbn; rewrite ?S4; lia).
    destruct Hm as [mn ms mat mh _ mnew _ _ _ _ _].
    assert (En : n = s_next (p_s sp)) by (rewrite mn; unfold g; cbn; rewrite S4; lia).
    cbv zeta. rewrite <- En.
    match type of mnew with _ = Some ?m0 => assert (Em : m0 = mkSA (s_rps s2) (comp_part a x0) v u) end.
    { rewrite S4, Pc. replace (s_rps s3) with (s_rps s2) by lia. reflexivity. }
    rewrite Em in *. cbn [sa_amt] in mh.
    split; [reflexivity|]. split; [rewrite mat; unfold g; cbn; rewrite A4; reflexivity|]. split; [exact mnew|].
    split; [rewrite mh; unfold g; cbn; rewrite HD4; reflexivity|].
    split; [rewrite ms; unfold g; cbn [p_s set_utot with_s]; rewrite S4, Pa; reflexivity|].
    rewrite ms. unfold g. cbn. rewrite S4. lia.
  - destruct (mint_pos sp4 _ c) as [sp5 n] eqn:Hm. inversion H; subst sp' o; clear H.
    apply mint_pos_post in Hm; auto; try (cbn; lia); try (rewrite S4; lia).
    destruct Hm as [mn ms mat mh _ mnew _ _ _ _ _].
    assert (En : n = s_next (p_s sp)) by (rewrite mn, S4; lia).
    cbv zeta. rewrite <- En.
    assert (Em : mkSA (s_rps (p_s sp4)) (sa_comp part) (sa_amt part) u = mkSA (s_rps s2) (comp_part a x0) x0 u).
    { rewrite S4, Pc, Pa. replace (s_rps s3) with (s_rps s2) by lia. reflexivity. }
    rewrite Em in *. cbn [sa_amt] in mh.
    split; [rewrite Pa; reflexivity|]. split; [rewrite mat, A4; reflexivity|]. split; [exact mnew|].
    split; [rewrite mh, HD4; reflexivity|]. split; [rewrite ms, S4; reflexivity|]. rewrite ms, S4. cbn. lia.
Qed.

(** unstakeFarm / unstakeFarmThroughProxy: burns the part, pays floor(...) + b, mints an unbond token {epoch + min_unbond} *)
Lemma ep_unstake_shape sp blk ep c u n0 x0 t b sp' o :
  ep_unstake sp blk ep c u (n0, x0) t b = Ok (sp', o) -> Inv sp -> valid_id c ->
  exists s2 s3 a base,
    settle (p_s sp) blk = Ok s2 /\ find_sattrs (p_attrs sp) n0 = Some a /\ 0 < x0 <= held sp n0 c /\
    base = base_formula (s_rps s2) (s_dsc (p_s sp)) (sa_rps a) x0 /\
    pay s2 (base + b) b = Ok s3 /\
    let n := s_next (p_s sp) in
    let ubamt := match t with Some v => v | None => x0 end in
    o = [n; ubamt; base + b] /\
    p_attrs sp' = p_attrs sp /\
    p_held sp' = aset (p_held sp) (hkey n0 c) (held sp n0 c - x0) /\
    s_supply (p_s sp') = s_supply (p_s sp) - x0 /\
    s_virt (p_s sp') = (match t with Some _ => s_virt (p_s sp) - x0 | None => s_virt (p_s sp) end) /\
    find_z (s_ub (p_s sp')) n = Some (ep + s_minub (p_s sp)) /\
    ubheld sp' n c = ubheld sp n c + ubamt /\
    s_rps (p_s sp') = s_rps s2.
Proof.
  unfold ep_unstake. intros H I Hc.
  destruct (match t with Some _ => whitelisted c | None => auth c u end); [|discriminate].
  destruct (match t with Some v => 0 <? v | None => true end) eqn:Et; [|discriminate].
  apply bind_ok in H. destruct H as (sp1 & H1 & H).
  destruct (active (p_s sp1)); [|discriminate].
  apply bind_ok in H. destruct H as (sp2 & H2 & H).
  apply bind_ok in H. destruct H as (a & Ha & H).
  apply bind_ok in H. destruct H as (part & Hpart & H).
  apply bind_ok in H. destruct H as (base & Hbase & H).
  apply bind_ok in H. destruct H as (sp3 & H3 & H).
  apply bind_ok in H. destruct H as (sp4 & H4 & H). cbv zeta in H.
  apply bind_ok in H. destruct H as (sup & Hsup & H).
  destruct I as [IS IL IA IN ISup IAcc ISolv IUT].
  apply pay_all_single in H1. destruct H1 as (Hx0 & ->).
  unfold psettle in H2. apply bind_ok in H2. destruct H2 as (s2 & Hs2 & H2). inversion H2; subst sp2; clear H2.
  cbn [p_s with_held] in Hs2.
  destruct (settle_full _ _ _ Hs2 IS) as (IS2 & F2 & _). sfr F2.
  cbn [fst snd] in *.
  apply get_attrs_some in Ha. cbn in Ha.
  apply sinto_part_amt in Hpart. destruct Hpart as (Pa & Pr & Po).
  apply base_reward_formula in Hbase. cbn [p_s with_s] in Hbase. rewrite Pr in Hbase.
  unfold ppay in H3. apply bind_ok in H3. destruct H3 as (s3 & Hs3 & H3). inversion H3; subst sp3; clear H3. cbn [p_s with_s] in Hs3.
  destruct (pay_full _ _ _ _ Hs3 IS2) as (IS3 & F3 & _). pfr F3.
  pose proof (decrease_user_but _ _ _ H4) as B4. apply but_fields in B4. cbn in B4. destruct B4 as (S4 & A4 & HD4 & UB4 & PD4).
  rewrite S4 in *. apply sub_chk_ok in Hsup. destruct Hsup as [Hsup ->].
  exists s2, s3, a, base. split; [exact Hs2|]. split; [exact Ha|]. split; [exact Hx0|].
  split; [replace (s_dsc (p_s sp)) with (s_dsc s2) by lia; exact Hbase|]. split; [exact Hs3|].
  unfold mint_unbond in H. inversion H; subst sp' o; clear H. cbv zeta.
  assert (Hfr : forall k v, In (k, v) (s_ub s3) -> k <> s_next s3).
  { intros k v Hin. pose proof (k_fresh2 _ IS3 _ _ Hin). lia. }
  replace (s_next (p_s sp)) with (s_next s3) by lia. replace (s_minub (p_s sp)) with (s_minub s3) by lia.
  destruct t as [v|]; cbn; unfold ubheld, credit_ub; cbn; rewrite ?find_z_app_new by assumption; rewrite ?aget_aset_same, ?Pa, ?A4, ?HD4, ?UB4;
    cbn; repeat split; try reflexivity; try lia; try (f_equal; lia); try (f_equal; f_equal; lia).
Qed.

(** stakeFarm / stakeFarmThroughProxy: the new position records the index settled up to this block *)
Lemma ep_stake_shape virtual sp blk ep c u amt adds b sp' o :
  ep_stake virtual sp blk ep c u amt adds b = Ok (sp', o) -> Inv sp -> valid_id c ->
  exists sp1 s2 s5 m,
    pay_all sp c adds = Ok sp1 /\ pay (p_s sp) b b = Ok s2 /\ settle s2 blk = Ok s5 /\ 0 < amt /\
    merge_payments sp (mkSA (s_rps s5) 0 amt u) adds = Ok m /\
    let n := s_next (p_s sp) in
    o = [n; sa_amt m; b] /\
    p_attrs sp' = p_attrs sp ++ [(n, m)] /\ find_sattrs (p_attrs sp') n = Some m /\
    p_held sp' = aset (p_held sp1) (hkey n c) (sa_amt m) /\
    s_supply (p_s sp') = s_supply (p_s sp) + amt /\
    s_virt (p_s sp') = s_virt (p_s sp) + (if virtual then amt else 0) /\
    s_bal (p_s sp') = s_bal (p_s sp) - b + (if virtual then 0 else amt) /\
    s_rps (p_s sp') = s_rps s5.
Proof.
  unfold ep_stake. intros H I Hc.
  destruct (if virtual then whitelisted c else auth c u); [|discriminate].
  destruct (0 <? amt) eqn:Ea; [|discriminate]. apply Z.ltb_lt in Ea.
  apply bind_ok in H. destruct H as (sp1 & H1 & H).
  apply bind_ok in H. destruct H as (sp2 & H2 & H).
  destruct (active (p_s sp2)); [|discriminate].
  apply bind_ok in H. destruct H as (sp3 & H3 & H).
  apply bind_ok in H. destruct H as (sp5 & H5 & H). cbv zeta in H.
  apply bind_ok in H. destruct H as (m & Hm & H).
  destruct I as [IS IL IA IN ISup IAcc ISolv IUT].
  pose proof (pay_all_post _ _ _ _ H1 IL Hc) as PP.
  destruct PP as [r1 s1 l1 k1 pos1 le1]. apply rest_fields in r1. destruct r1 as (S1 & A1 & UB1 & UT1 & PD1).
  unfold ppay in H2. apply bind_ok in H2. destruct H2 as (s2 & Hs2 & H2). inversion H2; subst sp2; clear H2. rewrite S1 in Hs2.
  destruct (pay_full _ _ _ _ Hs2 IS) as (IS2 & F2 & Hb & Hr & Hbp & Hrb & Re2 & Pl2 & Bl2).
  pfr F2.
  pose proof (check_update_but _ _ _ _ H3) as B3. apply but_fields in B3. cbn in B3. destruct B3 as (S3 & A3 & HD3 & UB3 & PD3).
  unfold psettle in H5. apply bind_ok in H5. destruct H5 as (s5 & Hs5 & H5). inversion H5; subst sp5; clear H5.
  cbn [p_s increase_user set_utot] in Hs5. rewrite S3 in Hs5.
  destruct (settle_full _ _ _ Hs5 IS2) as (IS5 & F5 & _).
  sfr F5.
  cbn [p_s with_s increase_user set_utot] in *.
  set (s6 := if virtual then with_supply s5 (s_supply s5 + amt) (s_virt s5 + amt)
             else with_bal (with_supply s5 (s_supply s5 + amt) (s_virt s5)) (s_bal s5 + amt)) in *.
  assert (F6 : s_rps s6 = s_rps s5 /\ s_next s6 = s_next s5 /\ s_supply s6 = s_supply s5 + amt /\
               s_virt s6 = s_virt s5 + (if virtual then amt else 0) /\ s_bal s6 = s_bal s5 + (if virtual then 0 else amt)).
  { unfold s6. destruct virtual; cbn; repeat split; lia. }
  destruct F6 as (R6 & N6 & Su6 & Vi6 & Bl6).
  match type of Hm with merge_payments ?g0 _ _ = _ => set (g := g0) in * end.
  destruct (mint_pos g m c) as [sp7 n] eqn:Hmint. inversion H; subst sp' o; clear H.
  assert (Ag : p_attrs g = p_attrs sp) by (unfold g; cbn; congruence).
  assert (Hg : p_held g = p_held sp1) by (unfold g; cbn; congruence).
  assert (Sg : p_s g = s6) by reflexivity.
  assert (Lg : ledger_ok g).
  { destruct l1 as [nd nn fr1]. constructor; rewrite ?Hg; auto. intros k Hk. specialize (fr1 k Hk). rewrite S1 in fr1. rewrite Sg. lia. }
  assert (AFg : forall k a', In (k, a') (p_attrs g) -> k < s_next (p_s g)).
  { intros k a' Hin. rewrite Ag in Hin. destruct IA as [_ fr]. specialize (fr _ _ Hin). rewrite Sg. lia. }
  pose proof (merge_payments_amt _ _ _ _ Hm) as [Mamt _]. cbn [sa_amt] in Mamt.
  assert (Hp1 : 0 <= psum (fun _ => 1) adds) by (apply psum1_nonneg; eapply Forall_pos; exact pos1).
  apply mint_pos_post in Hmint; auto; try (rewrite Sg; lia); try lia.
  destruct Hmint as [mn ms mat mh _ mnew _ _ _ _ _].
  assert (En : n = s_next (p_s sp)) by (rewrite mn, Sg; lia).
  rewrite (merge_payments_ext adds sp g _ Ag) in Hm. rewrite R6 in Hm.
  exists sp1, s2, s5, m. cbv zeta. rewrite <- En.
  split; [exact H1|]. split; [exact Hs2|]. split; [exact Hs5|]. split; [exact Ea|]. split; [exact Hm|].
  split; [reflexivity|]. split; [rewrite mat, Ag; reflexivity|]. split; [exact mnew|].
  split; [rewrite mh, Hg; reflexivity|].
  rewrite ms, Sg. cbn. repeat split; lia.
Qed.

(** compoundRewards: the reward joins the principal of the new position, which starts at the settled index *)
Lemma ep_compound_shape sp blk ep c n0 x0 adds b sp' o :
  ep_compound sp blk ep c (n0, x0) adds b = Ok (sp', o) -> Inv sp -> valid_id c ->
  exists sp1 s2 s3 a base m,
    pay_all sp c ((n0, x0) :: adds) = Ok sp1 /\ settle (p_s sp) blk = Ok s2 /\
    find_sattrs (p_attrs sp) n0 = Some a /\ 0 < x0 /\
    base = base_formula (s_rps s2) (s_dsc (p_s sp)) (sa_rps a) x0 /\ 0 <= base /\
    pay s2 (base + b) b = Ok s3 /\
    let r := base + b in
    merge_payments sp (mkSA (s_rps s2) (comp_part a x0 + r) (x0 + r) c) adds = Ok m /\
    let n := s_next (p_s sp) in
    o = [n; sa_amt m] /\
    p_attrs sp' = p_attrs sp ++ [(n, m)] /\ find_sattrs (p_attrs sp') n = Some m /\
    p_held sp' = aset (p_held sp1) (hkey n c) (sa_amt m) /\
    s_supply (p_s sp') = s_supply (p_s sp) + r /\ s_virt (p_s sp') = s_virt (p_s sp) /\
    s_bal (p_s sp') = s_bal (p_s sp) /\ s_reserve (p_s sp') = s_reserve s2 - r /\
    s_rps (p_s sp') = s_rps s2.
Proof.
  unfold ep_compound. intros H I Hc.
  apply bind_ok in H. destruct H as (sp1 & H1 & H).
  destruct (active (p_s sp1)); [|discriminate].
  apply bind_ok in H. destruct H as (sp2 & H2 & H).
  apply bind_ok in H. destruct H as (a & Ha & H).
  apply bind_ok in H. destruct H as (part & Hpart & H).
  apply bind_ok in H. destruct H as (base & Hbase & H). cbv zeta in H.
  apply bind_ok in H. destruct H as (sp3 & H3 & H).
  apply bind_ok in H. destruct H as (sp4 & H4 & H).
  apply bind_ok in H. destruct H as (m & Hm & H).
  destruct I as [IS IL IA IN ISup IAcc ISolv IUT].
  pose proof (pay_all_post _ _ _ _ H1 IL Hc) as PP.
  destruct PP as [r1 s1 l1 k1 pos1 le1]. apply rest_fields in r1. destruct r1 as (S1 & A1 & UB1 & UT1 & PD1).
  unfold psettle in H2. apply bind_ok in H2. destruct H2 as (s2 & Hs2 & H2). inversion H2; subst sp2; clear H2.
  rewrite S1 in Hs2. destruct (settle_full _ _ _ Hs2 IS) as (IS2 & F2 & _ & total & cut & inc & _ & Hinc & _ & _ & _ & Rp2 & _).
  cbn [fst snd] in *.
  apply get_attrs_some in Ha. cbn [p_attrs with_s] in Ha. rewrite A1 in Ha.
  inversion pos1 as [|? ? [Hx0 Hin0] pos1']; subst. cbn [fst snd] in *.
  pose proof IA as [has fr]. destruct (has _ Hin0) as (a' & Ha' & Hra & Hpa). rewrite nonce_hkey in Ha' by assumption.
  assert (a' = a) by congruence. subst a'.
  pose proof (sinto_part_comp _ _ _ Hpart) as Pc. apply sinto_part_amt in Hpart. destruct Hpart as (Pa & Pr & Po).
  pose proof (k_wf _ IS) as (Hd & _).
  sfr F2.
  pose proof (base_reward_formula _ _ _ _ Hbase) as Hbf. cbn [p_s with_s] in Hbf. rewrite Pr in Hbf.
  apply sbase_reward_bound in Hbase; cbn [p_s with_s] in *; [|lia|lia|lia]. destruct Hbase as [Hb0 _].
  unfold ppay in H3. apply bind_ok in H3. destruct H3 as (s3 & Hs3 & H3). inversion H3; subst sp3; clear H3. cbn [p_s with_s] in Hs3.
  destruct (pay_full _ _ _ _ Hs3 IS2) as (IS3 & F3 & Hb & Hr & Hbp & Hrb & Re3 & Pl3 & Bl3).
  pfr F3.
  cbn [p_s with_s with_paid] in *.
  pose proof (check_update_but _ _ _ _ H4) as B4. apply but_fields in B4. cbn in B4. destruct B4 as (S4 & A4 & HD4 & UB4 & PD4).
  destruct (mint_pos sp4 m c) as [sp5 n] eqn:Hmint. inversion H; subst sp' o; clear H.
  assert (L4 : ledger_ok sp4).
  { destruct l1 as [nd nn fr1]. constructor; rewrite ?HD4; auto. intros k Hk. specialize (fr1 k Hk). rewrite S1 in fr1. rewrite S4. cbn. lia. }
  assert (Aeq : p_attrs sp4 = p_attrs sp) by congruence.
  assert (AF4 : forall k a', In (k, a') (p_attrs sp4) -> k < s_next (p_s sp4)).
  { intros k a' Hin. rewrite Aeq in Hin. specialize (fr _ _ Hin). rewrite S4. cbn. lia. }
  rewrite S4 in Hm. cbn [s_rps with_bal with_supply u_money u_core] in Hm.
  pose proof (merge_payments_amt _ _ _ _ Hm) as [Mamt _]. cbn [sa_amt] in Mamt.
  assert (Hp1 : 0 <= psum (fun _ => 1) adds) by (apply psum1_nonneg; eapply Forall_pos; exact pos1').
  apply mint_pos_post in Hmint; auto; try (rewrite S4; cbn; lia); try lia.
  destruct Hmint as [mn ms mat mh _ mnew _ _ _ _ _].
  assert (En : n = s_next (p_s sp)) by (rewrite mn, S4; cbn; lia).
  rewrite (merge_payments_ext adds sp sp4 _ Aeq) in Hm. rewrite Pc, Pa in Hm.
  replace (s_rps s3) with (s_rps s2) in Hm by lia.
  exists sp1, s2, s3, a, base, m. cbv zeta. rewrite <- En.
  split; [exact H1|]. split; [exact Hs2|]. split; [exact Ha|]. split; [exact Hx0|].
  split; [replace (s_dsc (p_s sp)) with (s_dsc s2) by lia; exact Hbf|]. split; [exact Hb0|]. split; [exact Hs3|]. split; [exact Hm|].
  split; [reflexivity|]. split; [cbn; rewrite mat, Aeq; reflexivity|]. split; [exact mnew|].
  split; [cbn; rewrite mh, HD4; reflexivity|].
  cbn [increase_user set_utot p_s]. rewrite ms, S4. cbn. repeat split; lia.
Qed.

(** mergeFarmTokens *)
Lemma ep_merge_shape sp blk ep c n0 x0 rest b sp' o :
  ep_merge sp blk ep c ((n0, x0) :: rest) b = Ok (sp', o) -> Inv sp -> valid_id c ->
  exists sp1 s2 a part m0,
    pay_all sp c ((n0, x0) :: rest) = Ok sp1 /\ pay (p_s sp) b b = Ok s2 /\
    find_sattrs (p_attrs sp) n0 = Some a /\ sinto_part a x0 = Ok part /\ 0 < x0 /\
    merge_payments sp part rest = Ok m0 /\
    let n := s_next (p_s sp) in
    let m := mkSA (sa_rps m0) (sa_comp m0) (sa_amt m0) c in
    o = [n; sa_amt m0; b] /\
    p_attrs sp' = p_attrs sp ++ [(n, m)] /\ find_sattrs (p_attrs sp') n = Some m /\
    p_held sp' = aset (p_held sp1) (hkey n c) (sa_amt m0) /\
    s_supply (p_s sp') = s_supply (p_s sp) /\ s_virt (p_s sp') = s_virt (p_s sp) /\ s_rps (p_s sp') = s_rps (p_s sp).
Proof.
  unfold ep_merge. intros H I Hc.
  apply bind_ok in H. destruct H as (sp1 & H1 & H).
  destruct (active (p_s sp1)); [|discriminate].
  apply bind_ok in H. destruct H as (sp2 & H2 & H).
  apply bind_ok in H. destruct H as (sp3 & H3 & H).
  apply bind_ok in H. destruct H as (a & Ha & H).
  apply bind_ok in H. destruct H as (part & Hpart & H).
  apply bind_ok in H. destruct H as (m0 & Hm & H). cbv zeta in H.
  destruct I as [IS IL IA IN ISup IAcc ISolv IUT].
  pose proof (pay_all_post _ _ _ _ H1 IL Hc) as PP.
  destruct PP as [r1 s1 l1 k1 pos1 le1]. apply rest_fields in r1. destruct r1 as (S1 & A1 & UB1 & UT1 & PD1).
  cbn [fst snd] in *.
  inversion pos1 as [|? ? [Hx0 Hin0] pos1']; subst. cbn [fst snd] in *.
  unfold ppay in H2. apply bind_ok in H2. destruct H2 as (s2 & Hs2 & H2). inversion H2; subst sp2; clear H2. rewrite S1 in Hs2.
  destruct (pay_full _ _ _ _ Hs2 IS) as (IS2 & F2 & _).
  pfr F2.
  pose proof (check_update_but _ _ _ _ H3) as B3. apply but_fields in B3. cbn in B3. destruct B3 as (S3 & A3 & HD3 & UB3 & PD3).
  assert (Aeq : p_attrs sp3 = p_attrs sp) by congruence.
  apply get_attrs_some in Ha. rewrite Aeq in Ha.
  pose proof (sinto_part_amt _ _ _ Hpart) as (Pa & Pr & Po).
  match type of H with (let '(_, _) := mint_pos _ ?mm _ in _) = _ => set (m := mm) in * end.
  destruct (mint_pos sp3 m c) as [sp4 n] eqn:Hmint. inversion H; subst sp' o; clear H.
  assert (L3 : ledger_ok sp3).
  { destruct l1 as [nd nn fr1]. constructor; rewrite ?HD3; auto. intros k Hk. specialize (fr1 k Hk). rewrite S1 in fr1. rewrite S3. lia. }
  assert (AF3 : forall k a', In (k, a') (p_attrs sp3) -> k < s_next (p_s sp3)).
  { intros k a' Hin. rewrite Aeq in Hin. destruct IA as [_ fr]. specialize (fr _ _ Hin). rewrite S3. lia. }
  pose proof (merge_payments_amt _ _ _ _ Hm) as [Mamt _].
  assert (Hp1 : 0 <= psum (fun _ => 1) rest) by (apply psum1_nonneg; eapply Forall_pos; exact pos1').
  apply mint_pos_post in Hmint; auto; try (rewrite S3; lia); try (unfold m; cbn; lia).
  destruct Hmint as [mn ms mat mh _ mnew _ _ _ _ _].
  assert (En : n = s_next (p_s sp)) by (rewrite mn, S3; lia).
  rewrite (merge_payments_ext rest sp sp3 _ Aeq) in Hm.
  exists sp1, s2, a, part, m0. cbv zeta. rewrite <- En. fold m.
  split; [exact H1|]. split; [exact Hs2|]. split; [exact Ha|]. split; [exact Hpart|]. split; [exact Hx0|]. split; [exact Hm|].
  split; [reflexivity|]. split; [rewrite mat, Aeq; reflexivity|]. split; [exact mnew|].
  split; [rewrite mh, HD3; reflexivity|].
  rewrite ms, S3. cbn. repeat split; lia.
Qed.

(** ------------------------------------------------------------------ the proxy's virtual principal *)
(** Histories in which the whitelisted proxy keeps its positions to itself (as farm-staking-proxy does:
    it holds the staking-farm tokens and hands out dual-yield tokens) and uses only its own endpoints for
    them: then the virtual principal is exactly what the proxy holds, so it is part of the supply and the
    C12 balance identity really backs every other position with staking tokens. *)
Definition is_proxy (k : Z) : Z := if holder_of k =? PROXY then 1 else 0.
Definition proxy_held (sp : spos) : Z := wsum is_proxy (p_held sp).
Definition VirtInv (sp : spos) : Prop := s_virt (p_s sp) = proxy_held sp.

Definition sep_op (op : pop) : Prop :=
  match op with
  | PStake _ _ c _ _ _ _ | PClaim _ _ c _ _ _ | PCompound _ _ c _ _ _ | PUnstake _ _ c _ _ _ | PMerge _ _ c _ _ => valid_id c /\ c <> PROXY
  | PStakeProxy _ _ c _ _ _ _ | PClaimNewValue _ _ c _ _ _ _ | PUnstakeProxy _ _ c _ _ _ _ => valid_id c
  | PTransfer _ s d _ => valid_id s /\ valid_id d /\ s <> PROXY /\ d <> PROXY
  | _ => True
  end.

Lemma sep_valid op : sep_op op -> pvalid_op op.
Proof. destruct op; cbn; tauto. Qed.

Lemma is_proxy_hkey n c : valid_id c -> is_proxy (hkey n c) = if c =? PROXY then 1 else 0.
Proof. intros H. unfold is_proxy. rewrite holder_hkey by assumption. reflexivity. Qed.

Fixpoint ksum (W : Z -> Z) (c : Z) (ps : list (Z * Z)) : Z :=
  match ps with [] => 0 | (n, x) :: t => x * W (hkey n c) + ksum W c t end.

Lemma pay_all_wsum ps : forall sp c sp1, pay_all sp c ps = Ok sp1 -> ledger_ok sp -> valid_id c ->
  forall W, wsum W (p_held sp1) = wsum W (p_held sp) - ksum W c ps.
Proof.
  induction ps as [|[n x] t IH]; intros sp c sp1 H L Hc W; cbn [pay_all] in H.
  - inversion H; subst. cbn. lia.
  - apply bind_ok in H. destruct H as (sp' & H1 & H).
    pose proof (pay_in_post _ _ _ _ H1 L Hc) as [_ _ l1 _ _ _].
    rewrite (IH _ _ _ H l1 Hc W). cbn [ksum].
    unfold pay_in in H1. destruct (0 <? x); [|discriminate]. apply bind_ok in H1. destruct H1 as (b & Hb & H1).
    inversion H1; subst sp'; clear H1. apply sub_chk_ok in Hb. destruct Hb as [_ ->]. cbn.
    rewrite wsum_aset by (destruct L; assumption). unfold held. lia.
Qed.

Lemma ksum_proxy c ps : valid_id c -> ksum is_proxy c ps = (if c =? PROXY then 1 else 0) * psum (fun _ => 1) ps.
Proof.
  intros Hc. induction ps as [|[n x] t IH]; cbn; [lia|]. rewrite IH, is_proxy_hkey by assumption. lia.
Qed.

Lemma fresh_zero sp n c : ledger_ok sp -> s_next (p_s sp) <= n -> valid_id c -> aget (p_held sp) (hkey n c) = 0.
Proof.
  intros [_ _ fr] Hn Hc. apply aget_notin. intros Hin. specialize (fr _ Hin). unfold hkey, valid_id in *. lia.
Qed.

Lemma wl_stake sp blk ep c u amt adds b r : ep_stake true sp blk ep c u amt adds b = Ok r -> c = PROXY.
Proof. unfold ep_stake. destruct (whitelisted c) eqn:E; [|discriminate]. intros _. apply Z.eqb_eq. exact E. Qed.
Lemma wl_claim sp blk ep c u p v b r : ep_claim sp blk ep c u p (Some v) b = Ok r -> c = PROXY.
Proof. unfold ep_claim. destruct (whitelisted c) eqn:E; [|discriminate]. intros _. apply Z.eqb_eq. exact E. Qed.
Lemma wl_unstake sp blk ep c u p v b r : ep_unstake sp blk ep c u p (Some v) b = Ok r -> c = PROXY.
Proof. unfold ep_unstake. destruct (whitelisted c) eqn:E; [|discriminate]. intros _. apply Z.eqb_eq. exact E. Qed.

Lemma proxy_valid : valid_id PROXY.
Proof. unfold valid_id, PROXY. lia. Qed.

Lemma admin_virt s a s' o : is_admin_op a = true -> sstep s a = Ok (s', o) -> StkInv s -> s_virt s' = s_virt s.
Proof.
  intros Ha H I.
  assert (Hset : forall blk s1, settle s blk = Ok s1 -> s_virt s1 = s_virt s).
  { intros blk s1 Hs. destruct (settle_full _ _ _ Hs I) as (_ & F & _). sfr F. assumption. }
  destruct a; try discriminate Ha; cbn [sstep] in H.
  - destruct (is_admin c); [|discriminate]. destruct (0 <? amt); [|discriminate]. inversion H; subst. reflexivity.
  - destruct (is_admin c); [|discriminate]. destruct (0 <=? w); [|discriminate].
    apply bind_ok in H. destruct H as (s1 & H1 & H). apply bind_ok in H. destruct H as (rem & _ & H).
    destruct (w <=? rem); [|discriminate]. apply bind_ok in H. destruct H as (c' & _ & H).
    apply bind_ok in H. destruct H as (b' & _ & H). inversion H; subst; clear H. cbn. eauto.
  - destruct (is_admin c); [|discriminate]. destruct (0 <? r); [|discriminate].
    apply bind_ok in H. destruct H as (s1 & H1 & H). inversion H; subst; clear H. cbn. eauto.
  - destruct (is_admin c); [|discriminate]. destruct (negb (s_rate s =? 0)); [|discriminate].
    destruct (negb (s_produce s)); [|discriminate]. inversion H; subst. reflexivity.
  - destruct (is_admin c); [|discriminate].
    apply bind_ok in H. destruct H as (s1 & H1 & H). inversion H; subst; clear H. cbn. eauto.
  - destruct (is_admin c); [|discriminate]. destruct (0 <? a); [|discriminate].
    apply bind_ok in H. destruct H as (s1 & H1 & H). inversion H; subst; clear H. cbn. eauto.
  - destruct (is_admin c); [|discriminate]. destruct (_ && _); [|discriminate]. inversion H; subst. reflexivity.
  - destruct (is_admin c); [|discriminate]. destruct (_ && _); [|discriminate].
    apply bind_ok in H. destruct H as (s1 & H1 & H). inversion H; subst; clear H. cbn. eauto.
  - destruct (is_admin c); [|discriminate]. inversion H; subst. reflexivity.
  - destruct (is_admin c); [|discriminate]. destruct (_ || _); [|discriminate]. inversion H; subst. reflexivity.
  - destruct (0 <? amt); [|discriminate]. inversion H; subst. reflexivity.
Qed.

Lemma unbond_virt s ep c n amt s' o : sstep s (SUnbond ep c n amt) = Ok (s', o) -> s_virt s' = s_virt s.
Proof.
  intros H. cbn [sstep] in H.
  destruct (active s); [|discriminate]. destruct (0 <? amt); [|discriminate].
  destruct (find_z (s_ub s) n); [|discriminate]. destruct (_ <=? ep); [|discriminate].
  apply bind_ok in H. destruct H as (rest & _ & H). apply bind_ok in H. destruct H as (b' & _ & H).
  apply bind_ok in H. destruct H as (t' & _ & H). inversion H; subst; clear H. reflexivity.
Qed.

Lemma settle_virt s blk s' : settle s blk = Ok s' -> StkInv s -> s_virt s' = s_virt s /\ s_next s' = s_next s.
Proof. intros H I. destruct (settle_full _ _ _ H I) as (_ & F & _). sfr F. auto. Qed.
Lemma pay_virt s r b s' : pay s r b = Ok s' -> StkInv s -> s_virt s' = s_virt s /\ s_next s' = s_next s.
Proof. intros H I. destruct (pay_full _ _ _ _ H I) as (_ & F & _). pfr F. auto. Qed.

Lemma pstep_virt sp op sp' o : pstep sp op = Ok (sp', o) -> Inv sp -> VirtInv sp -> sep_op op -> VirtInv sp'.
Proof.
  intros H I V S. unfold VirtInv, proxy_held in *. pose proof (i_led _ I) as L. pose proof (i_stk _ I) as IS.
  destruct op; cbn [pstep sep_op] in H, S.
  - (* Stake *) destruct S as [Hc Hne].
    destruct (ep_stake_shape _ _ _ _ _ _ _ _ _ _ _ H I Hc) as (sp1 & s2 & s5 & m & H1 & _ & _ & _ & _ & _ & _ & _ & Hh & _ & Hv & _).
    pose proof (pay_all_post _ _ _ _ H1 L Hc) as [_ _ l1 _ _ _].
    rewrite Hv, Hh, wsum_aset by (destruct l1; assumption). rewrite (pay_all_wsum _ _ _ _ H1 L Hc), ksum_proxy, is_proxy_hkey by assumption.
    destruct (c =? PROXY) eqn:E; [apply Z.eqb_eq in E; congruence | lia].
  - (* StakeProxy *) pose proof (wl_stake _ _ _ _ _ _ _ _ _ H) as ->.
    destruct (ep_stake_shape _ _ _ _ _ _ _ _ _ _ _ H I S) as (sp1 & s2 & s5 & m & H1 & _ & _ & _ & Hm & _ & _ & _ & Hh & _ & Hv & _).
    pose proof (pay_all_post _ _ _ _ H1 L S) as [r1 _ l1 _ _ _]. apply rest_fields in r1. destruct r1 as (S1 & _).
    pose proof (merge_payments_amt _ _ _ _ Hm) as [Ma _]. cbn in Ma.
    rewrite Hv, Hh, wsum_aset by (destruct l1; assumption). rewrite (fresh_zero sp1) by (auto; rewrite S1; lia).
    rewrite (pay_all_wsum _ _ _ _ H1 L S), ksum_proxy, is_proxy_hkey by assumption. rewrite Z.eqb_refl. lia.
  - (* Claim *) destruct S as [Hc Hne]. destruct p as [n0 x0].
    destruct (ep_claim_shape _ _ _ _ _ _ _ _ _ _ _ H I Hc) as (s2 & s3 & a & base & Hs2 & _ & _ & _ & Hs3 & _ & _ & _ & Hh & Hs & _).
    destruct (settle_virt _ _ _ Hs2 IS) as [V2 _]. destruct (settle_full _ _ _ Hs2 IS) as (IS2 & _). destruct (pay_virt _ _ _ _ Hs3 IS2) as [V3 _].
    rewrite Hs, Hh. cbn. destruct L as [nd nn fr].
    rewrite wsum_aset by (apply nodup_aset; assumption). rewrite wsum_aset by assumption. rewrite !is_proxy_hkey by assumption.
    destruct (c =? PROXY) eqn:E; [apply Z.eqb_eq in E; congruence | lia].
  - (* ClaimNewValue *) pose proof (wl_claim _ _ _ _ _ _ _ _ _ H) as ->. destruct p as [n0 x0].
    destruct (ep_claim_shape _ _ _ _ _ _ _ _ _ _ _ H I S) as (s2 & s3 & a & base & Hs2 & _ & Hx & _ & Hs3 & _ & _ & _ & Hh & Hs & _).
    destruct (settle_virt _ _ _ Hs2 IS) as [V2 _]. destruct (settle_full _ _ _ Hs2 IS) as (IS2 & _). destruct (pay_virt _ _ _ _ Hs3 IS2) as [V3 _].
    rewrite Hs, Hh. cbn. pose proof L as [nd nn fr].
    rewrite wsum_aset by (apply nodup_aset; assumption). rewrite wsum_aset by assumption. rewrite !is_proxy_hkey by assumption.
    rewrite Z.eqb_refl. unfold held in *.
    assert (Hz : aget (aset (p_held sp) (hkey n0 PROXY) (aget (p_held sp) (hkey n0 PROXY) - x0)) (hkey (s_next (p_s sp)) PROXY) = 0).
    { rewrite aget_aset_other.
      - apply (fresh_zero sp); auto; lia.
      - intros E. apply hkey_inj in E; auto. destruct E as [E _].
        assert (Hin : In (hkey n0 PROXY) (akeys (p_held sp))) by (apply aget_pos_in; lia).
        specialize (fr _ Hin). unfold hkey, valid_id in *. lia. }
    rewrite Hz. lia.
  - (* Compound *) destruct S as [Hc Hne]. destruct first as [n0 x0].
    destruct (ep_compound_shape _ _ _ _ _ _ _ _ _ _ H I Hc) as (sp1 & s2 & s3 & a & base & m & H1 & _ & _ & _ & _ & _ & _ & _ & _ & _ & _ & Hh & _ & Hv & _).
    pose proof (pay_all_post _ _ _ _ H1 L Hc) as [_ _ l1 _ _ _].
    rewrite Hv, Hh, wsum_aset by (destruct l1; assumption). rewrite (pay_all_wsum _ _ _ _ H1 L Hc), ksum_proxy, is_proxy_hkey by assumption.
    destruct (c =? PROXY) eqn:E; [apply Z.eqb_eq in E; congruence | lia].
  - (* Unstake *) destruct S as [Hc Hne]. destruct p as [n0 x0].
    destruct (ep_unstake_shape _ _ _ _ _ _ _ _ _ _ _ H I Hc) as (s2 & s3 & a & base & _ & _ & _ & _ & _ & _ & _ & Hh & _ & Hv & _).
    rewrite Hv, Hh. destruct L as [nd nn fr]. rewrite wsum_aset by assumption. rewrite is_proxy_hkey by assumption.
    destruct (c =? PROXY) eqn:E; [apply Z.eqb_eq in E; congruence | lia].
  - (* UnstakeProxy *) pose proof (wl_unstake _ _ _ _ _ _ _ _ _ H) as ->. destruct p as [n0 x0].
    destruct (ep_unstake_shape _ _ _ _ _ _ _ _ _ _ _ H I S) as (s2 & s3 & a & base & _ & _ & _ & _ & _ & _ & _ & Hh & _ & Hv & _).
    rewrite Hv, Hh. destruct L as [nd nn fr]. rewrite wsum_aset by assumption. rewrite is_proxy_hkey by assumption.
    rewrite Z.eqb_refl. unfold held. lia.
  - (* Unbond *) unfold ep_unbond in H. apply bind_ok in H. destruct H as (sp1 & H1 & H).
    apply bind_ok in H. destruct H as ([s' o'] & Hs & H). inversion H; subst sp' o; clear H. cbn [fst snd].
    destruct (debit_ub_shape _ _ _ _ H1) as (h & ->). cbn [p_s with_ubheld] in Hs. cbn [with_s with_ubheld p_s p_held]. rewrite (unbond_virt _ _ _ _ _ _ _ Hs). exact V.
  - (* Merge *) destruct S as [Hc Hne]. destruct ps as [|[n0 x0] rest]; [discriminate|].
    destruct (ep_merge_shape _ _ _ _ _ _ _ _ _ _ H I Hc) as (sp1 & s2 & a & part & m0 & H1 & _ & _ & _ & _ & _ & _ & _ & _ & Hh & _ & Hv & _).
    pose proof (pay_all_post _ _ _ _ H1 L Hc) as [_ _ l1 _ _ _].
    rewrite Hv, Hh, wsum_aset by (destruct l1; assumption). rewrite (pay_all_wsum _ _ _ _ H1 L Hc), ksum_proxy, is_proxy_hkey by assumption.
    destruct (c =? PROXY) eqn:E; [apply Z.eqb_eq in E; congruence | lia].
  - (* ClaimBoosted *) unfold ep_claim_boosted in H.
    destruct (negb (utot sp c =? 0)); [|discriminate]. destruct (active (p_s sp)); [|discriminate].
    apply bind_ok in H. destruct H as (sp1 & H1 & H). apply bind_ok in H. destruct H as (sp2 & H2 & H). inversion H; subst sp' o; clear H.
    unfold psettle in H1. apply bind_ok in H1. destruct H1 as (s1 & Hs1 & H1). inversion H1; subst sp1; clear H1.
    unfold ppay in H2. apply bind_ok in H2. destruct H2 as (s2 & Hs2 & H2). inversion H2; subst sp2; clear H2. cbn [p_s with_s] in Hs2. cbn [with_paid with_s p_s p_held].
    destruct (settle_virt _ _ _ Hs1 IS) as [V1 _]. destruct (settle_full _ _ _ Hs1 IS) as (IS1 & _). destruct (pay_virt _ _ _ _ Hs2 IS1) as [V2 _]. lia.
  - (* Transfer *) destruct S as (Hs & Hd & Hns & Hnd). unfold ep_transfer in H.
    apply bind_ok in H. destruct H as (sp1 & H1 & H). inversion H; subst sp' o; clear H.
    assert (H1' : pay_all sp src [(n, amt)] = Ok sp1) by (cbn [pay_all]; rewrite H1; reflexivity).
    pose proof (pay_all_post _ _ _ _ H1' L Hs) as [r1 _ l1 _ _ _]. apply rest_fields in r1. destruct r1 as (S1 & _).
    cbn. rewrite S1, wsum_aset by (destruct l1; assumption). rewrite (pay_all_wsum _ _ _ _ H1' L Hs), ksum_proxy, is_proxy_hkey by assumption.
    destruct (src =? PROXY) eqn:E1; [apply Z.eqb_eq in E1; congruence|]. destruct (dst =? PROXY) eqn:E2; [apply Z.eqb_eq in E2; congruence|]. lia.
  - (* TransferUb *) unfold ep_transfer_ub in H. apply bind_ok in H. destruct H as (sp1 & H1 & H). inversion H; subst sp' o; clear H.
    destruct (debit_ub_shape _ _ _ _ H1) as (h & ->). cbn. exact V.
  - (* Admin *) destruct (is_admin_op a) eqn:Ea; [|discriminate].
    apply bind_ok in H. destruct H as ([s' o'] & Hs & H). inversion H; subst sp' o; clear H. cbn [fst snd]. cbn.
    rewrite (admin_virt _ _ _ _ Ea Hs IS). exact V.
Qed.

Lemma wsum_le w w' l : all_nonneg l -> (forall k, w k <= w' k) -> wsum w l <= wsum w' l.
Proof.
  induction l as [|[k v] t IH]; cbn; intros NN H; [lia|]. inversion NN; subst. cbn in *. specialize (IH H3 H). specialize (H k). nia.
Qed.

(** the virtual principal is part of the supply: 0 <= virtual <= supply *)
Lemma virt_within_supply sp : Inv sp -> VirtInv sp -> 0 <= s_virt (p_s sp) <= s_supply (p_s sp).
Proof.
  intros I V. unfold VirtInv, proxy_held in V. rewrite V, <- (i_sup _ I). pose proof (lo_nn _ (i_led _ I)) as NN. split.
  - apply wsum_nonneg; [assumption|]. intros k _. unfold is_proxy. destruct (_ =? _); lia.
  - rewrite asum_wsum. apply wsum_le; [assumption|]. intros k. unfold is_proxy. destruct (_ =? _); lia.
Qed.

Lemma prun_virt ops : forall sp, Inv sp -> VirtInv sp -> Forall sep_op ops -> Inv (prun sp ops) /\ VirtInv (prun sp ops).
Proof.
  induction ops as [|op t IH]; intros sp I V S; cbn; [split; assumption|].
  inversion S; subst. unfold pstep_total. destruct (pstep sp op) as [[sp' o]|] eqn:E; [|apply IH; assumption].
  apply IH; [eapply pstep_inv; eauto; apply sep_valid; assumption | eapply pstep_virt; eauto | assumption].
Qed.

(** ------------------------------------------------------------------ solvency in the floor form of the property text *)
Fixpoint fsum (g : Z -> Z -> Z) (l : list (Z * Z)) : Z :=
  match l with [] => 0 | (k, v) :: t => g k v + fsum g t end.

(** what claiming the whole holding [v] under key [k] = (nonce, holder) would pay as base reward right now *)
Definition claim_floor (sp : spos) (k v : Z) : Z :=
  base_formula (s_rps (p_s sp)) (s_dsc (p_s sp)) (srps_of sp (nonce_of k)) v.
Definition sclaimable_floor (sp : spos) : Z := fsum (claim_floor sp) (p_held sp).

Lemma fsum_le_wsum d g w l : 0 < d -> (forall k v, In (k, v) l -> d * g k v <= v * w k) -> d * fsum g l <= wsum w l.
Proof.
  intros Hd. induction l as [|[k v] t IH]; cbn; intros H; [lia|].
  pose proof (H k v (or_introl eq_refl)). specialize (IH (fun k' v' Hin => H k' v' (or_intror Hin))). lia.
Qed.

Lemma in_akeys (l : list (Z * Z)) k v : In (k, v) l -> In k (akeys l).
Proof. intros H. unfold akeys. apply in_map_iff. exists (k, v). auto. Qed.

Lemma base_formula_bound R d e x : 0 < d -> 0 <= x -> e <= R -> 0 <= base_formula R d e x /\ d * base_formula R d e x <= x * (R - e).
Proof.
  intros Hd Hx He. unfold base_formula. destruct (e <? R) eqn:E.
  - apply Z.ltb_lt in E. pose proof (div_lo (x * (R - e)) d Hd). split; [apply div_nonneg; nia | lia].
  - nia.
Qed.

(** reserve >= sum over all holdings of floor(amount * (rps - rps_entry) / DSC) + all unclaimed boosted pools *)
Lemma floor_solvency sp : Inv sp ->
  sclaimable_floor sp + s_pool (p_s sp) <= s_reserve (p_s sp) /\ 0 <= sclaimable_floor sp.
Proof.
  intros [IS IL IA IN ISup IAcc ISolv IUT]. pose proof (k_wf _ IS) as (Hd & _).
  destruct IL as [nd nn fr]. destruct IA as [has _].
  assert (Hent : forall k v, In (k, v) (p_held sp) -> 0 <= claim_floor sp k v /\
            s_dsc (p_s sp) * claim_floor sp k v <= v * (s_rps (p_s sp) - srps_of sp (nonce_of k))).
  { intros k v Hin. unfold claim_floor. apply base_formula_bound; [assumption| |].
    - unfold all_nonneg in nn. rewrite Forall_forall in nn. apply (nn (k, v) Hin).
    - destruct (has k (in_akeys _ _ _ Hin)) as (a & Ha & Hr & _). unfold srps_of. rewrite Ha. exact Hr. }
  assert (H1 : s_dsc (p_s sp) * sclaimable_floor sp <= sclaimable sp).
  { unfold sclaimable_floor, sclaimable, hsum. apply fsum_le_wsum; [assumption|]. intros k v Hin. apply Hent. exact Hin. }
  assert (H0 : 0 <= sclaimable_floor sp).
  { unfold sclaimable_floor. clear - Hent. induction (p_held sp) as [|[k v] t IH]; cbn; [lia|].
    pose proof (Hent k v (or_introl eq_refl)). specialize (IH (fun k' v' Hin => Hent k' v' (or_intror Hin))). lia. }
  split; [nia | exact H0].
Qed.

(** a holding's share of the (un-floored) claimable total *)
Lemma holding_claimable sp k a : Inv sp -> find_sattrs (p_attrs sp) (nonce_of k) = Some a ->
  aget (p_held sp) k * (s_rps (p_s sp) - sa_rps a) <= sclaimable sp.
Proof.
  intros [IS [nd nn fr] [has _] IN ISup IAcc ISolv IUT] Ha. unfold sclaimable, hsum.
  pose proof (wsum_ge_entry (fun k0 => s_rps (p_s sp) - srps_of sp (nonce_of k0)) (p_held sp) k nd nn) as G.
  cbv beta in G.
  assert (Hw : forall k0, In k0 (akeys (p_held sp)) -> 0 <= s_rps (p_s sp) - srps_of sp (nonce_of k0)).
  { intros k0 Hk0. destruct (has k0 Hk0) as (a0 & Ha0 & Hr0 & _). unfold srps_of. rewrite Ha0. lia. }
  specialize (G Hw). unfold srps_of at 1 in G. rewrite Ha in G. exact G.
Qed.

(** ------------------------------------------------------------------ the saturating decrease never saturates (C07) *)
(** in every reachable state the recorded owner's total covers each holding of each of his positions, so
    decrease_user_farm_position's "else clear" branch is taken only when total = amount exactly *)
Lemma owner_total_covers sp k a : Inv sp -> find_sattrs (p_attrs sp) (nonce_of k) = Some a ->
  aget (p_held sp) k <= utot sp (sa_owner a).
Proof.
  intros [IS [nd nn fr] IA IN ISup IAcc ISolv IUT] Ha. rewrite IUT. unfold hsum.
  pose proof (wsum_ge_entry (fun k0 => sind sp (sa_owner a) (nonce_of k0)) (p_held sp) k nd nn) as G.
  cbv beta in G. specialize (G (fun k0 _ => sind_nonneg sp (sa_owner a) (nonce_of k0))).
  unfold sind at 1, sowner_of in G. rewrite Ha, Z.eqb_refl in G. rewrite Z.mul_1_r in G. exact G.
Qed.

Lemma decrease_exact sp c n x a : Inv sp -> valid_id c -> find_sattrs (p_attrs sp) n = Some a -> 0 < x <= held sp n c ->
  exists sp', decrease_user sp (n, x) = Ok sp' /\ utot sp' (sa_owner a) = utot sp (sa_owner a) - x /\
              (forall w, w <> sa_owner a -> utot sp' w = utot sp w).
Proof.
  intros I Hc Ha Hx. pose proof (owner_total_covers sp (hkey n c) a I) as Hcov. rewrite nonce_hkey in Hcov by assumption.
  specialize (Hcov Ha). unfold held in Hx.
  unfold decrease_user, get_attrs. rewrite Ha. cbn.
  eexists. split; [reflexivity|]. destruct (x <? utot sp (sa_owner a)) eqn:E.
  - split; [apply sutot_set_same | intros w Hw; apply sutot_set_other; congruence].
  - apply Z.ltb_ge in E. split; [rewrite sutot_set_same; lia | intros w Hw; apply sutot_set_other; congruence].
Qed.

(** ------------------------------------------------------------------ no legitimate operation fails on a counter (C05) *)
Lemma settle_total s blk : StkInv s -> exists s', settle s blk = Ok s'.
Proof.
  intros I. pose proof (k_cap _ I) as Hc. unfold settle, sub_chk.
  destruct (s_cap s <? s_acc s) eqn:E; [apply Z.ltb_lt in E; lia|]. cbn [bind].
  destruct (blk <=? s_last s); [eauto|]. cbv zeta.
  destruct (_ =? 0); [eauto|].
  destruct (s_supply s =? 0) eqn:ES; cbn [bind]; [eauto|].
  unfold div_chk. rewrite ES. cbn [bind]. eauto.
Qed.

Lemma pay_total s r b : StkInv s -> 0 <= b <= r -> r <= s_reserve s -> b <= s_pool s -> s_virt s <= s_supply s ->
  exists s', pay s r b = Ok s'.
Proof.
  intros [cap kb ub ubnd ubnn fr fr2 (w1 & w2 & w3 & w4 & w5 & w6 & w7 & w8 & w9)] Hb Hr Hp Hv.
  pose proof (asum_nonneg _ ubnn) as Hu.
  unfold pay, sub_chk.
  destruct ((0 <=? b) && (b <=? r)) eqn:E; [|apply andb_false_iff in E; destruct E as [E|E]; apply Z.leb_gt in E; lia].
  destruct (s_reserve s <? r) eqn:E1; [apply Z.ltb_lt in E1; lia|]. cbn [bind].
  destruct (s_pool s <? b) eqn:E2; [apply Z.ltb_lt in E2; lia|]. cbn [bind].
  destruct (s_bal s <? r) eqn:E3; [apply Z.ltb_lt in E3; lia|]. cbn [bind]. eauto.
Qed.

Lemma check_update_total ps : forall sp u, Forall (fun p : Z * Z => exists a, find_sattrs (p_attrs sp) (fst p) = Some a) ps ->
  exists sp', check_update sp u ps = Ok sp'.
Proof.
  induction ps as [|[n x] t IH]; intros sp u H; cbn [check_update]; [eauto|].
  inversion H as [|? ? (a & Ha) Ht]; subst. cbn [fst] in Ha.
  unfold get_attrs at 1. rewrite Ha. cbn [bind].
  destruct (sa_owner a =? u); [apply IH; assumption|].
  unfold decrease_user, get_attrs. rewrite Ha. cbn [bind].
  apply IH. destruct (x <? utot sp (sa_owner a)); exact Ht.
Qed.

Lemma sinto_part_total a x : 0 < sa_amt a -> exists p, sinto_part a x = Ok p.
Proof.
  intros Ha. unfold sinto_part, Farm.rule3. destruct (x =? sa_amt a); [eauto|].
  unfold div_chk. destruct (sa_amt a =? 0) eqn:E; [apply Z.eqb_eq in E; lia|]. cbn [bind]. eauto.
Qed.

Lemma smerge_total a b : 0 < sa_amt a + sa_amt b -> exists m, smerge_with a b = Ok m.
Proof.
  intros H. unfold smerge_with, Farm.ceil_avg, div_chk.
  destruct (sa_amt a + sa_amt b =? 0) eqn:E; [apply Z.eqb_eq in E; lia|]. cbn [bind]. eauto.
Qed.

Lemma merge_payments_total ps : forall sp base, 0 < sa_amt base ->
  Forall (fun p : Z * Z => 0 < snd p /\ exists a, find_sattrs (p_attrs sp) (fst p) = Some a /\ 0 < sa_amt a) ps ->
  exists m, merge_payments sp base ps = Ok m.
Proof.
  induction ps as [|[n x] t IH]; intros sp base Hb H; cbn [merge_payments]; [eauto|].
  inversion H as [|? ? (Hx & a & Ha & Hpa) Ht]; subst. cbn [fst snd] in *.
  unfold get_attrs. rewrite Ha. cbn [bind].
  destruct (sinto_part_total a x Hpa) as (p & Hp). rewrite Hp. cbn [bind].
  apply sinto_part_amt in Hp. destruct Hp as (Pa & _).
  destruct (smerge_total base p ltac:(lia)) as (m & Hm). rewrite Hm. cbn [bind].
  apply IH; [|exact Ht]. apply smerge_amt in Hm. lia.
Qed.

(** whoever pays positions in holds them: their attributes exist and their amounts are positive *)
Lemma pay_all_have ps : forall sp c sp1, pay_all sp c ps = Ok sp1 -> ledger_ok sp -> AttrOK sp -> valid_id c ->
  Forall (fun p : Z * Z => 0 < snd p /\ exists a, find_sattrs (p_attrs sp) (fst p) = Some a /\ 0 < sa_amt a) ps.
Proof.
  induction ps as [|[n x] t IH]; intros sp c sp1 H L A Hc; cbn [pay_all] in H; [constructor|].
  apply bind_ok in H. destruct H as (sp' & H1 & H).
  pose proof (pay_in_post _ _ _ _ H1 L Hc) as [r1 _ l1 k1 pos1 le1]. apply rest_fields in r1. destruct r1 as (S1 & A1 & _).
  inversion pos1 as [|? ? [Hx Hin] _]; subst. cbn [fst snd] in *.
  assert (Hheld : x <= aget (p_held sp) (hkey n c)).
  { unfold pay_in in H1. destruct (0 <? x); [|discriminate]. apply bind_ok in H1. destruct H1 as (b0 & Hb0 & _).
    apply sub_chk_ok in Hb0. unfold held in Hb0. lia. }
  constructor.
  - cbn [fst snd]. split; [exact Hx|]. destruct (ao_has _ A _ Hin) as (a & Ha & _ & Hp). rewrite nonce_hkey in Ha by assumption.
    exists a. split; [exact Ha | apply Hp; lia].
  - assert (A' : AttrOK sp').
    { apply (AttrOK_shrink sp sp' A); auto; rewrite ?S1; lia. }
    specialize (IH _ _ _ H l1 A' Hc). rewrite A1 in IH. exact IH.
Qed.

Lemma Forall_have_attrs (at_ : list (Z * sattrs)) ps :
  Forall (fun p : Z * Z => 0 < snd p /\ exists a, find_sattrs at_ (fst p) = Some a /\ 0 < sa_amt a) ps ->
  Forall (fun p : Z * Z => exists a, find_sattrs at_ (fst p) = Some a) ps.
Proof. intros H. eapply Forall_impl; [|exact H]. intros p (_ & a & Ha & _). exists a. exact Ha. Qed.

(** the base reward of a part of a holding, plus any boosted payout within the pools, is always payable *)
Lemma reward_payable sp c n0 x0 a b : Inv sp -> valid_id c -> s_virt (p_s sp) <= s_supply (p_s sp) ->
  find_sattrs (p_attrs sp) n0 = Some a -> 0 < x0 <= held sp n0 c -> 0 <= b <= s_pool (p_s sp) ->
  let base := base_formula (s_rps (p_s sp)) (s_dsc (p_s sp)) (sa_rps a) x0 in
  0 <= base /\ exists s', pay (p_s sp) (base + b) b = Ok s'.
Proof.
  intros I Hc Hv Ha Hx Hb base.
  pose proof (holding_claimable sp (hkey n0 c) a I) as Hcl. rewrite nonce_hkey in Hcl by assumption. specialize (Hcl Ha).
  pose proof I as [IS IL IA IN ISup IAcc ISolv IUT]. pose proof (k_wf _ IS) as (Hd & _).
  assert (Hin : In (hkey n0 c) (akeys (p_held sp))) by (apply aget_pos_in; unfold held in Hx; lia).
  destruct (ao_has _ IA _ Hin) as (a' & Ha' & Hr & _). rewrite nonce_hkey in Ha' by assumption. assert (a' = a) by congruence. subst a'.
  destruct (base_formula_bound (s_rps (p_s sp)) (s_dsc (p_s sp)) (sa_rps a) x0 Hd ltac:(lia) Hr) as [Hb0 Hbb]. fold base in Hb0, Hbb.
  split; [exact Hb0|]. unfold held in Hx.
  apply pay_total; auto; try lia. nia.
Qed.

Lemma base_reward_total sp a x : 0 < s_dsc (p_s sp) ->
  base_reward sp a x = Ok (base_formula (s_rps (p_s sp)) (s_dsc (p_s sp)) (sa_rps a) x).
Proof.
  intros Hd. unfold base_reward, base_formula, div_chk. destruct (sa_rps a <? s_rps (p_s sp)); [|reflexivity].
  destruct (s_dsc (p_s sp) =? 0) eqn:E; [apply Z.eqb_eq in E; lia | reflexivity].
Qed.

Lemma pay_single_total sp c n x : 0 < x <= held sp n c ->
  pay_all sp c [(n, x)] = Ok (with_held sp (aset (p_held sp) (hkey n c) (held sp n c - x))).
Proof.
  intros Hx. cbn [pay_all]. unfold pay_in, sub_chk.
  destruct (0 <? x) eqn:E; [|apply Z.ltb_ge in E; lia].
  destruct (held sp n c <? x) eqn:E2; [apply Z.ltb_lt in E2; lia|]. reflexivity.
Qed.

(** the state right after the settlement of an endpoint satisfies the whole invariant again *)
Lemma Inv_settled sp blk s2 : Inv sp -> settle (p_s sp) blk = Ok s2 -> Inv (with_s sp s2).
Proof.
  intros I H. destruct (settle_frame _ _ _ H (i_stk _ I)) as (I2 & A & B & C & D). apply Inv_stk_step; auto.
Qed.

(** common prefix of claim / unstake / compound: pay the first position in, settle, compute and pay its reward *)
Lemma claim_prefix_live sp blk c n0 x0 b (rest : list (Z * Z)) sp1 :
  Inv sp -> valid_id c -> s_virt (p_s sp) <= s_supply (p_s sp) ->
  pay_all sp c ((n0, x0) :: rest) = Ok sp1 ->
  (forall s2, settle (p_s sp) blk = Ok s2 -> 0 <= b <= s_pool s2) ->
  exists s2 a part base s3,
    settle (p_s sp) blk = Ok s2 /\ psettle sp1 blk = Ok (with_s sp1 s2) /\
    find_sattrs (p_attrs sp) n0 = Some a /\ get_attrs (with_s sp1 s2) n0 = Ok a /\
    sinto_part a x0 = Ok part /\ sa_amt part = x0 /\ 0 < x0 <= held sp n0 c /\
    base_reward (with_s sp1 s2) part x0 = Ok base /\ 0 <= base /\
    pay s2 (base + b) b = Ok s3 /\
    ppay (with_s sp1 s2) (base + b) b = Ok (with_paid (with_s sp1 s2) s3 (p_paid sp1 + (base + b))) /\
    StkInv s3 /\ s_supply s3 = s_supply (p_s sp) /\ s_next s3 = s_next (p_s sp).
Proof.
  intros I Hc Hv H1 Hb.
  pose proof I as [IS IL IA IN ISup IAcc ISolv IUT]. pose proof (k_wf _ IS) as (Hd & _).
  pose proof (pay_all_post _ _ _ _ H1 IL Hc) as [r1 _ _ _ pos1 _]. apply rest_fields in r1. destruct r1 as (S1 & A1 & _ & _ & PD1).
  pose proof (pay_all_have _ _ _ _ H1 IL IA Hc) as Hhave.
  inversion Hhave as [|? ? (Hx0 & a & Ha & Hpa) _]; subst. cbn [fst snd] in *.
  assert (Hheld : x0 <= held sp n0 c).
  { cbn [pay_all] in H1. apply bind_ok in H1. destruct H1 as (sp' & H1 & _). unfold pay_in in H1.
    destruct (0 <? x0); [|discriminate]. apply bind_ok in H1. destruct H1 as (b0 & Hb0 & _). apply sub_chk_ok in Hb0. lia. }
  destruct (settle_total (p_s sp) blk IS) as (s2 & Hs2).
  pose proof (Inv_settled _ _ _ I Hs2) as I2.
  destruct (settle_full _ _ _ Hs2 IS) as (IS2 & F2 & _). sfr F2.
  destruct (sinto_part_total a x0 Hpa) as (part & Hpart).
  pose proof (sinto_part_amt _ _ _ Hpart) as (Pa & Pr & _).
  destruct (reward_payable (with_s sp s2) c n0 x0 a b I2 Hc ltac:(cbn; lia) Ha ltac:(unfold held in *; cbn; lia) (Hb _ Hs2)) as (Hb0 & s3 & Hs3).
  cbn [p_s with_s] in Hb0, Hs3.
  destruct (pay_full _ _ _ _ Hs3 IS2) as (IS3 & F3 & _). pfr F3.
  exists s2, a, part, (base_formula (s_rps s2) (s_dsc s2) (sa_rps a) x0), s3.
  split; [exact Hs2|]. split; [unfold psettle; rewrite S1, Hs2; reflexivity|]. split; [exact Ha|].
  split; [unfold get_attrs; cbn; rewrite A1, Ha; reflexivity|]. split; [exact Hpart|]. split; [exact Pa|]. split; [lia|].
  split; [rewrite base_reward_total by (cbn; lia); cbn; rewrite Pr; reflexivity|]. split; [exact Hb0|]. split; [exact Hs3|].
  split; [unfold ppay; cbn [p_s with_s]; rewrite Hs3; reflexivity|]. split; [exact IS3|]. split; lia.
Qed.

Lemma ep_claim_live sp blk ep c u n0 x0 newv b :
  Inv sp -> valid_id c -> s_virt (p_s sp) <= s_supply (p_s sp) ->
  (match newv with Some v => whitelisted c = true /\ 0 <= v | None => auth c u = true end) ->
  active (p_s sp) = true -> 0 < x0 <= held sp n0 c ->
  (forall s2, settle (p_s sp) blk = Ok s2 -> 0 <= b <= s_pool s2) ->
  exists r, ep_claim sp blk ep c u (n0, x0) newv b = Ok r.
Proof.
  intros I Hc Hv Hg Hact Hx Hb.
  pose proof (pay_single_total sp c n0 x0 Hx) as H1.
  set (sp1 := with_held sp _) in H1. clearbody sp1.
  destruct (claim_prefix_live sp blk c n0 x0 b [] sp1 I Hc Hv H1 Hb)
    as (s2 & a & part & base & s3 & Hs2 & Hps & Ha & Hga & Hpart & Pa & _ & Hbase & Hb0 & Hs3 & Hpp & IS3 & Su3 & Nx3).
  pose proof I as [IS IL IA IN ISup IAcc ISolv IUT].
  pose proof (pay_all_post _ _ _ _ H1 IL Hc) as PP.
  pose proof (ut_after_pay _ _ _ _ PP IUT) as U1.
  destruct PP as [r1 _ l1 _ pos1 _]. apply rest_fields in r1. destruct r1 as (S1 & A1 & _ & UT1 & PD1).
  set (h := with_paid (with_s sp1 s2) s3 (p_paid sp1 + (base + b))) in *.
  assert (Hat : Forall (fun p : Z * Z => exists a0, find_sattrs (p_attrs h) (fst p) = Some a0) [(n0, x0)]).
  { constructor; [|constructor]. exists a. unfold h. cbn [p_attrs with_paid with_s fst]. rewrite A1. exact Ha. }
  destruct (check_update_total _ h u Hat) as (sp4 & H4).
  unfold ep_claim.
  assert (G1 : (match newv with Some _ => whitelisted c | None => auth c u end) = true) by (destruct newv; tauto).
  assert (G2 : (match newv with Some v => 0 <=? v | None => true end) = true) by (destruct newv as [v|]; [apply Z.leb_le; tauto | reflexivity]).
  rewrite G1, G2, H1. cbn [bind]. rewrite S1, Hact.
  rewrite Hps. cbn [bind fst snd]. rewrite Hga. cbn [bind]. rewrite Hpart. cbn [bind]. rewrite Hbase. cbn [bind]. rewrite Hpp. cbn [bind].
  fold h. rewrite H4. cbn [bind].
  destruct newv as [v|].
  - pose proof (check_update_but _ _ _ _ H4) as B4. apply but_fields in B4. destruct B4 as (S4 & A4 & HD4 & _).
    cbn [sa_amt]. rewrite Pa.
    assert (Hsup : x0 <= s_supply (p_s sp4)).
    { rewrite S4. unfold h. cbn [p_s with_paid]. rewrite Su3, <- ISup. destruct IL as [nd nn _].
      pose proof (aget_le_asum (p_held sp) (hkey n0 c) nd nn). unfold held in Hx. lia. }
    assert (Hut : x0 <= utot sp4 u).
    { pose proof (check_update_ut [(n0, x0)] h u sp4 (fun v0 => hsum (sind sp1 v0) (p_held sp1)) 0 H4
                    ltac:(constructor; [cbn; lia | constructor])
                    ltac:(intros w; unfold utot; change (p_utot h) with (p_utot sp1); fold (utot sp1 w); rewrite U1;
                          change (sind h w) with (sind sp1 w); destruct (w =? u); lia)
                    ltac:(intros w; apply hsum_sind_nonneg; exact (lo_nn _ l1)) ltac:(lia) u) as U4.
      rewrite U4, Z.eqb_refl. cbn [psum]. pose proof (hsum_sind_nonneg sp1 u _ (lo_nn _ l1)). lia. }
    unfold sub_chk.
    destruct (s_supply (p_s sp4) <? x0) eqn:E1; [apply Z.ltb_lt in E1; lia|]. cbn [bind].
    destruct (utot sp4 u <? x0) eqn:E2; [apply Z.ltb_lt in E2; lia|]. cbn [bind].
    match goal with |- context [mint_pos ?g ?m c] => destruct (mint_pos g m c) as [sp6 n] end. eauto.
  - match goal with |- context [mint_pos ?g ?m c] => destruct (mint_pos g m c) as [sp5 n] end. eauto.
Qed.

Lemma sclaimable_nonneg sp : Inv sp -> 0 <= sclaimable sp.
Proof.
  intros [IS [nd nn fr] [has _] IN ISup IAcc ISolv IUT]. unfold sclaimable, hsum. apply wsum_nonneg; [assumption|].
  intros k Hk. destruct (has k Hk) as (a & Ha & Hr & _). unfold srps_of. rewrite Ha. lia.
Qed.

(** the boosted pools are always inside the reserve *)
Lemma pool_le_reserve sp : Inv sp -> 0 <= s_pool (p_s sp) <= s_reserve (p_s sp).
Proof.
  intros I. pose proof (sclaimable_nonneg sp I). pose proof (i_solv _ I). pose proof (k_wf _ (i_stk _ I)) as (Hd & _ & _ & _ & _ & _ & Hp & _).
  split; [exact Hp | nia].
Qed.

Lemma ep_unstake_live sp blk ep c u n0 x0 t b :
  Inv sp -> valid_id c -> s_virt (p_s sp) <= s_supply (p_s sp) ->
  (match t with Some v => whitelisted c = true /\ 0 < v | None => auth c u = true end) ->
  active (p_s sp) = true -> 0 < x0 <= held sp n0 c ->
  (forall s2, settle (p_s sp) blk = Ok s2 -> 0 <= b <= s_pool s2) ->
  exists r, ep_unstake sp blk ep c u (n0, x0) t b = Ok r.
Proof.
  intros I Hc Hv Hg Hact Hx Hb.
  pose proof (pay_single_total sp c n0 x0 Hx) as H1.
  set (sp1 := with_held sp _) in H1. clearbody sp1.
  destruct (claim_prefix_live sp blk c n0 x0 b [] sp1 I Hc Hv H1 Hb)
    as (s2 & a & part & base & s3 & Hs2 & Hps & Ha & Hga & Hpart & Pa & _ & Hbase & Hb0 & Hs3 & Hpp & IS3 & Su3 & Nx3).
  pose proof I as [IS IL IA IN ISup IAcc ISolv IUT].
  pose proof (pay_all_post _ _ _ _ H1 IL Hc) as [r1 _ l1 _ pos1 _]. apply rest_fields in r1. destruct r1 as (S1 & A1 & _ & UT1 & PD1).
  set (h := with_paid (with_s sp1 s2) s3 (p_paid sp1 + (base + b))) in *.
  assert (Hah : find_sattrs (p_attrs h) n0 = Some a) by (unfold h; cbn [p_attrs with_paid with_s]; rewrite A1; exact Ha).
  unfold ep_unstake.
  assert (G1 : (match t with Some _ => whitelisted c | None => auth c u end) = true) by (destruct t; tauto).
  assert (G2 : (match t with Some v => 0 <? v | None => true end) = true) by (destruct t as [v|]; [apply Z.ltb_lt; tauto | reflexivity]).
  rewrite G1, G2, H1. cbn [bind]. rewrite S1, Hact.
  rewrite Hps. cbn [bind fst snd]. rewrite Hga. cbn [bind]. rewrite Hpart. cbn [bind]. rewrite Hbase. cbn [bind]. rewrite Hpp. cbn [bind].
  fold h. unfold decrease_user, get_attrs. rewrite Hah. cbn [bind]. cbv zeta.
  assert (Hsup : x0 <= s_supply s3).
  { rewrite Su3, <- ISup. destruct IL as [nd nn _]. pose proof (aget_le_asum (p_held sp) (hkey n0 c) nd nn). unfold held in Hx. lia. }
  rewrite Pa.
  match goal with |- context [sub_chk (s_supply (p_s ?g)) x0] => replace (s_supply (p_s g)) with (s_supply s3) by (destruct (x0 <? utot h (sa_owner a)); reflexivity) end.
  unfold sub_chk. destruct (s_supply s3 <? x0) eqn:E1; [apply Z.ltb_lt in E1; lia|]. cbn [bind].
  match goal with |- context [mint_unbond ?s5 ep ?am] => destruct (mint_unbond s5 ep am) as [s6 n] end. eauto.
Qed.

Lemma ep_compound_live sp blk ep c n0 x0 adds b sp1 :
  Inv sp -> valid_id c -> s_virt (p_s sp) <= s_supply (p_s sp) ->
  active (p_s sp) = true -> pay_all sp c ((n0, x0) :: adds) = Ok sp1 ->
  (forall s2, settle (p_s sp) blk = Ok s2 -> 0 <= b <= s_pool s2) ->
  exists r, ep_compound sp blk ep c (n0, x0) adds b = Ok r.
Proof.
  intros I Hc Hv Hact H1 Hb.
  destruct (claim_prefix_live sp blk c n0 x0 b adds sp1 I Hc Hv H1 Hb)
    as (s2 & a & part & base & s3 & Hs2 & Hps & Ha & Hga & Hpart & Pa & Hx & Hbase & Hb0 & Hs3 & Hpp & IS3 & Su3 & Nx3).
  pose proof I as [IS IL IA IN ISup IAcc ISolv IUT].
  pose proof (pay_all_post _ _ _ _ H1 IL Hc) as [r1 _ l1 _ pos1 _]. apply rest_fields in r1. destruct r1 as (S1 & A1 & _ & UT1 & PD1).
  pose proof (pay_all_have _ _ _ _ H1 IL IA Hc) as Hhave.
  unfold ep_compound. rewrite H1. cbn [bind]. rewrite S1, Hact.
  rewrite Hps. cbn [bind fst snd]. rewrite Hga. cbn [bind]. rewrite Hpart. cbn [bind]. rewrite Hbase. cbn [bind]. cbv zeta. rewrite Hpp. cbn [bind].
  match goal with |- context [check_update ?g c _] => set (g3 := g) end.
  assert (A3 : p_attrs g3 = p_attrs sp) by (unfold g3; cbn; exact A1).
  destruct (check_update_total ((n0, x0) :: adds) g3 c ltac:(rewrite A3; apply Forall_have_attrs; exact Hhave)) as (sp4 & H4).
  rewrite H4. cbn [bind].
  pose proof (check_update_but _ _ _ _ H4) as B4. apply but_fields in B4. destruct B4 as (_ & A4 & _).
  inversion Hhave as [|? ? _ Hhave']; subst.
  destruct (merge_payments_total adds sp4 (mkSA (s_rps (p_s sp4)) (sa_comp part + (base + b)) (sa_amt part + (base + b)) c)
              ltac:(cbn; specialize (Hb _ Hs2); lia) ltac:(rewrite A4, A3; exact Hhave')) as (m & Hm).
  rewrite Hm. cbn [bind].
  destruct (mint_pos sp4 m c) as [sp5 n]. eauto.
Qed.

Lemma ep_stake_live (virtual : bool) sp blk ep c u amt adds b sp1 :
  Inv sp -> valid_id c -> s_virt (p_s sp) <= s_supply (p_s sp) ->
  (if virtual then whitelisted c else auth c u) = true -> 0 < amt ->
  active (p_s sp) = true -> pay_all sp c adds = Ok sp1 -> 0 <= b <= s_pool (p_s sp) ->
  exists r, ep_stake virtual sp blk ep c u amt adds b = Ok r.
Proof.
  intros I Hc Hv Hg Ha Hact H1 Hb.
  pose proof I as [IS IL IA IN ISup IAcc ISolv IUT].
  pose proof (pay_all_post _ _ _ _ H1 IL Hc) as [r1 _ l1 _ pos1 _]. apply rest_fields in r1. destruct r1 as (S1 & A1 & _ & UT1 & PD1).
  pose proof (pay_all_have _ _ _ _ H1 IL IA Hc) as Hhave.
  pose proof (pool_le_reserve sp I) as Hpr.
  destruct (pay_total (p_s sp) b b IS ltac:(lia) ltac:(lia) ltac:(lia) Hv) as (s2 & Hs2).
  destruct (pay_full _ _ _ _ Hs2 IS) as (IS2 & F2 & _). pfr F2.
  unfold ep_stake. rewrite Hg. destruct (0 <? amt) eqn:E; [|apply Z.ltb_ge in E; lia].
  rewrite H1. cbn [bind]. unfold ppay. rewrite S1, Hs2. cbn [bind p_s with_paid].
  replace (active s2) with true by (unfold active in *; congruence).
  match goal with |- context [check_update ?g u _] => set (g2 := g) end.
  assert (A2 : p_attrs g2 = p_attrs sp) by (unfold g2; cbn; exact A1).
  destruct (check_update_total adds g2 u ltac:(rewrite A2; apply Forall_have_attrs; exact Hhave)) as (sp3 & Hcu).
  rewrite Hcu. cbn [bind].
  pose proof (check_update_but _ _ _ _ Hcu) as B3. apply but_fields in B3. destruct B3 as (S3 & A3 & _).
  unfold psettle. cbn [p_s increase_user set_utot]. rewrite S3. unfold g2. cbn [p_s with_paid].
  destruct (settle_total s2 blk IS2) as (s5 & Hs5). rewrite Hs5. cbn [bind]. cbv zeta. cbn [p_s with_s].
  match goal with |- context [merge_payments ?g ?bs adds] =>
    destruct (merge_payments_total adds g bs ltac:(cbn; lia) ltac:(cbn [p_attrs with_s increase_user set_utot]; rewrite A3, A2; exact Hhave)) as (m & Hm);
    rewrite Hm; cbn [bind]; destruct (mint_pos g m c) as [sp7 n] end.
  eauto.
Qed.

Lemma ep_merge_live sp blk ep c n0 x0 rest b sp1 :
  Inv sp -> valid_id c -> s_virt (p_s sp) <= s_supply (p_s sp) ->
  active (p_s sp) = true -> pay_all sp c ((n0, x0) :: rest) = Ok sp1 -> 0 <= b <= s_pool (p_s sp) ->
  exists r, ep_merge sp blk ep c ((n0, x0) :: rest) b = Ok r.
Proof.
  intros I Hc Hv Hact H1 Hb.
  pose proof I as [IS IL IA IN ISup IAcc ISolv IUT].
  pose proof (pay_all_post _ _ _ _ H1 IL Hc) as [r1 _ l1 _ pos1 _]. apply rest_fields in r1. destruct r1 as (S1 & A1 & _ & UT1 & PD1).
  pose proof (pay_all_have _ _ _ _ H1 IL IA Hc) as Hhave.
  pose proof (pool_le_reserve sp I) as Hpr.
  destruct (pay_total (p_s sp) b b IS ltac:(lia) ltac:(lia) ltac:(lia) Hv) as (s2 & Hs2).
  unfold ep_merge. rewrite H1. cbn [bind]. rewrite S1, Hact. unfold ppay. rewrite S1, Hs2. cbn [bind].
  match goal with |- context [check_update ?g c _] => set (g2 := g) end.
  assert (A2 : p_attrs g2 = p_attrs sp) by (unfold g2; cbn; exact A1).
  destruct (check_update_total ((n0, x0) :: rest) g2 c ltac:(rewrite A2; apply Forall_have_attrs; exact Hhave)) as (sp3 & H3).
  rewrite H3. cbn [bind fst snd].
  pose proof (check_update_but _ _ _ _ H3) as B3. apply but_fields in B3. destruct B3 as (S3 & A3 & _).
  inversion Hhave as [|? ? (Hx0 & a & Ha & Hpa) Hhave']; subst. cbn [fst snd] in *.
  unfold get_attrs. rewrite A3, A2, Ha. cbn [bind].
  destruct (sinto_part_total a x0 Hpa) as (part & Hpart). rewrite Hpart. cbn [bind].
  pose proof (sinto_part_amt _ _ _ Hpart) as (Pa & _).
  destruct (merge_payments_total rest sp3 part ltac:(lia) ltac:(rewrite A3, A2; exact Hhave')) as (m0 & Hm).
  rewrite Hm. cbn [bind]. cbv zeta.
  match goal with |- context [mint_pos sp3 ?m c] => destruct (mint_pos sp3 m c) as [sp4 n] end. eauto.
Qed.

(** the documented guards of the user operations: contract active, caller authorised, amounts positive, the
    caller holds what he pays in, and the boosted payout is within the boosted pools (the boosted module's own
    guard, property C11) *)
Definition pool_ok (sp : spos) (blk b : Z) : Prop := forall s2, settle (p_s sp) blk = Ok s2 -> 0 <= b <= s_pool s2.

Definition guards (sp : spos) (op : pop) : Prop :=
  active (p_s sp) = true /\
  match op with
  | PStake blk ep c u amt adds b => auth c u = true /\ 0 < amt /\ is_ok (pay_all sp c adds) = true /\ 0 <= b <= s_pool (p_s sp)
  | PStakeProxy blk ep c u amt adds b => whitelisted c = true /\ 0 < amt /\ is_ok (pay_all sp c adds) = true /\ 0 <= b <= s_pool (p_s sp)
  | PClaim blk ep c u p b => auth c u = true /\ 0 < snd p <= held sp (fst p) c /\ pool_ok sp blk b
  | PClaimNewValue blk ep c u p newv b => whitelisted c = true /\ 0 <= newv /\ 0 < snd p <= held sp (fst p) c /\ pool_ok sp blk b
  | PCompound blk ep c first adds b => is_ok (pay_all sp c (first :: adds)) = true /\ pool_ok sp blk b
  | PUnstake blk ep c u p b => auth c u = true /\ 0 < snd p <= held sp (fst p) c /\ pool_ok sp blk b
  | PUnstakeProxy blk ep c u p t b => whitelisted c = true /\ 0 < t /\ 0 < snd p <= held sp (fst p) c /\ pool_ok sp blk b
  | PMerge blk ep c ps b => ps <> [] /\ is_ok (pay_all sp c ps) = true /\ 0 <= b <= s_pool (p_s sp)
  | _ => False
  end.

Lemma is_ok_ex {A} (r : result A) : is_ok r = true -> exists a, r = Ok a.
Proof. destruct r; cbn; [eauto | discriminate]. Qed.

Lemma pstep_live sp op : Inv sp -> s_virt (p_s sp) <= s_supply (p_s sp) -> pvalid_op op -> guards sp op ->
  exists r, pstep sp op = Ok r.
Proof.
  intros I Hv V [Hact G]. destruct op; cbn [pstep pvalid_op] in *; try contradiction.
  - destruct G as (G1 & G2 & G3 & G4). apply is_ok_ex in G3. destruct G3 as (sp1 & G3). eapply (ep_stake_live false); eauto.
  - destruct G as (G1 & G2 & G3 & G4). apply is_ok_ex in G3. destruct G3 as (sp1 & G3). eapply (ep_stake_live true); eauto.
  - destruct p as [n0 x0]. destruct G as (G1 & G2 & G3). apply ep_claim_live; auto.
  - destruct p as [n0 x0]. destruct G as (G1 & G2 & G3 & G4). apply ep_claim_live; auto.
  - destruct first as [n0 x0]. destruct G as (G1 & G2). apply is_ok_ex in G1. destruct G1 as (sp1 & G1). eapply ep_compound_live; eauto.
  - destruct p as [n0 x0]. destruct G as (G1 & G2 & G3). apply ep_unstake_live; auto.
  - destruct p as [n0 x0]. destruct G as (G1 & G2 & G3 & G4). apply ep_unstake_live; auto.
  - destruct G as (G1 & G2 & G3). destruct ps as [|[n0 x0] rest]; [congruence|]. apply is_ok_ex in G2. destruct G2 as (sp1 & G2). eapply ep_merge_live; eauto.
Qed.

(** ------------------------------------------------------------------ reachable states *)
Lemma reach_inv dsc apr minub ops : 0 < dsc -> 0 < apr -> Forall pvalid_op ops -> Inv (prun (init_sp dsc apr minub) ops).
Proof. intros. apply prun_inv; [apply init_sp_inv|]; assumption. Qed.

Lemma reach_sep dsc apr minub ops : 0 < dsc -> 0 < apr -> Forall sep_op ops ->
  Inv (prun (init_sp dsc apr minub) ops) /\ VirtInv (prun (init_sp dsc apr minub) ops).
Proof. intros. apply prun_virt; [apply init_sp_inv; assumption | reflexivity | assumption]. Qed.

Lemma base_formula_floor R d e x : 0 < d ->
  (e < R -> is_floor_s (base_formula R d e x) (x * (R - e)) d) /\ (R <= e -> base_formula R d e x = 0).
Proof.
  intros Hd. unfold base_formula, is_floor_s. split.
  - intros H. apply Z.ltb_lt in H. rewrite H. pose proof (div_lo (x * (R - e)) d Hd). pose proof (div_hi (x * (R - e)) d Hd). lia.
  - intros H. apply Z.ltb_ge in H. rewrite H. reflexivity.
Qed.

(** ------------------------------------------------------------------ statements used by Props/StakingPosProps.v *)
Definition preach (dsc apr minub : Z) (ops : list pop) : spos := prun (init_sp dsc apr minub) ops.

Lemma sc07a_supply dsc apr minub ops : 0 < dsc -> 0 < apr -> Forall pvalid_op ops ->
  let sp := preach dsc apr minub ops in
  s_supply (p_s sp) = asum (p_held sp) /\ all_nonneg (p_held sp) /\ NoDup (akeys (p_held sp)).
Proof.
  intros Hd Ha V sp. assert (I : Inv sp) by (apply reach_inv; assumption).
  split; [symmetry; apply (i_sup _ I)|]. destruct (i_led _ I). auto.
Qed.

Lemma sc07c_owner_totals dsc apr minub ops u : 0 < dsc -> 0 < apr -> Forall pvalid_op ops ->
  let sp := preach dsc apr minub ops in
  utot sp u = hsum (fun n => if sowner_of sp n =? u then 1 else 0) (p_held sp).
Proof. intros Hd Ha V sp. exact (i_ut _ (reach_inv dsc apr minub ops Hd Ha V) u). Qed.

Lemma sc07c_no_saturation dsc apr minub ops c n x a : 0 < dsc -> 0 < apr -> Forall pvalid_op ops ->
  let sp := preach dsc apr minub ops in
  valid_id c -> find_sattrs (p_attrs sp) n = Some a -> 0 < x <= held sp n c ->
  x <= utot sp (sa_owner a) /\
  exists sp', decrease_user sp (n, x) = Ok sp' /\ utot sp' (sa_owner a) = utot sp (sa_owner a) - x /\
              (forall w, w <> sa_owner a -> utot sp' w = utot sp w).
Proof.
  intros Hd Ha V sp Hc Hf Hx. assert (I : Inv sp) by (apply reach_inv; assumption). split.
  - pose proof (owner_total_covers sp (hkey n c) a I) as Hcov. rewrite nonce_hkey in Hcov by assumption.
    specialize (Hcov Hf). unfold held in Hx. lia.
  - eapply decrease_exact; eauto.
Qed.

Lemma sc05_accounting dsc apr minub ops : 0 < dsc -> 0 < apr -> Forall pvalid_op ops ->
  let sp := preach dsc apr minub ops in
  s_reserve (p_s sp) = s_acc (p_s sp) - p_paid sp /\
  sclaimable sp <= s_dsc (p_s sp) * (s_reserve (p_s sp) - s_pool (p_s sp)) /\ 0 <= sclaimable sp /\
  sclaimable_floor sp + s_pool (p_s sp) <= s_reserve (p_s sp) /\ 0 <= sclaimable_floor sp /\
  0 <= s_pool (p_s sp) <= s_reserve (p_s sp) /\
  s_acc (p_s sp) <= s_cap (p_s sp).
Proof.
  intros Hd Ha V sp. assert (I : Inv sp) by (apply reach_inv; assumption).
  pose proof (floor_solvency sp I) as [F1 F2]. pose proof (pool_le_reserve sp I). pose proof (sclaimable_nonneg sp I).
  pose proof (k_cap _ (i_stk _ I)).
  split; [apply (i_acc _ I)|]. split; [apply (i_solv _ I)|]. repeat split; lia.
Qed.

(** staking tokens really held = principal of the non-virtual positions + outstanding unbond tokens +
    un-accrued capacity + reserve + donations, every term non-negative *)
Lemma sc05c_principal_backed dsc apr minub ops : 0 < dsc -> 0 < apr -> Forall sep_op ops ->
  let sp := preach dsc apr minub ops in let s := p_s sp in
  s_bal s = (s_supply s - s_virt s) + s_ubtot s + (s_cap s - s_acc s) + s_reserve s + s_don s /\
  0 <= s_virt s <= s_supply s /\ s_virt s = proxy_held sp /\ 0 <= s_ubtot s /\ 0 <= s_cap s - s_acc s /\ 0 <= s_reserve s /\ 0 <= s_don s /\
  (s_supply s - s_virt s) + s_ubtot s + s_reserve s <= s_bal s.
Proof.
  intros Hd Ha V sp s. subst s. assert (IVI : Inv sp /\ VirtInv sp) by (apply reach_sep; assumption). destruct IVI as [I VI].
  pose proof (virt_within_supply sp I VI) as Hv.
  pose proof (i_stk _ I) as [cap kb ub ubnd ubnn fr fr2 (w1 & w2 & w3 & w4 & w5 & w6 & w7 & w8 & w9)].
  pose proof (asum_nonneg _ ubnn). split; [exact kb|]. split; [exact Hv|]. split; [exact VI|]. repeat split; lia.
Qed.

Lemma sc05d_no_spurious_failure dsc apr minub ops op : 0 < dsc -> 0 < apr -> Forall sep_op ops ->
  let sp := preach dsc apr minub ops in
  pvalid_op op -> guards sp op -> exists r, pstep sp op = Ok r.
Proof.
  intros Hd Ha V sp Vo G. assert (IVI : Inv sp /\ VirtInv sp) by (apply reach_sep; assumption). destruct IVI as [I VI].
  apply pstep_live; auto. apply (virt_within_supply sp I VI).
Qed.

(** compounding with no further payments: the reward becomes principal of a position that starts at the settled
    index (so it earns from this block on only), supply and principal grow by it, no token leaves the contract *)
Lemma sc06c_compound sp blk ep c n0 x0 b sp' o :
  ep_compound sp blk ep c (n0, x0) [] b = Ok (sp', o) -> Inv sp -> valid_id c ->
  exists s2 a base n m,
    settle (p_s sp) blk = Ok s2 /\ find_sattrs (p_attrs sp) n0 = Some a /\
    base = base_formula (s_rps s2) (s_dsc (p_s sp)) (sa_rps a) x0 /\ 0 <= base /\
    let r := base + b in
    o = [n; x0 + r] /\ find_sattrs (p_attrs sp') n = Some m /\
    m = mkSA (s_rps (p_s sp')) (comp_part a x0 + r) (x0 + r) c /\
    s_rps (p_s sp') = s_rps s2 /\
    s_supply (p_s sp') = s_supply (p_s sp) + r /\ s_bal (p_s sp') = s_bal (p_s sp) /\
    s_reserve (p_s sp') = s_reserve s2 - r /\
    base_formula (s_rps (p_s sp')) (s_dsc (p_s sp')) (sa_rps m) (sa_amt m) = 0.
Proof.
  intros H I Hc.
  destruct (ep_compound_shape _ _ _ _ _ _ _ _ _ _ H I Hc) as (sp1 & s2 & s3 & a & base & m & _ & Hs2 & Ha & _ & Hb & Hb0 & _ & Hm & Ho & _ & Hf & _ & Su & _ & Bl & Re & Rp).
  cbv zeta in *. cbn [merge_payments] in Hm. inversion Hm; subst m; clear Hm. cbn [sa_amt] in Ho.
  exists s2, a, base, (s_next (p_s sp)), (mkSA (s_rps s2) (comp_part a x0 + (base + b)) (x0 + (base + b)) c).
  split; [exact Hs2|]. split; [exact Ha|]. split; [exact Hb|]. split; [exact Hb0|].
  split; [exact Ho|]. split; [exact Hf|]. split; [rewrite Rp; reflexivity|]. split; [exact Rp|]. split; [exact Su|]. split; [exact Bl|]. split; [exact Re|].
  unfold base_formula. cbn [sa_rps]. rewrite Rp, Z.ltb_irrefl. reflexivity.
Qed.

(** a plain stake (nothing merged in) records exactly the index settled up to the current block *)
Lemma sc06b_stake_index (virtual : bool) sp blk ep c u amt b sp' o :
  ep_stake virtual sp blk ep c u amt [] b = Ok (sp', o) -> Inv sp -> valid_id c ->
  exists n, o = [n; amt; b] /\ find_sattrs (p_attrs sp') n = Some (mkSA (s_rps (p_s sp')) 0 amt u) /\
            s_rps (p_s sp) <= s_rps (p_s sp') /\ s_supply (p_s sp') = s_supply (p_s sp) + amt.
Proof.
  intros H I Hc.
  destruct (ep_stake_shape _ _ _ _ _ _ _ _ _ _ _ H I Hc) as (sp1 & s2 & s5 & m & _ & Hs2 & Hs5 & _ & Hm & Ho & _ & Hf & _ & Su & _ & _ & Rp).
  cbv zeta in *. cbn [merge_payments] in Hm. inversion Hm; subst m; clear Hm. cbn [sa_amt] in Ho.
  exists (s_next (p_s sp)). split; [exact Ho|]. split; [rewrite Rp; exact Hf|]. split; [|exact Su].
  pose proof (i_stk _ I) as IS. destruct (pay_full _ _ _ _ Hs2 IS) as (IS2 & F2 & _). pfr F2.
  destruct (settle_full _ _ _ Hs5 IS2) as (_ & _ & _ & total & cut & inc & _ & Hinc & _ & _ & _ & R5 & _). lia.
Qed.

(** what check_and_update_user_farm_position does with one payment in a reachable state: nothing if the
    acting original caller is the recorded owner; otherwise the amount moves from the recorded owner's total
    (exactly - no saturation) to the acting caller's *)
Lemma sc07c_use_by_other sp c u n x a : Inv sp -> valid_id c ->
  find_sattrs (p_attrs sp) n = Some a -> 0 < x <= held sp n c ->
  (sa_owner a = u -> check_update sp u [(n, x)] = Ok sp) /\
  (sa_owner a <> u -> exists sp', check_update sp u [(n, x)] = Ok sp' /\
      utot sp' (sa_owner a) = utot sp (sa_owner a) - x /\ utot sp' u = utot sp u + x /\
      (forall w, w <> sa_owner a -> w <> u -> utot sp' w = utot sp w) /\ but_utot sp' = but_utot sp).
Proof.
  intros I Hc Ha Hx. cbn [check_update]. unfold get_attrs. rewrite Ha. cbn [bind]. split.
  - intros E. apply Z.eqb_eq in E. rewrite E. reflexivity.
  - intros E. apply Z.eqb_neq in E. rewrite E.
    destruct (decrease_exact sp c n x a I Hc Ha Hx) as (sp1 & H1 & Ho & Hw). rewrite H1. cbn [bind].
    eexists. split; [reflexivity|]. unfold increase_user. apply Z.eqb_neq in E.
    split; [rewrite sutot_set_other by congruence; exact Ho|].
    split; [rewrite sutot_set_same; rewrite (Hw u) by congruence; reflexivity|].
    split; [intros w W1 W2; rewrite sutot_set_other by congruence; apply Hw; exact W1|].
    rewrite set_utot_but. apply (decrease_user_but _ _ _ H1).
Qed.
