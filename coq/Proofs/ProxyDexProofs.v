(** Invariants and characterisations of the proxy-DEX model (property C16).
    [Backed]: every outstanding wrapped LP / wrapped farm position is covered, all positions at
    once, by what the proxy holds; preserved by every operation whose nested responses obey the
    interface laws ([x_law]).  Characterisations of remove / exit / add / enter (what comes back,
    what is minted and burned, the energy entry written) and of the pro-rata parts. *)
From MX Require Import Base.Prelude Gen.Params Model.ProxyDex.

(** ---------------------------------------------------------------- lists *)
Fixpoint sumf {A} (g : A -> Z) (l : list A) : Z :=
  match l with [] => 0 | x :: t => g x + sumf g t end.

Lemma sumf_app {A} (g : A -> Z) l1 l2 : sumf g (l1 ++ l2) = sumf g l1 + sumf g l2.
Proof. induction l1; simpl; lia. Qed.

Lemma sumf_setnth {A} (g : A -> Z) l i x y :
  nth_error l i = Some x -> sumf g (setnth l i y) = sumf g l - g x + g y.
Proof.
  revert i. induction l as [|h t IH]; intros [|i] H; simpl in *; try discriminate.
  - inversion H; subst. lia.
  - rewrite (IH _ H). lia.
Qed.

Lemma getn_some {A} (l : list A) n x : getn l n = Some x -> 0 < n /\ nth_error l (Z.to_nat (n - 1)) = Some x.
Proof. unfold getn. destruct (n <=? 0) eqn:E; [discriminate|]. apply Z.leb_gt in E. auto. Qed.

Lemma sumf_setn {A} (g : A -> Z) l n x y :
  getn l n = Some x -> sumf g (setn l n y) = sumf g l - g x + g y.
Proof. intros H. apply getn_some in H. destruct H. unfold setn. apply sumf_setnth; assumption. Qed.

Lemma nth_error_setnth_same {A} (l : list A) i x y :
  nth_error l i = Some x -> nth_error (setnth l i y) i = Some y.
Proof. revert i. induction l; intros [|i] H; simpl in *; try discriminate; auto. Qed.

Lemma nth_error_setnth_other {A} (l : list A) i j y :
  i <> j -> nth_error (setnth l i y) j = nth_error l j.
Proof.
  revert i j. induction l; intros [|i] [|j] H; simpl; auto; try congruence.
Qed.

Lemma getn_setn_same {A} (l : list A) n x y : getn l n = Some x -> getn (setn l n y) n = Some y.
Proof.
  intros H. pose proof (getn_some _ _ _ H) as [Hn Hx]. unfold getn, setn.
  destruct (n <=? 0) eqn:E; [apply Z.leb_le in E; lia|]. eapply nth_error_setnth_same; eauto.
Qed.

Lemma getn_setn_other {A} (l : list A) n n2 y : n <> n2 -> 0 < n -> getn (setn l n y) n2 = getn l n2.
Proof.
  intros Hne Hn. unfold getn, setn. destruct (n2 <=? 0) eqn:E; [reflexivity|]. apply Z.leb_gt in E.
  apply nth_error_setnth_other. intros Heq. apply Hne.
  assert (Z.of_nat (Z.to_nat (n - 1)) = Z.of_nat (Z.to_nat (n2 - 1))) by congruence.
  rewrite !Z2Nat.id in H by lia. lia.
Qed.

Lemma getn_app_old {A} (l : list A) x n v : getn l n = Some v -> getn (l ++ [x]) n = Some v.
Proof.
  unfold getn. destruct (n <=? 0); [discriminate|]. intros H. rewrite nth_error_app1; auto.
  apply nth_error_Some. congruence.
Qed.

Lemma getn_app_new {A} (l : list A) x : getn (l ++ [x]) (next_nonce l) = Some x.
Proof.
  unfold getn, next_nonce. destruct (Z.of_nat (length l) + 1 <=? 0) eqn:E; [apply Z.leb_le in E; lia|].
  replace (Z.to_nat (Z.of_nat (length l) + 1 - 1)) with (length l) by lia.
  rewrite nth_error_app2 by lia. rewrite Nat.sub_diag. reflexivity.
Qed.

Lemma getn_app_none {A} (l : list A) x n : getn l n = None -> n <> next_nonce l -> getn (l ++ [x]) n = None.
Proof.
  unfold getn, next_nonce. destruct (n <=? 0) eqn:E; [reflexivity|]. apply Z.leb_gt in E. intros H Hne.
  apply nth_error_None in H. apply nth_error_None. rewrite app_length. simpl. lia.
Qed.

Lemma Forall_setnth {A} (P : A -> Prop) l i y : Forall P l -> P y -> Forall P (setnth l i y).
Proof.
  revert i. induction l; intros [|i] Hl Hy; simpl; auto; inversion Hl; subst; constructor; auto.
Qed.

Lemma Forall_getn {A} (P : A -> Prop) l n x : Forall P l -> getn l n = Some x -> P x.
Proof.
  intros Hl H. apply getn_some in H. destruct H as [_ H]. apply nth_error_In in H.
  rewrite Forall_forall in Hl. auto.
Qed.

(** ---------------------------------------------------------------- rule of three *)
Lemma rule3_ok T a full r : rule3 T a full = Ok r ->
  0 < r /\ ((a = T /\ r = full) \/ (a <> T /\ T <> 0 /\ r = full * a / T)).
Proof.
  unfold rule3. intros H. apply bind_ok in H. destruct H as (x & Hx & H).
  destruct (0 <? x) eqn:E; [|discriminate]. inversion H; subst. apply Z.ltb_lt in E. split; [exact E|].
  destruct (a =? T) eqn:Ea.
  - apply Z.eqb_eq in Ea. inversion Hx; subst. auto.
  - apply Z.eqb_neq in Ea. apply div_chk_ok in Hx. destruct Hx. auto.
Qed.

(** the part is the floor of the pro-rata share in every case *)
Lemma rule3_floor T a full r : rule3 T a full = Ok r -> 0 < T -> r = full * a / T.
Proof.
  intros H HT. apply rule3_ok in H. destruct H as [_ [[-> ->]|(_ & _ & ->)]]; [|reflexivity].
  rewrite Z.div_mul; lia.
Qed.

Lemma rule3_pos T a full r : rule3 T a full = Ok r -> 0 < T -> 0 <= full -> 0 < r /\ 0 < a /\ r * T <= full * a.
Proof.
  intros H HT Hf. pose proof (rule3_floor _ _ _ _ H HT) as Hr. apply rule3_ok in H. destruct H as [Hp _].
  split; [exact Hp|]. subst r. pose proof (div_lo (full * a) T HT). split; [|lia].
  destruct (Z_lt_le_dec 0 a); [assumption|].
  assert (full * a <= 0) by nia. assert (full * a / T <= 0) by (apply Z.div_le_upper_bound; lia). lia.
Qed.

Lemma rule3_same T a r : rule3 T a T = Ok r -> 0 < T -> r = a.
Proof. intros H HT. rewrite (rule3_floor _ _ _ _ H HT). rewrite Z.mul_comm. apply Z.div_mul. lia. Qed.

(** floor is superadditive: what is released with [a] units leaves enough for the rest *)
Lemma floor_release L live a T : 0 < T -> 0 <= L -> 0 <= a <= live ->
  L * (live - a) / T + L * a / T <= L * live / T.
Proof.
  intros HT HL Ha.
  pose proof (div_lo (L * (live - a)) T HT). pose proof (div_lo (L * a) T HT). pose proof (div_hi (L * live) T HT).
  set (x := L * (live - a) / T) in *. set (y := L * a / T) in *. set (z := L * live / T) in *.
  clearbody x y z. nia.
Qed.
(** ---------------------------------------------------------------- the backing invariant *)
Definition wl_need (k : Z) (w : wlp) : Z := if wl_k w =? k then wl_L w * wl_live w / wl_T w else 0.
Definition wf_need_locked (k : Z) (w : wfm) : Z := if (wf_kind w =? 0) && (wf_pn w =? k) then wf_sup w else 0.
Definition wf_need_wlp (n : Z) (w : wfm) : Z := if negb (wf_kind w =? 0) && (wf_pn w =? n) then wf_sup w else 0.
Definition wf_need_farm (key : Z) (w : wfm) : Z := if fkey (wf_f w) (wf_farm w) =? key then wf_sup w else 0.
Definition dead_in (l : list wlp) (n : Z) : Z := match getn l n with Some w => wl_dead w | None => 0 end.
Notation dead_of s n := (dead_in (s_wlp s) n).

Definition wlp_wf (w : wlp) : Prop := 0 < wl_T w /\ 0 <= wl_L w /\ 0 <= wl_live w /\ 0 <= wl_dead w.
Definition wfm_wf (w : wfm) : Prop := 0 < wf_T w /\ wf_P w = wf_T w /\ 0 <= wf_sup w.

Record Backed (s : state) : Prop := mkBacked {
  bk_lp : asum (s_hlp s) <= s_lp s;
  bk_farm : forall key, sumf (wf_need_farm key) (s_wfm s) <= aget (s_farm s) key;
  bk_esc : forall n, dead_of s n + sumf (wf_need_wlp n) (s_wfm s) <= aget (s_pwlp s) n;
  bk_locked : forall k, sumf (wl_need k) (s_wlp s) + sumf (wf_need_locked k) (s_wfm s) <= aget (s_locked s) k;
  bk_wlp : Forall wlp_wf (s_wlp s);
  bk_wfm : Forall wfm_wf (s_wfm s);
  bk_nd : NoDup (akeys (s_hlp s))
}.

Lemma dead_in_nil n : dead_in [] n = 0.
Proof.
  unfold dead_in, getn. destruct (n <=? 0); [reflexivity|]. destruct (Z.to_nat (n - 1)); reflexivity.
Qed.

Lemma backed_init : Backed init_state.
Proof.
  constructor; simpl; intros; try lia; try (constructor; fail).
  rewrite dead_in_nil. lia.
Qed.

Lemma dead_in_setn l n w y n2 : getn l n = Some w -> wl_dead y = wl_dead w -> dead_in (setn l n y) n2 = dead_in l n2.
Proof.
  intros Hw Hd. unfold dead_in. destruct (Z.eq_dec n n2) as [->|Hne].
  - rewrite (getn_setn_same _ _ _ _ Hw). rewrite Hw. assumption.
  - rewrite getn_setn_other; auto. apply getn_some in Hw. lia.
Qed.

Lemma dead_in_app l x n : wl_dead x = 0 -> dead_in (l ++ [x]) n = dead_in l n.
Proof.
  intros Hx. unfold dead_in. destruct (getn l n) eqn:E.
  - rewrite (getn_app_old _ _ _ _ E). reflexivity.
  - destruct (Z.eq_dec n (next_nonce l)) as [->|Hne].
    + rewrite getn_app_new. assumption.
    + rewrite getn_app_none; auto.
Qed.

Lemma bal_sub_ok l k a l' : bal_sub l k a = Ok l' -> a <= aget l k /\ l' = aset l k (aget l k - a).
Proof. unfold bal_sub. intros H. apply bind_ok in H. destruct H as (v & Hv & H). apply sub_chk_ok in Hv. inversion H; subst. destruct Hv as [? ->]. auto. Qed.

Lemma aget_bal_add l k a k2 : aget (bal_add l k a) k2 = if k =? k2 then aget l k + a else aget l k2.
Proof.
  unfold bal_add. destruct (k =? k2) eqn:E.
  - apply Z.eqb_eq in E. subst. apply aget_aset_same.
  - apply Z.eqb_neq in E. apply aget_aset_other. assumption.
Qed.

Lemma aget_aset l k v k2 : aget (aset l k v) k2 = if k =? k2 then v else aget l k2.
Proof.
  destruct (k =? k2) eqn:E.
  - apply Z.eqb_eq in E. subst. apply aget_aset_same.
  - apply Z.eqb_neq in E. apply aget_aset_other. assumption.
Qed.

(** ---- release_wlp *)
Lemma release_wlp_spec s n a s' k lp : release_wlp s n a = Ok (s', (k, lp)) -> Backed s ->
  Backed s' /\ 0 < a /\ 0 < lp /\ s_lp s' = s_lp s /\ s_hlp s' = s_hlp s /\ s_hfm s' = s_hfm s /\
  s_wfm s' = s_wfm s /\ s_farm s' = s_farm s /\ s_pwlp s' = s_pwlp s /\
  (forall n2, dead_of s' n2 = dead_of s n2) /\
  exists w, getn (s_wlp s) n = Some w /\ k = wl_k w /\ part_wlp w a = Ok lp /\
            getn (s_wlp s') n = Some (mkWlp (wl_T w) (wl_k w) (wl_L w) (wl_live w - a) (wl_dead w)).
Proof.
  unfold release_wlp. intros H Hb. destruct (getn (s_wlp s) n) as [w|] eqn:Hw; [|discriminate].
  destruct (0 <? a) eqn:Ea; [|discriminate]. apply Z.ltb_lt in Ea.
  apply bind_ok in H. destruct H as (lp0 & Hlp & H).
  apply bind_ok in H. destruct H as (live & Hlive & H). apply sub_chk_ok in Hlive. destruct Hlive as [Hle ->].
  apply bind_ok in H. destruct H as (s2 & Hs2 & H). inversion H; subst s' k lp0. clear H.
  unfold locked_out in Hs2. apply bind_ok in Hs2. destruct Hs2 as (l & Hl & Hs2). inversion Hs2; subst s2. clear Hs2.
  apply bal_sub_ok in Hl. destruct Hl as [Hge ->]. simpl in *.
  destruct Hb as [B1 B2 B3 B4 B5 B6 B7].
  pose proof (Forall_getn _ _ _ _ B5 Hw) as (HT & HL & Hlv & Hdd).
  unfold part_wlp in Hlp. pose proof (rule3_pos _ _ _ _ Hlp HT HL) as (Hlp0 & _ & _).
  pose proof (rule3_floor _ _ _ _ Hlp HT) as Hfl.
  split; [|repeat split; auto; try (intros; apply (dead_in_setn _ _ _ _ _ Hw); reflexivity);
           try (exists w; repeat split; auto; eapply getn_setn_same; eauto)].
  constructor; simpl; auto.
  - intros n2. rewrite (dead_in_setn _ _ _ _ _ Hw) by reflexivity. apply B3.
  - intros k0. rewrite (sumf_setn _ _ _ _ _ Hw). rewrite aget_aset. specialize (B4 k0).
    unfold wl_need at 2 3. simpl. destruct (wl_k w =? k0) eqn:Ek.
    + pose proof (floor_release (wl_L w) (wl_live w) a (wl_T w) HT HL ltac:(lia)). rewrite <- Hfl in H. apply Z.eqb_eq in Ek. subst k0. lia.
    + lia.
  - apply Forall_setnth; auto. unfold wlp_wf. simpl. repeat split; auto; lia.
Qed.

(** ---- moving wrapped LP tokens and LP tokens in and out of users' hands *)
Lemma backed_hlp_lp s key v lp' : Backed s ->
  asum (s_hlp s) - aget (s_hlp s) key + v <= lp' ->
  Backed (upd_lp (upd_hlp s (aset (s_hlp s) key v)) lp').
Proof.
  intros [B1 B2 B3 B4 B5 B6 B7] H. constructor; simpl; auto.
  - rewrite asum_aset by assumption. exact H.
  - apply nodup_aset. assumption.
Qed.

Lemma backed_lp_add s d : Backed s -> 0 <= d -> Backed (upd_lp s (s_lp s + d)).
Proof. intros [B1 B2 B3 B4 B5 B6 B7] H. constructor; simpl; auto. lia. Qed.

Lemma backed_locked_in s k a : Backed s -> 0 <= a -> Backed (locked_in s k a).
Proof.
  intros [B1 B2 B3 B4 B5 B6 B7] H. constructor; simpl; auto.
  intros k0. rewrite aget_bal_add. specialize (B4 k0). destruct (k =? k0) eqn:E; [apply Z.eqb_eq in E; subst|]; lia.
Qed.

Lemma backed_hlp_xfer s key v : Backed s -> v <= aget (s_hlp s) key -> Backed (upd_hlp s (aset (s_hlp s) key v)).
Proof.
  intros [B1 B2 B3 B4 B5 B6 B7] H. constructor; simpl; auto.
  - rewrite asum_aset by assumption. lia.
  - apply nodup_aset. assumption.
Qed.

Lemma backed_hlp_xfer_up s key d : Backed s -> asum (s_hlp s) + d <= s_lp s ->
  Backed (upd_hlp s (aset (s_hlp s) key (aget (s_hlp s) key + d))).
Proof.
  intros [B1 B2 B3 B4 B5 B6 B7] H. constructor; simpl; auto.
  - rewrite asum_aset by assumption. lia.
  - apply nodup_aset. assumption.
Qed.

Lemma take_wlp_user_spec s u n a s' k lp : take_wlp_user s u n a = Ok (s', (k, lp)) -> Backed s ->
  Backed s' /\ 0 < a /\ 0 < lp /\ s_wfm s' = s_wfm s /\
  exists w, getn (s_wlp s) n = Some w /\ k = wl_k w /\ part_wlp w a = Ok lp.
Proof.
  unfold take_wlp_user. intros H Hb.
  apply bind_ok in H. destruct H as (h & Hh & H). apply bal_sub_ok in Hh. destruct Hh as [Hge ->].
  apply bind_ok in H. destruct H as (lp0 & Hl & H). apply sub_chk_ok in Hl. destruct Hl as [Hle ->].
  assert (Hb0 : Backed (upd_lp (upd_hlp s (aset (s_hlp s) (hkey n u) (aget (s_hlp s) (hkey n u) - a))) (s_lp s - a))).
  { apply backed_hlp_lp; auto. destruct Hb. lia. }
  destruct (release_wlp_spec _ _ _ _ _ _ H Hb0) as (Hb' & Ha & Hlp & _ & _ & _ & Hwf & _ & _ & _ & w & Hw & Hk & Hp & _).
  split; [exact Hb'|]. split; [exact Ha|]. split; [exact Hlp|]. split; [exact Hwf|]. exists w. auto.
Qed.

(** ---- kill_wlp *)
Lemma kill_wlp_spec s n a s' k lp : kill_wlp s n a = Ok (s', (k, lp)) -> Backed s ->
  Backed s' /\ 0 < a /\ 0 < lp /\ s_lp s' = s_lp s /\ s_hlp s' = s_hlp s /\
  exists w, getn (s_wlp s) n = Some w /\ k = wl_k w /\ part_wlp w a = Ok lp.
Proof.
  unfold kill_wlp. intros H Hb. apply bind_ok in H. destruct H as ([s1 [k1 l1]] & Hr & H).
  destruct (release_wlp_spec _ _ _ _ _ _ Hr Hb) as (Hb1 & Ha & Hlp & E1 & E2 & E3 & E4 & E5 & E6 & Hd & w & Hw & Hk & Hp & Hw1).
  rewrite Hw1 in H. inversion H; subst s' k lp. clear H.
  split; [|repeat split; auto; exists w; auto].
  destruct Hb1 as [B1 B2 B3 B4 B5 B6 B7]. constructor; simpl; auto.
  - intros n2. rewrite aget_bal_add. specialize (B3 n2). unfold dead_in in *.
    destruct (Z.eq_dec n n2) as [->|Hne].
    + rewrite (getn_setn_same _ _ _ _ Hw1). rewrite Hw1 in B3. simpl in *. rewrite Z.eqb_refl. lia.
    + rewrite getn_setn_other by (auto; apply getn_some in Hw1; lia).
      destruct (n =? n2) eqn:E; [apply Z.eqb_eq in E; contradiction|]. exact B3.
  - intros k0. rewrite (sumf_setn _ _ _ _ _ Hw1). specialize (B4 k0). unfold wl_need at 2 3. simpl. lia.
  - apply Forall_setnth; auto. pose proof (Forall_getn _ _ _ _ B5 Hw1) as (? & ? & ? & ?). unfold wlp_wf in *. simpl in *.
    repeat split; auto; lia.
Qed.

(** ---- mint_wlp *)
Lemma mint_wlp_spec s T k L s' n : mint_wlp s T k L = (s', n) -> Backed s -> 0 < T -> 0 <= L ->
  Backed s' /\ n = next_nonce (s_wlp s) /\ s_lp s' = s_lp s /\ s_hlp s' = s_hlp s /\
  getn (s_wlp s') n = Some (mkWlp T k L T 0).
Proof.
  unfold mint_wlp. intros H [B1 B2 B3 B4 B5 B6 B7] HT HL. inversion H; subst s' n. clear H.
  split; [|repeat split; auto; simpl; apply getn_app_new].
  constructor; simpl; auto.
  - intros n2. rewrite dead_in_app by reflexivity. apply B3.
  - intros k0. rewrite sumf_app. simpl. rewrite aget_bal_add. specialize (B4 k0). unfold wl_need at 2. simpl.
    rewrite Z.div_mul by lia. destruct (k =? k0) eqn:E.
    + apply Z.eqb_eq in E. subst. lia.
    + lia.
  - apply Forall_app. split; auto. constructor; [|constructor]. unfold wlp_wf. simpl. repeat split; lia.
Qed.

Lemma mint_wlp_user_spec s u T k L s' n : mint_wlp_user s u T k L = (s', n) -> Backed s -> 0 < T -> 0 <= L ->
  Backed s' /\ n = next_nonce (s_wlp s) /\ getn (s_wlp s') n = Some (mkWlp T k L T 0).
Proof.
  unfold mint_wlp_user. intros H Hb HT HL. destruct (mint_wlp s T k L) as [s1 n1] eqn:Hm.
  destruct (mint_wlp_spec _ _ _ _ _ _ Hm Hb HT HL) as (Hb1 & Hn & E1 & E2 & Hg). inversion H. subst. clear H.
  split; [|split; [reflexivity | exact Hg]].
  unfold bal_add. apply backed_hlp_lp; auto. destruct Hb1. lia.
Qed.

(** ---- take_wfm / mint_wfm *)
Lemma take_wfm_spec s u m a s' w pp : take_wfm s u m a = Ok (s', (w, pp)) -> Backed s ->
  Backed s' /\ 0 < a /\ pp = a /\ getn (s_wfm s) m = Some w /\ wfm_wf w /\ s_lp s' = s_lp s /\ s_hlp s' = s_hlp s /\
  s_wlp s' = s_wlp s.
Proof.
  unfold take_wfm. intros H Hb. destruct (getn (s_wfm s) m) as [w0|] eqn:Hw; [|discriminate].
  destruct (0 <? a) eqn:Ea; [|discriminate]. apply Z.ltb_lt in Ea.
  apply bind_ok in H. destruct H as (h & Hh & H). apply bal_sub_ok in Hh. destruct Hh as [Hhge ->].
  apply bind_ok in H. destruct H as (pp0 & Hpp & H).
  apply bind_ok in H. destruct H as (sup & Hsup & H). apply sub_chk_ok in Hsup. destruct Hsup as [Hsle ->].
  apply bind_ok in H. destruct H as (fb & Hfb & H). apply bal_sub_ok in Hfb. destruct Hfb as [Hfge ->].
  apply bind_ok in H. destruct H as (s2 & Hs2 & H). inversion H. subst s2 w0 pp0. clear H.
  destruct Hb as [B1 B2 B3 B4 B5 B6 B7].
  pose proof (Forall_getn _ _ _ _ B6 Hw) as Hwf. destruct Hwf as (HT & HP & Hs0).
  unfold part_wfm in Hpp. rewrite HP in Hpp. apply rule3_same in Hpp; [|assumption]. subst pp.
  set (w' := mkWfm (wf_farm w) (wf_f w) (wf_T w) (wf_kind w) (wf_pn w) (wf_P w) (wf_sup w - a)) in *.
  assert (Hwf' : Forall wfm_wf (setn (s_wfm s) m w')).
  { apply Forall_setnth; auto. unfold wfm_wf, w'. simpl. repeat split; auto. lia. }
  destruct (wf_kind w =? 0) eqn:Ek.
  - unfold locked_out in Hs2. apply bind_ok in Hs2. destruct Hs2 as (l & Hl & Hs2). inversion Hs2. subst s'. clear Hs2.
    apply bal_sub_ok in Hl. destruct Hl as [Hlge ->]. simpl in *.
    split; [|repeat split; auto].
    constructor; simpl; auto.
    + intros key. rewrite (sumf_setn _ _ _ _ _ Hw). rewrite aget_aset. specialize (B2 key).
      unfold wf_need_farm at 2 3. unfold w'. simpl. destruct (fkey (wf_f w) (wf_farm w) =? key) eqn:E.
      * apply Z.eqb_eq in E. subst key. lia.
      * lia.
    + intros n. rewrite (sumf_setn _ _ _ _ _ Hw). specialize (B3 n). unfold wf_need_wlp at 2 3. unfold w'. simpl.
      rewrite Ek. simpl. lia.
    + intros k. rewrite (sumf_setn _ _ _ _ _ Hw). rewrite aget_aset. specialize (B4 k).
      unfold wf_need_locked at 2 3. unfold w'. simpl. rewrite Ek. simpl. destruct (wf_pn w =? k) eqn:E.
      * apply Z.eqb_eq in E. subst k. lia.
      * lia.
  - apply bind_ok in Hs2. destruct Hs2 as (l & Hl & Hs2). inversion Hs2. subst s'. clear Hs2.
    apply bal_sub_ok in Hl. destruct Hl as [Hlge ->]. simpl in *.
    split; [|repeat split; auto].
    constructor; simpl; auto.
    + intros key. rewrite (sumf_setn _ _ _ _ _ Hw). rewrite aget_aset. specialize (B2 key).
      unfold wf_need_farm at 2 3. unfold w'. simpl. destruct (fkey (wf_f w) (wf_farm w) =? key) eqn:E.
      * apply Z.eqb_eq in E. subst key. lia.
      * lia.
    + intros n. rewrite (sumf_setn _ _ _ _ _ Hw). rewrite aget_aset. specialize (B3 n). unfold wf_need_wlp at 2 3. unfold w'. simpl.
      rewrite Ek. simpl. destruct (wf_pn w =? n) eqn:E.
      * apply Z.eqb_eq in E. subst n. lia.
      * lia.
    + intros k. rewrite (sumf_setn _ _ _ _ _ Hw). specialize (B4 k).
      unfold wf_need_locked at 2 3. unfold w'. simpl. rewrite Ek. simpl. lia.
Qed.

Lemma mint_wfm_spec s u farm f T kind pn P s' m : mint_wfm s u farm f T kind pn P = (s', m) -> Backed s ->
  0 < T -> P = T ->
  Backed s' /\ m = next_nonce (s_wfm s) /\ getn (s_wfm s') m = Some (mkWfm farm f T kind pn P T).
Proof.
  unfold mint_wfm. intros H [B1 B2 B3 B4 B5 B6 B7] HT HP. subst P.
  assert (Hwf : Forall wfm_wf (s_wfm s ++ [mkWfm farm f T kind pn T T])).
  { apply Forall_app. split; auto. constructor; [|constructor]. unfold wfm_wf. simpl. repeat split; lia. }
  destruct (kind =? 0) eqn:Ek; inversion H; subst s' m; clear H;
    (split; [|split; [reflexivity | simpl; apply getn_app_new]]); constructor; simpl; auto.
  - intros key. rewrite sumf_app. simpl. rewrite aget_bal_add. specialize (B2 key). unfold wf_need_farm at 2. simpl.
    destruct (fkey f farm =? key) eqn:E; [apply Z.eqb_eq in E; subst key|]; lia.
  - intros n. rewrite sumf_app. simpl. specialize (B3 n). unfold wf_need_wlp at 2. simpl. rewrite Ek. simpl. lia.
  - intros k. rewrite sumf_app. simpl. rewrite aget_bal_add. specialize (B4 k). unfold wf_need_locked at 2. simpl. rewrite Ek. simpl.
    destruct (pn =? k) eqn:E; [apply Z.eqb_eq in E; subst k|]; lia.
  - intros key. rewrite sumf_app. simpl. rewrite aget_bal_add. specialize (B2 key). unfold wf_need_farm at 2. simpl.
    destruct (fkey f farm =? key) eqn:E; [apply Z.eqb_eq in E; subst key|]; lia.
  - intros n. rewrite sumf_app. simpl. rewrite aget_bal_add. specialize (B3 n). unfold wf_need_wlp at 2. simpl. rewrite Ek. simpl.
    destruct (pn =? n) eqn:E; [apply Z.eqb_eq in E; subst n|]; lia.
  - intros k. rewrite sumf_app. simpl. specialize (B4 k). unfold wf_need_locked at 2. simpl. rewrite Ek. simpl. lia.
Qed.

Ltac splits := repeat match goal with |- _ /\ _ => split end.

(** ---- lists of payments *)
Lemma take_wlp_list_spec ps : forall s u s' ta tl, take_wlp_list s u ps = Ok (s', (ta, tl)) -> Backed s ->
  Backed s' /\ 0 <= ta /\ 0 <= tl /\ (ps <> [] -> 0 < ta) /\ ta = sum_amt ps /\ s_wfm s' = s_wfm s.
Proof.
  induction ps as [|p t IH]; intros s u s' ta tl H Hb; simpl in H.
  - inversion H; subst. splits; auto; try lia. intros Hc; exfalso; apply Hc; reflexivity.
  - destruct (p_tok p =? TK_WLP); [|discriminate].
    apply bind_ok in H. destruct H as ([s1 [k1 lp]] & Hr & H).
    apply bind_ok in H. destruct H as ([s2 [ta2 tl2]] & Hr2 & H). inversion H; subst s' ta tl. clear H.
    destruct (take_wlp_user_spec _ _ _ _ _ _ _ Hr Hb) as (Hb1 & Ha & Hlp & Hwf & _).
    destruct (IH _ _ _ _ _ Hr2 Hb1) as (Hb2 & Hta & Htl & _ & Hsum & Hwf2).
    splits; auto; try lia. simpl. lia. congruence.
Qed.

Definition item_ok (it : item) : Prop := let '(_, a, _, _, pp) := it in pp = a /\ 0 < a.

Lemma take_wfm_list_spec ps : forall s u s' its, take_wfm_list s u ps = Ok (s', its) -> Backed s ->
  Backed s' /\ Forall item_ok its /\ length its = length ps /\ s_lp s' = s_lp s /\ s_hlp s' = s_hlp s.
Proof.
  induction ps as [|p t IH]; intros s u s' its H Hb; simpl in H.
  - inversion H; subst. splits; auto.
  - destruct (p_tok p =? TK_WFM); [|discriminate].
    apply bind_ok in H. destruct H as ([s1 [w pp]] & Hr & H).
    apply bind_ok in H. destruct H as ([s2 its2] & Hr2 & H). inversion H; subst s' its. clear H.
    destruct (take_wfm_spec _ _ _ _ _ _ _ Hr Hb) as (Hb1 & Ha & Hpp & _ & _ & E1 & E2 & _).
    destruct (IH _ _ _ _ Hr2 Hb1) as (Hb2 & Hok & Hlen & E3 & E4).
    splits; auto; try congruence.
    + constructor; auto. unfold item_ok, mk_item. auto.
    + simpl. lia.
Qed.

Lemma kill_items_spec its : forall s s' tw tl, kill_items s its = Ok (s', (tw, tl)) -> Backed s ->
  Backed s' /\ tw = items_pp_total its /\ 0 <= tl /\ 0 <= tw /\ (its <> [] -> 0 < tw) /\
  s_lp s' = s_lp s /\ s_hlp s' = s_hlp s.
Proof.
  induction its as [|it t IH]; intros s s' tw tl H Hb; simpl in H.
  - inversion H; subst. splits; auto; try lia. intros Hc; exfalso; apply Hc; reflexivity.
  - destruct it as [[[[fa a] ki] pn] pp].
    apply bind_ok in H. destruct H as ([s1 [k1 lq]] & Hr & H).
    apply bind_ok in H. destruct H as ([s2 [ta2 tl2]] & Hr2 & H). inversion H; subst s' tw tl. clear H.
    destruct (kill_wlp_spec _ _ _ _ _ _ Hr Hb) as (Hb1 & Ha & Hlp & E1 & E2 & _).
    destruct (IH _ _ _ _ Hr2 Hb1) as (Hb2 & Htw & Htl & Htw0 & _ & E3 & E4).
    splits; auto; try lia; try congruence. simpl. lia.
Qed.

Lemma items_totals its : Forall item_ok its -> items_pp_total its = items_farm_total its /\ 0 <= items_farm_total its /\
  (its <> [] -> 0 < items_farm_total its).
Proof.
  induction 1 as [|it t Hi Ht IH]; simpl.
  - splits; try lia. intros Hc; exfalso; apply Hc; reflexivity.
  - destruct it as [[[[fa a] ki] pn] pp]. simpl in Hi. destruct Hi as [-> Ha]. destruct IH as (E & H0 & _).
    splits; try lia.
Qed.

Lemma merge_items_spec s u farm its e s' m amt law : merge_items s u farm its e = Ok (s', (m, amt, law)) ->
  law = true -> Backed s -> Forall item_ok its -> Backed s'.
Proof.
  unfold merge_items. intros H Hlaw Hb Hok. destruct its as [|it t]; [discriminate|].
  destruct it as [[[[fa a] kind] pn] pp]. cbv beta iota in H.
  match type of H with context [items_same ?x ?y ?z] => destruct (items_same x y z); [|discriminate] end.
  destruct (fa =? farm); [|discriminate]. destruct (v_ok e); [|discriminate].
  destruct (v_fact e) as [kf lf]. destruct (v_fmerge e) as [f' F'].
  pose proof (items_totals _ Hok) as (Etot & Hnn & Hpos). specialize (Hpos ltac:(congruence)).
  destruct (kind =? 0).
  - destruct (mint_wfm s u farm f' F' 0 kf lf) as [s1 m1] eqn:Hm. injection H as Es Em Ea El. rewrite Hlaw in El. subst s'.
    apply andb_prop in El. destruct El as [E1 E2]. apply Z.eqb_eq in E1. apply Z.eqb_eq in E2.
    cbn [items_pp_total items_farm_total] in *.
    refine (proj1 (mint_wfm_spec _ _ _ _ _ _ _ _ _ _ Hm Hb _ _)); lia.
  - apply bind_ok in H. destruct H as ([s1 [tw tl]] & Hk & H).
    destruct (kill_items_spec _ _ _ _ _ Hk Hb) as (Hb1 & Htw & Htl & Htw0 & Htwp & _).
    destruct (mint_wlp s1 tw kf lf) as [s2 n] eqn:Hm2.
    destruct (mint_wfm s2 u farm f' F' 1 n tw) as [s3 m3] eqn:Hm3. injection H as Es Em Ea El. rewrite Hlaw in El. subst s'.
    apply andb_prop in El. destruct El as [E1 E2]. apply Z.eqb_eq in E1. apply Z.eqb_eq in E2.
    specialize (Htwp ltac:(congruence)). cbn [items_pp_total items_farm_total] in *.
    destruct (mint_wlp_spec _ _ _ _ _ _ Hm2 Hb1 Htwp ltac:(lia)) as (Hb2 & _).
    refine (proj1 (mint_wfm_spec _ _ _ _ _ _ _ _ _ _ Hm3 Hb2 _ _)); lia.
Qed.

(** ---- endpoints *)
Ltac chk H := match type of H with (if ?c then _ else _) = _ => let E := fresh "C" in destruct c eqn:E; [|discriminate] end.
Ltac mon H x Hx := apply bind_ok in H; destruct H as (x & Hx & H).

Lemma ep_add_liq_backed s u pid p1 p2 extra e s' x : ep_add_liq s u pid p1 p2 extra e = Ok (s', x) ->
  x_law x = true -> Backed s -> Backed s'.
Proof.
  unfold ep_add_liq. intros H Hlaw Hb. chk H. chk H. chk H. chk H.
  destruct (v_pair e) as [[lp used1] used2].
  mon H left1 Hl1. mon H left2 Hl2.
  destruct extra as [|p0 t].
  - destruct (mint_wlp_user s u lp _ _) as [s1 n] eqn:Hm. injection H as Es Ex. subst s' x. simpl in Hlaw.
    apply andb_prop in Hlaw. destruct Hlaw as [L1 L2]. apply Z.ltb_lt in L1. apply Z.leb_le in L2.
    exact (proj1 (mint_wlp_user_spec _ _ _ _ _ _ _ Hm Hb L1 L2)).
  - mon H r Hr. destruct r as [s1 [ta tl]]. mon H r3 Hr3.
    destruct (v_fact e) as [kf lf].
    destruct (mint_wlp_user s1 u (lp + ta) kf lf) as [s2 n] eqn:Hm. injection H as Es Ex. subst s' x. simpl in Hlaw.
    apply andb_prop in Hlaw. destruct Hlaw as [Hlaw L3]. apply andb_prop in Hlaw. destruct Hlaw as [L1 L2].
    apply Z.ltb_lt in L1. apply Z.leb_le in L2. apply Z.eqb_eq in L3.
    destruct (take_wlp_list_spec _ _ _ _ _ _ Hr Hb) as (Hb1 & Hta & Htl & _).
    refine (proj1 (mint_wlp_user_spec _ _ _ _ _ _ _ Hm Hb1 _ _)); lia.
Qed.

Lemma ep_remove_liq_backed s u pid p e s' x : ep_remove_liq s u pid p e = Ok (s', x) -> Backed s -> Backed s'.
Proof.
  unfold ep_remove_liq. intros H Hb. chk H. chk H. mon H r Hr. destruct r as [s1 [k lp]]. chk H.
  destruct (v_pair e) as [[z rb] ro].
  destruct (take_wlp_user_spec _ _ _ _ _ _ _ Hr Hb) as (Hb1 & _).
  destruct (lp <? rb).
  - injection H as Es _. subst. assumption.
  - mon H en Hen. injection H as Es _. subst. assumption.
Qed.

Lemma ep_claim_backed s u farm p e s' x : ep_claim s u farm p e = Ok (s', x) -> x_law x = true -> Backed s -> Backed s'.
Proof.
  unfold ep_claim. intros H Hlaw Hb. chk H. chk H. mon H r Hr. destruct r as [s1 [w pp]]. chk H. chk H.
  destruct (v_farm e) as [f F]. destruct (v_rew e) as [rk ra].
  destruct (mint_wfm s1 u farm f F (wf_kind w) (wf_pn w) pp) as [s2 m] eqn:Hm. injection H as Es Ex. subst s' x.
  simpl in Hlaw. apply Z.eqb_eq in Hlaw.
  destruct (take_wfm_spec _ _ _ _ _ _ _ Hr Hb) as (Hb1 & Ha & Hpp & _).
  refine (proj1 (mint_wfm_spec _ _ _ _ _ _ _ _ _ _ Hm Hb1 _ _)); lia.
Qed.

Lemma ep_merge_wlp_backed s u ps e s' x : ep_merge_wlp s u ps e = Ok (s', x) -> x_law x = true -> Backed s -> Backed s'.
Proof.
  unfold ep_merge_wlp. intros H Hlaw Hb. chk H. mon H r Hr. destruct r as [s1 [ta tl]]. chk H.
  destruct (v_fact e) as [kf lf].
  destruct (mint_wlp_user s1 u ta kf lf) as [s2 n] eqn:Hm. injection H as Es Ex. subst s' x. simpl in Hlaw. apply Z.eqb_eq in Hlaw.
  destruct (take_wlp_list_spec _ _ _ _ _ _ Hr Hb) as (Hb1 & Hta & Htl & Hpos & _).
  assert (ps <> []). { intros ->. simpl in C. unfold PROXY_MIN_MERGE_PAYMENTS in C. discriminate. }
  refine (proj1 (mint_wlp_user_spec _ _ _ _ _ _ _ Hm Hb1 _ _)); [auto | lia].
Qed.

Lemma ep_merge_wfm_backed s u farm ps e s' x : ep_merge_wfm s u farm ps e = Ok (s', x) -> x_law x = true -> Backed s -> Backed s'.
Proof.
  unfold ep_merge_wfm. intros H Hlaw Hb. chk H. chk H. mon H r Hr. destruct r as [s1 its].
  mon H r2 Hr2. destruct r2 as [s2 [[m amt] law]]. destruct (v_rew e) as [rk ra].
  injection H as Es Ex. subst s' x. simpl in Hlaw. apply andb_prop in Hlaw. destruct Hlaw as [L1 L2]. apply Z.leb_le in L2.
  destruct (take_wfm_list_spec _ _ _ _ _ Hr Hb) as (Hb1 & Hok & _).
  apply backed_locked_in; [|assumption]. eapply merge_items_spec; eauto.
Qed.

Lemma ep_inc_lp_backed s u p e s' x : ep_inc_lp s u p e = Ok (s', x) -> x_law x = true -> Backed s -> Backed s'.
Proof.
  unfold ep_inc_lp. intros H Hlaw Hb. chk H. mon H r Hr. destruct r as [s1 [k lp]]. chk H.
  destruct (v_fact e) as [kf lf].
  destruct (mint_wlp_user s1 u (p_amt p) kf lf) as [s2 n] eqn:Hm. injection H as Es Ex. subst s' x. simpl in Hlaw. apply Z.eqb_eq in Hlaw.
  destruct (take_wlp_user_spec _ _ _ _ _ _ _ Hr Hb) as (Hb1 & Ha & Hlp & _).
  refine (proj1 (mint_wlp_user_spec _ _ _ _ _ _ _ Hm Hb1 _ _)); lia.
Qed.

Lemma ep_inc_fm_backed s u p e s' x : ep_inc_fm s u p e = Ok (s', x) -> x_law x = true -> Backed s -> Backed s'.
Proof.
  unfold ep_inc_fm. intros H Hlaw Hb. chk H. mon H r Hr. destruct r as [s1 [w pp]].
  destruct (v_fact e) as [kf lf].
  destruct (take_wfm_spec _ _ _ _ _ _ _ Hr Hb) as (Hb1 & Ha & Hpp & _).
  destruct (wf_kind w =? 0).
  - chk H. destruct (mint_wfm s1 u (wf_farm w) (wf_f w) (p_amt p) 0 kf lf) as [s2 m] eqn:Hm.
    injection H as Es Ex. subst s' x. simpl in Hlaw. apply Z.eqb_eq in Hlaw.
    refine (proj1 (mint_wfm_spec _ _ _ _ _ _ _ _ _ _ Hm Hb1 _ _)); lia.
  - mon H r2 Hr2. destruct r2 as [s2 [k lq]]. chk H.
    destruct (mint_wlp s2 pp kf lf) as [s3 n] eqn:Hm3.
    destruct (mint_wfm s3 u (wf_farm w) (wf_f w) (p_amt p) 1 n pp) as [s4 m] eqn:Hm4.
    injection H as Es Ex. subst s' x. simpl in Hlaw. apply Z.eqb_eq in Hlaw.
    destruct (release_wlp_spec _ _ _ _ _ _ Hr2 Hb1) as (Hb2 & Hpp0 & Hlq & _).
    destruct (mint_wlp_spec _ _ _ _ _ _ Hm3 Hb2 ltac:(lia) ltac:(lia)) as (Hb3 & _).
    refine (proj1 (mint_wfm_spec _ _ _ _ _ _ _ _ _ _ Hm4 Hb3 _ _)); lia.
Qed.

Lemma ep_enter_farm_backed s u farm p extra e s' x : ep_enter_farm s u farm p extra e = Ok (s', x) ->
  x_law x = true -> Backed s -> Backed s'.
Proof.
  unfold ep_enter_farm. intros H Hlaw Hb. chk H. chk H. apply Z.ltb_lt in C0.
  mon H r0 Hr0. destruct r0 as [[s1 kind] minted]. chk H.
  destruct (v_farm e) as [f F]. destruct (v_rew e) as [rk ra].
  assert (Hb1 : Backed s1 /\ s_wfm s1 = s_wfm s).
  { destruct (p_tok p =? TK_LOCKED).
    - chk Hr0. injection Hr0 as -> _ _. auto.
    - destruct (p_tok p =? TK_WLP); [|discriminate].
      destruct (getn (s_wlp s) (p_non p)) as [w|]; [|discriminate].
      mon Hr0 h Hh. apply bal_sub_ok in Hh. destruct Hh as [Hge ->].
      mon Hr0 z Hz. mon Hr0 lp Hl. apply sub_chk_ok in Hl. destruct Hl as [Hle ->]. chk Hr0.
      injection Hr0 as <- _ _. split; [|reflexivity]. apply backed_hlp_lp; auto. destruct Hb. lia. }
  destruct Hb1 as [Hb1 Ewf].
  destruct extra as [|p0 t].
  - destruct (mint_wfm s1 u farm f F kind (p_non p) (p_amt p)) as [s2 m] eqn:Hm.
    injection H as Es Ex. subst s' x. simpl in Hlaw. apply Z.eqb_eq in Hlaw.
    refine (proj1 (mint_wfm_spec _ _ _ _ _ _ _ _ _ _ Hm Hb1 _ _)); lia.
  - mon H r Hr. destruct r as [s2 its]. mon H z Hz. mon H r2 Hr2. destruct r2 as [s5 [[m amt] law]].
    injection H as Es Ex. subst s' x. simpl in Hlaw. apply andb_prop in Hlaw. destruct Hlaw as [L1 L2]. apply Z.eqb_eq in L1.
    destruct (take_wfm_list_spec _ _ _ _ _ Hr Hb1) as (Hb2 & Hok & _).
    eapply merge_items_spec; eauto. constructor; auto. unfold item_ok, mk_item. split; lia.
Qed.

Lemma ep_exit_farm_backed s u farm p e s' x : ep_exit_farm s u farm p e = Ok (s', x) -> Backed s -> Backed s'.
Proof.
  unfold ep_exit_farm. intros H Hb. chk H. chk H. mon H r Hr. destruct r as [s1 [w pp]]. chk H. chk H.
  destruct (v_rew e) as [rk ra]. chk H. apply Z.leb_le in C3.
  destruct (take_wfm_spec _ _ _ _ _ _ _ Hr Hb) as (Hb1 & Ha & Hpp & _ & Hwf & _). subst pp.
  set (F := snd (v_farm e)) in *.
  destruct (F =? p_amt p) eqn:EF.
  - apply Z.eqb_eq in EF. destruct (wf_kind w =? 0).
    + injection H as Es _. subst. assumption.
    + injection H as Es _. subst s'. unfold bal_add. apply backed_hlp_lp; auto. destruct Hb1. lia.
  - apply Z.eqb_neq in EF. mon H rem Hrem. apply sub_chk_ok in Hrem. destruct Hrem as [Hle ->].
    destruct (wf_kind w =? 0).
    + mon H en Hen. injection H as Es _. subst. assumption.
    + destruct (getn (s_wlp s1) (wf_pn w)) as [wl|] eqn:Hwl; [|discriminate].
      mon H lnew Hln. mon H r2 Hr2. destruct r2 as [s2 [k lold]]. mon H extra Hex. mon H en Hen.
      destruct (mint_wlp (upd_lp s2 (s_lp s2 + F)) (p_amt p - (p_amt p - F)) k lnew) as [s4 n] eqn:Hm.
      injection H as Es _. subst s'.
      destruct (kill_wlp_spec _ _ _ _ _ _ Hr2 Hb1) as (Hb2 & _ & Hlo & E1 & E2 & _).
      pose proof (Forall_getn _ _ _ _ (bk_wlp _ Hb1) Hwl) as (HT & HL & _).
      unfold part_wlp in Hln. destruct (rule3_pos _ _ _ _ Hln HT HL) as (Hlnp & Hrem & _).
      assert (Hb3 : Backed (upd_lp s2 (s_lp s2 + F))) by (apply backed_lp_add; auto; lia).
      destruct (mint_wlp_spec _ _ _ _ _ _ Hm Hb3 ltac:(lia) ltac:(lia)) as (Hb4 & _ & E3 & E4 & _).
      unfold bal_add. apply backed_hlp_xfer_up; auto.
      destruct Hb2 as [B1 _ _ _ _ _ _]. rewrite E4, E3. simpl. lia.
Qed.

Lemma ep_xfer_wlp_backed s a b n x s' y : ep_xfer_wlp s a b n x = Ok (s', y) -> Backed s -> Backed s'.
Proof.
  unfold ep_xfer_wlp. intros H Hb. chk H. apply Z.ltb_lt in C. mon H h Hh. apply bal_sub_ok in Hh. destruct Hh as [Hge ->].
  injection H as Es _. subst s'.
  assert (Hb1 : Backed (upd_hlp s (aset (s_hlp s) (hkey n a) (aget (s_hlp s) (hkey n a) - x)))) by (apply backed_hlp_xfer; auto; lia).
  change (aset (s_hlp s) (hkey n a) (aget (s_hlp s) (hkey n a) - x)) with (s_hlp (upd_hlp s (aset (s_hlp s) (hkey n a) (aget (s_hlp s) (hkey n a) - x)))).
  set (s1 := upd_hlp s (aset (s_hlp s) (hkey n a) (aget (s_hlp s) (hkey n a) - x))) in *.
  assert (E : upd_hlp s (bal_add (s_hlp s1) (hkey n b) x) = upd_hlp s1 (aset (s_hlp s1) (hkey n b) (aget (s_hlp s1) (hkey n b) + x))) by reflexivity.
  rewrite E. apply backed_hlp_xfer_up; auto.
  destruct Hb as [B1 _ _ _ _ _ B7]. unfold s1. simpl. rewrite asum_aset by assumption. lia.
Qed.

Lemma ep_xfer_wfm_backed s a b n x s' y : ep_xfer_wfm s a b n x = Ok (s', y) -> Backed s -> Backed s'.
Proof.
  unfold ep_xfer_wfm. intros H Hb. chk H. mon H h Hh. injection H as Es _. subst s'.
  destruct Hb as [B1 B2 B3 B4 B5 B6 B7]. constructor; simpl; auto.
Qed.

Theorem step_backed s o s' x : step s o = Ok (s', x) -> x_law x = true -> Backed s -> Backed s'.
Proof.
  destruct o; simpl; intros H Hlaw Hb.
  - eapply ep_add_liq_backed; eauto.
  - eapply ep_remove_liq_backed; eauto.
  - eapply ep_enter_farm_backed; eauto.
  - eapply ep_exit_farm_backed; eauto.
  - eapply ep_claim_backed; eauto.
  - eapply ep_merge_wlp_backed; eauto.
  - eapply ep_merge_wfm_backed; eauto.
  - eapply ep_inc_lp_backed; eauto.
  - eapply ep_inc_fm_backed; eauto.
  - chk H. chk H. injection H as Es _. subst s'. destruct Hb as [B1 B2 B3 B4 B5 B6 B7]. constructor; simpl; auto.
  - chk H. chk H. chk H. injection H as Es _. subst s'. destruct Hb as [B1 B2 B3 B4 B5 B6 B7].
    destruct (farm =? 0); constructor; simpl; auto.
  - eapply ep_xfer_wlp_backed; eauto.
  - eapply ep_xfer_wfm_backed; eauto.
Qed.

(** states reachable when every nested response obeys the interface laws *)
Inductive reach : state -> Prop :=
| reach_init : reach init_state
| reach_step s o s' x : reach s -> step s o = Ok (s', x) -> x_law x = true -> reach s'.

Theorem reach_backed s : reach s -> Backed s.
Proof. induction 1; [apply backed_init | eapply step_backed; eauto]. Qed.

Lemma lawful_reach ops : forall s, reach s -> lawful s ops = true -> reach (run s ops).
Proof.
  induction ops as [|o t IH]; intros s Hr Hl; simpl in *; [assumption|].
  unfold step_total. destruct (step s o) as [[s' x]|] eqn:E.
  - apply andb_prop in Hl. destruct Hl as [L1 L2]. apply IH; auto. econstructor; eauto.
  - apply IH; auto.
Qed.

Theorem run_backed ops : lawful init_state ops = true -> Backed (run init_state ops).
Proof. intros H. apply reach_backed. apply lawful_reach; [constructor | assumption]. Qed.

(** per-position reading of the invariant: what a position can still release is in the proxy *)
Lemma sumf_nonneg {A} (g : A -> Z) l : (forall y, In y l -> 0 <= g y) -> 0 <= sumf g l.
Proof. induction l; simpl; intros H; [lia|]. pose proof (H a (or_introl eq_refl)). assert (0 <= sumf g l) by (apply IHl; intros; apply H; right; assumption). lia. Qed.

Theorem backed_wlp_position s n w : Backed s -> getn (s_wlp s) n = Some w ->
  wl_L w * wl_live w / wl_T w <= aget (s_locked s) (wl_k w) /\ wl_dead w <= aget (s_pwlp s) n.
Proof.
  intros Hb Hw. destruct Hb as [B1 B2 B3 B4 B5 B6 B7].
  assert (Hwl : forall k y, In y (s_wlp s) -> 0 <= wl_need k y).
  { intros k y Hy. rewrite Forall_forall in B5. destruct (B5 y Hy) as (HT & HL & Hlv & _). unfold wl_need.
    destruct (wl_k y =? k); [|lia]. apply div_nonneg; nia. }
  assert (Hwf : forall (g : wfm -> Z) , (forall y, g y = 0 \/ g y = wf_sup y) -> 0 <= sumf g (s_wfm s)).
  { intros g Hg. apply sumf_nonneg. intros y Hy. rewrite Forall_forall in B6. destruct (B6 y Hy) as (_ & _ & Hs). destruct (Hg y); lia. }
  split.
  - specialize (B4 (wl_k w)).
    assert (wl_need (wl_k w) w <= sumf (wl_need (wl_k w)) (s_wlp s)).
    { apply getn_some in Hw. destruct Hw as [_ Hw]. revert Hw Hwl. generalize (Z.to_nat (n - 1)). generalize (s_wlp s).
      induction l as [|h t IH]; intros [|i] H Hnn; simpl in *; try discriminate.
      - inversion H; subst. assert (0 <= sumf (wl_need (wl_k w)) t) by (apply sumf_nonneg; intros; apply Hnn; auto). lia.
      - assert (0 <= wl_need (wl_k w) h) by (apply Hnn; auto). specialize (IH _ H ltac:(intros; apply Hnn; auto)). lia. }
    assert (0 <= sumf (wf_need_locked (wl_k w)) (s_wfm s)).
    { apply Hwf. intros y. unfold wf_need_locked. destruct ((wf_kind y =? 0) && (wf_pn y =? wl_k w)); auto. }
    unfold wl_need in H at 1. rewrite Z.eqb_refl in H. lia.
  - specialize (B3 n). unfold dead_in in B3. rewrite Hw in B3.
    assert (0 <= sumf (wf_need_wlp n) (s_wfm s)).
    { apply Hwf. intros y. unfold wf_need_wlp. destruct (negb (wf_kind y =? 0) && (wf_pn y =? n)); auto. }
    lia.
Qed.

Theorem backed_wfm_position s m w : Backed s -> getn (s_wfm s) m = Some w ->
  wf_P w = wf_T w /\
  wf_sup w <= aget (s_farm s) (fkey (wf_f w) (wf_farm w)) /\
  (wf_kind w = 0 -> wf_sup w <= aget (s_locked s) (wf_pn w)) /\
  (wf_kind w <> 0 -> wf_sup w <= aget (s_pwlp s) (wf_pn w)).
Proof.
  intros Hb Hw. pose proof (backed_wlp_position s) as Hpos. destruct Hb as [B1 B2 B3 B4 B5 B6 B7].
  pose proof (Forall_getn _ _ _ _ B6 Hw) as (HT & HP & Hs).
  assert (Hel : forall g : wfm -> Z, (forall y, In y (s_wfm s) -> 0 <= g y) -> g w <= sumf g (s_wfm s)).
  { intros g. apply getn_some in Hw. destruct Hw as [_ Hw]. revert Hw. generalize (Z.to_nat (m - 1)). generalize (s_wfm s).
    induction l as [|h t IH]; intros [|i] H Hnn; simpl in *; try discriminate.
    - inversion H; subst. assert (0 <= sumf g t) by (apply sumf_nonneg; intros; apply Hnn; auto). lia.
    - assert (0 <= g h) by (apply Hnn; auto). specialize (IH _ H ltac:(intros; apply Hnn; auto)). lia. }
  assert (Hsup : forall y, In y (s_wfm s) -> 0 <= wf_sup y).
  { intros y Hy. rewrite Forall_forall in B6. destruct (B6 y Hy) as (_ & _ & ?). assumption. }
  assert (Hwl : forall k, 0 <= sumf (wl_need k) (s_wlp s)).
  { intros k. apply sumf_nonneg. intros y Hy. rewrite Forall_forall in B5. destruct (B5 y Hy) as (? & ? & ? & _). unfold wl_need.
    destruct (wl_k y =? k); [|lia]. apply div_nonneg; nia. }
  split; [exact HP|]. split; [|split].
  - specialize (B2 (fkey (wf_f w) (wf_farm w))).
    pose proof (Hel (wf_need_farm (fkey (wf_f w) (wf_farm w)))
      ltac:(intros y Hy; unfold wf_need_farm; destruct (fkey (wf_f y) (wf_farm y) =? _); [apply Hsup; auto | lia])) as H.
    unfold wf_need_farm in H at 1. rewrite Z.eqb_refl in H. lia.
  - intros Hk. specialize (B4 (wf_pn w)).
    pose proof (Hel (wf_need_locked (wf_pn w))
      ltac:(intros y Hy; unfold wf_need_locked; destruct ((wf_kind y =? 0) && (wf_pn y =? _)); [apply Hsup; auto | lia])) as H.
    unfold wf_need_locked in H at 1. rewrite Hk in H. rewrite !Z.eqb_refl in H. simpl in H. specialize (Hwl (wf_pn w)). lia.
  - intros Hk. specialize (B3 (wf_pn w)).
    pose proof (Hel (wf_need_wlp (wf_pn w))
      ltac:(intros y Hy; unfold wf_need_wlp; destruct (negb (wf_kind y =? 0) && (wf_pn y =? _)); [apply Hsup; auto | lia])) as H.
    unfold wf_need_wlp in H at 1. apply Z.eqb_neq in Hk. rewrite Hk in H. rewrite Z.eqb_refl in H. simpl in H.
    assert (0 <= dead_in (s_wlp s) (wf_pn w)).
    { unfold dead_in. destruct (getn (s_wlp s) (wf_pn w)) eqn:E; [|lia]. destruct (Forall_getn _ _ _ _ B5 E) as (_ & _ & _ & ?). assumption. }
    lia.
Qed.

(** ---------------------------------------------------------------- parts (C16_parts) *)
Theorem parts_char T a full r : rule3 T a full = Ok r -> 0 < T -> 0 <= full ->
  0 < r /\ r * T <= full * a < r * T + T /\ (a = T -> r = full).
Proof.
  intros H HT Hf. pose proof (rule3_floor _ _ _ _ H HT) as Hr. pose proof (rule3_ok _ _ _ _ H) as [Hp Hc].
  split; [exact Hp|]. split.
  - subst r. split; [apply div_lo | apply div_hi]; assumption.
  - intros ->. destruct Hc as [[_ ->]|[Hne _]]; [reflexivity | contradiction].
Qed.

Theorem parts_zero_aborts T a full : 0 < T -> 0 <= full -> 0 <= a -> full * a < T -> a <> T -> is_ok (rule3 T a full) = false.
Proof.
  intros HT Hf Ha Hlt Hne. unfold rule3. destruct (a =? T) eqn:E; [apply Z.eqb_eq in E; contradiction|].
  unfold div_chk. destruct (T =? 0) eqn:E0; [reflexivity|]. simpl.
  rewrite Z.div_small by nia. reflexivity.
Qed.

Fixpoint zsum (l : list Z) : Z := match l with [] => 0 | x :: t => x + zsum t end.

(** any sequence of partial redemptions of one position releases at most the whole *)
Theorem parts_sum T full : 0 < T -> 0 <= full -> forall amts rs,
  Forall2 (fun a r => rule3 T a full = Ok r) amts rs -> zsum amts <= T -> zsum rs <= full.
Proof.
  intros HT Hf amts rs H Hs.
  assert (Hk : zsum rs * T <= full * zsum amts).
  { clear Hs. induction H as [|a r ta tr Har Ht IH]; simpl; [lia|].
    destruct (rule3_pos _ _ _ _ Har HT Hf) as (_ & _ & Hb). nia. }
  nia.
Qed.

(** ---------------------------------------------------------------- energy (C16_mint_burn, last clause) *)
Lemma energy_update_char en amt unlock now en' : pe_update_after_unlock_any en amt unlock now = Ok en' ->
  pe_amt en' = pe_amt en - amt * (unlock - now) /\ pe_tot en' = pe_tot en - amt /\ amt <= pe_tot en /\ pe_upd en' = pe_upd en.
Proof.
  unfold pe_update_after_unlock_any. intros H. apply bind_ok in H. destruct H as (t & Ht & H). inversion H; subst en'. clear H.
  apply sub_chk_ok in Ht. simpl. destruct (unlock <? now) eqn:E.
  - apply Z.ltb_lt in E. unfold pe_add in *. destruct (now <=? unlock) eqn:E2; [apply Z.leb_le in E2; lia|]. simpl in *. lia.
  - apply Z.ltb_ge in E. unfold pe_subtract in *. destruct (unlock <=? now) eqn:E2; simpl in *.
    + apply Z.leb_le in E2. assert (unlock = now) by lia. subst. lia.
    + lia.
Qed.

Lemma burn_energy_char e amt r : burn_energy e amt = Ok r ->
  (amt = 0 /\ r = None) \/
  (amt <> 0 /\ exists en', r = Some en' /\
     let en := pe_deplete (v_energy e) (v_now e) in
     pe_amt en' = pe_amt en - amt * (v_unlock e - v_now e) /\ pe_tot en' = pe_tot en - amt).
Proof.
  unfold burn_energy. destruct (amt =? 0) eqn:E; intros H.
  - apply Z.eqb_eq in E. inversion H. auto.
  - apply Z.eqb_neq in E. right. split; [assumption|]. apply bind_ok in H. destruct H as (en' & Hen & H). inversion H; subst r.
    exists en'. split; [reflexivity|]. destruct (energy_update_char _ _ _ _ _ Hen) as (A & B & _). auto.
Qed.

(** ---------------------------------------------------------------- removeLiquidityProxy (C16_locked, C16_mint_burn) *)
Theorem remove_liq_char s u pid p e s' x : ep_remove_liq s u pid p e = Ok (s', x) -> Backed s ->
  exists w lp, getn (s_wlp s) (p_non p) = Some w /\ part_wlp w (p_amt p) = Ok lp /\
    let rb := snd (fst (v_pair e)) in let ro := snd (v_pair e) in
    let burned := Z.max 0 (lp - rb) in
    x_outs x = (if lp <? rb then [(TK_BASE, 0, rb - lp)] else []) ++
               [(TK_LOCKED, wl_k w, Z.min rb lp)] ++ [(TK_OTHER, 0, ro)] /\
    x_mint x = 0 /\ x_burn x = Z.min rb lp /\ x_lburn x = (if lp <? rb then (0, 0) else (wl_k w, burned)) /\
    x_burn x + snd (x_lburn x) = lp /\
    burn_energy e burned = Ok (x_energy x).
Proof.
  unfold ep_remove_liq. intros H Hb. chk H. chk H. mon H r Hr. destruct r as [s1 [k lp]]. chk H.
  destruct (take_wlp_user_spec _ _ _ _ _ _ _ Hr Hb) as (_ & _ & _ & _ & w & Hw & Hk & Hp). subst k.
  exists w, lp. split; [assumption|]. split; [assumption|].
  destruct (v_pair e) as [[z rb] ro]. simpl. destruct (lp <? rb) eqn:E.
  - apply Z.ltb_lt in E. injection H as _ Ex. subst x. simpl.
    rewrite Z.min_r by lia. rewrite Z.max_l by lia. repeat split; auto; lia.
  - apply Z.ltb_ge in E. mon H en Hen. injection H as _ Ex. subst x. simpl.
    rewrite Z.min_l by lia. rewrite Z.max_r by lia. repeat split; auto; lia.
Qed.

(** ---------------------------------------------------------------- addLiquidityProxy *)
Theorem add_liq_char s u pid p1 p2 e s' x : ep_add_liq s u pid p1 p2 [] e = Ok (s', x) -> Backed s -> x_law x = true ->
  exists pl po used_l used_o,
    ((p_tok p1 = TK_LOCKED /\ p_tok p2 <> TK_LOCKED /\ pl = p1 /\ po = p2 /\ used_l = snd (fst (v_pair e)) /\ used_o = snd (v_pair e)) \/
     (p_tok p2 = TK_LOCKED /\ p_tok p1 <> TK_LOCKED /\ pl = p2 /\ po = p1 /\ used_l = snd (v_pair e) /\ used_o = snd (fst (v_pair e)))) /\
    let lp := fst (fst (v_pair e)) in
    let n := next_nonce (s_wlp s) in
    0 <= used_l <= p_amt pl /\
    x_mint x = p_amt pl /\ x_burn x = p_amt pl - used_l /\ x_lburn x = (0, 0) /\ x_energy x = None /\
    x_outs x = [(TK_WLP, n, lp); (TK_LOCKED, p_non pl, p_amt pl - used_l); (TK_OTHER, 0, p_amt po - used_o)] /\
    getn (s_wlp s') n = Some (mkWlp lp (p_non pl) used_l lp 0).
Proof.
  unfold ep_add_liq. intros H Hb Hlaw. chk H. chk H. chk H. chk H.
  destruct (v_pair e) as [[lp used1] used2]. mon H left1 Hl1. mon H left2 Hl2.
  apply sub_chk_ok in Hl1. destruct Hl1 as [Hu1 ->]. apply sub_chk_ok in Hl2. destruct Hl2 as [Hu2 ->].
  destruct (mint_wlp_user s u lp _ _) as [s1 n] eqn:Hm. injection H as Es Ex. subst s' x. simpl in Hlaw.
  apply andb_prop in Hlaw. destruct Hlaw as [L1 L2]. apply Z.ltb_lt in L1. apply Z.leb_le in L2.
  destruct (mint_wlp_user_spec _ _ _ _ _ _ _ Hm Hb L1 L2) as (_ & Hn & Hg). subst n. simpl.
  destruct (p_tok p1 =? TK_LOCKED) eqn:E1; destruct (p_tok p2 =? TK_LOCKED) eqn:E2; simpl in C0; try discriminate.
  - apply Z.eqb_eq in E1. apply Z.eqb_neq in E2. exists p1, p2, used1, used2. split; [left; repeat split; auto|].
    repeat split; auto; lia.
  - apply Z.eqb_neq in E1. apply Z.eqb_eq in E2. exists p2, p1, used2, used1. split; [right; repeat split; auto|].
    repeat split; auto; lia.
Qed.

(** round trip through the pool: what the proxy minted net on entry is what it burns (base asset or
    locked tokens) when the whole position is removed *)
Theorem add_remove_round_trip s u pid p1 p2 e1 s1 x1 e2 s2 x2 :
  Backed s -> ep_add_liq s u pid p1 p2 [] e1 = Ok (s1, x1) -> x_law x1 = true ->
  ep_remove_liq s1 u pid (TK_WLP, next_nonce (s_wlp s), fst (fst (v_pair e1))) e2 = Ok (s2, x2) ->
  x_burn x2 + snd (x_lburn x2) = x_mint x1 - x_burn x1.
Proof.
  intros Hb Ha Hlaw Hr.
  destruct (add_liq_char _ _ _ _ _ _ _ _ Ha Hb Hlaw) as (pl & po & ul & uo & _ & Hc). simpl in Hc.
  destruct Hc as (Hul & Hm & Hbn & _ & _ & _ & Hg).
  assert (Hb1 : Backed s1) by (eapply ep_add_liq_backed; eauto).
  destruct (remove_liq_char _ _ _ _ _ _ _ Hr Hb1) as (w & lp & Hw & Hp & Hc). unfold p_non, p_amt in Hw, Hp. cbn [fst snd] in Hw, Hp. cbv zeta in Hc.
  destruct Hc as (_ & _ & _ & _ & Hsum & _). rewrite Hg in Hw. inversion Hw; subst w. clear Hw.
  unfold part_wlp in Hp. simpl in Hp. unfold rule3 in Hp. rewrite Z.eqb_refl in Hp. simpl in Hp.
  destruct (0 <? ul); [|discriminate]. inversion Hp; subst lp. lia.
Qed.

(** ---------------------------------------------------------------- farms (C16_locked, C16_mint_burn) *)
Theorem enter_farm_char s u farm p e s' x : ep_enter_farm s u farm p [] e = Ok (s', x) -> Backed s -> x_law x = true ->
  let a := p_amt p in let m := next_nonce (s_wfm s) in
  0 < a /\ snd (v_farm e) = a /\ x_burn x = 0 /\ x_lburn x = (0, 0) /\ x_energy x = None /\
  x_outs x = [(TK_WFM, m, a); (TK_LOCKED, fst (v_rew e), snd (v_rew e))] /\
  ((p_tok p = TK_LOCKED /\ farm = 0 /\ x_mint x = a /\
    getn (s_wfm s') m = Some (mkWfm farm (fst (v_farm e)) a 0 (p_non p) a a)) \/
   (p_tok p = TK_WLP /\ farm = 1 /\ x_mint x = 0 /\
    getn (s_wfm s') m = Some (mkWfm farm (fst (v_farm e)) a 1 (p_non p) a a))).
Proof.
  unfold ep_enter_farm. intros H Hb Hlaw. chk H. chk H. apply Z.ltb_lt in C0.
  mon H r0 Hr0. destruct r0 as [[s1 kind] minted]. chk H.
  destruct (v_farm e) as [f F]. destruct (v_rew e) as [rk ra].
  destruct (mint_wfm s1 u farm f F kind (p_non p) (p_amt p)) as [s2 m] eqn:Hm.
  injection H as Es Ex. subst s' x. simpl in Hlaw. apply Z.eqb_eq in Hlaw. subst F. simpl.
  assert (Hb1 : Backed s1 /\ s_wfm s1 = s_wfm s /\
                ((p_tok p = TK_LOCKED /\ farm = 0 /\ kind = 0 /\ minted = p_amt p) \/
                 (p_tok p = TK_WLP /\ farm = 1 /\ kind = 1 /\ minted = 0))).
  { destruct (p_tok p =? TK_LOCKED) eqn:E1.
    - chk Hr0. injection Hr0 as -> <- <-. apply Z.eqb_eq in E1. apply Z.eqb_eq in C2. split; [assumption|]. split; [reflexivity|]. left. auto.
    - destruct (p_tok p =? TK_WLP) eqn:E2; [|discriminate].
      destruct (getn (s_wlp s) (p_non p)) as [w|]; [|discriminate].
      mon Hr0 h Hh. apply bal_sub_ok in Hh. destruct Hh as [Hge ->].
      mon Hr0 z Hz. mon Hr0 lp Hl. apply sub_chk_ok in Hl. destruct Hl as [Hle ->]. chk Hr0.
      injection Hr0 as <- <- <-. apply Z.eqb_eq in E2. apply Z.eqb_eq in C2.
      split; [|split; [reflexivity | right; auto]]. apply backed_hlp_lp; auto. destruct Hb. lia. }
  destruct Hb1 as (Hb1 & Ewf & Hcase).
  destruct (mint_wfm_spec _ _ _ _ _ _ _ _ _ _ Hm Hb1 C0 eq_refl) as (_ & Hmn & Hg). rewrite Ewf in Hmn. subst m.
  repeat split; auto.
  destruct Hcase as [(A1 & A2 & A3 & A4)|(A1 & A2 & A3 & A4)]; subst kind minted; [left | right]; repeat split; auto.
Qed.

Theorem exit_farm_char s u farm p e s' x : ep_exit_farm s u farm p e = Ok (s', x) -> Backed s ->
  exists w, getn (s_wfm s) (p_non p) = Some w /\ wf_farm w = farm /\ wf_P w = wf_T w /\
    let a := p_amt p in let F := snd (v_farm e) in let pen := a - F in
    0 < a /\ F <= a /\ x_mint x = 0 /\ x_burn x = (if farm =? 0 then F else 0) /\
    (exists out, x_outs x = [out; (TK_LOCKED, fst (v_rew e), snd (v_rew e))] /\ p_amt out = a - pen /\
       ((wf_kind w = 0 /\ out = (TK_LOCKED, wf_pn w, a - pen)) \/ (wf_kind w <> 0 /\ p_tok out = TK_WLP /\ (pen = 0 -> p_non out = wf_pn w)))) /\
    (wf_kind w = 0 -> snd (x_lburn x) = pen /\ (pen <> 0 -> fst (x_lburn x) = wf_pn w) /\ burn_energy e pen = Ok (x_energy x)) /\
    (wf_kind w <> 0 -> pen = 0 -> x_lburn x = (0, 0) /\ x_energy x = None) /\
    (wf_kind w <> 0 -> pen <> 0 -> exists wl lold lnew,
        getn (s_wlp s) (wf_pn w) = Some wl /\ part_wlp wl a = Ok lold /\ part_wlp wl (a - pen) = Ok lnew /\
        x_lburn x = (wl_k wl, lold - lnew) /\ lnew <= lold /\ burn_energy e (lold - lnew) = Ok (x_energy x)).
Proof.
  unfold ep_exit_farm. intros H Hb. chk H. chk H. mon H r Hr. destruct r as [s1 [w pp]]. chk H. chk H.
  destruct (v_rew e) as [rk ra]. chk H. apply Z.leb_le in C3. apply Z.eqb_eq in C1.
  destruct (take_wfm_spec _ _ _ _ _ _ _ Hr Hb) as (Hb1 & Ha & Hpp & Hw & Hwf & _ & _ & Ewl). subst pp.
  exists w. split; [assumption|]. split; [assumption|]. split; [apply Hwf|]. simpl.
  set (F := snd (v_farm e)) in *. set (a := p_amt p) in *.
  destruct (F =? a) eqn:EF.
  - apply Z.eqb_eq in EF. assert (Hpen : a - F = 0) by lia.
    destruct (wf_kind w =? 0) eqn:Ek.
    + apply Z.eqb_eq in Ek. injection H as _ Ex. subst x. simpl. rewrite Hpen.
      split; [exact Ha|]. split; [lia|]. split; [reflexivity|]. split; [reflexivity|].
      split; [eexists; split; [reflexivity|]; split; [simpl; lia|]; left; split; [assumption|]; f_equal; lia|].
      split; [intros _; split; [reflexivity|]; split; [intros Hc; contradiction | reflexivity]|].
      split; [intros Hc; contradiction | intros Hc; contradiction].
    + apply Z.eqb_neq in Ek. injection H as _ Ex. subst x. simpl. rewrite Hpen.
      split; [exact Ha|]. split; [lia|]. split; [reflexivity|]. split; [reflexivity|].
      split; [eexists; split; [reflexivity|]; split; [simpl; lia|]; right; split; [assumption|]; split; [reflexivity|]; intros _; reflexivity|].
      split; [intros Hc; contradiction|].
      split; [intros _ _; split; reflexivity | intros _ Hc; contradiction].
  - apply Z.eqb_neq in EF. assert (Hpen : a - F <> 0) by lia.
    mon H rem Hrem. apply sub_chk_ok in Hrem. destruct Hrem as [Hle ->].
    destruct (wf_kind w =? 0) eqn:Ek.
    + apply Z.eqb_eq in Ek. mon H en Hen. injection H as _ Ex. subst x. simpl.
      split; [exact Ha|]. split; [lia|]. split; [reflexivity|]. split; [reflexivity|].
      split; [eexists; split; [reflexivity|]; split; [reflexivity|]; left; split; [assumption | reflexivity]|].
      split; [intros _; split; [reflexivity|]; split; [intros _; reflexivity | exact Hen]|].
      split; [intros Hc; contradiction | intros Hc; contradiction].
    + apply Z.eqb_neq in Ek.
      destruct (getn (s_wlp s1) (wf_pn w)) as [wl|] eqn:Hwl; [|discriminate].
      mon H lnew Hln. mon H r2 Hr2. destruct r2 as [s2 [k lold]]. mon H extra Hex. mon H en Hen.
      destruct (mint_wlp (upd_lp s2 (s_lp s2 + F)) (a - (a - F)) k lnew) as [s4 n] eqn:Hm.
      injection H as _ Ex. subst x. simpl.
      destruct (kill_wlp_spec _ _ _ _ _ _ Hr2 Hb1) as (_ & _ & _ & _ & _ & wl' & Hwl' & Hk & Hlo).
      rewrite Hwl in Hwl'. inversion Hwl'; subst wl'. clear Hwl'. subst k.
      apply sub_chk_ok in Hex. destruct Hex as [Hle2 ->]. rewrite Ewl in Hwl.
      split; [exact Ha|]. split; [lia|]. split; [reflexivity|]. split; [reflexivity|].
      split; [eexists; split; [reflexivity|]; split; [reflexivity|]; right; split; [assumption|]; split; [reflexivity|]; intros Hc; contradiction|].
      split; [intros Hc; contradiction|].
      split; [intros _ Hc; contradiction|].
      intros _ _. exists wl, lold, lnew. split; [assumption|]. split; [assumption|]. split; [assumption|].
      split; [reflexivity|]. split; [assumption | exact Hen].
Qed.

(** round trip through the base-asset farm *)
Theorem enter_exit_round_trip s u p e1 s1 x1 e2 s2 x2 :
  Backed s -> p_tok p = TK_LOCKED -> ep_enter_farm s u 0 p [] e1 = Ok (s1, x1) -> x_law x1 = true ->
  ep_exit_farm s1 u 0 (TK_WFM, next_nonce (s_wfm s), p_amt p) e2 = Ok (s2, x2) ->
  x_burn x2 + snd (x_lburn x2) = x_mint x1 /\
  exists rew, x_outs x2 = [(TK_LOCKED, p_non p, p_amt p - snd (x_lburn x2)); rew].
Proof.
  intros Hb Hp He Hlaw Hx.
  destruct (enter_farm_char _ _ _ _ _ _ _ He Hb Hlaw) as (Ha & _ & _ & _ & _ & _ & Hc). cbv zeta in Hc.
  destruct Hc as [(_ & _ & Hm & Hg)|(Hc & _)]; [|rewrite Hp in Hc; discriminate].
  assert (Hb1 : Backed s1) by (eapply ep_enter_farm_backed; eauto).
  destruct (exit_farm_char _ _ _ _ _ _ _ Hx Hb1) as (w & Hw & _ & _ & Hc). unfold p_non, p_amt in Hw. cbn [fst snd] in Hw.
  fold (p_amt p) in Hw. rewrite Hg in Hw. inversion Hw; subst w. clear Hw. cbv zeta in Hc. simpl in Hc.
  destruct Hc as (_ & HF & _ & Hb2 & (out & Ho & _ & Hout) & Hk0 & _).
  destruct (Hk0 eq_refl) as (Hl & _). split; [lia|].
  destruct Hout as [(_ & ->)|(Hne & _)]; [|contradiction]. rewrite Ho. rewrite Hl. eexists. reflexivity.
Qed.

(** ---------------------------------------------------------------- base asset leaves the proxy only as pool surplus *)
Ltac brk H :=
  repeat (first
    [ discriminate H
    | match type of H with
      | (if ?c then _ else _) = Ok _ => destruct c eqn:?
      | bind ?r _ = Ok _ => let x := fresh "r" in let Hx := fresh "Hr" in apply bind_ok in H; destruct H as (x & Hx & H)
      | (let '(_, _) := ?t in _) = Ok _ => destruct t eqn:?
      | match ?t with _ => _ end = Ok _ => destruct t eqn:?
      end ]).

Lemma merge_items_amt s u farm its e s' m amt law : merge_items s u farm its e = Ok (s', (m, amt, law)) -> True.
Proof. trivial. Qed.

Theorem base_only_surplus s o s' x pay : step s o = Ok (s', x) -> In pay (x_outs x) -> p_tok pay = TK_BASE ->
  exists u pid p e lp w, o = RemoveLiq u pid p e /\ getn (s_wlp s) (p_non p) = Some w /\ part_wlp w (p_amt p) = Ok lp /\
    lp < snd (fst (v_pair e)) /\ pay = (TK_BASE, 0, snd (fst (v_pair e)) - lp).
Proof.
  intros H Hin Hb. destruct o; simpl in H.
  - unfold ep_add_liq in H. brk H; injection H as _ Ex; subst x; simpl in Hin;
      repeat (destruct Hin as [Hin|Hin]; [subst pay; discriminate Hb|]); contradiction.
  - unfold ep_remove_liq in H. chk H. chk H. mon H r Hr. destruct r as [s1 [k lp]]. chk H.
    unfold take_wlp_user in Hr. mon Hr h Hh. mon Hr l0 Hl0. unfold release_wlp in Hr. simpl in Hr.
    destruct (getn (s_wlp s) (p_non p)) as [w|] eqn:Hw; [|discriminate]. chk Hr. mon Hr lp0 Hlp. mon Hr live Hlv. mon Hr s2 Hs2.
    injection Hr as _ Ek El. subst lp0 k.
    destruct (v_pair e) as [[z rb] ro] eqn:Ev. destruct (lp <? rb) eqn:E.
    + apply Z.ltb_lt in E. injection H as _ Ex. subst x. simpl in Hin.
      destruct Hin as [Hin|[Hin|[Hin|[]]]]; subst pay; try discriminate Hb.
      exists u, pairid, p, e, lp, w. rewrite Ev. simpl. repeat split; auto.
    + mon H en Hen. injection H as _ Ex. subst x. simpl in Hin.
      destruct Hin as [Hin|[Hin|[]]]; subst pay; discriminate Hb.
  - unfold ep_enter_farm in H. brk H; injection H as _ Ex; subst x; simpl in Hin;
      repeat (destruct Hin as [Hin|Hin]; [subst pay; discriminate Hb|]); contradiction.
  - unfold ep_exit_farm in H. brk H; injection H as _ Ex; subst x; simpl in Hin;
      repeat (destruct Hin as [Hin|Hin]; [subst pay; discriminate Hb|]); contradiction.
  - unfold ep_claim in H. brk H; injection H as _ Ex; subst x; simpl in Hin;
      repeat (destruct Hin as [Hin|Hin]; [subst pay; discriminate Hb|]); contradiction.
  - unfold ep_merge_wlp in H. brk H; injection H as _ Ex; subst x; simpl in Hin;
      repeat (destruct Hin as [Hin|Hin]; [subst pay; discriminate Hb|]); contradiction.
  - unfold ep_merge_wfm in H. brk H; injection H as _ Ex; subst x; simpl in Hin;
      repeat (destruct Hin as [Hin|Hin]; [subst pay; discriminate Hb|]); contradiction.
  - unfold ep_inc_lp in H. brk H; injection H as _ Ex; subst x; simpl in Hin;
      repeat (destruct Hin as [Hin|Hin]; [subst pay; discriminate Hb|]); contradiction.
  - unfold ep_inc_fm in H. brk H; injection H as _ Ex; subst x; simpl in Hin;
      repeat (destruct Hin as [Hin|Hin]; [subst pay; discriminate Hb|]); contradiction.
  - brk H; injection H as _ Ex; subst x; simpl in Hin; contradiction.
  - brk H; injection H as _ Ex; subst x; simpl in Hin; contradiction.
  - unfold ep_xfer_wlp in H. brk H; injection H as _ Ex; subst x; simpl in Hin; contradiction.
  - unfold ep_xfer_wfm in H. brk H; injection H as _ Ex; subst x; simpl in Hin; contradiction.
Qed.

(** ---------------------------------------------------------------- merging / extending keeps everything locked *)
Theorem merge_wlp_char s u ps e s' x : ep_merge_wlp s u ps e = Ok (s', x) -> Backed s -> x_law x = true ->
  let n := next_nonce (s_wlp s) in
  x_outs x = [(TK_WLP, n, sum_amt ps)] /\ x_mint x = 0 /\ x_burn x = 0 /\ x_lburn x = (0, 0) /\ x_energy x = None /\
  0 < sum_amt ps /\ 0 <= snd (v_fact e) /\
  getn (s_wlp s') n = Some (mkWlp (sum_amt ps) (fst (v_fact e)) (snd (v_fact e)) (sum_amt ps) 0).
Proof.
  unfold ep_merge_wlp. intros H Hb Hlaw. chk H. mon H r Hr. destruct r as [s1 [ta tl]]. chk H.
  destruct (v_fact e) as [kf lf].
  destruct (mint_wlp_user s1 u ta kf lf) as [s2 n] eqn:Hm. injection H as Es Ex. subst s' x. simpl in Hlaw. apply Z.eqb_eq in Hlaw.
  destruct (take_wlp_list_spec _ _ _ _ _ _ Hr Hb) as (Hb1 & Hta & Htl & Hpos & Hsum & _).
  assert (ps <> []). { intros ->. simpl in C. unfold PROXY_MIN_MERGE_PAYMENTS in C. discriminate. }
  specialize (Hpos H). subst lf.
  destruct (mint_wlp_user_spec _ _ _ _ _ _ _ Hm Hb1 Hpos Htl) as (_ & Hn & Hg).
  assert (Elen : next_nonce (s_wlp s1) = next_nonce (s_wlp s)).
  { clear - Hr. revert s s1 ta tl Hr. induction ps as [|p t IH]; intros s s1 ta tl Hr; simpl in Hr.
    - inversion Hr; reflexivity.
    - destruct (p_tok p =? TK_WLP); [|discriminate]. mon Hr r1 Hr1. destruct r1 as [sa [ka la]].
      mon Hr r2 Hr2. destruct r2 as [sb [tb lb]]. inversion Hr; subst. rewrite (IH _ _ _ _ Hr2).
      unfold take_wlp_user in Hr1. mon Hr1 h Hh. mon Hr1 l0 Hl0. unfold release_wlp in Hr1. simpl in Hr1.
      destruct (getn (s_wlp s) (p_non p)) as [w|] eqn:Hw; [|discriminate]. chk Hr1. mon Hr1 x1 Hx1. mon Hr1 x2 Hx2. mon Hr1 x3 Hx3.
      inversion Hr1; subst. unfold locked_out in Hx3. mon Hx3 x4 Hx4. inversion Hx3; subst. simpl.
      unfold next_nonce, setn. f_equal. f_equal. clear. generalize (Z.to_nat (p_non p - 1)). generalize (s_wlp s).
      induction l; intros [|i]; simpl; auto. }
  subst ta. simpl. rewrite <- Elen. rewrite <- Hn. repeat split; auto.
Qed.

(** with or without merging: what is minted on entry, net of the leftover burned, is the locked amount the pool used *)
Theorem add_liq_mint_any s u pid p1 p2 extra e s' x : ep_add_liq s u pid p1 p2 extra e = Ok (s', x) ->
  let used_l := if p_tok p1 =? TK_LOCKED then snd (fst (v_pair e)) else snd (v_pair e) in
  let pl := if p_tok p1 =? TK_LOCKED then p1 else p2 in
  p_tok pl = TK_LOCKED /\ x_mint x = p_amt pl /\ x_burn x = p_amt pl - used_l /\ used_l <= p_amt pl /\
  x_lburn x = (0, 0) /\ x_energy x = None.
Proof.
  unfold ep_add_liq. intros H. chk H. chk H. chk H. chk H.
  destruct (v_pair e) as [[lp used1] used2]. mon H left1 Hl1. mon H left2 Hl2.
  apply sub_chk_ok in Hl1. destruct Hl1 as [Hu1 ->]. apply sub_chk_ok in Hl2. destruct Hl2 as [Hu2 ->]. simpl.
  assert (Hx : x_mint x = p_amt (if p_tok p1 =? TK_LOCKED then p1 else p2) /\
               x_burn x = (if p_tok p1 =? TK_LOCKED then p_amt p1 - used1 else p_amt p2 - used2) /\
               x_lburn x = (0, 0) /\ x_energy x = None).
  { destruct extra as [|p0 t].
    - destruct (mint_wlp_user s u lp _ _) as [s1 n]. injection H as _ Ex. subst x. simpl. auto.
    - mon H r Hr. destruct r as [s1 [ta tl]]. mon H r3 Hr3. destruct (v_fact e) as [kf lf].
      destruct (mint_wlp_user s1 u (lp + ta) kf lf) as [s2 n]. injection H as _ Ex. subst x. simpl. auto. }
  destruct Hx as (A & B & C' & D).
  destruct (p_tok p1 =? TK_LOCKED) eqn:E1; destruct (p_tok p2 =? TK_LOCKED) eqn:E2; simpl in C0; try discriminate.
  - apply Z.eqb_eq in E1. repeat split; auto.
  - apply Z.eqb_eq in E2. repeat split; auto.
Qed.

Theorem enter_farm_mint_any s u farm p extra e s' x : ep_enter_farm s u farm p extra e = Ok (s', x) ->
  x_mint x = (if p_tok p =? TK_LOCKED then p_amt p else 0) /\ x_burn x = 0 /\ x_lburn x = (0, 0) /\ x_energy x = None /\
  (p_tok p = TK_LOCKED \/ p_tok p = TK_WLP).
Proof.
  unfold ep_enter_farm. intros H. chk H. chk H.
  mon H r0 Hr0. destruct r0 as [[s1 kind] minted]. chk H.
  destruct (v_farm e) as [f F]. destruct (v_rew e) as [rk ra].
  assert (Hm : minted = (if p_tok p =? TK_LOCKED then p_amt p else 0) /\ (p_tok p = TK_LOCKED \/ p_tok p = TK_WLP)).
  { destruct (p_tok p =? TK_LOCKED) eqn:E1.
    - chk Hr0. injection Hr0 as _ _ <-. apply Z.eqb_eq in E1. auto.
    - destruct (p_tok p =? TK_WLP) eqn:E2; [|discriminate]. apply Z.eqb_eq in E2.
      destruct (getn (s_wlp s) (p_non p)) as [w|]; [|discriminate].
      mon Hr0 h Hh. mon Hr0 z Hz. mon Hr0 lp Hl. chk Hr0. injection Hr0 as _ _ <-. auto. }
  destruct Hm as [-> Hk].
  destruct extra as [|p0 t].
  - destruct (mint_wfm s1 u farm f F kind (p_non p) (p_amt p)) as [s2 m]. injection H as _ Ex. subst x. simpl. auto.
  - mon H r Hr. destruct r as [s2 its]. mon H z Hz. mon H r2 Hr2. destruct r2 as [s5 [[m amt] law]].
    injection H as _ Ex. subst x. simpl. auto.
Qed.

(** ---------------------------------------------------------------- example history (Props/C16.v, non-vacuity)
    the first operations of a history executed on the real composed system by tools/sys_proxydex.py *)
Definition ex_ops : list op := [
  AddLiq 1 0 (2, 1, 1000000) (1, 0, 400000) [] (mkEnv 1 true (400000, 800000, 400000) (0, 0) (0, 0) (0, 0) (0, 0) (mkPEn 359000000000000000000 1 1000000000000000000) 0);
  EnterFarm 1 1 (3, 1, 150000) [] (mkEnv 1 true (0, 0, 0) (1, 150000) (0, 0) (0, 0) (0, 0) (mkPEn 359000000000000000000 1 1000000000000000000) 0);
  EnterFarm 1 0 (2, 1, 500000) [] (mkEnv 1 true (0, 0, 0) (1, 500000) (0, 0) (0, 0) (0, 0) (mkPEn 359000000000000000000 1 1000000000000000000) 0);
  ExitFarm 1 1 (4, 1, 50000) (mkEnv 2 true (0, 0, 0) (0, 49500) (0, 0) (1, 15000) (0, 0) (mkPEn 358000000000005370000 2 1000000000000015000) 360);
  ExitFarm 1 0 (4, 2, 100000) (mkEnv 2 true (0, 0, 0) (0, 99000) (0, 0) (1, 9000) (0, 0) (mkPEn 358000000000008234000 2 1000000000000023000) 360);
  RemoveLiq 1 0 (3, 1, 50000) (mkEnv 2 true (0, 31883, 157142) (0, 0) (0, 0) (0, 0) (0, 0) (mkPEn 358000000000007876000 2 1000000000000022000) 360);
  MergeWlp 1 [(3, 1, 10000); (3, 2, 5000)] (mkEnv 2 true (0, 0, 0) (0, 0) (0, 0) (0, 0) (1, 30000) (mkPEn 357999999999983490114 2 999999999999953883) 0)].

