(** Invariants of the farm state machine: reward accounting and principal backing (C05),
    position ledger (C07), solvency of claimable base rewards (C05), owner totals (C07). *)
From MX Require Import Base.Prelude Gen.Params Model.Farm.

Lemma maxp_pos : 0 < MAXP.
Proof. vm_compute. reflexivity. Qed.

(** ------------------------------------------------------------------ weighted sums over association lists *)
Fixpoint wsum (w : Z -> Z) (l : list (Z * Z)) : Z :=
  match l with [] => 0 | (k, v) :: t => v * w k + wsum w t end.

Lemma asum_wsum l : asum l = wsum (fun _ => 1) l.
Proof. induction l as [|[k v] t IH]; simpl; [reflexivity | rewrite IH; lia]. Qed.

Lemma wsum_aset w l k v : NoDup (akeys l) -> wsum w (aset l k v) = wsum w l + (v - aget l k) * w k.
Proof.
  induction l as [|[k' v'] t IH]; simpl; intros ND.
  - lia.
  - inversion ND as [|? ? Hnin ND']; subst. destruct (k' =? k) eqn:E; simpl.
    + apply Z.eqb_eq in E. subst. lia.
    + rewrite IH by assumption. lia.
Qed.

Lemma wsum_ext w w' l : (forall k, In k (akeys l) -> w k = w' k) -> wsum w l = wsum w' l.
Proof.
  induction l as [|[k v] t IH]; simpl; intros H; [reflexivity|].
  rewrite (H k) by auto. rewrite IH; [reflexivity|]. intros; apply H; auto.
Qed.

Lemma wsum_add w1 w2 l : wsum (fun k => w1 k + w2 k) l = wsum w1 l + wsum w2 l.
Proof. induction l as [|[k v] t IH]; simpl; [reflexivity | rewrite IH; lia]. Qed.

Lemma wsum_const c l : wsum (fun _ => c) l = c * asum l.
Proof. induction l as [|[k v] t IH]; simpl; [lia | rewrite IH; lia]. Qed.

Lemma wsum_nonneg w l : all_nonneg l -> (forall k, In k (akeys l) -> 0 <= w k) -> 0 <= wsum w l.
Proof.
  induction l as [|[k v] t IH]; simpl; intros NN H; [lia|].
  inversion NN; subst. simpl in *. specialize (IH H3 (fun k' Hk => H k' (or_intror Hk))).
  specialize (H k (or_introl eq_refl)). nia.
Qed.

Lemma aget_notin l k : ~ In k (akeys l) -> aget l k = 0.
Proof.
  induction l as [|[k' v] t IH]; simpl; intros H; [reflexivity|].
  destruct (k' =? k) eqn:E; [apply Z.eqb_eq in E; tauto | apply IH; tauto].
Qed.

Lemma aget_le_asum l k : NoDup (akeys l) -> all_nonneg l -> aget l k <= asum l.
Proof.
  induction l as [|[k' v] t IH]; simpl; intros ND NN; [lia|].
  inversion ND; subst. inversion NN; subst. simpl in *.
  assert (0 <= asum t). { rewrite asum_wsum. apply wsum_nonneg; [assumption | intros; lia]. }
  destruct (k' =? k); [lia | specialize (IH H2 H4); lia].
Qed.

(** ------------------------------------------------------------------ field groups *)
Definition core (f : farm) := (f_supply f, f_reserve f, f_rps f, f_last f).
Definition cfgt (f : farm) := (f_rate f, f_produce f, f_pct f, f_factors f, f_dsc f, f_minep f, f_pen f, f_state f, f_same f).
Definition toks (f : farm) := (f_next f, f_attrs f, f_held f, f_utot f, f_out f).
Definition money (f : farm) := (f_bal_rew f, f_bal_farming f, f_pool f, f_gen f, f_paid f).

Ltac inj H := injection H; clear H; intros.

(** ------------------------------------------------------------------ settle *)
Definition wf_cfg (f : farm) : Prop :=
  0 < f_dsc f /\ 0 <= f_rate f /\ 0 <= f_pct f <= MAXP /\ 0 <= f_supply f /\ 0 <= f_rps f /\ 0 <= f_pool f.

Lemma boosted_cut_bounds f tm : 0 <= tm -> 0 <= f_pct f <= MAXP -> 0 <= boosted_cut f tm <= tm.
Proof.
  intros Ht Hp. unfold boosted_cut. destruct ((f_pct f =? 0) || negb (f_factors f)); [lia|].
  pose proof maxp_pos. split; [apply div_nonneg; nia|].
  apply Z.div_le_upper_bound; [lia|]. nia.
Qed.

Lemma settle_spec f blk f' : settle f blk = Ok f' -> wf_cfg f ->
  cfgt f' = cfgt f /\ toks f' = toks f /\ f_supply f' = f_supply f /\ f_bal_farming f' = f_bal_farming f /\
  f_paid f' = f_paid f /\ f_last f <= f_last f' /\
  exists tm cut inc,
    0 <= cut <= tm /\ 0 <= inc /\ inc * f_supply f <= (tm - cut) * f_dsc f /\
    f_reserve f' = f_reserve f + tm /\ f_rps f' = f_rps f + inc /\ f_bal_rew f' = f_bal_rew f + tm /\
    f_pool f' = f_pool f + cut /\ f_gen f' = f_gen f + tm.
Proof.
  unfold settle. intros H (Hd & Hr & Hp & Hs & Hrp & Hpl).
  destruct (blk <=? f_last f) eqn:E.
  { inversion H; subst. repeat split; try reflexivity; try lia. exists 0, 0, 0. repeat split; lia. }
  apply Z.leb_gt in E. cbv zeta in H.
  set (tm := if f_produce f then f_rate f * (blk - f_last f) else 0) in *.
  assert (Htm : 0 <= tm) by (unfold tm; destruct (f_produce f); nia).
  destruct (tm =? 0) eqn:E0.
  { inversion H; subst. simpl. repeat split; try reflexivity; try lia. exists 0, 0, 0. repeat split; lia. }
  pose proof (boosted_cut_bounds f tm Htm Hp) as Hc.
  set (cut := boosted_cut f tm) in *. clearbody cut tm.
  apply bind_ok in H. destruct H as (inc & Hinc & H). inversion H; subst; clear H. simpl.
  assert (Hi : 0 <= inc /\ inc * f_supply f <= (tm - cut) * f_dsc f).
  { destruct (f_supply f =? 0) eqn:ES.
    - inversion Hinc; subst. apply Z.eqb_eq in ES. rewrite ES. nia.
    - apply Z.eqb_neq in ES. apply div_chk_ok in Hinc. destruct Hinc as [_ ->].
      assert (0 < f_supply f) by lia.
      split; [apply div_nonneg; nia | apply div_lo; assumption]. }
  repeat split; try reflexivity; try lia.
  exists tm, cut, inc. repeat split; lia.
Qed.

Lemma pay_reward_spec f r b f' : pay_reward f r b = Ok f' ->
  cfgt f' = cfgt f /\ toks f' = toks f /\ f_supply f' = f_supply f /\ f_rps f' = f_rps f /\ f_last f' = f_last f /\
  f_bal_farming f' = f_bal_farming f /\ f_gen f' = f_gen f /\
  0 <= b <= f_pool f /\ r <= f_reserve f /\ r <= f_bal_rew f /\
  f_reserve f' = f_reserve f - r /\ f_pool f' = f_pool f - b /\ f_bal_rew f' = f_bal_rew f - r /\
  f_paid f' = f_paid f + r.
Proof.
  unfold pay_reward. intros H.
  destruct (0 <=? b) eqn:E; [|discriminate]. apply Z.leb_le in E.
  apply bind_ok in H. destruct H as (res & Hres & H).
  apply bind_ok in H. destruct H as (pool & Hpool & H).
  apply bind_ok in H. destruct H as (bal & Hbal & H).
  inversion H; subst; clear H. simpl.
  apply sub_chk_ok in Hres, Hpool, Hbal.
  destruct Hres as [? ->]. destruct Hpool as [? ->]. destruct Hbal as [? ->].
  repeat split; try reflexivity; lia.
Qed.

(** ------------------------------------------------------------------ position payments *)
Fixpoint psum (w : Z -> Z) (ps : list (Z * Z)) : Z :=
  match ps with [] => 0 | (n, x) :: t => x * w n + psum w t end.

Definition same_but_toks (f f' : farm) : Prop := core f' = core f /\ cfgt f' = cfgt f /\ money f' = money f.

Lemma same_but_toks_refl f : same_but_toks f f.
Proof. unfold same_but_toks; auto. Qed.
Lemma same_but_toks_trans f g h : same_but_toks f g -> same_but_toks g h -> same_but_toks f h.
Proof. unfold same_but_toks. intros (A & B & C) (D & E & F). rewrite D, E, F. auto. Qed.

Lemma aget_pos_in l k : 0 < aget l k -> In k (akeys l).
Proof.
  intros H. destruct (in_dec Z.eq_dec k (akeys l)); [assumption|].
  rewrite aget_notin in H by assumption. lia.
Qed.

Lemma akeys_aset_sub l k v x : In k (akeys l) -> In x (akeys (aset l k v)) -> In x (akeys l).
Proof. intros Hk Hx. apply akeys_aset_in in Hx. destruct Hx; subst; auto. Qed.

Record pay_post (f f' : farm) (ps : list (Z * Z)) : Prop := {
  pp_same : same_but_toks f f';
  pp_next : f_next f' = f_next f;
  pp_attrs : f_attrs f' = f_attrs f;
  pp_utot : f_utot f' = f_utot f;
  pp_out : forall w, wsum w (f_out f') = wsum w (f_out f) - psum w ps;
  pp_held : asum (f_held f') = asum (f_held f) - psum (fun _ => 1) ps;
  pp_nd_out : NoDup (akeys (f_out f'));
  pp_nd_held : NoDup (akeys (f_held f'));
  pp_nn_out : all_nonneg (f_out f');
  pp_nn_held : all_nonneg (f_held f');
  pp_keys : forall k, In k (akeys (f_out f')) -> In k (akeys (f_out f));
  pp_hkeys : forall k, In k (akeys (f_held f')) -> In k (akeys (f_held f));
  pp_pos : Forall (fun p => 0 < snd p /\ In (fst p) (akeys (f_out f))) ps
}.

Definition ledger_ok (f : farm) : Prop :=
  NoDup (akeys (f_out f)) /\ NoDup (akeys (f_held f)) /\ all_nonneg (f_out f) /\ all_nonneg (f_held f).

Lemma pay_in_post f c p f' : pay_in f c p = Ok f' -> ledger_ok f -> pay_post f f' [p].
Proof.
  unfold pay_in, debit_held. intros H (ND1 & ND2 & NN1 & NN2). destruct p as [n x]. simpl in H.
  apply bind_ok in H. destruct H as (f1 & H1 & H).
  destruct (0 <? x) eqn:Ex; [|discriminate]. apply Z.ltb_lt in Ex.
  apply bind_ok in H1. destruct H1 as (b & Hb & H1). inversion H1; subst f1; clear H1.
  apply bind_ok in H. destruct H as (o & Ho & H). inversion H; subst f'; clear H.
  apply sub_chk_ok in Hb, Ho. destruct Hb as [Hb ->]. destruct Ho as [Ho ->].
  unfold outst, held in *. simpl in *.
  assert (Hin : In n (akeys (f_out f))) by (apply aget_pos_in; lia).
  constructor; simpl.
  - unfold same_but_toks, core, cfgt, money. simpl. auto.
  - reflexivity.
  - reflexivity.
  - reflexivity.
  - intros w. rewrite wsum_aset by assumption. lia.
  - rewrite asum_aset by assumption. lia.
  - apply nodup_aset; assumption.
  - apply nodup_aset; assumption.
  - apply all_nonneg_aset; [assumption|lia].
  - apply all_nonneg_aset; [assumption|lia].
  - intros k Hk. eapply akeys_aset_sub; eauto.
  - intros k Hk. eapply akeys_aset_sub; eauto. apply aget_pos_in. lia.
  - constructor; [simpl; auto | constructor].
Qed.

Lemma pay_post_ledger f f' ps : pay_post f f' ps -> ledger_ok f'.
Proof. intros []. unfold ledger_ok. auto. Qed.

Lemma pay_all_post ps : forall f c f', pay_all f c ps = Ok f' -> ledger_ok f -> pay_post f f' ps.
Proof.
  induction ps as [|p t IH]; intros f c f' H L; simpl in H.
  - inversion H; subst. destruct L as (A & B & C & D).
    constructor; auto using same_but_toks_refl; try (intros; simpl; lia); try (simpl; lia).
  - apply bind_ok in H. destruct H as (f1 & H1 & H).
    apply pay_in_post in H1; auto. pose proof (pay_post_ledger _ _ _ H1) as L1.
    apply IH in H; auto. destruct H1, H. destruct p as [n x].
    constructor.
    + eapply same_but_toks_trans; eauto.
    + congruence.
    + congruence.
    + congruence.
    + intros w. rewrite pp_out1, pp_out0. simpl. lia.
    + rewrite pp_held1, pp_held0. simpl. lia.
    + assumption.
    + assumption.
    + assumption.
    + assumption.
    + auto.
    + auto.
    + constructor.
      * inversion pp_pos0; subst. assumption.
      * eapply Forall_impl; [|exact pp_pos1]. intros [n' x'] [A B]. simpl in *. split; auto.
Qed.

(** ------------------------------------------------------------------ user-total helpers only touch f_utot *)
Definition only_utot (f f' : farm) : Prop :=
  same_but_toks f f' /\ f_next f' = f_next f /\ f_attrs f' = f_attrs f /\ f_held f' = f_held f /\ f_out f' = f_out f.

Lemma only_utot_refl f : only_utot f f.
Proof. unfold only_utot. auto using same_but_toks_refl. Qed.
Lemma only_utot_trans f g h : only_utot f g -> only_utot g h -> only_utot f h.
Proof.
  unfold only_utot. intros (A & B & C & D & E) (A' & B' & C' & D' & E').
  split; [eapply same_but_toks_trans; eauto|]. repeat split; congruence.
Qed.

Lemma set_utot_only f u v : only_utot f (set_utot f u v).
Proof. unfold only_utot, set_utot, same_but_toks, core, cfgt, money. simpl. auto. Qed.

Lemma decrease_user_only f p f' : decrease_user f p = Ok f' -> only_utot f f'.
Proof.
  unfold decrease_user. destruct p as [n x]. intros H.
  apply bind_ok in H. destruct H as (a & Ha & H). inversion H; subst.
  destruct (x <? utot f (a_owner a)); apply set_utot_only.
Qed.

Lemma check_update_only ps : forall f u f', check_update f u ps = Ok f' -> only_utot f f'.
Proof.
  induction ps as [|[n x] t IH]; intros f u f' H; simpl in H.
  - inversion H; subst. apply only_utot_refl.
  - apply bind_ok in H. destruct H as (a & Ha & H).
    destruct (a_owner a =? u).
    + eapply IH; eauto.
    + apply bind_ok in H. destruct H as (f1 & H1 & H).
      apply (decrease_user_only f (n, x) f1) in H1. apply IH in H.
      eapply only_utot_trans; [exact H1|]. eapply only_utot_trans; [|exact H].
      apply set_utot_only.
Qed.

(** ------------------------------------------------------------------ merging: amounts add up *)
Lemma into_part_amt a x p : into_part a x = Ok p -> a_amt p = x /\ a_rps p = a_rps a /\ a_epoch p = a_epoch a /\ a_owner p = a_owner a.
Proof.
  unfold into_part. destruct (x =? a_amt a) eqn:E.
  - intros H. inversion H; subst. apply Z.eqb_eq in E. auto.
  - intros H. apply bind_ok in H. destruct H as (c & _ & H). inversion H; subst. simpl. auto.
Qed.

Lemma merge_with_amt a b m : merge_with a b = Ok m -> a_amt m = a_amt a + a_amt b /\ a_owner m = a_owner a.
Proof.
  unfold merge_with. intros H. apply bind_ok in H. destruct H as (r & _ & H). inversion H; subst. simpl. auto.
Qed.

Lemma merge_payments_amt ps : forall f base m, merge_payments f base ps = Ok m ->
  a_amt m = a_amt base + psum (fun _ => 1) ps /\ a_owner m = a_owner base.
Proof.
  induction ps as [|[n x] t IH]; intros f base m H; simpl in H.
  - inversion H; subst. simpl. lia.
  - apply bind_ok in H. destruct H as (a & _ & H).
    apply bind_ok in H. destruct H as (p & Hp & H).
    apply bind_ok in H. destruct H as (mm & Hm & H).
    apply into_part_amt in Hp. apply merge_with_amt in Hm. apply IH in H. simpl. destruct H, Hp, Hm. split; [lia | congruence].
Qed.

Lemma merge_payments_ext ps : forall f f' base, f_attrs f' = f_attrs f ->
  merge_payments f' base ps = merge_payments f base ps.
Proof.
  induction ps as [|[n x] t IH]; intros f f' base E; simpl; [reflexivity|].
  unfold get_attrs. rewrite E. destruct (find_attrs (f_attrs f) n); simpl; [|reflexivity].
  destruct (into_part a x); simpl; [|reflexivity].
  destruct (merge_with base a0); simpl; [|reflexivity]. apply IH. assumption.
Qed.

Lemma wf_cfg_same f f' : cfgt f' = cfgt f -> f_supply f' = f_supply f -> f_rps f' = f_rps f -> f_pool f' = f_pool f ->
  wf_cfg f -> wf_cfg f'.
Proof.
  intros C S R P (A & B & D & E & F & G). unfold cfgt in C. inj C.
  unfold wf_cfg. rewrite S, R, P. repeat split; try congruence; lia.
Qed.

(** ------------------------------------------------------------------ micro invariant: holds between the helpers of an endpoint *)
Record MI (f : farm) : Prop := {
  mi_acc : f_reserve f = f_gen f - f_paid f;
  mi_led : ledger_ok f;
  mi_held : asum (f_held f) = asum (f_out f);
  mi_fresh : forall k, In k (akeys (f_out f)) -> k < f_next f;
  mi_fresh_held : forall k, In k (akeys (f_held f)) -> k < f_next f * 1000;
  mi_next : 0 < f_next f;
  mi_wf : wf_cfg f
}.

(** donations: what the farm holds in reward tokens beyond its reserve *)
Definition don (f : farm) : Z := f_bal_rew f - f_reserve f.

Lemma pay_reward_MI f r b f' : pay_reward f r b = Ok f' -> MI f ->
  MI f' /\ don f' = don f /\
  cfgt f' = cfgt f /\ toks f' = toks f /\ f_supply f' = f_supply f /\ f_rps f' = f_rps f /\ f_last f' = f_last f /\
  f_bal_farming f' = f_bal_farming f /\ f_gen f' = f_gen f /\
  0 <= b <= f_pool f /\ r <= f_reserve f /\
  f_reserve f' = f_reserve f - r /\ f_pool f' = f_pool f - b /\ f_paid f' = f_paid f + r.
Proof.
  intros H [acc led hh fr frh nx wf]. apply pay_reward_spec in H.
  destruct H as (C & T & S & R & L & BF & G & Hb & Hr & Hbr & Res & P & Br & Pd).
  pose proof T as T'. unfold toks in T'. inj T'.
  split; [|unfold don; repeat split; auto; lia].
  constructor.
  - lia.
  - unfold ledger_ok in *. congruence.
  - congruence.
  - intros k Hk. replace (f_out f') with (f_out f) in Hk by congruence. replace (f_next f') with (f_next f) by congruence. auto.
  - intros k Hk. replace (f_held f') with (f_held f) in Hk by congruence. replace (f_next f') with (f_next f) by congruence. auto.
  - congruence.
  - destruct wf as (w1 & w2 & w3 & w4 & w5 & w6). pose proof C as C'. unfold cfgt in C'. inj C'.
    unfold wf_cfg. repeat split; try congruence; lia.
Qed.

Lemma settle_MI f blk f' : settle f blk = Ok f' -> MI f ->
  MI f' /\ don f' = don f /\
  cfgt f' = cfgt f /\ toks f' = toks f /\ f_supply f' = f_supply f /\ f_bal_farming f' = f_bal_farming f /\
  f_paid f' = f_paid f /\ f_last f <= f_last f' /\
  exists tm cut inc,
    0 <= cut <= tm /\ 0 <= inc /\ inc * f_supply f <= (tm - cut) * f_dsc f /\
    f_reserve f' = f_reserve f + tm /\ f_rps f' = f_rps f + inc /\
    f_pool f' = f_pool f + cut /\ f_gen f' = f_gen f + tm.
Proof.
  intros H [acc led hh fr frh nx wf]. apply settle_spec in H; auto.
  destruct H as (C & T & S & BF & Pd & L & tm & cut & inc & Hcut & Hinc & Hinc2 & Res & R & Br & P & G).
  pose proof T as T'. unfold toks in T'. inj T'.
  split; [|split; [unfold don; lia|]].
  - constructor.
    + lia.
    + unfold ledger_ok in *. congruence.
    + congruence.
    + intros k Hk. replace (f_out f') with (f_out f) in Hk by congruence. replace (f_next f') with (f_next f) by congruence. auto.
    + intros k Hk. replace (f_held f') with (f_held f) in Hk by congruence. replace (f_next f') with (f_next f) by congruence. auto.
    + congruence.
    + destruct wf as (w1 & w2 & w3 & w4 & w5 & w6). pose proof C as C'. unfold cfgt in C'. inj C'.
      unfold wf_cfg. repeat split; try congruence; lia.
  - repeat split; auto. exists tm, cut, inc. repeat split; auto; lia.
Qed.

Lemma pay_all_MI ps f c f' : pay_all f c ps = Ok f' -> MI f ->
  MI f' /\ same_but_toks f f' /\ f_next f' = f_next f /\ f_attrs f' = f_attrs f /\ f_utot f' = f_utot f /\
  (forall w, wsum w (f_out f') = wsum w (f_out f) - psum w ps) /\
  Forall (fun p => 0 < snd p /\ In (fst p) (akeys (f_out f))) ps /\
  (forall k, In k (akeys (f_out f')) -> In k (akeys (f_out f))).
Proof.
  intros H [acc led hh fr frh nx wf]. apply pay_all_post in H; auto.
  destruct H as [s1 n1 a1 u1 o1 h1 ndo1 ndh1 nno1 nnh1 k1 hk1 pos1].
  split; [|split; [exact s1|split; [exact n1|split; [exact a1|split; [exact u1|split; [exact o1|split; [exact pos1|exact k1]]]]]]].
  pose proof s1 as (C1 & C2 & C3). unfold core in C1. inj C1. unfold money in C3. inj C3.
  constructor.
  - congruence.
  - unfold ledger_ok. auto.
  - rewrite h1. rewrite !asum_wsum. rewrite (o1 (fun _ => 1)). rewrite <- !asum_wsum. lia.
  - intros k Hk. rewrite n1. auto.
  - intros k Hk. rewrite n1. auto.
  - congruence.
  - eapply wf_cfg_same; eauto; try congruence.
Qed.

Lemma only_utot_MI f f' : only_utot f f' -> MI f -> MI f'.
Proof.
  intros (S & N & A & H & O) [acc led hh fr frh nx wf].
  pose proof S as (C1 & C2 & C3). unfold core in C1. inj C1. unfold money in C3. inj C3.
  constructor.
  - congruence.
  - unfold ledger_ok in *. rewrite H, O. assumption.
  - congruence.
  - intros k Hk. rewrite O in Hk. rewrite N. auto.
  - intros k Hk. rewrite H in Hk. rewrite N. auto.
  - congruence.
  - eapply wf_cfg_same; eauto; congruence.
Qed.

Definition valid_id (c : Z) : Prop := 0 <= c < 1000.

Lemma mint_pos_MI f a dst f' n : mint_pos f a dst = (f', n) -> MI f -> 0 <= a_amt a -> valid_id dst ->
  MI f' /\ same_but_toks f f' /\ n = f_next f /\ f_next f' = f_next f + 1 /\ f_attrs f' = f_attrs f ++ [(n, a)] /\
  f_utot f' = f_utot f /\ outst f n = 0 /\
  (forall w, wsum w (f_out f') = wsum w (f_out f) + a_amt a * w n).
Proof.
  unfold mint_pos. intros H [acc (ND1 & ND2 & NN1 & NN2) hh fr frh nx wf] Ha Hd. inversion H; subst f' n; clear H.
  unfold outst, held, valid_id in *. simpl.
  assert (O0 : aget (f_out f) (f_next f) = 0).
  { apply aget_notin. intros Hin. specialize (fr _ Hin). lia. }
  assert (H0 : aget (f_held f) (hkey (f_next f) dst) = 0).
  { apply aget_notin. intros Hin. specialize (frh _ Hin). unfold hkey in *. lia. }
  split.
  - constructor; simpl.
    + exact acc.
    + unfold ledger_ok; simpl. repeat split;
        [apply nodup_aset; assumption | apply nodup_aset; assumption
        | apply all_nonneg_aset; [assumption|lia] | apply all_nonneg_aset; [assumption|lia]].
    + rewrite !asum_aset by assumption. rewrite O0, H0. lia.
    + intros k Hk. apply akeys_aset_in in Hk. destruct Hk as [->|Hk]; [lia | specialize (fr _ Hk); lia].
    + intros k Hk. apply akeys_aset_in in Hk. destruct Hk as [->|Hk]; [unfold hkey; lia | specialize (frh _ Hk); lia].
    + lia.
    + exact wf.
  - split; [unfold same_but_toks, core, cfgt, money; simpl; auto|].
    split; [reflexivity|]. split; [reflexivity|]. split; [reflexivity|]. split; [reflexivity|].
    split; [exact O0|].
    intros w. rewrite wsum_aset by assumption. rewrite O0. lia.
Qed.

Lemma debit_held_MI f c p f' : debit_held f c p = Ok f' -> MI f ->
  same_but_toks f f' /\ f_next f' = f_next f /\ f_attrs f' = f_attrs f /\ f_utot f' = f_utot f /\ f_out f' = f_out f /\
  0 < snd p <= held f (fst p) c /\
  f_held f' = aset (f_held f) (hkey (fst p) c) (held f (fst p) c - snd p).
Proof.
  unfold debit_held. destruct p as [n x]. intros H M. simpl.
  destruct (0 <? x) eqn:Ex; [|discriminate]. apply Z.ltb_lt in Ex.
  apply bind_ok in H. destruct H as (b & Hb & H). inversion H; subst f'; clear H.
  apply sub_chk_ok in Hb. destruct Hb as [Hb ->]. simpl.
  unfold same_but_toks, core, cfgt, money. simpl. repeat split; auto; lia.
Qed.

(** core updates that keep the micro invariant *)
Lemma upd_supply_MI f s : MI f -> 0 <= s -> MI (upd_core f s (f_reserve f) (f_rps f) (f_last f)).
Proof.
  intros [acc led hh fr frh nx (w1 & w2 & w3 & w4 & w5 & w6)] Hs.
  constructor; simpl; auto. unfold wf_cfg. simpl. repeat split; auto; lia.
Qed.

Lemma upd_money_farming_MI f x : MI f ->
  MI (upd_money f (f_bal_rew f) x (f_pool f) (f_gen f) (f_paid f)).
Proof. intros [acc led hh fr frh nx wf]. constructor; simpl; auto. Qed.

Ltac split_groups :=
  repeat match goal with
  | H : same_but_toks _ _ |- _ => destruct H as (? & ? & ?)
  | H : only_utot _ _ |- _ => destruct H as (? & ? & ? & ? & ?)
  | H : core _ = core _ |- _ => unfold core in H; inj H
  | H : cfgt _ = cfgt _ |- _ => unfold cfgt in H; inj H
  | H : money _ = money _ |- _ => unfold money in H; inj H
  | H : toks _ = toks _ |- _ => unfold toks in H; inj H
  end.

(** push list-field equalities through (lia does no congruence) *)
Ltac rw_lists :=
  repeat match goal with H : ?x = ?x |- _ => clear H end;
  repeat match goal with
  | H : f_out ?a = _ |- _ => try rewrite H in *; clear H
  | H : f_held ?a = _ |- _ => try rewrite H in *; clear H
  end.

Record FarmAcc (f : farm) : Prop := {
  fa_mi : MI f;
  fa_out : asum (f_out f) = f_supply f;
  fa_prin : f_bal_farming f = f_supply f
}.

Definition acc_post (f f' : farm) : Prop := FarmAcc f' /\ don f' = don f /\ f_rps f <= f_rps f'.

Definition valid_op (op : fop) : Prop :=
  match op with
  | FEnter _ _ c _ _ _ | FClaim _ _ c _ _ _ | FCompound _ _ c _ _ _ | FExit _ _ c _ _
  | FMerge _ _ c _ _ | FClaimBoosted _ _ c _ => valid_id c
  | FTransfer _ s d _ => valid_id s /\ valid_id d
  | _ => True
  end.

Lemma psum1_nonneg ps : Forall (fun p : Z * Z => 0 < snd p) ps -> 0 <= psum (fun _ => 1) ps.
Proof.
  induction ps as [|[n x] t IH]; simpl; intros H; [lia|]. inversion H; subst. simpl in *. specialize (IH H3). lia.
Qed.

Lemma pos_weaken (P : Z -> Prop) ps : Forall (fun p : Z * Z => 0 < snd p /\ P (fst p)) ps -> Forall (fun p : Z * Z => 0 < snd p) ps.
Proof. intros H. eapply Forall_impl; [|exact H]. intros a [A _]. exact A. Qed.

Lemma ep_enter_acc f blk ep c amt adds b f' o :
  ep_enter f blk ep c amt adds b = Ok (f', o) -> FarmAcc f -> valid_id c -> acc_post f f'.
Proof.
  unfold ep_enter. intros H [M out prin] Hc.
  destruct (0 <? amt) eqn:Ea; [|discriminate]. apply Z.ltb_lt in Ea.
  apply bind_ok in H. destruct H as (f0 & H0 & H).
  destruct (active f0); [|discriminate].
  apply bind_ok in H. destruct H as (f1 & H1 & H).
  apply bind_ok in H. destruct H as (f2 & H2 & H).
  apply bind_ok in H. destruct H as (f4 & H4 & H).
  apply bind_ok in H. destruct H as (m & Hm & H).
  destruct (mint_pos _ m c) as [f6 n] eqn:Hmint. inversion H; subst; clear H.
  apply pay_reward_MI in H0; auto.
  destruct H0 as (M0 & D0 & C0 & T0 & S0 & R0 & L0 & BF0 & G0 & Hb & Hr & Res0 & P0 & Pd0).
  apply pay_all_MI in H1; auto. destruct H1 as (M1 & SB1 & N1 & A1 & U1 & O1 & Pos1 & K1).
  apply check_update_only in H2. pose proof (only_utot_MI _ _ H2 M1) as M2.
  pose proof (set_utot_only f2 c (utot f2 c + amt)) as H3. fold (increase_user f2 c amt) in H3.
  pose proof (only_utot_MI _ _ H3 M2) as M3.
  apply settle_MI in H4; auto.
  destruct H4 as (M4 & D4 & C4 & T4 & S4 & BF4 & Pd4 & L4 & tm & cut & inc & Hcut & Hinc & Hinc2 & Res4 & R4 & P4 & G4).
  assert (Hs4 : 0 <= f_supply f4) by (destruct M4 as [_ _ _ _ _ _ (_ & _ & _ & X & _)]; exact X).
  pose proof (upd_supply_MI f4 (f_supply f4 + amt) M4 ltac:(lia)) as M5.
  set (f5 := upd_core f4 (f_supply f4 + amt) (f_reserve f4) (f_rps f4) (f_last f4)) in *.
  apply merge_payments_amt in Hm. simpl in Hm. destruct Hm as [Hm _].
  pose proof (psum1_nonneg adds (pos_weaken (fun n => In n (akeys (f_out f0))) adds Pos1)) as Hps.
  apply mint_pos_MI in Hmint; auto; [|lia].
  destruct Hmint as (M6 & SB6 & En & N6 & A6 & U6 & O6z & O6).
  pose proof (upd_money_farming_MI f6 (f_bal_farming f6 + amt) M6) as M7.
  assert (E1 := O1 (fun _ => 1)). assert (E6 := O6 (fun _ => 1)).
  rewrite <- !asum_wsum in E1, E6.
  unfold acc_post, don in *. split_groups.
  split; [|split].
  - constructor.
    + exact M7.
    + simpl. unfold f5 in *. simpl in *. rw_lists. lia.
    + simpl. unfold f5 in *. simpl in *. lia.
  - simpl. unfold f5 in *. simpl in *. lia.
  - simpl. unfold f5 in *. simpl in *. lia.
Qed.

Lemma ep_claim_acc f blk ep c first adds b f' o :
  ep_claim f blk ep c first adds b = Ok (f', o) -> FarmAcc f -> valid_id c -> acc_post f f'.
Proof.
  unfold ep_claim. intros H [M out prin] Hc.
  destruct (active f); [|discriminate].
  apply bind_ok in H. destruct H as (f1 & H1 & H).
  apply bind_ok in H. destruct H as (f2 & H2 & H).
  apply bind_ok in H. destruct H as (a & Ha & H).
  apply bind_ok in H. destruct H as (part & Hpart & H).
  apply bind_ok in H. destruct H as (base & Hbase & H).
  apply bind_ok in H. destruct H as (f3 & H3 & H).
  apply bind_ok in H. destruct H as (f4 & H4 & H).
  apply bind_ok in H. destruct H as (m & Hm & H).
  destruct (mint_pos f4 m c) as [f5 n] eqn:Hmint. inversion H; subst; clear H.
  apply pay_all_MI in H1; auto. destruct H1 as (M1 & SB1 & N1 & A1 & U1 & O1 & Pos1 & K1).
  apply settle_MI in H2; auto.
  destruct H2 as (M2 & D2 & C2 & T2 & S2 & BF2 & Pd2 & L2 & tm & cut & inc & Hcut & Hinc & Hinc2 & Res2 & R2 & P2 & G2).
  apply pay_reward_MI in H3; auto.
  destruct H3 as (M3 & D3 & C3 & T3 & S3 & R3 & L3 & BF3 & G3 & Hb & Hr & Res3 & P3 & Pd3).
  apply check_update_only in H4. pose proof (only_utot_MI _ _ H4 M3) as M4.
  apply into_part_amt in Hpart. destruct Hpart as (Pa & _).
  apply merge_payments_amt in Hm. simpl in Hm. destruct Hm as [Hm _].
  pose proof (psum1_nonneg (first :: adds) (pos_weaken (fun n => In n (akeys (f_out f))) _ Pos1)) as Hps.
  assert (Hf : 0 < snd first) by (inversion Pos1; subst; tauto).
  destruct first as [n0 x0]. simpl in *.
  apply mint_pos_MI in Hmint; auto; [|lia].
  destruct Hmint as (M5 & SB5 & En & N5 & A5 & U5 & O5z & O5).
  assert (E1 := O1 (fun _ => 1)). assert (E5 := O5 (fun _ => 1)).
  rewrite <- !asum_wsum in E1, E5. simpl in E1.
  unfold acc_post, don in *. split_groups.
  split; [|split].
  - constructor.
    + exact M5.
    + rw_lists. lia.
    + lia.
  - lia.
  - lia.
Qed.

Lemma ep_compound_acc f blk ep c first adds b f' o :
  ep_compound f blk ep c first adds b = Ok (f', o) -> FarmAcc f -> valid_id c -> acc_post f f'.
Proof.
  unfold ep_compound. intros H [M out prin] Hc.
  destruct (active f); [|discriminate]. destruct (f_same f); [|discriminate].
  apply bind_ok in H. destruct H as (f1 & H1 & H).
  apply bind_ok in H. destruct H as (f2 & H2 & H).
  apply bind_ok in H. destruct H as (a & Ha & H).
  apply bind_ok in H. destruct H as (part & Hpart & H).
  apply bind_ok in H. destruct H as (base & Hbase & H).
  cbv zeta in H.
  apply bind_ok in H. destruct H as (f3 & H3 & H).
  apply bind_ok in H. destruct H as (f4 & H4 & H).
  apply bind_ok in H. destruct H as (m & Hm & H).
  destruct (mint_pos f4 m c) as [f5 n] eqn:Hmint. inversion H; subst; clear H.
  apply pay_all_MI in H1; auto. destruct H1 as (M1 & SB1 & N1 & A1 & U1 & O1 & Pos1 & K1).
  apply settle_MI in H2; auto.
  destruct H2 as (M2 & D2 & C2 & T2 & S2 & BF2 & Pd2 & L2 & tm & cut & inc & Hcut & Hinc & Hinc2 & Res2 & R2 & P2 & G2).
  (* base reward is non-negative *)
  assert (Hbase0 : 0 <= base).
  { unfold base_reward in Hbase. destruct (a_rps part <? f_rps f2) eqn:E.
    - apply div_chk_ok in Hbase. destruct Hbase as [_ ->]. apply Z.ltb_lt in E.
      destruct M2 as [_ _ _ _ _ _ (Hd & _)]. apply div_nonneg; [|lia].
      assert (0 < snd first) by (inversion Pos1; subst; tauto). nia.
    - inversion Hbase; lia. }
  apply pay_reward_MI in H3; auto.
  destruct H3 as (M3 & D3 & C3 & T3 & S3 & R3 & L3 & BF3 & G3 & Hb & Hr & Res3 & P3 & Pd3).
  assert (Hs3 : 0 <= f_supply f3) by (destruct M3 as [_ _ _ _ _ _ (_ & _ & _ & X & _)]; exact X).
  pose proof (upd_supply_MI f3 (f_supply f3 + (base + b)) M3 ltac:(lia)) as M3'.
  set (f3' := upd_core f3 (f_supply f3 + (base + b)) (f_reserve f3) (f_rps f3) (f_last f3)) in *.
  apply check_update_only in H4. pose proof (only_utot_MI _ _ H4 M3') as M4.
  apply into_part_amt in Hpart. destruct Hpart as (Pa & _).
  apply merge_payments_amt in Hm. simpl in Hm. destruct Hm as [Hm _].
  pose proof (psum1_nonneg (first :: adds) (pos_weaken (fun n => In n (akeys (f_out f))) _ Pos1)) as Hps.
  assert (Hf : 0 < snd first) by (inversion Pos1; subst; tauto).
  destruct first as [n0 x0]. simpl in *.
  apply mint_pos_MI in Hmint; auto; [|lia].
  destruct Hmint as (M5 & SB5 & En & N5 & A5 & U5 & O5z & O5).
  pose proof (set_utot_only f5 c (utot f5 c + (base + b))) as H6. fold (increase_user f5 c (base + b)) in H6.
  pose proof (only_utot_MI _ _ H6 M5) as M6.
  pose proof (upd_money_farming_MI _ (f_bal_farming (increase_user f5 c (base + b)) + (base + b)) M6) as M7.
  assert (E1 := O1 (fun _ => 1)). assert (E5 := O5 (fun _ => 1)).
  rewrite <- !asum_wsum in E1, E5. simpl in E1.
  unfold acc_post, don in *. split_groups.
  split; [|split].
  - constructor.
    + exact M7.
    + simpl. unfold f3' in *. simpl in *. rw_lists. lia.
    + simpl. unfold f3' in *. simpl in *. lia.
  - simpl. unfold f3' in *. simpl in *. lia.
  - simpl. unfold f3' in *. simpl in *. lia.
Qed.

Lemma ep_exit_acc f blk ep c p b f' o :
  ep_exit f blk ep c p b = Ok (f', o) -> FarmAcc f -> valid_id c -> acc_post f f'.
Proof.
  unfold ep_exit. intros H [M out prin] Hc.
  destruct (active f); [|discriminate].
  apply bind_ok in H. destruct H as (f1 & H1 & H).
  apply bind_ok in H. destruct H as (f2 & H2 & H).
  apply bind_ok in H. destruct H as (a & Ha & H).
  apply bind_ok in H. destruct H as (part & Hpart & H).
  apply bind_ok in H. destruct H as (base & Hbase & H).
  apply bind_ok in H. destruct H as (f3 & H3 & H).
  apply bind_ok in H. destruct H as (f4 & H4 & H).
  apply bind_ok in H. destruct H as (sup & Hsup & H).
  cbv zeta in H.
  apply bind_ok in H. destruct H as (age & Hage & H).
  apply bind_ok in H. destruct H as (outp & Hout & H).
  apply bind_ok in H. destruct H as (bal & Hbal & H).
  inversion H; subst; clear H.
  assert (H1' : pay_all f c [p] = Ok f1) by (simpl; rewrite H1; reflexivity).
  apply pay_all_MI in H1'; auto. destruct H1' as (M1 & SB1 & N1 & A1 & U1 & O1 & Pos1 & K1).
  apply settle_MI in H2; auto.
  destruct H2 as (M2 & D2 & C2 & T2 & S2 & BF2 & Pd2 & L2 & tm & cut & inc & Hcut & Hinc & Hinc2 & Res2 & R2 & P2 & G2).
  apply pay_reward_MI in H3; auto.
  destruct H3 as (M3 & D3 & C3 & T3 & S3 & R3 & L3 & BF3 & G3 & Hb & Hr & Res3 & P3 & Pd3).
  apply (decrease_user_only f3 p f4) in H4. pose proof (only_utot_MI _ _ H4 M3) as M4.
  apply into_part_amt in Hpart. destruct Hpart as (Pa & _).
  apply sub_chk_ok in Hsup, Hbal. destruct Hsup as [Hsup ->]. destruct Hbal as [Hbal ->].
  pose proof (upd_supply_MI f4 (f_supply f4 - a_amt part) M4 ltac:(lia)) as M5.
  set (f5 := upd_core f4 (f_supply f4 - a_amt part) (f_reserve f4) (f_rps f4) (f_last f4)) in *.
  pose proof (upd_money_farming_MI f5 (f_bal_farming f5 - a_amt part) M5) as M6.
  destruct p as [n0 x0]. simpl in *.
  assert (E1 := O1 (fun _ => 1)). rewrite <- !asum_wsum in E1. simpl in E1.
  unfold acc_post, don in *. split_groups.
  split; [|split].
  - constructor.
    + exact M6.
    + simpl. unfold f5 in *. simpl in *. rw_lists. lia.
    + simpl. unfold f5 in *. simpl in *. lia.
  - simpl. unfold f5 in *. simpl in *. lia.
  - simpl. unfold f5 in *. simpl in *. lia.
Qed.

Lemma ep_merge_acc f blk ep c ps b f' o :
  ep_merge f blk ep c ps b = Ok (f', o) -> FarmAcc f -> valid_id c -> acc_post f f'.
Proof.
  unfold ep_merge. intros H [M out prin] Hc.
  destruct (active f); [|discriminate].
  destruct ps as [|first rest]; [discriminate|].
  apply bind_ok in H. destruct H as (f0 & H0 & H).
  apply bind_ok in H. destruct H as (f1 & H1 & H).
  apply bind_ok in H. destruct H as (f2 & H2 & H).
  apply bind_ok in H. destruct H as (a & Ha & H).
  apply bind_ok in H. destruct H as (part & Hpart & H).
  apply bind_ok in H. destruct H as (m0 & Hm & H).
  cbv zeta in H.
  destruct (mint_pos f2 _ c) as [f3 n] eqn:Hmint. inversion H; subst; clear H.
  apply pay_reward_MI in H0; auto.
  destruct H0 as (M0 & D0 & C0 & T0 & S0 & R0 & L0 & BF0 & G0 & Hb & Hr & Res0 & P0 & Pd0).
  apply pay_all_MI in H1; auto. destruct H1 as (M1 & SB1 & N1 & A1 & U1 & O1 & Pos1 & K1).
  apply check_update_only in H2. pose proof (only_utot_MI _ _ H2 M1) as M2.
  apply into_part_amt in Hpart. destruct Hpart as (Pa & _).
  apply merge_payments_amt in Hm. destruct Hm as [Hm _].
  pose proof (psum1_nonneg (first :: rest) (pos_weaken (fun n => In n (akeys (f_out f0))) _ Pos1)) as Hps.
  assert (Hf : 0 < snd first) by (inversion Pos1; subst; tauto).
  destruct first as [n0 x0]. simpl in *.
  apply mint_pos_MI in Hmint; auto; [|simpl; lia].
  destruct Hmint as (M3 & SB3 & En & N3 & A3 & U3 & O3z & O3).
  assert (E1 := O1 (fun _ => 1)). assert (E3 := O3 (fun _ => 1)).
  rewrite <- !asum_wsum in E1, E3. simpl in E1, E3.
  unfold acc_post, don in *. split_groups.
  split; [|split].
  - constructor.
    + exact M3.
    + rw_lists. lia.
    + lia.
  - lia.
  - lia.
Qed.

Lemma ep_claim_boosted_acc f blk ep c b f' o :
  ep_claim_boosted f blk ep c b = Ok (f', o) -> FarmAcc f -> acc_post f f'.
Proof.
  unfold ep_claim_boosted. intros H [M out prin].
  destruct (negb (utot f c =? 0)); [|discriminate]. destruct (active f); [|discriminate].
  apply bind_ok in H. destruct H as (f1 & H1 & H).
  apply bind_ok in H. destruct H as (f2 & H2 & H). inversion H; subst; clear H.
  apply settle_MI in H1; auto.
  destruct H1 as (M1 & D1 & C1 & T1 & S1 & BF1 & Pd1 & L1 & tm & cut & inc & Hcut & Hinc & Hinc2 & Res1 & R1 & P1 & G1).
  apply pay_reward_MI in H2; auto.
  destruct H2 as (M2 & D2 & C2 & T2 & S2 & R2 & L2 & BF2 & G2 & Hb & Hr & Res2 & P2 & Pd2).
  unfold acc_post, don in *. split_groups.
  split; [|split].
  - constructor; [exact M2 | rw_lists; lia | lia].
  - lia.
  - lia.
Qed.

Lemma ep_transfer_acc f n src dst amt f' o :
  ep_transfer f n src dst amt = Ok (f', o) -> FarmAcc f -> valid_id src -> valid_id dst -> acc_post f f'.
Proof.
  unfold ep_transfer. intros H [M out prin] Hs Hd.
  apply bind_ok in H. destruct H as (f1 & H1 & H). inversion H; subst; clear H.
  apply debit_held_MI in H1; auto. simpl in H1.
  destruct H1 as (SB & N1 & A1 & U1 & O1 & Hx & Hh).
  destruct M as [acc (ND1 & ND2 & NN1 & NN2) hh fr frh nx wf].
  pose proof (aget_nonneg _ (hkey n dst) NN2) as Hd0.
  assert (NDh : NoDup (akeys (f_held f1))) by (rewrite Hh; apply nodup_aset; assumption).
  assert (NNh : all_nonneg (f_held f1)) by (rewrite Hh; apply all_nonneg_aset; [assumption | lia]).
  assert (Hn : n < f_next f).
  { assert (In (hkey n src) (akeys (f_held f))) by (apply aget_pos_in; unfold held in Hx; lia).
    specialize (frh _ H). unfold hkey, valid_id in *. lia. }
  pose proof SB as (Cc & Cg & Cm). unfold core in Cc. inj Cc. unfold money in Cm. inj Cm.
  unfold acc_post, don. simpl.
  split; [|split; lia].
  constructor; simpl; [|rewrite O1; lia|lia].
  constructor; simpl.
  - lia.
  - unfold ledger_ok. simpl. rewrite O1. repeat split; auto.
    + apply nodup_aset. assumption.
    + apply all_nonneg_aset; [assumption|]. unfold held. pose proof (aget_nonneg _ (hkey n dst) NNh). lia.
  - rewrite asum_aset by assumption. rewrite O1. unfold held. rewrite Hh.
    rewrite asum_aset by assumption. unfold held in *.
    destruct (Z.eq_dec (hkey n dst) (hkey n src)) as [E|E].
    + rewrite E. rewrite aget_aset_same. lia.
    + rewrite aget_aset_other by congruence. lia.
  - intros k Hk. rewrite O1 in Hk. rewrite N1. auto.
  - intros k Hk. apply akeys_aset_in in Hk. rewrite N1. destruct Hk as [->|Hk].
    + unfold hkey, valid_id in *. lia.
    + rewrite Hh in Hk. apply akeys_aset_in in Hk. destruct Hk as [->|Hk]; [unfold hkey, valid_id in *; lia | auto].
  - lia.
  - eapply wf_cfg_same; eauto; congruence.
Qed.

(** configuration changes keep the micro invariant *)
Lemma upd_cfg_MI f r pr pct fac me pen st : MI f -> 0 <= r -> 0 <= pct <= MAXP ->
  MI (upd_cfg f r pr pct fac me pen st).
Proof.
  intros [acc led hh fr frh nx (w1 & w2 & w3 & w4 & w5 & w6)] Hr Hp.
  constructor; simpl; auto. unfold wf_cfg. simpl. repeat split; auto; lia.
Qed.

Lemma FarmAcc_cfg f r pr pct fac me pen st : FarmAcc f -> 0 <= r -> 0 <= pct <= MAXP ->
  acc_post f (upd_cfg f r pr pct fac me pen st).
Proof.
  intros [M out prin] Hr Hp. unfold acc_post, don. simpl.
  split; [|split; lia]. constructor; simpl; auto. apply upd_cfg_MI; auto.
Qed.

Lemma acc_post_trans f g h : acc_post f g -> acc_post g h -> acc_post f h.
Proof. unfold acc_post. intros (A & B & C) (D & E & F). split; [exact D | split; lia]. Qed.

Lemma settle_acc f blk f' : settle f blk = Ok f' -> FarmAcc f -> acc_post f f'.
Proof.
  intros H [M out prin]. apply settle_MI in H; auto.
  destruct H as (M1 & D1 & C1 & T1 & S1 & BF1 & Pd1 & L1 & tm & cut & inc & Hcut & Hinc & Hinc2 & Res1 & R1 & P1 & G1).
  unfold acc_post, don in *. split_groups.
  split; [|split; lia]. constructor; [exact M1 | rw_lists; lia | lia].
Qed.

Lemma wf_of_acc f : FarmAcc f -> 0 <= f_rate f /\ 0 <= f_pct f <= MAXP.
Proof. intros [[_ _ _ _ _ _ (w1 & w2 & w3 & _)] _ _]. auto. Qed.

(** reward tokens sent to the farm by a plain transfer *)
Definition donated (op : fop) : Z := match op with FTopUp a => a | _ => 0 end.

Lemma fstep_acc f op f' o : fstep f op = Ok (f', o) -> FarmAcc f -> valid_op op ->
  FarmAcc f' /\ don f' = don f + donated op /\ f_rps f <= f_rps f'.
Proof.
  intros H A V.
  assert (Hz : acc_post f f' -> FarmAcc f' /\ don f' = don f + 0 /\ f_rps f <= f_rps f').
  { intros (X & Y & Z). split; [exact X | split; [lia | exact Z]]. }
  destruct op; simpl in H, V; simpl donated; try apply Hz.
  - eapply ep_enter_acc; eauto.
  - eapply ep_claim_acc; eauto.
  - eapply ep_compound_acc; eauto.
  - eapply ep_exit_acc; eauto.
  - eapply ep_merge_acc; eauto.
  - eapply ep_claim_boosted_acc; eauto.
  - destruct V. eapply ep_transfer_acc; eauto.
  - (* SetRate *) destruct (admin c); [|discriminate].
    destruct (negb (r =? 0) && (0 <=? r)) eqn:E; [|discriminate].
    apply bind_ok in H. destruct H as (f1 & H1 & H). inversion H; subst; clear H.
    apply andb_prop in E. destruct E as [_ E]. apply Z.leb_le in E.
    apply settle_acc in H1; auto. eapply acc_post_trans; [exact H1|].
    destruct H1 as (A1 & _). destruct (wf_of_acc _ A1). apply FarmAcc_cfg; auto.
  - (* Start *) destruct (admin c); [|discriminate]. destruct (negb (f_rate f =? 0)); [|discriminate].
    destruct (negb (f_produce f)); [|discriminate]. inversion H; subst; clear H.
    destruct (wf_of_acc _ A).
    assert (A1 : acc_post f (upd_core f (f_supply f) (f_reserve f) (f_rps f) blk)).
    { destruct A as [[acc led hh fr frh nx wf] out prin]. unfold acc_post, don. simpl.
      split; [|split; lia]. constructor; simpl; auto. constructor; simpl; auto. }
    eapply acc_post_trans; [exact A1|]. destruct A1 as (A1 & _). apply (FarmAcc_cfg _ _ _ _ _ _ _ _ A1); auto.
  - (* End *) destruct (admin c); [|discriminate].
    apply bind_ok in H. destruct H as (f1 & H1 & H). inversion H; subst; clear H.
    apply settle_acc in H1; auto. eapply acc_post_trans; [exact H1|].
    destruct H1 as (A1 & _). destruct (wf_of_acc _ A1). apply FarmAcc_cfg; auto.
  - (* SetPct *) destruct (admin c); [|discriminate].
    destruct ((0 <=? p) && (p <=? MAXP)) eqn:E; [|discriminate].
    apply bind_ok in H. destruct H as (f1 & H1 & H). inversion H; subst; clear H.
    apply andb_prop in E. destruct E as [E1 E2]. apply Z.leb_le in E1, E2.
    apply settle_acc in H1; auto. eapply acc_post_trans; [exact H1|].
    destruct H1 as (A1 & _). destruct (wf_of_acc _ A1). apply FarmAcc_cfg; auto.
  - destruct (admin c); [|discriminate]. inversion H; subst. destruct (wf_of_acc _ A). apply FarmAcc_cfg; auto.
  - destruct (admin c); [|discriminate]. destruct (_ || _); [|discriminate]. inversion H; subst.
    destruct (wf_of_acc _ A). apply FarmAcc_cfg; auto.
  - destruct (admin c); [|discriminate]. destruct (_ && _); [|discriminate]. inversion H; subst.
    destruct (wf_of_acc _ A). apply FarmAcc_cfg; auto.
  - destruct (admin c); [|discriminate]. destruct (_ && _); [|discriminate]. inversion H; subst.
    destruct (wf_of_acc _ A). apply FarmAcc_cfg; auto.
  - (* TopUp *) destruct (0 <? amt) eqn:E; [|discriminate]. inversion H; subst. apply Z.ltb_lt in E.
    destruct A as [[acc led hh fr frh nx wf] out prin]. unfold don. simpl.
    split; [|split; lia]. constructor; simpl; auto. constructor; simpl; auto.
Qed.

Lemma init_farm_acc dsc same : 0 < dsc -> FarmAcc (init_farm dsc same).
Proof.
  intros Hd. constructor; simpl; try reflexivity.
  constructor; simpl; try lia.
  - unfold ledger_ok. simpl. repeat split; constructor.
  - unfold wf_cfg. simpl. pose proof maxp_pos. repeat split; lia.
Qed.

Lemma frun_acc ops : forall f, FarmAcc f -> Forall valid_op ops -> FarmAcc (frun f ops).
Proof.
  induction ops as [|op t IH]; intros f A V; simpl; [exact A|].
  inversion V; subst. apply IH; [|assumption].
  unfold fstep_total. destruct (fstep f op) as [[f' o]|] eqn:E; [|exact A].
  apply fstep_acc in E; auto. destruct E as (A' & _). exact A'.
Qed.
