(** Solvency of the farm (C05): the reward reserve, net of the boosted pools, always covers the
    un-floored base rewards claimable by all outstanding positions; and the split/merge algebra of
    position attributes (C07). *)
From MX Require Import Base.Prelude Gen.Params Model.Farm Proofs.FarmInv.

(** ------------------------------------------------------------------ attribute algebra (C07) *)
Lemma ceil_avg_spec v1 w1 v2 w2 r : 0 < w1 + w2 -> ceil_avg v1 w1 v2 w2 = Ok r ->
  v1 * w1 + v2 * w2 <= r * (w1 + w2) < v1 * w1 + v2 * w2 + (w1 + w2).
Proof.
  unfold ceil_avg. intros Hw H. apply bind_ok in H. destruct H as (q & Hq & H). inversion H; subst.
  apply div_chk_ok in Hq. destruct Hq as [_ ->].
  pose proof (div_lo (v1 * w1 + v2 * w2 + (w1 + w2) - 1) (w1 + w2) Hw).
  pose proof (div_hi (v1 * w1 + v2 * w2 + (w1 + w2) - 1) (w1 + w2) Hw).
  set (q := (v1 * w1 + v2 * w2 + (w1 + w2) - 1) / (w1 + w2)) in *. clearbody q. lia.
Qed.

(** the amount-weighted entry index of a merge is never below that of the parts: for every
    reward-per-share level R the merged position is entitled to no more than the parts together *)
Lemma merge_entitlement a b m R : 0 < a_amt a -> 0 < a_amt b -> merge_with a b = Ok m ->
  a_amt m = a_amt a + a_amt b /\ a_comp m = a_comp a + a_comp b /\
  a_amt m * (R - a_rps m) <= a_amt a * (R - a_rps a) + a_amt b * (R - a_rps b) /\
  (a_rps a <= R -> a_rps b <= R -> a_rps m <= R).
Proof.
  unfold merge_with. intros Ha Hb H. apply bind_ok in H. destruct H as (r & Hr & H). inversion H; subst; clear H.
  apply ceil_avg_spec in Hr; [|lia]. simpl.
  split; [reflexivity|]. split; [reflexivity|]. split; [nia|].
  intros H1 H2. destruct (Z_le_gt_dec r R); [assumption|]. exfalso. nia.
Qed.

(** splitting: the index is unchanged, the amount is the part, compounded rewards are floored, and
    two complementary parts never hold more compounded reward than the whole *)
Lemma split_spec a x p : 0 < x <= a_amt a -> 0 <= a_comp a -> into_part a x = Ok p ->
  a_rps p = a_rps a /\ a_amt p = x /\ a_epoch p = a_epoch a /\ a_owner p = a_owner a /\
  a_comp p * a_amt a <= a_comp a * x < a_comp p * a_amt a + a_amt a.
Proof.
  unfold into_part, rule3. intros Hx Hc H. destruct (x =? a_amt a) eqn:E.
  - inversion H; subst. apply Z.eqb_eq in E. subst x. repeat split; auto; lia.
  - apply bind_ok in H. destruct H as (c & Hcc & H). inversion H; subst; clear H. simpl.
    apply div_chk_ok in Hcc. destruct Hcc as [_ ->].
    assert (Ha : 0 < a_amt a) by lia.
    pose proof (div_lo (a_comp a * x) (a_amt a) Ha). pose proof (div_hi (a_comp a * x) (a_amt a) Ha).
    repeat split; auto; lia.
Qed.

Lemma split_no_gain a x y p q : 0 < x -> 0 < y -> x + y = a_amt a -> 0 <= a_comp a ->
  into_part a x = Ok p -> into_part a y = Ok q ->
  a_amt p + a_amt q = a_amt a /\ a_comp p + a_comp q <= a_comp a.
Proof.
  intros Hx Hy Hxy Hc Hp Hq.
  apply split_spec in Hp; [|lia|assumption]. apply split_spec in Hq; [|lia|assumption].
  destruct Hp as (_ & Pa & _ & _ & P1 & _). destruct Hq as (_ & Qa & _ & _ & Q1 & _).
  split; [lia|]. assert (Ha : 0 < a_amt a) by lia. nia.
Qed.

(** ------------------------------------------------------------------ attributes lookup *)
Definition rps_of (f : farm) (n : Z) : Z :=
  match find_attrs (f_attrs f) n with Some a => a_rps a | None => 0 end.

Lemma find_attrs_app l n a k : k <> n -> find_attrs (l ++ [(n, a)]) k = find_attrs l k.
Proof.
  intros Hk. induction l as [|[k' a'] t IH]; simpl.
  - destruct (n =? k) eqn:E; [apply Z.eqb_eq in E; congruence | reflexivity].
  - destruct (k' =? k); [reflexivity | exact IH].
Qed.

Lemma find_attrs_app_new l n a : (forall k a', In (k, a') l -> k <> n) -> find_attrs (l ++ [(n, a)]) n = Some a.
Proof.
  intros H. induction l as [|[k' a'] t IH]; simpl.
  - rewrite Z.eqb_refl. reflexivity.
  - destruct (k' =? n) eqn:E.
    + apply Z.eqb_eq in E. exfalso. apply (H k' a'); [left; reflexivity | exact E].
    + apply IH. intros k a'' Hin. apply (H k a''). right. exact Hin.
Qed.

(** attributes invariant: every outstanding nonce has attributes whose index does not exceed the
    farm's; all recorded nonces are below the next one *)
Record AttrInv (f : farm) : Prop := {
  ai_has : forall n, In n (akeys (f_out f)) -> exists a, find_attrs (f_attrs f) n = Some a /\ a_rps a <= f_rps f;
  ai_fresh : forall k a, In (k, a) (f_attrs f) -> k < f_next f
}.

Definition claimable (f : farm) : Z := wsum (fun n => f_rps f - rps_of f n) (f_out f).

Record Solv (f : farm) : Prop := {
  so_attr : AttrInv f;
  so_cover : claimable f <= f_dsc f * (f_reserve f - f_pool f)
}.

(** generalised merge lemma over a payment list *)
Lemma merge_payments_entitlement ps : forall f base m R,
  merge_payments f base ps = Ok m -> 0 < a_amt base -> a_rps base <= R ->
  Forall (fun p => 0 < snd p /\ exists a, find_attrs (f_attrs f) (fst p) = Some a /\ a_rps a <= R) ps ->
  a_amt m * (R - a_rps m) <= a_amt base * (R - a_rps base) + psum (fun n => R - rps_of f n) ps /\
  a_rps m <= R /\ 0 < a_amt m.
Proof.
  induction ps as [|[n x] t IH]; intros f base m R H Hb HR Hall; simpl in H.
  - inversion H; subst. simpl. repeat split; lia.
  - apply bind_ok in H. destruct H as (a & Ha & H).
    apply bind_ok in H. destruct H as (p & Hp & H).
    apply bind_ok in H. destruct H as (mm & Hm & H).
    inversion Hall as [|? ? [Hx (a' & Ha' & Hr')] Hall']; subst. simpl in *.
    unfold get_attrs in Ha. rewrite Ha' in Ha. inversion Ha; subst a'; clear Ha.
    apply into_part_amt in Hp. destruct Hp as (Pa & Pr & _).
    assert (Hp0 : 0 < a_amt p) by lia.
    pose proof (merge_entitlement base p mm R Hb Hp0 Hm) as (Ma & _ & Me & Mr).
    specialize (Mr HR ltac:(lia)).
    apply IH with (R := R) in H; auto; [|lia].
    destruct H as (E1 & E2 & E3). split; [|split; assumption].
    unfold rps_of at 1. rewrite Ha'. rewrite Pr, Pa in Me. lia.
Qed.

(** ------------------------------------------------------------------ how the helpers move [claimable] *)
Lemma rps_of_ext f f' : f_attrs f' = f_attrs f -> forall n, rps_of f' n = rps_of f n.
Proof. intros E n. unfold rps_of. rewrite E. reflexivity. Qed.

Lemma claimable_same f f' : f_attrs f' = f_attrs f -> f_out f' = f_out f -> f_rps f' = f_rps f ->
  claimable f' = claimable f.
Proof.
  intros A O R. unfold claimable. rewrite O, R. apply wsum_ext. intros k _. rewrite (rps_of_ext f f' A). reflexivity.
Qed.

Lemma claimable_rps f f' inc : f_attrs f' = f_attrs f -> f_out f' = f_out f -> f_rps f' = f_rps f + inc ->
  claimable f' = claimable f + inc * asum (f_out f).
Proof.
  intros A O R. unfold claimable. rewrite O, R.
  rewrite (wsum_ext _ (fun n => (f_rps f - rps_of f n) + inc)).
  - rewrite wsum_add, wsum_const. reflexivity.
  - intros k _. rewrite (rps_of_ext f f' A). lia.
Qed.

Lemma AttrInv_same f f' : f_attrs f' = f_attrs f -> f_next f' = f_next f -> f_rps f <= f_rps f' ->
  (forall k, In k (akeys (f_out f')) -> In k (akeys (f_out f))) -> AttrInv f -> AttrInv f'.
Proof.
  intros A N R K [has fr]. constructor.
  - intros n Hn. destruct (has n (K n Hn)) as (a & Ha & Hr). exists a. rewrite A. split; [assumption | lia].
  - intros k a Hin. rewrite A in Hin. rewrite N. eauto.
Qed.

(** weights of the listed payments, from the attribute invariant *)
Lemma pays_have_attrs f R ps : AttrInv f -> f_rps f <= R ->
  Forall (fun p : Z * Z => 0 < snd p /\ In (fst p) (akeys (f_out f))) ps ->
  Forall (fun p => 0 < snd p /\ exists a, find_attrs (f_attrs f) (fst p) = Some a /\ a_rps a <= R) ps.
Proof.
  intros [has _] HR H. eapply Forall_impl; [|exact H]. intros [n x] [Hx Hin]. simpl in *.
  split; [assumption|]. destruct (has n Hin) as (a & Ha & Hr). exists a. split; [assumption | lia].
Qed.

Lemma Forall_attrs_ext f f' R ps : f_attrs f' = f_attrs f ->
  Forall (fun p : Z * Z => 0 < snd p /\ exists a, find_attrs (f_attrs f) (fst p) = Some a /\ a_rps a <= R) ps ->
  Forall (fun p : Z * Z => 0 < snd p /\ exists a, find_attrs (f_attrs f') (fst p) = Some a /\ a_rps a <= R) ps.
Proof. intros E H. rewrite E. exact H. Qed.

Lemma psum_ext w w' ps : (forall n, w n = w' n) -> psum w ps = psum w' ps.
Proof. intros H. induction ps as [|[n x] t IH]; simpl; [reflexivity | rewrite H, IH; reflexivity]. Qed.

(** minting a position at a fresh nonce *)
Lemma mint_claimable f a dst f' n : mint_pos f a dst = (f', n) -> MI f -> AttrInv f -> 0 <= a_amt a -> valid_id dst ->
  a_rps a <= f_rps f ->
  claimable f' = claimable f + a_amt a * (f_rps f - a_rps a) /\ AttrInv f' /\ f_rps f' = f_rps f.
Proof.
  intros H M [has fr] Ha Hd Hr.
  pose proof (mint_pos_MI _ _ _ _ _ H M Ha Hd) as (M' & SB & En & N' & A' & U' & O0 & O').
  destruct SB as (Cc & _ & _). unfold core in Cc. inj Cc.
  assert (Hfresh : forall k a', In (k, a') (f_attrs f) -> k <> n).
  { intros k a' Hin. specialize (fr _ _ Hin). lia. }
  assert (Hold : forall k, In k (akeys (f_out f)) -> rps_of f' k = rps_of f k).
  { intros k Hk. unfold rps_of. rewrite A'. rewrite find_attrs_app; [reflexivity|].
    destruct M as [_ _ _ frk _ _ _]. specialize (frk _ Hk). lia. }
  assert (Hnew : rps_of f' n = a_rps a).
  { unfold rps_of. rewrite A'. rewrite find_attrs_app_new by assumption. reflexivity. }
  split; [|split].
  - unfold claimable. rewrite O'. rewrite H1. rewrite Hnew.
    rewrite (wsum_ext (fun n0 => f_rps f - rps_of f' n0) (fun n0 => f_rps f - rps_of f n0)); [lia|].
    intros k Hk. rewrite Hold by assumption. reflexivity.
  - constructor.
    + intros k Hk.
      destruct (Z.eq_dec k n) as [->|Hne].
      * exists a. rewrite A'. rewrite find_attrs_app_new by assumption. split; [reflexivity | lia].
      * assert (Hk' : In k (akeys (f_out f))).
        { unfold mint_pos in H. inversion H; subst f'. simpl in Hk.
          apply akeys_aset_in in Hk. destruct Hk as [->|Hk]; [congruence | exact Hk]. }
        destruct (has k Hk') as (a0 & Ha0 & Hr0). exists a0. rewrite A'. rewrite find_attrs_app by assumption.
        split; [assumption | lia].
    + intros k a0 Hin. rewrite A' in Hin. apply in_app_or in Hin. rewrite N'. destruct Hin as [Hin|[Hin|[]]].
      * specialize (fr _ _ Hin). lia.
      * inversion Hin; subst. lia.
  - exact H1.
Qed.

Lemma base_reward_bound f a x base : base_reward f a x = Ok base -> 0 < f_dsc f -> 0 <= x -> a_rps a <= f_rps f ->
  0 <= base /\ f_dsc f * base <= x * (f_rps f - a_rps a).
Proof.
  unfold base_reward. intros H Hd Hx Hr. destruct (a_rps a <? f_rps f) eqn:E.
  - apply div_chk_ok in H. destruct H as [_ ->]. apply Z.ltb_lt in E.
    pose proof (div_lo (x * (f_rps f - a_rps a)) (f_dsc f) Hd).
    split; [apply div_nonneg; nia | lia].
  - inversion H; subst. apply Z.ltb_ge in E. nia.
Qed.

Lemma dsc_pos f : MI f -> 0 < f_dsc f.
Proof. intros [_ _ _ _ _ _ (H & _)]. exact H. Qed.

Lemma get_attrs_some f n a : get_attrs f n = Ok a -> find_attrs (f_attrs f) n = Some a.
Proof. unfold get_attrs. destruct (find_attrs (f_attrs f) n); intros H; inversion H; reflexivity. Qed.

Lemma sbt_fields f f' : same_but_toks f f' ->
  f_supply f' = f_supply f /\ f_reserve f' = f_reserve f /\ f_rps f' = f_rps f /\ f_dsc f' = f_dsc f /\
  f_pool f' = f_pool f.
Proof.
  intros (Cc & Cg & Cm). unfold core in Cc. inj Cc. unfold cfgt in Cg. inj Cg. unfold money in Cm. inj Cm.
  repeat split; assumption.
Qed.

Lemma cfgt_dsc f f' : cfgt f' = cfgt f -> f_dsc f' = f_dsc f.
Proof. intros Cg. unfold cfgt in Cg. inj Cg. assumption. Qed.

Lemma toks_fields f f' : toks f' = toks f ->
  f_next f' = f_next f /\ f_attrs f' = f_attrs f /\ f_out f' = f_out f.
Proof. intros T. unfold toks in T. inj T. repeat split; assumption. Qed.

Lemma psum_shift f f' inc ps : (forall k, rps_of f' k = rps_of f k) -> f_rps f' = f_rps f + inc ->
  psum (fun n => f_rps f' - rps_of f' n) ps = psum (fun n => f_rps f - rps_of f n) ps + inc * psum (fun _ => 1) ps.
Proof.
  intros E Er. induction ps as [|[k v] t IH]; simpl; [lia|]. rewrite IH, E, Er. lia.
Qed.

Lemma asum_nonneg l : all_nonneg l -> 0 <= asum l.
Proof. intros NN. rewrite asum_wsum. apply wsum_nonneg; [assumption | intros; lia]. Qed.

Lemma ep_claim_solv f blk ep c first adds b f' o :
  ep_claim f blk ep c first adds b = Ok (f', o) -> FarmAcc f -> Solv f -> valid_id c -> Solv f'.
Proof.
  unfold ep_claim. intros H [M out prin] [AI CV] Hc.
  destruct (active f); [|discriminate].
  apply bind_ok in H. destruct H as (f1 & H1 & H).
  apply bind_ok in H. destruct H as (f2 & H2 & H).
  apply bind_ok in H. destruct H as (a & Ha & H).
  apply bind_ok in H. destruct H as (part & Hpart & H).
  apply bind_ok in H. destruct H as (base & Hbase & H).
  apply bind_ok in H. destruct H as (f3 & H3 & H).
  apply bind_ok in H. destruct H as (f4 & H4 & H).
  apply bind_ok in H. destruct H as (m & Hm & H).
  destruct (mint_pos f4 m c) as [f5 n] eqn:Hmint. inversion H; subst; clear H.
  apply pay_all_MI in H1; auto. destruct H1 as (M1 & SB1 & N1 & A1 & U1 & O1 & Pos1 & K1).
  apply settle_MI in H2; auto.
  destruct H2 as (M2 & D2 & C2 & T2 & S2 & BF2 & Pd2 & L2 & tm & cut & inc & Hcut & Hinc & Hinc2 & Res2 & R2 & P2 & G2).
  apply pay_reward_MI in H3; auto.
  destruct H3 as (M3 & D3 & C3 & T3 & S3 & R3 & L3 & BF3 & G3 & Hb & Hr & Res3 & P3 & Pd3).
  apply check_update_only in H4. pose proof (only_utot_MI _ _ H4 M3) as M4.
  destruct first as [n0 x0]. simpl in *.
  destruct (sbt_fields _ _ SB1) as (Sup1 & Rs1 & Rp1 & Dsc1 & Pl1).
  destruct (toks_fields _ _ T2) as (Nx2 & At2 & Ou2). destruct (toks_fields _ _ T3) as (Nx3 & At3 & Ou3).
  destruct H4 as (SB4 & Nx4 & At4 & Hd4 & Ou4).
  destruct (sbt_fields _ _ SB4) as (Sup4 & Rs4 & Rp4 & Dsc4 & Pl4).
  pose proof (cfgt_dsc _ _ C2) as Dsc2. pose proof (cfgt_dsc _ _ C3) as Dsc3.
  (* attribute facts *)
  assert (AI1 : AttrInv f1).
  { apply (AttrInv_same f f1); auto. lia. }
  assert (AI4 : AttrInv f4).
  { apply (AttrInv_same f1 f4); try congruence; try lia. }
  assert (Hall : Forall (fun p : Z * Z => 0 < snd p /\ exists a0, find_attrs (f_attrs f4) (fst p) = Some a0 /\ a_rps a0 <= f_rps f4)
                        ((n0, x0) :: adds)).
  { apply (Forall_attrs_ext f f4); [congruence|]. apply pays_have_attrs; auto. lia. }
  inversion Hall as [|? ? [Hx0 (a0 & Ha0 & Hra0)] Hall']; subst. simpl in *.
  apply get_attrs_some in Ha. assert (a0 = a) by congruence. subst a0.
  apply into_part_amt in Hpart. destruct Hpart as (Pa & Pr & Pe & Po).
  apply base_reward_bound in Hbase; [|apply dsc_pos; assumption|lia|lia].
  destruct Hbase as [Hb0 Hbb].
  set (base_attrs := mkAttrs (f_rps f4) (a_epoch part) (a_comp part) (a_amt part) c) in *.
  assert (Hme := merge_payments_entitlement adds f4 base_attrs m (f_rps f4) Hm ltac:(simpl; lia) ltac:(simpl; lia) Hall').
  destruct Hme as (Me & Mr & Ma). simpl in Me.
  pose proof (mint_pos_MI _ _ _ _ _ Hmint M4 ltac:(lia) Hc) as (_ & SB5 & _).
  destruct (sbt_fields _ _ SB5) as (Sup5 & Rs5 & Rp5 & Dsc5 & Pl5).
  apply mint_claimable in Hmint; auto; [|lia].
  destruct Hmint as (CL5 & AI5 & R5).
  constructor; [exact AI5|].
  (* claimable chain *)
  assert (CL1 : claimable f1 = claimable f - (x0 * (f_rps f - rps_of f n0) + psum (fun n => f_rps f - rps_of f n) adds)).
  { unfold claimable. rewrite (O1 _). simpl. rewrite Rp1.
    rewrite (wsum_ext (fun n1 => f_rps f - rps_of f1 n1) (fun n1 => f_rps f - rps_of f n1)).
    - rewrite (psum_ext (fun n1 => f_rps f - rps_of f1 n1) (fun n1 => f_rps f - rps_of f n1));
        [rewrite (rps_of_ext f f1 A1 n0); lia|].
      intros k. rewrite (rps_of_ext f f1 A1). reflexivity.
    - intros k _. rewrite (rps_of_ext f f1 A1). reflexivity. }
  assert (CL2 : claimable f2 = claimable f1 + inc * asum (f_out f1)) by (apply claimable_rps; congruence).
  assert (CL4 : claimable f4 = claimable f2) by (apply claimable_same; congruence).
  assert (E1 := O1 (fun _ => 1)). rewrite <- (asum_wsum (f_out f1)), <- (asum_wsum (f_out f)) in E1. simpl in E1.
  assert (Hpsnn : 0 <= psum (fun _ => 1) adds).
  { apply psum1_nonneg. eapply Forall_impl; [|exact Hall']. intros ? [? _]. assumption. }
  assert (Aeq : f_attrs f4 = f_attrs f) by congruence.
  assert (Hw := psum_shift f f4 inc adds (rps_of_ext f f4 Aeq) ltac:(lia)).
  assert (Hrn0 : rps_of f n0 = a_rps a) by (unfold rps_of; replace (f_attrs f) with (f_attrs f4) by congruence; rewrite Ha0; reflexivity).
  assert (Hs : asum (f_out f1) = f_supply f - x0 - psum (fun _ => 1) adds) by lia.
  assert (Hsup : 0 <= asum (f_out f1)).
  { destruct M1 as [_ (_ & _ & NN & _) _ _ _ _ _]. apply asum_nonneg. assumption. }
  (* final arithmetic: everything in terms of the pre-state *)
  set (w0 := f_rps f - rps_of f n0) in *.
  set (P := psum (fun n1 => f_rps f - rps_of f n1) adds) in *.
  set (p1 := psum (fun _ => 1) adds) in *.
  assert (F1 : a_amt m * (f_rps f4 - a_rps m) <= P + inc * p1) by lia.
  assert (F2 : f_dsc f * base <= x0 * w0 + x0 * inc).
  { unfold w0. rewrite <- Hrn0 in Pr. rewrite Pr in Hbb. replace (f_dsc f) with (f_dsc f2) by congruence.
    replace (f_rps f2) with (f_rps f + inc) in Hbb by lia. lia. }
  assert (F3 : inc * f_supply f <= (tm - cut) * f_dsc f).
  { replace (f_supply f) with (f_supply f1) by lia. replace (f_dsc f) with (f_dsc f1) by congruence. exact Hinc2. }
  assert (F4 : claimable f' <= claimable f - x0 * w0 - inc * x0 + inc * f_supply f).
  { rewrite CL5, CL4, CL2, CL1. rewrite Hs. fold w0 P p1. nia. }
  replace (f_dsc f') with (f_dsc f) by congruence.
  replace (f_reserve f') with (f_reserve f + tm - (base + b)) by lia.
  replace (f_pool f') with (f_pool f + cut - b) by lia.
  nia.
Qed.

(** shared prefix of enter / compound / exit: positions paid in, user totals touched, rewards settled *)
Lemma pay_settle f c ps f1 f2 blk f3 :
  pay_all f c ps = Ok f1 -> only_utot f1 f2 -> settle f2 blk = Ok f3 ->
  MI f -> AttrInv f -> asum (f_out f) = f_supply f ->
  exists inc tm cut,
    0 <= inc /\ 0 <= cut <= tm /\ inc * f_supply f <= (tm - cut) * f_dsc f /\
    claimable f3 = claimable f - psum (fun n => f_rps f - rps_of f n) ps + inc * (f_supply f - psum (fun _ => 1) ps) /\
    0 <= f_supply f - psum (fun _ => 1) ps /\ 0 <= psum (fun _ => 1) ps /\
    f_rps f3 = f_rps f + inc /\ f_reserve f3 = f_reserve f + tm /\ f_pool f3 = f_pool f + cut /\
    f_dsc f3 = f_dsc f /\ f_attrs f3 = f_attrs f /\ f_next f3 = f_next f /\ f_supply f3 = f_supply f /\
    MI f3 /\ AttrInv f3 /\
    Forall (fun p : Z * Z => 0 < snd p /\ exists a0, find_attrs (f_attrs f3) (fst p) = Some a0 /\ a_rps a0 <= f_rps f3) ps /\
    (forall k, rps_of f3 k = rps_of f k).
Proof.
  intros H1 H2 H3 M AI out.
  apply pay_all_MI in H1; auto. destruct H1 as (M1 & SB1 & N1 & A1 & U1 & O1 & Pos1 & K1).
  pose proof (only_utot_MI _ _ H2 M1) as M2.
  apply settle_MI in H3; auto.
  destruct H3 as (M3 & D3 & C3 & T3 & S3 & BF3 & Pd3 & L3 & tm & cut & inc & Hcut & Hinc & Hinc2 & Res3 & R3 & P3 & G3).
  destruct (sbt_fields _ _ SB1) as (Sup1 & Rs1 & Rp1 & Dsc1 & Pl1).
  destruct H2 as (SB2 & Nx2 & At2 & Hd2 & Ou2).
  destruct (sbt_fields _ _ SB2) as (Sup2 & Rs2 & Rp2 & Dsc2 & Pl2).
  destruct (toks_fields _ _ T3) as (Nx3 & At3 & Ou3).
  pose proof (cfgt_dsc _ _ C3) as Dsc3.
  assert (Aeq : f_attrs f3 = f_attrs f) by congruence.
  assert (E1 := O1 (fun _ => 1)). rewrite <- (asum_wsum (f_out f1)), <- (asum_wsum (f_out f)) in E1.
  assert (Hp1 : 0 <= psum (fun _ => 1) ps).
  { apply psum1_nonneg. eapply Forall_impl; [|exact Pos1]. intros ? [? _]. assumption. }
  assert (Hsup : 0 <= asum (f_out f1)).
  { destruct M1 as [_ (_ & _ & NN & _) _ _ _ _ _]. apply asum_nonneg. assumption. }
  assert (CL1 : claimable f1 = claimable f - psum (fun n => f_rps f - rps_of f n) ps).
  { unfold claimable. rewrite (O1 _). rewrite Rp1.
    rewrite (wsum_ext (fun n1 => f_rps f - rps_of f1 n1) (fun n1 => f_rps f - rps_of f n1)).
    - rewrite (psum_ext (fun n1 => f_rps f - rps_of f1 n1) (fun n1 => f_rps f - rps_of f n1)); [reflexivity|].
      intros k. rewrite (rps_of_ext f f1 A1). reflexivity.
    - intros k _. rewrite (rps_of_ext f f1 A1). reflexivity. }
  assert (CL2 : claimable f2 = claimable f1) by (apply claimable_same; congruence).
  assert (CL3 : claimable f3 = claimable f2 + inc * asum (f_out f2)) by (apply claimable_rps; congruence).
  assert (AI1 : AttrInv f1) by (apply (AttrInv_same f f1); auto; lia).
  assert (AI3 : AttrInv f3) by (apply (AttrInv_same f1 f3); try congruence; lia).
  exists inc, tm, cut.
  split; [exact Hinc|]. split; [exact Hcut|].
  split; [replace (f_supply f) with (f_supply f2) by lia; replace (f_dsc f) with (f_dsc f2) by congruence; exact Hinc2|].
  split; [rewrite CL3, CL2, CL1; replace (f_out f2) with (f_out f1) by congruence; rewrite E1, out; lia|].
  split; [lia|]. split; [exact Hp1|].
  split; [lia|]. split; [lia|]. split; [lia|]. split; [congruence|]. split; [exact Aeq|]. split; [congruence|].
  split; [lia|]. split; [exact M3|]. split; [exact AI3|].
  split; [|exact (rps_of_ext f f3 Aeq)].
  apply (Forall_attrs_ext f f3 _ _ Aeq). apply pays_have_attrs; auto. lia.
Qed.

Lemma pay_reward_bb_solv f b f' : pay_reward f b b = Ok f' -> MI f -> Solv f ->
  Solv f' /\ MI f' /\ asum (f_out f') = asum (f_out f) /\ f_supply f' = f_supply f /\ f_rps f' = f_rps f.
Proof.
  intros H M [AI CV]. apply pay_reward_MI in H; auto.
  destruct H as (M' & D' & C' & T' & S' & R' & L' & BF' & G' & Hb & Hr & Res' & P' & Pd').
  destruct (toks_fields _ _ T') as (Nx & At & Ou). pose proof (cfgt_dsc _ _ C') as Dsc.
  split; [|split; [exact M'|split; [congruence|split; assumption]]].
  constructor.
  - apply (AttrInv_same f f'); auto; try lia. intros k Hk. congruence.
  - rewrite (claimable_same f f') by congruence. rewrite Dsc, Res', P'. lia.
Qed.

Lemma ep_enter_solv f blk ep c amt adds b f' o :
  ep_enter f blk ep c amt adds b = Ok (f', o) -> FarmAcc f -> Solv f -> valid_id c -> Solv f'.
Proof.
  unfold ep_enter. intros H [M out prin] S Hc.
  destruct (0 <? amt) eqn:Ea; [|discriminate]. apply Z.ltb_lt in Ea.
  apply bind_ok in H. destruct H as (f0 & H0 & H).
  destruct (active f0); [|discriminate].
  apply bind_ok in H. destruct H as (f1 & H1 & H).
  apply bind_ok in H. destruct H as (f2 & H2 & H).
  apply bind_ok in H. destruct H as (f4 & H4 & H).
  apply bind_ok in H. destruct H as (m & Hm & H).
  destruct (mint_pos _ m c) as [f6 n] eqn:Hmint. inversion H; subst; clear H.
  apply pay_reward_bb_solv in H0; auto. destruct H0 as ([AI0 CV0] & M0 & Ou0 & Sup0 & Rp0).
  apply check_update_only in H2.
  pose proof (set_utot_only f2 c (utot f2 c + amt)) as H3. fold (increase_user f2 c amt) in H3.
  pose proof (only_utot_trans _ _ _ H2 H3) as H23.
  destruct (pay_settle f0 c adds f1 _ blk f4 H1 H23 H4 M0 AI0 ltac:(lia))
    as (inc & tm & cut & Hinc & Hcut & Hinc2 & CL4 & Hsup & Hp1 & Rp4 & Rs4 & Pl4 & Dsc4 & At4 & Nx4 & Sup4 & M4 & AI4 & Hall & Hrps).
  pose proof (upd_supply_MI f4 (f_supply f4 + amt) M4 ltac:(lia)) as M5.
  set (f5 := upd_core f4 (f_supply f4 + amt) (f_reserve f4) (f_rps f4) (f_last f4)) in *.
  assert (AI5 : AttrInv f5) by (apply (AttrInv_same f4 f5); auto; simpl; lia).
  set (base_attrs := mkAttrs (f_rps f5) ep 0 amt c) in *.
  assert (Hme := merge_payments_entitlement adds f5 base_attrs m (f_rps f5) Hm ltac:(simpl; lia) ltac:(simpl; lia) Hall).
  destruct Hme as (Me & Mr & Ma). simpl in Me.
  pose proof (mint_pos_MI _ _ _ _ _ Hmint M5 ltac:(lia) Hc) as (_ & SB6 & _).
  destruct (sbt_fields _ _ SB6) as (Sup6 & Rs6 & Rp6 & Dsc6 & Pl6).
  apply mint_claimable in Hmint; auto; [|lia].
  destruct Hmint as (CL6 & AI6 & R6).
  assert (CL5 : claimable f5 = claimable f4) by (apply claimable_same; reflexivity).
  assert (Hw := psum_shift f0 f4 inc adds Hrps Rp4).
  constructor.
  - apply (AttrInv_same f6 _); auto; simpl; lia.
  - rewrite (claimable_same f6 _) by reflexivity. simpl.
    rewrite CL6, CL5, CL4. simpl in *.
    set (P := psum (fun n1 => f_rps f0 - rps_of f0 n1) adds) in *.
    set (p1 := psum (fun _ => 1) adds) in *.
    replace (psum (fun n0 => f_rps f4 - rps_of f5 n0) adds) with (P + inc * p1) in Me by (rewrite <- Hw; reflexivity).
    rewrite Dsc6, Rs6, Pl6. simpl. rewrite Dsc4, Rs4, Pl4. nia.
Qed.

Lemma ep_exit_solv f blk ep c p b f' o :
  ep_exit f blk ep c p b = Ok (f', o) -> FarmAcc f -> Solv f -> valid_id c -> Solv f'.
Proof.
  unfold ep_exit. intros H [M out prin] [AI CV] Hc.
  destruct (active f); [|discriminate].
  apply bind_ok in H. destruct H as (f1 & H1 & H).
  apply bind_ok in H. destruct H as (f2 & H2 & H).
  apply bind_ok in H. destruct H as (a & Ha & H).
  apply bind_ok in H. destruct H as (part & Hpart & H).
  apply bind_ok in H. destruct H as (base & Hbase & H).
  apply bind_ok in H. destruct H as (f3 & H3 & H).
  apply bind_ok in H. destruct H as (f4 & H4 & H).
  apply bind_ok in H. destruct H as (sup & Hsup & H).
  cbv zeta in H.
  apply bind_ok in H. destruct H as (age & Hage & H).
  apply bind_ok in H. destruct H as (outp & Hout & H).
  apply bind_ok in H. destruct H as (bal & Hbal & H).
  inversion H; subst; clear H.
  assert (H1' : pay_all f c [p] = Ok f1) by (simpl; rewrite H1; reflexivity).
  destruct (pay_settle f c [p] f1 f1 blk f2 H1' (only_utot_refl f1) H2 M AI out)
    as (inc & tm & cut & Hinc & Hcut & Hinc2 & CL2 & Hsp & Hp1 & Rp2 & Rs2 & Pl2 & Dsc2 & At2 & Nx2 & Sup2 & M2 & AI2 & Hall & Hrps).
  destruct p as [n0 x0]. simpl in *.
  inversion Hall as [|? ? [Hx0 (a0 & Ha0 & Hra0)] _]; subst. simpl in *.
  apply get_attrs_some in Ha. assert (a0 = a) by congruence. subst a0.
  apply into_part_amt in Hpart. destruct Hpart as (Pa & Pr & Pe & Po).
  apply base_reward_bound in Hbase; [|apply dsc_pos; assumption|lia|lia].
  destruct Hbase as [Hb0 Hbb].
  apply pay_reward_MI in H3; auto.
  destruct H3 as (M3 & D3 & C3 & T3 & S3 & R3 & L3 & BF3 & G3 & Hb & Hr & Res3 & P3 & Pd3).
  destruct (toks_fields _ _ T3) as (Nx3 & At3 & Ou3). pose proof (cfgt_dsc _ _ C3) as Dsc3.
  apply (decrease_user_only f3 (n0, x0) f4) in H4.
  destruct H4 as (SB4 & Nx4 & At4 & Hd4 & Ou4).
  destruct (sbt_fields _ _ SB4) as (Sup4 & Rs4 & Rp4 & Dsc4 & Pl4).
  assert (Hrn0 : rps_of f n0 = a_rps a) by (rewrite <- Hrps; unfold rps_of; rewrite Ha0; reflexivity).
  constructor.
  - apply (AttrInv_same f2 _); simpl; try congruence; try lia.
  - rewrite (claimable_same f2 _) by (simpl; congruence). simpl.
    rewrite CL2. rewrite Dsc4, Rs4, Pl4, Dsc3, Res3, P3, Dsc2, Rs2, Pl2.
    rewrite Pr, <- Hrn0 in Hbb. rewrite Rp2, Dsc2 in Hbb.
    set (w0 := f_rps f - rps_of f n0) in *.
    assert (F2 : f_dsc f * base <= x0 * w0 + x0 * inc) by (unfold w0; lia).
    nia.
Qed.

Lemma ep_compound_solv f blk ep c first adds b f' o :
  ep_compound f blk ep c first adds b = Ok (f', o) -> FarmAcc f -> Solv f -> valid_id c -> Solv f'.
Proof.
  unfold ep_compound. intros H [M out prin] [AI CV] Hc.
  destruct (active f); [|discriminate]. destruct (f_same f); [|discriminate].
  apply bind_ok in H. destruct H as (f1 & H1 & H).
  apply bind_ok in H. destruct H as (f2 & H2 & H).
  apply bind_ok in H. destruct H as (a & Ha & H).
  apply bind_ok in H. destruct H as (part & Hpart & H).
  apply bind_ok in H. destruct H as (base & Hbase & H).
  cbv zeta in H.
  apply bind_ok in H. destruct H as (f3 & H3 & H).
  apply bind_ok in H. destruct H as (f4 & H4 & H).
  apply bind_ok in H. destruct H as (m & Hm & H).
  destruct (mint_pos f4 m c) as [f5 n] eqn:Hmint. inversion H; subst; clear H.
  apply check_update_only in H4.
  destruct (pay_settle f c (first :: adds) f1 f1 blk f2 H1 (only_utot_refl f1) H2 M AI out)
    as (inc & tm & cut & Hinc & Hcut & Hinc2 & CL2 & Hsp & Hp1 & Rp2 & Rs2 & Pl2 & Dsc2 & At2 & Nx2 & Sup2 & M2 & AI2 & Hall & Hrps).
  destruct first as [n0 x0]. simpl in *.
  inversion Hall as [|? ? [Hx0 (a0 & Ha0 & Hra0)] Hall']; subst. simpl in *.
  apply get_attrs_some in Ha. assert (a0 = a) by congruence. subst a0.
  apply into_part_amt in Hpart. destruct Hpart as (Pa & Pr & Pe & Po).
  apply base_reward_bound in Hbase; [|apply dsc_pos; assumption|lia|lia].
  destruct Hbase as [Hb0 Hbb].
  apply pay_reward_MI in H3; auto.
  destruct H3 as (M3 & D3 & C3 & T3 & S3 & R3 & L3 & BF3 & G3 & Hb & Hr & Res3 & P3 & Pd3).
  destruct (toks_fields _ _ T3) as (Nx3 & At3 & Ou3). pose proof (cfgt_dsc _ _ C3) as Dsc3.
  assert (Hs3 : 0 <= f_supply f3) by (destruct M3 as [_ _ _ _ _ _ (_ & _ & _ & X & _)]; exact X).
  pose proof (upd_supply_MI f3 (f_supply f3 + (base + b)) M3 ltac:(lia)) as M3'.
  set (f3' := upd_core f3 (f_supply f3 + (base + b)) (f_reserve f3) (f_rps f3) (f_last f3)) in *.
  pose proof (only_utot_MI _ _ H4 M3') as M4.
  destruct H4 as (SB4 & Nx4 & At4 & Hd4 & Ou4).
  destruct (sbt_fields _ _ SB4) as (Sup4 & Rs4 & Rp4 & Dsc4 & Pl4). simpl in *.
  assert (AI4 : AttrInv f4).
  { apply (AttrInv_same f2 f4); try congruence; try lia. }
  assert (Hall4 : Forall (fun p : Z * Z => 0 < snd p /\ exists a0, find_attrs (f_attrs f4) (fst p) = Some a0 /\ a_rps a0 <= f_rps f4) adds).
  { apply (Forall_attrs_ext f2 f4); [congruence|]. eapply Forall_impl; [|exact Hall'].
    intros [k v] [Hv (a1 & Ha1 & Hr1)]. split; [assumption|]. exists a1. split; [assumption|lia]. }
  set (base_attrs := mkAttrs (f_rps f4) ep (a_comp part + (base + b)) (a_amt part + (base + b)) c) in *.
  assert (Hme := merge_payments_entitlement adds f4 base_attrs m (f_rps f4) Hm ltac:(simpl; lia) ltac:(simpl; lia) Hall4).
  destruct Hme as (Me & Mr & Ma). simpl in Me.
  pose proof (mint_pos_MI _ _ _ _ _ Hmint M4 ltac:(lia) Hc) as (_ & SB5 & _).
  destruct (sbt_fields _ _ SB5) as (Sup5 & Rs5 & Rp5 & Dsc5 & Pl5).
  apply mint_claimable in Hmint; auto; [|lia].
  destruct Hmint as (CL5 & AI5 & R5).
  assert (CL4 : claimable f4 = claimable f2) by (apply claimable_same; congruence).
  assert (Hrn0 : rps_of f n0 = a_rps a) by (rewrite <- Hrps; unfold rps_of; rewrite Ha0; reflexivity).
  assert (Hrps4 : forall k, rps_of f4 k = rps_of f k) by (intros k; rewrite <- Hrps; apply rps_of_ext; congruence).
  assert (Hw := psum_shift f f4 inc adds Hrps4 ltac:(lia)).
  constructor.
  - apply (AttrInv_same f5 _); auto; simpl; lia.
  - rewrite (claimable_same f5 _) by reflexivity. simpl.
    rewrite CL5, CL4, CL2. rewrite Dsc5, Rs5, Pl5, Dsc4, Rs4, Pl4, Dsc3, Res3, P3, Dsc2, Rs2, Pl2.
    rewrite Pr, <- Hrn0 in Hbb. rewrite Rp2, Dsc2 in Hbb.
    set (w0 := f_rps f - rps_of f n0) in *.
    set (P := psum (fun n1 => f_rps f - rps_of f n1) adds) in *.
    set (p1 := psum (fun _ => 1) adds) in *.
    assert (F2 : f_dsc f * base <= x0 * w0 + x0 * inc) by (unfold w0; lia).
    replace (f_rps f4 - f_rps f4) with 0 in Me by lia.
    nia.
Qed.

Lemma ep_merge_solv f blk ep c ps b f' o :
  ep_merge f blk ep c ps b = Ok (f', o) -> FarmAcc f -> Solv f -> valid_id c -> Solv f'.
Proof.
  unfold ep_merge. intros H [M out prin] S Hc.
  destruct (active f); [|discriminate].
  destruct ps as [|first rest]; [discriminate|].
  apply bind_ok in H. destruct H as (f0 & H0 & H).
  apply bind_ok in H. destruct H as (f1 & H1 & H).
  apply bind_ok in H. destruct H as (f2 & H2 & H).
  apply bind_ok in H. destruct H as (a & Ha & H).
  apply bind_ok in H. destruct H as (part & Hpart & H).
  apply bind_ok in H. destruct H as (m0 & Hm & H).
  cbv zeta in H.
  destruct (mint_pos f2 _ c) as [f3 n] eqn:Hmint. inversion H; subst; clear H.
  apply pay_reward_bb_solv in H0; auto. destruct H0 as ([AI0 CV0] & M0 & Ou0 & Sup0 & Rp0).
  apply pay_all_MI in H1; auto. destruct H1 as (M1 & SB1 & N1 & A1 & U1 & O1 & Pos1 & K1).
  apply check_update_only in H2. pose proof (only_utot_MI _ _ H2 M1) as M2.
  destruct H2 as (SB2 & Nx2 & At2 & Hd2 & Ou2).
  destruct (sbt_fields _ _ SB1) as (Sup1 & Rs1 & Rp1 & Dsc1 & Pl1).
  destruct (sbt_fields _ _ SB2) as (Sup2 & Rs2 & Rp2 & Dsc2 & Pl2).
  assert (Aeq : f_attrs f2 = f_attrs f0) by congruence.
  assert (AI2 : AttrInv f2) by (apply (AttrInv_same f0 f2); try congruence; try lia; intros k Hk; apply K1; congruence).
  assert (Hall : Forall (fun p : Z * Z => 0 < snd p /\ exists a0, find_attrs (f_attrs f2) (fst p) = Some a0 /\ a_rps a0 <= f_rps f2)
                        (first :: rest)).
  { apply (Forall_attrs_ext f0 f2 _ _ Aeq). apply pays_have_attrs; auto. lia. }
  destruct first as [n0 x0]. simpl in *.
  inversion Hall as [|? ? [Hx0 (a0 & Ha0 & Hra0)] Hall']; subst. simpl in *.
  apply get_attrs_some in Ha. assert (a0 = a) by congruence. subst a0.
  apply into_part_amt in Hpart. destruct Hpart as (Pa & Pr & Pe & Po).
  assert (Hme := merge_payments_entitlement rest f2 part m0 (f_rps f2) Hm ltac:(lia) ltac:(lia) Hall').
  destruct Hme as (Me & Mr & Ma).
  set (m := mkAttrs (a_rps m0) (a_epoch m0) (a_comp m0) (a_amt m0) c) in *.
  pose proof (mint_pos_MI _ _ _ _ _ Hmint M2 ltac:(simpl; lia) Hc) as (_ & SB3 & _).
  destruct (sbt_fields _ _ SB3) as (Sup3 & Rs3 & Rp3 & Dsc3 & Pl3).
  apply mint_claimable in Hmint; auto; [|simpl; lia].
  destruct Hmint as (CL3 & AI3 & R3). simpl in CL3.
  assert (CL1 : claimable f1 = claimable f0 - (x0 * (f_rps f0 - rps_of f0 n0) + psum (fun k => f_rps f0 - rps_of f0 k) rest)).
  { unfold claimable. rewrite (O1 _). simpl. rewrite Rp1.
    rewrite (wsum_ext (fun n1 => f_rps f0 - rps_of f1 n1) (fun n1 => f_rps f0 - rps_of f0 n1)).
    - rewrite (psum_ext (fun n1 => f_rps f0 - rps_of f1 n1) (fun n1 => f_rps f0 - rps_of f0 n1));
        [rewrite (rps_of_ext f0 f1 A1 n0); lia|].
      intros k. rewrite (rps_of_ext f0 f1 A1). reflexivity.
    - intros k _. rewrite (rps_of_ext f0 f1 A1). reflexivity. }
  assert (CL2 : claimable f2 = claimable f1) by (apply claimable_same; congruence).
  assert (Hrn0 : rps_of f0 n0 = a_rps a) by (unfold rps_of; rewrite <- Aeq, Ha0; reflexivity).
  assert (Hps : psum (fun k => f_rps f2 - rps_of f2 k) rest = psum (fun k => f_rps f0 - rps_of f0 k) rest).
  { apply psum_ext. intros k. rewrite (rps_of_ext f0 f2 Aeq). lia. }
  constructor; [exact AI3|].
  rewrite CL3, CL2, CL1. rewrite Dsc3, Rs3, Pl3, Dsc2, Rs2, Pl2, Dsc1, Rs1, Pl1.
  rewrite Hps in Me. rewrite Pa, Pr in Me. rewrite Hrn0.
  replace (f_rps f2) with (f_rps f0) in * by lia. nia.
Qed.

Lemma settle_solv f blk f' : settle f blk = Ok f' -> FarmAcc f -> Solv f -> Solv f'.
Proof.
  intros H [M out prin] [AI CV].
  assert (Hp : pay_all f 0 [] = Ok f) by reflexivity.
  destruct (pay_settle f 0 [] f f blk f' Hp (only_utot_refl f) H M AI out)
    as (inc & tm & cut & Hinc & Hcut & Hinc2 & CL & Hsp & Hp1 & Rp & Rs & Pl & Dsc & At & Nx & Sup & M' & AI' & _ & _).
  constructor; [exact AI'|]. rewrite CL, Dsc, Rs, Pl. simpl. nia.
Qed.

Lemma Solv_same f f' : f_attrs f' = f_attrs f -> f_out f' = f_out f -> f_rps f' = f_rps f -> f_next f' = f_next f ->
  f_dsc f' = f_dsc f -> f_reserve f' = f_reserve f -> f_pool f' = f_pool f -> Solv f -> Solv f'.
Proof.
  intros A O R N D Re P [AI CV]. constructor.
  - apply (AttrInv_same f f'); auto; try lia. intros k Hk. congruence.
  - rewrite (claimable_same f f') by assumption. rewrite D, Re, P. exact CV.
Qed.

Lemma fstep_solv f op f' o : fstep f op = Ok (f', o) -> FarmAcc f -> Solv f -> valid_op op -> Solv f'.
Proof.
  intros H A S V. destruct op; simpl in H, V.
  - eapply ep_enter_solv; eauto.
  - eapply ep_claim_solv; eauto.
  - eapply ep_compound_solv; eauto.
  - eapply ep_exit_solv; eauto.
  - eapply ep_merge_solv; eauto.
  - (* ClaimBoosted *) unfold ep_claim_boosted in H.
    destruct (negb (utot f c =? 0)); [|discriminate]. destruct (active f); [|discriminate].
    apply bind_ok in H. destruct H as (f1 & H1 & H).
    apply bind_ok in H. destruct H as (f2 & H2 & H). inversion H; subst; clear H.
    pose proof (settle_solv _ _ _ H1 A S) as S1.
    apply settle_acc in H1; auto. destruct H1 as ([M1 _ _] & _).
    apply pay_reward_bb_solv in H2; auto. tauto.
  - (* Transfer *) unfold ep_transfer in H.
    apply bind_ok in H. destruct H as (f1 & H1 & H). inversion H; subst; clear H.
    destruct A as [M _ _]. apply debit_held_MI in H1; auto. destruct H1 as (SB & N1 & A1 & U1 & O1 & _ & _).
    destruct (sbt_fields _ _ SB) as (Sup1 & Rs1 & Rp1 & Dsc1 & Pl1).
    apply (Solv_same f _); simpl; auto.
  - destruct (admin c); [|discriminate]. destruct (_ && _); [|discriminate].
    apply bind_ok in H. destruct H as (f1 & H1 & H). inversion H; subst; clear H.
    apply (Solv_same f1 _); simpl; auto. eapply settle_solv; eauto.
  - destruct (admin c); [|discriminate]. destruct (negb (f_rate f =? 0)); [|discriminate].
    destruct (negb (f_produce f)); [|discriminate]. inversion H; subst; clear H.
    apply (Solv_same f _); simpl; auto.
  - destruct (admin c); [|discriminate].
    apply bind_ok in H. destruct H as (f1 & H1 & H). inversion H; subst; clear H.
    apply (Solv_same f1 _); simpl; auto. eapply settle_solv; eauto.
  - destruct (admin c); [|discriminate]. destruct (_ && _); [|discriminate].
    apply bind_ok in H. destruct H as (f1 & H1 & H). inversion H; subst; clear H.
    apply (Solv_same f1 _); simpl; auto. eapply settle_solv; eauto.
  - destruct (admin c); [|discriminate]. inversion H; subst. apply (Solv_same f _); simpl; auto.
  - destruct (admin c); [|discriminate]. destruct (_ || _); [|discriminate]. inversion H; subst. apply (Solv_same f _); simpl; auto.
  - destruct (admin c); [|discriminate]. destruct (_ && _); [|discriminate]. inversion H; subst. apply (Solv_same f _); simpl; auto.
  - destruct (admin c); [|discriminate]. destruct (_ && _); [|discriminate]. inversion H; subst. apply (Solv_same f _); simpl; auto.
  - destruct (0 <? amt); [|discriminate]. inversion H; subst. apply (Solv_same f _); simpl; auto.
Qed.

Lemma init_farm_solv dsc same : Solv (init_farm dsc same).
Proof.
  constructor.
  - constructor; simpl; [intros n [] | intros k a []].
  - unfold claimable. simpl. lia.
Qed.

Lemma frun_solv ops : forall f, FarmAcc f -> Solv f -> Forall valid_op ops -> FarmAcc (frun f ops) /\ Solv (frun f ops).
Proof.
  induction ops as [|op t IH]; intros f A S V; simpl; [split; assumption|].
  inversion V; subst. unfold fstep_total. destruct (fstep f op) as [[f' o]|] eqn:E.
  - apply IH; auto.
    + apply fstep_acc in E; auto. destruct E as (A' & _). exact A'.
    + eapply fstep_solv; eauto.
  - apply IH; auto.
Qed.

(** consequences *)
Lemma claimable_nonneg f : FarmAcc f -> Solv f -> 0 <= claimable f.
Proof.
  intros [[_ (_ & _ & NN & _) _ _ _ _ _] _ _] [[has _] _]. unfold claimable.
  apply wsum_nonneg; [assumption|]. intros k Hk. destruct (has k Hk) as (a & Ha & Hr).
  unfold rps_of. rewrite Ha. lia.
Qed.

(** base rewards paid so far never exceed base rewards generated so far: the boosted pools are
    always fully inside the reserve, on top of everything claimable *)
Lemma pool_within_reserve f : FarmAcc f -> Solv f -> f_pool f <= f_reserve f.
Proof.
  intros A S. pose proof (claimable_nonneg f A S). destruct S as [_ CV].
  destruct A as [[_ _ _ _ _ _ (Hd & _)] _ _]. nia.
Qed.

(** ------------------------------------------------------------------ everything together *)
Definition FarmOK (f : farm) : Prop := FarmAcc f /\ Solv f /\ 0 <= don f.

Lemma fstep_ok f op f' o : fstep f op = Ok (f', o) -> FarmOK f -> valid_op op ->
  FarmOK f' /\ don f' = don f + donated op /\ f_rps f <= f_rps f'.
Proof.
  intros E (A & S & D) V. pose proof (fstep_acc _ _ _ _ E A V) as (A' & D' & R').
  assert (0 <= donated op).
  { destruct op; simpl; try lia. simpl in E. destruct (0 <? amt) eqn:Ea; [apply Z.ltb_lt in Ea; lia | discriminate]. }
  split; [|split; assumption]. split; [exact A'|]. split; [eapply fstep_solv; eauto | lia].
Qed.

Lemma init_farm_ok dsc same : 0 < dsc -> FarmOK (init_farm dsc same).
Proof. intros. split; [apply init_farm_acc; assumption|]. split; [apply init_farm_solv | unfold don; simpl; lia]. Qed.

Lemma frun_ok ops : forall f, FarmOK f -> Forall valid_op ops -> FarmOK (frun f ops).
Proof.
  induction ops as [|op t IH]; intros f K V; simpl; [exact K|].
  inversion V; subst. apply IH; [|assumption].
  unfold fstep_total. destruct (fstep f op) as [[f' o]|] eqn:E; [|exact K].
  apply fstep_ok in E; auto. tauto.
Qed.

(** an outstanding position's share of [claimable] *)
Lemma position_claimable f n a : FarmAcc f -> Solv f -> find_attrs (f_attrs f) n = Some a ->
  outst f n * (f_rps f - a_rps a) <= claimable f.
Proof.
  intros [[_ (ND & _ & NN & _) _ _ _ _ _] _ _] [[has _] _] Ha. unfold claimable, outst.
  assert (G : forall l, NoDup (akeys l) -> all_nonneg l -> (forall k, In k (akeys l) -> 0 <= f_rps f - rps_of f k) ->
              aget l n * (f_rps f - rps_of f n) <= wsum (fun k => f_rps f - rps_of f k) l).
  { clear. induction l as [|[k v] t IH]; simpl; intros ND NN Hw; [lia|].
    inversion ND; subst. inversion NN; subst. simpl in *.
    assert (0 <= wsum (fun k0 => f_rps f - rps_of f k0) t) by (apply wsum_nonneg; auto).
    pose proof (Hw k (or_introl eq_refl)).
    destruct (k =? n) eqn:E.
    - apply Z.eqb_eq in E. subst. lia.
    - specialize (IH H2 H4 (fun k' Hk => Hw k' (or_intror Hk))). nia. }
  specialize (G (f_out f) ND NN).
  assert (Hw : forall k, In k (akeys (f_out f)) -> 0 <= f_rps f - rps_of f k).
  { intros k Hk. destruct (has k Hk) as (ak & Hak & Hrk). unfold rps_of. rewrite Hak. lia. }
  specialize (G Hw). unfold rps_of at 1 in G. rewrite Ha in G. exact G.
Qed.

(** no legitimate claim/exit fails on the reward counters: the reserve and the farm's balance cover
    the floor-rounded base reward of any part of any outstanding position plus any boosted payout
    within the pools *)
Lemma reward_payable f n x a base b : FarmOK f ->
  find_attrs (f_attrs f) n = Some a -> 0 < x <= outst f n ->
  base_reward f a x = Ok base -> 0 <= b <= f_pool f ->
  is_ok (pay_reward f (base + b) b) = true.
Proof.
  intros (A & S & D) Ha Hx Hb Hbp.
  pose proof (position_claimable f n a A S Ha) as Hpc.
  assert (Hin : In n (akeys (f_out f))).
  { apply aget_pos_in. unfold outst in Hx. lia. }
  pose proof S as [[has _] CV]. destruct (has n Hin) as (a' & Ha' & Hr). assert (a' = a) by congruence. subst a'.
  pose proof A as [[acc _ _ _ _ _ (Hd & _)] _ _].
  apply base_reward_bound in Hb; auto; [|lia]. destruct Hb as [Hb0 Hbb].
  assert (Hres : base + b <= f_reserve f) by nia.
  unfold don in D. unfold pay_reward, sub_chk.
  destruct (0 <=? b) eqn:E0; [|apply Z.leb_gt in E0; lia].
  destruct (f_reserve f <? base + b) eqn:E1; [apply Z.ltb_lt in E1; lia|]. simpl.
  destruct (f_pool f <? b) eqn:E2; [apply Z.ltb_lt in E2; lia|]. simpl.
  destruct (f_bal_rew f <? base + b) eqn:E3; [apply Z.ltb_lt in E3; lia|]. reflexivity.
Qed.
