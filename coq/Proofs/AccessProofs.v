(** Proofs for C19 (authorisation and pause).

    Part A — guard primitives, for ALL callers / permission values.
    Part B — permissions module + pausable module as a state machine, for ALL histories:
             who can change what; no escalation by callers without the OWNER bit.
    Part C — permissions hub, for ALL histories: an agent is authorised for a user only by that
             user's own `whitelist` call; revocation and blacklisting stick.
    Part D — the pause rules on the pair and farm models that are tied to the real contracts by
             the C01-C07 correspondence runs, for ALL states and arguments.
    Part E — the access table: finite, exhaustive checks by [vm_compute] over all rows x roles x
             states, lifted to universally quantified statements with [forallb_forall]; inventory
             coverage against the generated Gen/Endpoints.v. *)
From Coq Require Import ZArith List Bool String Lia.
From MX Require Import Base.Prelude Gen.Params Gen.Endpoints Model.Pair Model.Farm Model.Access.
Import ListNotations.
Open Scope Z_scope.

(** ================================================================== Part A: guard primitives *)

(** a permission value holds flag bit [i] *)
Definition holds (perms i : Z) : Prop := Z.testbit perms i = true.

Lemma land_pos_bit a b : 0 <= a -> 0 <= b -> Z.land a b <> 0 ->
  exists i, 0 <= i /\ Z.testbit a i = true /\ Z.testbit b i = true.
Proof.
  intros Ha Hb Hne.
  assert (Hnn : 0 <= Z.land a b) by (apply Z.land_nonneg; left; exact Ha).
  assert (Hpos : 0 < Z.land a b) by lia.
  exists (Z.log2 (Z.land a b)). split; [apply Z.log2_nonneg|].
  pose proof (Z.bit_log2 (Z.land a b) Hpos) as Hb2.
  rewrite Z.land_spec in Hb2. apply andb_true_iff in Hb2. exact Hb2.
Qed.

Lemma common_bit_land a b i : Z.testbit a i = true -> Z.testbit b i = true -> Z.land a b <> 0.
Proof.
  intros H1 H2 H0.
  assert (H : Z.testbit (Z.land a b) i = true) by (rewrite Z.land_spec, H1, H2; reflexivity).
  rewrite H0, Z.bits_0 in H. discriminate.
Qed.

(** permissions_module::require_caller_any_of succeeds exactly when the caller's permission set
    and the demanded set have a flag in common *)
Theorem require_any_of_iff : forall cp m, 0 <= cp -> 0 <= m ->
  (require_any_of cp m = Ok tt <-> exists i, 0 <= i /\ holds cp i /\ holds m i).
Proof.
  intros cp m Hc Hm. unfold require_any_of, intersects, holds. split.
  - destruct (Z.land cp m =? 0) eqn:E; simpl; [discriminate|]. intros _.
    apply Z.eqb_neq in E. apply land_pos_bit; assumption.
  - intros (i & _ & H1 & H2). pose proof (common_bit_land cp m i H1 H2) as Hne.
    apply Z.eqb_neq in Hne. rewrite Hne. reflexivity.
Qed.

Theorem require_any_of_denied : forall cp m, 0 <= cp -> 0 <= m ->
  (require_any_of cp m = Err EPerm <-> forall i, 0 <= i -> holds cp i -> holds m i -> False).
Proof.
  intros cp m Hc Hm. split.
  - intros He i Hi H1 H2.
    assert (Hok : require_any_of cp m = Ok tt) by (apply require_any_of_iff; eauto).
    rewrite Hok in He. discriminate.
  - intros Hno. unfold require_any_of, intersects.
    destruct (Z.land cp m =? 0) eqn:E; simpl; [reflexivity|].
    apply Z.eqb_neq in E. destruct (land_pos_bit cp m Hc Hm E) as (i & Hi & H1 & H2).
    exfalso. exact (Hno i Hi H1 H2).
Qed.

(** the flags are distinct single bits, so "holds the OWNER flag" etc. is one bit test *)
Lemma perm_flags_are_bits :
  PERM_OWNER = 2 ^ 0 /\ PERM_ADMIN = 2 ^ 1 /\ PERM_PAUSE = 2 ^ 2.
Proof. vm_compute. repeat split. Qed.

Lemma intersects_single_bit cp k : 0 <= cp -> 0 <= k ->
  intersects cp (2 ^ k) = Z.testbit cp k.
Proof.
  intros Hc Hk. unfold intersects.
  destruct (Z.testbit cp k) eqn:E.
  - assert (Hne : Z.land cp (2 ^ k) <> 0).
    { apply (common_bit_land cp (2 ^ k) k E). apply Z.pow2_bits_true. exact Hk. }
    apply Z.eqb_neq in Hne. rewrite Hne. reflexivity.
  - destruct (Z.land cp (2 ^ k) =? 0) eqn:E0; [reflexivity|].
    apply Z.eqb_neq in E0.
    destruct (land_pos_bit cp (2 ^ k) Hc (Z.pow_nonneg 2 k ltac:(lia)) E0) as (i & Hi & H1 & H2).
    rewrite Z.pow2_bits_eqb in H2 by exact Hk. apply Z.eqb_eq in H2. subst i.
    rewrite E in H1. discriminate.
Qed.

(** Acting for another user: the optional original-caller argument demands a whitelisted contract
    caller; the ...OnBehalf endpoints demand the hub's authorisation (listed by the user and not
    blacklisted).  Nothing else lets a caller act for somebody else. *)
Theorem act_on_behalf_sound : forall p f,
  act_on_behalf p f = Ok tt ->
  cf_party f PWhitelistedSC = true \/ (cf_hub_listed f = true /\ cf_hub_black f = false).
Proof.
  intros p f. unfold act_on_behalf, behalf_guard, guard_ok, hub_authorised.
  destruct p; simpl.
  - destruct (cf_party f PWhitelistedSC); [auto | discriminate].
  - destruct (cf_hub_black f), (cf_hub_listed f); simpl; try discriminate. auto.
Qed.

Theorem act_on_behalf_complete : forall p f,
  (p = ViaOrigCallerArg /\ cf_party f PWhitelistedSC = true) \/
  (p = ViaOnBehalfEndpoint /\ cf_hub_listed f = true /\ cf_hub_black f = false) ->
  act_on_behalf p f = Ok tt.
Proof.
  intros p f [[-> H] | (-> & H1 & H2)]; unfold act_on_behalf, behalf_guard, guard_ok, hub_authorised; simpl.
  - rewrite H. reflexivity.
  - rewrite H1, H2. reflexivity.
Qed.

(** a blacklisted caller is refused by the hub path whatever the user's list says *)
Theorem blacklisted_never_on_behalf : forall f,
  cf_hub_black f = true -> act_on_behalf ViaOnBehalfEndpoint f = Err EPerm.
Proof.
  intros f H. unfold act_on_behalf, behalf_guard, guard_ok, hub_authorised. rewrite H. reflexivity.
Qed.

(** ================================================================== Part B: permissions + pausable *)

Definition has_flag (p flag : Z) : Prop := intersects p flag = true.

(** the documented rule: who may perform which operation *)
Definition pm_authorised (s : pm_state) (op : pm_op) : Prop :=
  match op with
  | PmAddAdmin c _ | PmRemoveAdmin c _ | PmAddPauser c _ | PmRemovePauser c _
  | PmSetStateActiveNoSwaps c => has_flag (pm_get s c) PERM_OWNER
  | PmUpdateOwnerOrAdmin c _ => c = pm_chain_owner s
  | PmPause c | PmResume c => has_flag (pm_get s c) PERM_PAUSE
  end.

Lemma require_any_of_cases cp m :
  (intersects cp m = true /\ require_any_of cp m = Ok tt) \/
  (intersects cp m = false /\ require_any_of cp m = Err EPerm).
Proof. unfold require_any_of. destruct (intersects cp m); simpl; auto. Qed.

Theorem pm_step_authorised : forall s op s', pm_step s op = Ok s' -> pm_authorised s op.
Proof.
  intros s op s' H. destruct op; simpl in *; unfold has_flag;
    try (match goal with
         | H : bind (require_any_of ?a ?b) _ = Ok _ |- _ =>
             destruct (require_any_of_cases a b) as [[Hi Hr] | [Hi Hr]]; rewrite Hr in H; simpl in H;
             [exact Hi | discriminate]
         end).
  destruct (caller =? pm_chain_owner s) eqn:E; [apply Z.eqb_eq in E; exact E | discriminate].
Qed.

Theorem pm_step_unauthorised : forall s op, ~ pm_authorised s op -> pm_step s op = Err EPerm.
Proof.
  intros s op Hn. destruct op; simpl in *; unfold has_flag in Hn;
    try (match goal with
         | |- bind (require_any_of ?a ?b) _ = _ =>
             destruct (require_any_of_cases a b) as [[Hi Hr] | [Hi Hr]]; rewrite Hr; simpl;
             [contradiction | reflexivity]
         end).
  destruct (caller =? pm_chain_owner s) eqn:E; [apply Z.eqb_eq in E; contradiction | reflexivity].
Qed.

(** which part of the state an operation can touch *)
Lemma pm_step_perms_need_owner : forall s op s',
  pm_step s op = Ok s' -> pm_perms s' <> pm_perms s ->
  has_flag (pm_get s (pm_caller op)) PERM_OWNER \/ pm_caller op = pm_chain_owner s.
Proof.
  intros s op s' H Hd. pose proof (pm_step_authorised s op s' H) as Ha.
  destruct op; simpl in *; auto.
  - (* pause *) destruct (require_any_of_cases (pm_get s caller) PERM_PAUSE) as [[_ Hr]|[_ Hr]]; rewrite Hr in H; simpl in H;
      [inversion H; subst; simpl in Hd; congruence | discriminate].
  - destruct (require_any_of_cases (pm_get s caller) PERM_PAUSE) as [[_ Hr]|[_ Hr]]; rewrite Hr in H; simpl in H;
      [inversion H; subst; simpl in Hd; congruence | discriminate].
Qed.

Lemma pm_step_state_needs_pause_or_owner : forall s op s',
  pm_step s op = Ok s' -> pm_state_val s' <> pm_state_val s ->
  has_flag (pm_get s (pm_caller op)) PERM_PAUSE \/ has_flag (pm_get s (pm_caller op)) PERM_OWNER.
Proof.
  intros s op s' H Hd. pose proof (pm_step_authorised s op s' H) as Ha.
  destruct op; simpl in *; auto;
    try (destruct (require_any_of_cases (pm_get s caller) PERM_OWNER) as [[_ Hr]|[_ Hr]]; rewrite Hr in H; simpl in H;
         [inversion H; subst; simpl in Hd; congruence | discriminate]).
  destruct (caller =? pm_chain_owner s); [inversion H; subst; simpl in Hd; congruence | discriminate].
Qed.

Lemma pm_chain_owner_step : forall s op, pm_chain_owner (pm_step_total s op) = pm_chain_owner s.
Proof.
  intros s op. unfold pm_step_total. destruct (pm_step s op) as [s'|] eqn:E; [|reflexivity].
  destruct op; simpl in E;
    try (match type of E with bind (require_any_of ?a ?b) _ = _ =>
           destruct (require_any_of_cases a b) as [[_ Hr]|[_ Hr]]; rewrite Hr in E; simpl in E;
           [inversion E; reflexivity | discriminate] end).
  destruct (caller =? pm_chain_owner s); [inversion E; reflexivity | discriminate].
Qed.

(** No escalation, for every history: if no caller of the history holds the OWNER flag (in the
    initial state) or is the chain owner, then nobody's permissions ever change — in particular
    none of them acquires a flag — whatever else they hold and call. *)
Theorem pm_no_escalation : forall ops s,
  (forall op, In op ops -> ~ has_flag (pm_get s (pm_caller op)) PERM_OWNER /\ pm_caller op <> pm_chain_owner s) ->
  pm_perms (pm_run s ops) = pm_perms s.
Proof.
  induction ops as [|op t IH]; intros s Hall; [reflexivity|].
  unfold pm_run in *. simpl.
  assert (Hp : pm_perms (pm_step_total s op) = pm_perms s).
  { unfold pm_step_total. destruct (pm_step s op) as [s'|] eqn:E; [|reflexivity].
    destruct (list_eq_dec (fun a b : Z * Z => ltac:(decide equality; apply Z.eq_dec)) (pm_perms s') (pm_perms s)) as [Heq|Hne];
      [exact Heq|].
    destruct (Hall op (or_introl eq_refl)) as [H1 H2].
    destruct (pm_step_perms_need_owner s op s' E Hne); contradiction. }
  rewrite IH.
  - exact Hp.
  - intros op' Hin. destruct (Hall op' (or_intror Hin)) as [H1 H2].
    unfold pm_get in *. rewrite Hp, pm_chain_owner_step. split; assumption.
Qed.

(** callers holding no flag at all, none of them the chain owner: the whole state (permissions and
    the pause state) is left exactly as it was, for every history *)
Theorem pm_powerless_history : forall ops s,
  (forall op, In op ops -> pm_get s (pm_caller op) = 0 /\ pm_caller op <> pm_chain_owner s) ->
  pm_run s ops = s.
Proof.
  induction ops as [|op t IH]; intros s Hall; [reflexivity|].
  unfold pm_run in *. simpl.
  assert (Hs : pm_step_total s op = s).
  { unfold pm_step_total. destruct (Hall op (or_introl eq_refl)) as [H0 Hno].
    rewrite pm_step_unauthorised; [reflexivity|].
    intros Ha. destruct op; simpl in *; unfold has_flag, intersects in Ha; rewrite ?H0 in Ha; simpl in Ha;
      try discriminate; contradiction. }
  rewrite Hs. apply IH. intros op' Hin. apply Hall. right. exact Hin.
Qed.

(** ================================================================== Part C: permissions hub *)

Lemma pair_eqb_eq a b : pair_eqb a b = true <-> a = b.
Proof.
  destruct a as [a1 a2], b as [b1 b2]. unfold pair_eqb. simpl. rewrite andb_true_iff, !Z.eqb_eq.
  split; [intros [-> ->]; reflexivity | intros H; inversion H; auto].
Qed.

Lemma pmem_In x l : pmem x l = true <-> In x l.
Proof.
  unfold pmem. rewrite existsb_exists. split.
  - intros (y & Hy & He). apply pair_eqb_eq in He. subst. exact Hy.
  - intros H. exists x. split; [exact H | apply pair_eqb_eq; reflexivity].
Qed.

Lemma zmem_In x l : zmem x l = true <-> In x l.
Proof.
  unfold zmem. rewrite existsb_exists. split.
  - intros (y & Hy & He). apply Z.eqb_eq in He. subst. exact Hy.
  - intros H. exists x. split; [exact H | apply Z.eqb_refl].
Qed.

Lemma pmem_premove x y l : pmem x (premove y l) = true -> pmem x l = true /\ x <> y.
Proof.
  rewrite !pmem_In. unfold premove. rewrite filter_In. intros [Hin Hne]. split; [exact Hin|].
  intros ->. rewrite (proj2 (pair_eqb_eq y y) eq_refl) in Hne. discriminate.
Qed.

Lemma hub_owner_step h op : h_owner (hub_step_total h op) = h_owner h.
Proof.
  unfold hub_step_total. destruct (hub_step h op) as [h'|] eqn:E; [|reflexivity].
  destruct op; simpl in E.
  - destruct (pmem (caller, a) (h_wl h)); simpl in E; [discriminate | inversion E; reflexivity].
  - destruct (pmem (caller, a) (h_wl h)); simpl in E; [inversion E; reflexivity | discriminate].
  - destruct (caller =? h_owner h); [inversion E; reflexivity | discriminate].
  - destruct (caller =? h_owner h); [inversion E; reflexivity | discriminate].
Qed.

(** one step: a (user, agent) entry appears only through that user's own whitelist call *)
Lemma hub_step_wl h op u a :
  pmem (u, a) (h_wl (hub_step_total h op)) = true ->
  pmem (u, a) (h_wl h) = true \/ op = HWhitelist u a.
Proof.
  unfold hub_step_total. destruct (hub_step h op) as [h'|] eqn:E; [|auto].
  destruct op as [c x|c x|c x|c x]; simpl in E.
  - destruct (pmem (c, x) (h_wl h)); simpl in E; [discriminate|]. inversion E; subst; simpl.
    unfold pmem. simpl. rewrite orb_true_iff. intros [He|Hin]; [|left; exact Hin].
    apply pair_eqb_eq in He. inversion He; subst. right. reflexivity.
  - destruct (pmem (c, x) (h_wl h)); simpl in E; [|discriminate]. inversion E; subst; simpl.
    intros H. left. apply (pmem_premove _ _ _ H).
  - destruct (c =? h_owner h); [inversion E; subst; simpl; auto | discriminate].
  - destruct (c =? h_owner h); [inversion E; subst; simpl; auto | discriminate].
Qed.

(** For every history: an agent is on a user's list only if it was there initially or the user
    itself called whitelist(agent) — nobody else can authorise an agent for a user. *)
Theorem hub_only_user_authorises : forall ops h u a,
  pmem (u, a) (h_wl (hub_run h ops)) = true ->
  pmem (u, a) (h_wl h) = true \/ In (HWhitelist u a) ops.
Proof.
  induction ops as [|op t IH]; intros h u a H; [left; exact H|].
  unfold hub_run in *. simpl in H. apply IH in H. destruct H as [H|H].
  - apply hub_step_wl in H. destruct H as [H| ->]; [left; exact H | right; left; reflexivity].
  - right. right. exact H.
Qed.

(** revocation: after the user's successful removeWhitelist(agent) the agent is not authorised, and
    stays so along every history in which the user does not whitelist it again *)
Theorem hub_revoked : forall h h' u a ops,
  hub_step h (HRemoveWhitelist u a) = Ok h' ->
  ~ In (HWhitelist u a) ops ->
  forall user_check, user_check = u -> is_whitelisted (hub_run h' ops) user_check a = false.
Proof.
  intros h h' u a ops Hs Hno uc ->. unfold is_whitelisted.
  destruct (pmem (u, a) (h_wl (hub_run h' ops))) eqn:E; [|apply andb_false_r].
  apply hub_only_user_authorises in E. destruct E as [E|E]; [|contradiction].
  simpl in Hs. destruct (pmem (u, a) (h_wl h)); simpl in Hs; [|discriminate].
  inversion Hs; subst; simpl in E. apply pmem_premove in E. destruct E as [_ Hne]. contradiction.
Qed.

(** the blacklist changes only through calls of the hub's owner *)
Lemma hub_step_black h op :
  h_black (hub_step_total h op) <> h_black h ->
  exists x, op = HBlacklist (h_owner h) x \/ op = HRemoveBlacklist (h_owner h) x.
Proof.
  unfold hub_step_total. destruct (hub_step h op) as [h'|] eqn:E; [|congruence].
  destruct op as [c x|c x|c x|c x]; simpl in E.
  - destruct (pmem (c, x) (h_wl h)); simpl in E; [discriminate | inversion E; subst; simpl; congruence].
  - destruct (pmem (c, x) (h_wl h)); simpl in E; [inversion E; subst; simpl; congruence | discriminate].
  - destruct (c =? h_owner h) eqn:Ec; [|discriminate]. apply Z.eqb_eq in Ec. subst. intros _. exists x. auto.
  - destruct (c =? h_owner h) eqn:Ec; [|discriminate]. apply Z.eqb_eq in Ec. subst. intros _. exists x. auto.
Qed.

Lemma hub_step_black_keeps h op a :
  zmem a (h_black h) = true -> op <> HRemoveBlacklist (h_owner h) a ->
  zmem a (h_black (hub_step_total h op)) = true.
Proof.
  intros Hin Hne. unfold hub_step_total. destruct (hub_step h op) as [h'|] eqn:E; [|exact Hin].
  destruct op as [c x|c x|c x|c x]; simpl in E.
  - destruct (pmem (c, x) (h_wl h)); simpl in E; [discriminate | inversion E; subst; exact Hin].
  - destruct (pmem (c, x) (h_wl h)); simpl in E; [inversion E; subst; exact Hin | discriminate].
  - destruct (c =? h_owner h); [|discriminate]. inversion E; subst; simpl.
    destruct (zmem x (h_black h)); [exact Hin|]. unfold zmem in *. simpl. rewrite Hin. apply orb_true_r.
  - destruct (c =? h_owner h) eqn:Ec; [|discriminate]. apply Z.eqb_eq in Ec. subst c.
    inversion E; subst; simpl. apply zmem_In. unfold zremove. apply filter_In. split; [apply zmem_In; exact Hin|].
    destruct (a =? x) eqn:Ex; [apply Z.eqb_eq in Ex; subst; contradiction | reflexivity].
Qed.

(** blacklisting sticks: along every history without the owner's removeBlacklist(agent), the agent
    is authorised for NO user, whatever the users' lists say or become *)
Theorem hub_blacklisted : forall ops h a,
  zmem a (h_black h) = true ->
  ~ In (HRemoveBlacklist (h_owner h) a) ops ->
  forall u, is_whitelisted (hub_run h ops) u a = false.
Proof.
  induction ops as [|op t IH]; intros h a Hb Hno u.
  - unfold is_whitelisted. simpl. rewrite Hb. reflexivity.
  - unfold hub_run in *. simpl. apply IH.
    + apply hub_step_black_keeps; [exact Hb|]. intros ->. apply Hno. left. reflexivity.
    + rewrite hub_owner_step. intros Hin. apply Hno. right. exact Hin.
Qed.

(** only the hub's owner can change the blacklist *)
Theorem hub_blacklist_only_owner : forall ops h,
  (forall op, In op ops -> forall x, op <> HBlacklist (h_owner h) x /\ op <> HRemoveBlacklist (h_owner h) x) ->
  h_black (hub_run h ops) = h_black h.
Proof.
  induction ops as [|op t IH]; intros h Hall; [reflexivity|].
  unfold hub_run in *. simpl.
  assert (Hk : h_black (hub_step_total h op) = h_black h).
  { destruct (list_eq_dec Z.eq_dec (h_black (hub_step_total h op)) (h_black h)) as [He|Hne]; [exact He|].
    destruct (hub_step_black h op Hne) as (x & [Hx|Hx]); destruct (Hall op (or_introl eq_refl) x); contradiction. }
  rewrite IH; [exact Hk|].
  intros op' Hin x. rewrite hub_owner_step. apply Hall. right. exact Hin.
Qed.

(** what the farm's on-behalf endpoints check is exactly the hub's isWhitelisted view; what the
    original-caller argument checks is exactly the farm's own contract whitelist *)
Theorem on_behalf_hub_rule : forall h wl u c,
  act_on_behalf ViaOnBehalfEndpoint (hub_facts h wl u c) = Ok tt <-> is_whitelisted h u c = true.
Proof.
  intros. unfold act_on_behalf, behalf_guard, guard_ok, hub_authorised, hub_facts, is_whitelisted. simpl.
  destruct (negb (zmem c (h_black h)) && pmem (u, c) (h_wl h)); split; intros; try reflexivity; discriminate.
Qed.

Theorem on_behalf_orig_caller_rule : forall h wl u c,
  act_on_behalf ViaOrigCallerArg (hub_facts h wl u c) = Ok tt <-> zmem c wl = true.
Proof.
  intros. unfold act_on_behalf, behalf_guard, guard_ok, hub_facts. simpl.
  destruct (zmem c wl); split; intros; try reflexivity; discriminate.
Qed.

(** claim on behalf: the rewards go to the common, non-zero original owner of all paid positions,
    and the caller is authorised by exactly that owner *)
Lemma claim_original_owner_spec : forall owners acc u,
  match acc with Some a => a <> 0 | None => True end ->
  claim_original_owner owners acc = Ok u ->
  u <> 0 /\ (forall o, In o owners -> o = u) /\
  match acc with Some a => a = u | None => owners <> [] end.
Proof.
  induction owners as [|o t IH]; intros acc u Hacc H; simpl in H.
  - destruct acc as [a|]; [|discriminate]. inversion H; subst.
    split; [exact Hacc|]. split; [intros o []|reflexivity].
  - destruct (o =? 0) eqn:E0; simpl in H; [discriminate|]. apply Z.eqb_neq in E0.
    destruct acc as [a|].
    + destruct (a =? o) eqn:Ea; [|discriminate]. apply Z.eqb_eq in Ea. subst o.
      destruct (IH (Some a) u Hacc H) as (Hu & Hall & Heq). split; [exact Hu|]. split; [|exact Heq].
      intros o' [<-|Hin]; [exact Heq | apply Hall; exact Hin].
    + destruct (IH (Some o) u E0 H) as (Hu & Hall & Heq). split; [exact Hu|]. split; [|discriminate].
      intros o' [<-|Hin]; [exact Heq | apply Hall; exact Hin].
Qed.

Theorem claim_on_behalf_to_owner : forall h caller owners reward sends,
  claim_on_behalf h caller owners reward = Ok sends ->
  exists u, sends = [(u, reward)] /\ u <> 0 /\ owners <> [] /\ (forall o, In o owners -> o = u) /\
            is_whitelisted h u caller = true.
Proof.
  intros h caller owners reward sends H. unfold claim_on_behalf in H.
  destruct (claim_original_owner owners None) as [u|] eqn:E; simpl in H; [|discriminate].
  destruct (is_whitelisted h u caller) eqn:Ew; [|discriminate]. inversion H; subst.
  destruct (claim_original_owner_spec owners None u I E) as (Hu & Hall & Hne).
  exists u. repeat split; assumption.
Qed.

(** a claim on behalf that pays positions of two different owners is refused — for EVERY hub state,
    i.e. whatever either owner has authorised *)
Theorem claim_on_behalf_mixed_owners_refused : forall h caller owners reward a b,
  In a owners -> In b owners -> a <> b -> is_ok (claim_on_behalf h caller owners reward) = false.
Proof.
  intros h caller owners reward a b Ha Hb Hne.
  destruct (claim_on_behalf h caller owners reward) as [sends|] eqn:E; [|reflexivity].
  destruct (claim_on_behalf_to_owner _ _ _ _ _ E) as (u & _ & _ & _ & Hall & _).
  rewrite (Hall a Ha), (Hall b Hb) in Hne. contradiction.
Qed.

(** entering / staking on behalf of [user]: success means the caller is authorised by [user] and
    every paid position records [user]; a payment recorded for anybody else, at ANY position, makes
    the call fail for every caller and every hub state (the other owner's authorisations are never
    consulted) *)
Theorem enter_on_behalf_sound : forall h caller user owners,
  enter_on_behalf h caller user owners = Ok tt ->
  is_whitelisted h user caller = true /\ forall o, In o owners -> o = user.
Proof.
  intros h caller user owners H. unfold enter_on_behalf in H.
  destruct (is_whitelisted h user caller); [|discriminate].
  destruct (forallb (fun o => o =? user) owners) eqn:E; [|discriminate].
  split; [reflexivity|]. intros o Hin. rewrite forallb_forall in E. apply Z.eqb_eq. exact (E o Hin).
Qed.

Theorem enter_on_behalf_foreign_refused : forall h caller user owners b,
  In b owners -> b <> user -> enter_on_behalf h caller user owners = Err EPerm.
Proof.
  intros h caller user owners b Hin Hne. unfold enter_on_behalf.
  destruct (is_whitelisted h user caller); [|reflexivity].
  destruct (forallb (fun o => o =? user) owners) eqn:E; [|reflexivity].
  rewrite forallb_forall in E. specialize (E b Hin). apply Z.eqb_eq in E. contradiction.
Qed.

(** the table's guard for these calls is that rule: all paid positions recorded for the user, and
    the hub authorisation of the caller by the user *)
Theorem guard_hub_owned_iff : forall open l f,
  guard_ok open (GHubOwned l) f = true <->
  (forall t, In t l -> t = OUser) /\ cf_hub_listed f = true /\ cf_hub_black f = false.
Proof.
  intros open l f. simpl. unfold all_owned_by_user, hub_authorised.
  rewrite andb_true_iff, forallb_forall, andb_true_iff, negb_true_iff. split.
  - intros (Hall & Hb & Hl). split; [|auto]. intros t Hin. specialize (Hall t Hin). destruct t; [reflexivity | discriminate].
  - intros (Hall & Hl & Hb). split; [|auto]. intros t Hin. rewrite (Hall t Hin). reflexivity.
Qed.

Lemma foreign_payment_not_owned k o : 0 <= k <= 2 -> all_owned_by_user (payments_of (VForeignOwner k o)) = false.
Proof.
  intros Hk. assert (Hc : k = 0 \/ k = 1 \/ k = 2) by lia. destruct Hc as [Hc | [Hc | Hc]]; subst k; reflexivity.
Qed.

(** ================================================================== Part D: pause rules on the models *)

Definition pair_user_fund_op (op : pop) : bool :=
  match op with
  | AddInitial _ _ _ | Add _ _ _ _ _ | Remove _ _ _ _ | SwapIn _ _ _ _ _ | SwapOut _ _ _ _ _ => true
  | _ => false
  end.

Definition pair_swap_op (op : pop) : bool :=
  match op with SwapIn _ _ _ _ _ | SwapOut _ _ _ _ _ | SwapNoFee _ _ _ _ => true | _ => false end.

Lemma check_false {A} (b : bool) (e : err) (k : result A) : b = false -> (check b else e; k) = Err e.
Proof. intros ->. reflexivity. Qed.

(** Pair, Inactive (never activated, or paused): no user operation that moves funds succeeds, with
    the single exception of the bootstrap deposit, which needs an empty pool. *)
Theorem pair_inactive_no_user_funds : forall p op r,
  p_state p = ST_Inactive -> pair_user_fund_op op = true -> Model.Pair.step p op = Ok r ->
  exists c a1 a2, op = AddInitial c a1 a2 /\ p_S p = 0.
Proof.
  intros p op r Hst Hu Hs.
  assert (Hact : Model.Pair.is_state_active (p_state p) = false) by (rewrite Hst; reflexivity).
  assert (Hsw : Model.Pair.can_swap (p_state p) = false) by (rewrite Hst; reflexivity).
  destruct op; simpl in Hu; try discriminate; simpl in Hs.
  - (* AddInitial *)
    exists c, a1, a2. split; [reflexivity|]. unfold ep_add_initial in Hs.
    destruct (match p_adder p with Some ad => c =? ad | None => true end); [|discriminate].
    destruct ((0 <? a1) && (0 <? a2)); [|discriminate].
    destruct (negb (Model.Pair.is_state_active (p_state p))); [|discriminate].
    destruct (p_S p =? 0) eqn:E; [apply Z.eqb_eq in E; exact E | discriminate].
  - unfold ep_add in Hs.
    destruct ((0 <? m1) && (0 <? m2)); [|discriminate].
    destruct ((0 <? a1) && (0 <? a2)); [|discriminate].
    rewrite Hact in Hs. discriminate.
  - unfold ep_remove in Hs.
    destruct ((0 <? m1) && (0 <? m2)); [|discriminate].
    rewrite Hact in Hs. discriminate.
  - unfold ep_swap_in in Hs.
    destruct (0 <? minout); [|discriminate]. destruct (0 <? ain); [|discriminate].
    destruct (swap_order tin tout); simpl in Hs; [|discriminate].
    rewrite Hsw in Hs. discriminate.
  - unfold ep_swap_out in Hs.
    destruct (0 <? aout); [|discriminate]. destruct (0 <? ainmax); [|discriminate].
    destruct (swap_order tin tout); simpl in Hs; [|discriminate].
    rewrite Hsw in Hs. discriminate.
Qed.

(** the bootstrap deposit is impossible once liquidity exists: it is never a way around a pause *)
Theorem pair_bootstrap_needs_empty_pool : forall p c a1 a2 r,
  ep_add_initial p c a1 a2 = Ok r ->
  p_S p = 0 /\ Model.Pair.is_state_active (p_state p) = false /\
  match p_adder p with Some ad => c = ad | None => True end.
Proof.
  intros p c a1 a2 r Hs. unfold ep_add_initial in Hs.
  destruct (p_adder p) as [ad|] eqn:Ea.
  - destruct (c =? ad) eqn:Ec; [|discriminate]. apply Z.eqb_eq in Ec.
    destruct ((0 <? a1) && (0 <? a2)); [|discriminate].
    destruct (Model.Pair.is_state_active (p_state p)); [discriminate|]. simpl in Hs.
    destruct (p_S p =? 0) eqn:E; [apply Z.eqb_eq in E; auto | discriminate].
  - destruct ((0 <? a1) && (0 <? a2)); [|discriminate].
    destruct (Model.Pair.is_state_active (p_state p)); [discriminate|]. simpl in Hs.
    destruct (p_S p =? 0) eqn:E; [apply Z.eqb_eq in E; auto | discriminate].
Qed.

(** Pair, PartialActive: no swap of any kind succeeds (not even the whitelisted no-fee swap) *)
Theorem pair_partial_active_no_swaps : forall p op,
  p_state p <> ST_Active -> pair_swap_op op = true -> is_ok (Model.Pair.step p op) = false.
Proof.
  intros p op Hst Hu.
  assert (Hsw : Model.Pair.can_swap (p_state p) = false).
  { unfold Model.Pair.can_swap. apply Z.eqb_neq. exact Hst. }
  destruct op; simpl in Hu; try discriminate; simpl.
  - unfold ep_swap_in. destruct (0 <? minout); [|reflexivity]. destruct (0 <? ain); [|reflexivity].
    destruct (swap_order tin tout); simpl; [|reflexivity]. rewrite Hsw. reflexivity.
  - unfold ep_swap_out. destruct (0 <? aout); [|reflexivity]. destruct (0 <? ainmax); [|reflexivity].
    destruct (swap_order tin tout); simpl; [|reflexivity]. rewrite Hsw. reflexivity.
  - unfold ep_swap_no_fee. destruct (existsb (Z.eqb c) (p_wl p)); [|reflexivity].
    destruct (0 <? ain); [|reflexivity].
    destruct (swap_order tin tout); simpl; [|reflexivity]. rewrite Hsw. reflexivity.
Qed.

(** ... while the state check of addLiquidity / removeLiquidity passes in PartialActive exactly as
    in Active ([is_state_active]); a concrete PartialActive pool accepting both is in Props/C19.v *)
Theorem pair_liquidity_state_check : forall st,
  Model.Pair.is_state_active st = true <-> st = ST_Active \/ st = ST_PartialActive.
Proof.
  intros st. unfold Model.Pair.is_state_active. rewrite orb_true_iff, !Z.eqb_eq. tauto.
Qed.

Definition farm_user_op (op : fop) : bool :=
  match op with
  | FEnter _ _ _ _ _ _ | FClaim _ _ _ _ _ _ | FCompound _ _ _ _ _ _ | FExit _ _ _ _ _
  | FMerge _ _ _ _ _ | FClaimBoosted _ _ _ _ => true
  | _ => false
  end.

Lemma pay_reward_state f r b f' : pay_reward f r b = Ok f' -> f_state f' = f_state f.
Proof.
  unfold pay_reward. destruct (0 <=? b); [|discriminate].
  destruct (sub_chk (f_reserve f) r); simpl; [|discriminate].
  destruct (sub_chk (f_pool f) b); simpl; [|discriminate].
  destruct (sub_chk (f_bal_rew f) r); simpl; [|discriminate].
  intros H. inversion H. reflexivity.
Qed.

(** Farm (dex/farm; the same base functions serve farm-with-locked-rewards and farm-staking):
    unless the contract is Active, enter / claim / compound / exit / merge / claimBoosted all fail *)
Theorem farm_not_active_no_user_op : forall f op,
  f_state f <> ST_Active -> farm_user_op op = true -> is_ok (fstep f op) = false.
Proof.
  intros f op Hst Hu.
  assert (Ha : active f = false) by (unfold active; apply Z.eqb_neq; exact Hst).
  destruct op; simpl in Hu; try discriminate; simpl.
  - unfold ep_enter. destruct (0 <? amt); [|reflexivity].
    destruct (pay_reward f b b) as [f0|] eqn:E; simpl; [|reflexivity].
    assert (Ha0 : active f0 = false).
    { unfold active. rewrite (pay_reward_state _ _ _ _ E). apply Z.eqb_neq. exact Hst. }
    rewrite Ha0. reflexivity.
  - unfold ep_claim. rewrite Ha. reflexivity.
  - unfold ep_compound. rewrite Ha. reflexivity.
  - unfold ep_exit. rewrite Ha. reflexivity.
  - unfold ep_merge. rewrite Ha. reflexivity.
  - unfold ep_claim_boosted. destruct (negb (utot f c =? 0)); [|reflexivity]. rewrite Ha. reflexivity.
Qed.

(** ================================================================== Part E: the table *)

Definition unprivileged (r : role) : bool :=
  match r with RUser | RAgentAuth | RAgentRevoked | RAgentBlack => true | _ => false end.

Definition is_party (r : role) : bool := match r with RParty _ => true | _ => false end.

Definition cells_of (r : row) : list (role * cstate) :=
  list_prod (roles_of (row_contract r)) (states_of (row_contract r)).

Definition row_allowed (r : row) (ro : role) (st : cstate) : bool :=
  allowed (row_class r) (row_contract r) ro st.

Definition all_cells (P : row -> role -> cstate -> bool) : bool :=
  forallb (fun r => forallb (fun c => P r (fst c) (snd c)) (cells_of r)) access_table.

Lemma all_cells_spec P : all_cells P = true ->
  forall r ro st, In r access_table -> In ro (roles_of (row_contract r)) -> In st (states_of (row_contract r)) ->
  P r ro st = true.
Proof.
  unfold all_cells. intros H r ro st Hr Hro Hst.
  rewrite forallb_forall in H. specialize (H r Hr). rewrite forallb_forall in H.
  apply (H (ro, st)). unfold cells_of. apply in_prod; assumption.
Qed.

Definition is_kind (k : kind) (r : row) : bool := kind_eqb (c_kind (row_class r)) k.

(** E1. Configuration / admin rows: never allowed for a plain user or any agent, in any state; and
    when allowed, the caller holds what the row names: the chain owner for #[only_owner] rows, a
    flag of the demanded permission set for permission rows. *)
Definition config_rule (r : row) (ro : role) (st : cstate) : bool :=
  if is_kind KConfig r then
    if row_allowed r ro st then
      negb (unprivileged ro) &&
      match c_guard (row_class r) with
      | GOnlyOwner | GOwnerOrOpen => role_eqb ro ROwner
      | GPerm m => intersects (perms (row_contract r) ro) m
      | _ => false
      end
    else true
  else true.

Lemma config_rule_holds : all_cells config_rule = true.
Proof. vm_compute. reflexivity. Qed.

(** E2. While a pair, farm, staking or energy contract is Inactive or Paused no row that moves user
    funds (user operations and on-behalf operations) is allowed for anybody — except the pair's
    bootstrap deposit in the never-activated pair. *)
Definition moves_user_funds (r : row) : bool := is_kind KUserFunds r || is_kind KOnBehalf r.

Definition is_bootstrap (r : row) : bool :=
  contract_eqb (row_contract r) CPair && String.eqb (row_endpoint r) "addInitialLiquidity".

Definition paused_rule (r : row) (ro : role) (st : cstate) : bool :=
  if pausable_contract (row_contract r) && moves_user_funds r && (cstate_eqb st Inactive || cstate_eqb st Paused) then
    if row_allowed r ro st then is_bootstrap r && cstate_eqb st Inactive && role_eqb ro (RParty PAdder) else true
  else true.

Lemma paused_rule_holds : all_cells paused_rule = true.
Proof. vm_compute. reflexivity. Qed.

(** the bootstrap row exists, is a user-funds row and is allowed for the adder in Inactive *)
Lemma bootstrap_row :
  lookup CPair "addInitialLiquidity" VPlain = Some Bootstrap /\
  allowed Bootstrap CPair (RParty PAdder) Inactive = true /\
  allowed Bootstrap CPair (RParty PAdder) Paused = false.
Proof. vm_compute. repeat split. Qed.

(** E3. A partially active pair accepts liquidity but no swaps. *)
Definition pair_ep (e : string) (r : row) : bool :=
  contract_eqb (row_contract r) CPair && String.eqb (row_endpoint r) e.

Definition partial_rule (r : row) (ro : role) (st : cstate) : bool :=
  if cstate_eqb st PartialActive then
    if pair_ep "addLiquidity" r || pair_ep "removeLiquidity" r then row_allowed r ro st
    else if pair_ep "swapTokensFixedInput" r || pair_ep "swapTokensFixedOutput" r || pair_ep "swapNoFeeAndForward" r
         then negb (row_allowed r ro st)
    else true
  else true.

Lemma partial_rule_holds : all_cells partial_rule = true.
Proof. vm_compute. reflexivity. Qed.

Lemma pair_liquidity_and_swap_rows_exist :
  forallb (fun e => match lookup CPair e VPlain with Some _ => true | None => false end)
          ["addLiquidity"; "removeLiquidity"; "swapTokensFixedInput"; "swapTokensFixedOutput"; "swapNoFeeAndForward"]%string = true.
Proof. vm_compute. reflexivity. Qed.

(** E4. Acting for another user: allowed only for a whitelisted contract or the authorised agent;
    never for the revoked agent, the blacklisted agent or a plain user. *)
Definition behalf_rule (r : row) (ro : role) (st : cstate) : bool :=
  if is_kind KOnBehalf r then
    if row_allowed r ro st then role_eqb ro (RParty PWhitelistedSC) || role_eqb ro RAgentAuth
    else true
  else true.

Lemma behalf_rule_holds : all_cells behalf_rule = true.
Proof. vm_compute. reflexivity. Qed.

(** E4b. On-behalf calls paying several positions.  A row whose variant records a foreign owner at
    ANY payment position is allowed for no role in no state; the all-own control row is allowed for
    the authorised agent only.  The rows' guards are exactly [GHubOwned (payments_of variant)], and
    every multi-payment on-behalf endpoint has the control row and one row per owner-carrying
    position and per relation of the other owner to the caller. *)
Definition is_foreign_variant (v : variant) : bool := match v with VForeignOwner _ _ => true | _ => false end.
Definition is_multi_variant (v : variant) : bool :=
  match v with VForeignOwner _ _ | VMultiOwn => true | _ => false end.

Definition foreign_rule (r : row) (ro : role) (st : cstate) : bool :=
  if is_foreign_variant (row_variant r) then negb (row_allowed r ro st)
  else if is_multi_variant (row_variant r) then (if row_allowed r ro st then role_eqb ro RAgentAuth else true)
  else true.

Lemma foreign_rule_holds : all_cells foreign_rule = true.
Proof. vm_compute. reflexivity. Qed.

Definition tag_eqb (a b : owner_tag) : bool :=
  match a, b with
  | OUser, OUser => true
  | OOther x, OOther y => other_auth_id x =? other_auth_id y
  | _, _ => false
  end.
Fixpoint tags_eqb (a b : list owner_tag) : bool :=
  match a, b with
  | [], [] => true
  | x :: a', y :: b' => tag_eqb x y && tags_eqb a' b'
  | _, _ => false
  end.

Definition multi_row_wellformed (r : row) : bool :=
  if is_multi_variant (row_variant r) then
    kind_eqb (c_kind (row_class r)) KOnBehalf &&
    match c_guard (row_class r) with
    | GHubOwned l => tags_eqb l (payments_of (row_variant r))
    | _ => false
    end &&
    existsb (fun m => contract_eqb (fst (fst m)) (row_contract r) && String.eqb (snd (fst m)) (row_endpoint r)
                      && match row_variant r with
                         | VForeignOwner k _ => existsb (Z.eqb k) (snd m)
                         | _ => true
                         end) multi_payment_on_behalf
  else true.

Lemma multi_rows_wellformed_b : forallb multi_row_wellformed access_table = true.
Proof. vm_compute. reflexivity. Qed.

Definition has_row (c : contract) (e : string) (v : variant) : bool :=
  match lookup c e v with Some _ => true | None => false end.

Definition multi_complete (m : contract * string * list Z) : bool :=
  let c := fst (fst m) in let e := snd (fst m) in
  has_row c e VPlain && has_row c e VMultiOwn &&
  forallb (fun k => forallb (fun o => has_row c e (VForeignOwner k o)) [OAlsoAuthorised; ORevoked; ONeverAuthorised]) (snd m).

Lemma multi_complete_b : forallb multi_complete multi_payment_on_behalf = true.
Proof. vm_compute. reflexivity. Qed.

(** every KOnBehalf row guarded by the hub is either single-payment (claimDualYieldOnBehalf) or
    listed in [multi_payment_on_behalf] — no hub-guarded endpoint is left without its variants *)
Definition hub_row_listed (r : row) : bool :=
  match c_guard (row_class r), row_variant r with
  | GHub, VPlain =>
      existsb (fun m => contract_eqb (fst (fst m)) (row_contract r) && String.eqb (snd (fst m)) (row_endpoint r))
              multi_payment_on_behalf
      || (contract_eqb (row_contract r) CStakingProxy && String.eqb (row_endpoint r) "claimDualYieldOnBehalf")
  | _, _ => true
  end.

Lemma hub_rows_listed_b : forallb hub_row_listed access_table = true.
Proof. vm_compute. reflexivity. Qed.

(** E5. Contract-to-contract entry points are allowed for configured counterparties only. *)
Definition entry_rule (r : row) (ro : role) (st : cstate) : bool :=
  if is_kind KContractEntry r then (if row_allowed r ro st then is_party ro else true) else true.

Lemma entry_rule_holds : all_cells entry_rule = true.
Proof. vm_compute. reflexivity. Qed.

(** E6. Lifecycle functions are never allowed as calls. *)
Definition lifecycle_rule (r : row) (ro : role) (st : cstate) : bool :=
  if is_kind KLifecycle r then negb (row_allowed r ro st) else true.

Lemma lifecycle_rule_holds : all_cells lifecycle_rule = true.
Proof. vm_compute. reflexivity. Qed.

(** E7. Inventory: every function the Rust sources export has a row (plain variant); every plain
    row names an exported function; rows are unique; the #[only_owner] attribute of the source
    agrees with the row's guard; views and read-only rows are not payable. *)
Definition contract_of_name (n : string) : option contract :=
  find (fun c => String.eqb (contract_name c) n) all_contracts.

Definition inv_contract (e : string * string * nat * bool * bool) : string := fst (fst (fst (fst e))).
Definition inv_endpoint (e : string * string * nat * bool * bool) : string := snd (fst (fst (fst e))).
Definition inv_kind (e : string * string * nat * bool * bool) : nat := snd (fst (fst e)).
Definition inv_only_owner (e : string * string * nat * bool * bool) : bool := snd (fst e).
Definition inv_payable (e : string * string * nat * bool * bool) : bool := snd e.

Definition inv_row (e : string * string * nat * bool * bool) : option class :=
  match contract_of_name (inv_contract e) with
  | Some c => lookup c (inv_endpoint e) VPlain
  | None => None
  end.

Definition covered (e : string * string * nat * bool * bool) : bool :=
  match inv_row e with Some _ => true | None => false end.

Lemma inventory_covered_b : forallb covered inventory = true.
Proof. vm_compute. reflexivity. Qed.

Definition in_inventory (r : row) : bool :=
  existsb (fun e => String.eqb (inv_contract e) (contract_name (row_contract r))
                    && String.eqb (inv_endpoint e) (row_endpoint r)) inventory.

Lemma table_rows_exist_b : forallb in_inventory access_table = true.
Proof. vm_compute. reflexivity. Qed.

Definition row_key_eqb (a b : row) : bool :=
  contract_eqb (row_contract a) (row_contract b) && String.eqb (row_endpoint a) (row_endpoint b)
  && variant_eqb (row_variant a) (row_variant b).

Fixpoint unique_rows (l : list row) : bool :=
  match l with
  | [] => true
  | r :: t => negb (existsb (row_key_eqb r) t) && unique_rows t
  end.

Lemma table_unique_b : unique_rows access_table = true.
Proof. vm_compute. reflexivity. Qed.

Definition attr_agrees (e : string * string * nat * bool * bool) : bool :=
  match inv_row e with
  | Some cl =>
      Bool.eqb (inv_only_owner e) (match c_guard cl with GOnlyOwner => true | _ => false end)
      && Bool.eqb (Nat.ltb (inv_kind e) 2) (match c_guard cl with GLifecycle => true | _ => false end)
      && (if kind_eqb (c_kind cl) KView then negb (inv_payable e) else true)
  | None => false
  end.

Lemma attributes_agree_b : forallb attr_agrees inventory = true.
Proof. vm_compute. reflexivity. Qed.

(** universally quantified forms *)
Theorem inventory_covered : forall e, In e inventory -> exists cl, inv_row e = Some cl.
Proof.
  intros e H. pose proof inventory_covered_b as Hb. rewrite forallb_forall in Hb.
  specialize (Hb e H). unfold covered in Hb. destruct (inv_row e) as [cl|]; [eauto | discriminate].
Qed.

Theorem table_rows_exist : forall r, In r access_table -> in_inventory r = true.
Proof. intros r H. pose proof table_rows_exist_b as Hb. rewrite forallb_forall in Hb. exact (Hb r H). Qed.

Theorem attributes_agree : forall e, In e inventory -> attr_agrees e = true.
Proof. intros e H. pose proof attributes_agree_b as Hb. rewrite forallb_forall in Hb. exact (Hb e H). Qed.

Theorem config_needs_role : forall r ro st,
  In r access_table -> In ro (roles_of (row_contract r)) -> In st (states_of (row_contract r)) ->
  c_kind (row_class r) = KConfig -> row_allowed r ro st = true ->
  unprivileged ro = false /\
  match c_guard (row_class r) with
  | GOnlyOwner | GOwnerOrOpen => ro = ROwner
  | GPerm m => intersects (perms (row_contract r) ro) m = true
  | _ => False
  end.
Proof.
  intros r ro st Hr Hro Hst Hk Ha.
  pose proof (all_cells_spec _ config_rule_holds r ro st Hr Hro Hst) as H.
  unfold config_rule, is_kind in H. rewrite Hk in H. simpl in H. rewrite Ha in H.
  apply andb_true_iff in H. destruct H as [H1 H2]. split.
  - destruct (unprivileged ro); [discriminate | reflexivity].
  - destruct (c_guard (row_class r)); try discriminate; try exact H2;
      (destruct ro as [| | | | | | |p]; try discriminate; try reflexivity; destruct p; discriminate).
Qed.

Theorem paused_no_fund_moves : forall r ro st,
  In r access_table -> In ro (roles_of (row_contract r)) -> In st (states_of (row_contract r)) ->
  pausable_contract (row_contract r) = true -> moves_user_funds r = true ->
  st = Inactive \/ st = Paused ->
  row_allowed r ro st = true ->
  is_bootstrap r = true /\ st = Inactive /\ ro = RParty PAdder.
Proof.
  intros r ro st Hr Hro Hst Hp Hm Hs Ha.
  pose proof (all_cells_spec _ paused_rule_holds r ro st Hr Hro Hst) as H.
  unfold paused_rule in H. rewrite Hp, Hm, Ha in H.
  assert (Hc : cstate_eqb st Inactive || cstate_eqb st Paused = true) by (destruct Hs; subst; reflexivity).
  rewrite Hc in H. simpl in H.
  apply andb_true_iff in H. destruct H as [H H3]. apply andb_true_iff in H. destruct H as [H1 H2].
  split; [exact H1|]. split.
  - destruct st; try discriminate; reflexivity.
  - destruct ro as [| | | | | | |p]; try discriminate. destruct p; try discriminate; reflexivity.
Qed.

Theorem partial_active_liquidity_not_swaps : forall r ro,
  In r access_table -> In ro (roles_of CPair) -> row_contract r = CPair ->
  ((row_endpoint r = "addLiquidity" \/ row_endpoint r = "removeLiquidity")%string ->
     row_allowed r ro PartialActive = true) /\
  ((row_endpoint r = "swapTokensFixedInput" \/ row_endpoint r = "swapTokensFixedOutput"
    \/ row_endpoint r = "swapNoFeeAndForward")%string ->
     row_allowed r ro PartialActive = false).
Proof.
  intros r ro Hr Hro Hc.
  assert (Hst : In PartialActive (states_of (row_contract r))) by (rewrite Hc; simpl; auto).
  assert (Hro' : In ro (roles_of (row_contract r))) by (rewrite Hc; exact Hro).
  pose proof (all_cells_spec _ partial_rule_holds r ro PartialActive Hr Hro' Hst) as H.
  unfold partial_rule, pair_ep in H. rewrite Hc in H. simpl in H.
  split.
  - intros [He|He]; rewrite He in H; simpl in H; exact H.
  - intros [He|[He|He]]; rewrite He in H; simpl in H; apply negb_true_iff in H; exact H.
Qed.

Theorem on_behalf_only_authorised : forall r ro st,
  In r access_table -> In ro (roles_of (row_contract r)) -> In st (states_of (row_contract r)) ->
  c_kind (row_class r) = KOnBehalf -> row_allowed r ro st = true ->
  ro = RParty PWhitelistedSC \/ ro = RAgentAuth.
Proof.
  intros r ro st Hr Hro Hst Hk Ha.
  pose proof (all_cells_spec _ behalf_rule_holds r ro st Hr Hro Hst) as H.
  unfold behalf_rule, is_kind in H. rewrite Hk in H. simpl in H. rewrite Ha in H.
  apply orb_true_iff in H. destruct H as [H|H].
  - left. destruct ro as [| | | | | | |p]; try discriminate. destruct p; try discriminate; reflexivity.
  - right. destruct ro as [| | | | | | |p]; try discriminate; try reflexivity. destruct p; discriminate.
Qed.

Theorem contract_entries_only_counterparties : forall r ro st,
  In r access_table -> In ro (roles_of (row_contract r)) -> In st (states_of (row_contract r)) ->
  c_kind (row_class r) = KContractEntry -> row_allowed r ro st = true ->
  exists p, ro = RParty p.
Proof.
  intros r ro st Hr Hro Hst Hk Ha.
  pose proof (all_cells_spec _ entry_rule_holds r ro st Hr Hro Hst) as H.
  unfold entry_rule, is_kind in H. rewrite Hk in H. simpl in H. rewrite Ha in H.
  destruct ro; try discriminate. eauto.
Qed.

Theorem lifecycle_never_called : forall r ro st,
  In r access_table -> In ro (roles_of (row_contract r)) -> In st (states_of (row_contract r)) ->
  c_kind (row_class r) = KLifecycle -> row_allowed r ro st = false.
Proof.
  intros r ro st Hr Hro Hst Hk.
  pose proof (all_cells_spec _ lifecycle_rule_holds r ro st Hr Hro Hst) as H.
  unfold lifecycle_rule, is_kind in H. rewrite Hk in H. simpl in H. apply negb_true_iff in H. exact H.
Qed.

(** a foreign-owner payment at any position: disallowed for every role in every state *)
Theorem foreign_owner_payment_refused : forall r ro st k o,
  In r access_table -> In ro (roles_of (row_contract r)) -> In st (states_of (row_contract r)) ->
  row_variant r = VForeignOwner k o -> row_allowed r ro st = false.
Proof.
  intros r ro st k o Hr Hro Hst Hv.
  pose proof (all_cells_spec _ foreign_rule_holds r ro st Hr Hro Hst) as H.
  unfold foreign_rule in H. rewrite Hv in H. simpl in H. apply negb_true_iff in H. exact H.
Qed.

Theorem multi_own_only_authorised_agent : forall r ro st,
  In r access_table -> In ro (roles_of (row_contract r)) -> In st (states_of (row_contract r)) ->
  row_variant r = VMultiOwn -> row_allowed r ro st = true -> ro = RAgentAuth.
Proof.
  intros r ro st Hr Hro Hst Hv Ha.
  pose proof (all_cells_spec _ foreign_rule_holds r ro st Hr Hro Hst) as H.
  unfold foreign_rule in H. rewrite Hv in H. simpl in H. rewrite Ha in H.
  destruct ro as [| | | | | | |p]; try discriminate; try reflexivity. destruct p; discriminate.
Qed.

Theorem multi_rows_wellformed : forall r, In r access_table -> multi_row_wellformed r = true.
Proof. intros r H. pose proof multi_rows_wellformed_b as Hb. rewrite forallb_forall in Hb. exact (Hb r H). Qed.

Theorem multi_payment_rows_complete : forall c e ks k o,
  In (c, e, ks) multi_payment_on_behalf -> In k ks ->
  lookup c e VMultiOwn <> None /\ lookup c e (VForeignOwner k o) <> None.
Proof.
  intros c e ks k o Hin Hk. pose proof multi_complete_b as Hb. rewrite forallb_forall in Hb.
  specialize (Hb _ Hin). unfold multi_complete, has_row in Hb. cbn [fst snd] in Hb.
  apply andb_true_iff in Hb. destruct Hb as [Hb Hf]. apply andb_true_iff in Hb. destruct Hb as [_ Hm].
  rewrite forallb_forall in Hf. specialize (Hf k Hk). rewrite forallb_forall in Hf.
  split.
  - destruct (lookup c e VMultiOwn); [discriminate | discriminate Hm].
  - assert (Ho : In o [OAlsoAuthorised; ORevoked; ONeverAuthorised]) by (destruct o; simpl; auto).
    specialize (Hf o Ho). destruct (lookup c e (VForeignOwner k o)); [discriminate | discriminate Hf].
Qed.

Theorem hub_rows_listed : forall r, In r access_table -> hub_row_listed r = true.
Proof. intros r H. pose proof hub_rows_listed_b as Hb. rewrite forallb_forall in Hb. exact (Hb r H). Qed.

(** the verdict is the rule: allowed iff the guard passes for the caller's facts and the state
    requirement holds (so the table layer is an instance of the primitives of Part A) *)
Theorem allowed_iff : forall cl c ro st,
  allowed cl c ro st = true <->
  guard_ok pair_creation_open (c_guard cl) (facts_of c ro) = true /\ state_ok (c_sreq cl) st = true.
Proof.
  intros. unfold allowed, verdict_of, decide.
  destruct (guard_ok pair_creation_open (c_guard cl) (facts_of c ro)), (state_ok (c_sreq cl) st);
    split; intros H; try discriminate; try (destruct H; discriminate); auto.
Qed.

(** bounds of the finite checks, stated so that the quantifier domains are visible: 648 rows,
    563 inventoried functions, 13230 (row, role, state) cells *)
Definition table_rows : Z := Z.of_nat (length access_table).
Definition inventory_rows : Z := Z.of_nat (length inventory).
Definition table_cells : Z := fold_right (fun r n => n + Z.of_nat (length (cells_of r))) 0 access_table.

Lemma table_dimensions : table_rows = 648 /\ inventory_rows = 563 /\ table_cells = 13230.
Proof. vm_compute. repeat split. Qed.
