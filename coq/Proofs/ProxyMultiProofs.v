(** Invariant and merge characterisations of the proxy-DEX model with several intermediated pairs
    (Model/ProxyMulti.v, property C16).

    [MBacked]: the backing invariant of Proofs/ProxyDexProofs.v with the LP clause PER LP TOKEN ID:
    for every pair, the LP tokens of that pair's LP token held by the proxy cover the wrapped LP tokens
    in users' hands whose attributes record that LP token; locked tokens, farm tokens and escrowed
    wrapped LP tokens as before.  Preserved by every operation whose nested responses obey the
    interface laws, over histories that use both pairs.
    Merging: a successful mergeWrappedLpTokens has inputs of ONE pair and one locked token id, the
    merged token records that pair and exactly the sum of the inputs, no LP balance moves; inputs of
    different pairs make it fail with the state unchanged; the same for wrapped farm tokens and farms. *)
From MX Require Import Base.Prelude Gen.Params Model.ProxyDex Proofs.ProxyDexProofs Model.ProxyMulti.

(** ---------------------------------------------------------------- the backing invariant *)
Definition ml_need (k : Z) (w : mwlp) : Z := if ml_k w =? k then ml_L w * ml_live w / ml_T w else 0.
Definition ml_out (p : Z) (w : mwlp) : Z := if ml_pair w =? p then ml_user w else 0.
Definition mdead_in (l : list mwlp) (n : Z) : Z := match getn l n with Some w => ml_dead w | None => 0 end.
Definition mwlp_wf (w : mwlp) : Prop := 0 < ml_T w /\ 0 <= ml_L w /\ 0 <= ml_live w /\ 0 <= ml_dead w.

Record MBacked (s : mstate) : Prop := mkMBacked {
  mb_lp : forall p, sumf (ml_out p) (m_wlp s) <= aget (m_lp s) p;
  mb_tie : sumf ml_user (m_wlp s) = asum (m_hlp s);
  mb_farm : forall key, sumf (wf_need_farm key) (m_wfm s) <= aget (m_farm s) key;
  mb_esc : forall n, mdead_in (m_wlp s) n + sumf (wf_need_wlp n) (m_wfm s) <= aget (m_pwlp s) n;
  mb_locked : forall k, sumf (ml_need k) (m_wlp s) + sumf (wf_need_locked k) (m_wfm s) <= aget (m_locked s) k;
  mb_wlp : Forall mwlp_wf (m_wlp s);
  mb_wfm : Forall wfm_wf (m_wfm s);
  mb_nd : NoDup (akeys (m_hlp s))
}.

Lemma mdead_in_nil n : mdead_in [] n = 0.
Proof.
  unfold mdead_in, getn. destruct (n <=? 0); [reflexivity|]. destruct (Z.to_nat (n - 1)); reflexivity.
Qed.

Lemma mbacked_init : MBacked minit.
Proof.
  constructor; simpl; intros; try lia; try (constructor; fail).
  rewrite mdead_in_nil. lia.
Qed.

Lemma mdead_in_setn l n w y n2 : getn l n = Some w -> ml_dead y = ml_dead w -> mdead_in (setn l n y) n2 = mdead_in l n2.
Proof.
  intros Hw Hd. unfold mdead_in. destruct (Z.eq_dec n n2) as [->|Hne].
  - rewrite (getn_setn_same _ _ _ _ Hw). rewrite Hw. assumption.
  - rewrite getn_setn_other; auto. apply getn_some in Hw. lia.
Qed.

Lemma mdead_in_app l x n : ml_dead x = 0 -> mdead_in (l ++ [x]) n = mdead_in l n.
Proof.
  intros Hx. unfold mdead_in. destruct (getn l n) eqn:E.
  - rewrite (getn_app_old _ _ _ _ E). reflexivity.
  - destruct (Z.eq_dec n (next_nonce l)) as [->|Hne].
    + rewrite getn_app_new. assumption.
    + rewrite getn_app_none; auto.
Qed.

(** the attributes compared by the merge guard never change once a nonce exists *)
Definition attrs (l : list mwlp) (n : Z) : option (Z * Z) :=
  match getn l n with Some w => Some (ml_pair w, ml_lid w) | None => None end.

Lemma attrs_setn l n w y n2 : getn l n = Some w -> ml_pair y = ml_pair w -> ml_lid y = ml_lid w ->
  attrs (setn l n y) n2 = attrs l n2.
Proof.
  intros Hw Hp Hl. unfold attrs. destruct (Z.eq_dec n n2) as [->|Hne].
  - rewrite (getn_setn_same _ _ _ _ Hw). rewrite Hw, Hp, Hl. reflexivity.
  - rewrite getn_setn_other; auto. apply getn_some in Hw. lia.
Qed.

Lemma attrs_app_old l x n v : attrs l n = Some v -> attrs (l ++ [x]) n = Some v.
Proof.
  unfold attrs. destruct (getn l n) eqn:E; [|discriminate]. rewrite (getn_app_old _ _ _ _ E). auto.
Qed.

Lemma length_setn {A} (l : list A) n y : length (setn l n y) = length l.
Proof. unfold setn. generalize (Z.to_nat (n - 1)). induction l; intros [|i]; simpl; auto. Qed.

(** ---- mrelease_wlp *)
Lemma mrelease_wlp_spec s n a s' w lp : mrelease_wlp s n a = Ok (s', (w, lp)) -> MBacked s ->
  MBacked s' /\ 0 < a /\ 0 < lp /\ m_lp s' = m_lp s /\ m_hlp s' = m_hlp s /\ m_hfm s' = m_hfm s /\
  m_wfm s' = m_wfm s /\ m_farm s' = m_farm s /\ m_pwlp s' = m_pwlp s /\
  (forall n2, mdead_in (m_wlp s') n2 = mdead_in (m_wlp s) n2) /\
  getn (m_wlp s) n = Some w /\ mpart_wlp w a = Ok lp /\
  getn (m_wlp s') n = Some (w_live w (ml_live w - a)).
Proof.
  unfold mrelease_wlp. intros H Hb. destruct (getn (m_wlp s) n) as [w0|] eqn:Hw; [|discriminate].
  destruct (0 <? a) eqn:Ea; [|discriminate]. apply Z.ltb_lt in Ea.
  apply bind_ok in H. destruct H as (lp0 & Hlp & H).
  apply bind_ok in H. destruct H as (live & Hlive & H). apply sub_chk_ok in Hlive. destruct Hlive as [Hle ->].
  apply bind_ok in H. destruct H as (s2 & Hs2 & H). inversion H; subst s' w0 lp0. clear H.
  unfold mlocked_out in Hs2. apply bind_ok in Hs2. destruct Hs2 as (l & Hl & Hs2). inversion Hs2; subst s2. clear Hs2.
  apply bal_sub_ok in Hl. destruct Hl as [Hge ->]. simpl in *.
  destruct Hb as [B1 Bt B2 B3 B4 B5 B6 B7].
  pose proof (Forall_getn _ _ _ _ B5 Hw) as (HT & HL & Hlv & Hdd).
  unfold mpart_wlp in Hlp. pose proof (rule3_pos _ _ _ _ Hlp HT HL) as (Hlp0 & _ & _).
  pose proof (rule3_floor _ _ _ _ Hlp HT) as Hfl.
  split; [|repeat split; auto; try (intros; apply (mdead_in_setn _ _ _ _ _ Hw); reflexivity);
           try (eapply getn_setn_same; eauto)].
  constructor; simpl; auto.
  - intros p. rewrite (sumf_setn _ _ _ _ _ Hw). unfold ml_out at 2 3. simpl. specialize (B1 p). lia.
  - rewrite (sumf_setn _ _ _ _ _ Hw). simpl. lia.
  - intros n2. rewrite (mdead_in_setn _ _ _ _ _ Hw) by reflexivity. apply B3.
  - intros k0. rewrite (sumf_setn _ _ _ _ _ Hw). rewrite aget_aset. specialize (B4 k0).
    unfold ml_need at 2 3. simpl. destruct (ml_k w =? k0) eqn:Ek.
    + pose proof (floor_release (ml_L w) (ml_live w) a (ml_T w) HT HL ltac:(lia)). rewrite <- Hfl in H. apply Z.eqb_eq in Ek. subst k0. lia.
    + lia.
  - apply Forall_setnth; auto. unfold mwlp_wf. simpl. repeat split; auto; lia.
Qed.

(** ---- wrapped LP tokens and LP tokens in and out of users' hands, per pair *)
Lemma wlp_from_user_spec s u n a s' w : wlp_from_user s u n a = Ok (s', w) -> MBacked s ->
  MBacked s' /\ getn (m_wlp s) n = Some w /\ getn (m_wlp s') n = Some (w_user w (ml_user w - a)) /\
  m_wfm s' = m_wfm s /\ a <= aget (m_lp s) (ml_pair w) /\
  m_lp s' = aset (m_lp s) (ml_pair w) (aget (m_lp s) (ml_pair w) - a).
Proof.
  unfold wlp_from_user. intros H Hb. destruct (getn (m_wlp s) n) as [w0|] eqn:Hw; [|discriminate].
  apply bind_ok in H. destruct H as (h & Hh & H). apply bal_sub_ok in Hh. destruct Hh as [Hge ->].
  apply bind_ok in H. destruct H as (l & Hl & H). apply bal_sub_ok in Hl. destruct Hl as [Hle ->].
  inversion H; subst s' w0. clear H. simpl.
  split; [|repeat split; auto; eapply getn_setn_same; eauto].
  destruct Hb as [B1 Bt B2 B3 B4 B5 B6 B7]. constructor; simpl; auto.
  - intros p. rewrite (sumf_setn _ _ _ _ _ Hw). rewrite aget_aset. unfold ml_out at 2 3. simpl. specialize (B1 p).
    destruct (ml_pair w =? p) eqn:E; [apply Z.eqb_eq in E; subst p|]; lia.
  - rewrite (sumf_setn _ _ _ _ _ Hw). simpl. rewrite asum_aset by assumption. lia.
  - intros n2. rewrite (mdead_in_setn _ _ _ _ _ Hw) by reflexivity. apply B3.
  - intros k0. rewrite (sumf_setn _ _ _ _ _ Hw). unfold ml_need at 2 3. simpl. specialize (B4 k0). lia.
  - apply Forall_setnth; auto. pose proof (Forall_getn _ _ _ _ B5 Hw) as Hwf. unfold mwlp_wf in *. simpl. exact Hwf.
  - apply nodup_aset. assumption.
Qed.

Lemma wlp_to_user_spec s u n a lpa s' : wlp_to_user s u n a lpa = Ok s' -> MBacked s -> a <= lpa ->
  MBacked s' /\ m_wfm s' = m_wfm s.
Proof.
  unfold wlp_to_user. intros H Hb Hle. destruct (getn (m_wlp s) n) as [w|] eqn:Hw; [|discriminate].
  inversion H; subst s'. clear H. split; [|reflexivity].
  destruct Hb as [B1 Bt B2 B3 B4 B5 B6 B7]. constructor; simpl; auto.
  - intros p. rewrite (sumf_setn _ _ _ _ _ Hw). rewrite aget_bal_add. unfold ml_out at 2 3. simpl. specialize (B1 p).
    destruct (ml_pair w =? p) eqn:E; [apply Z.eqb_eq in E; subst p|]; lia.
  - rewrite (sumf_setn _ _ _ _ _ Hw). simpl. unfold bal_add. rewrite asum_aset by assumption. lia.
  - intros n2. rewrite (mdead_in_setn _ _ _ _ _ Hw) by reflexivity. apply B3.
  - intros k0. rewrite (sumf_setn _ _ _ _ _ Hw). unfold ml_need at 2 3. simpl. specialize (B4 k0). lia.
  - apply Forall_setnth; auto. pose proof (Forall_getn _ _ _ _ B5 Hw) as Hwf. unfold mwlp_wf in *. simpl. exact Hwf.
  - apply nodup_aset. assumption.
Qed.

Lemma mtake_wlp_user_spec s u n a s' w lp : mtake_wlp_user s u n a = Ok (s', (w, lp)) -> MBacked s ->
  MBacked s' /\ 0 < a /\ 0 < lp /\ m_wfm s' = m_wfm s /\
  exists w0, getn (m_wlp s) n = Some w0 /\ ml_pair w = ml_pair w0 /\ ml_lid w = ml_lid w0 /\ ml_k w = ml_k w0 /\
             mpart_wlp w0 a = Ok lp.
Proof.
  unfold mtake_wlp_user. intros H Hb.
  apply bind_ok in H. destruct H as ([s1 w0] & Hr & H).
  destruct (wlp_from_user_spec _ _ _ _ _ _ Hr Hb) as (Hb1 & Hw0 & Hw1 & Ewf & _).
  destruct (mrelease_wlp_spec _ _ _ _ _ _ H Hb1) as (Hb' & Ha & Hlp & _ & _ & _ & Hwf & _ & _ & _ & Hw & Hp & _).
  rewrite Hw1 in Hw. inversion Hw; subst w. clear Hw.
  split; [exact Hb'|]. split; [exact Ha|]. split; [exact Hlp|]. split; [congruence|]. exists w0. repeat split; auto.
Qed.

(** ---- mkill_wlp *)
Lemma mkill_wlp_spec s n a s' w lp : mkill_wlp s n a = Ok (s', (w, lp)) -> MBacked s ->
  MBacked s' /\ 0 < a /\ 0 < lp /\ m_lp s' = m_lp s /\ m_hlp s' = m_hlp s /\
  getn (m_wlp s) n = Some w /\ mpart_wlp w a = Ok lp.
Proof.
  unfold mkill_wlp. intros H Hb. apply bind_ok in H. destruct H as ([s1 [w1 l1]] & Hr & H).
  destruct (mrelease_wlp_spec _ _ _ _ _ _ Hr Hb) as (Hb1 & Ha & Hlp & E1 & E2 & E3 & E4 & E5 & E6 & Hd & Hw & Hp & Hw1).
  rewrite Hw1 in H. inversion H; subst s' w lp. clear H.
  split; [|repeat split; auto].
  destruct Hb1 as [B1 Bt B2 B3 B4 B5 B6 B7]. constructor; simpl; auto.
  - intros p. rewrite (sumf_setn _ _ _ _ _ Hw1). unfold ml_out at 2 3. simpl. specialize (B1 p). lia.
  - rewrite (sumf_setn _ _ _ _ _ Hw1). simpl. lia.
  - intros n2. rewrite aget_bal_add. specialize (B3 n2). unfold mdead_in in *.
    destruct (Z.eq_dec n n2) as [->|Hne].
    + rewrite (getn_setn_same _ _ _ _ Hw1). rewrite Hw1 in B3. simpl in *. rewrite Z.eqb_refl. lia.
    + rewrite getn_setn_other by (auto; apply getn_some in Hw1; lia).
      destruct (n =? n2) eqn:E; [apply Z.eqb_eq in E; contradiction|]. exact B3.
  - intros k0. rewrite (sumf_setn _ _ _ _ _ Hw1). specialize (B4 k0). unfold ml_need at 2 3. simpl. lia.
  - apply Forall_setnth; auto. pose proof (Forall_getn _ _ _ _ B5 Hw1) as (? & ? & ? & ?). unfold mwlp_wf in *. simpl in *.
    repeat split; auto; lia.
Qed.

(** ---- minting *)
Lemma mmint_wlp_spec s pid lid T k L s' n : mmint_wlp s pid lid T k L 0 = (s', n) -> MBacked s -> 0 < T -> 0 <= L ->
  MBacked s' /\ n = next_nonce (m_wlp s) /\ m_lp s' = m_lp s /\ m_hlp s' = m_hlp s /\
  getn (m_wlp s') n = Some (mkMWlp pid lid T k L T 0 0).
Proof.
  unfold mmint_wlp. intros H [B1 Bt B2 B3 B4 B5 B6 B7] HT HL. inversion H; subst s' n. clear H.
  split; [|repeat split; auto; simpl; apply getn_app_new].
  constructor; simpl; auto.
  - intros p. rewrite sumf_app. simpl. unfold ml_out at 2. simpl. specialize (B1 p). destruct (pid =? p); lia.
  - rewrite sumf_app. simpl. lia.
  - intros n2. rewrite mdead_in_app by reflexivity. apply B3.
  - intros k0. rewrite sumf_app. simpl. rewrite aget_bal_add. specialize (B4 k0). unfold ml_need at 2. simpl.
    rewrite Z.div_mul by lia. destruct (k =? k0) eqn:E.
    + apply Z.eqb_eq in E. subst. lia.
    + lia.
  - apply Forall_app. split; auto. constructor; [|constructor]. unfold mwlp_wf. simpl. repeat split; lia.
Qed.

Lemma mmint_wlp_to_spec s u pid lid T k L lpa s' n : mmint_wlp_to s u pid lid T k L lpa = (s', n) -> MBacked s ->
  0 < T -> 0 <= L -> T <= lpa ->
  MBacked s' /\ n = next_nonce (m_wlp s) /\ getn (m_wlp s') n = Some (mkMWlp pid lid T k L T 0 T) /\
  m_wfm s' = m_wfm s /\ forall q, aget (m_lp s') q = aget (m_lp s) q + (if pid =? q then lpa else 0).
Proof.
  unfold mmint_wlp_to, mmint_wlp. intros H [B1 Bt B2 B3 B4 B5 B6 B7] HT HL Hle. inversion H; subst s' n. clear H.
  split; [|repeat split; auto; simpl; try apply getn_app_new; intros q; rewrite aget_bal_add; destruct (pid =? q) eqn:E; [apply Z.eqb_eq in E; subst q|]; lia].
  constructor; simpl; auto.
  - intros p. rewrite sumf_app. simpl. rewrite aget_bal_add. unfold ml_out at 2. simpl. specialize (B1 p).
    destruct (pid =? p) eqn:E; [apply Z.eqb_eq in E; subst p|]; lia.
  - rewrite sumf_app. simpl. unfold bal_add. rewrite asum_aset by assumption. lia.
  - intros n2. rewrite mdead_in_app by reflexivity. apply B3.
  - intros k0. rewrite sumf_app. simpl. rewrite aget_bal_add. specialize (B4 k0). unfold ml_need at 2. simpl.
    rewrite Z.div_mul by lia. destruct (k =? k0) eqn:E.
    + apply Z.eqb_eq in E. subst. lia.
    + lia.
  - apply Forall_app. split; auto. constructor; [|constructor]. unfold mwlp_wf. simpl. repeat split; lia.
  - apply nodup_aset. assumption.
Qed.

Lemma mmint_wlp_user_spec s u pid lid T k L s' n : mmint_wlp_user s u pid lid T k L = (s', n) -> MBacked s -> 0 < T -> 0 <= L ->
  MBacked s' /\ n = next_nonce (m_wlp s) /\ getn (m_wlp s') n = Some (mkMWlp pid lid T k L T 0 T) /\
  m_wfm s' = m_wfm s /\ forall q, aget (m_lp s') q = aget (m_lp s) q + (if pid =? q then T else 0).
Proof. unfold mmint_wlp_user. intros H Hb HT HL. eapply mmint_wlp_to_spec; eauto. lia. Qed.

(** ---- mtake_wfm / mmint_wfm *)
Lemma mtake_wfm_spec s u m a s' w pp : mtake_wfm s u m a = Ok (s', (w, pp)) -> MBacked s ->
  MBacked s' /\ 0 < a /\ pp = a /\ getn (m_wfm s) m = Some w /\ wfm_wf w /\ m_lp s' = m_lp s /\ m_hlp s' = m_hlp s /\
  m_wlp s' = m_wlp s.
Proof.
  unfold mtake_wfm. intros H Hb. destruct (getn (m_wfm s) m) as [w0|] eqn:Hw; [|discriminate].
  destruct (0 <? a) eqn:Ea; [|discriminate]. apply Z.ltb_lt in Ea.
  apply bind_ok in H. destruct H as (h & Hh & H). apply bal_sub_ok in Hh. destruct Hh as [Hhge ->].
  apply bind_ok in H. destruct H as (pp0 & Hpp & H).
  apply bind_ok in H. destruct H as (sup & Hsup & H). apply sub_chk_ok in Hsup. destruct Hsup as [Hsle ->].
  apply bind_ok in H. destruct H as (fb & Hfb & H). apply bal_sub_ok in Hfb. destruct Hfb as [Hfge ->].
  apply bind_ok in H. destruct H as (s2 & Hs2 & H). inversion H. subst s2 w0 pp0. clear H.
  destruct Hb as [B1 Bt B2 B3 B4 B5 B6 B7].
  pose proof (Forall_getn _ _ _ _ B6 Hw) as Hwf. destruct Hwf as (HT & HP & Hs0).
  unfold part_wfm in Hpp. rewrite HP in Hpp. apply rule3_same in Hpp; [|assumption]. subst pp.
  set (w' := mkWfm (wf_farm w) (wf_f w) (wf_T w) (wf_kind w) (wf_pn w) (wf_P w) (wf_sup w - a)) in *.
  assert (Hwf' : Forall wfm_wf (setn (m_wfm s) m w')).
  { apply Forall_setnth; auto. unfold wfm_wf, w'. simpl. repeat split; auto. lia. }
  destruct (wf_kind w =? 0) eqn:Ek.
  - unfold mlocked_out in Hs2. apply bind_ok in Hs2. destruct Hs2 as (l & Hl & Hs2). inversion Hs2. subst s'. clear Hs2.
    apply bal_sub_ok in Hl. destruct Hl as [Hlge ->]. simpl in *.
    split; [|repeat split; auto].
    constructor; simpl; auto.
    + intros key. rewrite (sumf_setn _ _ _ _ _ Hw). rewrite aget_aset. specialize (B2 key).
      unfold wf_need_farm at 2 3. unfold w'. simpl. destruct (fkey (wf_f w) (wf_farm w) =? key) eqn:E.
      * apply Z.eqb_eq in E. subst key. lia.
      * lia.
    + intros n. rewrite (sumf_setn _ _ _ _ _ Hw). specialize (B3 n). unfold wf_need_wlp at 2 3. unfold w'. simpl.
      rewrite Ek. simpl. lia.
    + intros k. rewrite (sumf_setn _ _ _ _ _ Hw). rewrite aget_aset. specialize (B4 k).
      unfold wf_need_locked at 2 3. unfold w'. simpl. rewrite Ek. simpl. destruct (wf_pn w =? k) eqn:E.
      * apply Z.eqb_eq in E. subst k. lia.
      * lia.
  - apply bind_ok in Hs2. destruct Hs2 as (l & Hl & Hs2). inversion Hs2. subst s'. clear Hs2.
    apply bal_sub_ok in Hl. destruct Hl as [Hlge ->]. simpl in *.
    split; [|repeat split; auto].
    constructor; simpl; auto.
    + intros key. rewrite (sumf_setn _ _ _ _ _ Hw). rewrite aget_aset. specialize (B2 key).
      unfold wf_need_farm at 2 3. unfold w'. simpl. destruct (fkey (wf_f w) (wf_farm w) =? key) eqn:E.
      * apply Z.eqb_eq in E. subst key. lia.
      * lia.
    + intros n. rewrite (sumf_setn _ _ _ _ _ Hw). rewrite aget_aset. specialize (B3 n). unfold wf_need_wlp at 2 3. unfold w'. simpl.
      rewrite Ek. simpl. destruct (wf_pn w =? n) eqn:E.
      * apply Z.eqb_eq in E. subst n. lia.
      * lia.
    + intros k. rewrite (sumf_setn _ _ _ _ _ Hw). specialize (B4 k).
      unfold wf_need_locked at 2 3. unfold w'. simpl. rewrite Ek. simpl. lia.
Qed.

Lemma mmint_wfm_spec s u farm f T kind pn P s' m : mmint_wfm s u farm f T kind pn P = (s', m) -> MBacked s ->
  0 < T -> P = T ->
  MBacked s' /\ m = next_nonce (m_wfm s) /\ getn (m_wfm s') m = Some (mkWfm farm f T kind pn P T) /\
  m_lp s' = m_lp s /\ m_wlp s' = m_wlp s.
Proof.
  unfold mmint_wfm. intros H [B1 Bt B2 B3 B4 B5 B6 B7] HT HP. subst P.
  assert (Hwf : Forall wfm_wf (m_wfm s ++ [mkWfm farm f T kind pn T T])).
  { apply Forall_app. split; auto. constructor; [|constructor]. unfold wfm_wf. simpl. repeat split; lia. }
  destruct (kind =? 0) eqn:Ek; inversion H; subst s' m; clear H;
    (split; [|split; [reflexivity | split; [simpl; apply getn_app_new | split; reflexivity]]]); constructor; simpl; auto.
  - intros key. rewrite sumf_app. simpl. rewrite aget_bal_add. specialize (B2 key). unfold wf_need_farm at 2. simpl.
    destruct (fkey f farm =? key) eqn:E; [apply Z.eqb_eq in E; subst key|]; lia.
  - intros n. rewrite sumf_app. simpl. specialize (B3 n). unfold wf_need_wlp at 2. simpl. rewrite Ek. simpl. lia.
  - intros k. rewrite sumf_app. simpl. rewrite aget_bal_add. specialize (B4 k). unfold wf_need_locked at 2. simpl. rewrite Ek. simpl.
    destruct (pn =? k) eqn:E; [apply Z.eqb_eq in E; subst k|]; lia.
  - intros key. rewrite sumf_app. simpl. rewrite aget_bal_add. specialize (B2 key). unfold wf_need_farm at 2. simpl.
    destruct (fkey f farm =? key) eqn:E; [apply Z.eqb_eq in E; subst key|]; lia.
  - intros n. rewrite sumf_app. simpl. rewrite aget_bal_add. specialize (B3 n). unfold wf_need_wlp at 2. simpl. rewrite Ek. simpl.
    destruct (pn =? n) eqn:E; [apply Z.eqb_eq in E; subst n|]; lia.
  - intros k. rewrite sumf_app. simpl. specialize (B4 k). unfold wf_need_locked at 2. simpl. rewrite Ek. simpl. lia.
Qed.

Lemma mbacked_locked_in s k a : MBacked s -> 0 <= a -> MBacked (mlocked_in s k a).
Proof.
  intros [B1 Bt B2 B3 B4 B5 B6 B7] H. constructor; simpl; auto.
  intros k0. rewrite aget_bal_add. specialize (B4 k0). destruct (k =? k0) eqn:E; [apply Z.eqb_eq in E; subst|]; lia.
Qed.

(** ---- lists of payments *)
Lemma mtake_wlp_list_spec ps : forall s u fst s' ta tl, mtake_wlp_list s u fst ps = Ok (s', (ta, tl)) -> MBacked s ->
  MBacked s' /\ 0 <= ta /\ 0 <= tl /\ (ps <> [] -> 0 < ta) /\ ta = sum_amt ps /\ m_wfm s' = m_wfm s.
Proof.
  induction ps as [|p t IH]; intros s u fst s' ta tl H Hb; simpl in H.
  - inversion H; subst. splits; auto; try lia. intros Hc; exfalso; apply Hc; reflexivity.
  - destruct (p_tok p =? TK_WLP); [|discriminate].
    apply bind_ok in H. destruct H as ([s1 [w1 lp]] & Hr & H).
    destruct (mergeable fst w1); [|discriminate].
    apply bind_ok in H. destruct H as ([s2 [ta2 tl2]] & Hr2 & H). inversion H; subst s' ta tl. clear H.
    destruct (mtake_wlp_user_spec _ _ _ _ _ _ _ Hr Hb) as (Hb1 & Ha & Hlp & Hwf & _).
    destruct (IH _ _ _ _ _ _ Hr2 Hb1) as (Hb2 & Hta & Htl & _ & Hsum & Hwf2).
    splits; auto; try lia. simpl. lia. congruence.
Qed.

Lemma mtake_wfm_list_spec ps : forall s u s' its, mtake_wfm_list s u ps = Ok (s', its) -> MBacked s ->
  MBacked s' /\ Forall item_ok its /\ length its = length ps /\ m_lp s' = m_lp s /\ m_hlp s' = m_hlp s /\ m_wlp s' = m_wlp s.
Proof.
  induction ps as [|p t IH]; intros s u s' its H Hb; simpl in H.
  - inversion H; subst. splits; auto.
  - destruct (p_tok p =? TK_WFM); [|discriminate].
    apply bind_ok in H. destruct H as ([s1 [w pp]] & Hr & H).
    apply bind_ok in H. destruct H as ([s2 its2] & Hr2 & H). inversion H; subst s' its. clear H.
    destruct (mtake_wfm_spec _ _ _ _ _ _ _ Hr Hb) as (Hb1 & Ha & Hpp & _ & _ & E1 & E2 & E5).
    destruct (IH _ _ _ _ Hr2 Hb1) as (Hb2 & Hok & Hlen & E3 & E4 & E6).
    splits; auto; try congruence.
    + constructor; auto. unfold item_ok, mk_item. auto.
    + simpl. lia.
Qed.

Lemma mkill_items_spec its : forall s fst s' tw tl, mkill_items s fst its = Ok (s', (tw, tl)) -> MBacked s ->
  MBacked s' /\ tw = items_pp_total its /\ 0 <= tl /\ 0 <= tw /\ (its <> [] -> 0 < tw) /\
  m_lp s' = m_lp s /\ m_hlp s' = m_hlp s.
Proof.
  induction its as [|it t IH]; intros s fst s' tw tl H Hb; simpl in H.
  - inversion H; subst. splits; auto; try lia. intros Hc; exfalso; apply Hc; reflexivity.
  - destruct it as [[[[fa a] ki] pn] pp].
    apply bind_ok in H. destruct H as ([s1 [w1 lq]] & Hr & H).
    destruct (mergeable fst w1); [|discriminate].
    apply bind_ok in H. destruct H as ([s2 [ta2 tl2]] & Hr2 & H). inversion H; subst s' tw tl. clear H.
    destruct (mkill_wlp_spec _ _ _ _ _ _ Hr Hb) as (Hb1 & Ha & Hlp & E1 & E2 & _).
    destruct (IH _ _ _ _ _ Hr2 Hb1) as (Hb2 & Htw & Htl & Htw0 & _ & E3 & E4).
    splits; auto; try lia; try congruence. simpl. lia.
Qed.

Lemma mmerge_items_spec s u farm its e s' m amt law : mmerge_items s u farm its e = Ok (s', (m, amt, law)) ->
  law = true -> MBacked s -> Forall item_ok its -> MBacked s'.
Proof.
  unfold mmerge_items. intros H Hlaw Hb Hok. destruct its as [|it t]; [discriminate|].
  destruct it as [[[[fa a] kind] pn] pp]. cbv beta iota in H.
  match type of H with context [items_same ?x ?y ?z] => destruct (items_same x y z); [|discriminate] end.
  destruct (fa =? farm); [|discriminate]. destruct (v_ok e); [|discriminate].
  destruct (v_fact e) as [kf lf]. destruct (v_fmerge e) as [f' F'].
  pose proof (items_totals _ Hok) as (Etot & Hnn & Hpos). specialize (Hpos ltac:(congruence)).
  destruct (kind =? 0).
  - destruct (mmint_wfm s u farm f' F' 0 kf lf) as [s1 m1] eqn:Hm. injection H as Es Em Ea El. rewrite Hlaw in El. subst s'.
    apply andb_prop in El. destruct El as [E1 E2]. apply Z.eqb_eq in E1. apply Z.eqb_eq in E2.
    cbn [items_pp_total items_farm_total] in *.
    refine (proj1 (mmint_wfm_spec _ _ _ _ _ _ _ _ _ _ Hm Hb _ _)); lia.
  - destruct (getn (m_wlp s) pn) as [w0|]; [|discriminate].
    apply bind_ok in H. destruct H as ([s1 [tw tl]] & Hk & H).
    destruct (mkill_items_spec _ _ _ _ _ _ Hk Hb) as (Hb1 & Htw & Htl & Htw0 & Htwp & _).
    destruct (mmint_wlp s1 (ml_pair w0) (ml_lid w0) tw kf lf 0) as [s2 n] eqn:Hm2.
    destruct (mmint_wfm s2 u farm f' F' 1 n tw) as [s3 m3] eqn:Hm3. injection H as Es Em Ea El. rewrite Hlaw in El. subst s'.
    apply andb_prop in El. destruct El as [E1 E2]. apply Z.eqb_eq in E1. apply Z.eqb_eq in E2.
    specialize (Htwp ltac:(congruence)). cbn [items_pp_total items_farm_total] in *.
    destruct (mmint_wlp_spec _ _ _ _ _ _ _ _ Hm2 Hb1 Htwp ltac:(lia)) as (Hb2 & _).
    refine (proj1 (mmint_wfm_spec _ _ _ _ _ _ _ _ _ _ Hm3 Hb2 _ _)); lia.
Qed.

(** ---- endpoints *)
Lemma mep_add_liq_backed s u pid p1 p2 extra e s' x : mep_add_liq s u pid p1 p2 extra e = Ok (s', x) ->
  x_law x = true -> MBacked s -> MBacked s'.
Proof.
  unfold mep_add_liq. intros H Hlaw Hb. chk H. chk H. chk H. chk H.
  destruct (v_pair e) as [[lp used1] used2].
  mon H left1 Hl1. mon H left2 Hl2.
  destruct extra as [|p0 t].
  - destruct (mmint_wlp_user s u pid _ lp _ _) as [s1 n] eqn:Hm. injection H as Es Ex. subst s' x. simpl in Hlaw.
    apply andb_prop in Hlaw. destruct Hlaw as [L1 L2]. apply Z.ltb_lt in L1. apply Z.leb_le in L2.
    exact (proj1 (mmint_wlp_user_spec _ _ _ _ _ _ _ _ _ Hm Hb L1 L2)).
  - mon H r Hr. destruct r as [s1 [ta tl]]. mon H r3 Hr3.
    destruct (v_fact e) as [kf lf].
    destruct (mmint_wlp_user s1 u pid _ (lp + ta) kf lf) as [s2 n] eqn:Hm. injection H as Es Ex. subst s' x. simpl in Hlaw.
    apply andb_prop in Hlaw. destruct Hlaw as [Hlaw L3]. apply andb_prop in Hlaw. destruct Hlaw as [L1 L2].
    apply Z.ltb_lt in L1. apply Z.leb_le in L2. apply Z.eqb_eq in L3.
    destruct (mtake_wlp_list_spec _ _ _ _ _ _ _ Hr Hb) as (Hb1 & Hta & Htl & _).
    refine (proj1 (mmint_wlp_user_spec _ _ _ _ _ _ _ _ _ Hm Hb1 _ _)); lia.
Qed.

Lemma mep_remove_liq_backed s u pid p e s' x : mep_remove_liq s u pid p e = Ok (s', x) -> MBacked s -> MBacked s'.
Proof.
  unfold mep_remove_liq. intros H Hb. chk H. chk H. mon H r Hr. destruct r as [s1 [w lp]]. chk H. chk H.
  destruct (v_pair e) as [[z rb] ro].
  destruct (mtake_wlp_user_spec _ _ _ _ _ _ _ Hr Hb) as (Hb1 & _).
  destruct (lp <? rb).
  - injection H as Es _. subst. assumption.
  - mon H en Hen. injection H as Es _. subst. assumption.
Qed.

Lemma mep_claim_backed s u farm p e s' x : mep_claim s u farm p e = Ok (s', x) -> x_law x = true -> MBacked s -> MBacked s'.
Proof.
  unfold mep_claim. intros H Hlaw Hb. chk H. chk H. mon H r Hr. destruct r as [s1 [w pp]]. chk H. chk H.
  destruct (v_farm e) as [f F]. destruct (v_rew e) as [rk ra].
  destruct (mmint_wfm s1 u farm f F (wf_kind w) (wf_pn w) pp) as [s2 m] eqn:Hm. injection H as Es Ex. subst s' x.
  simpl in Hlaw. apply Z.eqb_eq in Hlaw.
  destruct (mtake_wfm_spec _ _ _ _ _ _ _ Hr Hb) as (Hb1 & Ha & Hpp & _).
  refine (proj1 (mmint_wfm_spec _ _ _ _ _ _ _ _ _ _ Hm Hb1 _ _)); lia.
Qed.

Lemma mep_merge_wlp_backed s u ps e s' x : mep_merge_wlp s u ps e = Ok (s', x) -> x_law x = true -> MBacked s -> MBacked s'.
Proof.
  unfold mep_merge_wlp. intros H Hlaw Hb. chk H. destruct ps as [|p0 t] eqn:Eps; [discriminate|]. rewrite <- Eps in *.
  destruct (getn (m_wlp s) (p_non p0)) as [w0|]; [|discriminate].
  mon H r Hr. destruct r as [s1 [ta tl]]. chk H.
  destruct (v_fact e) as [kf lf].
  destruct (mmint_wlp_user s1 u (ml_pair w0) (ml_lid w0) ta kf lf) as [s2 n] eqn:Hm. injection H as Es Ex. subst s' x. simpl in Hlaw. apply Z.eqb_eq in Hlaw.
  destruct (mtake_wlp_list_spec _ _ _ _ _ _ _ Hr Hb) as (Hb1 & Hta & Htl & Hpos & _).
  assert (ps <> []) by (rewrite Eps; discriminate).
  refine (proj1 (mmint_wlp_user_spec _ _ _ _ _ _ _ _ _ Hm Hb1 _ _)); [auto | lia].
Qed.

Lemma mep_merge_wfm_backed s u farm ps e s' x : mep_merge_wfm s u farm ps e = Ok (s', x) -> x_law x = true -> MBacked s -> MBacked s'.
Proof.
  unfold mep_merge_wfm. intros H Hlaw Hb. chk H. chk H. mon H r Hr. destruct r as [s1 its].
  mon H r2 Hr2. destruct r2 as [s2 [[m amt] law]]. destruct (v_rew e) as [rk ra].
  injection H as Es Ex. subst s' x. simpl in Hlaw. apply andb_prop in Hlaw. destruct Hlaw as [L1 L2]. apply Z.leb_le in L2.
  destruct (mtake_wfm_list_spec _ _ _ _ _ Hr Hb) as (Hb1 & Hok & _).
  apply mbacked_locked_in; [|assumption]. eapply mmerge_items_spec; eauto.
Qed.

Lemma mep_inc_lp_backed s u p e s' x : mep_inc_lp s u p e = Ok (s', x) -> x_law x = true -> MBacked s -> MBacked s'.
Proof.
  unfold mep_inc_lp. intros H Hlaw Hb. chk H. mon H r Hr. destruct r as [s1 [w lp]]. chk H.
  destruct (v_fact e) as [kf lf].
  destruct (mmint_wlp_user s1 u (ml_pair w) (ml_lid w) (p_amt p) kf lf) as [s2 n] eqn:Hm. injection H as Es Ex. subst s' x. simpl in Hlaw. apply Z.eqb_eq in Hlaw.
  destruct (mtake_wlp_user_spec _ _ _ _ _ _ _ Hr Hb) as (Hb1 & Ha & Hlp & _).
  refine (proj1 (mmint_wlp_user_spec _ _ _ _ _ _ _ _ _ Hm Hb1 _ _)); lia.
Qed.

Lemma mep_inc_fm_backed s u p e s' x : mep_inc_fm s u p e = Ok (s', x) -> x_law x = true -> MBacked s -> MBacked s'.
Proof.
  unfold mep_inc_fm. intros H Hlaw Hb. chk H. mon H r Hr. destruct r as [s1 [w pp]].
  destruct (v_fact e) as [kf lf].
  destruct (mtake_wfm_spec _ _ _ _ _ _ _ Hr Hb) as (Hb1 & Ha & Hpp & _).
  destruct (wf_kind w =? 0).
  - chk H. destruct (mmint_wfm s1 u (wf_farm w) (wf_f w) (p_amt p) 0 kf lf) as [s2 m] eqn:Hm.
    injection H as Es Ex. subst s' x. simpl in Hlaw. apply Z.eqb_eq in Hlaw.
    refine (proj1 (mmint_wfm_spec _ _ _ _ _ _ _ _ _ _ Hm Hb1 _ _)); lia.
  - mon H r2 Hr2. destruct r2 as [s2 [wl lq]]. chk H.
    destruct (mmint_wlp s2 (ml_pair wl) (ml_lid wl) pp kf lf 0) as [s3 n] eqn:Hm3.
    destruct (mmint_wfm s3 u (wf_farm w) (wf_f w) (p_amt p) 1 n pp) as [s4 m] eqn:Hm4.
    injection H as Es Ex. subst s' x. simpl in Hlaw. apply Z.eqb_eq in Hlaw.
    destruct (mrelease_wlp_spec _ _ _ _ _ _ Hr2 Hb1) as (Hb2 & Hpp0 & Hlq & _).
    destruct (mmint_wlp_spec _ _ _ _ _ _ _ _ Hm3 Hb2 ltac:(lia) ltac:(lia)) as (Hb3 & _).
    refine (proj1 (mmint_wfm_spec _ _ _ _ _ _ _ _ _ _ Hm4 Hb3 _ _)); lia.
Qed.

Lemma mep_enter_farm_backed s u farm p extra e s' x : mep_enter_farm s u farm p extra e = Ok (s', x) ->
  x_law x = true -> MBacked s -> MBacked s'.
Proof.
  unfold mep_enter_farm. intros H Hlaw Hb. chk H. chk H. apply Z.ltb_lt in C0.
  mon H r0 Hr0. destruct r0 as [[s1 kind] minted]. chk H.
  destruct (v_farm e) as [f F]. destruct (v_rew e) as [rk ra].
  assert (Hb1 : MBacked s1).
  { destruct (p_tok p =? TK_LOCKED).
    - chk Hr0. injection Hr0 as -> _ _. auto.
    - destruct (p_tok p =? TK_WLP); [|discriminate].
      destruct (getn (m_wlp s) (p_non p)) as [w|]; [|discriminate].
      mon Hr0 z Hz. mon Hr0 r Hr. destruct r as [s0 w0]. chk Hr0.
      injection Hr0 as <- _ _. exact (proj1 (wlp_from_user_spec _ _ _ _ _ _ Hr Hb)). }
  destruct extra as [|p0 t].
  - destruct (mmint_wfm s1 u farm f F kind (p_non p) (p_amt p)) as [s2 m] eqn:Hm.
    injection H as Es Ex. subst s' x. simpl in Hlaw. apply Z.eqb_eq in Hlaw.
    refine (proj1 (mmint_wfm_spec _ _ _ _ _ _ _ _ _ _ Hm Hb1 _ _)); lia.
  - mon H r Hr. destruct r as [s2 its]. mon H z Hz. mon H r2 Hr2. destruct r2 as [s5 [[m amt] law]].
    injection H as Es Ex. subst s' x. simpl in Hlaw. apply andb_prop in Hlaw. destruct Hlaw as [L1 L2]. apply Z.eqb_eq in L1.
    destruct (mtake_wfm_list_spec _ _ _ _ _ Hr Hb1) as (Hb2 & Hok & _).
    eapply mmerge_items_spec; eauto. constructor; auto. unfold item_ok, mk_item. split; lia.
Qed.

Lemma mep_exit_farm_backed s u farm p e s' x : mep_exit_farm s u farm p e = Ok (s', x) -> MBacked s -> MBacked s'.
Proof.
  unfold mep_exit_farm. intros H Hb. chk H. chk H. mon H r Hr. destruct r as [s1 [w pp]]. chk H. chk H.
  destruct (v_rew e) as [rk ra]. chk H. apply Z.leb_le in C3.
  destruct (mtake_wfm_spec _ _ _ _ _ _ _ Hr Hb) as (Hb1 & Ha & Hpp & _ & Hwf & _). subst pp.
  set (F := snd (v_farm e)) in *.
  destruct (F =? p_amt p) eqn:EF.
  - apply Z.eqb_eq in EF. destruct (wf_kind w =? 0).
    + injection H as Es _. subst. assumption.
    + mon H s2 Hs2. injection H as Es _. subst s'.
      refine (proj1 (wlp_to_user_spec _ _ _ _ _ _ Hs2 Hb1 _)). lia.
  - apply Z.eqb_neq in EF. mon H rem Hrem. apply sub_chk_ok in Hrem. destruct Hrem as [Hle ->].
    destruct (wf_kind w =? 0).
    + mon H en Hen. injection H as Es _. subst. assumption.
    + destruct (getn (m_wlp s1) (wf_pn w)) as [wl|] eqn:Hwl; [|discriminate].
      mon H lnew Hln. mon H r2 Hr2. destruct r2 as [s2 [wk lold]]. mon H extra Hex. mon H en Hen.
      destruct (mmint_wlp_to s2 u (ml_pair wl) (ml_lid wl) (p_amt p - (p_amt p - F)) (ml_k wl) lnew F) as [s3 n] eqn:Hm.
      injection H as Es _. subst s'.
      destruct (mkill_wlp_spec _ _ _ _ _ _ Hr2 Hb1) as (Hb2 & _ & Hlo & E1 & E2 & _).
      pose proof (Forall_getn _ _ _ _ (mb_wlp _ Hb1) Hwl) as (HT & HL & _).
      unfold mpart_wlp in Hln. destruct (rule3_pos _ _ _ _ Hln HT HL) as (Hlnp & Hrem & _).
      refine (proj1 (mmint_wlp_to_spec _ _ _ _ _ _ _ _ _ _ Hm Hb2 _ _ _)); lia.
Qed.

Lemma mep_xfer_wlp_backed s a b n x s' y : mep_xfer_wlp s a b n x = Ok (s', y) -> MBacked s -> MBacked s'.
Proof.
  unfold mep_xfer_wlp. intros H Hb. chk H. apply Z.ltb_lt in C. mon H h Hh. apply bal_sub_ok in Hh. destruct Hh as [Hge ->].
  injection H as Es _. subst s'.
  destruct Hb as [B1 Bt B2 B3 B4 B5 B6 B7]. constructor; simpl; auto.
  - rewrite Bt. unfold bal_add. rewrite asum_aset by (apply nodup_aset; assumption).
    rewrite asum_aset by assumption. lia.
  - unfold bal_add. apply nodup_aset. apply nodup_aset. assumption.
Qed.

Lemma mep_xfer_wfm_backed s a b n x s' y : mep_xfer_wfm s a b n x = Ok (s', y) -> MBacked s -> MBacked s'.
Proof.
  unfold mep_xfer_wfm. intros H Hb. chk H. mon H h Hh. injection H as Es _. subst s'.
  destruct Hb as [B1 Bt B2 B3 B4 B5 B6 B7]. constructor; simpl; auto.
Qed.

Theorem mstep_backed s o s' x : mstep s o = Ok (s', x) -> x_law x = true -> MBacked s -> MBacked s'.
Proof.
  destruct o; simpl; intros H Hlaw Hb.
  - eapply mep_add_liq_backed; eauto.
  - eapply mep_remove_liq_backed; eauto.
  - eapply mep_enter_farm_backed; eauto.
  - eapply mep_exit_farm_backed; eauto.
  - eapply mep_claim_backed; eauto.
  - eapply mep_merge_wlp_backed; eauto.
  - eapply mep_merge_wfm_backed; eauto.
  - eapply mep_inc_lp_backed; eauto.
  - eapply mep_inc_fm_backed; eauto.
  - chk H. chk H. chk H. injection H as Es _. subst s'. destruct Hb as [B1 Bt B2 B3 B4 B5 B6 B7].
    destruct (pairid =? 0); constructor; simpl; auto.
  - chk H. chk H. chk H. injection H as Es _. subst s'. destruct Hb as [B1 Bt B2 B3 B4 B5 B6 B7].
    destruct (farm =? 0); constructor; simpl; auto.
  - eapply mep_xfer_wlp_backed; eauto.
  - eapply mep_xfer_wfm_backed; eauto.
Qed.

(** states reachable when every nested response obeys the interface laws *)
Inductive mreach : mstate -> Prop :=
| mreach_init : mreach minit
| mreach_step s o s' x : mreach s -> mstep s o = Ok (s', x) -> x_law x = true -> mreach s'.

Theorem mreach_backed s : mreach s -> MBacked s.
Proof. induction 1; [apply mbacked_init | eapply mstep_backed; eauto]. Qed.

Lemma mlawful_reach ops : forall s, mreach s -> mlawful s ops = true -> mreach (mrun s ops).
Proof.
  induction ops as [|o t IH]; intros s Hr Hl; simpl in *; [assumption|].
  unfold mstep_total. destruct (mstep s o) as [[s' x]|] eqn:E.
  - apply andb_prop in Hl. destruct Hl as [L1 L2]. apply IH; auto. econstructor; eauto.
  - apply IH; auto.
Qed.

Theorem mrun_backed ops : mlawful minit ops = true -> MBacked (mrun minit ops).
Proof. intros H. apply mreach_backed. apply mlawful_reach; [constructor | assumption]. Qed.

(** ================================================================ merging: one pair, one farm *)
(** ---- structural facts (no invariant needed): which attributes the guards compared, what moved *)
Lemma attrs_some l n pid lid : attrs l n = Some (pid, lid) <->
  exists w, getn l n = Some w /\ ml_pair w = pid /\ ml_lid w = lid.
Proof.
  unfold attrs. split.
  - destruct (getn l n) as [w|]; [|discriminate]. intros H. inversion H. eauto.
  - intros (w & -> & <- & <-). reflexivity.
Qed.

Lemma mrelease_attrs s n a s' w lp : mrelease_wlp s n a = Ok (s', (w, lp)) ->
  getn (m_wlp s) n = Some w /\ (forall n2, attrs (m_wlp s') n2 = attrs (m_wlp s) n2) /\
  m_lp s' = m_lp s /\ m_wfm s' = m_wfm s /\ length (m_wlp s') = length (m_wlp s) /\
  getn (m_wlp s') n = Some (w_live w (ml_live w - a)).
Proof.
  unfold mrelease_wlp. intros H. destruct (getn (m_wlp s) n) as [w0|] eqn:Hw; [|discriminate].
  destruct (0 <? a); [|discriminate].
  apply bind_ok in H. destruct H as (lp0 & Hlp & H).
  apply bind_ok in H. destruct H as (live & Hlive & H). apply sub_chk_ok in Hlive. destruct Hlive as [_ ->].
  apply bind_ok in H. destruct H as (s2 & Hs2 & H). inversion H; subst s' w0 lp0. clear H.
  unfold mlocked_out in Hs2. apply bind_ok in Hs2. destruct Hs2 as (l & Hl & Hs2). inversion Hs2; subst s2. simpl.
  splits; auto.
  - intros n2. apply (attrs_setn _ _ _ _ _ Hw); reflexivity.
  - apply length_setn.
  - eapply getn_setn_same; eauto.
Qed.

Lemma wlp_from_user_attrs s u n a s' w : wlp_from_user s u n a = Ok (s', w) ->
  getn (m_wlp s) n = Some w /\ (forall n2, attrs (m_wlp s') n2 = attrs (m_wlp s) n2) /\
  (forall q, aget (m_lp s') q = aget (m_lp s) q - (if ml_pair w =? q then a else 0)) /\
  m_wfm s' = m_wfm s /\ length (m_wlp s') = length (m_wlp s) /\
  getn (m_wlp s') n = Some (w_user w (ml_user w - a)).
Proof.
  unfold wlp_from_user. intros H. destruct (getn (m_wlp s) n) as [w0|] eqn:Hw; [|discriminate].
  apply bind_ok in H. destruct H as (h & Hh & H).
  apply bind_ok in H. destruct H as (l & Hl & H). apply bal_sub_ok in Hl. destruct Hl as [_ ->].
  inversion H; subst s' w0. simpl. splits; auto.
  - intros n2. apply (attrs_setn _ _ _ _ _ Hw); reflexivity.
  - intros q. rewrite aget_aset. destruct (ml_pair w =? q) eqn:E; [apply Z.eqb_eq in E; subst q|]; lia.
  - apply length_setn.
  - eapply getn_setn_same; eauto.
Qed.

Lemma mtake_wlp_user_attrs s u n a s' w lp : mtake_wlp_user s u n a = Ok (s', (w, lp)) ->
  attrs (m_wlp s) n = Some (ml_pair w, ml_lid w) /\ (forall n2, attrs (m_wlp s') n2 = attrs (m_wlp s) n2) /\
  (forall q, aget (m_lp s') q = aget (m_lp s) q - (if ml_pair w =? q then a else 0)) /\
  m_wfm s' = m_wfm s /\ length (m_wlp s') = length (m_wlp s).
Proof.
  unfold mtake_wlp_user. intros H. apply bind_ok in H. destruct H as ([s1 w0] & Hr & H).
  destruct (wlp_from_user_attrs _ _ _ _ _ _ Hr) as (Hw0 & A1 & L1 & F1 & N1 & Hw1).
  destruct (mrelease_attrs _ _ _ _ _ _ H) as (Hw & A2 & L2 & F2 & N2 & _).
  rewrite Hw1 in Hw. inversion Hw; subst w. simpl. splits.
  - unfold attrs. rewrite Hw0. reflexivity.
  - intros n2. rewrite A2. apply A1.
  - intros q. rewrite L2. apply L1.
  - congruence.
  - congruence.
Qed.

Lemma mergeable_some pid lid w : mergeable (Some (pid, lid)) w = true -> ml_pair w = pid /\ ml_lid w = lid.
Proof. simpl. intros H. apply andb_prop in H. destruct H as [H1 H2]. apply Z.eqb_eq in H1. apply Z.eqb_eq in H2. auto. Qed.

Lemma mtake_wlp_list_same ps : forall s u pid lid s' ta tl, mtake_wlp_list s u (Some (pid, lid)) ps = Ok (s', (ta, tl)) ->
  Forall (fun p => attrs (m_wlp s) (p_non p) = Some (pid, lid)) ps /\
  (forall n2, attrs (m_wlp s') n2 = attrs (m_wlp s) n2) /\
  (forall q, aget (m_lp s') q = aget (m_lp s) q - (if pid =? q then ta else 0)) /\
  ta = sum_amt ps /\ m_wfm s' = m_wfm s /\ length (m_wlp s') = length (m_wlp s).
Proof.
  induction ps as [|p t IH]; intros s u pid lid s' ta tl H; simpl in H.
  - inversion H; subst. splits; auto. intros q. destruct (pid =? q); lia.
  - destruct (p_tok p =? TK_WLP); [|discriminate].
    apply bind_ok in H. destruct H as ([s1 [w1 lp]] & Hr & H).
    match type of H with (if ?c then _ else _) = _ => destruct c eqn:Em; [|discriminate] end.
    apply (mergeable_some pid lid) in Em. destruct Em as [Ep El].
    apply bind_ok in H. destruct H as ([s2 [ta2 tl2]] & Hr2 & H). inversion H; subst s' ta tl. clear H.
    destruct (mtake_wlp_user_attrs _ _ _ _ _ _ _ Hr) as (A0 & A1 & L1 & F1 & N1).
    destruct (IH _ _ _ _ _ _ _ Hr2) as (Hall & A2 & L2 & Hsum & F2 & N2).
    rewrite Ep, El in A0. splits.
    + constructor; [exact A0|]. eapply Forall_impl; [|exact Hall]. intros p' Hp'. simpl in Hp'. rewrite A1 in Hp'. exact Hp'.
    + intros n2. rewrite A2. apply A1.
    + intros q. rewrite L2, L1. rewrite Ep. destruct (pid =? q); lia.
    + simpl. lia.
    + congruence.
    + congruence.
Qed.

(** mergeWrappedLpTokens: the inputs record ONE LP token id and one locked token id; the merged token
    records that pair and exactly the sum of the inputs; no LP balance of the proxy moves *)
Theorem merge_same_pair_only s u ps e s' x : mep_merge_wlp s u ps e = Ok (s', x) ->
  exists pid lid,
    Forall (fun p => exists w, getn (m_wlp s) (p_non p) = Some w /\ ml_pair w = pid /\ ml_lid w = lid) ps /\
    let n := next_nonce (m_wlp s) in
    x_outs x = [(TK_WLP, n, sum_amt ps)] /\
    getn (m_wlp s') n = Some (mkMWlp pid lid (sum_amt ps) (fst (v_fact e)) (snd (v_fact e)) (sum_amt ps) 0 (sum_amt ps)) /\
    (forall q, aget (m_lp s') q = aget (m_lp s) q) /\
    x_mint x = 0 /\ x_burn x = 0 /\ x_lburn x = (0, 0) /\ x_energy x = None.
Proof.
  unfold mep_merge_wlp. intros H. chk H. destruct ps as [|p0 t]; [discriminate|].
  destruct (getn (m_wlp s) (p_non p0)) as [w0|] eqn:Hw0; [|discriminate].
  mon H r Hr. destruct r as [s1 [ta tl]]. chk H.
  destruct (v_fact e) as [kf lf]. simpl fst. simpl snd.
  unfold mmint_wlp_user, mmint_wlp_to, mmint_wlp in H. injection H as Es Ex. subst s' x.
  (* first element *)
  simpl in Hr. destruct (p_tok p0 =? TK_WLP); [|discriminate].
  mon Hr r1 Hr1. destruct r1 as [s0 [w1 lp1]]. simpl in Hr.
  mon Hr r2 Hr2. destruct r2 as [s2 [ta2 tl2]]. injection Hr as Es1 Eta Etl. subst s1 ta tl.
  destruct (mtake_wlp_user_attrs _ _ _ _ _ _ _ Hr1) as (A0 & A1 & L1 & F1 & N1).
  destruct (mtake_wlp_list_same _ _ _ _ _ _ _ _ Hr2) as (Hall & A2 & L2 & Hsum & F2 & N2).
  assert (Ew : ml_pair w1 = ml_pair w0 /\ ml_lid w1 = ml_lid w0).
  { unfold attrs in A0. rewrite Hw0 in A0. inversion A0. auto. }
  destruct Ew as [Ep El].
  exists (ml_pair w0), (ml_lid w0). splits.
  - constructor.
    + exists w0. auto.
    + eapply Forall_impl; [|exact Hall]. intros p' Hp'. simpl in Hp'. rewrite A1 in Hp'. rewrite Ep, El in Hp'.
      apply attrs_some in Hp'. exact Hp'.
  - simpl. unfold next_nonce. rewrite N2, N1. subst ta2. reflexivity.
  - simpl. subst ta2. replace (next_nonce (m_wlp s)) with (next_nonce (m_wlp s2)) by (unfold next_nonce; congruence).
    apply getn_app_new.
  - intros q. simpl. rewrite aget_bal_add.
    destruct (ml_pair w0 =? q) eqn:E; [apply Z.eqb_eq in E; subst q|]; rewrite L2, L1, Ep; [rewrite Z.eqb_refl | rewrite E]; lia.
  - reflexivity.
  - reflexivity.
  - reflexivity.
  - reflexivity.
Qed.

(** wrapped LP tokens of different pairs (or recording different locked token ids) offered to one merge:
    the transaction fails and nothing changes *)
Theorem merge_across_pairs_fails s u ps e p q wp wq : In p ps -> In q ps ->
  getn (m_wlp s) (p_non p) = Some wp -> getn (m_wlp s) (p_non q) = Some wq ->
  ml_pair wp <> ml_pair wq \/ ml_lid wp <> ml_lid wq ->
  is_ok (mstep s (MMergeWlp u ps e)) = false /\ mstep_total s (MMergeWlp u ps e) = s.
Proof.
  intros Hp Hq Hwp Hwq Hne. unfold mstep_total. simpl.
  destruct (mep_merge_wlp s u ps e) as [[s' x]|er] eqn:E; [|auto].
  exfalso. destruct (merge_same_pair_only _ _ _ _ _ _ E) as (pid & lid & Hall & _).
  rewrite Forall_forall in Hall.
  destruct (Hall _ Hp) as (w1 & H1 & P1 & L1). destruct (Hall _ Hq) as (w2 & H2 & P2 & L2).
  rewrite Hwp in H1. rewrite Hwq in H2. inversion H1; inversion H2; subst. destruct Hne as [Hn|Hn]; apply Hn; congruence.
Qed.

(** addLiquidityProxy with merge: the first token of the merge is the new position of the pair addressed;
    every wrapped LP token merged in records THAT pair's LP token; the new token records the pair, the LP
    minted plus the sum of the inputs; only that pair's LP balance moves, by the LP minted *)
Theorem add_merge_same_pair_only s u pid p1 p2 extra e s' x : mep_add_liq s u pid p1 p2 extra e = Ok (s', x) ->
  let lp := fst (fst (v_pair e)) in
  let lid := if p_tok p1 =? TK_LOCKED then p_tok p1 else p_tok p2 in
  pair_ok s pid = true /\
  Forall (fun p => exists w, getn (m_wlp s) (p_non p) = Some w /\ ml_pair w = pid /\ ml_lid w = lid) extra /\
  (exists w, getn (m_wlp s') (next_nonce (m_wlp s)) = Some w /\ ml_pair w = pid /\ ml_T w = lp + sum_amt extra /\
             ml_user w = lp + sum_amt extra) /\
  (forall q, aget (m_lp s') q = aget (m_lp s) q + (if pid =? q then lp else 0)).
Proof.
  unfold mep_add_liq. intros H. chk H. chk H. chk H. chk H.
  destruct (v_pair e) as [[lp used1] used2]. simpl fst.
  mon H left1 Hl1. mon H left2 Hl2.
  destruct extra as [|p0 t].
  - unfold mmint_wlp_user, mmint_wlp_to, mmint_wlp in H. injection H as Es Ex. subst s' x. splits; auto.
    + simpl. eexists. split; [apply getn_app_new|]. simpl. repeat split; lia.
    + intros q. simpl. rewrite aget_bal_add. destruct (pid =? q) eqn:E; [apply Z.eqb_eq in E; subst q|]; lia.
  - mon H r Hr. destruct r as [s1 [ta tl]]. mon H r3 Hr3.
    destruct (v_fact e) as [kf lf].
    unfold mmint_wlp_user, mmint_wlp_to, mmint_wlp in H. injection H as Es Ex. subst s' x.
    assert (Elid : (if p_tok p1 =? TK_LOCKED then p_tok p1 else p_tok p2) = p_tok (if p_tok p1 =? TK_LOCKED then p1 else p2))
      by (destruct (p_tok p1 =? TK_LOCKED); reflexivity).
    rewrite Elid.
    destruct (mtake_wlp_list_same _ _ _ _ _ _ _ _ Hr) as (Hall & A2 & L2 & Hsum & F2 & N2).
    splits; auto.
    + eapply Forall_impl; [|exact Hall]. intros p' Hp'. simpl in Hp'. apply attrs_some in Hp'. exact Hp'.
    + simpl. replace (next_nonce (m_wlp s)) with (next_nonce (m_wlp s1)) by (unfold next_nonce; congruence).
      eexists. split; [apply getn_app_new|]. simpl. subst ta. repeat split; lia.
    + intros q. simpl. rewrite aget_bal_add.
      destruct (pid =? q) eqn:E; [apply Z.eqb_eq in E; subst q|]; rewrite L2; [rewrite Z.eqb_refl | rewrite E]; lia.
Qed.

(** ---- wrapped farm tokens *)
Definition fattrs (l : list wfm) (m : Z) : option (Z * Z * Z) :=
  match getn l m with Some w => Some (wf_farm w, wf_kind w, wf_pn w) | None => None end.

Lemma fattrs_some l m fa ki pn : fattrs l m = Some (fa, ki, pn) <->
  exists w, getn l m = Some w /\ wf_farm w = fa /\ wf_kind w = ki /\ wf_pn w = pn.
Proof.
  unfold fattrs. split.
  - destruct (getn l m) as [w|]; [|discriminate]. intros H. inversion H. eauto.
  - intros (w & -> & <- & <- & <-). reflexivity.
Qed.

Lemma fattrs_setn l m w y m2 : getn l m = Some w -> wf_farm y = wf_farm w -> wf_kind y = wf_kind w -> wf_pn y = wf_pn w ->
  fattrs (setn l m y) m2 = fattrs l m2.
Proof.
  intros Hw H1 H2 H3. unfold fattrs. destruct (Z.eq_dec m m2) as [->|Hne].
  - rewrite (getn_setn_same _ _ _ _ Hw). rewrite Hw, H1, H2, H3. reflexivity.
  - rewrite getn_setn_other; auto. apply getn_some in Hw. lia.
Qed.

Lemma mtake_wfm_attrs s u m a s' w pp : mtake_wfm s u m a = Ok (s', (w, pp)) ->
  getn (m_wfm s) m = Some w /\ (forall m2, fattrs (m_wfm s') m2 = fattrs (m_wfm s) m2) /\ m_wlp s' = m_wlp s /\
  m_lp s' = m_lp s.
Proof.
  unfold mtake_wfm. intros H. destruct (getn (m_wfm s) m) as [w0|] eqn:Hw; [|discriminate].
  destruct (0 <? a); [|discriminate].
  mon H h Hh. mon H pp0 Hpp. mon H sup Hsup. mon H fb Hfb. mon H s2 Hs2. inversion H; subst s2 w0 pp0. clear H.
  assert (E : (forall m2, fattrs (m_wfm s') m2 = fattrs (m_wfm s) m2) /\ m_wlp s' = m_wlp s /\ m_lp s' = m_lp s).
  { destruct (wf_kind w =? 0).
    - unfold mlocked_out in Hs2. mon Hs2 l Hl. inversion Hs2; subst s'. simpl. splits; auto.
      intros m2. apply (fattrs_setn _ _ _ _ _ Hw); reflexivity.
    - mon Hs2 l Hl. inversion Hs2; subst s'. simpl. splits; auto.
      intros m2. apply (fattrs_setn _ _ _ _ _ Hw); reflexivity. }
  destruct E as (E1 & E2 & E3). splits; auto.
Qed.

(** the items of a merge are the (farm, kind, farming-token nonce) of the payments' positions *)
Definition item_of (l : list wfm) (p : pay) (it : item) : Prop :=
  let '(fa, a, ki, pn, _) := it in fattrs l (p_non p) = Some (fa, ki, pn) /\ a = p_amt p.

Lemma mtake_wfm_list_attrs ps : forall s u s' its, mtake_wfm_list s u ps = Ok (s', its) ->
  Forall2 (item_of (m_wfm s)) ps its /\ (forall m2, fattrs (m_wfm s') m2 = fattrs (m_wfm s) m2) /\ m_wlp s' = m_wlp s /\
  m_lp s' = m_lp s.
Proof.
  induction ps as [|p t IH]; intros s u s' its H; simpl in H.
  - inversion H; subst. splits; auto.
  - destruct (p_tok p =? TK_WFM); [|discriminate].
    mon H r Hr. destruct r as [s1 [w pp]]. mon H r2 Hr2. destruct r2 as [s2 its2]. inversion H; subst s' its. clear H.
    destruct (mtake_wfm_attrs _ _ _ _ _ _ _ Hr) as (Hw & A1 & W1 & L1).
    destruct (IH _ _ _ _ Hr2) as (Hall & A2 & W2 & L2). splits.
    + constructor.
      * unfold item_of, mk_item. split; [|reflexivity]. unfold fattrs. rewrite Hw. reflexivity.
      * clear - Hall A1. induction Hall; constructor; auto.
        destruct y as [[[[fa a] ki] pn] pp0]. unfold item_of in *. rewrite <- A1. exact H.
    + intros m2. rewrite A2. apply A1.
    + congruence.
    + congruence.
Qed.

Lemma items_same_all fa ki its : items_same fa ki its = true ->
  Forall (fun it => let '(fa', _, ki', _, _) := it in fa' = fa /\ ki' = ki) its.
Proof.
  induction its as [|it t IH]; simpl; intros H; [constructor|].
  destruct it as [[[[fa' a] ki'] pn] pp]. apply andb_prop in H. destruct H as [H H3]. apply andb_prop in H. destruct H as [H1 H2].
  apply Z.eqb_eq in H1. apply Z.eqb_eq in H2. constructor; auto.
Qed.

Lemma mkill_wlp_attrs s n a s' w lp : mkill_wlp s n a = Ok (s', (w, lp)) ->
  attrs (m_wlp s) n = Some (ml_pair w, ml_lid w) /\ (forall n2, attrs (m_wlp s') n2 = attrs (m_wlp s) n2).
Proof.
  unfold mkill_wlp. intros H. mon H r Hr. destruct r as [s1 [w1 l1]].
  destruct (mrelease_attrs _ _ _ _ _ _ Hr) as (Hw & A1 & _ & _ & _ & Hw1).
  rewrite Hw1 in H. inversion H; subst s' w lp. simpl. split.
  - unfold attrs. rewrite Hw. reflexivity.
  - intros n2. rewrite <- A1. apply (attrs_setn _ _ _ _ _ Hw1); reflexivity.
Qed.

Lemma mkill_items_same its : forall s pid lid s' tw tl, mkill_items s (Some (pid, lid)) its = Ok (s', (tw, tl)) ->
  Forall (fun it => let '(_, _, _, pn, _) := it in attrs (m_wlp s) pn = Some (pid, lid)) its.
Proof.
  induction its as [|it t IH]; intros s pid lid s' tw tl H; simpl in H; [constructor|].
  destruct it as [[[[fa a] ki] pn] pp].
  mon H r Hr. destruct r as [s1 [w1 lq]].
  match type of H with (if ?c then _ else _) = _ => destruct c eqn:Em; [|discriminate] end. apply (mergeable_some pid lid) in Em. destruct Em as [Ep El].
  mon H r2 Hr2. destruct r2 as [s2 [ta2 tl2]].
  destruct (mkill_wlp_attrs _ _ _ _ _ _ Hr) as (A0 & A1). rewrite Ep, El in A0.
  constructor; [exact A0|]. simpl in Hr2. specialize (IH _ _ _ _ _ _ Hr2).
  eapply Forall_impl; [|exact IH]. intros [[[[fa' a'] ki'] pn'] pp'] Hx. rewrite A1 in Hx. exact Hx.
Qed.

Lemma mkill_items_frame its : forall s fst s' tw tl, mkill_items s fst its = Ok (s', (tw, tl)) ->
  m_lp s' = m_lp s /\ m_wfm s' = m_wfm s.
Proof.
  induction its as [|it t IH]; intros s fst s' tw tl H; simpl in H.
  - inversion H. auto.
  - destruct it as [[[[fa a] ki] pn] pp]. mon H r Hr. destruct r as [sc [w1 lq]].
    destruct (mergeable fst w1); [|discriminate]. mon H r2 Hr2. destruct r2 as [sd [ta2 tl2]]. inversion H; subst sd.
    destruct (IH _ _ _ _ _ Hr2) as [E1 E2]. rewrite E1, E2.
    unfold mkill_wlp in Hr. mon Hr r3 Hr3. destruct r3 as [se [w3 l3]].
    destruct (mrelease_attrs _ _ _ _ _ _ Hr3) as (_ & _ & L & W & _). destruct (getn (m_wlp se) pn); [|discriminate].
    inversion Hr; subst sc. simpl. auto.
Qed.

Lemma mmint_wfm_struct s u farm f T kind pn P s' m : mmint_wfm s u farm f T kind pn P = (s', m) ->
  m = next_nonce (m_wfm s) /\ getn (m_wfm s') m = Some (mkWfm farm f T kind pn P T) /\ m_lp s' = m_lp s /\ m_wlp s' = m_wlp s.
Proof.
  unfold mmint_wfm. intros H. destruct (kind =? 0); inversion H; subst s' m; simpl; splits; auto; apply getn_app_new.
Qed.

Lemma mmint_wlp_struct s pid lid T k L usr s' n : mmint_wlp s pid lid T k L usr = (s', n) ->
  m_wfm s' = m_wfm s /\ m_lp s' = m_lp s.
Proof. unfold mmint_wlp. intros H. inversion H; subst s' n. simpl. auto. Qed.

(** mergeWrappedFarmTokens(farm): the inputs are positions of THAT farm with one kind of farming token;
    when the farming tokens are wrapped LP tokens, these record one LP token id; the merged token is of the
    farm and (laws) of the summed amount *)
Theorem merge_same_farm_only s u farm ps e s' x : mep_merge_wfm s u farm ps e = Ok (s', x) ->
  exists kind,
    Forall (fun p => exists w, getn (m_wfm s) (p_non p) = Some w /\ wf_farm w = farm /\ wf_kind w = kind) ps /\
    (kind <> 0 -> exists pid lid,
       Forall (fun p => exists w wl, getn (m_wfm s) (p_non p) = Some w /\ getn (m_wlp s) (wf_pn w) = Some wl /\
                                     ml_pair wl = pid /\ ml_lid wl = lid) ps) /\
    let m := next_nonce (m_wfm s) in
    (exists amt, x_outs x = [(TK_WFM, m, amt)] /\ (x_law x = true -> amt = sum_amt ps) /\
       exists w, getn (m_wfm s') m = Some w /\ wf_farm w = farm /\ wf_kind w = (if kind =? 0 then 0 else 1) /\ wf_T w = amt) /\
    (forall q, aget (m_lp s') q = aget (m_lp s) q).
Proof.
  unfold mep_merge_wfm. intros H. chk H. chk H. mon H r Hr. destruct r as [s1 its].
  mon H r2 Hr2. destruct r2 as [s2 [[m amt] law]]. destruct (v_rew e) as [rk ra].
  injection H as Es Ex. subst s' x.
  destruct (mtake_wfm_list_attrs _ _ _ _ _ Hr) as (Hall & A1 & W1 & L1).
  assert (Hlen : length (m_wfm s1) = length (m_wfm s)).
  { clear - A1. assert (forall m2, (getn (m_wfm s1) m2 = None) <-> (getn (m_wfm s) m2 = None)).
    { intros m2. specialize (A1 m2). unfold fattrs in A1. destruct (getn (m_wfm s1) m2), (getn (m_wfm s) m2); split; intros; try discriminate; auto. }
    destruct (Nat.lt_trichotomy (length (m_wfm s1)) (length (m_wfm s))) as [Hlt|[He|Hgt]]; [|exact He|]; exfalso.
    - specialize (H (Z.of_nat (length (m_wfm s1)) + 1)). unfold getn in H.
      destruct (Z.of_nat (length (m_wfm s1)) + 1 <=? 0) eqn:E; [apply Z.leb_le in E; lia|].
      replace (Z.to_nat (Z.of_nat (length (m_wfm s1)) + 1 - 1)) with (length (m_wfm s1)) in H by lia.
      destruct H as [H _]. specialize (H ltac:(apply nth_error_None; lia)). apply nth_error_None in H. lia.
    - specialize (H (Z.of_nat (length (m_wfm s)) + 1)). unfold getn in H.
      destruct (Z.of_nat (length (m_wfm s)) + 1 <=? 0) eqn:E; [apply Z.leb_le in E; lia|].
      replace (Z.to_nat (Z.of_nat (length (m_wfm s)) + 1 - 1)) with (length (m_wfm s)) in H by lia.
      destruct H as [_ H]. specialize (H ltac:(apply nth_error_None; lia)). apply nth_error_None in H. lia. }
  unfold mmerge_items in Hr2. destruct its as [|it0 t0] eqn:Eits; [discriminate|]. rewrite <- Eits in *.
  destruct it0 as [[[[fa a0] kind] pn0] pp0]. cbv beta iota in Hr2.
  destruct (items_same fa kind its) eqn:Esame; [|discriminate].
  destruct (fa =? farm) eqn:Efa; [|discriminate]. apply Z.eqb_eq in Efa. subst fa.
  destruct (v_ok e); [|discriminate].
  destruct (v_fact e) as [kf lf]. destruct (v_fmerge e) as [f' F'].
  pose proof (items_same_all _ _ _ Esame) as Hsame.
  assert (Hps : Forall (fun p => exists w, getn (m_wfm s) (p_non p) = Some w /\ wf_farm w = farm /\ wf_kind w = kind) ps).
  { clear - Hall Hsame. induction Hall; [constructor|]. inversion Hsame; subst. constructor; auto.
    destruct y as [[[[fa a] ki] pn] pp]. destruct H as [Hf _]. destruct H2 as [-> ->].
    apply fattrs_some in Hf. destruct Hf as (w & Hw & E1 & E2 & _). eauto. }
  assert (Htot : items_farm_total its = sum_amt ps).
  { clear - Hall. induction Hall; simpl; [reflexivity|]. destruct y as [[[[fa a] ki] pn] pp]. destruct H as [_ ->]. lia. }
  exists kind. split; [exact Hps|].
  destruct (kind =? 0) eqn:Ek.
  - apply Z.eqb_eq in Ek. subst kind.
    destruct (mmint_wfm s1 u farm f' F' 0 kf lf) as [sa ma] eqn:Hm. injection Hr2 as Es Em Ea El. subst s2 m amt law.
    destruct (mmint_wfm_struct _ _ _ _ _ _ _ _ _ _ Hm) as (Em & Hg & El & _).
    assert (Enn : next_nonce (m_wfm s) = ma) by (subst ma; unfold next_nonce; congruence).
    splits.
    + intros Hc. exfalso. apply Hc. reflexivity.
    + exists F'. splits.
      * cbn [x_outs no_eff]. rewrite Enn. reflexivity.
      * cbn [x_law no_eff]. intros Hl. apply andb_prop in Hl. destruct Hl as [Hl _]. apply andb_prop in Hl. destruct Hl as [_ Hl].
        apply Z.eqb_eq in Hl. lia.
      * rewrite Enn. eexists. split; [exact Hg|]. cbn. auto.
    + intros q. cbn [mlocked_in mu_locked m_lp]. rewrite El, L1. reflexivity.
  - destruct (getn (m_wlp s1) pn0) as [w0|] eqn:Hw0; [|discriminate].
    mon Hr2 rk2 Hk. destruct rk2 as [s3 [tw tl]].
    destruct (mmint_wlp s3 (ml_pair w0) (ml_lid w0) tw kf lf 0) as [sa na] eqn:Hm1.
    destruct (mmint_wfm sa u farm f' F' 1 na tw) as [sb mb] eqn:Hm2. injection Hr2 as Es Em Ea El. subst s2 m amt law.
    destruct (mmint_wlp_struct _ _ _ _ _ _ _ _ _ Hm1) as (Wa & La).
    destruct (mmint_wfm_struct _ _ _ _ _ _ _ _ _ _ Hm2) as (Emb & Hg & Lb & _).
    (* the underlying wrapped LP tokens *)
    assert (Hund : exists pid lid, Forall (fun it => let '(_, _, _, pn, _) := it in attrs (m_wlp s1) pn = Some (pid, lid)) its).
    { rewrite Eits in Hk. simpl in Hk. mon Hk r1 Hr1. destruct r1 as [s4 [w1 lq]]. simpl in Hk.
      mon Hk r3 Hr3. destruct r3 as [s5 [ta2 tl2]].
      destruct (mkill_wlp_attrs _ _ _ _ _ _ Hr1) as (A0 & A3).
      exists (ml_pair w1), (ml_lid w1). rewrite Eits. constructor; [exact A0|].
      pose proof (mkill_items_same _ _ _ _ _ _ _ Hr3) as Hx.
      eapply Forall_impl; [|exact Hx]. intros [[[[fa' a'] ki'] pn'] pp'] Hy. rewrite A3 in Hy. exact Hy. }
    destruct Hund as (pid & lid & Hund).
    destruct (mkill_items_frame _ _ _ _ _ _ Hk) as [Lk Wk].
    splits.
    + intros _. exists pid, lid. clear - Hall Hund W1. rewrite W1 in Hund. induction Hall; [constructor|]. inversion Hund; subst. constructor; auto.
      destruct y as [[[[fa a] ki] pn] pp]. destruct H as [Hf _]. apply fattrs_some in Hf. destruct Hf as (w & Hw & _ & _ & Epn).
      apply attrs_some in H2. destruct H2 as (wl & Hwl & E1 & E2). exists w, wl. subst pn. auto.
    + assert (Enn : next_nonce (m_wfm s) = mb) by (subst mb; rewrite Wa, Wk; unfold next_nonce; congruence).
      exists F'. splits.
      * cbn [x_outs no_eff]. rewrite Enn. reflexivity.
      * cbn [x_law no_eff]. intros Hl. apply andb_prop in Hl. destruct Hl as [Hl _]. apply andb_prop in Hl. destruct Hl as [_ Hl].
        apply Z.eqb_eq in Hl. lia.
      * rewrite Enn. eexists. split; [exact Hg|]. cbn. auto.
    + intros q. cbn [mlocked_in mu_locked m_lp]. rewrite Lb, La, Lk, L1. reflexivity.
Qed.

(** wrapped farm tokens of different farms (or with different kinds of farming token) offered to one merge:
    the transaction fails and nothing changes *)
Theorem merge_across_farms_fails s u farm ps e p q wp wq : In p ps -> In q ps ->
  getn (m_wfm s) (p_non p) = Some wp -> getn (m_wfm s) (p_non q) = Some wq ->
  wf_farm wp <> wf_farm wq \/ wf_kind wp <> wf_kind wq ->
  is_ok (mstep s (MMergeWfm u farm ps e)) = false /\ mstep_total s (MMergeWfm u farm ps e) = s.
Proof.
  intros Hp Hq Hwp Hwq Hne. unfold mstep_total. simpl.
  destruct (mep_merge_wfm s u farm ps e) as [[s' x]|er] eqn:E; [|auto].
  exfalso. destruct (merge_same_farm_only _ _ _ _ _ _ _ E) as (kind & Hall & _).
  rewrite Forall_forall in Hall.
  destruct (Hall _ Hp) as (w1 & H1 & P1 & L1). destruct (Hall _ Hq) as (w2 & H2 & P2 & L2).
  rewrite Hwp in H1. rewrite Hwq in H2. inversion H1; inversion H2; subst. destruct Hne as [Hn|Hn]; apply Hn; congruence.
Qed.

(** a position of another farm than the one named fails as well *)
Theorem merge_other_farm_fails s u farm ps e p wp : In p ps -> getn (m_wfm s) (p_non p) = Some wp -> wf_farm wp <> farm ->
  is_ok (mstep s (MMergeWfm u farm ps e)) = false /\ mstep_total s (MMergeWfm u farm ps e) = s.
Proof.
  intros Hp Hwp Hne. unfold mstep_total. simpl.
  destruct (mep_merge_wfm s u farm ps e) as [[s' x]|er] eqn:E; [|auto].
  exfalso. destruct (merge_same_farm_only _ _ _ _ _ _ _ E) as (kind & Hall & _).
  rewrite Forall_forall in Hall. destruct (Hall _ Hp) as (w1 & H1 & P1 & _). rewrite Hwp in H1. inversion H1; subst. contradiction.
Qed.

(** ---- the per-pair reading of the invariant *)
Theorem mbacked_pair s p : MBacked s ->
  sumf (ml_out p) (m_wlp s) <= aget (m_lp s) p /\ sumf ml_user (m_wlp s) = asum (m_hlp s).
Proof. intros Hb. split; [apply (mb_lp _ Hb) | apply (mb_tie _ Hb)]. Qed.

(** removeLiquidityProxy and enterFarmProxy hand the LP token RECORDED to the callee: a wrapped LP token of
    another pair than the one named / than the LP farm's is refused *)
Theorem remove_other_pair_fails s u pid p e w : getn (m_wlp s) (p_non p) = Some w -> ml_pair w <> pid ->
  is_ok (mstep s (MRemoveLiq u pid p e)) = false /\ mstep_total s (MRemoveLiq u pid p e) = s.
Proof.
  intros Hw Hne. unfold mstep_total. simpl.
  destruct (mep_remove_liq s u pid p e) as [[s' x]|er] eqn:E; [|auto]. exfalso.
  unfold mep_remove_liq in E. chk E. chk E. mon E r Hr. destruct r as [s1 [w1 lp]]. chk E. apply Z.eqb_eq in C1.
  destruct (mtake_wlp_user_attrs _ _ _ _ _ _ _ Hr) as (A0 & _). unfold attrs in A0. rewrite Hw in A0. inversion A0. congruence.
Qed.

(** ---- a concrete history executed on the real composed system with two pairs (tools/sys_proxydex_multi.py; the
    trace checker Run/ProxyMultiRun.v returns [] on it): three positions in the two pairs, merges across the
    pairs refused (both orders, and through addLiquidityProxy), a merge within pair 1, positions in both farms,
    merges across the farms refused, a removal naming the other pair refused, pair 1's LP refused by the LP farm *)
Definition mex_env (pair : Z * Z * Z) (farm fact : Z * Z) (unlock : Z) : env :=
  mkEnv 1 true pair farm (0, 0) (0, 0) fact (mkPEn 359000000000000 1 1000000000000) unlock.

Definition mex_ops : list mop := [
    MAddLiq 1 0 (2, 1, 100000) (1, 0, 200000) [] (mex_env (100000, 100000, 200000) (0, 0) (0, 0) 0);
    MAddLiq 1 1 (5, 0, 50000) (2, 1, 100000) [] (mex_env (50000, 50000, 100000) (0, 0) (0, 0) 0);
    MAddLiq 1 1 (5, 0, 30000) (2, 1, 70000) [] (mex_env (30000, 30000, 60000) (0, 0) (0, 0) 0);
    MMergeWlp 1 [(3, 1, 5000); (3, 2, 7000)] (mex_env (0, 0, 0) (0, 0) (0, 0) 0);
    MMergeWlp 1 [(3, 3, 7000); (3, 1, 5000)] (mex_env (0, 0, 0) (0, 0) (0, 0) 0);
    MMergeWlp 1 [(3, 2, 7000); (3, 3, 9000)] (mex_env (0, 0, 0) (0, 0) (1, 32000) 0);
    MAddLiq 1 0 (2, 1, 40000) (1, 0, 80000) [(3, 4, 1000)] (mex_env (0, 0, 0) (0, 0) (0, 0) 0);
    MEnterFarm 1 0 (2, 1, 50000) [] (mex_env (0, 0, 0) (1, 50000) (0, 0) 0);
    MEnterFarm 1 1 (3, 1, 20000) [] (mex_env (0, 0, 0) (1, 20000) (0, 0) 0);
    MMergeWfm 1 0 [(4, 1, 1000); (4, 2, 1000)] (mex_env (0, 0, 0) (0, 0) (0, 0) 0);
    MMergeWfm 1 1 [(4, 2, 1000); (4, 1, 1000)] (mex_env (0, 0, 0) (0, 0) (0, 0) 0);
    MRemoveLiq 1 0 (3, 4, 4000) (mex_env (0, 0, 0) (0, 0) (0, 0) 360);
    MRemoveLiq 1 1 (3, 4, 4000) (mex_env (0, 8000, 4000) (0, 0) (0, 0) 360);
    MEnterFarm 1 1 (3, 4, 1000) [] (mex_env (0, 0, 0) (0, 0) (0, 0) 0)].
