(** Reward-per-share index of the farm (C06): how it grows, what a position is paid, why nothing
    is retroactive. *)
From MX Require Import Base.Prelude Gen.Params Model.Farm Proofs.FarmInv Proofs.FarmSolv.

Definition is_floor (q n d : Z) : Prop := q * d <= n < (q + 1) * d.

Lemma is_floor_div n d : 0 < d -> is_floor (n / d) n d.
Proof. intros. unfold is_floor. pose proof (div_lo n d H). pose proof (div_hi n d H). lia. Qed.

(** rewards minted for the blocks (last, blk] : rate * blocks while production is enabled *)
Definition minted (f : farm) (blk : Z) : Z :=
  if blk <=? f_last f then 0 else if f_produce f then f_rate f * (blk - f_last f) else 0.

(** settlement: the index grows by floor(base_share * DSC / supply), base_share = minted - boosted cut;
    nothing happens for supply = 0 or while production is off; the last-reward block advances *)
Lemma settle_char f blk f' : settle f blk = Ok f' -> wf_cfg f ->
  let tm := minted f blk in
  let cut := boosted_cut f tm in
  f_last f' = Z.max (f_last f) blk /\
  f_gen f' = f_gen f + tm /\ f_pool f' = f_pool f + cut /\ f_reserve f' = f_reserve f + tm /\
  0 <= cut <= tm /\ cut = (if (f_pct f =? 0) || negb (f_factors f) then 0 else tm * f_pct f / MAXP) /\
  (f_supply f = 0 -> f_rps f' = f_rps f) /\
  (0 < f_supply f -> is_floor (f_rps f' - f_rps f) ((tm - cut) * f_dsc f) (f_supply f)) /\
  f_supply f' = f_supply f /\ f_rate f' = f_rate f /\ f_produce f' = f_produce f /\ f_pct f' = f_pct f.
Proof.
  unfold settle, minted. intros H (Hd & Hr & Hp & Hs & Hrp & Hpl). cbv zeta.
  destruct (blk <=? f_last f) eqn:E.
  { inversion H; subst. apply Z.leb_le in E. unfold boosted_cut.
    destruct ((f_pct f' =? 0) || negb (f_factors f')) eqn:Eb; simpl;
      repeat split; try lia; try reflexivity;
      try (unfold is_floor; nia);
      try (pose proof maxp_pos; rewrite Z.mul_0_l; reflexivity);
      try (replace (0 / MAXP) with 0 by reflexivity; lia). }
  apply Z.leb_gt in E. cbv zeta in H.
  set (tm := if f_produce f then f_rate f * (blk - f_last f) else 0) in *.
  assert (Htm : 0 <= tm) by (unfold tm; destruct (f_produce f); nia).
  pose proof (boosted_cut_bounds f tm Htm Hp) as Hc.
  destruct (tm =? 0) eqn:E0.
  { apply Z.eqb_eq in E0. inversion H; subst f'; clear H. simpl. rewrite E0 in *.
    assert (boosted_cut f 0 = 0) by lia. rewrite H.
    repeat split; try lia; try reflexivity.
    all: try (unfold is_floor; nia).
    all: try (unfold boosted_cut in H; destruct ((f_pct f =? 0) || negb (f_factors f)); [reflexivity | exact (eq_sym H)]). }
  apply bind_ok in H. destruct H as (inc & Hinc & H). inversion H; subst f'; clear H. simpl.
  assert (F0 : f_supply f = 0 -> inc = 0).
  { intros Hs0. rewrite Hs0 in Hinc. simpl in Hinc. inversion Hinc. reflexivity. }
  assert (F1 : 0 < f_supply f -> is_floor inc ((tm - boosted_cut f tm) * f_dsc f) (f_supply f)).
  { intros Hs0. destruct (f_supply f =? 0) eqn:ES; [apply Z.eqb_eq in ES; lia|].
    apply div_chk_ok in Hinc. destruct Hinc as [_ ->]. apply is_floor_div. assumption. }
  split; [lia|]. split; [lia|]. split; [lia|]. split; [lia|]. split; [lia|]. split; [reflexivity|].
  split; [intros Hs0; rewrite (F0 Hs0); lia|].
  split; [intros Hs0; replace (f_rps f + inc - f_rps f) with inc by lia; exact (F1 Hs0)|].
  repeat split; reflexivity.
Qed.

(** what claim pays: the boosted part b plus floor(amount * (RPS_now - RPS_entry) / DSC) *)
Lemma claim_reward_char f blk ep c n0 x0 adds b f' o : FarmAcc f ->
  ep_claim f blk ep c (n0, x0) adds b = Ok (f', o) ->
  exists f1 f2 a nn amt base,
    pay_all f c ((n0, x0) :: adds) = Ok f1 /\ settle f1 blk = Ok f2 /\
    find_attrs (f_attrs f) n0 = Some a /\ o = [nn; amt; base + b] /\ 0 <= base /\ 0 < x0 /\
    (a_rps a < f_rps f2 -> is_floor base (x0 * (f_rps f2 - a_rps a)) (f_dsc f)) /\
    (f_rps f2 <= a_rps a -> base = 0) /\
    f_rps f' = f_rps f2 /\ amt = x0 + psum (fun _ => 1) adds.
Proof.
  intros [M out prin] H. unfold ep_claim in H.
  destruct (active f); [|discriminate].
  apply bind_ok in H. destruct H as (f1 & H1 & H).
  apply bind_ok in H. destruct H as (f2 & H2 & H).
  apply bind_ok in H. destruct H as (a & Ha & H).
  apply bind_ok in H. destruct H as (part & Hpart & H).
  apply bind_ok in H. destruct H as (base & Hbase & H).
  apply bind_ok in H. destruct H as (f3 & H3 & H).
  apply bind_ok in H. destruct H as (f4 & H4 & H).
  apply bind_ok in H. destruct H as (m & Hm & H).
  destruct (mint_pos f4 m c) as [f5 n] eqn:Hmint. inversion H; subst; clear H.
  pose proof H1 as H1'. apply pay_all_MI in H1'; auto. destruct H1' as (M1 & SB1 & N1 & A1 & U1 & O1 & Pos1 & K1).
  pose proof H2 as H2'. apply settle_MI in H2'; auto.
  destruct H2' as (M2 & D2 & C2 & T2 & S2 & BF2 & Pd2 & L2 & tm & cut & inc & Hcut & Hinc & Hinc2 & Res2 & R2 & P2 & G2).
  destruct (toks_fields _ _ T2) as (Nx2 & At2 & Ou2).
  apply get_attrs_some in Ha. cbn [fst snd] in *.
  apply into_part_amt in Hpart. destruct Hpart as (Pa & Pr & Pe & Po).
  apply pay_reward_MI in H3; auto.
  destruct H3 as (M3 & D3 & C3 & T3 & S3 & R3 & L3 & BF3 & G3 & Hb & Hr & Res3 & P3 & Pd3).
  apply check_update_only in H4. destruct H4 as (SB4 & Nx4 & At4 & Hd4 & Ou4).
  destruct (sbt_fields _ _ SB4) as (Sup4 & Rs4 & Rp4 & Dsc4 & Pl4).
  apply merge_payments_amt in Hm. cbn [a_amt] in Hm. destruct Hm as [Hm _].
  exists f1, f2, a, n, (a_amt m), base.
  split; [exact H1|]. split; [exact H2|]. split; [congruence|]. split; [reflexivity|].
  assert (Hx0 : 0 < x0) by (inversion Pos1; subst; cbn [snd] in *; tauto).
  assert (Hd : 0 < f_dsc f2) by (apply dsc_pos; assumption).
  assert (Hdeq : f_dsc f2 = f_dsc f).
  { pose proof (cfgt_dsc _ _ C2). destruct (sbt_fields _ _ SB1) as (_ & _ & _ & X & _). congruence. }
  unfold base_reward in Hbase. rewrite Pr in Hbase.
  split; [|split; [exact Hx0|split; [|split; [|split]]]].
  - destruct (a_rps a <? f_rps f2) eqn:E; [|inversion Hbase; lia].
    apply div_chk_ok in Hbase. destruct Hbase as [_ ->]. apply Z.ltb_lt in E. apply div_nonneg; nia.
  - intros Hlt. apply Z.ltb_lt in Hlt. rewrite Hlt in Hbase. apply div_chk_ok in Hbase. destruct Hbase as [_ ->].
    rewrite <- Hdeq. apply is_floor_div. assumption.
  - intros Hge. apply Z.ltb_ge in Hge. rewrite Hge in Hbase. inversion Hbase. reflexivity.
  - unfold mint_pos in Hmint. inversion Hmint; subst f'. cbn [f_rps upd_out upd_tokens]. lia.
  - lia.
Qed.

(** a position created by enterFarm starts at the index settled up to the current block: it earns
    nothing for blocks before it entered *)
Lemma enter_index f blk ep c amt b f' o : FarmAcc f -> Solv f -> valid_id c ->
  ep_enter f blk ep c amt [] b = Ok (f', o) ->
  exists n, o = [n; amt; b] /\
    find_attrs (f_attrs f') n = Some (mkAttrs (f_rps f') ep 0 amt c) /\ f_rps f <= f_rps f'.
Proof.
  intros A [[_ fresh] _] Hc H. pose proof (ep_enter_acc _ _ _ _ _ _ _ _ _ H A Hc) as (A' & _ & Hr).
  unfold ep_enter in H.
  destruct (0 <? amt) eqn:Ea; [|discriminate].
  apply bind_ok in H. destruct H as (f0 & H0 & H).
  destruct (active f0); [|discriminate].
  cbn [pay_all check_update bind] in H.
  apply bind_ok in H. destruct H as (f4 & H4 & H). cbn [merge_payments bind] in H.
  inversion H; subst; clear H. cbn.
  exists (f_next f4). split; [reflexivity|]. split; [|exact Hr].
  destruct A as [M _ _].
  apply pay_reward_MI in H0; auto. destruct H0 as (M0 & _ & _ & T0 & _).
  destruct (toks_fields _ _ T0) as (Nx0 & At0 & _).
  pose proof (set_utot_only f0 c (utot f0 c + amt)) as H3. fold (increase_user f0 c amt) in H3.
  pose proof (only_utot_MI _ _ H3 M0) as M3.
  apply settle_MI in H4; auto. destruct H4 as (M4 & _ & _ & T4 & _).
  destruct (toks_fields _ _ T4) as (Nx4 & At4 & _). cbn in Nx4, At4.
  apply find_attrs_app_new. intros k a' Hin.
  rewrite At4, At0 in Hin. specialize (fresh _ _ Hin). lia.
Qed.

(** base rewards paid never exceed base rewards generated (rate * blocks minus the boosted share):
    with gen = all minted, paid = all paid, pool = boosted share not yet paid *)
Lemma issuance_bound f : FarmAcc f -> Solv f -> f_paid f + f_pool f <= f_gen f.
Proof.
  intros A S. pose proof (pool_within_reserve f A S). destruct A as [[acc _ _ _ _ _ _] _ _]. lia.
Qed.

(** admin changes settle first with the OLD parameters: never retroactive *)
Lemma admin_settles_first f blk c f' o :
  (forall r, fstep f (FSetRate blk c r) = Ok (f', o) ->
     exists f1, settle f blk = Ok f1 /\ f_rps f' = f_rps f1 /\ f_reserve f' = f_reserve f1 /\ f_rate f' = r) /\
  (fstep f (FEnd blk c) = Ok (f', o) ->
     exists f1, settle f blk = Ok f1 /\ f_rps f' = f_rps f1 /\ f_reserve f' = f_reserve f1 /\ f_produce f' = false) /\
  (forall p, fstep f (FSetPct blk c p) = Ok (f', o) ->
     exists f1, settle f blk = Ok f1 /\ f_rps f' = f_rps f1 /\ f_pool f' = f_pool f1 /\ f_pct f' = p) /\
  (fstep f (FStart blk c) = Ok (f', o) -> f_rps f' = f_rps f /\ f_last f' = blk /\ f_produce f' = true).
Proof.
  split; [|split; [|split]].
  - intros r H. simpl in H. destruct (admin c); [|discriminate]. destruct (_ && _); [|discriminate].
    apply bind_ok in H. destruct H as (f1 & H1 & H). inversion H; subst. exists f1. simpl. auto.
  - intros H. simpl in H. destruct (admin c); [|discriminate].
    apply bind_ok in H. destruct H as (f1 & H1 & H). inversion H; subst. exists f1. simpl. auto.
  - intros p H. simpl in H. destruct (admin c); [|discriminate]. destruct (_ && _); [|discriminate].
    apply bind_ok in H. destruct H as (f1 & H1 & H). inversion H; subst. exists f1. simpl. auto.
  - intros H. simpl in H. destruct (admin c); [|discriminate]. destruct (negb (f_rate f =? 0)); [|discriminate].
    destruct (negb (f_produce f)); [|discriminate]. inversion H; subst. simpl. auto.
Qed.
